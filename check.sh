#!/bin/bash
# usage: check.sh <Cxx> [quick|thorough]
# Rebuilds the checker if needed, then analyses /repo/src's current working
# tree (parse + type-check in process, nothing cached between runs) and writes
# /verif/evidence/<Cxx>.json. Exit 0 = all obligations discharged (known
# findings printed), 1 = VIOLATION line(s), 2 = UNDECIDED (machinery could not
# decide: lost anchor, load failure).
prop=${1:?property id}
tier=${2:-${VERIF_TIER:-quick}}
export GOFLAGS=-mod=mod GOPROXY=off GOSUMDB=off GOTOOLCHAIN=local GOWORK=off
unset GOOS GOARCH
cd /verif/checker || exit 2
if ! go build -o /verif/bin/rscheck ./cmd/rscheck; then
  echo "UNDECIDED property=$prop checker does not build"
  exit 2
fi
cd /verif
exec /verif/bin/rscheck -prop "$prop" -tier "$tier"
