#!/bin/bash
# usage: check.sh <Cxx> [quick|thorough]
# Rebuilds the checker if its sources are newer than the binary (under a lock, so that
# checks may run in parallel), then analyses /repo/src's current working tree (parse +
# type-check in process, nothing cached between runs) and writes /verif/evidence/<Cxx>.json.
# Exit 0 = all obligations discharged (known findings printed), 1 = VIOLATION line(s),
# 2 = UNDECIDED (machinery could not decide: lost anchor, load failure).
prop=${1:?property id}
tier=${2:-${VERIF_TIER:-quick}}
export GOFLAGS=-mod=mod GOPROXY=off GOSUMDB=off GOTOOLCHAIN=local GOWORK=off
unset GOOS GOARCH
mkdir -p /verif/bin /verif/evidence
(
  flock 9
  if [ ! -x /verif/bin/rscheck ] || [ -n "$(find /verif/checker -name '*.go' -newer /verif/bin/rscheck -print -quit)" ] || [ /verif/checker/go.mod -nt /verif/bin/rscheck ]; then
    cd /verif/checker && go build -o /verif/bin/rscheck.new ./cmd/rscheck && mv -f /verif/bin/rscheck.new /verif/bin/rscheck
  fi
) 9>/verif/bin/.build.lock
if [ ! -x /verif/bin/rscheck ]; then
  echo "UNDECIDED property=$prop checker does not build"
  exit 2
fi
cd /verif
exec /verif/bin/rscheck -prop "$prop" -tier "$tier"
