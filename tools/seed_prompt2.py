import sys
pid=sys.argv[1]
prop=open(f'/tmp/wt/{pid}.property.txt').read()
print(f"""You are testing how well a verification setup detects subtle regressions in a Go code base (a fork of Alibaba RedisShake). You have your own scratch git worktree of the repository at /tmp/wt/{pid}u (module root /tmp/wt/{pid}u/src, module github.com/alibaba/RedisShake). Work ONLY inside /tmp/wt/{pid}u and /tmp/wt/{pid}u.out . Do not read or touch /verif, /repo or any other /tmp/wt/* directory.

Here is a behavioural property the code is supposed to satisfy:

---
{prop}---

YOUR TASK: produce THREE different, independent source changes (call them m4, m5, m6) to the repository's non-test Go code, each of which BREAKS this property, while
 (a) the changed tree still compiles/type-checks exactly as well as before, and the existing test suite still passes (`cd /tmp/wt/{pid}u/src && go test -vet=off -count=1 ./pkg/...` — these are the only packages whose tests run today), and
 (b) the breakage needs something specific to manifest — a particular interleaving, a fault or close at a particular point, a multi-step sequence of operations, an unusual but legal input/configuration, a boundary value, or two cooperating sites that each look fine alone — NOT something that ordinary use or the existing tests expose at once.
Make the three changes different in kind and location (different functions / different clauses of the property), and prefer places a reviewer would not look at first: a rarely taken branch, a boundary of a loop or of a length computation, the second of two similar code paths (a duplicated implementation, the file-backed instead of the memory-backed variant, the cluster instead of the standalone path), an error path, a default/else arm, a table row for an uncommon command, state that is carried from one call/iteration to the next. Keep each change small (1-15 changed lines) and realistic — the sort of slip a maintainer could make in a refactor or an "optimisation" (a dropped wake-up, an off-by-one in a bound, a swapped argument, a check moved after the action it guards, an error no longer propagated, a wrong constant in a rarely used table row, a field copied from the wrong place, ...). Do not add comments that reveal the change.

For each change also write a DEMONSTRATION: a Go test file (or a small Go program) that FAILS with the change applied and PASSES without it, exercising the real code (not a copy). It may use mocks/fakes for network connections (net.Pipe, an in-process fake server, a fake redigo.Conn implementation) — no real Redis server is available, no network at all.

Environment facts:
- No network. Every shell call needs: export GOFLAGS=-mod=mod GOPROXY=off GOSUMDB=off GOTOOLCHAIN=local  (Go 1.23; all dependencies are in the module cache).
- IMPORTANT pre-existing breakage: the package redis-shake/common does not compile on the pinned tree because src/redis-shake/common/common.go declares the const block `KB … PB` twice; every package that imports it (redis-shake/..., redis-shake/dbSync, filter, checkpoint, ...) therefore does not compile either, and package redis-shake/main has further unrelated type errors. Only ./pkg/... compiles and has running tests. If your change or your demonstration is in one of the affected packages, create a preparatory patch `prep.diff` that ONLY deletes the second, duplicated `const ( KB … PB )` block in common.go, and treat "tree + prep" as the baseline: your demonstration must pass on tree+prep and fail on tree+prep+change, and tree+prep+change must type-check wherever tree+prep does (`go vet ./redis-shake/common/ ./redis-shake/dbSync/... ./redis-shake/filter/ ./redis-shake/checkpoint/ ./redis-shake/scanner/ ./redis-shake/metric/ ./redis-shake/` or `go build` of those packages is a good check; ignore redis-shake/main). The prep patch is NOT part of your change and must not be included in patch.diff. If the property's code lives under ./pkg/ you do not need a prep patch.
- Existing tests in redis-shake/... do not compile today and are not part of the suite; do not rely on them, but you may read them for ideas on fakes.

Deliverables, for i in 4,5,6, under /tmp/wt/{pid}u.out/m<i>/ :
  patch.diff   — `git diff` of the change only (relative to the pinned HEAD; must apply with `git apply` from the repository root /tmp/wt/{pid}u); non-test files only
  prep.diff    — only if needed, as described above
  demo/…       — the demonstration files with their intended relative paths recorded in notes.txt (e.g. "copy demo/zz_demo_test.go to src/pkg/libs/io/pipe/zz_demo_test.go"), plus run.sh that runs it from the repository root and exits non-zero on failure
  notes.txt    — which clause of the property breaks, what exactly is needed for it to manifest (input / schedule / fault / configuration), and the output you observed: (1) existing suite with the change, (2) demonstration without the change (pass), (3) demonstration with the change (fail).
Verify all of this yourself before finishing; `git stash`/`git checkout -- .` between variants so the worktree is clean (pinned HEAD, no leftover files) when you finish. Your final message: one paragraph per change (file/function changed, what breaks, how the demo triggers it).""")
