#!/bin/bash
# Developer tool: run ALL properties' quick checks against a scratch copy of /repo with a
# (behaviour-preserving) patch applied; print one line per property that is not silent.
#   tools/refrun.sh /path/to/patch.diff
set -u
patch=$1
d=$(mktemp -d /tmp/rsref.XXXXXX)
trap 'rm -rf "$d"' EXIT
cp -r /repo/src "$d/src"; mkdir -p "$d/verif"; cp /verif/known_findings.json "$d/verif/" 2>/dev/null
if ! patch -s -p1 -d "$d" < "$patch"; then echo "REF: patch does not apply"; exit 3; fi
export GOFLAGS=-mod=mod GOPROXY=off GOSUMDB=off GOTOOLCHAIN=local
out=$(RS_NO_SELFTEST=1 RS_REPO=$d RS_VERIF=$d/verif ${RS_BIN:-/verif/bin/rscheck} -prop all 2>&1 | sed "s#$d/##g"); if [ -n "${RS_KEEP_RAW:-}" ]; then echo "$out" > $RS_KEEP_RAW/$(basename $(dirname $patch)).raw; fi
echo "$out" | grep "^UNDECIDED load" | head -3
echo "$out" | grep -A1 "^VIOLATION" | grep -v "^--" | paste - - | sed -E 's/replay=[^ ]+ //' | cut -c1-260 | sed 's/^/  FALSE-ALARM /'
echo "$out" | grep "^UNDECIDED property" | cut -c1-230 | sed 's/^/  /'
echo "$out" | grep -q "^VIOLATION\|^UNDECIDED" || echo "  SILENT"
