#!/bin/bash
# Developer tool: confirm and measure one property's fresh seeded changes.
#   WT_SUFFIX=z tools/seedround.sh C09 m13 m14 m15
# For each: tools/seedverify.sh (demo passes without / fails with, suite unchanged), then the property's quick
# check on a scratch copy with the patch (tools/seedrun.sh). Prints one line per change.
prop=$1; shift
sfx=${WT_SUFFIX:-}
for m in "$@"; do
  out=/tmp/wt/$prop$sfx.out/$m
  [ -f $out/patch.diff ] || { echo "ROUND $prop-$m NO-PATCH"; continue; }
  v=$(/verif/tools/seedverify.sh $prop $m 2>&1 | tail -3 | tr '\n' ' ')
  if echo "$v" | grep -q SEED-OK; then ok=SEED-OK; else ok="SEED-BAD[$v]"; fi
  r=$(/verif/tools/seedrun.sh $prop $out/patch.diff 2>&1)
  if echo "$r" | grep -q "^VIOLATION property=$prop"; then res="DETECTED $(echo "$r" | grep -A1 '^VIOLATION' | sed -n 2p | cut -c1-160)"
  elif echo "$r" | grep -q "^UNDECIDED"; then res="UNDECIDED $(echo "$r" | grep '^UNDECIDED' | head -1 | cut -c1-160)"
  elif echo "$r" | grep -q "patch does not apply"; then res=NOAPPLY
  else res=MISSED; fi
  echo "ROUND $prop-$m $ok $res"
done
