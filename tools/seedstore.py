#!/usr/bin/env python3
"""Developer tool: copy a confirmed seeded change from /tmp/wt/<PROP>.out/<m> into /verif/seeded/<PROP>-<m>/ with meta.json.
usage: seedstore.py PROP m "detected by ..." [base-commit]"""
import json,os,shutil,glob,sys,subprocess
p,m,d=sys.argv[1:4]
sfx=os.environ.get('WT_SUFFIX','')
base=sys.argv[4] if len(sys.argv)>4 else subprocess.check_output(['git','-C',f'/tmp/wt/{p}{sfx}','rev-parse','--short','HEAD']).decode().strip()
src=f'/tmp/wt/{p}{sfx}.out/{m}'; dst=f'/verif/seeded/{p}-{m}'
if os.path.exists(dst): shutil.rmtree(dst)
os.makedirs(dst+'/demo')
shutil.copy(src+'/patch.diff',dst+'/patch.diff')
if os.path.exists(src+'/prep.diff'): shutil.copy(src+'/prep.diff',dst+'/prep.diff')
for f in glob.glob(src+'/demo/*')+glob.glob(src+'/run.sh'):
    if os.path.isfile(f): shutil.copy(f,dst+'/demo/'+os.path.basename(f))
notes=open(src+'/notes.txt').read() if os.path.exists(src+'/notes.txt') else ''
open(dst+'/notes.txt','w').write(notes)
meta={"property":p,"id":f"{p}-{m}","source":"independent sub-agent given only the property text and a scratch worktree",
      "needs_to_manifest":notes[:1500],
      "confirmed":f"tools/seedverify.sh {p} {m} in scratch worktree /tmp/wt/{p}{sfx} (HEAD {base}): demonstration passes without the change, fails with it; ./pkg/... suite result unchanged by the change (pkg/libs/cupcake/rdb fails on the baseline too: missing fixtures)",
      "checked_with":f"tools/seedrun.sh {p} seeded/{p}-{m}/patch.diff (scratch copy of /repo/src via RS_REPO; /repo untouched)",
      "detected_by":d}
json.dump(meta,open(dst+'/meta.json','w'),indent=1)
print('stored',dst)
