#!/bin/bash
# Developer tool: run every behaviour-preserving change under /verif/refactors through all checks.
cd /verif
for d in refactors/*/; do
  id=$(basename $d)
  out=$(tools/refrun.sh $d/patch.diff 2>&1)
  if echo "$out" | grep -q "SILENT"; then echo "SILENT      $id"
  elif echo "$out" | grep -q "FALSE-ALARM"; then echo "FALSE-ALARM $id  $(echo "$out" | grep FALSE-ALARM | sed -E 's/.*property=(C[0-9]+) +[^ ]+ ([^:]+):.*/\1:\2/' | sort -u | tr '\n' ' ' | cut -c1-200)"
  else echo "UNDECIDED   $id  $(echo "$out" | grep UNDECIDED | sed -E 's/.*property=(C[0-9]+) ([^:]+):.*/\1:\2/' | sort -u | tr '\n' ' ' | cut -c1-200)"; fi
done
