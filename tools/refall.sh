#!/bin/bash
# Developer tool: run every behaviour-preserving change under /verif/refactors (or those matching $1)
# through all checks, 8 at a time.
cd /verif
one() {
  d=$1; id=$(basename $d)
  out=$(tools/refrun.sh $d/patch.diff 2>&1)
  if ! echo "$out" | grep -q "SILENT"; then mkdir -p /tmp/refall.out; echo "$out" > /tmp/refall.out/$id.txt; fi
  if echo "$out" | grep -q "SILENT"; then echo "SILENT      $id"
  elif echo "$out" | grep -q "FALSE-ALARM"; then echo "FALSE-ALARM $id  $(echo "$out" | grep FALSE-ALARM | sed -E 's/.*property=(C[0-9]+) +[^ ]+ ([^:]+):.*/\1:\2/' | sort -u | tr '\n' ' ' | cut -c1-300)"
  elif echo "$out" | grep -q "REF: patch does not apply"; then echo "NOAPPLY     $id"
  else echo "UNDECIDED   $id  $(echo "$out" | grep UNDECIDED | sed -E 's/.*property=(C[0-9]+) ([^:]+):.*/\1:\2/' | sort -u | tr '\n' ' ' | cut -c1-300)"; fi
}
export -f one
ls -d refactors/*/ | grep "${1:-.}" | xargs -P ${REFALL_P:-8} -I{} bash -c 'one {}' | sort -k2
