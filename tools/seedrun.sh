#!/bin/bash
# Developer tool: run one property's check against a scratch copy of /repo with a patch applied.
#   tools/seedrun.sh C01 /path/to/patch.diff [quick|thorough]
set -u
prop=$1; patch=$2; tier=${3:-quick}
d=$(mktemp -d /tmp/rsseed.XXXXXX)
trap 'rm -rf "$d"' EXIT
cp -r /repo/src "$d/src"; mkdir -p "$d/verif"; cp /verif/known_findings.json "$d/verif/" 2>/dev/null
if ! patch -s -p1 -d "$d" < "$patch"; then echo "SEED: patch does not apply"; exit 3; fi
export GOFLAGS=-mod=mod GOPROXY=off GOSUMDB=off GOTOOLCHAIN=local
RS_NO_SELFTEST=1 RS_REPO=$d RS_VERIF=$d/verif ${RS_BIN:-/verif/bin/rscheck} -prop "$prop" -tier "$tier" 2>&1 | grep -v '^normalisation\|^loaded' | sed "s#$d/##g"
exit 0
