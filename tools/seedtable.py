#!/usr/bin/env python3
"""Developer tool: markdown rows (id | file | rule key | how) for the seeds named by a pattern,
from a first-measurement log and a final seedall-style log.
usage: seedtable.py first.log final.log 'm1[0-2]$'"""
import re,sys,os
first,final,pat=sys.argv[1:4]
def load(p):
    d={}
    for l in open(p):
        m=re.match(r'(DETECTED|UNDECIDED|MISSED)\s+(\S+)\s*(.*)',l)
        if m: d[m.group(2)]=(m.group(1),m.group(3))
    return d
a,b=load(first),load(final)
for sid in sorted(b):
    if not re.search(pat,sid): continue
    st,rest=b[sid]
    f='?'
    pd=f'/verif/seeded/{sid}/patch.diff'
    if os.path.exists(pd):
        for l in open(pd):
            if l.startswith('+++ b/src/'): f=l[10:].strip(); break
    key='-'
    m=re.search(r'\S+:\d+:\d+ (\S+?):',rest)
    if m: key='`'+m.group(1)+'`'
    fs=a.get(sid,('?',''))[0]
    how={'DETECTED':'caught as built','MISSED':'missed at first, rule added','UNDECIDED':'UNDECIDED at first, now decided'}.get(fs,'?')
    if st!='DETECTED': how={'MISSED':'not reported (see text)','UNDECIDED':'UNDECIDED (see text)'}[st]
    print(f'| {sid} | {f} | {key} | {how} |')
