#!/bin/bash
# Developer tool (not a registered check): like mut.sh but takes the old and
# new text as separate arguments:  tools/mut3.sh C02 <file under src> OLD NEW [<file> OLD NEW ...]
set -u
prop=$1; shift
d=$(mktemp -d /tmp/rsmut.XXXXXX)
trap 'rm -rf "$d"' EXIT
cp -r /repo/src "$d/src"
mkdir -p "$d/verif"; cp /verif/known_findings.json "$d/verif/" 2>/dev/null
while [ $# -ge 3 ]; do
  f=$1; old=$2; new=$3; shift 3
  python3 - "$d/src/$f" "$old" "$new" <<'PY' || exit 3
import sys
p,old,new=sys.argv[1:4]
s=open(p).read()
if old not in s:
    print("MUT: pattern not found:",old); sys.exit(3)
open(p,'w').write(s.replace(old,new,1))
PY
done
export GOFLAGS=-mod=mod GOPROXY=off GOSUMDB=off GOTOOLCHAIN=local
RS_REPO=$d RS_VERIF=$d/verif ${RS_BIN:-/verif/bin/rscheck} -prop "$prop" ${RS_ARGS:-} 2>&1 | grep -v '^normalisation\|^loaded' | sed "s#$d/##g"
exit 0
