#!/usr/bin/env python3
"""Developer tool: refresh "detected_by" in /verif/seeded/*/meta.json from a tools/seedall.sh log.
usage: seedmeta.py /path/to/seedall.log"""
import json,sys,re,os
for line in open(sys.argv[1]):
    m=re.match(r'(DETECTED|UNDECIDED|MISSED)\s+(\S+)\s*(.*)',line)
    if not m: continue
    st,sid,rest=m.groups()
    p=f'/verif/seeded/{sid}/meta.json'
    if not os.path.exists(p): continue
    meta=json.load(open(p))
    prop=meta['property']
    if st=='DETECTED': d=f'quick check {prop} exits 1: {rest.strip()}'
    elif st=='UNDECIDED': d=f'quick check {prop} exits 2: {rest.strip()}'
    else: d='MISSED'
    if meta.get('detected_by')!=d:
        if meta.get('detected_by','').startswith('MISSED') or 'exits 2' in meta.get('detected_by',''):
            meta['first_measurement']=meta['detected_by']
        meta['detected_by']=d
        json.dump(meta,open(p,'w'),indent=1)
