#!/bin/bash
# Developer tool: obligations (rule/key status) of one property on the pinned tree vs. on a patched
# scratch copy; prints the keys that differ.
#   tools/obdiff.sh C02 refactors/C02-r22/patch.diff
prop=$1; patch=$2
export GOFLAGS=-mod=mod GOPROXY=off GOSUMDB=off GOTOOLCHAIN=local
bin=${RS_BIN:-/verif/bin/rscheck-iso}
d=$(mktemp -d /tmp/rsseed.XXXXXX); trap 'rm -rf "$d"' EXIT
cp -r /repo/src $d/src; mkdir -p $d/verif; cp /verif/known_findings.json $d/verif/
RS_NO_SELFTEST=1 RS_REPO=$d RS_VERIF=$d/verif $bin -prop $prop -tier quick -v 2>&1 | grep -E '^ +\[' | awk '{print $3, $1}' | sort -u > $d/base.txt
patch -s -p1 -d $d < $patch || exit 3
RS_NO_SELFTEST=1 RS_REPO=$d RS_VERIF=$d/verif $bin -prop $prop -tier quick -v 2>&1 | grep -E '^ +\[' | awk '{print $3, $1}' | sort -u > $d/new.txt
diff $d/base.txt $d/new.txt
