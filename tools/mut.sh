#!/bin/bash
# Developer tool (not a registered check): run one property's rules against a
# scratch copy of /repo/src with a textual edit applied.
#   tools/mut.sh C09 pkg/libs/io/pipe/pipe.go 's/p.wwait.Signal()/_ = 0/'   [more file/sed pairs...]
# Prints the checker's summary lines; the scratch copy is removed afterwards.
set -u
prop=$1; shift
d=$(mktemp -d /tmp/rsmut.XXXXXX)
trap 'rm -rf "$d"' EXIT
mkdir -p "$d"
cp -r /repo/src "$d/src"; mkdir -p "$d/verif"; cp /verif/known_findings.json "$d/verif/" 2>/dev/null
while [ $# -ge 2 ]; do
  f=$1; e=$2; shift 2
  before=$(md5sum "$d/src/$f")
  python3 - "$d/src/$f" "$e" <<'PY'
import sys,re
p,e=sys.argv[1],sys.argv[2]
s=open(p).read()
# e is  s<sep>old<sep>new<sep>[count]
sep=e[1]; parts=e.split(sep)
old,new=parts[1],parts[2]
cnt=int(parts[3]) if len(parts)>3 and parts[3] else 1
if old not in s:
    print("MUT: pattern not found:",old); sys.exit(3)
s=s.replace(old,new,cnt)
open(p,'w').write(s)
PY
  [ $? -eq 0 ] || exit 3
done
export GOFLAGS=-mod=mod GOPROXY=off GOSUMDB=off GOTOOLCHAIN=local
# the variant must still type-check where the original did
RS_REPO=$d RS_VERIF=${RS_VERIF:-$d/verif} ${RS_BIN:-/verif/bin/rscheck} -prop "$prop" ${RS_ARGS:-} 2>&1 | grep -v '^normalisation\|^loaded' | sed "s#$d/##g"
exit 0
