#!/bin/bash
# Developer tool: run every seeded change under /verif/seeded against its property's quick check
# (scratch copies; /repo is not touched) and print one line per seed. Optional $1: grep filter on the seed id; RS_BIN: checker binary.
cd /verif
for d in $(ls -d seeded/*/ | grep "${1:-.}"); do
  id=$(basename $d); prop=${id%%-*}
  out=$(tools/seedrun.sh $prop $d/patch.diff 2>&1)
  if echo "$out" | grep -q "^VIOLATION property=$prop"; then
    echo "DETECTED $id  $(echo "$out" | grep -A1 '^VIOLATION' | sed -n 2p | cut -c1-140)"
  elif echo "$out" | grep -q "^UNDECIDED"; then echo "UNDECIDED $id $(echo "$out" | grep '^UNDECIDED' | head -1 | cut -c1-140)"
  elif echo "$out" | grep -q "SEED: patch does not apply"; then echo "NOAPPLY  $id"
  else echo "MISSED   $id"; fi
done
