#!/bin/bash
# Developer tool: build the checker from a private copy of /verif/checker, replacing rule
# packages that do not compile at the moment (someone is editing them) by their committed
# version. Output binary: $1 (default /verif/bin/rscheck-iso).
out=${1:-/verif/bin/rscheck-iso}
export GOFLAGS=-mod=mod GOPROXY=off GOSUMDB=off GOTOOLCHAIN=local GOWORK=off
d=${ISO_DIR:-/tmp/chk}
mkdir -p $d && rsync -a --delete /verif/checker/ $d/
cd $d
for try in 1 2 3 4 5 6; do
  err=$(go build -o $out ./cmd/rscheck 2>&1) && { echo "built $out (try $try)"; exit 0; }
  pk=$(echo "$err" | grep '^# rscheck/' | head -1 | sed 's/^# rscheck\///')
  [ -z "$pk" ] && { echo "$err" | head; exit 1; }
  echo "package $pk does not build; using committed version"
  rm -rf $d/$pk/*.go
  (cd /verif && git archive HEAD checker/$pk | tar -x -C $d.tar.d 2>/dev/null) || { mkdir -p $d.tar.d && cd /verif && git archive HEAD checker/$pk | tar -x -C $d.tar.d; }
  cp $d.tar.d/checker/$pk/*.go $d/$pk/ ; rm -rf $d.tar.d
done
echo "$err" | head; exit 1
