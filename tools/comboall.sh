#!/bin/bash
# Developer tool: run every combo (a silent probe plus one break) against its property's quick check.
cd /verif
one() {
  d=$1; id=$(basename $d); prop=${id%%-*}
  out=$(tools/seedrun.sh $prop $d/patch.diff 2>&1); exp=$(cat $d/expect.txt 2>/dev/null)
  if echo "$out" | grep -A1 "^VIOLATION property=$prop" | grep -q -- "$exp"; then echo "DETECTED $id"
  elif echo "$out" | grep -q "^VIOLATION property=$prop"; then echo "OTHERKEY $id $(echo "$out" | grep -A1 '^VIOLATION' | sed -n 2p | cut -c1-120)"
  elif echo "$out" | grep -q "^UNDECIDED"; then echo "UNDECIDED $id $(echo "$out" | grep '^UNDECIDED' | head -1 | cut -c1-140)"
  else echo "MISSED $id"; fi
}
export -f one
ls -d combos/*/ | grep "${1:-.}" | xargs -P ${COMBO_P:-4} -I{} bash -c 'one {}' | sort -k2
