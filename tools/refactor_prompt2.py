import sys
pid=sys.argv[1]
prop=open(f'/tmp/wt/{pid}.property.txt').read()
print(f"""You are helping to test a verification setup for a Go code base (a fork of Alibaba RedisShake). You have your own scratch git worktree of the repository at /tmp/wt/{pid}s (module root /tmp/wt/{pid}s/src, module github.com/alibaba/RedisShake). Work ONLY inside /tmp/wt/{pid}s and /tmp/wt/{pid}s.out . Do not read or touch /verif, /repo or any other /tmp/wt/* directory.

Here is a behavioural property the code satisfies today:

---
{prop}---

YOUR TASK: produce FIVE different, independent BEHAVIOUR-PRESERVING source changes (r6 … r10) to the non-test Go code that implements this property (the files listed above and the functions they call). Each change must leave the observable behaviour described by the property exactly as it is — it is the kind of edit a maintainer makes while cleaning up: rename locals/parameters, extract a small helper function or method, inline a helper, introduce or remove a local variable, reorder independent statements, turn an if/else chain into a switch (or back), invert a condition and swap the branches, replace `x != nil {{ ... return }}` early returns by else-branches (or the reverse), change a loop form (`for i := 0; i < n; i++` <-> `for i := range …` / `for {{ … break }}`), split or merge conditions (`a || b` into two ifs), use an equivalent library call, add a debug log line / comment / metric that does not touch the data, move a declaration closer to its use, replace a literal by a named constant, etc. Also consider deeper restructurings: move a piece of the mechanism into a new helper function or method (or inline an existing helper into its only caller), merge two adjacent branches or split one, hoist a common sub-expression into a local, replace a chain of ifs by a table lookup or a small switch, change a counting loop into a range loop with an explicit counter, change how an intermediate result is held (two locals instead of a struct, a named result instead of a local), convert nested ifs into guard clauses, reorder switch cases, replace a magic number by a named constant or an equivalent expression (1<<14 for 16384), use an equivalent standard-library call (bytes.Equal vs string compare, strings.IndexByte vs a loop, binary.LittleEndian.PutUint16 vs binary.Write), pass a value as a parameter instead of reading a field twice, or the reverse. Keep the names of exported and package-level functions, types and struct fields (rename only locals, parameters, and helpers you introduce). Mix the kinds; make at least THREE of the five non-trivial (10-50 changed lines, restructuring the code that carries the mechanism) and keep the others small (1-10 lines). Each change must touch the mechanism the property depends on (not an unrelated corner of the file).

Requirements for each change:
 (a) the tree compiles/type-checks exactly as well as before and the existing tests still pass (`cd /tmp/wt/{pid}s/src && go test -vet=off -count=1 ./pkg/...`);
 (b) you are confident the behaviour is unchanged for EVERY input/schedule/configuration — if in doubt, choose a safer edit. Where practical, convince yourself with a small differential test (old vs new function on many inputs) — not required to deliver.

Environment facts:
- No network. Every shell call needs: export GOFLAGS=-mod=mod GOPROXY=off GOSUMDB=off GOTOOLCHAIN=local  (Go 1.23; all dependencies are in the module cache).
- Pre-existing breakage: package redis-shake/common does not compile on the pinned tree because src/redis-shake/common/common.go declares the const block `KB … PB` twice; every package importing it therefore does not compile, and redis-shake/main has further unrelated type errors. Only ./pkg/... compiles and has running tests. To type-check a change in an affected package, temporarily delete the second `const ( KB … PB )` block in common.go (do NOT include that deletion in your patch) and run `go build ./redis-shake/common/ ./redis-shake/dbSync/... ./redis-shake/filter/ ./redis-shake/checkpoint/ ./redis-shake/scanner/ ./redis-shake/metric/ ./redis-shake/` (ignore redis-shake/main), then restore it.
- pkg/libs/cupcake/rdb tests fail on the pinned tree already (missing fixtures) and pkg/libs/io/pipe is flaky when several test runs share /tmp; ignore both.

Deliverables, for i in 6..10, under /tmp/wt/{pid}s.out/r<i>/ :
  patch.diff — `git diff` of the change only (relative to the pinned HEAD; must apply with `git apply` from /tmp/wt/{pid}s); non-test files only; must NOT contain the const-block deletion
  notes.txt  — what kind of refactoring it is, which function(s) it touches, and why behaviour is unchanged
Finish with the worktree clean at the pinned HEAD (`git checkout -- .`). Final message: one line per change.""")
