#!/bin/bash
# Developer tool: run one property's quick check on a patched scratch copy and keep the
# normalised sources in a fresh /tmp/inl5.XXXXXX (or $RS_INL) for reading; the path is printed.
#   tools/dumpview.sh C02 refactors/C02-r22/patch.diff
prop=$1; patch=$2
export GOFLAGS=-mod=mod GOPROXY=off GOSUMDB=off GOTOOLCHAIN=local
d=$(mktemp -d /tmp/rsseed.XXXXXX); inl=${RS_INL:-$(mktemp -d /tmp/inl5.XXXXXX)}; rm -rf $inl; mkdir -p $inl
trap 'rm -rf "$d"' EXIT
cp -r /repo/src $d/src; mkdir -p $d/verif; cp /verif/known_findings.json $d/verif/
patch -s -p1 -d $d < $patch || exit 3
RS_DUMP_INLINE=$inl RS_NO_SELFTEST=1 RS_REPO=$d RS_VERIF=$d/verif ${RS_BIN:-/verif/bin/rscheck-iso} -prop $prop -tier quick 2>&1 | sed "s#$d/##g" | grep -v "^loaded"
echo "normalised sources in $inl (remove when done):"; ls $inl
