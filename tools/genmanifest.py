#!/usr/bin/env python3
"""Regenerates /verif/MANIFEST.json from the table below (developer tool)."""
import json, re, subprocess

T = "go/types + go/cfg (+ go/ssa for C19) of x/tools v0.29.0; the reference tables/grammars written in the checker from the Redis sources; library semantics named in the evidence's trusted_base"
CLAIMED = {
 # id: (technique, level text, level_note, design_ref)
 "C01": ("wire-grammar extraction from the typed AST compared with a reference RDB grammar; constant tables; typed AST patterns; go/cfg dominance (tee capture, checksum-before-trailer)",
         "Structural necessary conditions of 'the parser yields every key exactly': opcode/type tables, per-opcode and per-type read grammar, payload capture completeness, metadata binding, hash chunk protocol, checksum plumbing, DUMP wrapping order, fixed-width read agreement. Value-level arithmetic (length bits, LZF, integer rendering) is not decided.", T, "DESIGN.md §2 C01"),
 "C02": ("go/cfg path queries (must-pass-through pexpire, key-exists policy arms, route guards, index guards), wire-grammar extraction of the element expansion, typed AST patterns for command/argument mapping and batch/flush pairing",
         "Structural necessary conditions of 'restore leaves the target key equal to the source key' on every path of RestoreRdbEntry/restoreBigRdbEntry/restoreQuicklistEntry/CompareVersion; equality of logical values is not decided. One genuine defect is recorded as a known finding.", T, "DESIGN.md §2 C02"),
 "C09": ("go/cfg path queries + lockset dataflow + typed AST patterns (lock guard table, wake-on-progress/close must-pass-through, wait-shape dominance, mem/file sibling skeleton, ring-index clamp form)",
         "Structural necessary conditions of the pipe's FIFO/close/wake-up behaviour are checked on every control-flow path of pkg/libs/io/pipe; not a proof of deadlock freedom or byte equality.", T, "DESIGN.md §2 C09"),
 "C12": ("wire-grammar extraction of writer and reader sides compared with one reference grammar; constant tables across the three copies; typed AST patterns for event wiring and field copies",
         "Writer/reader agreement: same type ids, same grammar per value type and per file-level opcode, each element wired to the right slot, converters copy every field. Float/int-string/LZF value semantics are not decided.", T, "DESIGN.md §2 C12"),
 "C18": ("go/cfg path queries + lockset dataflow + typed AST patterns (guard table, broadcast-on-progress/close, validity-before-data, range table, sibling skeleton, clamp form)",
         "Structural necessary conditions of the backlog ring on every path of pkg/libs/io/backlog; byte equality across wrap-arounds is not decided.", T, "DESIGN.md §2 C18"),
 "C19": ("type reachability of password fields + interprocedural SSA value taint (go/ssa) from password sources to log/print/REST/json sinks; sanitizer totality; AST rule for the ill-typed package main",
         "Secret-flow analysis over the whole module: no value whose type contains or whose data derives from a configured password reaches a log, stdout/stderr, REST or json sink unsanitised. Third-party libraries' own logging is not decided.", T, "DESIGN.md §2 C19"),
}
PENDING_REASON = "rule set not implemented yet in this revision of the checker; see DESIGN.md for the planned structural clauses"

def main():
    props = [json.loads(l)["id"] for l in open("/verif/properties.jsonl")]
    checks, na = [], []
    for p in props:
        if p in CLAIMED:
            tech, text, note, ref = CLAIMED[p]
            checks.append({
                "property_id": p,
                "quick_cmd": f"./check.sh {p} quick",
                "thorough_cmd": f"./check.sh {p} thorough",
                "evidence_file": f"/verif/evidence/{p}.json",
                "replay_cmd_template": f"./check.sh {p} quick  # replay file {{path}} names rule, construct and witness path",
                "engine": "rscheck",
                "level_claimed": {"category": "other", "text": text, "design_ref": ref},
                "level_note": note,
                "technique": "static analysis: " + tech,
            })
        else:
            na.append({"property_id": p, "reason": PENDING_REASON})
    m = {
        "version": 1,
        "setup_cmd": "cd /verif/checker && GOFLAGS=-mod=mod GOPROXY=off GOSUMDB=off GOTOOLCHAIN=local GOWORK=off go build -o /verif/bin/rscheck ./cmd/rscheck",
        "hooks": {"guard": "verif", "enable": "none: static analysis reads /repo/src as it is, no hooks or instrumentation exist",
                  "baseline_off_cmd": "cd /repo/src && go test -mod=mod -json -vet=off -count=1 -timeout 25m ./...",
                  "source_commits": [], "add_only": True},
        "engines": [{"name": "rscheck", "path": "/verif/checker", "serves_properties": sorted(CLAIMED),
                     "kind_free_text": "repository-specific static analyser (go/packages + go/types + go/cfg + go/ssa): per-property rule files over shared engines (path queries, locksets, typed AST patterns, constant tables, taint)"}],
        "checks": checks,
        "not_applicable": na,
        "notes": "All claims are level 'other': structural necessary conditions of each property decided from the source on every run (see DESIGN.md). Exit 2 + UNDECIDED means the machinery lost an anchor and refuses to pass vacuously.",
    }
    json.dump(m, open("/verif/MANIFEST.json", "w"), indent=1)
    print("claimed", len(checks), "not_applicable", len(na))

main()
