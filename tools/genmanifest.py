#!/usr/bin/env python3
"""Regenerates /verif/MANIFEST.json from the table below (developer tool)."""
import json, re, subprocess

CLAIMED = {
 # id: (technique, level text, level_note, design_ref)
 "C09": ("go/cfg path queries + lockset dataflow + typed AST patterns (lock guard table, wake-on-progress/close must-pass-through, wait-shape dominance, mem/file sibling skeleton, ring-index clamp form)",
         "Structural necessary conditions of the pipe's FIFO/close/wake-up behaviour are checked on every control-flow path of pkg/libs/io/pipe; not a proof of deadlock freedom or byte equality.",
         "go/types + go/cfg of x/tools v0.29.0; sync.Mutex/sync.Cond, copy, os.File.ReadAt/WriteAt semantics", "DESIGN.md §2 C09"),
}
PENDING_REASON = "rule set not implemented yet in this revision of the checker; see DESIGN.md for the planned structural clauses"

def main():
    props = [json.loads(l)["id"] for l in open("/verif/properties.jsonl")]
    checks, na = [], []
    for p in props:
        if p in CLAIMED:
            tech, text, note, ref = CLAIMED[p]
            checks.append({
                "property_id": p,
                "quick_cmd": f"./check.sh {p} quick",
                "thorough_cmd": f"./check.sh {p} thorough",
                "evidence_file": f"/verif/evidence/{p}.json",
                "replay_cmd_template": f"./check.sh {p} quick  # replay file {{path}} names rule, construct and witness path",
                "engine": "rscheck",
                "level_claimed": {"category": "other", "text": text, "design_ref": ref},
                "level_note": note,
                "technique": "static analysis: " + tech,
            })
        else:
            na.append({"property_id": p, "reason": PENDING_REASON})
    m = {
        "version": 1,
        "setup_cmd": "cd /verif/checker && GOFLAGS=-mod=mod GOPROXY=off GOSUMDB=off GOTOOLCHAIN=local GOWORK=off go build -o /verif/bin/rscheck ./cmd/rscheck",
        "hooks": {"guard": "verif", "enable": "none: static analysis reads /repo/src as it is, no hooks or instrumentation exist",
                  "baseline_off_cmd": "cd /repo/src && GOFLAGS=-mod=mod go test -vet=off -count=1 ./pkg/...",
                  "source_commits": [], "add_only": True},
        "engines": [{"name": "rscheck", "path": "/verif/checker", "serves_properties": sorted(CLAIMED),
                     "kind_free_text": "repository-specific static analyser (go/packages + go/types + go/cfg + go/ssa): per-property rule files over shared engines (path queries, locksets, typed AST patterns, constant tables, taint)"}],
        "checks": checks,
        "not_applicable": na,
        "notes": "All claims are level 'other': structural necessary conditions of each property decided from the source on every run (see DESIGN.md). Exit 2 + UNDECIDED means the machinery lost an anchor and refuses to pass vacuously.",
    }
    json.dump(m, open("/verif/MANIFEST.json", "w"), indent=1)
    print("claimed", len(checks), "not_applicable", len(na))

main()
