#!/usr/bin/env python3
"""Regenerates /verif/MANIFEST.json (developer tool). Rule-set descriptions come from `rscheck -describe`."""
import json, subprocess

TECH = {
 "C01": "wire-grammar extraction from the typed AST vs a reference RDB grammar; constant tables; typed AST patterns; go/cfg dominance (tee capture, checksum-before-trailer); mask/shift fingerprint of the length decoder",
 "C02": "go/cfg path queries (must-pass-through pexpire, key-exists policy arms, route guards, index guards); wire-grammar extraction of the element expansion; typed AST patterns for command/argument mapping and batch/flush pairing; sibling arithmetic fingerprints",
 "C03": "who-may-access scan over all bodies (single FIFO, one producer/consumer), go/cfg path queries (exactly-one-enqueue, nothing dropped/duplicated, barrier before append), abstract evaluation of the barrier automaton table, payload dataflow",
 "C04": "go/cfg ordering queries on the MULTI...HSET offset...EXEC envelope, offset provenance dataflow, who-may-write scan of the offset base, resume wiring patterns",
 "C05": "go/cfg path queries and typed AST patterns (1-byte header reads, one buffered reader per connection, bounded copy with interval reasoning on comparisons, framing and PSYNC reply tables, copy-then-count)",
 "C06": "decision-table extraction by path enumeration of the loop-free filter predicates vs reference tables; dominance/polarity queries at every application site; who-reads scan of the filter options",
 "C07": "go/cfg queries on worker literals (private connection state, SELECT/lastdb pairing, wait-for-all, failure reporting), error-discipline engine, loader close ordering",
 "C08": "accounting-pair rule (cumulative counter added repeatedly), ACK/reconnect argument provenance, who-may-write scan of the offset field",
 "C09": "go/cfg path queries + lockset dataflow + typed AST patterns (lock guard table, wake-on-progress/close must-pass-through, wait-shape dominance, mem/file sibling skeleton, ring-index clamp form)",
 "C10": "path-sensitive byte-accounting balance per function, type-tag bijection tables, interval walk over length comparisons, terminator-check dominance, writer sequence checks",
 "C11": "constant-table comparison with a generated CRC-64/Jones table, update-step shape, verification-site ordering and offset arithmetic, shift-width rule, trailer layout",
 "C12": "wire-grammar extraction of writer and reader sides vs one reference grammar; constant tables across the three copies; typed AST patterns for event wiring and field copies; sibling arithmetic fingerprints of the duplicated compact-encoding decoders",
 "C13": "recovery of the interpreter convention from getMatchKeys' AST, symbolic (polynomial) evaluation of its index arithmetic, comparison of all table entries with the Redis 5.0 key specs on closed forms, verdict wiring queries",
 "C14": "symbolic evaluation of checkpoint field names on writer, reader and clearer; go/cfg queries for newest-wins, gates, defaults, clearing; error-discipline engine",
 "C15": "constant-table comparison with a generated CRC-16/XMODEM table, update-step shape, CFG reachability query for first-'{'/first-'}' hash-tag scanning, range/prefix/filter checks",
 "C16": "channel closure-chain and spawn scan, go/cfg queries (one reply per written key, TTL/db rules, fetch index alignment, pagination exits), error-discipline engine",
 "C17": "typed AST patterns on the marshalled struct literals (base64 field discipline, one line per element), go/cfg queries (one message per entry, fan-out/fan-in completion)",
 "C18": "go/cfg path queries + lockset dataflow + typed AST patterns (guard table, broadcast-on-progress/close, validity-before-data, range table, sibling skeleton, clamp form)",
 "C19": "type reachability of password fields + interprocedural SSA value taint (go/ssa) from password sources to log/print/REST/json sinks; path-sensitive sanitizer totality; AST rule for the ill-typed package main",
 "C20": "decision-table extraction of the node-state probe, go/cfg queries (selection guard, host partition per iteration path, bounded recursion, probe-all, use at start)",
}
NOTE = "Trusted: go/parser, go/types, go/cfg, go/ssa of golang.org/x/tools v0.29.0; the reference tables and grammars written in the checker from the Redis sources; the library semantics named in the evidence's trusted_base. The loader blanks exact duplicate const declarations in an in-memory overlay (the pinned tree has one) and tolerates type errors only in package redis-shake/main."

def main():
    props = [json.loads(l)["id"] for l in open("/verif/properties.jsonl")]
    desc = {d["ID"]: d for d in json.loads(subprocess.check_output(["/verif/bin/rscheck", "-describe"]))}
    checks, na = [], []
    for p in props:
        if p in desc and p in TECH:
            d = desc[p]
            text = ("Structural necessary conditions of the property, decided from /repo/src on every run (all control-flow paths of the anchored code). "
                    + d["Explanation"] + " NOT decided: " + d["NotDecided"])
            checks.append({
                "property_id": p,
                "quick_cmd": f"./check.sh {p} quick",
                "thorough_cmd": f"./check.sh {p} thorough",
                "evidence_file": f"/verif/evidence/{p}.json",
                "replay_cmd_template": f"./check.sh {p} quick  # the replay file {{path}} names rule, construct, position and witness path",
                "engine": "rscheck",
                "level_claimed": {"category": "other", "text": text, "design_ref": f"DESIGN.md section 2, {p}"},
                "level_note": NOTE,
                "technique": "static analysis: " + TECH[p],
            })
        else:
            na.append({"property_id": p, "reason": "no rule set in this revision of the checker"})
    m = {
        "version": 1,
        "setup_cmd": "cd /verif/checker && GOFLAGS=-mod=mod GOPROXY=off GOSUMDB=off GOTOOLCHAIN=local GOWORK=off go build -o /verif/bin/rscheck ./cmd/rscheck",
        "hooks": {"guard": "verif", "enable": "none: static analysis reads /repo/src as it is; no hooks or instrumentation exist in /repo",
                  "baseline_off_cmd": "cd /repo/src && go test -mod=mod -json -vet=off -count=1 -timeout 25m ./...",
                  "source_commits": [], "add_only": True},
        "engines": [{"name": "rscheck", "path": "/verif/checker", "serves_properties": sorted(desc),
                     "kind_free_text": "repository-specific static analyser (go/packages + go/types + go/cfg + go/ssa): per-property rule packages over shared engines (path queries, locksets, typed AST patterns, wire-grammar extraction, constant tables, arithmetic fingerprints, taint)"}],
        "checks": checks,
        "not_applicable": na,
        "notes": "All claims are level 'other': structural necessary conditions of each property decided from the source on every run (DESIGN.md). No property is declared wholly not applicable; each check's level text lists the clauses it does not decide. Exit 2 + UNDECIDED means the machinery lost an anchor or met a construct outside its enumerated idioms and refuses to pass vacuously. thorough = quick rules + a sensitivity pass over curated variants of today's source (never affects the verdict).",
    }
    json.dump(m, open("/verif/MANIFEST.json", "w"), indent=1)
    print("claimed", len(checks), "not_applicable", len(na))

main()
