#!/bin/bash
# Developer tool: confirm a seeded change in its scratch worktree:
#   demo passes without the change, fails with it; the ./pkg/... suite result is unchanged by it.
# usage: tools/seedverify.sh C09 m1      (expects /tmp/wt/C09 worktree and /tmp/wt/C09.out/m1/)
set -u
prop=$1; m=$2
sfx=${WT_SUFFIX:-}; wt=/tmp/wt/$prop$sfx; out=/tmp/wt/$prop$sfx.out/$m
export GOFLAGS=-mod=mod GOPROXY=off GOSUMDB=off GOTOOLCHAIN=local
cd $wt || exit 2
git checkout -q -- . && git clean -fdq
run=$out/run.sh; [ -f $run ] || run=$out/demo/run.sh
chmod +x $run
prep() { [ -f $out/prep.diff ] && git apply $out/prep.diff 2>/dev/null; true; }
prep
echo "[1] demo without change"; (cd $wt && bash $run >/tmp/seed.$prop.$m.without 2>&1); r1=$?
git checkout -q -- . && git clean -fdq
git apply $out/patch.diff || { echo "patch does not apply"; exit 2; }
prep
echo "[2] demo with change"; (cd $wt && bash $run >/tmp/seed.$prop.$m.with 2>&1); r2=$?
# the run.sh may have reverted things; make sure only the patch is applied for the suite run
git checkout -q -- . && git clean -fdq && git apply $out/patch.diff
echo "[3] suite with change"; (cd $wt/src && go test -vet=off -count=1 ./pkg/... 2>&1 | grep -v "^---\|^===\|^    " | grep "^ok\|^FAIL\|^---" > /tmp/seed.$prop.$m.suite)
git checkout -q -- . && git clean -fdq
echo "demo without=$r1 (want 0)  demo with=$r2 (want !=0)"
grep -c "^ok" /tmp/seed.$prop.$m.suite; grep "^FAIL" /tmp/seed.$prop.$m.suite
[ $r1 -eq 0 ] && [ $r2 -ne 0 ] && echo "SEED-OK $prop $m" || echo "SEED-BAD $prop $m"
