#!/bin/bash
# Developer tool: run a property's quick check on the EXPANDED view of a patched scratch copy only
# (helper expansion dumped, written over the sources, then analysed with RS_NO_INLINE=1).
#   tools/view2.sh C02 refactors/C02-r12/patch.diff
prop=$1; patch=$2
export GOFLAGS=-mod=mod GOPROXY=off GOSUMDB=off GOTOOLCHAIN=local
d=$(mktemp -d /tmp/rsseed.XXXXXX); inl=$(mktemp -d /tmp/rsinl.XXXXXX)
trap 'rm -rf "$d" "$inl"' EXIT
cp -r /repo/src $d/src; mkdir -p $d/verif; cp /verif/known_findings.json $d/verif/
patch -s -p1 -d $d < $patch || exit 3
bin=${RS_BIN:-/verif/bin/rscheck}
RS_DUMP_INLINE=$inl RS_NO_SELFTEST=1 RS_REPO=$d RS_VERIF=$d/verif $bin -prop $prop -tier quick >/dev/null 2>&1
for f in $inl/*.go; do [ -f "$f" ] || continue; rel=$(basename $f | sed 's#__#/#g'); cp $f $d/src/$rel; echo "expanded: $rel"; done
RS_NO_INLINE=1 RS_NO_SELFTEST=1 RS_REPO=$d RS_VERIF=$d/verif $bin -prop $prop -tier quick 2>&1 | grep -v '^normalisation\|^loaded' | sed "s#$d/##g"
