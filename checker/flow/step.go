package flow

import (
	"go/ast"
	"go/token"
	"go/types"

	"rscheck/cfgq"
	"rscheck/core"
)

// One-step primitives. Values/Resolve answer "what does this stand for" with
// rewritten expressions; a rule that needs to keep every intermediate
// expression at its own program point (to ask for branch facts there, to
// recognise a loop variable, to tell two expansions of one helper apart) walks
// the same reaching-definition / parameter / return edges one at a time with
// Step and Follow.

// Def is one definition of a local variable that reaches a site.
type Def struct {
	Site               // where the definition executes (same frames as the use)
	Node ast.Node      // *ast.AssignStmt, *ast.ValueSpec, *ast.IncDecStmt, or the *ast.Ident of a range key/value
	Idx  int           // position of the variable on the left-hand side
	RHS  ast.Expr      // the expression assigned by a plain 1:1 definition; nil otherwise
	Call *ast.CallExpr // tuple definition `a, b := f()`: the call, the variable is result #Idx
	Zero bool          // declared without a value
}

// StepResult is the answer of Step.
type StepResult struct {
	Local   bool     // the identifier denotes a local variable, parameter or receiver
	Unsafe  bool     // its address is taken or a closure assigns it: the value is not tracked
	Defs    []Def    // definitions inside the function that reach the site
	Entry   bool     // the function entry reaches the site without a definition
	Bound   bool     // Entry, and a helper frame binds the variable (parameter/receiver) ...
	Arg     ast.Expr // ... to this argument ...
	ArgSite Site     // ... evaluated at this site of the caller
	Obj     types.Object
}

// Step performs one step of reaching definitions for identifier id at site s.
func (e *Engine) Step(s Site, id *ast.Ident) StepResult {
	obj := objOf(s.G.Info, id)
	r := StepResult{Obj: obj}
	if e.isLocal(obj) == nil {
		return r
	}
	r.Local = true
	if e.unsafeVars(s.G)[obj] {
		r.Unsafe = true
		return r
	}
	defs, fromEntry := e.reaching(s.G, s.At, obj)
	for _, d := range defs {
		out := Def{Site: Site{G: s.G, At: d.at, Up: s.Up}, Node: d.node, Idx: d.idx}
		switch n := d.node.(type) {
		case *ast.AssignStmt:
			if n.Tok == token.ASSIGN || n.Tok == token.DEFINE {
				if len(n.Lhs) == len(n.Rhs) {
					out.RHS = n.Rhs[d.idx]
				} else if len(n.Rhs) == 1 {
					if call, ok := ast.Unparen(n.Rhs[0]).(*ast.CallExpr); ok {
						out.Call = call
					}
				}
			}
		case *ast.ValueSpec:
			switch {
			case len(n.Values) == 0:
				out.Zero = true
			case len(n.Values) == len(n.Names):
				out.RHS = n.Values[d.idx]
			case len(n.Values) == 1:
				if call, ok := ast.Unparen(n.Values[0]).(*ast.CallExpr); ok {
					out.Call = call
				}
			}
		}
		r.Defs = append(r.Defs, out)
	}
	if fromEntry {
		r.Entry = true
		if len(s.Up) > 0 {
			if arg, ok := s.Up[0].Bind[obj]; ok {
				r.Bound = true
				r.Arg = arg
				r.ArgSite = Site{G: s.Up[0].G, At: s.Up[0].At, Up: s.Up[1:]}
			}
		}
	}
	return r
}

// Ret is one way a followed helper produces a result.
type Ret struct {
	Site               // the return statement (inside the helper, frames extended by the call)
	Expr ast.Expr      // the expression returned for the result (the named result for a bare return)
	Call *ast.CallExpr // `return f()` forwarding a tuple: the result is result #idx of this call
}

// Follow lists how result #idx of the call at s is produced when the callee is
// a module helper whose body may be looked into (same conditions as Values:
// not Opaque, depth bound, no recursion, not variadic). Error returns are
// skipped for non-error results. ok is false when the call is a leaf.
func (e *Engine) Follow(s Site, call *ast.CallExpr, idx int) (rets []Ret, ok bool) {
	fn := e.followable(s, call)
	if fn == nil {
		return nil, false
	}
	cg := cfgq.Of(e.P, fn)
	fr := e.enter(s, call, fn)
	up := append([]Frame{fr}, s.Up...)
	var names []*ast.Ident
	if fn.Decl.Type.Results != nil {
		for _, fl := range fn.Decl.Type.Results.List {
			names = append(names, fl.Names...)
		}
	}
	nres := fn.Obj.Type().(*types.Signature).Results().Len()
	for _, rp := range cg.Points(func(n ast.Node) bool { _, ok := n.(*ast.ReturnStmt); return ok }) {
		ret := rp.Node().(*ast.ReturnStmt)
		rs := Site{G: cg, At: rp, Up: up}
		if idx < nres-1 && cfgq.ClassifyReturn(fn.Pkg.TypesInfo, fn.Decl.Body, ret) == cfgq.RetErr {
			continue
		}
		switch {
		case len(ret.Results) == 0:
			if idx < len(names) {
				// a bare return reached only with the named error result known to be
				// non-nil is an error return: its other results are meaningless
				if idx < nres-1 && len(names) == nres && cfgq.IsErrorType(fn.Obj.Type().(*types.Signature).Results().At(nres-1).Type()) {
					errName := names[nres-1]
					errObj := fn.Pkg.TypesInfo.Defs[errName]
					if errObj != nil && e.underLocal(cg, rp, up, func(f cfgq.Fact) bool {
						be, ok := ast.Unparen(Positive(f)).(*ast.BinaryExpr)
						if !ok || be.Op != token.NEQ {
							return false
						}
						for _, p := range [][2]ast.Expr{{be.X, be.Y}, {be.Y, be.X}} {
							if x, ok := ast.Unparen(p[0]).(*ast.Ident); ok && objOf(cg.Info, x) == errObj && core.IsNil(cg.Info, p[1]) {
								return true
							}
						}
						return false
					}) {
						continue
					}
				}
				rets = append(rets, Ret{Site: rs, Expr: names[idx]})
			} else {
				return nil, false
			}
		case len(ret.Results) == 1 && nres > 1:
			c2, isCall := ast.Unparen(ret.Results[0]).(*ast.CallExpr)
			if !isCall {
				return nil, false
			}
			rets = append(rets, Ret{Site: rs, Call: c2})
		case idx < len(ret.Results):
			rets = append(rets, Ret{Site: rs, Expr: ret.Results[idx]})
		}
	}
	return rets, true
}

// Enter returns the site of the first point of a followable helper called at
// s (frames extended by the call), for rules that walk into it themselves.
func (e *Engine) Enter(s Site, call *ast.CallExpr) (Site, bool) {
	fn := e.followable(s, call)
	if fn == nil {
		return Site{}, false
	}
	cg := cfgq.Of(e.P, fn)
	fr := e.enter(s, call, fn)
	return Site{G: cg, At: cg.Entry(), Up: append([]Frame{fr}, s.Up...)}, true
}

// EnterFunc is Enter for a callee the rule resolved itself (a call through a
// function value, a table of functions): the frame binds fn's parameters to
// the call's arguments; with methodExpr the first argument is the receiver
// (`(*T).M` called as `f(x, a, b)`), recv otherwise gives the receiver
// expression of a method value (may be nil). The same bounds as for followed
// helpers apply (module function with a body, depth, no recursion).
func (e *Engine) EnterFunc(s Site, call *ast.CallExpr, fn *core.Fn, methodExpr bool, recv ast.Expr) (Site, bool) {
	if fn == nil || fn.Decl == nil || fn.Decl.Body == nil || len(s.Up) >= e.MaxDepth || call.Ellipsis.IsValid() {
		return Site{}, false
	}
	if e.Opaque != nil && e.Opaque(fn.Obj) {
		return Site{}, false
	}
	cg := cfgq.Of(e.P, fn)
	if cg == s.G {
		return Site{}, false
	}
	for _, f := range s.Up {
		if f.G == cg {
			return Site{}, false
		}
	}
	info := fn.Pkg.TypesInfo
	args := call.Args
	if methodExpr {
		if len(args) == 0 {
			return Site{}, false
		}
		recv, args = args[0], args[1:]
	}
	bind := map[types.Object]ast.Expr{}
	i := 0
	for _, fl := range fn.Decl.Type.Params.List {
		if len(fl.Names) == 0 {
			i++
			continue
		}
		for _, nm := range fl.Names {
			if i < len(args) {
				if o := info.Defs[nm]; o != nil {
					bind[o] = args[i]
				}
			}
			i++
		}
	}
	if recv != nil && fn.Decl.Recv != nil && len(fn.Decl.Recv.List) == 1 && len(fn.Decl.Recv.List[0].Names) == 1 {
		if o := info.Defs[fn.Decl.Recv.List[0].Names[0]]; o != nil {
			bind[o] = recv
		}
	}
	fr := Frame{G: s.G, At: s.At, Call: call, Bind: bind}
	return Site{G: cg, At: cg.Entry(), Up: append([]Frame{fr}, s.Up...)}, true
}

// WalkFrom is Walk for a region that is reached through the given frames
// (the body of a function entered with Enter/EnterFunc).
func (e *Engine) WalkFrom(s Site, region ast.Node, visit func(s Site, n ast.Node)) {
	e.walk(s.G, region, s.Up, visit)
}

// FollowFunc is Follow for a callee the rule resolved itself (see EnterFunc):
// how result #idx is produced by fn when it is entered from the call at s.
func (e *Engine) FollowFunc(s Site, call *ast.CallExpr, fn *core.Fn, methodExpr bool, recv ast.Expr, idx int) (rets []Ret, ok bool) {
	hs, ok := e.EnterFunc(s, call, fn, methodExpr, recv)
	if !ok {
		return nil, false
	}
	cg, up := hs.G, hs.Up
	var names []*ast.Ident
	if fn.Decl.Type.Results != nil {
		for _, fl := range fn.Decl.Type.Results.List {
			names = append(names, fl.Names...)
		}
	}
	nres := fn.Obj.Type().(*types.Signature).Results().Len()
	for _, rp := range cg.Points(func(n ast.Node) bool { _, ok := n.(*ast.ReturnStmt); return ok }) {
		ret := rp.Node().(*ast.ReturnStmt)
		rs := Site{G: cg, At: rp, Up: up}
		if idx < nres-1 && cfgq.ClassifyReturn(fn.Pkg.TypesInfo, fn.Decl.Body, ret) == cfgq.RetErr {
			continue
		}
		switch {
		case len(ret.Results) == 0:
			if idx >= len(names) {
				return nil, false
			}
			rets = append(rets, Ret{Site: rs, Expr: names[idx]})
		case len(ret.Results) == 1 && nres > 1:
			c2, isCall := ast.Unparen(ret.Results[0]).(*ast.CallExpr)
			if !isCall {
				return nil, false
			}
			rets = append(rets, Ret{Site: rs, Call: c2})
		case idx < len(ret.Results):
			rets = append(rets, Ret{Site: rs, Expr: ret.Results[idx]})
		}
	}
	return rets, true
}
