// Package flow is a guarded value-flow engine over the go/cfg graphs of
// package cfgq. It answers, without running anything, three questions that
// syntactic patterns answer only for one spelling of the code:
//
//   - Values: which non-local expressions can a local variable (or any
//     expression) stand for at a program point? The answer follows reaching
//     definitions backwards, through parameter binding into callers and through
//     the return statements of same-module helper functions (bounded depth, no
//     recursion), so extracting a helper, introducing a temporary or turning an
//     if/else assignment into early returns does not change it.
//   - Under: is a branch fact (an atom of an if/for/switch condition with its
//     truth value) established on every path to a site and not invalidated
//     afterwards (no assignment to a variable it mentions, no call that may
//     write a field it mentions)? Facts of helper frames are translated to the
//     caller's vocabulary before they are matched.
//   - Stores: where is a struct field written in a region, including inside
//     the helpers the region calls?
//
// Everything is a dataflow/dominance computation on the type-checked syntax;
// there is no execution, no path enumeration with values and no solver.
package flow

import (
	"fmt"
	"go/ast"
	"go/constant"
	"go/token"
	"go/types"
	"sort"
	"strings"

	"golang.org/x/tools/go/cfg"

	"rscheck/cfgq"
	"rscheck/core"
	"rscheck/pat"
)

// Engine holds memo tables for one program.
type Engine struct {
	P        *core.Program
	Opaque   func(*types.Func) bool // calls whose result is a leaf even when the body is available
	MaxDepth int                    // helper nesting bound (default 3)
	PureOnly bool                   // follow only helpers that compute (no calls but conversions/builtins/pure helpers, no stores)
	pure     map[*types.Func]int

	edgeCons  map[edgeKey][]edgeCons
	flagDepth int
	preds     map[*cfg.CFG]map[*cfg.Block][]*cfg.Block
	unsafe    map[*cfgq.Graph]map[types.Object]bool
	writes    map[*types.Func]map[*types.Var]bool
}

// New creates an engine.
func New(p *core.Program) *Engine {
	return &Engine{P: p, MaxDepth: 3,
		preds:  map[*cfg.CFG]map[*cfg.Block][]*cfg.Block{},
		unsafe: map[*cfgq.Graph]map[types.Object]bool{}}
}

// Frame is one caller on the (static) call stack of a site.
type Frame struct {
	G    *cfgq.Graph
	At   cfgq.Point
	Call *ast.CallExpr
	Bind map[types.Object]ast.Expr // callee parameter/receiver -> argument (caller's vocabulary)
}

// Site is a program point with the helper call stack that led to it
// (innermost caller first; empty in the root function).
type Site struct {
	G  *cfgq.Graph
	At cfgq.Point
	Up []Frame
}

// Case is one possible origin of a value.
type Case struct {
	Expr    ast.Expr      // resolved expression (for a call result #0: the call itself)
	Call    *ast.CallExpr // set when the value is a result of this (opaque) call
	Result  int
	Zero    bool     // declared without a value
	Unknown string   // not resolvable (loop-carried, modified in place, address taken ...)
	Sites   []Site   // use site and the definition sites the value passed through
	Use     ast.Expr // the expression asked about at the use site (last element of Sites)
}

// SiteOf returns the site of node n in function fn (root frame).
func (e *Engine) SiteOf(fn *core.Fn, n ast.Node) (Site, bool) {
	g := cfgq.Of(e.P, fn)
	pt, ok := g.Find(n)
	return Site{G: g, At: pt}, ok
}

func (e *Engine) predsOf(g *cfgq.Graph) map[*cfg.Block][]*cfg.Block {
	if m, ok := e.preds[g.CFG]; ok {
		return m
	}
	m := map[*cfg.Block][]*cfg.Block{}
	for _, b := range g.CFG.Blocks {
		for _, s := range b.Succs {
			m[s] = append(m[s], b)
		}
	}
	e.preds[g.CFG] = m
	return m
}

func objOf(info *types.Info, id *ast.Ident) types.Object {
	if o := info.Uses[id]; o != nil {
		return o
	}
	return info.Defs[id]
}

// unsafeVars: locals whose address is taken or that are assigned inside a
// nested function literal; their values are not tracked.
func (e *Engine) unsafeVars(g *cfgq.Graph) map[types.Object]bool {
	if m, ok := e.unsafe[g]; ok {
		return m
	}
	m := map[types.Object]bool{}
	var walk func(n ast.Node, inLit bool)
	walk = func(n ast.Node, inLit bool) {
		ast.Inspect(n, func(x ast.Node) bool {
			switch v := x.(type) {
			case *ast.FuncLit:
				if !inLit || ast.Node(v) != n {
					walk(v.Body, true)
					return false
				}
			case *ast.UnaryExpr:
				if v.Op == token.AND {
					if id, ok := ast.Unparen(v.X).(*ast.Ident); ok {
						if o := objOf(g.Info, id); o != nil {
							m[o] = true
						}
					}
				}
			case *ast.AssignStmt:
				if inLit {
					for _, l := range v.Lhs {
						if id, ok := l.(*ast.Ident); ok && g.Info.Defs[id] == nil {
							if o := g.Info.Uses[id]; o != nil {
								m[o] = true
							}
						}
					}
				}
			case *ast.IncDecStmt:
				if inLit {
					if id, ok := v.X.(*ast.Ident); ok {
						if o := g.Info.Uses[id]; o != nil {
							m[o] = true
						}
					}
				}
			}
			return true
		})
	}
	walk(g.Body, false)
	e.unsafe[g] = m
	return m
}

type def struct {
	node ast.Node
	at   cfgq.Point
	idx  int
}

// definesVar reports whether cfg node n assigns obj and at which position.
func definesVar(info *types.Info, n ast.Node, obj types.Object) (int, bool) {
	switch x := n.(type) {
	case *ast.AssignStmt:
		for i, l := range x.Lhs {
			if id, ok := ast.Unparen(l).(*ast.Ident); ok && objOf(info, id) == obj {
				return i, true
			}
		}
	case *ast.ValueSpec:
		for i, nm := range x.Names {
			if info.Defs[nm] == obj {
				return i, true
			}
		}
	case *ast.IncDecStmt:
		if id, ok := ast.Unparen(x.X).(*ast.Ident); ok && objOf(info, id) == obj {
			return 0, true
		}
	case *ast.Ident: // range key/value (define form); a bare identifier is otherwise a condition
		if info.Defs[x] == obj {
			return 0, true
		}
	}
	return 0, false
}

// reaching returns the definitions of obj that reach point p and whether the
// function entry reaches p without a definition. The backward walk is
// sensitive to the nil-ness of error/pointer locals and the truth of boolean
// locals: a branch fact about such a variable met on the way (`err == nil` on
// the edge taken) must agree with what the variable is assigned further back
// (`err = <non-nil>` in the branch that also assigned obj), otherwise that path
// is not followed. This removes the values of error branches from the origins
// seen after `if err != nil { return ... }`.
func (e *Engine) reaching(g *cfgq.Graph, p cfgq.Point, obj types.Object) (defs []def, fromEntry bool) {
	preds := e.predsOf(g)
	type state struct {
		b   *cfg.Block
		key string
	}
	seen := map[state]bool{}
	seenDef := map[ast.Node]bool{}
	var scan func(b *cfg.Block, from int, cons constraints)
	scan = func(b *cfg.Block, from int, cons constraints) {
		for i := from; i >= 0; i-- {
			if i >= len(b.Nodes) {
				continue
			}
			n := b.Nodes[i]
			if idx, ok := definesVar(g.Info, n, obj); ok {
				// the definition counts when some way back from it is consistent
				c2, okc := cons.through(g.Info, n, obj)
				if okc && (len(c2) == 0 || e.feasibleBack(g, b, i-1, c2, 0)) && !seenDef[n] {
					seenDef[n] = true
					defs = append(defs, def{n, cfgq.Point{B: b, I: i}, idx})
				}
				return
			}
			var okc bool
			cons, okc = cons.through(g.Info, n, nil)
			if !okc {
				return
			}
		}
		if b == g.CFG.Blocks[0] {
			fromEntry = true
		}
		for _, pb := range preds[b] {
			if !pb.Live {
				continue
			}
			for si, sb := range pb.Succs {
				if sb != b {
					continue
				}
				c2, okc := cons.withEdge(e, g, pb, si)
				if !okc {
					continue
				}
				st := state{pb, c2.key()}
				if seen[st] {
					continue
				}
				seen[st] = true
				scan(pb, len(pb.Nodes)-1, c2)
			}
		}
	}
	scan(p.B, p.I-1, nil)
	return
}

// constraints: what a local must have been (1 = nil/false, 2 = non-nil/true).
type constraints map[types.Object]int8

func (c constraints) key() string {
	if len(c) == 0 {
		return ""
	}
	var parts []string
	for o, v := range c {
		parts = append(parts, fmt.Sprintf("%p:%d", o, v))
	}
	sort.Strings(parts)
	return strings.Join(parts, ",")
}

func (c constraints) copy() constraints {
	n := make(constraints, len(c)+1)
	for k, v := range c {
		n[k] = v
	}
	return n
}

// valueClass classifies an assigned expression: 1 nil/false, 2 certainly
// non-nil/true, 0 unknown.
func valueClass(info *types.Info, x ast.Expr) int8 {
	x = ast.Unparen(x)
	if core.IsNil(info, x) {
		return 1
	}
	if tv, ok := info.Types[x]; ok && tv.Value != nil && tv.Value.Kind() == constant.Bool {
		if constant.BoolVal(tv.Value) {
			return 2
		}
		return 1
	}
	switch v := x.(type) {
	case *ast.UnaryExpr:
		if v.Op == token.AND {
			return 2
		}
	case *ast.CallExpr:
		if f := core.CalleeFunc(info, v); f != nil && f.Pkg() != nil {
			switch f.Pkg().Path() {
			case "fmt", "errors", core.Module + "/pkg/libs/errors":
				switch f.Name() {
				case "Errorf", "New", "Static":
					return 2
				}
			}
		}
	}
	return 0
}

// through passes the constraints backwards over cfg node n. skip is the
// variable whose definition is being looked for (its own assignment in n is not
// a constraint matter). ok is false when n assigns a constrained variable a
// value that contradicts the constraint.
func (c constraints) through(info *types.Info, n ast.Node, skip types.Object) (constraints, bool) {
	if len(c) == 0 {
		return c, true
	}
	out := c
	set := func(o types.Object, rhs ast.Expr) bool {
		want, has := out[o]
		if !has || o == skip {
			return true
		}
		if rhs != nil {
			if id, ok := ast.Unparen(rhs).(*ast.Ident); ok && objOf(info, id) == o {
				return true // x = x
			}
		}
		cl := int8(0)
		if rhs != nil {
			cl = valueClass(info, rhs)
			// x = y: what was required of x is now required of y
			if id, ok := ast.Unparen(rhs).(*ast.Ident); ok && cl == 0 {
				if y, isVar := objOf(info, id).(*types.Var); isVar && !y.IsField() && y.Parent() != nil && y.Pkg() != nil && y.Parent() != y.Pkg().Scope() {
					if have, has := out[y]; has && have != want {
						return false
					}
					out = out.copy()
					delete(out, o)
					out[y] = want
					return true
				}
			}
		}
		if cl != 0 && cl != want {
			return false
		}
		out = out.copy()
		delete(out, o)
		return true
	}
	switch x := n.(type) {
	case *ast.AssignStmt:
		for i, l := range x.Lhs {
			id, ok := ast.Unparen(l).(*ast.Ident)
			if !ok {
				continue
			}
			var rhs ast.Expr
			if len(x.Lhs) == len(x.Rhs) && (x.Tok == token.ASSIGN || x.Tok == token.DEFINE) {
				rhs = x.Rhs[i]
			}
			if !set(objOf(info, id), rhs) {
				return nil, false
			}
		}
	case *ast.ValueSpec:
		for i, nm := range x.Names {
			var rhs ast.Expr
			if len(x.Values) == len(x.Names) {
				rhs = x.Values[i]
			}
			o := info.Defs[nm]
			if len(x.Values) == 0 {
				// zero value: nil / false
				if want, has := out[o]; has && o != skip {
					if want != 1 {
						return nil, false
					}
					out = out.copy()
					delete(out, o)
				}
				continue
			}
			if !set(o, rhs) {
				return nil, false
			}
		}
	case *ast.IncDecStmt:
		if id, ok := ast.Unparen(x.X).(*ast.Ident); ok {
			if !set(objOf(info, id), nil) {
				return nil, false
			}
		}
	}
	return out, true
}

// withEdge adds the constraints of leaving block pb through successor si.
func (c constraints) withEdge(e *Engine, g *cfgq.Graph, pb *cfg.Block, si int) (constraints, bool) {
	if len(pb.Succs) != 2 {
		return c, true
	}
	out := c
	for _, ec := range e.edgeConstraints(g, pb, si) {
		if have, ok := out[ec.obj]; ok {
			if have != ec.class {
				return nil, false
			}
			continue
		}
		out = out.copy()
		out[ec.obj] = ec.class
	}
	return out, true
}

type edgeCons struct {
	obj   types.Object
	class int8
}

type edgeKey struct {
	b  *cfg.Block
	si int
}

func (e *Engine) edgeConstraints(g *cfgq.Graph, pb *cfg.Block, si int) []edgeCons {
	if e.edgeCons == nil {
		e.edgeCons = map[edgeKey][]edgeCons{}
	}
	k := edgeKey{pb, si}
	if v, ok := e.edgeCons[k]; ok {
		return v
	}
	var out []edgeCons
	cnd := cfgq.CondOf(pb)
	if cnd != nil && !(pb.Succs[0].Kind == cfg.KindSwitchCaseBody && !isBoolExpr(g.Info, cnd)) {
		for _, f := range cfgq.Facts(cnd, si == 0) {
			x := ast.Unparen(f.Expr)
			val := f.Val
			if id, ok := x.(*ast.Ident); ok {
				if o := e.isLocal(objOf(g.Info, id)); o != nil && isBoolExpr(g.Info, id) {
					cl := int8(1)
					if val {
						cl = 2
					}
					out = append(out, edgeCons{o, cl})
				}
				continue
			}
			be, ok := x.(*ast.BinaryExpr)
			if !ok || be.Op != token.EQL && be.Op != token.NEQ {
				continue
			}
			for _, pr := range [][2]ast.Expr{{be.X, be.Y}, {be.Y, be.X}} {
				id, ok := ast.Unparen(pr[0]).(*ast.Ident)
				if !ok || !core.IsNil(g.Info, pr[1]) {
					continue
				}
				if o := e.isLocal(objOf(g.Info, id)); o != nil {
					isNil := (be.Op == token.EQL) == val
					cl := int8(2)
					if isNil {
						cl = 1
					}
					out = append(out, edgeCons{o, cl})
				}
			}
		}
	}
	e.edgeCons[k] = out
	return out
}

func isBoolExpr(info *types.Info, x ast.Expr) bool {
	t := info.TypeOf(x)
	if t == nil {
		return false
	}
	b, ok := t.Underlying().(*types.Basic)
	return ok && b.Info()&types.IsBoolean != 0
}

// feasibleBack: some backward path from (b, from) resolves every constraint
// without contradiction (or reaches the function entry).
func (e *Engine) feasibleBack(g *cfgq.Graph, b *cfg.Block, from int, cons constraints, depth int) bool {
	preds := e.predsOf(g)
	type state struct {
		b   *cfg.Block
		key string
	}
	seen := map[state]bool{}
	var walk func(b *cfg.Block, from int, cons constraints) bool
	walk = func(b *cfg.Block, from int, cons constraints) bool {
		for i := from; i >= 0; i-- {
			if i >= len(b.Nodes) {
				continue
			}
			var ok bool
			cons, ok = cons.through(g.Info, b.Nodes[i], nil)
			if !ok {
				return false
			}
			if len(cons) == 0 {
				return true
			}
		}
		if b == g.CFG.Blocks[0] {
			return true
		}
		for _, pb := range preds[b] {
			if !pb.Live {
				continue
			}
			for si, sb := range pb.Succs {
				if sb != b {
					continue
				}
				c2, ok := cons.withEdge(e, g, pb, si)
				if !ok {
					continue
				}
				st := state{pb, c2.key()}
				if seen[st] {
					continue
				}
				seen[st] = true
				if walk(pb, len(pb.Nodes)-1, c2) {
					return true
				}
			}
		}
		return false
	}
	return walk(b, from, cons)
}

func unknown(s Site, why string) []Case {
	return []Case{{Unknown: why, Sites: []Site{s}}}
}

// Values returns the possible origins of x at site s.
func (e *Engine) Values(s Site, x ast.Expr) []Case {
	cs := e.values(s, x, 0)
	for i := range cs {
		cs[i].Sites = append(cs[i].Sites, s)
		cs[i].Use = x
	}
	return cs
}

// NilInfeasible reports whether a nil origin of c is excluded at its use site:
// the use is an identifier and every path to the use establishes `ident != nil`
// (the usual `if err != nil { return err }`).
func (e *Engine) NilInfeasible(c Case) bool {
	id, ok := ast.Unparen(c.Use).(*ast.Ident)
	if !ok || len(c.Sites) == 0 {
		return false
	}
	s := c.Sites[len(c.Sites)-1]
	obj := objOf(s.G.Info, id)
	return e.underLocal(s.G, s.At, s.Up, func(f cfgq.Fact) bool {
		be, ok := ast.Unparen(Positive(f)).(*ast.BinaryExpr)
		if !ok || be.Op != token.NEQ {
			return false
		}
		for _, p := range [][2]ast.Expr{{be.X, be.Y}, {be.Y, be.X}} {
			if x, ok := ast.Unparen(p[0]).(*ast.Ident); ok && objOf(s.G.Info, x) == obj && core.IsNil(s.G.Info, p[1]) {
				return true
			}
		}
		return false
	})
}

func (e *Engine) isLocal(obj types.Object) *types.Var {
	v, ok := obj.(*types.Var)
	if !ok || v.IsField() || v.Pkg() == nil || v.Parent() == nil || v.Parent() == v.Pkg().Scope() {
		return nil
	}
	return v
}

func (e *Engine) values(s Site, x ast.Expr, depth int) []Case {
	x = ast.Unparen(x)
	if depth > 16 {
		return unknown(s, "definition chain too deep")
	}
	info := s.G.Info
	switch v := x.(type) {
	case *ast.Ident:
		obj := objOf(info, v)
		lv := e.isLocal(obj)
		if lv == nil {
			return []Case{{Expr: x, Sites: []Site{s}}}
		}
		if e.unsafeVars(s.G)[obj] {
			return unknown(s, "variable "+v.Name+" has its address taken or is assigned in a closure")
		}
		defs, fromEntry := e.reaching(s.G, s.At, obj)
		var out []Case
		if fromEntry {
			if len(s.Up) > 0 {
				if arg, ok := s.Up[0].Bind[obj]; ok {
					cs := e.values(Site{G: s.Up[0].G, At: s.Up[0].At, Up: s.Up[1:]}, arg, depth+1)
					out = append(out, addSite(cs, s)...)
				} else {
					out = append(out, Case{Expr: x, Sites: []Site{s}})
				}
			} else {
				out = append(out, Case{Expr: x, Sites: []Site{s}})
			}
		}
		for _, d := range defs {
			ds := Site{G: s.G, At: d.at, Up: s.Up}
			out = append(out, e.fromDef(ds, d, v.Name, depth)...)
		}
		return out
	case *ast.CallExpr:
		// conversion: map over the operand's cases
		if tv, ok := info.Types[v.Fun]; ok && tv.IsType() && len(v.Args) == 1 {
			cs := e.values(s, v.Args[0], depth+1)
			var out []Case
			for _, c := range cs {
				if c.Unknown != "" || c.Zero || c.Call != nil && c.Result != 0 {
					out = append(out, c)
					continue
				}
				c.Expr = &ast.CallExpr{Fun: v.Fun, Args: []ast.Expr{c.Expr}}
				c.Call = nil
				out = append(out, c)
			}
			return out
		}
		return e.callResult(s, v, 0, depth)
	}
	var sites []Site
	r := e.resolve(s, x, depth, &sites)
	return []Case{{Expr: r, Sites: append([]Site{s}, sites...)}}
}

func addSite(cs []Case, s Site) []Case {
	for i := range cs {
		cs[i].Sites = append(cs[i].Sites, s)
	}
	return cs
}

func (e *Engine) fromDef(ds Site, d def, name string, depth int) []Case {
	switch n := d.node.(type) {
	case *ast.AssignStmt:
		if n.Tok != token.ASSIGN && n.Tok != token.DEFINE {
			// x op= y is x = x op y when the previous value of x has one origin
			ops := map[token.Token]token.Token{token.ADD_ASSIGN: token.ADD, token.SUB_ASSIGN: token.SUB, token.MUL_ASSIGN: token.MUL,
				token.QUO_ASSIGN: token.QUO, token.REM_ASSIGN: token.REM, token.AND_ASSIGN: token.AND, token.OR_ASSIGN: token.OR,
				token.XOR_ASSIGN: token.XOR, token.SHL_ASSIGN: token.SHL, token.SHR_ASSIGN: token.SHR, token.AND_NOT_ASSIGN: token.AND_NOT}
			if op, ok := ops[n.Tok]; ok && len(n.Lhs) == 1 && len(n.Rhs) == 1 {
				if id, isId := ast.Unparen(n.Lhs[0]).(*ast.Ident); isId {
					prev := e.values(ds, id, depth+1)
					if len(prev) == 1 && prev[0].Unknown == "" && !prev[0].Zero && prev[0].Expr != nil && (prev[0].Call == nil || prev[0].Result == 0) {
						var sites []Site
						rhs := e.resolve(ds, n.Rhs[0], depth+1, &sites)
						c := Case{Expr: &ast.BinaryExpr{X: &ast.ParenExpr{X: prev[0].Expr}, Op: op, Y: rhs}, Sites: append(append(prev[0].Sites, sites...), ds)}
						return []Case{c}
					}
				}
			}
			return unknown(ds, name+" is modified in place ("+n.Tok.String()+")")
		}
		if len(n.Lhs) == len(n.Rhs) {
			return addSite(e.values(ds, n.Rhs[d.idx], depth+1), ds)
		}
		if len(n.Rhs) == 1 {
			if call, ok := ast.Unparen(n.Rhs[0]).(*ast.CallExpr); ok {
				return addSite(e.callResult(ds, call, d.idx, depth+1), ds)
			}
			return unknown(ds, name+" comes from a multi-value expression")
		}
	case *ast.ValueSpec:
		if len(n.Values) == 0 {
			return []Case{{Zero: true, Sites: []Site{ds}}}
		}
		if len(n.Values) == len(n.Names) {
			return addSite(e.values(ds, n.Values[d.idx], depth+1), ds)
		}
		if len(n.Values) == 1 {
			if call, ok := ast.Unparen(n.Values[0]).(*ast.CallExpr); ok {
				return addSite(e.callResult(ds, call, d.idx, depth+1), ds)
			}
		}
	case *ast.IncDecStmt:
		return unknown(ds, name+" is modified in place")
	case *ast.Ident:
		return unknown(ds, name+" is a range variable")
	}
	return unknown(ds, "unrecognised definition of "+name)
}

// followable returns the declaration of the callee when its body may be
// looked into from site s.
func (e *Engine) followable(s Site, call *ast.CallExpr) *core.Fn {
	callee := core.CalleeFunc(s.G.Info, call)
	if callee == nil || callee.Pkg() == nil || !strings.HasPrefix(callee.Pkg().Path(), core.Module) {
		return nil
	}
	if e.Opaque != nil && e.Opaque(callee) {
		return nil
	}
	if e.PureOnly && !e.isPure(callee) {
		return nil
	}
	if len(s.Up) >= e.MaxDepth {
		return nil
	}
	if call.Ellipsis.IsValid() {
		return nil
	}
	fn := e.P.FnOf(callee)
	if fn == nil || fn.Decl.Body == nil {
		return nil
	}
	if sig, ok := callee.Type().(*types.Signature); ok && sig.Variadic() {
		return nil
	}
	cg := cfgq.Of(e.P, fn)
	if cg == s.G {
		return nil
	}
	for _, f := range s.Up {
		if f.G == cg {
			return nil
		}
	}
	return fn
}

// Enter builds the frame for following call (made at s) into fn.
func (e *Engine) enter(s Site, call *ast.CallExpr, fn *core.Fn) Frame {
	info := fn.Pkg.TypesInfo
	bind := map[types.Object]ast.Expr{}
	i := 0
	for _, fl := range fn.Decl.Type.Params.List {
		if len(fl.Names) == 0 {
			i++
			continue
		}
		for _, nm := range fl.Names {
			if i < len(call.Args) {
				if o := info.Defs[nm]; o != nil {
					bind[o] = call.Args[i]
				}
			}
			i++
		}
	}
	if fn.Decl.Recv != nil && len(fn.Decl.Recv.List) == 1 && len(fn.Decl.Recv.List[0].Names) == 1 {
		if sel, ok := ast.Unparen(call.Fun).(*ast.SelectorExpr); ok {
			if o := info.Defs[fn.Decl.Recv.List[0].Names[0]]; o != nil {
				bind[o] = sel.X
			}
		}
	}
	return Frame{G: s.G, At: s.At, Call: call, Bind: bind}
}

func (e *Engine) callResult(s Site, call *ast.CallExpr, idx int, depth int) []Case {
	fn := e.followable(s, call)
	if fn == nil {
		var sites []Site
		r := e.resolveCallParts(s, call, depth, &sites)
		c := Case{Expr: r, Call: call, Result: idx, Sites: append([]Site{s}, sites...)}
		return []Case{c}
	}
	cg := cfgq.Of(e.P, fn)
	fr := e.enter(s, call, fn)
	up := append([]Frame{fr}, s.Up...)
	var out []Case
	rets := cg.Points(func(n ast.Node) bool { _, ok := n.(*ast.ReturnStmt); return ok })
	var names []*ast.Ident
	if fn.Decl.Type.Results != nil {
		for _, fl := range fn.Decl.Type.Results.List {
			names = append(names, fl.Names...)
		}
	}
	nres := fn.Obj.Type().(*types.Signature).Results().Len()
	for _, rp := range rets {
		ret := rp.Node().(*ast.ReturnStmt)
		rs := Site{G: cg, At: rp, Up: up}
		// by convention the other results of an error return are meaningless and
		// the caller does not use them
		if idx < nres-1 && cfgq.ClassifyReturn(fn.Pkg.TypesInfo, fn.Decl.Body, ret) == cfgq.RetErr {
			continue
		}
		switch {
		case len(ret.Results) == 0:
			if idx < len(names) {
				out = append(out, addSite(e.values(rs, names[idx], depth+1), rs)...)
			} else {
				out = append(out, unknown(rs, "bare return without named results")...)
			}
		case len(ret.Results) == 1 && fn.Obj.Type().(*types.Signature).Results().Len() > 1:
			if c2, ok := ast.Unparen(ret.Results[0]).(*ast.CallExpr); ok {
				out = append(out, addSite(e.callResult(rs, c2, idx, depth+1), rs)...)
			} else {
				out = append(out, unknown(rs, "multi-value return expression")...)
			}
		case idx < len(ret.Results):
			out = append(out, addSite(e.values(rs, ret.Results[idx], depth+1), rs)...)
		}
	}
	if len(rets) == 0 {
		out = append(out, Case{Zero: true, Sites: []Site{s}})
	}
	return out
}

// Resolve rewrites x so that every local variable with exactly one resolvable
// origin is replaced by that origin (recursively), parameters of helper frames
// by the caller's arguments. Other sub-expressions are kept.
func (e *Engine) Resolve(s Site, x ast.Expr) ast.Expr {
	var sites []Site
	return e.resolve(s, x, 0, &sites)
}

func (e *Engine) resolveCallParts(s Site, v *ast.CallExpr, depth int, sites *[]Site) ast.Expr {
	fun := v.Fun
	if sel, ok := ast.Unparen(v.Fun).(*ast.SelectorExpr); ok {
		if _, isPkg := objOf(s.G.Info, identOf(sel.X)).(*types.PkgName); !isPkg {
			fun = &ast.SelectorExpr{X: e.resolve(s, sel.X, depth+1, sites), Sel: sel.Sel}
		}
	}
	args := make([]ast.Expr, len(v.Args))
	changed := fun != v.Fun
	for i, a := range v.Args {
		args[i] = e.resolve(s, a, depth+1, sites)
		if args[i] != a {
			changed = true
		}
	}
	if !changed {
		return v
	}
	return &ast.CallExpr{Fun: fun, Lparen: v.Lparen, Args: args, Ellipsis: v.Ellipsis, Rparen: v.Rparen}
}

func identOf(x ast.Expr) *ast.Ident {
	id, _ := ast.Unparen(x).(*ast.Ident)
	if id == nil {
		return &ast.Ident{Name: "\x00"}
	}
	return id
}

func (e *Engine) resolve(s Site, x ast.Expr, depth int, sites *[]Site) ast.Expr {
	if x == nil || depth > 16 {
		return x
	}
	info := s.G.Info
	switch v := x.(type) {
	case *ast.ParenExpr:
		return e.resolve(s, v.X, depth, sites)
	case *ast.Ident:
		obj := objOf(info, v)
		if e.isLocal(obj) == nil {
			return v
		}
		if len(s.Up) > 0 && !e.unsafeVars(s.G)[obj] {
			// an unmodified parameter of a helper frame stands for the caller's argument
			if arg, ok := s.Up[0].Bind[obj]; ok {
				if defs, _ := e.reaching(s.G, s.At, obj); len(defs) == 0 {
					return e.resolve(Site{G: s.Up[0].G, At: s.Up[0].At, Up: s.Up[1:]}, arg, depth+1, sites)
				}
			}
		}
		cs := e.values(s, v, depth+1)
		if len(cs) == 1 && cs[0].Unknown == "" && !cs[0].Zero && cs[0].Expr != nil {
			*sites = append(*sites, cs[0].Sites...)
			if cs[0].Call != nil && cs[0].Result != 0 {
				return ResultExpr(cs[0].Expr, cs[0].Result)
			}
			return cs[0].Expr
		}
		return v
	case *ast.SelectorExpr:
		if _, isPkg := objOf(info, identOf(v.X)).(*types.PkgName); isPkg {
			return v
		}
		nx := e.resolve(s, v.X, depth+1, sites)
		if nx == v.X {
			return v
		}
		return &ast.SelectorExpr{X: nx, Sel: v.Sel}
	case *ast.CallExpr:
		if tv, ok := info.Types[v.Fun]; ok && tv.IsType() {
			return e.resolveCallParts(s, v, depth, sites)
		}
		if fn := e.followable(s, v); fn != nil {
			cs := e.callResult(s, v, 0, depth+1)
			if len(cs) == 1 && cs[0].Unknown == "" && !cs[0].Zero && cs[0].Expr != nil && (cs[0].Call == nil || cs[0].Result == 0) {
				*sites = append(*sites, cs[0].Sites...)
				return cs[0].Expr
			}
		}
		return e.resolveCallParts(s, v, depth, sites)
	case *ast.BinaryExpr:
		a, b := e.resolve(s, v.X, depth+1, sites), e.resolve(s, v.Y, depth+1, sites)
		if a == v.X && b == v.Y {
			return v
		}
		return &ast.BinaryExpr{X: a, Op: v.Op, OpPos: v.OpPos, Y: b}
	case *ast.UnaryExpr:
		if v.Op == token.AND {
			return v
		}
		a := e.resolve(s, v.X, depth+1, sites)
		if a == v.X {
			return v
		}
		return &ast.UnaryExpr{Op: v.Op, OpPos: v.OpPos, X: a}
	case *ast.StarExpr:
		a := e.resolve(s, v.X, depth+1, sites)
		if a == v.X {
			return v
		}
		return &ast.StarExpr{X: a}
	case *ast.IndexExpr:
		a, b := e.resolve(s, v.X, depth+1, sites), e.resolve(s, v.Index, depth+1, sites)
		if a == v.X && b == v.Index {
			return v
		}
		return &ast.IndexExpr{X: a, Index: b}
	case *ast.SliceExpr:
		return &ast.SliceExpr{X: e.resolve(s, v.X, depth+1, sites), Low: e.resolve(s, v.Low, depth+1, sites),
			High: e.resolve(s, v.High, depth+1, sites), Max: e.resolve(s, v.Max, depth+1, sites), Slice3: v.Slice3}
	case *ast.TypeAssertExpr:
		a := e.resolve(s, v.X, depth+1, sites)
		if a == v.X {
			return v
		}
		return &ast.TypeAssertExpr{X: a, Type: v.Type}
	case *ast.CompositeLit:
		elts := make([]ast.Expr, len(v.Elts))
		changed := false
		for i, el := range v.Elts {
			if kv, ok := el.(*ast.KeyValueExpr); ok {
				nv := e.resolve(s, kv.Value, depth+1, sites)
				if nv != kv.Value {
					changed = true
					elts[i] = &ast.KeyValueExpr{Key: kv.Key, Colon: kv.Colon, Value: nv}
				} else {
					elts[i] = el
				}
				continue
			}
			elts[i] = e.resolve(s, el, depth+1, sites)
			if elts[i] != el {
				changed = true
			}
		}
		if !changed {
			return v
		}
		return &ast.CompositeLit{Type: v.Type, Lbrace: v.Lbrace, Elts: elts, Rbrace: v.Rbrace}
	}
	return x
}

// ---------------------------------------------------------------------------
// facts

// Positive returns the expression that is true when fact f holds: comparisons
// are negated by flipping the operator, !x by dropping the !.
func Positive(f cfgq.Fact) ast.Expr {
	if f.Val {
		return f.Expr
	}
	switch x := ast.Unparen(f.Expr).(type) {
	case *ast.BinaryExpr:
		neg := map[token.Token]token.Token{token.EQL: token.NEQ, token.NEQ: token.EQL, token.LSS: token.GEQ,
			token.GEQ: token.LSS, token.GTR: token.LEQ, token.LEQ: token.GTR}
		if op, ok := neg[x.Op]; ok {
			return &ast.BinaryExpr{X: x.X, Op: op, OpPos: x.OpPos, Y: x.Y}
		}
	case *ast.UnaryExpr:
		if x.Op == token.NOT {
			return x.X
		}
	}
	return &ast.UnaryExpr{Op: token.NOT, X: f.Expr}
}

// Holds builds a fact matcher from expression patterns (see package pat): the
// fact, in positive form, must match one of them under the given bindings.
func Holds(info *types.Info, b pat.Binds, srcs ...string) func(cfgq.Fact) bool {
	var ps []*pat.Pattern
	for _, s := range srcs {
		ps = append(ps, pat.Expr(s))
	}
	return func(f cfgq.Fact) bool {
		p := Positive(f)
		for _, q := range ps {
			if q.Match(info, p, b) != nil {
				return true
			}
		}
		return false
	}
}

type mention struct {
	locals map[types.Object]bool
	fields map[*types.Var]bool
}

func mentionsOf(info *types.Info, x ast.Expr) mention {
	m := mention{map[types.Object]bool{}, map[*types.Var]bool{}}
	ast.Inspect(x, func(n ast.Node) bool {
		switch v := n.(type) {
		case *ast.Ident:
			if o, ok := objOf(info, v).(*types.Var); ok && o != nil {
				if o.IsField() {
					m.fields[o] = true
				} else {
					m.locals[o] = true
				}
			}
		case *ast.SelectorExpr:
			if sel, ok := info.Selections[v]; ok && sel.Kind() == types.FieldVal {
				if fv, ok := sel.Obj().(*types.Var); ok {
					m.fields[fv] = true
				}
			}
		}
		return true
	})
	return m
}

func (m mention) add(o mention) {
	for k := range o.locals {
		m.locals[k] = true
	}
	for k := range o.fields {
		m.fields[k] = true
	}
}

// kills reports whether executing cfg node n may invalidate a fact that
// mentions m.
func (e *Engine) kills(g *cfgq.Graph, n ast.Node, m mention) bool {
	info := g.Info
	lhs := func(l ast.Expr) bool {
		l = ast.Unparen(l)
		switch v := l.(type) {
		case *ast.Ident:
			return m.locals[objOf(info, v)]
		case *ast.SelectorExpr:
			if fv := core.FieldOf(info, v); fv != nil {
				return m.fields[fv]
			}
		case *ast.StarExpr, *ast.IndexExpr:
			return false
		}
		return false
	}
	switch x := n.(type) {
	case *ast.AssignStmt:
		for _, l := range x.Lhs {
			if lhs(l) {
				return true
			}
		}
	case *ast.IncDecStmt:
		if lhs(x.X) {
			return true
		}
	case *ast.ValueSpec:
		for _, nm := range x.Names {
			if m.locals[info.Defs[nm]] {
				return true
			}
		}
	case *ast.Ident:
		if o := info.Defs[x]; o != nil && m.locals[o] {
			return true
		}
	}
	if len(m.fields) == 0 {
		return false
	}
	for _, call := range cfgq.ExecCalls(n) {
		callee := core.CalleeFunc(info, call)
		if callee == nil {
			continue
		}
		for fv := range e.Writes(callee) {
			if m.fields[fv] {
				return true
			}
		}
	}
	return false
}

// Writes returns the struct fields that f may assign, directly or through the
// module functions it calls statically (calls through interfaces and function
// values are not followed).
func (e *Engine) Writes(f *types.Func) map[*types.Var]bool {
	if e.writes == nil {
		e.computeWrites()
	}
	return e.writes[f.Origin()]
}

func (e *Engine) computeWrites() {
	e.writes = map[*types.Func]map[*types.Var]bool{}
	callees := map[*types.Func][]*types.Func{}
	for _, pk := range e.P.Pkgs {
		info := pk.TypesInfo
		if info == nil {
			continue
		}
		for _, file := range pk.Syntax {
			for _, d := range file.Decls {
				fd, ok := d.(*ast.FuncDecl)
				if !ok || fd.Body == nil {
					continue
				}
				fobj, _ := info.Defs[fd.Name].(*types.Func)
				if fobj == nil {
					continue
				}
				w := map[*types.Var]bool{}
				ast.Inspect(fd.Body, func(n ast.Node) bool {
					switch x := n.(type) {
					case *ast.AssignStmt:
						for _, l := range x.Lhs {
							if fv := core.FieldOf(info, ast.Unparen(l)); fv != nil {
								w[fv] = true
							}
						}
					case *ast.IncDecStmt:
						if fv := core.FieldOf(info, ast.Unparen(x.X)); fv != nil {
							w[fv] = true
						}
					case *ast.CallExpr:
						if c := core.CalleeFunc(info, x); c != nil && c.Pkg() != nil && strings.HasPrefix(c.Pkg().Path(), core.Module) {
							callees[fobj] = append(callees[fobj], c.Origin())
						}
					}
					return true
				})
				e.writes[fobj] = w
			}
		}
	}
	for changed := true; changed; {
		changed = false
		for f, cs := range callees {
			for _, c := range cs {
				for fv := range e.writes[c] {
					if !e.writes[f][fv] {
						e.writes[f][fv] = true
						changed = true
					}
				}
			}
		}
	}
}

// Under reports whether a fact accepted by match is established on every path
// to s (in its own function or at one of the call sites of its frames) and is
// still valid there.
func (e *Engine) Under(s Site, match func(cfgq.Fact) bool) bool {
	if e.underLocal(s.G, s.At, s.Up, match) {
		return true
	}
	for i, f := range s.Up {
		if e.underLocal(f.G, f.At, s.Up[i+1:], match) {
			return true
		}
	}
	return false
}

// AnyUnder reports whether the fact is established at one of the sites.
func (e *Engine) AnyUnder(sites []Site, match func(cfgq.Fact) bool) bool {
	for _, s := range sites {
		if e.Under(s, match) {
			return true
		}
	}
	return false
}

func (e *Engine) underLocal(g *cfgq.Graph, at cfgq.Point, up []Frame, match func(cfgq.Fact) bool) bool {
	type st struct {
		b  *cfg.Block
		on bool
	}
	// per block/edge: does leaving b through succ si establish the fact, and what does it mention
	type edgeKey struct {
		b  *cfg.Block
		si int
	}
	edgeMemo := map[edgeKey]*mention{}
	edge := func(b *cfg.Block, si int) *mention {
		k := edgeKey{b, si}
		if m, ok := edgeMemo[k]; ok {
			return m
		}
		var res *mention
		end := Site{G: g, At: cfgq.Point{B: b, I: len(b.Nodes)}, Up: up}
		for _, f := range g.EdgeFacts(b, si) {
			hit := match(f)
			if !hit {
				r := e.Resolve(end, f.Expr)
				if r != f.Expr {
					hit = match(cfgq.Fact{Expr: r, Val: f.Val})
				}
			}
			if !hit {
				hit = e.viaFlag(g, b, up, f, match)
			}
			if hit {
				if res == nil {
					res = &mention{map[types.Object]bool{}, map[*types.Var]bool{}}
				}
				res.add(mentionsOf(g.Info, f.Expr))
			}
		}
		edgeMemo[k] = res
		return res
	}
	all := mention{map[types.Object]bool{}, map[*types.Var]bool{}}
	for _, b := range g.CFG.Blocks {
		if b.Live && len(b.Succs) == 2 {
			for si := range b.Succs {
				if m := edge(b, si); m != nil {
					all.add(*m)
				}
			}
		}
	}
	visited := map[st]bool{}
	queue := []st{{g.CFG.Blocks[0], false}}
	visited[queue[0]] = true
	for len(queue) > 0 {
		cur := queue[0]
		queue = queue[1:]
		on := cur.on
		for i, n := range cur.b.Nodes {
			if cur.b == at.B && i == at.I {
				if !on {
					return false
				}
			}
			if on && e.kills(g, n, all) {
				on = false
			}
		}
		if cur.b == at.B && at.I >= len(cur.b.Nodes) && !on {
			return false
		}
		for si, t := range cur.b.Succs {
			non := on
			if len(cur.b.Succs) == 2 {
				if m := edge(cur.b, si); m != nil {
					non = true
				}
			}
			k := st{t, non}
			if !visited[k] {
				visited[k] = true
				queue = append(queue, k)
			}
		}
	}
	return true
}

// ---------------------------------------------------------------------------
// stores

// Store is one assignment to a struct field.
type Store struct {
	Site
	Stmt  ast.Node
	LHS   *ast.SelectorExpr
	RHS   ast.Expr    // the assigned expression (plain 1:1 assignment) or the operand of an op-assignment; nil otherwise
	Op    token.Token // token.ASSIGN/DEFINE for plain assignments, ADD_ASSIGN etc. for `x op= y`, INC/DEC
	Field *types.Var
}

// Plain reports whether the store is a plain 1:1 assignment `x.f = RHS`.
func (st Store) Plain() bool {
	return st.RHS != nil && (st.Op == token.ASSIGN || st.Op == token.DEFINE)
}

// Stores lists the assignments to fields accepted by want inside region (a
// sub-tree of the body of s.G) and inside the module helpers called from it.
func (e *Engine) Stores(g *cfgq.Graph, region ast.Node, want func(*types.Var) bool) []Store {
	var out []Store
	e.stores(g, region, nil, want, &out)
	return out
}

func (e *Engine) stores(g *cfgq.Graph, region ast.Node, up []Frame, want func(*types.Var) bool, out *[]Store) {
	info := g.Info
	core.Inspect(region, func(n ast.Node) bool {
		switch x := n.(type) {
		case *ast.AssignStmt:
			for i, l := range x.Lhs {
				sel, ok := ast.Unparen(l).(*ast.SelectorExpr)
				if !ok {
					continue
				}
				fv := core.FieldOf(info, sel)
				if fv == nil || !want(fv) {
					continue
				}
				pt, ok := g.Find(x)
				if !ok {
					continue
				}
				st := Store{Site: Site{G: g, At: pt, Up: up}, Stmt: x, LHS: sel, Field: fv, Op: x.Tok}
				if len(x.Lhs) == len(x.Rhs) {
					st.RHS = x.Rhs[i]
				}
				*out = append(*out, st)
			}
		case *ast.IncDecStmt:
			if sel, ok := ast.Unparen(x.X).(*ast.SelectorExpr); ok {
				if fv := core.FieldOf(info, sel); fv != nil && want(fv) {
					if pt, ok := g.Find(x); ok {
						*out = append(*out, Store{Site: Site{G: g, At: pt, Up: up}, Stmt: x, LHS: sel, Field: fv, Op: x.Tok})
					}
				}
			}
		case *ast.CallExpr:
			pt, ok := g.Find(x)
			if !ok {
				return true
			}
			s := Site{G: g, At: pt, Up: up}
			if fn := e.followable(s, x); fn != nil {
				// only helpers that (transitively) write a wanted field
				any := false
				for fv := range e.Writes(fn.Obj) {
					if want(fv) {
						any = true
					}
				}
				if any {
					fr := e.enter(s, x, fn)
					e.stores(cfgq.Of(e.P, fn), fn.Decl.Body, append([]Frame{fr}, up...), want, out)
				}
			}
		}
		return true
	})
}

// Calls lists the calls accepted by want inside region and inside the module
// helpers called from it (helpers accepted by want are not entered).
func (e *Engine) Calls(g *cfgq.Graph, region ast.Node, want func(*types.Func) bool) []CallSite {
	var out []CallSite
	e.calls(g, region, nil, want, &out)
	return out
}

// CallSite is a call with its site.
type CallSite struct {
	Site
	Call *ast.CallExpr
	Fn   *types.Func
}

func (e *Engine) calls(g *cfgq.Graph, region ast.Node, up []Frame, want func(*types.Func) bool, out *[]CallSite) {
	info := g.Info
	core.Inspect(region, func(n ast.Node) bool {
		x, ok := n.(*ast.CallExpr)
		if !ok {
			return true
		}
		callee := core.CalleeFunc(info, x)
		if callee == nil {
			return true
		}
		pt, ok := g.Find(x)
		if !ok {
			return true
		}
		s := Site{G: g, At: pt, Up: up}
		if want(callee) {
			*out = append(*out, CallSite{Site: s, Call: x, Fn: callee})
			return true
		}
		if fn := e.followable(s, x); fn != nil {
			fr := e.enter(s, x, fn)
			e.calls(cfgq.Of(e.P, fn), fn.Decl.Body, append([]Frame{fr}, up...), want, out)
		}
		return true
	})
}

// Returns lists the possible origins of result #idx of fn over all its return
// statements (named results are followed through bare returns).
func (e *Engine) Returns(fn *core.Fn, idx int) []Case {
	g := cfgq.Of(e.P, fn)
	var names []*ast.Ident
	if fn.Decl.Type.Results != nil {
		for _, fl := range fn.Decl.Type.Results.List {
			names = append(names, fl.Names...)
		}
	}
	nres := fn.Obj.Type().(*types.Signature).Results().Len()
	var out []Case
	for _, rp := range g.Points(func(n ast.Node) bool { _, ok := n.(*ast.ReturnStmt); return ok }) {
		ret := rp.Node().(*ast.ReturnStmt)
		s := Site{G: g, At: rp}
		switch {
		case len(ret.Results) == 0:
			if idx < len(names) {
				out = append(out, e.Values(s, names[idx])...)
			}
		case len(ret.Results) == 1 && nres > 1:
			if c2, ok := ast.Unparen(ret.Results[0]).(*ast.CallExpr); ok {
				out = append(out, addSite(e.callResult(s, c2, idx, 0), s)...)
			} else {
				out = append(out, unknown(s, "multi-value return expression")...)
			}
		case idx < len(ret.Results):
			out = append(out, e.Values(s, ret.Results[idx])...)
		}
	}
	return out
}

// Describe renders a case for messages.
func (e *Engine) Describe(c Case) string {
	switch {
	case c.Unknown != "":
		return "<unknown: " + c.Unknown + ">"
	case c.Zero:
		return "<zero value>"
	case c.Expr != nil:
		s := core.NodeString(e.P.Fset, c.Expr)
		if c.Call != nil && c.Result != 0 {
			s += "#" + string(rune('0'+c.Result))
		}
		return s
	}
	return "?"
}

// isPure reports whether the module function f only computes: its body
// contains no call other than conversions, builtins and pure module functions,
// and assigns only to its own local variables.
func (e *Engine) isPure(f *types.Func) bool {
	f = f.Origin()
	if e.pure == nil {
		e.pure = map[*types.Func]int{}
	}
	switch e.pure[f] {
	case 1:
		return true
	case 2, 3:
		return false // known impure, or in progress (recursion)
	}
	e.pure[f] = 3
	fn := e.P.FnOf(f)
	ok := fn != nil && fn.Decl.Body != nil
	if ok {
		info := fn.Pkg.TypesInfo
		ast.Inspect(fn.Decl.Body, func(n ast.Node) bool {
			switch x := n.(type) {
			case *ast.CallExpr:
				if tv, has := info.Types[x.Fun]; has && tv.IsType() {
					return true
				}
				switch c := core.Callee(info, x).(type) {
				case *types.Builtin:
					if c.Name() == "panic" || c.Name() == "append" || c.Name() == "copy" || c.Name() == "delete" || c.Name() == "close" {
						ok = false
					}
				case *types.Func:
					if c.Pkg() == nil || !strings.HasPrefix(c.Pkg().Path(), core.Module) || !e.isPure(c) {
						ok = false
					}
				default:
					ok = false
				}
			case *ast.AssignStmt:
				for _, l := range x.Lhs {
					if _, isId := ast.Unparen(l).(*ast.Ident); !isId {
						ok = false
					}
				}
			case *ast.IncDecStmt:
				if _, isId := ast.Unparen(x.X).(*ast.Ident); !isId {
					ok = false
				}
			case *ast.GoStmt, *ast.SendStmt, *ast.DeferStmt, *ast.FuncLit:
				ok = false
			case *ast.UnaryExpr:
				if x.Op == token.ARROW {
					ok = false
				}
			}
			return ok
		})
	}
	if ok {
		e.pure[f] = 1
	} else {
		e.pure[f] = 2
	}
	return ok
}

// ResultExpr is how Resolve writes "result #k of call" for k > 0: the call
// indexed by k (not Go, but comparable structurally and by package lin).
// Result #0 is written as the call itself.
func ResultExpr(call ast.Expr, k int) ast.Expr {
	if k == 0 {
		return call
	}
	return &ast.IndexExpr{X: call, Index: &ast.BasicLit{Kind: token.INT, Value: string(rune('0' + k))}}
}

// IsResult reports whether the resolved expression x is result #k of a call
// rebuilt from the original call `of` (conversions around x are ignored).
func IsResult(info *types.Info, x ast.Expr, of *ast.CallExpr, k int) bool {
	for {
		x = ast.Unparen(x)
		c, ok := x.(*ast.CallExpr)
		if ok && len(c.Args) == 1 {
			if tv, has := info.Types[c.Fun]; has && tv.IsType() {
				x = c.Args[0]
				continue
			}
		}
		break
	}
	if k > 0 {
		ix, ok := x.(*ast.IndexExpr)
		if !ok {
			return false
		}
		lit, ok := ix.Index.(*ast.BasicLit)
		if !ok || lit.Value != string(rune('0'+k)) {
			return false
		}
		x = ast.Unparen(ix.X)
	}
	c, ok := x.(*ast.CallExpr)
	return ok && (c == of || c.Lparen == of.Lparen && c.Lparen.IsValid())
}

// Walk visits every node of region and of the bodies of the module helpers
// called from it (same bounds as Stores/Calls), with the site of the cfg node
// that contains it.
func (e *Engine) Walk(g *cfgq.Graph, region ast.Node, visit func(s Site, n ast.Node)) {
	e.walk(g, region, nil, visit)
}

func (e *Engine) walk(g *cfgq.Graph, region ast.Node, up []Frame, visit func(s Site, n ast.Node)) {
	core.Inspect(region, func(n ast.Node) bool {
		pt, ok := g.Find(n)
		if !ok {
			return true
		}
		s := Site{G: g, At: pt, Up: up}
		visit(s, n)
		if x, isCall := n.(*ast.CallExpr); isCall {
			if fn := e.followable(s, x); fn != nil {
				fr := e.enter(s, x, fn)
				e.walk(cfgq.Of(e.P, fn), fn.Decl.Body, append([]Frame{fr}, up...), visit)
			}
		}
		return true
	})
}

// viaFlag: the edge fact is a boolean local with a known truth value; when the
// local is only ever assigned constants, the fact that matters is the one under
// which it was given that value: `ok = true` only inside `if cond {...}` makes
// "ok is true" imply cond. All assignments of that value must establish the
// matched fact.
func (e *Engine) viaFlag(g *cfgq.Graph, b *cfg.Block, up []Frame, f cfgq.Fact, match func(cfgq.Fact) bool) bool {
	if e.flagDepth > 2 {
		return false
	}
	x := ast.Unparen(f.Expr)
	val := f.Val
	if u, ok := x.(*ast.UnaryExpr); ok && u.Op == token.NOT {
		x, val = ast.Unparen(u.X), !val
	}
	id, ok := x.(*ast.Ident)
	if !ok || !isBoolExpr(g.Info, id) {
		return false
	}
	obj := e.isLocal(objOf(g.Info, id))
	if obj == nil || e.unsafeVars(g)[obj] {
		return false
	}
	defs, fromEntry := e.reaching(g, cfgq.Point{B: b, I: len(b.Nodes)}, obj)
	if fromEntry || len(defs) == 0 {
		return false
	}
	n := 0
	for _, d := range defs {
		var rhs ast.Expr
		zero := false
		switch st := d.node.(type) {
		case *ast.AssignStmt:
			if len(st.Lhs) == len(st.Rhs) && (st.Tok == token.ASSIGN || st.Tok == token.DEFINE) {
				rhs = st.Rhs[d.idx]
			}
		case *ast.ValueSpec:
			if len(st.Values) == len(st.Names) {
				rhs = st.Values[d.idx]
			} else if len(st.Values) == 0 {
				zero = true
			}
		}
		cl := int8(0)
		if zero {
			cl = 1
		} else if rhs != nil {
			cl = valueClass(g.Info, rhs)
		}
		if cl == 0 {
			return false // assigned something that is not a constant
		}
		if (cl == 2) != val {
			continue
		}
		n++
		e.flagDepth++
		ok := e.underLocal(g, d.at, up, match)
		e.flagDepth--
		if !ok {
			return false
		}
	}
	return n > 0
}
