// Package lin normalises integer expressions and comparisons to linear forms
// (sum of atoms with integer coefficients plus a constant), so that rules can
// state an arithmetic relation once and accept every spelling of it:
// `n - uint32(i) - 1`, `n - 1 - uint32(i)` and `n - uint32(i+1)` have the same
// form; `i != int(n-1)`, `i+1 != int(n)` and `int(n)-1 != i` are the same
// comparison. Conversions are transparent, single-assignment locals stand for
// their definition (package pat), constants are folded by go/types. Anything
// that is not +, -, unary -, multiplication by a constant or a shift by a
// constant is an atom, identified by the objects it mentions (not by names).
package lin

import (
	"fmt"
	"go/ast"
	"go/constant"
	"go/token"
	"go/types"
	"sort"
	"strings"

	"rscheck/pat"
)

// Form is a linear form.
type Form struct {
	Coef  map[string]int64
	Const int64
}

func newForm() Form { return Form{Coef: map[string]int64{}} }

// Key returns the identity key of an atom expression.
func Key(info *types.Info, e ast.Expr) string {
	e = strip(info, e)
	switch x := e.(type) {
	case *ast.Ident:
		if d := pat.DefOf(info, x); d != nil {
			return Key(info, d)
		}
		o := info.Uses[x]
		if o == nil {
			o = info.Defs[x]
		}
		if o == nil {
			return "?" + x.Name
		}
		return fmt.Sprintf("%s@%p", x.Name, o)
	case *ast.SelectorExpr:
		if id, ok := ast.Unparen(x.X).(*ast.Ident); ok {
			if _, isPkg := info.Uses[id].(*types.PkgName); isPkg {
				return id.Name + "." + x.Sel.Name
			}
		}
		return Key(info, x.X) + "." + x.Sel.Name
	case *ast.CallExpr:
		var parts []string
		for _, a := range x.Args {
			parts = append(parts, Key(info, a))
		}
		return Key(info, x.Fun) + "(" + strings.Join(parts, ",") + ")"
	case *ast.IndexExpr:
		return Key(info, x.X) + "[" + Key(info, x.Index) + "]"
	case *ast.StarExpr:
		return "*" + Key(info, x.X)
	case *ast.BasicLit:
		return x.Value
	case *ast.BinaryExpr:
		return "(" + Key(info, x.X) + x.Op.String() + Key(info, x.Y) + ")"
	case *ast.UnaryExpr:
		return x.Op.String() + Key(info, x.X)
	case *ast.SliceExpr:
		k := Key(info, x.X) + "["
		if x.Low != nil {
			k += Key(info, x.Low)
		}
		k += ":"
		if x.High != nil {
			k += Key(info, x.High)
		}
		return k + "]"
	}
	return fmt.Sprintf("<%T@%d>", e, e.Pos())
}

// strip removes parentheses and integer conversions.
func strip(info *types.Info, e ast.Expr) ast.Expr {
	for {
		e = ast.Unparen(e)
		call, ok := e.(*ast.CallExpr)
		if !ok || len(call.Args) != 1 {
			return e
		}
		tv, has := info.Types[call.Fun]
		if !has || !tv.IsType() {
			return e
		}
		if b, ok := tv.Type.Underlying().(*types.Basic); !ok || b.Info()&types.IsInteger == 0 {
			return e
		}
		e = call.Args[0]
	}
}

func constOf(info *types.Info, e ast.Expr) (int64, bool) {
	tv, ok := info.Types[e]
	if !ok || tv.Value == nil {
		return 0, false
	}
	v := constant.ToInt(tv.Value)
	if v.Kind() != constant.Int {
		return 0, false
	}
	return constant.Int64Val(v)
}

// Of returns the linear form of e.
func Of(info *types.Info, e ast.Expr) Form {
	f := newForm()
	add(info, e, 1, &f, 0)
	for k, v := range f.Coef {
		if v == 0 {
			delete(f.Coef, k)
		}
	}
	return f
}

func add(info *types.Info, e ast.Expr, k int64, f *Form, depth int) {
	e = strip(info, e)
	if v, ok := constOf(info, e); ok {
		f.Const += k * v
		return
	}
	switch x := e.(type) {
	case *ast.Ident:
		if d := pat.DefOf(info, x); d != nil && depth < 6 {
			add(info, d, k, f, depth+1)
			return
		}
	case *ast.UnaryExpr:
		switch x.Op {
		case token.SUB:
			add(info, x.X, -k, f, depth)
			return
		case token.ADD:
			add(info, x.X, k, f, depth)
			return
		}
	case *ast.BinaryExpr:
		switch x.Op {
		case token.ADD:
			add(info, x.X, k, f, depth)
			add(info, x.Y, k, f, depth)
			return
		case token.SUB:
			add(info, x.X, k, f, depth)
			add(info, x.Y, -k, f, depth)
			return
		case token.MUL:
			if c, ok := constOf(info, strip(info, x.Y)); ok {
				add(info, x.X, k*c, f, depth)
				return
			}
			if c, ok := constOf(info, strip(info, x.X)); ok {
				add(info, x.Y, k*c, f, depth)
				return
			}
		case token.SHL:
			if c, ok := constOf(info, strip(info, x.Y)); ok && c >= 0 && c < 62 {
				add(info, x.X, k*(1<<uint(c)), f, depth)
				return
			}
		}
	}
	f.Coef[Key(info, e)] += k
}

// Combo builds the form sum(coef_i * atom_i) + c from atom expressions.
func Combo(info *types.Info, c int64, terms ...interface{}) Form {
	f := newForm()
	f.Const = c
	for i := 0; i+1 < len(terms); i += 2 {
		k := int64(terms[i].(int))
		add(info, terms[i+1].(ast.Expr), k, &f, 0)
	}
	for k, v := range f.Coef {
		if v == 0 {
			delete(f.Coef, k)
		}
	}
	return f
}

// Equal compares two forms.
func (a Form) Equal(b Form) bool {
	if a.Const != b.Const || len(a.Coef) != len(b.Coef) {
		return false
	}
	for k, v := range a.Coef {
		if b.Coef[k] != v {
			return false
		}
	}
	return true
}

// Neg returns -a.
func (a Form) Neg() Form {
	f := newForm()
	f.Const = -a.Const
	for k, v := range a.Coef {
		f.Coef[k] = -v
	}
	return f
}

func (a Form) String() string {
	var ks []string
	for k := range a.Coef {
		ks = append(ks, k)
	}
	sort.Strings(ks)
	var parts []string
	for _, k := range ks {
		name := k
		if i := strings.Index(name, "@"); i >= 0 {
			j := strings.IndexAny(name[i:], ".([")
			if j < 0 {
				name = name[:i]
			} else {
				name = name[:i] + name[i+j:]
			}
		}
		parts = append(parts, fmt.Sprintf("%+d*%s", a.Coef[k], name))
	}
	parts = append(parts, fmt.Sprintf("%+d", a.Const))
	return strings.Join(parts, " ")
}

// Cmp is a comparison `Form op 0` with op one of == != < <=.
type Cmp struct {
	F  Form
	Op token.Token
}

// CmpOf normalises the comparison `cond` taken with truth value val to
// `F op 0`, op in {==, !=, <, <=}. ok is false when cond is not a comparison.
func CmpOf(info *types.Info, cond ast.Expr, val bool) (Cmp, bool) {
	be, ok := ast.Unparen(cond).(*ast.BinaryExpr)
	if !ok {
		if u, isNot := ast.Unparen(cond).(*ast.UnaryExpr); isNot && u.Op == token.NOT {
			return CmpOf(info, u.X, !val)
		}
		return Cmp{}, false
	}
	op := be.Op
	if !val {
		neg := map[token.Token]token.Token{token.EQL: token.NEQ, token.NEQ: token.EQL, token.LSS: token.GEQ,
			token.GEQ: token.LSS, token.GTR: token.LEQ, token.LEQ: token.GTR}
		n, ok := neg[op]
		if !ok {
			return Cmp{}, false
		}
		op = n
	}
	f := newForm()
	add(info, be.X, 1, &f, 0)
	add(info, be.Y, -1, &f, 0)
	for k, v := range f.Coef {
		if v == 0 {
			delete(f.Coef, k)
		}
	}
	switch op {
	case token.EQL, token.NEQ, token.LSS, token.LEQ:
		return Cmp{f, op}, true
	case token.GTR: // X - Y > 0  <=>  Y - X < 0
		return Cmp{f.Neg(), token.LSS}, true
	case token.GEQ:
		return Cmp{f.Neg(), token.LEQ}, true
	}
	return Cmp{}, false
}

// Is reports whether comparison c says `want op 0` over the integers, where
// equivalent integer spellings are identified: F < 0 <=> F+1 <= 0, and for
// == / != the sign of F is irrelevant.
func (c Cmp) Is(want Form, op token.Token) bool {
	switch op {
	case token.EQL, token.NEQ:
		return c.Op == op && (c.F.Equal(want) || c.F.Equal(want.Neg()))
	case token.LSS:
		if c.Op == token.LSS && c.F.Equal(want) {
			return true
		}
		if c.Op == token.LEQ { // F' <= 0 with F' = want + 1
			w := want
			w2 := Form{Coef: w.Coef, Const: w.Const + 1}
			return c.F.Equal(w2)
		}
	case token.LEQ:
		if c.Op == token.LEQ && c.F.Equal(want) {
			return true
		}
		if c.Op == token.LSS {
			w2 := Form{Coef: want.Coef, Const: want.Const - 1}
			return c.F.Equal(w2)
		}
	}
	return false
}
