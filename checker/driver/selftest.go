package driver

import (
	"encoding/json"
	"fmt"
	"io"
	"os"
	"os/exec"
	"path/filepath"
	"strings"
	"sync"

	"rscheck/core"
)

// Variant is one curated perturbation of today's source used by the thorough
// tier to measure that the rules still fire ("rule sensitivity pass" of
// DESIGN.md 1.1). It never influences the verdict on /repo.
type Variant struct {
	Name   string `json:"name"`
	File   string `json:"file"` // relative to <repo>/src
	Old    string `json:"old"`
	New    string `json:"new"`
	Expect string `json:"expect"` // substring of the obligation key that must fail
	Edits  []Edit `json:"edits"`  // alternative to File/Old/New: several edits
	Patch  string `json:"patch"`  // alternative: a unified diff (relative to the repository root) applied with patch -p1
	Kind   string `json:"kind"`   // "break" (default): must be reported; "equiv": behaviour-preserving, must stay silent
}

// Edit is one textual replacement.
type Edit struct {
	File string `json:"file"`
	Old  string `json:"old"`
	New  string `json:"new"`
}

type variantResult struct {
	Name     string `json:"name"`
	Kind     string `json:"kind"`
	Status   string `json:"status"` // detected | missed | silent | false-alarm | skipped | error
	Reported string `json:"reported,omitempty"`
}

func copyTree(src, dst string) error {
	return filepath.Walk(src, func(p string, fi os.FileInfo, err error) error {
		if err != nil {
			return err
		}
		rel, _ := filepath.Rel(src, p)
		t := filepath.Join(dst, rel)
		if fi.IsDir() {
			return os.MkdirAll(t, 0o755)
		}
		if !fi.Mode().IsRegular() {
			return nil
		}
		in, err := os.Open(p)
		if err != nil {
			return err
		}
		defer in.Close()
		out, err := os.Create(t)
		if err != nil {
			return err
		}
		defer out.Close()
		_, err = io.Copy(out, in)
		return err
	})
}

// Sensitivity runs the curated variants of one property in scratch copies of
// the current source tree (removed afterwards) and returns a summary for the
// evidence file.
func Sensitivity(prop string) map[string]interface{} {
	file := filepath.Join(core.VerifDir(), "checker", "selftest", prop+".json")
	var vs []Variant
	if b, err := os.ReadFile(file); err == nil {
		if err := json.Unmarshal(b, &vs); err != nil {
			return map[string]interface{}{"variants": 0, "note": "selftest file unreadable: " + err.Error()}
		}
	}
	// independently seeded changes kept under /verif/seeded/<PROP>-*/patch.diff
	if seeds, _ := filepath.Glob(filepath.Join(core.VerifDir(), "seeded", prop+"-*", "patch.diff")); seeds != nil {
		for _, sp := range seeds {
			vs = append(vs, Variant{Name: "seeded " + filepath.Base(filepath.Dir(sp)), Kind: "break", Patch: sp})
		}
	}
	// a behaviour-preserving change of the corpus plus one break on top of it, kept under
	// /verif/combos/<PROP>-*/patch.diff (expect.txt: part of the rule key that must fail): the
	// normalisation pipeline must not hide a break that sits in restructured code
	if cs, _ := filepath.Glob(filepath.Join(core.VerifDir(), "combos", prop+"-*", "patch.diff")); cs != nil {
		for _, sp := range cs {
			exp := ""
			if b, err := os.ReadFile(filepath.Join(filepath.Dir(sp), "expect.txt")); err == nil {
				exp = strings.TrimSpace(string(b))
			}
			vs = append(vs, Variant{Name: "combo " + filepath.Base(filepath.Dir(sp)), Kind: "break", Patch: sp, Expect: exp})
		}
	}
	// independently written behaviour-preserving changes kept under /verif/refactors/<PROP>-*/patch.diff
	if refs, _ := filepath.Glob(filepath.Join(core.VerifDir(), "refactors", prop+"-*", "patch.diff")); refs != nil {
		for _, sp := range refs {
			vs = append(vs, Variant{Name: "refactor " + filepath.Base(filepath.Dir(sp)), Kind: "equiv", Patch: sp})
		}
	}
	self, _ := os.Executable()
	res := make([]variantResult, len(vs))
	sem := make(chan struct{}, 8)
	var wg sync.WaitGroup
	for i, v := range vs {
		wg.Add(1)
		go func(i int, v Variant) {
			defer wg.Done()
			sem <- struct{}{}
			defer func() { <-sem }()
			if v.Kind == "" {
				v.Kind = "break"
			}
			r := variantResult{Name: v.Name, Kind: v.Kind}
			defer func() { res[i] = r }()
			src := filepath.Join(core.RepoDir(), "src")
			edits := v.Edits
			if len(edits) == 0 && v.Patch == "" {
				edits = []Edit{{v.File, v.Old, v.New}}
			}
			contents := map[string]string{}
			for _, ed := range edits {
				cur, ok := contents[ed.File]
				if !ok {
					b, err := os.ReadFile(filepath.Join(src, ed.File))
					if err != nil {
						r.Status = "skipped"
						return
					}
					cur = string(b)
				}
				if !strings.Contains(cur, ed.Old) {
					r.Status = "skipped" // the anchored text is not in today's tree any more
					return
				}
				contents[ed.File] = strings.Replace(cur, ed.Old, ed.New, 1)
			}
			tmp, err := os.MkdirTemp("", "rsvariant")
			if err != nil {
				r.Status = "error"
				return
			}
			defer os.RemoveAll(tmp)
			if err := copyTree(src, filepath.Join(tmp, "src")); err != nil {
				r.Status = "error"
				return
			}
			os.MkdirAll(filepath.Join(tmp, "verif"), 0o755)
			if kf, err := os.ReadFile(filepath.Join(core.VerifDir(), "known_findings.json")); err == nil {
				os.WriteFile(filepath.Join(tmp, "verif", "known_findings.json"), kf, 0o644)
			}
			for f, cnt := range contents {
				os.WriteFile(filepath.Join(tmp, "src", f), []byte(cnt), 0o644)
			}
			if v.Patch != "" {
				pf, err := os.Open(v.Patch)
				if err != nil {
					r.Status = "skipped"
					return
				}
				pc := exec.Command("patch", "-s", "-p1", "-d", tmp)
				pc.Stdin = pf
				perr := pc.Run()
				pf.Close()
				if perr != nil {
					r.Status = "skipped" // the change no longer applies to today's tree
					return
				}
			}
			cmd := exec.Command(self, "-prop", prop, "-tier", "quick")
			cmd.Env = append(os.Environ(), "RS_REPO="+tmp, "RS_VERIF="+filepath.Join(tmp, "verif"))
			out, _ := cmd.CombinedOutput()
			var fails []string
			undecided := false
			lines := strings.Split(string(out), "\n")
			for j, l := range lines {
				if strings.HasPrefix(l, "VIOLATION") && j+1 < len(lines) {
					fails = append(fails, strings.TrimSpace(lines[j+1]))
				}
				if strings.HasPrefix(l, "UNDECIDED") {
					undecided = true
				}
			}
			hit := ""
			for _, f := range fails {
				if v.Expect == "" || strings.Contains(f, v.Expect) {
					hit = f
				}
			}
			switch v.Kind {
			case "equiv":
				if len(fails) == 0 && !undecided {
					r.Status = "silent"
				} else {
					r.Status = "false-alarm"
					if len(fails) > 0 {
						r.Reported = cutStr(fails[0], 200)
					} else {
						r.Reported = "UNDECIDED"
					}
				}
			default:
				if hit != "" {
					r.Status = "detected"
					r.Reported = cutStr(hit, 200)
				} else {
					r.Status = "missed"
					if undecided {
						r.Reported = "UNDECIDED only"
					}
				}
			}
		}(i, v)
	}
	wg.Wait()
	count := map[string]int{}
	for _, r := range res {
		count[r.Status]++
	}
	return map[string]interface{}{
		"variants": len(vs), "detected": count["detected"], "missed": count["missed"], "equiv_silent": count["silent"],
		"equiv_false_alarm": count["false-alarm"], "skipped": count["skipped"], "errors": count["error"], "results": res,
		"rule": "each variant is today's /repo/src with one curated edit (behaviour-breaking, still compiling; or behaviour-preserving), analysed in a scratch copy; the result never changes the verdict on /repo",
	}
}

func cutStr(s string, n int) string {
	if len(s) > n {
		return s[:n] + "..."
	}
	return s
}

func init() { _ = fmt.Sprint }
