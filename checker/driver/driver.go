// Package driver is the command-line front end shared by cmd/rscheck (all
// properties) and the per-property development binaries.
package driver

import (
	"encoding/json"
	"flag"
	"fmt"
	"os"
	"sort"
	"strings"
	"time"

	"rscheck/core"
)

// PropDef describes the rule set of one property.
type PropDef struct {
	ID          string
	Explanation string   // what is decided, by which rules
	NotDecided  string   // clauses of the statement left out
	Trusted     []string // trusted base
	Run         func(c *core.Ctx)
}

// Main parses flags, loads /repo/src once and runs the selected properties.
func Main(defs []PropDef) {
	prop := flag.String("prop", "all", "property id (C01..C20), comma list, or all")
	tier := flag.String("tier", "quick", "quick|thorough")
	verbose := flag.Bool("v", false, "print every obligation")
	describe := flag.Bool("describe", false, "print the rule-set descriptions as JSON and exit")
	flag.Parse()
	if *describe {
		type d struct {
			ID, Explanation, NotDecided string
			Trusted                     []string
		}
		var out []d
		sort.Slice(defs, func(i, j int) bool { return defs[i].ID < defs[j].ID })
		for _, x := range defs {
			out = append(out, d{x.ID, x.Explanation, x.NotDecided, x.Trusted})
		}
		b, _ := json.MarshalIndent(out, "", " ")
		fmt.Println(string(b))
		return
	}
	if t := os.Getenv("VERIF_TIER"); t != "" && *tier == "" {
		*tier = t
	}
	start := time.Now()
	want := map[string]bool{}
	for _, p := range strings.Split(*prop, ",") {
		want[strings.TrimSpace(p)] = true
	}
	sort.Slice(defs, func(i, j int) bool { return defs[i].ID < defs[j].ID })

	withTests := false // _test.go files are not part of the shipped tool; the rules look at production code only
	prog, err := core.Load(withTests, "")
	if err != nil {
		fmt.Printf("UNDECIDED load failed: %v\n", err)
		os.Exit(2)
	}
	known, err := core.LoadKnown()
	if err != nil {
		fmt.Printf("UNDECIDED known_findings.json unreadable: %v\n", err)
		os.Exit(2)
	}
	for _, n := range prog.Normalisations {
		fmt.Printf("normalisation: %s\n", n)
	}
	fmt.Printf("loaded %d module packages from %s/src (tests=%v) in %.1fs; main type errors tolerated: %d\n",
		len(prog.Pkgs), core.RepoDir(), withTests, time.Since(start).Seconds(), prog.MainTypeErrors)
	if len(prog.LoadErrors) > 0 {
		// an ill-typed tree is not analysed: no verdict is given on garbage
		for _, e := range prog.LoadErrors {
			fmt.Printf("UNDECIDED load/typecheck: %s\n", e)
		}
		os.Exit(2)
	}
	exit := 0
	ran := 0
	for _, d := range defs {
		if !want["all"] && !want[d.ID] {
			continue
		}
		ran++
		t0 := time.Now()
		c := core.NewCtx(prog, d.ID, *tier)
		func() {
			defer func() {
				if r := recover(); r != nil {
					c.Undecidedf("panic", d.ID, 0, "checker panicked: %v", r)
					if os.Getenv("RS_DEBUG") != "" {
						panic(r)
					}
				}
			}()
			d.Run(c)
		}()
		if prog.Inlined != nil {
			// further views: the same rules on the equivalent programs produced by the
			// normalisation pipeline (last stage first, then the intermediate ones)
			views := append([]*core.Program{prog.Inlined}, prog.Views...)
			var alts []*core.Ctx
			for vi, view := range views {
				if !c.Open() {
					break
				}
				c2 := core.NewCtx(view, d.ID, *tier)
				func() {
					defer func() {
						if r := recover(); r != nil {
							c2.Undecidedf("panic", d.ID, 0, "checker panicked on the expanded program: %v", r)
						}
					}()
					d.Run(c2)
				}()
				if n := c.AdoptPassesKnown(c2, known, vi == 0); n > 0 {
					c.Note("%d obligations discharged on a normalised view of the tree (new helpers expanded in place)", n)
				}
				alts = append(alts, c2)
			}
			if c.Open() && len(alts) > 0 {
				// what no view could discharge and the last stage decides as a violation
				if n := c.AdoptViolations(alts[0]); n > 0 {
					c.Note("%d undecided obligations are violations on the fully normalised view", n)
				}
			}
		}
		if *tier == "thorough" && os.Getenv("RS_NO_SELFTEST") == "" {
			sens := Sensitivity(d.ID)
			c.Extra = map[string]interface{}{"sensitivity": sens}
			fmt.Printf("%s: sensitivity pass: %v variants, %v detected, %v missed, %v equivalent silent, %v equivalent false alarms, %v skipped\n",
				d.ID, sens["variants"], sens["detected"], sens["missed"], sens["equiv_silent"], sens["equiv_false_alarm"], sens["skipped"])
		}
		res := c.Finish(known, t0, d.Explanation, d.NotDecided, d.Trusted)
		pass := 0
		for _, o := range c.Obs {
			if o.Status == "pass" {
				pass++
			}
			if *verbose {
				fmt.Printf("  [%s] %s %s %s\n", o.Status, o.Pos, o.FullKey(), o.Detail)
			}
		}
		fmt.Printf("%s: %d obligations, %d discharged, %d known findings, %d violations, %d undecided (%.2fs)\n",
			d.ID, len(c.Obs), pass, len(res.Known), len(res.Violations), len(res.Undecided), time.Since(t0).Seconds())
		if res.Exit == 1 || (res.Exit == 2 && exit == 0) {
			exit = res.Exit
		}
	}
	if ran == 0 {
		fmt.Printf("UNDECIDED no such property: %s\n", *prop)
		os.Exit(2)
	}
	os.Exit(exit)
}
