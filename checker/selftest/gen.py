#!/usr/bin/env python3
"""Curated variants for the thorough tier's sensitivity pass. Run to regenerate <PROP>.json."""
import json, os
V = {}
def v(prop, name, file, old, new, expect="", kind="break"):
    V.setdefault(prop, []).append(dict(name=name, file=file, old=old, new=new, expect=expect, kind=kind))

PIPE="pkg/libs/io/pipe/pipe.go"
v("C09","drop wwait.Signal on read progress",PIPE,"p.wwait.Signal()\n\t\treturn n, err","return n, err","R2.wake/readSome")
v("C09","signal only when both progress and error",PIPE,"if err != nil || n != 0 {\n\t\tp.rwait.Signal()","if err != nil && n != 0 {\n\t\tp.rwait.Signal()","writeSome")
v("C09","woffset uses rpos",PIPE,"offset = wpos % size","offset = rpos % size","R7.ring")
v("C09","RClose does not wake writer",PIPE,"\tp.rwait.Signal()\n\tp.wwait.Signal()\n\treturn p.store.rclose()","\tp.rwait.Signal()\n\treturn p.store.rclose()","R3.close/RClose/signals-wwait")
v("C09","second close overwrites error",PIPE,"\tif p.werr == nil {\n\t\tp.werr = err\n\t}","\tp.werr = err","R3.close/WClose/first-close-wins")
v("C09","EOF before drain",PIPE,"\tn, err := p.store.readSome(b)\n\tif err != nil || n != 0 {\n\t\tp.wwait.Signal()\n\t\treturn n, err\n\t}\n\tif p.werr != nil {\n\t\treturn 0, p.werr\n\t}","\tif p.werr != nil {\n\t\treturn 0, p.werr\n\t}\n\tn, err := p.store.readSome(b)\n\tif err != nil || n != 0 {\n\t\tp.wwait.Signal()\n\t\treturn n, err\n\t}","R5.order/readSome/drain-before-werr")
v("C09","Buffered without lock",PIPE,"func (p *pipe) Buffered() (int, error) {\n\tp.mu.Lock()\n\tdefer p.mu.Unlock()","func (p *pipe) Buffered() (int, error) {","R1.guard/(pipe).Buffered")
v("C09","mem readSome does not reset positions","pkg/libs/io/pipe/buff.go","\tif p.rpos == p.wpos {\n\t\tp.rpos = 0\n\t\tp.wpos = 0\n\t}\n\treturn n, nil","\tif p.rpos == p.wpos {\n\t\tp.rpos = 0\n\t}\n\treturn n, nil","R6.sibling/memBuffer.readSome/reset-when-empty")
v("C09","file available formula","pkg/libs/io/pipe/file.go","return int(p.size + p.rpos - p.wpos)","return int(p.size - p.wpos)","R6.sibling/fileBuffer.available")
v("C09","roffset clamp compares wrong way",PIPE,"\tif n := wpos - rpos; n < maxlen {\n\t\tmaxlen = n\n\t}\n\toffset = rpos % size","\tif n := wpos - rpos; n > maxlen {\n\t\tmaxlen = n\n\t}\n\toffset = rpos % size","R7.ring")
v("C09","equiv: rename locals in readSome",PIPE,"\tn, err := p.store.readSome(b)\n\tif err != nil || n != 0 {\n\t\tp.wwait.Signal()\n\t\treturn n, err\n\t}","\tcnt, e := p.store.readSome(b)\n\tif e != nil || cnt != 0 {\n\t\tp.wwait.Signal()\n\t\treturn cnt, e\n\t}",kind="equiv")
v("C09","equiv: swap disjuncts",PIPE,"if err != nil || n != 0 {\n\t\tp.rwait.Signal()","if n != 0 || err != nil {\n\t\tp.rwait.Signal()",kind="equiv")
v("C09","equiv: Broadcast instead of Signal on close",PIPE,"\tp.rwait.Signal()\n\tp.wwait.Signal()\n\treturn p.store.wclose()","\tp.rwait.Broadcast()\n\tp.wwait.Broadcast()\n\treturn p.store.wclose()",kind="equiv")

def ve(prop, name, edits, expect="", kind="break"):
    V.setdefault(prop, []).append(dict(name=name, kind=kind, expect=expect, edits=[dict(file=f, old=o, new=n) for f,o,n in edits]))
ve("C09","equiv: Signal through a helper only called under the lock",[(PIPE,"\t\tp.wwait.Signal()\n\t\treturn n, err\n\t}\n\tif p.werr != nil {","\t\tp.wakeWriter()\n\t\treturn n, err\n\t}\n\tif p.werr != nil {"),(PIPE,"func (p *pipe) Write(b []byte) (int, error) {","func (p *pipe) wakeWriter() { p.wwait.Signal() }\n\nfunc (p *pipe) Write(b []byte) (int, error) {")],kind="equiv")
ve("C09","helper touching wwait also called without the lock",[(PIPE,"\t\tp.wwait.Signal()\n\t\treturn n, err\n\t}\n\tif p.werr != nil {","\t\tp.wakeWriter()\n\t\treturn n, err\n\t}\n\tif p.werr != nil {"),(PIPE,"func (p *pipe) Write(b []byte) (int, error) {","func (p *pipe) wakeWriter() { p.wwait.Signal() }\n\nfunc (p *pipe) Poke() { p.wakeWriter() }\n\nfunc (p *pipe) Write(b []byte) (int, error) {")],"R1.guard/(pipe).wakeWriter")

BL="pkg/libs/io/backlog/backlog.go"
v("C18","Signal instead of Broadcast on write",BL,"bl.rwait.Broadcast()\n\t\treturn n, err","bl.rwait.Signal()\n\t\treturn n, err","R2.wake/writeSome")
v("C18","mem store accepts overwritten offsets","pkg/libs/io/backlog/buff.go","rpos > p.wpos || rpos+p.size < p.wpos","rpos > p.wpos","R3.valid/memBuffer")
v("C18","file dataRange guard","pkg/libs/io/backlog/file.go","if p.wpos >= p.size {","if p.wpos > p.size {","R4.range/fileBuffer.dataRange")
v("C18","IsValid excludes write position",BL,"return r.seek >= rpos && r.seek <= wpos","return r.seek >= rpos && r.seek < wpos","R4.range/Reader.IsValid")
v("C18","close does not broadcast",BL,"\tbl.rwait.Broadcast()\n\tif bl.store != nil {","\tif bl.store != nil {","R2.wake/CloseWithError/broadcast")
v("C18","woffset raises maxlen",BL,"if size < maxlen {\n\t\tmaxlen = size\n\t}","if size > maxlen {\n\t\tmaxlen = size\n\t}","R6.ring")
v("C18","reader advances by buffer length",BL,"r.seek += uint64(n)","r.seek += uint64(len(b))","R4.range/Reader.Read")
v("C18","file write does not advance wpos","pkg/libs/io/backlog/file.go","\tn, err := p.f.WriteAt(b[:maxlen], int64(offset))\n\tp.wpos += uint64(n)","\tn, err := p.f.WriteAt(b[:maxlen], int64(offset))","R5.sibling/fileBuffer.writeSome/advance-wpos")
v("C18","new reader starts at oldest byte",BL,"\t_, wpos := bl.store.dataRange()\n\treturn &Reader{bl: bl, seek: wpos}, nil","\twpos, _ := bl.store.dataRange()\n\treturn &Reader{bl: bl, seek: wpos}, nil","R4.range/NewReader")
v("C18","equiv: mirrored comparison in IsValid",BL,"return r.seek >= rpos && r.seek <= wpos","return rpos <= r.seek && wpos >= r.seek",kind="equiv")

RD="pkg/rdb/reader.go"; LD="pkg/rdb/loader.go"
v("C01","zset member not read",RD,"\t\t\t\tif _, err := r.ReadString(); err != nil {\n\t\t\t\t\treturn nil, err\n\t\t\t\t}\n\t\t\t\t// log.Debug(\"zset read: \", i)","","R2.grammar/type/3-zset")
v("C01","expire seconds not scaled",LD,"entry.ExpireAt = uint64(ttls) * 1000","entry.ExpireAt = uint64(ttls)","R4.bind/expire-s")
v("C01","entry reallocated per opcode",LD,"\tvar entry = &BinEntry{}\n\tfor {","\tfor {\n\t\tvar entry = &BinEntry{}","R4.bind/entry")
v("C01","footer reads trailer before summing",LD,"\tcrc1 := l.crc.Sum64()\n\tif crc2, err := l.readUint64(); err != nil {","\tcrc2, err := l.readUint64()\n\tcrc1 := l.crc.Sum64()\n\tif err != nil {","R6.crc/Footer/sum-before-trailer")
v("C01","remainMember off by one",RD,"lr.remainMember = n - uint32(i) - 1","lr.remainMember = n - uint32(i)","R5.chunk/hash/remain-formula")
v("C01","stream group name read from outer reader",RD,"\t\t\t// cname\n\t\t\tif _, err := r.ReadString(); err != nil {\n\t\t\t\treturn nil, err\n\t\t\t}\n\n\t\t\t// last_cg_entry_id timestamp second","\t\t\t// cname\n\t\t\tif _, err := lr.ReadString(); err != nil {\n\t\t\t\treturn nil, err\n\t\t\t}\n\n\t\t\t// last_cg_entry_id timestamp second","R3.capture")
v("C01","dump version big endian",LD,"binary.Write(w, binary.LittleEndian, uint16(ToVersion))","binary.Write(w, binary.BigEndian, uint16(ToVersion))","R7.dump/createValueDump")
v("C01","14-bit length reads two more bytes",RD,"\t\tvar u2 uint8\n\t\tu2, err = r.readUint8()","\t\tvar u2 uint16\n\t\tu2, err = r.readUint16()","R2.grammar/prim/readEncodedLength")
v("C01","select db stored in entry only",LD,"\t\t\tl.db = dbnum","\t\t\tentry.DB = dbnum","R4.bind/select-db")
v("C01","idle opcode constant",RD,"rdbFlagIdle      = 0xf8","rdbFlagIdle      = 0xf6","R1.const/rdbFlagIdle")
v("C01","64-bit length decodes 4 bytes again",RD,"return uint32(binary.BigEndian.Uint64(b)), err","return binary.BigEndian.Uint32(b), err","R8.width/readUint64BigEndian")
v("C01","module aux float as text again","pkg/rdb/mix.go","if _, err = l.readUint32(); err != nil {","if _, err = l.ReadFloat(); err != nil {","R2.grammar/op/0xf7")
v("C01","chunk break also on last pair",RD,"if b.Len() > 16*1024*1024 && i != int(n-1) {","if b.Len() > 16*1024*1024 {","R5.chunk/hash/break-not-on-last")
v("C01","equiv: module aux float via readFull","pkg/rdb/mix.go","if _, err = l.readUint32(); err != nil {","if err = l.readFull(make([]byte, 4)); err != nil {",kind="equiv")

UT="redis-shake/common/utils.go"
v("C02","HSET value before field (hash-ziplist)",UT,"err = c.Send(\"HSET\", e.Key, field, value)\n\t\t\tif (count == 100) || (i == (length - 1)) {","err = c.Send(\"HSET\", e.Key, value, field)\n\t\t\tif (count == 100) || (i == (length - 1)) {","R4.expand/type/13-hash-ziplist/arg-order")
v("C02","ZADD member before score",UT,"err = c.Send(\"ZADD\", e.Key, scoreBytes, member)","err = c.Send(\"ZADD\", e.Key, member, scoreBytes)","R4.expand/type/12-zset-ziplist/arg-order")
v("C02","last partial batch not flushed",UT,"if (count == 100) || (i == (cardinality - 1)) {\n\t\t\t\tflushAndCheckReply(c, count)\n\t\t\t\tcount = 0\n\t\t\t}\n\t\t\t//zadd","if count == 100 {\n\t\t\t\tflushAndCheckReply(c, count)\n\t\t\t\tcount = 0\n\t\t\t}\n\t\t\t//zadd","R5.batch/type/12-zset-ziplist/flush-on-last")
v("C02","ttl sign",UT,"\t\t\tttlms = e.ExpireAt - now","\t\t\tttlms = now - e.ExpireAt","R2.ttl/ttlms/formula")
v("C02","chunks go to RESTORE",UT,"(uint64(len(e.Value)) > conf.Options.BigKeyThreshold || e.RealMemberCount != 0) {","(uint64(len(e.Value)) > conf.Options.BigKeyThreshold) {","R1.route/element/threshold-or-chunk")
v("C02","lua filter inverted",UT,"\t\tif conf.Options.FilterLua == false {","\t\tif conf.Options.FilterLua {","R1.route/script/iff-not-filtered")
v("C02","list length error check inverted",UT,"\tcase rdb.RdbTypeList:\n\t\tif n, err := r.ReadLength(); err != nil {","\tcase rdb.RdbTypeList:\n\t\tif n, err := r.ReadLength(); err == nil {","R4.expand/type/1-list/grammar")
v("C02","count not reset after flush",UT,"if (count == 100) || (i == (int(n) - 1)) {\n\t\t\t\t\tflushAndCheckReply(c, count)\n\t\t\t\t\tcount = 0\n\t\t\t\t}\n\t\t\t\t//sadd","if (count == 100) || (i == (int(n) - 1)) {\n\t\t\t\t\tflushAndCheckReply(c, count)\n\t\t\t\t}\n\t\t\t\t//sadd","R5.batch/type/2-set/flush-at-100")
v("C02","one reply left unread",UT,"\tc.Flush()\n\tfor j := 0; j < count; j++ {","\tc.Flush()\n\tfor j := 1; j < count; j++ {","R5.batch/flushAndCheckReply")
v("C02","quicklist route forgets pexpire",UT,"\t\trestoreQuicklistEntry(c, e)\n\t\tif e.ExpireAt != 0 {\n\t\t\tr, err := Int64(c.Do(\"pexpire\", e.Key, ttlms))\n\t\t\tif err != nil && r != 1 {\n\t\t\t\tlog.Panicf(\"expire \", string(e.Key), err)\n\t\t\t}\n\t\t}\n\t\treturn nil","\t\trestoreQuicklistEntry(c, e)\n\t\treturn nil","R2.ttl/quicklist")
v("C02","CompareVersion guard regressed","redis-shake/common/common.go","if l >= len(as) {","if l > len(as) {","R7.index/CompareVersion")
v("C02","rewrite returns after DEL again",UT,"\t\t\t\t\tif _, err = redigoCluster.Int(c.Do(\"del\", e.Key)); err != nil {\n\t\t\t\t\t\treturn err\n\t\t\t\t\t}","\t\t\t\t\t_, err = redigoCluster.Int(c.Do(\"del\", e.Key))\n\t\t\t\t\treturn err","R3.policy/restore/rewrite")
v("C02","quicklist ignore falls through again",UT,"log.Warnf(\"target key name is busy but ignore: %v\", string(e.Key))\n\t\t\t\treturn nil\n\t\t\tcase \"none\":","log.Warnf(\"target key name is busy but ignore: %v\", string(e.Key))\n\t\t\tcase \"none\":","R3.policy/quicklist/ignore")
v("C02","del error ignored in quicklist rewrite",UT,"\t\t\t\t_, err := Int64(c.Do(\"del\", e.Key))\n\t\t\t\tif err != nil {\n\t\t\t\t\tlog.Panicf(\"del \", string(e.Key), err)\n\t\t\t\t}\n\t\t\tcase \"ignore\":","\t\t\t\tInt64(c.Do(\"del\", e.Key))\n\t\t\tcase \"ignore\":","R6.errors/RestoreRdbEntry/do-del")

ENC="pkg/rdb/encoder.go"; CUP="pkg/libs/cupcake/rdb/decoder.go"
v("C12","hash value written before field",ENC,"\t\tif err := enc.EncodeString(e.Field); err != nil {\n\t\t\treturn errors.Trace(err)\n\t\t}\n\t\tif err := enc.EncodeString(e.Value); err != nil {","\t\tif err := enc.EncodeString(e.Value); err != nil {\n\t\t\treturn errors.Trace(err)\n\t\t}\n\t\tif err := enc.EncodeString(e.Field); err != nil {","R3.wiring/encodeValue/Hash")
v("C12","set tagged as list",ENC,"t := rdb.ValueType(RdbTypeSet)","t := rdb.ValueType(RdbTypeList)","R1.ids/encodeType/Set")
v("C12","adaptor stores key as member","pkg/rdb/decoder.go","v := &ZSetElement{Member: member, Score: score}","v := &ZSetElement{Member: key, Score: score}","R3.wiring/adaptor/Zadd")
v("C12","decoder Hset arguments swapped",CUP,"\t\t\td.event.Hset(key, field, value)\n\t\t}\n\t\td.event.EndHash(key)\n\tcase TypeHashZipmap","\t\t\td.event.Hset(key, value, field)\n\t\t}\n\t\td.event.EndHash(key)\n\tcase TypeHashZipmap","R3.wiring/decoder/4-hash")
v("C12","ziplist type ids swapped",CUP,"\tTypeZSetZiplist   ValueType = 12\n\tTypeHashZiplist   ValueType = 13","\tTypeZSetZiplist   ValueType = 13\n\tTypeHashZiplist   ValueType = 12","R1.ids/decoder/Type")
v("C12","expiry written after type",ENC,"\tif expireat != 0 {\n\t\tif err := e.enc.EncodeExpiry(expireat); err != nil {\n\t\t\treturn errors.Trace(err)\n\t\t}\n\t}\n\tif err := o.encodeType(e.enc); err != nil {\n\t\treturn err\n\t}","\tif err := o.encodeType(e.enc); err != nil {\n\t\treturn err\n\t}\n\tif expireat != 0 {\n\t\tif err := e.enc.EncodeExpiry(expireat); err != nil {\n\t\t\treturn errors.Trace(err)\n\t\t}\n\t}","R2.grammar/EncodeObject/order")
v("C12","converter drops expiry","pkg/rdb/loader.go","\t\tExpireAt:        e.ExpireAt,\n\t\tRealMemberCount: e.RealMemberCount,\n\t\tNeedReadLen:     e.NeedReadLen,\n\t}, nil\n}\n\ntype ObjEntry","\t\tRealMemberCount: e.RealMemberCount,\n\t\tNeedReadLen:     e.NeedReadLen,\n\t}, nil\n}\n\ntype ObjEntry","R5.convert/BinEntry.ObjEntry/ExpireAt")
v("C12","decoder expiry seconds unscaled",CUP,"expiry = int64(binary.LittleEndian.Uint32(d.intBuf)) * 1000","expiry = int64(binary.LittleEndian.Uint32(d.intBuf))","R3.wiring/decode/expiry-seconds")
v("C12","encoder forgets current db",ENC,"\tif e.db == -1 || uint32(e.db) != db {\n\t\te.db = int64(db)","\tif e.db == -1 || uint32(e.db) != db {","R2.grammar/EncodeObject/select-db")
v("C12","decoder zset2 reads text float",CUP,"\t\t\t\tscore, err = d.readDouble64()","\t\t\t\tscore, err = d.readFloat64()","R2.grammar/readObject/5-zset2")
v("C12","list length not written",ENC,"func (o List) encodeValue(enc *rdb.Encoder) error {\n\tif err := enc.EncodeLength(uint32(len(o))); err != nil {\n\t\treturn errors.Trace(err)\n\t}","func (o List) encodeValue(enc *rdb.Encoder) error {","R2.grammar/encodeValue/List")

v("C19","password in skip-auth log",UT,"log.Infof(\"input password is empty, skip auth address[%v] with type[%v].\", c.RemoteAddr(), authType)","log.Infof(\"input password %v is empty, skip auth address[%v] with type[%v].\", passwd, c.RemoteAddr(), authType)","R2.taint/log/redis-shake/common.AuthPassword")
v("C19","password in auth error",UT,"return errors.Errorf(\"auth failed[%v]\", RemoveRESPEnd(ret))","return errors.Errorf(\"auth failed[%v] with %s\", RemoveRESPEnd(ret), passwd)","R2.taint")
v("C19","sanitizer misses one field","redis-shake/configure/configure.go","\tpolish.TargetPasswordRaw = \"***\"\n","","R3.sanitizer/GetSafeOptions/TargetPasswordRaw")
v("C19","password in per-syncer status","redis-shake/dbSync/dbSyncer.go","\"SourceAddress\":      ds.node.Source,","\"SourceAddress\":      ds.node.Source + \"/\" + ds.node.SourcePassword,","R2.taint")
v("C19","startup echo marshals live options","redis-shake/main/main.go","json.Marshal(conf.GetSafeOptions())","json.Marshal(conf.Options)","R4.main/json")
v("C19","/conf returns live options","redis-shake/main/main.go","\t\treturn conf.GetSafeOptions()","\t\treturn conf.Options","R4.main/rest")
v("C19","whole sync node logged again","redis-shake/dbSync/dbSyncer.go","log.Infof(\"Starting sync for node: id[%v] source[%v] target[%v] slaves[%v]\", ds.node.Id, ds.node.Source, ds.node.Target, ds.node.Slaves)","log.Infof(\"Starting sync for node: %v\", ds.node)","R1.type/log")
v("C19","supervisor logs slot state with password","redis-shake/dbSync/slotsupervisor/supervisor.go","isMaster, err = s.getRedisNodeState(host, s.slot.SourcePassword, conf.Options.SourceTLSEnable)","log.Debugf(\"probing %v of %+v\", host, s.slot)\n\t\tisMaster, err = s.getRedisNodeState(host, s.slot.SourcePassword, conf.Options.SourceTLSEnable)","R1.type/log")
v("C19","equiv: log the auth type only","redis-shake/common/utils.go","log.Infof(\"input password is empty, skip auth address[%v] with type[%v].\", c.RemoteAddr(), authType)","log.Infof(\"input password is empty, skip auth address[%v] with type[%v] (len %d).\", c.RemoteAddr(), authType, len(passwd))",kind="equiv")

here=os.path.dirname(os.path.abspath(__file__))
for p,vs in V.items():
    json.dump(vs, open(os.path.join(here,p+".json"),"w"), indent=1)
    print(p, len(vs))
