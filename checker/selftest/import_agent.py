#!/usr/bin/env python3
"""Converts a rule author's mutants.py (MUTANTS = [(name, [(file, old, new), ...]), ...]) into selftest/<PROP>.json.
usage: import_agent.py PROP path/to/mutants.py [more.py ...]   (names starting with REF/FIX are behaviour-preserving)"""
import json, sys, os
prop=sys.argv[1]
out=[]
here=os.path.dirname(os.path.abspath(__file__))
dst=os.path.join(here,prop+".json")
for path in sys.argv[2:]:
    ns={}
    exec(open(path).read(), ns)
    for name, edits in ns["MUTANTS"]:
        if not edits: continue
        kind="equiv" if name.upper().startswith(("REF","FIX","EQUIV")) else "break"
        out.append(dict(name=name, kind=kind, expect="", edits=[dict(file=f, old=o, new=n) for f,o,n in edits]))
json.dump(out, open(dst,"w"), indent=1)
print(prop, len(out))
