package grammar

import (
	"strings"
	"testing"
)

func TestLanguage(t *testing.T) {
	for _, tc := range []struct{ in, want string }{
		{"Str", "Str"},
		{"Alt[?]{SELECTDB|} Alt[?]{EXPIRETIME_MS|} TYPE Str VALUE Ret", "EXPIRETIME_MS TYPE Str VALUE;SELECTDB EXPIRETIME_MS TYPE Str VALUE;SELECTDB TYPE Str VALUE;TYPE Str VALUE"},
		{"A Alt[?]{B Ret|} C", "A B;A C"},
		{"Len@a Loop@a{Str Alt[?]{FloatStr|Fix8}}", "Len@a Loop@a{Str Fix8|Str FloatStr}"},
		{"Sw@?{?:A|?:B|d:} C", "A C;B C;C"},
		{"Len Star{Hset(key,#1,#2) Alt[.f!=0]{X Brk|}}", "Len Star{Hset(key,#1,#2)|Hset(key,#1,#2) X Brk}"},
		{"Star{U8 Alt[?]{Fix4 Cont|} Str Value}", "Star{U8 Fix4|U8 Str Value}"},
		{"Fix4 Cont Str Value", "Fix4"},
		{"Star{A Alt[?]{Brk|} B} C", "Star{A B|A Brk} C"},
		{"Len@[a,.f] Loop@[a,.f]{Str}", "Len@[a,.f] Loop@[a,.f]{Str}"},
	} {
		got, ok := Language(tc.in)
		if !ok || strings.Join(got, ";") != tc.want {
			t.Errorf("%q: got %q ok=%v, want %q", tc.in, strings.Join(got, ";"), ok, tc.want)
		}
	}
	if _, ok := Language("Sw@a{1:A|2:B}"); ok {
		t.Errorf("bound switch must not expand")
	}
}
