package grammar

import (
	"go/ast"
	"go/token"
	"go/types"

	"rscheck/core"
	"rscheck/lin"
)

// onePass recognises `L: for { S...; break L }` whose body runs exactly once:
// no init/cond/post, the last statement is `break L`, every branch to L is a
// `break`, and no unlabelled break/continue belongs to this loop. It returns
// the body with every `break L` turned into a return statement (a preceding
// assignment of results in the same block, `r0, r1 = e0, e1; break L`, becomes
// `return e0, e1`), so that the block can be extracted like the body of an
// inlined helper. Expression nodes are shared with the original tree (type
// information stays valid); only statement containers are copied.
func onePass(ls *ast.LabeledStmt) ([]ast.Stmt, map[*ast.ReturnStmt]*ast.AssignStmt, bool) {
	synth := map[*ast.ReturnStmt]*ast.AssignStmt{}
	f, ok := ls.Stmt.(*ast.ForStmt)
	if !ok || f.Init != nil || f.Cond != nil || f.Post != nil || len(f.Body.List) == 0 {
		return nil, nil, false
	}
	label := ls.Label.Name
	last, ok := f.Body.List[len(f.Body.List)-1].(*ast.BranchStmt)
	if !ok || last.Tok != token.BREAK || last.Label == nil || last.Label.Name != label {
		return nil, nil, false
	}
	ok = true
	var rw func(s ast.Stmt, own bool) ast.Stmt
	var rwList func(l []ast.Stmt, own bool) []ast.Stmt
	rwList = func(l []ast.Stmt, own bool) []ast.Stmt {
		var out []ast.Stmt
		for i := 0; i < len(l); i++ {
			// `r... = e...; break L` at the end of a block
			if as, isAs := l[i].(*ast.AssignStmt); isAs && i+1 < len(l) && as.Tok == token.ASSIGN && len(as.Lhs) == len(as.Rhs) {
				if br, isBr := l[i+1].(*ast.BranchStmt); isBr && br.Tok == token.BREAK && br.Label != nil && br.Label.Name == label {
					allIdent := true
					for _, lh := range as.Lhs {
						if _, isId := lh.(*ast.Ident); !isId {
							allIdent = false
						}
					}
					if allIdent {
						// return the values; the extractor replays the assignment for its known-value table
						ret := &ast.ReturnStmt{Return: br.Pos(), Results: as.Rhs}
						synth[ret] = as
						out = append(out, ret)
						i++
						continue
					}
				}
			}
			if bl, isBlock := l[i].(*ast.BlockStmt); isBlock {
				// a bare nested block only scopes names: splice it
				out = append(out, rwList(bl.List, own)...)
				continue
			}
			out = append(out, rw(l[i], own))
		}
		return out
	}
	rw = func(s ast.Stmt, own bool) ast.Stmt {
		switch x := s.(type) {
		case *ast.BranchStmt:
			if x.Label != nil && x.Label.Name == label {
				if x.Tok != token.BREAK {
					ok = false
					return x
				}
				return &ast.ReturnStmt{Return: x.Pos()}
			}
			if x.Label == nil && own && (x.Tok == token.BREAK || x.Tok == token.CONTINUE) {
				ok = false // would re-run or leave the one-pass loop
			}
			return x
		case *ast.BlockStmt:
			return &ast.BlockStmt{Lbrace: x.Lbrace, List: rwList(x.List, own), Rbrace: x.Rbrace}
		case *ast.IfStmt:
			n := &ast.IfStmt{If: x.If, Init: x.Init, Cond: x.Cond, Body: rw(x.Body, own).(*ast.BlockStmt)}
			if x.Else != nil {
				n.Else = rw(x.Else, own)
			}
			return n
		case *ast.ForStmt:
			return &ast.ForStmt{For: x.For, Init: x.Init, Cond: x.Cond, Post: x.Post, Body: rw(x.Body, false).(*ast.BlockStmt)}
		case *ast.RangeStmt:
			return &ast.RangeStmt{For: x.For, Key: x.Key, Value: x.Value, TokPos: x.TokPos, Tok: x.Tok, Range: x.Range, X: x.X, Body: rw(x.Body, false).(*ast.BlockStmt)}
		case *ast.SwitchStmt:
			return &ast.SwitchStmt{Switch: x.Switch, Init: x.Init, Tag: x.Tag, Body: rw(x.Body, false).(*ast.BlockStmt)}
		case *ast.CaseClause:
			return &ast.CaseClause{Case: x.Case, List: x.List, Colon: x.Colon, Body: rwList(x.Body, own)}
		case *ast.LabeledStmt:
			return &ast.LabeledStmt{Label: x.Label, Colon: x.Colon, Stmt: rw(x.Stmt, own)}
		case *ast.TypeSwitchStmt, *ast.SelectStmt:
			hit := false
			ast.Inspect(x, func(n ast.Node) bool {
				if b, isB := n.(*ast.BranchStmt); isB && b.Label != nil && b.Label.Name == label {
					hit = true
				}
				return !hit
			})
			if hit {
				ok = false
			}
			return x
		}
		return s
	}
	body := rwList(f.Body.List[:len(f.Body.List)-1], true)
	if !ok {
		return nil, nil, false
	}
	return body, synth, true
}

// upCountBound recognises `for ...; i OP n; i++` (also `i += 1`, `i = i + 1`)
// where the condition compares the stepped variable with a bound in one of
// the spellings `i < n`, `n > i`, `i != n`, `n != i`, and returns the bound.
func upCountBound(info *types.Info, x *ast.ForStmt) (bound ast.Expr, plusOne bool, ok bool) {
	var ctr *ast.Ident
	switch p := x.Post.(type) {
	case *ast.IncDecStmt:
		if p.Tok == token.INC {
			ctr, _ = ast.Unparen(p.X).(*ast.Ident)
		}
	case *ast.AssignStmt:
		if len(p.Lhs) == 1 && len(p.Rhs) == 1 {
			id, _ := ast.Unparen(p.Lhs[0]).(*ast.Ident)
			one := func(e ast.Expr) bool { v, ok := core.IntConst(info, e); return ok && v == 1 }
			same := func(e ast.Expr) bool {
				y, ok := ast.Unparen(e).(*ast.Ident)
				return ok && id != nil && info.Uses[y] == info.Uses[id]
			}
			switch {
			case id != nil && p.Tok == token.ADD_ASSIGN && one(p.Rhs[0]):
				ctr = id
			case id != nil && p.Tok == token.ASSIGN:
				if be, ok := ast.Unparen(p.Rhs[0]).(*ast.BinaryExpr); ok && be.Op == token.ADD && (same(be.X) && one(be.Y) || same(be.Y) && one(be.X)) {
					ctr = id
				}
			}
		}
	}
	be, isBin := ast.Unparen(x.Cond).(*ast.BinaryExpr)
	if ctr == nil || !isBin {
		return nil, false, false
	}
	isCtr := func(e ast.Expr) bool {
		// conversions of the counter are transparent: uint32(i) < n
		for {
			e = ast.Unparen(e)
			c, ok := e.(*ast.CallExpr)
			if ok && len(c.Args) == 1 {
				if tv, has := info.Types[c.Fun]; has && tv.IsType() {
					e = c.Args[0]
					continue
				}
			}
			break
		}
		y, ok := e.(*ast.Ident)
		return ok && info.Uses[y] == info.Uses[ctr]
	}
	switch {
	case (be.Op == token.LSS || be.Op == token.NEQ) && isCtr(be.X) && !isCtr(be.Y):
		return be.Y, false, true
	case (be.Op == token.GTR || be.Op == token.NEQ) && isCtr(be.Y) && !isCtr(be.X):
		return be.X, false, true
	case be.Op == token.LEQ && isCtr(be.X) && !isCtr(be.Y):
		return be.Y, true, true // one trip more than the bound
	case be.Op == token.GEQ && isCtr(be.Y) && !isCtr(be.X):
		return be.X, true, true
	}
	return nil, false, false
}

// flagExits normalises the "error flag" spelling of an error exit:
//
//	if e1 != nil { err = wrap(e1) } else { ...more... }     (possibly inside a bare block)
//	if err != nil { return err }
//
// The branch that stores a certainly non-nil error into err and does nothing
// else reaches the test that follows and leaves there; it is the same as an
// early `return` in that branch, which is how the extractor recognises error
// exits. The test's body is appended to such branches (recursively through
// else-if chains and nested ifs in tail position); bare blocks in between are
// spliced (they only scope names). Expression nodes are shared with the
// original tree. When the pattern does not occur the list is returned as is.
func (e *Extractor) flagExits(info *types.Info, stmts []ast.Stmt) []ast.Stmt {
	// cheap pre-check: some `if V != nil { error exit }` preceded by something
	hit := false
	for i, s := range stmts {
		if i > 0 {
			if _, _, ok := e.exitOf(info, s); ok {
				hit = true
			}
		}
	}
	if !hit {
		return stmts
	}
	// splice bare blocks that directly precede an error test (one level is what
	// the helper expansion produces; nested ones are handled by recursion of block())
	var flat []ast.Stmt
	for i, s := range stmts {
		if b, ok := s.(*ast.BlockStmt); ok && i+1 < len(stmts) {
			if _, _, isTest := e.errTest(info, stmts[i+1]); isTest {
				inner := b.List
				// a block nested once more (`{ var r; { ... } }`)
				for len(inner) > 0 {
					lb, ok := inner[len(inner)-1].(*ast.BlockStmt)
					if !ok {
						break
					}
					inner = append(append([]ast.Stmt{}, inner[:len(inner)-1]...), lb.List...)
				}
				flat = append(flat, inner...)
				continue
			}
		}
		flat = append(flat, s)
	}
	out := make([]ast.Stmt, len(flat))
	copy(out, flat)
	for t := 1; t < len(out); t++ {
		v, body, ok := e.exitOf(info, out[t])
		if !ok {
			continue
		}
		// the statement before the exit, and before it any number of guards
		// `if V == nil { ... }`: once V holds an error they are all skipped
		for i := t - 1; i >= 0; i-- {
			ifs, isIf := out[i].(*ast.IfStmt)
			if !isIf {
				break
			}
			if e.guardOn(info, ifs, v) {
				if nl, changed := e.exitInTail(info, ifs.Body.List, v, body); changed {
					out[i] = &ast.IfStmt{If: ifs.If, Cond: ifs.Cond, Body: &ast.BlockStmt{Lbrace: ifs.Body.Lbrace, List: nl, Rbrace: ifs.Body.Rbrace}}
				}
				continue
			}
			if na, changed := e.addExit(info, ifs, v, body); changed {
				out[i] = na
			}
			break
		}
	}
	return out
}

// exitOf: s is where a pending error in V leaves the function: the test
// `if V != nil { error exit }`, or `return ..., V` itself.
func (e *Extractor) exitOf(info *types.Info, s ast.Stmt) (types.Object, []ast.Stmt, bool) {
	if v, body, ok := e.errTest(info, s); ok {
		return v, body, true
	}
	ret, ok := s.(*ast.ReturnStmt)
	if !ok || len(ret.Results) == 0 {
		return nil, nil, false
	}
	id, ok := ast.Unparen(ret.Results[len(ret.Results)-1]).(*ast.Ident)
	if !ok || !isErrIdent(info, id) || info.Uses[id] == nil {
		return nil, nil, false
	}
	for _, r := range ret.Results[:len(ret.Results)-1] {
		// the other results of the error return must not consume anything
		if len(e.peekTokens(info, r)) > 0 {
			return nil, nil, false
		}
	}
	return info.Uses[id], []ast.Stmt{ret}, true
}

// peekTokens reports whether evaluating x would produce tokens, without
// recording anything (calls only).
func (e *Extractor) peekTokens(info *types.Info, x ast.Expr) []ast.Node {
	var out []ast.Node
	ast.Inspect(x, func(n ast.Node) bool {
		if c, ok := n.(*ast.CallExpr); ok {
			if tv, isConv := info.Types[c.Fun]; !(isConv && tv.IsType()) {
				if _, isBuiltin := core.Callee(info, c).(*types.Builtin); !isBuiltin {
					out = append(out, c)
				}
			}
		}
		return true
	})
	return out
}

// guardOn: `if V == nil { ... }` without init and else.
func (e *Extractor) guardOn(info *types.Info, ifs *ast.IfStmt, v types.Object) bool {
	if ifs.Init != nil || ifs.Else != nil || errCond(info, ifs.Cond) != -1 {
		return false
	}
	be := ast.Unparen(ifs.Cond).(*ast.BinaryExpr)
	for _, x := range []ast.Expr{be.X, be.Y} {
		if id, ok := ast.Unparen(x).(*ast.Ident); ok && info.Uses[id] == v {
			return true
		}
	}
	return false
}

// exitInTail applies addExit to the statement in tail position of a list.
func (e *Extractor) exitInTail(info *types.Info, list []ast.Stmt, v types.Object, body []ast.Stmt) ([]ast.Stmt, bool) {
	if len(list) == 0 {
		return list, false
	}
	switch last := list[len(list)-1].(type) {
	case *ast.IfStmt:
		if n, ok := e.addExit(info, last, v, body); ok {
			return append(append([]ast.Stmt{}, list[:len(list)-1]...), n), true
		}
	case *ast.BlockStmt:
		if nl, ok := e.exitInTail(info, last.List, v, body); ok {
			return append(append([]ast.Stmt{}, list[:len(list)-1]...), &ast.BlockStmt{Lbrace: last.Lbrace, List: nl, Rbrace: last.Rbrace}), true
		}
	}
	return list, false
}

// errTest recognises `if V != nil { <error exit> }` (no init, no else) and
// returns the object of V and the body.
func (e *Extractor) errTest(info *types.Info, s ast.Stmt) (types.Object, []ast.Stmt, bool) {
	ifs, ok := s.(*ast.IfStmt)
	if !ok || ifs.Init != nil || ifs.Else != nil || errCond(info, ifs.Cond) != 1 {
		return nil, nil, false
	}
	be := ast.Unparen(ifs.Cond).(*ast.BinaryExpr)
	id, ok := ast.Unparen(be.X).(*ast.Ident)
	if !ok || !isErrIdent(info, id) {
		id, ok = ast.Unparen(be.Y).(*ast.Ident)
	}
	if !ok || id == nil || !e.errorExit(info, ifs.Body) {
		return nil, nil, false
	}
	return info.Uses[id], ifs.Body.List, true
}

// addExit appends `body` to every branch of ifs (in tail position) whose last
// statement stores a certainly non-nil error into v.
func (e *Extractor) addExit(info *types.Info, ifs *ast.IfStmt, v types.Object, body []ast.Stmt) (*ast.IfStmt, bool) {
	changed := false
	// the variable known to be a non-nil error inside the then-branch
	var condErr types.Object
	if errCond(info, ifs.Cond) == 1 {
		be := ast.Unparen(ifs.Cond).(*ast.BinaryExpr)
		for _, x := range []ast.Expr{be.X, be.Y} {
			if id, ok := ast.Unparen(x).(*ast.Ident); ok && isErrIdent(info, id) {
				condErr = info.Uses[id]
			}
		}
	}
	var certain func(x ast.Expr, nonNil types.Object) bool
	certain = func(x ast.Expr, nonNil types.Object) bool {
		x = ast.Unparen(x)
		if id, ok := x.(*ast.Ident); ok {
			return nonNil != nil && info.Uses[id] == nonNil
		}
		if call, ok := x.(*ast.CallExpr); ok {
			if f := core.CalleeFunc(info, call); f != nil && f.Pkg() != nil {
				switch f.Pkg().Path() {
				case "fmt", "errors", core.Module + "/pkg/libs/errors":
					switch f.Name() {
					case "Errorf", "New", "Static":
						return true
					case "Trace":
						return len(call.Args) == 1 && certain(call.Args[0], nonNil)
					}
				}
			}
		}
		return false
	}
	var branch func(list []ast.Stmt, nonNil types.Object) ([]ast.Stmt, bool)
	assignsV := func(list []ast.Stmt) bool {
		hit := false
		for _, st := range list {
			ast.Inspect(st, func(n ast.Node) bool {
				if as, ok := n.(*ast.AssignStmt); ok {
					for _, l := range as.Lhs {
						if id, ok := ast.Unparen(l).(*ast.Ident); ok && (info.Uses[id] == v || info.Defs[id] == v) {
							hit = true
						}
					}
				}
				return !hit
			})
		}
		return hit
	}
	branch = func(list []ast.Stmt, nonNil types.Object) ([]ast.Stmt, bool) {
		if nonNil != nil && nonNil == v && !assignsV(list) {
			// the branch is taken because the flag itself is a non-nil error and leaves
			// it alone (`if x, err = f(); err != nil { } else { ... }`): it reaches the test
			if len(list) > 0 {
				if _, isRet := list[len(list)-1].(*ast.ReturnStmt); isRet {
					return list, false
				}
			}
			return append(append([]ast.Stmt{}, list...), body...), true
		}
		if len(list) == 0 {
			return list, false
		}
		switch last := list[len(list)-1].(type) {
		case *ast.AssignStmt:
			if last.Tok == token.ASSIGN && len(last.Lhs) == 1 && len(last.Rhs) == 1 {
				if id, ok := ast.Unparen(last.Lhs[0]).(*ast.Ident); ok && info.Uses[id] == v && certain(last.Rhs[0], nonNil) {
					return append(append([]ast.Stmt{}, list...), body...), true
				}
			}
		case *ast.IfStmt:
			if n, ok := e.addExit(info, last, v, body); ok {
				return append(append([]ast.Stmt{}, list[:len(list)-1]...), n), true
			}
		case *ast.BlockStmt:
			if nl, ok := branch(last.List, nonNil); ok {
				return append(append([]ast.Stmt{}, list[:len(list)-1]...), &ast.BlockStmt{Lbrace: last.Lbrace, List: nl, Rbrace: last.Rbrace}), true
			}
		}
		return list, false
	}
	n := &ast.IfStmt{If: ifs.If, Init: ifs.Init, Cond: ifs.Cond, Body: ifs.Body, Else: ifs.Else}
	if nl, ok := branch(ifs.Body.List, condErr); ok {
		n.Body = &ast.BlockStmt{Lbrace: ifs.Body.Lbrace, List: nl, Rbrace: ifs.Body.Rbrace}
		changed = true
	}
	switch el := ifs.Else.(type) {
	case *ast.BlockStmt:
		if nl, ok := branch(el.List, nil); ok {
			n.Else = &ast.BlockStmt{Lbrace: el.Lbrace, List: nl, Rbrace: el.Rbrace}
			changed = true
		}
	case *ast.IfStmt:
		if ne, ok := e.addExit(info, el, v, body); ok {
			n.Else = ne
			changed = true
		}
	}
	return n, changed
}

// normLoop rewrites two other spellings of a counting loop into the
// three-clause form the extractor recognises:
//
//	for { if i >= n { break }; BODY; i++ }      ->  for ; i < n; i++ { BODY }
//	for i < n { BODY; i++ }                     ->  for ; i < n; i++ { BODY }
//
// The step must be the last statement of the body and the body must not
// `continue` (which would skip it); the exit test must be the first statement.
// Anything else is returned unchanged.
func normLoop(info *types.Info, x *ast.ForStmt) *ast.ForStmt {
	if x.Post != nil || len(x.Body.List) == 0 {
		return x
	}
	body := x.Body.List
	cond := x.Cond
	if cond == nil {
		ifs, ok := body[0].(*ast.IfStmt)
		if !ok || ifs.Init != nil || ifs.Else != nil || len(ifs.Body.List) != 1 {
			return x
		}
		br, ok := ifs.Body.List[0].(*ast.BranchStmt)
		if !ok || br.Tok != token.BREAK || br.Label != nil {
			return x
		}
		be, ok := ast.Unparen(ifs.Cond).(*ast.BinaryExpr)
		if !ok {
			return x
		}
		neg := map[token.Token]token.Token{token.GEQ: token.LSS, token.LEQ: token.GTR, token.EQL: token.NEQ, token.GTR: token.LEQ, token.LSS: token.GEQ}
		op, ok := neg[be.Op]
		if !ok {
			return x
		}
		cond = &ast.BinaryExpr{X: be.X, OpPos: be.OpPos, Op: op, Y: be.Y}
		body = body[1:]
		if len(body) == 0 {
			return x
		}
	}
	last := body[len(body)-1]
	var ctr *ast.Ident
	switch p := last.(type) {
	case *ast.IncDecStmt:
		ctr, _ = ast.Unparen(p.X).(*ast.Ident)
	case *ast.AssignStmt:
		if len(p.Lhs) == 1 && (p.Tok == token.ADD_ASSIGN || p.Tok == token.SUB_ASSIGN || p.Tok == token.ASSIGN) {
			ctr, _ = ast.Unparen(p.Lhs[0]).(*ast.Ident)
		}
	}
	if ctr == nil {
		return x
	}
	// the condition must be about the stepped variable
	mentions := false
	ast.Inspect(cond, func(n ast.Node) bool {
		if id, ok := n.(*ast.Ident); ok && info.Uses[id] != nil && info.Uses[id] == info.Uses[ctr] {
			mentions = true
		}
		return !mentions
	})
	if !mentions {
		return x
	}
	// no continue / other write of the counter in the rest of the body
	bad := false
	rest := body[:len(body)-1]
	var scan func(n ast.Node, inner bool)
	scan = func(n ast.Node, inner bool) {
		ast.Inspect(n, func(m ast.Node) bool {
			switch v := m.(type) {
			case *ast.FuncLit:
				return false
			case *ast.ForStmt:
				if m != n {
					scan(v.Body, true)
					return false
				}
			case *ast.RangeStmt:
				if m != n {
					scan(v.Body, true)
					return false
				}
			case *ast.BranchStmt:
				if v.Tok == token.CONTINUE && (!inner || v.Label != nil) {
					bad = true
				}
				if v.Tok == token.GOTO {
					bad = true
				}
			case *ast.AssignStmt:
				for _, l := range v.Lhs {
					if id, ok := ast.Unparen(l).(*ast.Ident); ok && info.Uses[id] != nil && info.Uses[id] == info.Uses[ctr] {
						bad = true
					}
				}
			case *ast.IncDecStmt:
				if id, ok := ast.Unparen(v.X).(*ast.Ident); ok && info.Uses[id] == info.Uses[ctr] {
					bad = true
				}
			}
			return !bad
		})
	}
	for _, st := range rest {
		scan(st, false)
	}
	if bad {
		return x
	}
	return &ast.ForStmt{For: x.For, Init: x.Init, Cond: cond, Post: last, Body: &ast.BlockStmt{Lbrace: x.Body.Lbrace, List: rest, Rbrace: x.Body.Rbrace}}
}

// countDownOffset recognises `for [v := e]; v > K; v--` / `v >= K` with a
// constant K that makes the trip count differ from the start value:
// it returns the start expression and the (non-zero) difference.
func countDownOffset(info *types.Info, x *ast.ForStmt) (ast.Expr, int64, bool) {
	dec, ok := x.Post.(*ast.IncDecStmt)
	if !ok || dec.Tok != token.DEC {
		return nil, 0, false
	}
	v, ok := ast.Unparen(dec.X).(*ast.Ident)
	if !ok {
		return nil, 0, false
	}
	be, ok := ast.Unparen(x.Cond).(*ast.BinaryExpr)
	if !ok {
		return nil, 0, false
	}
	same := func(e ast.Expr) bool {
		id, ok := ast.Unparen(e).(*ast.Ident)
		return ok && info.Uses[id] == info.Uses[v]
	}
	var off int64
	switch {
	case be.Op == token.GTR && same(be.X):
		k, ok := core.IntConst(info, be.Y)
		if !ok {
			return nil, 0, false
		}
		off = -k
	case be.Op == token.GEQ && same(be.X):
		k, ok := core.IntConst(info, be.Y)
		if !ok {
			return nil, 0, false
		}
		off = -k + 1
	case be.Op == token.LSS && same(be.Y):
		k, ok := core.IntConst(info, be.X)
		if !ok {
			return nil, 0, false
		}
		off = -k
	case be.Op == token.LEQ && same(be.Y):
		k, ok := core.IntConst(info, be.X)
		if !ok {
			return nil, 0, false
		}
		off = -k + 1
	default:
		return nil, 0, false
	}
	if off == 0 {
		return nil, 0, false // the plain form, recognised elsewhere
	}
	if x.Init == nil {
		return v, off, true
	}
	if as, ok := x.Init.(*ast.AssignStmt); ok && len(as.Lhs) == 1 && len(as.Rhs) == 1 {
		if id, ok := as.Lhs[0].(*ast.Ident); ok && id.Name == v.Name {
			return as.Rhs[0], off, true
		}
	}
	return nil, 0, false
}

// gotoLoop recognises a loop spelled with a label and a backward goto,
//
//	L: if cond { BODY; goto L }
//
// (no init, no else, the goto is the last statement of the body and the only
// jump to L inside it) and returns the equivalent `for cond { BODY }`.
func gotoLoop(ls *ast.LabeledStmt) (*ast.ForStmt, bool) {
	ifs, ok := ls.Stmt.(*ast.IfStmt)
	if !ok || ifs.Init != nil || ifs.Else != nil || len(ifs.Body.List) < 2 {
		return nil, false
	}
	label := ls.Label.Name
	last, ok := ifs.Body.List[len(ifs.Body.List)-1].(*ast.BranchStmt)
	if !ok || last.Tok != token.GOTO || last.Label == nil || last.Label.Name != label {
		return nil, false
	}
	body := ifs.Body.List[:len(ifs.Body.List)-1]
	other := false
	for _, st := range body {
		ast.Inspect(st, func(n ast.Node) bool {
			if b, ok := n.(*ast.BranchStmt); ok && b.Label != nil && b.Label.Name == label {
				other = true
			}
			// an unlabelled break/continue directly in the body would now bind to the new loop
			if b, ok := n.(*ast.BranchStmt); ok && b.Label == nil && (b.Tok == token.BREAK || b.Tok == token.CONTINUE) {
				other = true // conservative: also inside nested loops
			}
			return !other
		})
	}
	if other {
		return nil, false
	}
	return &ast.ForStmt{For: ls.Pos(), Cond: ifs.Cond, Body: &ast.BlockStmt{Lbrace: ifs.Body.Lbrace, List: body, Rbrace: ifs.Body.Rbrace}}, true
}

// stepsCounter: lhs is (a conversion of) the variable the loop's post
// statement increments.
func stepsCounter(info *types.Info, x *ast.ForStmt, lhs ast.Expr) bool {
	inc, ok := x.Post.(*ast.IncDecStmt)
	if !ok || inc.Tok != token.INC {
		return true // other post statements are judged by the recognisers that follow
	}
	ctr, ok := ast.Unparen(inc.X).(*ast.Ident)
	if !ok {
		return false
	}
	for {
		lhs = ast.Unparen(lhs)
		c, ok := lhs.(*ast.CallExpr)
		if ok && len(c.Args) == 1 {
			if tv, has := info.Types[c.Fun]; has && tv.IsType() {
				lhs = c.Args[0]
				continue
			}
		}
		break
	}
	id, ok := lhs.(*ast.Ident)
	return ok && info.Uses[id] == info.Uses[ctr]
}

// linCount reads the loop test as a linear comparison of the stepped variable
// with one other quantity, `ctr + k < bound` (also <=, !=, and every equivalent
// spelling): starting from zero the loop runs bound-k (bound-k+1 for <=) times.
func linCount(info *types.Info, x *ast.ForStmt) (bound ast.Expr, off int64, ok bool) {
	var ctr *ast.Ident
	switch p := x.Post.(type) {
	case *ast.IncDecStmt:
		if p.Tok == token.INC {
			ctr, _ = ast.Unparen(p.X).(*ast.Ident)
		}
	case *ast.AssignStmt:
		if len(p.Lhs) == 1 && len(p.Rhs) == 1 && p.Tok == token.ADD_ASSIGN {
			if v, isC := core.IntConst(info, p.Rhs[0]); isC && v == 1 {
				ctr, _ = ast.Unparen(p.Lhs[0]).(*ast.Ident)
			}
		}
	}
	if ctr == nil || x.Cond == nil {
		return nil, 0, false
	}
	cmp, isCmp := lin.CmpOf(info, x.Cond, true)
	if !isCmp {
		return nil, 0, false
	}
	ck := lin.Key(info, ctr)
	f := cmp.F
	if cmp.Op == token.NEQ && f.Coef[ck] == -1 {
		f = f.Neg()
	}
	if f.Coef[ck] != 1 || len(f.Coef) != 2 {
		return nil, 0, false
	}
	bk := ""
	for k, v := range f.Coef {
		if k != ck {
			if v != -1 {
				return nil, 0, false
			}
			bk = k
		}
	}
	switch cmp.Op {
	case token.LSS, token.NEQ:
		off = -f.Const
	case token.LEQ:
		off = -f.Const + 1
	default:
		return nil, 0, false
	}
	// the sub-expression of the test that is the bound
	ast.Inspect(x.Cond, func(n ast.Node) bool {
		if e, isExpr := n.(ast.Expr); isExpr && bound == nil {
			switch e.(type) {
			case *ast.Ident, *ast.SelectorExpr, *ast.CallExpr, *ast.IndexExpr:
				if lin.Key(info, e) == bk {
					bound = e
					return false
				}
			}
		}
		return bound == nil
	})
	return bound, off, bound != nil
}

// onlyBreak: the block is a single unlabelled break.
func onlyBreak(b *ast.BlockStmt) bool {
	if b == nil || len(b.List) != 1 {
		return false
	}
	br, ok := b.List[0].(*ast.BranchStmt)
	return ok && br.Tok == token.BREAK && br.Label == nil
}

// mayBeNilCall: x is a call (possibly wrapped in errors.Trace) of something
// other than an error constructor: its result may well be nil.
func (e *Extractor) mayBeNilCall(info *types.Info, x ast.Expr) bool {
	call, ok := ast.Unparen(x).(*ast.CallExpr)
	if !ok {
		return false
	}
	f := core.CalleeFunc(info, call)
	if f != nil && f.Pkg() != nil {
		switch f.Pkg().Path() {
		case "fmt", "errors", core.Module + "/pkg/libs/errors":
			switch f.Name() {
			case "Errorf", "New", "Static":
				return false
			case "Trace":
				if len(call.Args) == 1 {
					return e.mayBeNilCall(info, call.Args[0])
				}
			}
		}
	}
	if tv, isConv := info.Types[call.Fun]; isConv && tv.IsType() {
		return false
	}
	// only a call that can touch the stream matters here: any other call's error
	// is, by the convention of error exits, an error
	return len(e.exprTokensPeek(info, call)) > 0
}

// exprTokensPeek: the call is a primitive, an inlinable helper or hands on a
// carrier (decided without extracting anything).
func (e *Extractor) exprTokensPeek(info *types.Info, call *ast.CallExpr) []int {
	f := e.calleeOf(info, call)
	if f == nil {
		return nil
	}
	name := core.FuncName(f)
	if _, ok := e.S.Prims[name]; ok {
		return []int{1}
	}
	if _, ok := e.S.BufPrims[name]; ok {
		return []int{1}
	}
	if sig, ok := f.Type().(*types.Signature); ok && sig.Recv() != nil {
		if _, isIface := sig.Recv().Type().Underlying().(*types.Interface); isIface {
			if _, ok := e.S.IfacePrims[f.Name()]; ok {
				return []int{1}
			}
			return nil
		}
	}
	if e.S.Classify != nil {
		if _, ok := e.S.Classify(info, call, f); ok {
			return []int{1}
		}
	}
	if e.S.Inline != nil && e.S.Inline(f) {
		return []int{1}
	}
	return nil
}
