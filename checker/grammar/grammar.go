// Package grammar is engine E3 of DESIGN.md: it abstracts code that consumes
// a byte reader (or feeds a writer) into a regular term over primitive wire
// tokens, so that reader and writer sides and the format specification can be
// compared.
//
// Term syntax (a string):
//
//	Tok              a primitive token (Str, Len, U8, Fix4LE, ...), given by Spec.Prims
//	Tok@a            the token's result is bound to variable a (only shown when a
//	                 loop bound or a switch tag refers to it)
//	Loop@a{...}      counting loop `for i := 0; i < n; i++` with n bound by Tok@a
//	                 (several aliases: Loop@[a,.field])
//	Star{...}        any other loop
//	Alt[c]{A|B}      branch; c is `.field!=0` for a test of a tracked field against
//	                 zero, `?` for any other condition
//	Sw@a{1:..|2:..|d:..}   switch over a bound value with constant labels
//	Ret              normal (non-error) return inside a branch
//	Brk              break out of the innermost loop
//
// Error exits (`if err != nil { return ..., err }`, no-return calls) are dropped.
package grammar

import (
	"fmt"
	"go/ast"
	"go/constant"
	"go/token"
	"go/types"
	"regexp"
	"sort"
	"strings"

	"rscheck/cfgq"
	"rscheck/core"
	"rscheck/pat"
)

// Spec configures one extraction.
type Spec struct {
	// Prims maps a function (core.FuncName form, e.g.
	// "(*pkg/rdb.rdbReader).ReadString") to its token.
	Prims map[string]string
	// Inline reports whether calls to f are expanded (same-module helpers).
	Inline func(f *types.Func) bool
	// Carrier reports whether a value of type t could be used to consume/produce
	// bytes of the tracked stream (a call that receives such a value and is
	// neither primitive nor inlined makes the extraction undecided).
	Carrier func(t types.Type) bool
	// Fields lists struct field names whose zero-tests are kept as Alt conditions.
	Fields map[string]bool
	// FixFromMake: token produced by `<prim>(buf)` where buf = make([]byte, k):
	// primitive name -> format with %d (e.g. "readFull" -> "Fix%d").
	BufPrims map[string]string
	// IfacePrims maps method names to tokens for calls through an interface value
	// (a helper that takes the reader as a small interface).
	IfacePrims map[string]string
	// Classify, when set, is consulted first: it may give a call its own token
	// (e.g. depending on the arguments written).
	Classify func(info *types.Info, call *ast.CallExpr, f *types.Func) (string, bool)
	// ClassifyCtx is Classify with the stack of inlined helper calls through
	// which the call was reached (outermost first), so that a rule can tell two
	// expansions of the same helper apart.
	ClassifyCtx func(info *types.Info, call *ast.CallExpr, f *types.Func, stack []*ast.CallExpr) (string, bool)
	// ResolveCallee, when set, is asked for the target of a call that has no static
	// callee and is not through a local the extractor tracks itself (a function
	// held in a struct field, say); stack as for ClassifyCtx.
	ResolveCallee func(info *types.Info, call *ast.CallExpr, stack []*ast.CallExpr) *types.Func
	// StrictLits makes the extraction undecided when a function literal (also
	// under defer/go) touches the stream: its tokens would otherwise be lost.
	StrictLits bool
	// ImplicitDefault renders the empty alternative `d:` of a switch that has no
	// default clause, so that "no case matched" is a visible path (Language).
	ImplicitDefault bool
	// FieldBufLen gives the constant length of scratch-buffer fields
	// (verified separately by the rule that uses it).
	FieldBufLen map[string]int64
	MaxDepth    int
}

// Extractor holds the state of one extraction.
type Extractor struct {
	C         *core.Ctx
	S         *Spec
	Undecided []string

	binds  map[types.Object][]string // var -> binding names (aliases)
	used   map[string]bool
	next   int
	tagVar types.Object
	tagVal *int64
	bufLen map[types.Object]int64
	depth  int

	consts     map[types.Object]int64 // helper parameters bound to constants
	known      map[types.Object]int64 // variables with a known value on the path being extracted (value-set mode)
	first      *int64                 // value-set mode: the value of the first byte read
	firstDone  bool
	frames     []*inlineFrame
	term       bool                       // the statement just extracted certainly leaves the function
	tokOf      map[*ast.CallExpr]*node    // primitive call -> its token
	inlineRes  map[*ast.CallExpr][]string // inlined helper call -> bindings of its first result
	inlineVals map[*ast.CallExpr]*inlineFrame
	stack      []*ast.CallExpr                     // inlined helper calls being expanded (outermost first)
	synthRet   map[*ast.ReturnStmt]*ast.AssignStmt // returns made from `r = e; break L` of a one-pass block
	fnIDs      map[*types.Func]int64               // function / method values held in locals are tracked as known values
	fnByID     map[int64]*types.Func
}

// New creates an extractor.
func New(c *core.Ctx, s *Spec) *Extractor {
	if s.MaxDepth == 0 {
		s.MaxDepth = 4
	}
	predicateOf = func(info *types.Info, call *ast.CallExpr) (ast.Expr, *types.Info) {
		f := core.CalleeFunc(info, call)
		if f == nil || f.Pkg() == nil || !strings.HasPrefix(f.Pkg().Path(), core.Module) {
			return nil, nil
		}
		sig, _ := f.Type().(*types.Signature)
		if sig == nil || sig.Params().Len() != 0 || sig.Results().Len() != 1 {
			return nil, nil
		}
		fn := c.FnOf(f)
		if fn == nil || fn.Decl == nil || fn.Decl.Body == nil || len(fn.Decl.Body.List) != 1 {
			return nil, nil
		}
		ret, ok := fn.Decl.Body.List[0].(*ast.ReturnStmt)
		if !ok || len(ret.Results) != 1 {
			return nil, nil
		}
		return ret.Results[0], fn.Pkg.TypesInfo
	}
	return &Extractor{C: c, S: s, binds: map[types.Object][]string{}, used: map[string]bool{}, bufLen: map[types.Object]int64{},
		consts: map[types.Object]int64{}, known: map[types.Object]int64{}, tokOf: map[*ast.CallExpr]*node{}, inlineRes: map[*ast.CallExpr][]string{}, inlineVals: map[*ast.CallExpr]*inlineFrame{}}
}

func (e *Extractor) undec(format string, a ...interface{}) {
	e.Undecided = append(e.Undecided, fmt.Sprintf(format, a...))
}

// Term is an intermediate tree.
type node struct {
	kind  string // tok, seq, loop, star, alt, sw, ret, brk
	text  string
	bind  string
	kids  []*node
	label []string
}

func seq(ns ...*node) *node { return &node{kind: "seq", kids: ns} }

func (n *node) empty() bool {
	if n == nil {
		return true
	}
	switch n.kind {
	case "seq":
		for _, k := range n.kids {
			if !k.empty() {
				return false
			}
		}
		return true
	}
	return false
}

func (e *Extractor) render(n *node) string {
	if n == nil {
		return ""
	}
	switch n.kind {
	case "tok":
		if n.bind != "" && e.used[n.bind] {
			return n.text + "@" + n.bind
		}
		return n.text
	case "seq":
		var parts []string
		for _, k := range n.kids {
			if s := e.render(k); s != "" {
				parts = append(parts, s)
			}
		}
		return strings.Join(parts, " ")
	case "loop":
		return "Loop@" + n.text + "{" + e.render(n.kids[0]) + "}"
	case "star":
		if controlOnly(n) {
			return "" // a loop that consumes nothing is not wire grammar
		}
		return "Star{" + e.render(n.kids[0]) + "}"
	case "alt":
		if n.text == "?" && controlOnly(n) {
			return "" // early exits under an opaque condition are not wire grammar
		}
		a, b := e.render(n.kids[0]), e.render(n.kids[1])
		if a == "" && b == "" {
			return "" // neither branch consumes anything
		}
		if n.text == "?" && (a == "" || b != "" && b > a) {
			a, b = b, a // an opaque condition has no orientation: canonical order
		}
		return "Alt[" + n.text + "]{" + a + "|" + b + "}"
	case "sw":
		if controlOnly(n) {
			return ""
		}
		var parts []string
		for i, k := range n.kids {
			parts = append(parts, n.label[i]+":"+e.render(k))
		}
		return "Sw@" + n.text + "{" + strings.Join(parts, "|") + "}"
	case "ret":
		return "Ret"
	case "brk":
		return "Brk"
	}
	return "?" + n.kind
}

// FuncTerm extracts the term of a whole function body.
func (e *Extractor) FuncTerm(fn *core.Fn) string {
	e.zeroNamedResults(fn)
	n := e.block(fn.Pkg.TypesInfo, fn.Decl.Body.List)
	return Canon(e.render(n))
}

// Canon renames the binding variables of a rendered term in order of first
// appearance (a, b, c, ...), so that unrelated reads do not shift the names.
func Canon(s string) string {
	names := map[string]string{}
	get := func(n string) string {
		if v, ok := names[n]; ok {
			return v
		}
		v := string(rune('a' + len(names)%26))
		if len(names) >= 26 {
			v += fmt.Sprint(len(names) / 26)
		}
		names[n] = v
		return v
	}
	// first pass: plain @x occurrences and names inside [..] alias lists, left to right
	re := regexp.MustCompile(`@\[[^\]]*\]|@[a-z][0-9]*`)
	return re.ReplaceAllStringFunc(s, func(m string) string {
		if strings.HasPrefix(m, "@[") {
			parts := strings.Split(m[2:len(m)-1], ",")
			for i, p := range parts {
				if !strings.HasPrefix(p, ".") {
					parts[i] = get(p)
				}
			}
			return "@[" + strings.Join(parts, ",") + "]"
		}
		return "@" + get(m[1:])
	})
}

// CaseTerm extracts the term of the clause of sw that handles constant label
// val (following fallthrough), with `tag == C` conditions resolved for val.
// ok is false when no clause lists val (the default clause is returned then if
// useDefault is set).
func (e *Extractor) CaseTerm(info *types.Info, sw *ast.SwitchStmt, val int64, useDefault bool) (string, bool) {
	var tagObj types.Object
	if id, ok := ast.Unparen(sw.Tag).(*ast.Ident); ok {
		tagObj = info.Uses[id]
	}
	clauses := sw.Body.List
	idx := -1
	def := -1
	for i, cl := range clauses {
		cc := cl.(*ast.CaseClause)
		if cc.List == nil {
			def = i
		}
		for _, l := range cc.List {
			if v, ok := core.IntConst(info, l); ok && v == val {
				idx = i
			}
		}
	}
	found := idx >= 0
	if idx < 0 {
		if !useDefault || def < 0 {
			return "", false
		}
		idx = def
	}
	saveObj, saveVal := e.tagVar, e.tagVal
	e.tagVar, e.tagVal = tagObj, &val
	defer func() { e.tagVar, e.tagVal = saveObj, saveVal }()
	if tagObj != nil {
		// the tag has this value throughout the clause: nested tests of it are decided
		e.known[tagObj] = val
		defer delete(e.known, tagObj)
	}
	var stmts []ast.Stmt
	for i := idx; i < len(clauses); i++ {
		body := clauses[i].(*ast.CaseClause).Body
		ft := false
		if len(body) > 0 {
			if br, ok := body[len(body)-1].(*ast.BranchStmt); ok && br.Tok == token.FALLTHROUGH {
				ft = true
				body = body[:len(body)-1]
			}
		}
		stmts = append(stmts, body...)
		if !ft {
			break
		}
	}
	return Canon(e.render(e.block(info, stmts))), found
}

func (e *Extractor) block(info *types.Info, stmts []ast.Stmt) *node {
	out := seq()
	e.term = false
	stmts = e.flagExits(info, stmts)
	for _, s := range stmts {
		if n := e.stmt(info, s); n != nil {
			out.kids = append(out.kids, n)
		}
		if e.term {
			break // a decided branch returned: what follows is not on this path
		}
	}
	return out
}

func isErrIdent(info *types.Info, x ast.Expr) bool {
	switch v := ast.Unparen(x).(type) {
	case *ast.Ident:
		tv := info.TypeOf(v)
		return tv != nil && cfgq.IsErrorType(tv)
	case *ast.SelectorExpr:
		// the error kept in a field of a small writer/reader object (`w.err`)
		if sel, ok := info.Selections[v]; ok && sel.Kind() == types.FieldVal {
			if _, isId := ast.Unparen(v.X).(*ast.Ident); isId {
				return cfgq.IsErrorType(sel.Obj().Type())
			}
		}
	}
	return false
}

// predicateOf, set by New, returns the expression a one-line predicate helper
// returns (`func (w *T) failed() bool { return w.err != nil }`) and the type
// information of its package.
var predicateOf func(info *types.Info, call *ast.CallExpr) (ast.Expr, *types.Info)

// errCond classifies cond as an error test: +1 = true means error, -1 = true
// means no error, 0 = not an error test.
func errCond(info *types.Info, cond ast.Expr) int {
	switch v := ast.Unparen(cond).(type) {
	case *ast.UnaryExpr:
		if v.Op == token.NOT {
			return -errCond(info, v.X)
		}
	case *ast.CallExpr:
		if predicateOf != nil {
			if x, xi := predicateOf(info, v); x != nil {
				if _, again := ast.Unparen(x).(*ast.CallExpr); !again {
					return errCond(xi, x)
				}
			}
		}
	}
	be, ok := ast.Unparen(cond).(*ast.BinaryExpr)
	if !ok {
		return 0
	}
	switch be.Op {
	case token.NEQ, token.EQL:
		if isErrIdent(info, be.X) && core.IsNil(info, be.Y) || isErrIdent(info, be.Y) && core.IsNil(info, be.X) {
			if be.Op == token.NEQ {
				return 1
			}
			return -1
		}
	}
	return 0
}

// errorExit: the block leaves the function with an error (return whose last
// result is not nil) or by a no-return call, unconditionally at its end.
func (e *Extractor) errorExit(info *types.Info, b *ast.BlockStmt) bool {
	return e.errorExitCtx(info, b, true)
}

// errorExitCtx: errCtx tells whether the block is guarded by an error test; a
// bare return is an error exit only there, or when the block itself stores a
// non-nil error into a named result first.
func (e *Extractor) errorExitCtx(info *types.Info, b *ast.BlockStmt, errCtx bool) bool {
	if b == nil || len(b.List) == 0 {
		return false
	}
	switch last := b.List[len(b.List)-1].(type) {
	case *ast.ReturnStmt:
		if len(last.Results) == 0 {
			if errCtx {
				return true // bare return inside an err branch with named results
			}
			for _, st := range b.List {
				if as, ok := st.(*ast.AssignStmt); ok && len(as.Lhs) == len(as.Rhs) {
					for i, l := range as.Lhs {
						if isErrIdent(info, l) && !core.IsNil(info, as.Rhs[i]) {
							return true
						}
					}
				}
			}
			return false
		}
		r := last.Results[len(last.Results)-1]
		if !core.IsNil(info, r) && cfgq.IsErrorType(info.TypeOf(r)) {
			// `return err`, `return fmt.Errorf(..)`, `return errors.Trace(err)` leave with an
			// error; `return errors.Trace(w.Write(..))` / `return w.Write(..)` returns whatever
			// the write returned - the path goes on through that call
			return !e.mayBeNilCall(info, r)
		}
		return false
	case *ast.ExprStmt:
		if call, ok := last.X.(*ast.CallExpr); ok {
			return cfgq.NR(e.C.Program).Is(info, call)
		}
	}
	return false
}

func (e *Extractor) newBind() string {
	s := string(rune('a' + e.next%26))
	if e.next >= 26 {
		s += fmt.Sprint(e.next / 26)
	}
	e.next++
	return s
}

// exprTokens collects the tokens of the primitive/inlined calls evaluated by
// expression x, in evaluation order.
func (e *Extractor) exprTokens(info *types.Info, x ast.Node) []*node {
	var out []*node
	if x == nil {
		return nil
	}
	var visit func(n ast.Node)
	visit = func(n ast.Node) {
		ast.Inspect(n, func(m ast.Node) bool {
			switch c := m.(type) {
			case *ast.FuncLit:
				if e.S.StrictLits {
					e.strictLit(info, c)
				}
				return false
			case *ast.CallExpr:
				// arguments first
				for _, a := range c.Args {
					visit(a)
				}
				if sel, ok := c.Fun.(*ast.SelectorExpr); ok {
					visit(sel.X)
				}
				if t := e.callToken(info, c); t != nil {
					out = append(out, t)
				}
				return false
			}
			return true
		})
	}
	visit(x)
	return out
}

// fnValue encodes a function or method value as a known value.
func (e *Extractor) fnValue(f *types.Func) int64 {
	if e.fnIDs == nil {
		e.fnIDs, e.fnByID = map[*types.Func]int64{}, map[int64]*types.Func{}
	}
	if id, ok := e.fnIDs[f]; ok {
		return id
	}
	id := int64(1)<<40 + int64(len(e.fnIDs))
	e.fnIDs[f], e.fnByID[id] = id, f
	return id
}

// calleeOf resolves the callee of c: statically, or through a local that holds
// a function or method value known on the path being extracted
// (`readScore := r.ReadFloat; if t == 5 { readScore = r.ReadDouble }; readScore()`).
func (e *Extractor) calleeOf(info *types.Info, c *ast.CallExpr) *types.Func {
	if f := core.CalleeFunc(info, c); f != nil {
		return f
	}
	if id, ok := ast.Unparen(c.Fun).(*ast.Ident); ok {
		if v, isVar := info.Uses[id].(*types.Var); isVar {
			if k, has := e.known[v]; has {
				if f := e.fnByID[k]; f != nil {
					return f
				}
			}
			// a parameter of an inlined helper bound to a known function value
			if k, has := e.consts[v]; has {
				if f := e.fnByID[k]; f != nil {
					return f
				}
			}
		}
	}
	if e.S.ResolveCallee != nil {
		if tv, isConv := info.Types[c.Fun]; !(isConv && tv.IsType()) {
			if _, isBuiltin := core.Callee(info, c).(*types.Builtin); !isBuiltin {
				return e.S.ResolveCallee(info, c, e.stack)
			}
		}
	}
	return nil
}

func (e *Extractor) callToken(info *types.Info, c *ast.CallExpr) *node {
	f := e.calleeOf(info, c)
	if f == nil {
		// conversion, builtin or dynamic call
		if tv, ok := info.Types[c.Fun]; ok && tv.IsType() {
			return nil
		}
		if _, ok := core.Callee(info, c).(*types.Builtin); ok {
			return nil
		}
		if id, ok := ast.Unparen(c.Fun).(*ast.Ident); ok {
			if v, isVar := info.Uses[id].(*types.Var); isVar && !v.IsField() {
				if _, isSig := v.Type().Underlying().(*types.Signature); isSig && e.S.Carrier != nil {
					if e.streamFreeTable(info, v) {
						// looked up in a package-level table of functions none of which can
						// reach the stream: whichever entry it is, nothing is consumed
						return nil
					}
					// a function value in a local may be a bound method of the stream object
					e.undec("%s: call through the function value `%s`, whose target is not known on this path", e.C.Pos(c.Pos()), id.Name)
					return nil
				}
			}
		}
		if sel, ok := ast.Unparen(c.Fun).(*ast.SelectorExpr); ok && e.S.Carrier != nil {
			if sl, ok := info.Selections[sel]; ok && sl.Kind() == types.FieldVal {
				if _, isSig := sl.Obj().Type().Underlying().(*types.Signature); isSig {
					// a function held in a field may be a bound method of the stream object or
					// one of the callbacks the term is about
					e.undec("%s: call through the function-typed field `%s`, whose target is not known", e.C.Pos(c.Pos()), sel.Sel.Name)
					return nil
				}
			}
		}
		e.carrierCheck(info, c, "dynamic call")
		return nil
	}
	name := core.FuncName(f)
	if e.S.Classify != nil {
		if tok, ok := e.S.Classify(info, c, f); ok {
			return &node{kind: "tok", text: tok}
		}
	}
	if e.S.ClassifyCtx != nil {
		if tok, ok := e.S.ClassifyCtx(info, c, f, e.stack); ok {
			return &node{kind: "tok", text: tok}
		}
	}
	if tok, ok := e.S.Prims[name]; ok {
		if tok == "Bytes" && len(c.Args) == 1 {
			// a variable-length read with a constant length is a fixed-width read
			if k, ok := e.constValue(info, c.Args[0]); ok {
				tok = fmt.Sprintf("Fix%d", k)
			}
		}
		t := &node{kind: "tok", text: tok}
		e.tokOf[c] = t
		return t
	}
	if fmtStr, ok := e.S.BufPrims[name]; ok && len(c.Args) >= 1 {
		// width from the buffer argument
		arg := ast.Unparen(c.Args[len(c.Args)-1])
		if id, ok := arg.(*ast.Ident); ok {
			if k, ok := e.bufLen[info.Uses[id]]; ok {
				return &node{kind: "tok", text: fmt.Sprintf(fmtStr, k)}
			}
		}
		if sl, ok := arg.(*ast.SliceExpr); ok && sl.Low == nil && sl.High != nil {
			if k, ok := core.IntConst(info, sl.High); ok {
				return &node{kind: "tok", text: fmt.Sprintf(fmtStr, k)}
			}
		}
		if mk, ok := arg.(*ast.CallExpr); ok && len(mk.Args) >= 2 {
			if b, ok := core.Callee(info, mk).(*types.Builtin); ok && b.Name() == "make" {
				if k, ok := core.IntConst(info, mk.Args[1]); ok {
					return &node{kind: "tok", text: fmt.Sprintf(fmtStr, k)}
				}
			}
		}
		if fv := core.FieldOf(info, arg); fv != nil {
			if k, ok := e.S.FieldBufLen[fv.Name()]; ok {
				return &node{kind: "tok", text: fmt.Sprintf(fmtStr, k)}
			}
		}
		e.undec("%s: width of the buffer passed to %s is not a visible constant", e.C.Pos(c.Pos()), name)
		return &node{kind: "tok", text: fmt.Sprintf(fmtStr, -1)}
	}
	isIfaceMethod := false
	if sig, ok := f.Type().(*types.Signature); ok && sig.Recv() != nil {
		_, isIfaceMethod = sig.Recv().Type().Underlying().(*types.Interface)
	}
	if isIfaceMethod {
		if tok, ok := e.S.IfacePrims[f.Name()]; ok {
			t := &node{kind: "tok", text: tok}
			e.tokOf[c] = t
			return t
		}
	}
	if e.S.Inline != nil && e.S.Inline(f) && !isIfaceMethod {
		fn := e.C.FnOf(f)
		if fn == nil || fn.Decl.Body == nil {
			e.undec("%s: helper %s has no body to inline", e.C.Pos(c.Pos()), name)
			return nil
		}
		if e.depth >= e.S.MaxDepth {
			e.undec("%s: inlining depth exceeded at %s", e.C.Pos(c.Pos()), name)
			return nil
		}
		e.depth++
		saveObj, saveVal := e.tagVar, e.tagVal
		e.tagVar, e.tagVal = nil, nil
		bc := c
		if fn.Decl.Recv != nil && core.CalleeFunc(info, c) == nil {
			// reached through a function value: a method EXPRESSION `(*T).M` takes the
			// receiver as its first argument
			if sig, ok := f.Type().(*types.Signature); ok && len(c.Args) == sig.Params().Len()+1 {
				cc := *c
				cc.Args = c.Args[1:]
				bc = &cc
			}
		}
		e.bindParams(info, bc, fn)
		fr := &inlineFrame{fn: fn}
		e.frames = append(e.frames, fr)
		e.zeroNamedResults(fn)
		saveTerm := e.term
		e.stack = append(e.stack, c)
		n := e.block(fn.Pkg.TypesInfo, earlyReturnToElse(fn.Decl.Body.List))
		e.stack = e.stack[:len(e.stack)-1]
		e.term = saveTerm
		e.frames = e.frames[:len(e.frames)-1]
		e.finishFrame(fr)
		e.inlineVals[c] = fr
		e.tagVar, e.tagVal = saveObj, saveVal
		e.depth--
		stripRets(n)
		e.inlineRes[c] = e.resultBinds(fn)
		return n
	}
	e.carrierCheck(info, c, name)
	return nil
}

// bindParams gives the parameters of an inlined helper what the caller's
// arguments stand for: the bindings of a bound variable, a tracked field, or
// a constant.
func (e *Extractor) bindParams(info *types.Info, c *ast.CallExpr, fn *core.Fn) {
	if c.Ellipsis.IsValid() {
		return
	}
	hi := fn.Pkg.TypesInfo
	i := 0
	for _, fl := range fn.Decl.Type.Params.List {
		for _, nm := range fl.Names {
			if i >= len(c.Args) {
				return
			}
			arg := c.Args[i]
			i++
			po := hi.Defs[nm]
			if po == nil {
				continue
			}
			delete(e.binds, po)
			delete(e.consts, po)
			if k, ok := e.intValue(info, arg); ok {
				e.consts[po] = k
				continue
			}
			if k, ok := e.knownArg(info, arg); ok {
				e.consts[po] = k // a variable whose value is assumed (Assume, CaseTerm, ByFirstByte)
				continue
			}
			if ref, ok := e.refOfMark(info, arg, false); ok {
				ref = strings.TrimSuffix(strings.TrimPrefix(ref, "["), "]")
				e.binds[po] = strings.Split(ref, ",")
			}
		}
	}
}

// constValue: a compile-time constant, or a helper parameter bound to one (not
// a value that is merely known on the path being extracted).
func (e *Extractor) constValue(info *types.Info, x ast.Expr) (int64, bool) {
	saved := e.known
	e.known = nil
	k, ok := e.intValue(info, x)
	e.known = saved
	return k, ok
}

// intValue: a compile-time constant, a helper parameter bound to one, or a
// variable whose value is known on this path.
func (e *Extractor) intValue(info *types.Info, x ast.Expr) (int64, bool) {
	if k, ok := core.IntConst(info, x); ok {
		return k, true
	}
	x = ast.Unparen(x)
	if call, ok := x.(*ast.CallExpr); ok && len(call.Args) == 1 {
		if tv, has := info.Types[call.Fun]; has && tv.IsType() {
			return e.intValue(info, call.Args[0])
		}
	}
	if id, ok := x.(*ast.Ident); ok {
		if k, ok := e.consts[info.Uses[id]]; ok {
			return k, true
		}
		if k, ok := e.known[info.Uses[id]]; ok {
			return k, true
		}
	}
	return 0, false
}

// earlyReturnToElse rewrites `if c { A; return }; rest` as
// `if c { A; return } else { rest }` (recursively): inside an inlined helper a
// return only skips the rest of the helper, which is what the else branch says.
func earlyReturnToElse(stmts []ast.Stmt) []ast.Stmt {
	for i, s := range stmts {
		if i == len(stmts)-1 {
			break
		}
		ifs, ok := s.(*ast.IfStmt)
		if !ok {
			// a tagless switch whose clauses partly return is the same thing spelled as a chain
			if sw, isSw := s.(*ast.SwitchStmt); isSw {
				ifs = taglessToIf(sw)
			}
			if ifs == nil {
				continue
			}
		}
		if ifs.Else == nil {
			// the plain guard clause
			if len(ifs.Body.List) == 0 {
				continue
			}
			if _, isRet := ifs.Body.List[len(ifs.Body.List)-1].(*ast.ReturnStmt); !isRet {
				continue
			}
			rest := earlyReturnToElse(stmts[i+1:])
			n := &ast.IfStmt{If: ifs.If, Init: ifs.Init, Cond: ifs.Cond, Body: ifs.Body,
				Else: &ast.BlockStmt{Lbrace: stmts[i+1].Pos(), List: rest, Rbrace: stmts[len(stmts)-1].End()}}
			out := append([]ast.Stmt{}, stmts[:i]...)
			return append(out, n)
		}
		// an if / else-if / else chain in which some arms return and others fall out:
		// what follows belongs to the arms that fall out
		if !someArmReturns(ifs) {
			continue
		}
		rest := earlyReturnToElse(stmts[i+1:])
		out := append([]ast.Stmt{}, stmts[:i]...)
		return append(out, sinkRest(ifs, rest))
	}
	return stmts
}

func endsInReturn(list []ast.Stmt) bool {
	if len(list) == 0 {
		return false
	}
	_, ok := list[len(list)-1].(*ast.ReturnStmt)
	return ok
}

func someArmReturns(ifs *ast.IfStmt) bool {
	if endsInReturn(ifs.Body.List) {
		return true
	}
	switch el := ifs.Else.(type) {
	case *ast.BlockStmt:
		return endsInReturn(el.List)
	case *ast.IfStmt:
		return someArmReturns(el)
	}
	return false
}

// sinkRest appends rest to every arm of the chain that does not end in a return
// (an absent else is such an arm).
func sinkRest(ifs *ast.IfStmt, rest []ast.Stmt) *ast.IfStmt {
	n := &ast.IfStmt{If: ifs.If, Init: ifs.Init, Cond: ifs.Cond, Body: ifs.Body, Else: ifs.Else}
	if !endsInReturn(ifs.Body.List) {
		n.Body = &ast.BlockStmt{Lbrace: ifs.Body.Lbrace, List: append(append([]ast.Stmt{}, ifs.Body.List...), rest...), Rbrace: ifs.Body.Rbrace}
	}
	switch el := ifs.Else.(type) {
	case nil:
		if len(rest) > 0 {
			n.Else = &ast.BlockStmt{Lbrace: rest[0].Pos(), List: rest, Rbrace: rest[len(rest)-1].End()}
		}
	case *ast.BlockStmt:
		if !endsInReturn(el.List) {
			n.Else = &ast.BlockStmt{Lbrace: el.Lbrace, List: append(append([]ast.Stmt{}, el.List...), rest...), Rbrace: el.Rbrace}
		}
	case *ast.IfStmt:
		n.Else = sinkRest(el, rest)
	}
	return n
}

// taglessToIf turns `switch { case a, b: X; case c: Y; default: Z }` (no init,
// no fallthrough, no break that leaves the switch) into the equivalent
// if / else-if / else chain; nil when the switch is not of that form.
func taglessToIf(sw *ast.SwitchStmt) *ast.IfStmt {
	if sw.Tag != nil || sw.Init != nil || len(sw.Body.List) == 0 {
		return nil
	}
	var def *ast.CaseClause
	var cases []*ast.CaseClause
	for _, cl := range sw.Body.List {
		cc := cl.(*ast.CaseClause)
		bad := false
		for _, st := range cc.Body {
			ast.Inspect(st, func(n ast.Node) bool {
				switch v := n.(type) {
				case *ast.BranchStmt:
					if v.Tok == token.FALLTHROUGH || v.Tok == token.BREAK && v.Label == nil {
						bad = true
					}
				case *ast.ForStmt, *ast.RangeStmt, *ast.SwitchStmt, *ast.TypeSwitchStmt, *ast.SelectStmt, *ast.FuncLit:
					return false // a break in there does not leave this switch
				}
				return !bad
			})
		}
		if bad {
			return nil
		}
		if cc.List == nil {
			def = cc
		} else {
			cases = append(cases, cc)
		}
	}
	if len(cases) == 0 {
		return nil
	}
	// the default clause is evaluated last wherever it is written
	var tail ast.Stmt
	if def != nil {
		tail = &ast.BlockStmt{Lbrace: def.Pos(), List: def.Body, Rbrace: def.End()}
	}
	for i := len(cases) - 1; i >= 0; i-- {
		cc := cases[i]
		cond := cc.List[0]
		for _, c := range cc.List[1:] {
			cond = &ast.BinaryExpr{X: cond, OpPos: c.Pos(), Op: token.LOR, Y: c}
		}
		tail = &ast.IfStmt{If: cc.Pos(), Cond: cond, Body: &ast.BlockStmt{Lbrace: cc.Colon, List: cc.Body, Rbrace: cc.End()}, Else: tail}
	}
	return tail.(*ast.IfStmt)
}

// resultBinds collects the bindings of the first result of an inlined helper
// over its return statements (a primitive call returned directly, a bound
// local, a tracked field).
func (e *Extractor) resultBinds(fn *core.Fn) []string {
	info := fn.Pkg.TypesInfo
	var out []string
	core.Inspect(fn.Decl.Body, func(n ast.Node) bool {
		ret, ok := n.(*ast.ReturnStmt)
		if !ok || len(ret.Results) == 0 {
			return true
		}
		switch r := ast.Unparen(ret.Results[0]).(type) {
		case *ast.CallExpr:
			if t := e.tokOf[r]; t != nil {
				if t.bind == "" {
					t.bind = e.newBind()
				}
				out = mergeAliases(out, []string{t.bind})
			} else if b, ok := e.inlineRes[r]; ok {
				out = mergeAliases(out, b)
			}
		case *ast.Ident:
			if b, ok := e.binds[info.Uses[r]]; ok {
				out = mergeAliases(out, b)
			}
		case *ast.SelectorExpr:
			if fv := core.FieldOf(info, r); fv != nil && e.S.Fields[fv.Name()] {
				out = mergeAliases(out, []string{"." + fv.Name()})
			}
		}
		return true
	})
	return out
}

// stripRets removes return markers from an inlined helper's term (a return
// there only ends the helper).
func stripRets(n *node) {
	if n == nil {
		return
	}
	var kids []*node
	for _, k := range n.kids {
		if k != nil && k.kind == "ret" && n.kind == "seq" {
			continue
		}
		stripRets(k)
		kids = append(kids, k)
	}
	if n.kind == "seq" {
		n.kids = kids
	}
}

// controlOnly reports whether the subtree contains no wire token at all
// (only Ret/Brk/Cont markers).
func controlOnly(n *node) bool {
	if n == nil {
		return true
	}
	switch n.kind {
	case "tok":
		return n.text == "Cont"
	case "ret", "brk":
		return true
	}
	for _, k := range n.kids {
		if !controlOnly(k) {
			return false
		}
	}
	return true
}

func (e *Extractor) carrierCheck(info *types.Info, c *ast.CallExpr, name string) {
	if e.S.Carrier == nil {
		return
	}
	check := func(x ast.Expr) {
		if t := info.TypeOf(x); t != nil && e.S.Carrier(t) {
			e.undec("%s: the stream object is handed to %s, which is neither a known primitive nor an inlined helper", e.C.Pos(c.Pos()), name)
		}
	}
	for _, a := range c.Args {
		check(a)
	}
	if sel, ok := c.Fun.(*ast.SelectorExpr); ok {
		if s, ok := info.Selections[sel]; ok && s.Kind() == types.MethodVal {
			check(sel.X)
		}
	}
}

func (e *Extractor) bindResult(info *types.Info, lhs ast.Expr, toks []*node, rhs ast.Expr) {
	id, ok := ast.Unparen(lhs).(*ast.Ident)
	if !ok || id.Name == "_" {
		return
	}
	obj := info.Defs[id]
	if obj == nil {
		obj = info.Uses[id]
	}
	if obj == nil {
		return
	}
	if call, ok := ast.Unparen(rhs).(*ast.CallExpr); ok {
		// make([]byte, k)
		if b, ok := core.Callee(info, call).(*types.Builtin); ok && b.Name() == "make" && len(call.Args) >= 2 {
			if k, ok := core.IntConst(info, call.Args[1]); ok {
				e.bufLen[obj] = k
			} else {
				delete(e.bufLen, obj)
			}
			return
		}
	}
	if call, ok := ast.Unparen(rhs).(*ast.CallExpr); ok {
		if b, ok := e.inlineRes[call]; ok {
			if len(b) > 0 {
				e.binds[obj] = b
			}
			return
		}
	}
	// rhs is directly a primitive call: bind to the last token
	if call, ok := ast.Unparen(rhs).(*ast.CallExpr); ok && len(toks) > 0 {
		last := toks[len(toks)-1]
		if last.kind == "tok" && e.callIsPrim(info, call) {
			if last.bind == "" {
				last.bind = e.newBind()
			}
			e.binds[obj] = []string{last.bind}
			if e.first != nil && !e.firstDone && last.text == "U8" {
				e.known[obj] = *e.first
				e.firstDone = true
			}
			return
		}
		return
	}
	// alias: n = m  /  n = x.field
	switch r := ast.Unparen(rhs).(type) {
	case *ast.Ident:
		if src := info.Uses[r]; src != nil {
			if b, ok := e.binds[src]; ok {
				e.binds[obj] = mergeAliases(e.binds[obj], b)
			}
		}
	case *ast.SelectorExpr:
		if fv := core.FieldOf(info, r); fv != nil && e.S.Fields[fv.Name()] {
			e.binds[obj] = mergeAliases(e.binds[obj], []string{"." + fv.Name()})
		}
	case *ast.CallExpr:
		// conversion of a bound variable: uint32(n)
		if tv, ok := info.Types[r.Fun]; ok && tv.IsType() && len(r.Args) == 1 {
			e.bindResult(info, lhs, toks, r.Args[0])
		}
	}
}

func mergeAliases(a, b []string) []string {
	m := map[string]bool{}
	for _, x := range a {
		m[x] = true
	}
	for _, x := range b {
		m[x] = true
	}
	var out []string
	for x := range m {
		out = append(out, x)
	}
	sort.Strings(out)
	return out
}

func (e *Extractor) callIsPrim(info *types.Info, c *ast.CallExpr) bool {
	f := e.calleeOf(info, c)
	if f == nil {
		return false
	}
	if sig, ok := f.Type().(*types.Signature); ok && sig.Recv() != nil {
		if _, isIface := sig.Recv().Type().Underlying().(*types.Interface); isIface {
			_, ok := e.S.IfacePrims[f.Name()]
			return ok
		}
	}
	n := core.FuncName(f)
	_, a := e.S.Prims[n]
	_, b := e.S.BufPrims[n]
	return a || b
}

func (e *Extractor) assign(info *types.Info, as *ast.AssignStmt) *node {
	var toks []*node
	for _, r := range as.Rhs {
		toks = append(toks, e.exprTokens(info, r)...)
	}
	e.updateKnown(info, as)
	for _, l := range as.Lhs {
		// index/selector expressions on the left may call too (rare)
		if _, ok := l.(*ast.Ident); !ok {
			toks = append(toks, e.exprTokens(info, l)...)
		}
	}
	if len(as.Rhs) == 1 && len(as.Lhs) >= 1 {
		e.bindResult(info, as.Lhs[0], toks, as.Rhs[0])
	} else if len(as.Rhs) == len(as.Lhs) {
		for i := range as.Lhs {
			e.bindResult(info, as.Lhs[i], nil, as.Rhs[i])
		}
	}
	return seq(toks...)
}

func (e *Extractor) refOf(info *types.Info, x ast.Expr) (string, bool) {
	return e.refOfMark(info, x, true)
}

func (e *Extractor) refOfMark(info *types.Info, x ast.Expr, mark bool) (string, bool) {
	x = ast.Unparen(x)
	if call, ok := x.(*ast.CallExpr); ok {
		if tv, ok := info.Types[call.Fun]; ok && tv.IsType() && len(call.Args) == 1 {
			return e.refOfMark(info, call.Args[0], mark)
		}
	}
	if id, ok := x.(*ast.Ident); ok {
		if b, ok := e.binds[info.Uses[id]]; ok {
			for _, n := range b {
				if mark {
					e.used[n] = true
				}
			}
			if len(b) == 1 {
				return b[0], true
			}
			return "[" + strings.Join(b, ",") + "]", true
		}
	}
	if fv := core.FieldOf(info, x); fv != nil && e.S.Fields[fv.Name()] {
		return "." + fv.Name(), true
	}
	return "", false
}

// condKey renders an if condition: (".field!=0", negated?) for zero tests of
// tracked fields, "?" otherwise.
func (e *Extractor) condKey(info *types.Info, cond ast.Expr) (key string, swap bool) {
	// a condition carried in a single-assignment boolean local, or negated
	switch x := ast.Unparen(cond).(type) {
	case *ast.Ident:
		if d := pat.DefOf(info, x); d != nil {
			return e.condKey(info, d)
		}
	case *ast.UnaryExpr:
		if x.Op == token.NOT {
			if k, sw := e.condKey(info, x.X); k != "?" {
				return k, !sw
			}
		}
	}
	if be, ok := ast.Unparen(cond).(*ast.BinaryExpr); ok && (be.Op == token.NEQ || be.Op == token.EQL) {
		for _, p := range [][2]ast.Expr{{be.X, be.Y}, {be.Y, be.X}} {
			name := ""
			if fv := core.FieldOf(info, p[0]); fv != nil && e.S.Fields[fv.Name()] {
				name = "." + fv.Name()
			} else if id, ok := ast.Unparen(p[0]).(*ast.Ident); ok {
				// a local that so far only holds the tracked field
				if b := e.binds[info.Uses[id]]; len(b) == 1 && strings.HasPrefix(b[0], ".") {
					name = b[0]
				}
			}
			if name == "" {
				continue
			}
			if v, ok := core.IntConst(info, p[1]); ok && v == 0 {
				return name + "!=0", be.Op == token.EQL
			}
		}
	}
	return "?", false
}

// tagTest resolves `tag == C` / `tag != C` when extracting for a fixed label.
func (e *Extractor) tagTest(info *types.Info, cond ast.Expr) (val bool, ok bool) {
	if e.tagVar == nil || e.tagVal == nil {
		return false, false
	}
	be, isB := ast.Unparen(cond).(*ast.BinaryExpr)
	if !isB || be.Op != token.EQL && be.Op != token.NEQ {
		return false, false
	}
	for _, p := range [][2]ast.Expr{{be.X, be.Y}, {be.Y, be.X}} {
		id, isId := ast.Unparen(p[0]).(*ast.Ident)
		if !isId || info.Uses[id] != e.tagVar {
			continue
		}
		if v, isC := core.IntConst(info, p[1]); isC {
			return (v == *e.tagVal) == (be.Op == token.EQL), true
		}
	}
	return false, false
}

// ifChainSwitch rewrites `if v == A {..} else if v == B {..} [else {..}]` (two
// or more comparisons of the same expression with integer constants) as the
// equivalent switch statement, so that both spellings give the same term.
func (e *Extractor) ifChainSwitch(info *types.Info, x *ast.IfStmt) *ast.SwitchStmt {
	if x.Init != nil {
		return nil
	}
	if _, ok := e.tagTest(info, x.Cond); ok {
		return nil
	}
	var tag ast.Expr
	var clauses []ast.Stmt
	cur := x
	for {
		be, ok := ast.Unparen(cur.Cond).(*ast.BinaryExpr)
		if !ok || be.Op != token.EQL || cur.Init != nil {
			return nil
		}
		l, c := be.X, be.Y
		if _, isC := core.IntConst(info, c); !isC {
			l, c = be.Y, be.X
		}
		if _, isC := core.IntConst(info, c); !isC {
			return nil
		}
		if _, isC := core.IntConst(info, l); isC {
			return nil
		}
		if tag == nil {
			tag = l
		} else if !pat.Same(info, tag, l) {
			return nil
		}
		clauses = append(clauses, &ast.CaseClause{Case: cur.Pos(), List: []ast.Expr{c}, Body: cur.Body.List})
		switch el := cur.Else.(type) {
		case *ast.IfStmt:
			cur = el
			continue
		case *ast.BlockStmt:
			clauses = append(clauses, &ast.CaseClause{Case: el.Pos(), Body: el.List})
		}
		break
	}
	if len(clauses) < 2 || tag == nil {
		return nil
	}
	n := 0
	for _, cl := range clauses {
		if cl.(*ast.CaseClause).List != nil {
			n++
		}
	}
	if n < 2 {
		return nil
	}
	return &ast.SwitchStmt{Switch: x.Pos(), Tag: tag, Body: &ast.BlockStmt{Lbrace: x.Pos(), List: clauses, Rbrace: x.End()}}
}

// clauseBlock extracts one clause of an undecided switch starting from the
// known values at the switch.
func (e *Extractor) clauseBlock(info *types.Info, snap map[types.Object]int64, stmts []ast.Stmt) *node {
	e.known = e.copyKnown(snap)
	return e.block(info, stmts)
}

// countDown recognises `for [v := e]; v > 0; v--` (also `v != 0`, `0 < v`) and
// returns the expression whose value is the trip count.
func countDown(info *types.Info, x *ast.ForStmt) (ast.Expr, bool) {
	dec, ok := x.Post.(*ast.IncDecStmt)
	if !ok || dec.Tok != token.DEC {
		return nil, false
	}
	v, ok := ast.Unparen(dec.X).(*ast.Ident)
	if !ok {
		return nil, false
	}
	be, ok := ast.Unparen(x.Cond).(*ast.BinaryExpr)
	if !ok {
		return nil, false
	}
	same := func(e ast.Expr) bool {
		id, ok := ast.Unparen(e).(*ast.Ident)
		return ok && info.Uses[id] == info.Uses[v]
	}
	zero := func(e ast.Expr) bool {
		k, ok := core.IntConst(info, e)
		return ok && k == 0
	}
	okCond := (be.Op == token.GTR || be.Op == token.NEQ) && same(be.X) && zero(be.Y) || (be.Op == token.LSS || be.Op == token.NEQ) && zero(be.X) && same(be.Y)
	if !okCond {
		return nil, false
	}
	if x.Init == nil {
		return v, true
	}
	if as, ok := x.Init.(*ast.AssignStmt); ok && len(as.Lhs) == 1 && len(as.Rhs) == 1 {
		if id, ok := as.Lhs[0].(*ast.Ident); ok && id.Name == v.Name {
			return as.Rhs[0], true
		}
	}
	return nil, false
}

func startsAtZero(info *types.Info, init ast.Stmt) bool {
	as, ok := init.(*ast.AssignStmt)
	if !ok || len(as.Rhs) != 1 {
		return false
	}
	v, ok := core.IntConst(info, as.Rhs[0])
	return ok && v == 0
}

// stmt extracts one statement. Branches whose condition is decided by the
// known values are followed alone; e.term tells the enclosing block whether
// the path certainly left the function.
func (e *Extractor) stmt(info *types.Info, s ast.Stmt) *node {
	switch x := s.(type) {
	case *ast.ReturnStmt:
		n := e.stmt1(info, s)
		e.term = true
		return n
	case *ast.BlockStmt:
		return e.block(info, x.List)
	case *ast.IfStmt:
		if len(e.known) > 0 || e.first != nil {
			var n0 *node
			y := x
			if x.Init != nil {
				n0 = e.stmt(info, x.Init)
				c := *x
				c.Init = nil
				y = &c
			}
			if v, ok := e.evalBool(info, y.Cond); ok {
				var n *node
				e.term = false
				if v {
					n = e.block(info, y.Body.List)
				} else {
					switch el := y.Else.(type) {
					case *ast.BlockStmt:
						n = e.block(info, el.List)
					case *ast.IfStmt:
						n = e.stmt(info, el)
					}
				}
				return seq(n0, n)
			}
			n := e.stmt1(info, y)
			e.term = false
			return seq(n0, n)
		}
	case *ast.SwitchStmt:
		if len(e.known) > 0 || e.first != nil {
			var n0 *node
			y := x
			if x.Init != nil {
				n0 = e.stmt(info, x.Init)
				c := *x
				c.Init = nil
				y = &c
			}
			if stmts, ok := e.knownSwitch(info, y); ok {
				return seq(n0, e.block(info, stmts))
			}
			n := e.stmt1(info, y)
			e.term = false
			return seq(n0, n)
		}
	}
	n := e.stmt1(info, s)
	e.term = false
	return n
}

func (e *Extractor) stmt1(info *types.Info, s ast.Stmt) *node {
	switch x := s.(type) {
	case nil:
		return nil
	case *ast.ExprStmt:
		if call, ok := x.X.(*ast.CallExpr); ok && cfgq.NR(e.C.Program).Is(info, call) {
			return nil
		}
		return seq(e.exprTokens(info, x.X)...)
	case *ast.AssignStmt:
		return e.assign(info, x)
	case *ast.DeclStmt:
		out := seq()
		if gd, ok := x.Decl.(*ast.GenDecl); ok {
			for _, sp := range gd.Specs {
				vs, ok := sp.(*ast.ValueSpec)
				if !ok {
					continue
				}
				for i, v := range vs.Values {
					toks := e.exprTokens(info, v)
					out.kids = append(out.kids, toks...)
					if i < len(vs.Names) {
						if o := info.Defs[vs.Names[i]]; o != nil {
							if k, ok := e.eval(info, v); ok && len(vs.Values) == len(vs.Names) {
								e.known[o] = k
							} else {
								delete(e.known, o)
							}
						}
						e.bindResult(info, vs.Names[i], toks, v)
					}
				}
				if len(vs.Values) == 0 {
					for _, nm := range vs.Names {
						if o := info.Defs[nm]; o != nil {
							if b, ok := o.Type().Underlying().(*types.Basic); ok && b.Info()&(types.IsInteger|types.IsBoolean) != 0 {
								e.known[o] = 0
							}
						}
					}
				}
			}
		}
		return out
	case *ast.IncDecStmt:
		if id, ok := ast.Unparen(x.X).(*ast.Ident); ok {
			delete(e.known, info.Uses[id])
		}
		return nil
	case *ast.EmptyStmt:
		return nil
	case *ast.LabeledStmt:
		if loop, ok := gotoLoop(x); ok {
			// `L: if c { ...; goto L }` is `for c { ... }`
			return e.stmt(info, loop)
		}
		if stmts, synth, ok := onePass(x); ok {
			if e.synthRet == nil {
				e.synthRet = map[*ast.ReturnStmt]*ast.AssignStmt{}
			}
			for k, v := range synth {
				e.synthRet[k] = v
			}
			// `L: for { ...; break L }` runs its body once, `break L` leaves it: the
			// same thing as the body of an inlined helper with `return`
			fr := &inlineFrame{}
			e.frames = append(e.frames, fr)
			saveTerm := e.term
			n := e.block(info, earlyReturnToElse(stmts))
			e.term = saveTerm
			e.frames = e.frames[:len(e.frames)-1]
			stripRets(n)
			return n
		}
		if len(e.exprTokens(info, x)) > 0 {
			e.undec("%s: stream consumed inside a %T", e.C.Pos(x.Pos()), x)
		}
		return nil
	case *ast.GoStmt, *ast.DeferStmt, *ast.SendStmt, *ast.SelectStmt, *ast.TypeSwitchStmt:
		if len(e.exprTokens(info, x)) > 0 {
			e.undec("%s: stream consumed inside a %T", e.C.Pos(x.Pos()), x)
		}
		return nil
	case *ast.BlockStmt:
		return e.block(info, x.List)
	case *ast.ReturnStmt:
		var toks []*node
		for _, r := range x.Results {
			toks = append(toks, e.exprTokens(info, r)...)
		}
		if as := e.synthRet[x]; as != nil {
			e.updateKnown(info, as)
		}
		e.recordReturn(info, x)
		return seq(append(toks, &node{kind: "ret"})...)
	case *ast.BranchStmt:
		switch x.Tok {
		case token.BREAK:
			if x.Label == nil {
				return &node{kind: "brk"}
			}
		case token.CONTINUE:
			if x.Label == nil {
				return &node{kind: "tok", text: "Cont"}
			}
		}
		e.undec("%s: %s is outside the enumerated idioms", e.C.Pos(x.Pos()), x.Tok)
		return nil
	case *ast.IfStmt:
		if sw := e.ifChainSwitch(info, x); sw != nil {
			return e.stmt(info, sw)
		}
		out := seq()
		if x.Init != nil {
			out.kids = append(out.kids, e.stmt(info, x.Init))
		}
		out.kids = append(out.kids, e.exprTokens(info, x.Cond)...)
		var els []ast.Stmt
		switch el := x.Else.(type) {
		case *ast.BlockStmt:
			els = el.List
		case *ast.IfStmt:
			els = []ast.Stmt{el}
		}
		// error tests
		ec := 0
		for _, f := range cfgq.Facts(x.Cond, true) {
			if f.Val {
				if k := errCond(info, f.Expr); k == 1 {
					ec = 1
				}
			}
		}
		if errCond(info, x.Cond) == 1 || ec == 1 && e.errorExit(info, x.Body) {
			if e.errorExit(info, x.Body) || errCond(info, x.Cond) == 1 && onlyBreak(x.Body) {
				// (`if err != nil { break }`: the loop is left with the error pending - the
				// sticky-error style, where everything that follows is guarded by it)
				out.kids = append(out.kids, e.block(info, els))
				return out
			}
		}
		if errCond(info, x.Cond) == -1 && e.errorExitCtx(info, x.Body, false) {
			// `if err == nil { abort }`: the success path dies here
			out.kids = append(out.kids, &node{kind: "tok", text: "Abort"})
			return out
		}
		if errCond(info, x.Cond) == -1 {
			// if err == nil { A } else { error exit }
			if x.Else == nil || e.errorExit(info, &ast.BlockStmt{List: els}) {
				out.kids = append(out.kids, e.block(info, x.Body.List))
				return out
			}
		}
		if v, ok := e.tagTest(info, x.Cond); ok {
			if v {
				out.kids = append(out.kids, e.block(info, x.Body.List))
			} else {
				out.kids = append(out.kids, e.block(info, els))
			}
			return out
		}
		// a pure error exit guarded by a non-error condition (validation) is not grammar
		key, swap := e.condKey(info, x.Cond) // before the branches re-bind the variables it mentions
		snap := e.snapshotKnown()
		thenN := e.block(info, x.Body.List)
		e.known = e.copyKnown(snap)
		elseN := e.block(info, els)
		e.known = snap
		e.killAssigned(info, x.Body)
		if x.Else != nil {
			e.killAssigned(info, x.Else)
		}
		if e.errorExitCtx(info, x.Body, false) {
			out.kids = append(out.kids, elseN)
			return out
		}
		if thenN.empty() && elseN.empty() {
			return out
		}
		if swap {
			thenN, elseN = elseN, thenN
		}
		out.kids = append(out.kids, &node{kind: "alt", text: key, kids: []*node{thenN, elseN}})
		return out
	case *ast.ForStmt:
		x = normLoop(info, x) // while-form and break-form of a counting loop
		out := seq()
		if x.Init != nil {
			out.kids = append(out.kids, e.stmt(info, x.Init))
		}
		// the trip count of a count-down loop is read before the loop's own
		// assignments invalidate what is known about the counter
		var downK int64 = -1
		if x.Cond != nil && x.Post != nil {
			if v, ok := countDown(info, x); ok {
				if k, isK := e.intValue(info, v); isK {
					downK = k
				}
			}
		}
		e.killAssigned(info, x)
		body := e.block(info, x.Body.List)
		e.killAssigned(info, x)
		if downK >= 0 && downK <= 8 {
			for j := int64(1); j < downK; j++ {
				out.kids = append(out.kids, e.block(info, x.Body.List))
			}
			if downK > 0 {
				out.kids = append(out.kids, body)
			}
			return out
		}
		condToks := e.exprTokens(info, x.Cond)
		consumed := false
		for _, t := range condToks {
			if !t.empty() {
				consumed = true
			}
		}
		if consumed {
			e.undec("%s: stream consumed inside a loop condition", e.C.Pos(x.Pos()))
		}
		if x.Cond != nil && x.Post != nil {
			// count-down form: `for ; v > 0; v--` runs v times
			if v, ok := countDown(info, x); ok {
				if k, isK := e.intValue(info, v); isK && k >= 0 && k <= 8 {
					for j := int64(1); j < k; j++ {
						out.kids = append(out.kids, e.block(info, x.Body.List))
					}
					if k > 0 {
						out.kids = append(out.kids, body)
					}
					return out
				}
				if ref, ok := e.refOf(info, v); ok {
					out.kids = append(out.kids, &node{kind: "loop", text: ref, kids: []*node{body}})
					return out
				}
			}
			// count-down that stops early or late: `v > 1`, `v >= 0` run v-1, v+1 times
			if v, off, ok := countDownOffset(info, x); ok {
				if ref, ok := e.refOf(info, v); ok {
					out.kids = append(out.kids, &node{kind: "loop", text: fmt.Sprintf("%s%+d", ref, off), kids: []*node{body}})
					return out
				}
			}
			if be, ok := ast.Unparen(x.Cond).(*ast.BinaryExpr); ok && be.Op == token.LSS {
				if _, isInc := x.Post.(*ast.IncDecStmt); isInc {
					// `for i := 0; i < K; i++` with a small constant K is K copies of the body
					if k, ok := e.intValue(info, be.Y); ok && k >= 0 && k <= 8 && startsAtZero(info, x.Init) {
						for j := int64(1); j < k; j++ {
							out.kids = append(out.kids, e.block(info, x.Body.List))
						}
						if k > 0 {
							out.kids = append(out.kids, body)
						}
						return out
					}
				}
				if ref, ok := e.refOf(info, be.Y); ok && stepsCounter(info, x, be.X) {
					if _, isInc := x.Post.(*ast.IncDecStmt); isInc {
						out.kids = append(out.kids, &node{kind: "loop", text: ref, kids: []*node{body}})
						return out
					}
				}
			}
			// the other spellings of counting up to a bound: `i != n`, `n > i`, `n != i`, `i += 1`
			if bound, plusOne, ok := upCountBound(info, x); ok {
				if ref, ok := e.refOf(info, bound); ok {
					if plusOne {
						ref += "+1" // `i <= n`: runs once more than the count read
					}
					out.kids = append(out.kids, &node{kind: "loop", text: ref, kids: []*node{body}})
					return out
				}
			}
			// any linear spelling of the test: `i+1 < n`, `i < n-1`, `n-i > 0` ...
			if bound, off, ok := linCount(info, x); ok {
				if ref, ok := e.refOf(info, bound); ok {
					if off != 0 {
						ref = fmt.Sprintf("%s%+d", ref, off)
					}
					out.kids = append(out.kids, &node{kind: "loop", text: ref, kids: []*node{body}})
					return out
				}
			}
		}
		if body.empty() {
			return out
		}
		out.kids = append(out.kids, &node{kind: "star", kids: []*node{body}})
		return out
	case *ast.RangeStmt:
		e.killAssigned(info, x)
		body := e.block(info, x.Body.List)
		e.killAssigned(info, x)
		if body.empty() {
			return nil
		}
		return &node{kind: "star", kids: []*node{body}}
	case *ast.SwitchStmt:
		out := seq()
		if x.Init != nil {
			out.kids = append(out.kids, e.stmt(info, x.Init))
		}
		out.kids = append(out.kids, e.exprTokens(info, x.Tag)...)
		ref := "?"
		if x.Tag != nil {
			if r, ok := e.refOf(info, x.Tag); ok {
				ref = r
			}
		}
		sw := &node{kind: "sw", text: ref}
		swSnap := e.snapshotKnown()
		defer func() {
			e.known = swSnap
			e.killAssigned(info, x.Body)
		}()
		type entry struct {
			label string
			order int64
			n     *node
		}
		var ents []entry
		allEmpty := true
		clauses := x.Body.List
		for i, cl := range clauses {
			cc := cl.(*ast.CaseClause)
			// body with fallthrough chain
			var stmts []ast.Stmt
			for j := i; j < len(clauses); j++ {
				b := clauses[j].(*ast.CaseClause).Body
				ft := false
				if len(b) > 0 {
					if br, ok := b[len(b)-1].(*ast.BranchStmt); ok && br.Tok == token.FALLTHROUGH {
						ft = true
						b = b[:len(b)-1]
					}
				}
				stmts = append(stmts, b...)
				if !ft {
					break
				}
			}
			if cc.List == nil {
				n := e.clauseBlock(info, swSnap, stmts)
				if e.errorExit(info, &ast.BlockStmt{List: stmts}) {
					continue // default: error
				}
				allEmpty = allEmpty && n.empty()
				ents = append(ents, entry{"d", 1 << 62, n})
				continue
			}
			for _, l := range cc.List {
				v, ok := core.IntConst(info, l)
				if !ok {
					if tv, has := info.Types[l]; has && tv.Value != nil && tv.Value.Kind() == constant.String {
						n := e.clauseBlock(info, swSnap, stmts)
						allEmpty = allEmpty && n.empty()
						ents = append(ents, entry{constant.StringVal(tv.Value), int64(len(ents)), n})
						continue
					}
					// boolean switch (switch { case cond: }) or non-constant label
					n := e.clauseBlock(info, swSnap, stmts)
					allEmpty = allEmpty && n.empty()
					ents = append(ents, entry{"?", int64(len(ents)), n})
					continue
				}
				var saveObj types.Object
				var saveVal *int64
				if id, ok := ast.Unparen(x.Tag).(*ast.Ident); ok {
					saveObj, saveVal = e.tagVar, e.tagVal
					vv := v
					e.tagVar, e.tagVal = info.Uses[id], &vv
				}
				if e.tagVar != nil {
					swSnap[e.tagVar] = v
				}
				n := e.clauseBlock(info, swSnap, stmts)
				if e.tagVar != nil {
					delete(swSnap, e.tagVar)
				}
				if saveObj != nil || saveVal != nil || e.tagVar != nil {
					e.tagVar, e.tagVal = saveObj, saveVal
				}
				if e.errorExit(info, &ast.BlockStmt{List: stmts}) && n.empty() {
					continue
				}
				allEmpty = allEmpty && n.empty()
				ents = append(ents, entry{fmt.Sprint(v), v, n})
			}
		}
		if allEmpty {
			return out
		}
		if e.S.ImplicitDefault {
			hasDefault := false
			for _, cl := range clauses {
				if cl.(*ast.CaseClause).List == nil {
					hasDefault = true
				}
			}
			if !hasDefault {
				ents = append(ents, entry{"d", 1 << 62, seq()})
			}
		}
		sort.SliceStable(ents, func(i, j int) bool { return ents[i].order < ents[j].order })
		for _, en := range ents {
			sw.label = append(sw.label, en.label)
			sw.kids = append(sw.kids, en.n)
		}
		if ref != "?" {
			// mark used
		}
		out.kids = append(out.kids, sw)
		return out
	}
	e.undec("%s: statement %T is outside the enumerated idioms", e.C.Pos(s.Pos()), s)
	return nil
}
