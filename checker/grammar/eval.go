package grammar

import (
	"go/ast"
	"go/constant"
	"go/token"
	"go/types"
	"sort"

	"rscheck/core"
	"rscheck/pat"
)

// Value-set mode. The wire grammar of a decoder that dispatches on the first
// byte it reads is a function of that byte. ByFirstByte computes this function
// as a partition of the 256 byte values: the extraction is repeated with the
// set of possible values of the first byte narrowed to one element, branch
// conditions that depend only on that byte (through constants, conversions,
// shifts, masks, single-assignment locals and the results of inlined helpers)
// are decided by constant folding, and the values with equal terms are merged
// into one row. Two decoders are equivalent on the wire exactly when their
// partitions are equal, whatever the order and nesting of their tests. Nothing
// of the analysed program is executed: reads stay tokens, only the finite tag
// domain is case-split.

type inlineFrame struct {
	fn     *core.Fn
	vals   []*int64 // values of the results at the return that was extracted
	rets   int
	broken bool
}

// ByFirstByte returns term -> sorted byte values, and the reasons why some
// extraction was undecided.
func ByFirstByte(c *core.Ctx, spec func() *Spec, fn *core.Fn) (map[string][]int, []string) {
	rows := map[string][]int{}
	var undec []string
	for v := 0; v < 256; v++ {
		e := New(c, spec())
		k := int64(v)
		e.first = &k
		t := e.FuncTerm(fn)
		if len(e.Undecided) > 0 && len(undec) == 0 {
			undec = e.Undecided
		}
		if !e.firstDone && len(undec) == 0 {
			undec = []string{"the function does not start by reading one byte into a variable"}
		}
		rows[t] = append(rows[t], v)
	}
	for _, vs := range rows {
		sort.Ints(vs)
	}
	return rows, undec
}

func (e *Extractor) snapshotKnown() map[types.Object]int64 { return e.copyKnown(e.known) }

func (e *Extractor) copyKnown(m map[types.Object]int64) map[types.Object]int64 {
	c := make(map[types.Object]int64, len(m))
	for k, v := range m {
		c[k] = v
	}
	return c
}

// killAssigned forgets every variable assigned under n.
func (e *Extractor) killAssigned(info *types.Info, n ast.Node) {
	if len(e.known) == 0 || n == nil {
		return
	}
	ast.Inspect(n, func(m ast.Node) bool {
		switch x := m.(type) {
		case *ast.AssignStmt:
			for _, l := range x.Lhs {
				if id, ok := ast.Unparen(l).(*ast.Ident); ok {
					delete(e.known, info.Uses[id])
					delete(e.known, info.Defs[id])
				}
			}
		case *ast.IncDecStmt:
			if id, ok := ast.Unparen(x.X).(*ast.Ident); ok {
				delete(e.known, info.Uses[id])
			}
		case *ast.ReturnStmt:
			// a return made from `r = e; break L` of a one-pass block assigns r
			if as := e.synthRet[x]; as != nil {
				for _, l := range as.Lhs {
					if id, ok := ast.Unparen(l).(*ast.Ident); ok {
						delete(e.known, info.Uses[id])
					}
				}
			}
		case *ast.RangeStmt:
			for _, k := range []ast.Expr{x.Key, x.Value} {
				if id, ok := k.(*ast.Ident); ok {
					delete(e.known, info.Uses[id])
					delete(e.known, info.Defs[id])
				}
			}
		}
		return true
	})
}

func (e *Extractor) updateKnown(info *types.Info, as *ast.AssignStmt) {
	objOf := func(l ast.Expr) types.Object {
		id, ok := ast.Unparen(l).(*ast.Ident)
		if !ok || id.Name == "_" {
			return nil
		}
		if o := info.Defs[id]; o != nil {
			return o
		}
		return info.Uses[id]
	}
	if as.Tok != token.ASSIGN && as.Tok != token.DEFINE {
		for _, l := range as.Lhs {
			if o := objOf(l); o != nil {
				delete(e.known, o)
			}
		}
		return
	}
	if len(as.Lhs) == len(as.Rhs) {
		vals := make([]*int64, len(as.Rhs))
		for i, r := range as.Rhs {
			if v, ok := e.eval(info, r); ok {
				vv := v
				vals[i] = &vv
			} else if t := info.TypeOf(as.Lhs[i]); t != nil && isErrType(t) {
				if v, ok := errValue(info, r, e.known); ok {
					vv := v
					vals[i] = &vv
				}
			}
		}
		for i, l := range as.Lhs {
			if o := objOf(l); o != nil {
				if vals[i] != nil {
					e.known[o] = *vals[i]
				} else {
					delete(e.known, o)
				}
			}
		}
		return
	}
	// `v, ok := table[k]` with a known key in a package-level table that is never
	// written: the entry (a function or method expression, a constant) and ok
	if len(as.Rhs) == 1 && len(as.Lhs) == 2 {
		if ix, isIx := ast.Unparen(as.Rhs[0]).(*ast.IndexExpr); isIx {
			if val, found, ok := e.tableLookup(info, ix); ok {
				if o := objOf(as.Lhs[0]); o != nil {
					delete(e.known, o)
					if found {
						if k, ok := e.eval(info, val); ok {
							e.known[o] = k
						}
					}
				}
				if o := objOf(as.Lhs[1]); o != nil {
					e.known[o] = 0
					if found {
						e.known[o] = 1
					}
				}
				return
			}
		}
	}
	// tuple from one call: the results of an inlined helper
	var fr *inlineFrame
	if len(as.Rhs) == 1 {
		if call, ok := ast.Unparen(as.Rhs[0]).(*ast.CallExpr); ok {
			fr = e.inlineVals[call]
		}
	}
	for i, l := range as.Lhs {
		o := objOf(l)
		if o == nil {
			continue
		}
		if fr != nil && !fr.broken && fr.rets == 1 && i < len(fr.vals) && fr.vals[i] != nil {
			e.known[o] = *fr.vals[i]
		} else {
			delete(e.known, o)
		}
	}
}

// recordReturn notes the values returned by the innermost inlined helper.
func (e *Extractor) recordReturn(info *types.Info, ret *ast.ReturnStmt) {
	if len(e.frames) == 0 {
		return
	}
	fr := e.frames[len(e.frames)-1]
	if fr.fn == nil {
		return // a one-pass labelled block, not a helper
	}
	fr.rets++
	sig := fr.fn.Obj.Type().(*types.Signature)
	n := sig.Results().Len()
	vals := make([]*int64, n)
	switch {
	case len(ret.Results) == n:
		for i, r := range ret.Results {
			if v, ok := e.eval(info, r); ok {
				vv := v
				vals[i] = &vv
			} else if isErrType(sig.Results().At(i).Type()) {
				if v, ok := errValue(info, r, e.known); ok {
					vv := v
					vals[i] = &vv
				} else if id, ok := ast.Unparen(r).(*ast.Ident); ok {
					if k, ok := e.known[info.Uses[id]]; ok {
						vv := k
						vals[i] = &vv
					}
				}
			}
		}
	case len(ret.Results) == 0 && fr.fn.Decl.Type.Results != nil:
		i := 0
		for _, fl := range fr.fn.Decl.Type.Results.List {
			for _, nm := range fl.Names {
				if o := info.Defs[nm]; o != nil && i < n {
					if v, ok := e.known[o]; ok {
						vv := v
						vals[i] = &vv
					}
				}
				i++
			}
		}
	case len(ret.Results) == 1:
		if call, ok := ast.Unparen(ret.Results[0]).(*ast.CallExpr); ok {
			if inner := e.inlineVals[call]; inner != nil && !inner.broken && inner.rets == 1 {
				copy(vals, inner.vals)
			}
		}
	}
	if fr.rets > 1 {
		fr.broken = true
	}
	fr.vals = vals
}

// zeroNamedResults: named integer/boolean results start at zero, a named error
// result at nil.
func (e *Extractor) zeroNamedResults(fn *core.Fn) {
	if fn.Decl.Type.Results == nil {
		return
	}
	info := fn.Pkg.TypesInfo
	for _, fl := range fn.Decl.Type.Results.List {
		for _, nm := range fl.Names {
			o := info.Defs[nm]
			if o == nil {
				continue
			}
			if b, ok := o.Type().Underlying().(*types.Basic); ok && b.Info()&(types.IsInteger|types.IsBoolean) != 0 {
				e.known[o] = 0
			} else if isErrType(o.Type()) {
				e.known[o] = 0
			}
		}
	}
}

func isErrType(t types.Type) bool {
	n, ok := t.(*types.Named)
	return ok && n.Obj().Pkg() == nil && n.Obj().Name() == "error"
}

// errValue: 1 when x certainly is a non-nil error (a call of an error
// constructor), 0 when it is nil.
func errValue(info *types.Info, x ast.Expr, known map[types.Object]int64) (int64, bool) {
	x = ast.Unparen(x)
	if core.IsNil(info, x) {
		return 0, true
	}
	if call, ok := x.(*ast.CallExpr); ok {
		if f := core.CalleeFunc(info, call); f != nil && f.Pkg() != nil {
			switch f.Pkg().Path() {
			case "fmt", "errors", core.Module + "/pkg/libs/errors":
				switch f.Name() {
				case "Errorf", "New", "Static":
					return 1, true
				case "Trace":
					// Trace(nil) is nil: the wrapper is what its argument is
					if len(call.Args) == 1 {
						if id, isId := ast.Unparen(call.Args[0]).(*ast.Ident); isId {
							// `errors.Trace(err)`: what err is known to be on this path
							if k, ok := known[info.Uses[id]]; ok {
								return k, true
							}
							return 0, false
						}
						return errValue(info, call.Args[0], known)
					}
				}
			}
		}
	}
	return 0, false
}

// finishFrame: a helper that falls off its end returns its named results.
func (e *Extractor) finishFrame(fr *inlineFrame) {
	if fr.rets != 0 || fr.fn.Decl.Type.Results == nil {
		return
	}
	info := fr.fn.Pkg.TypesInfo
	sig := fr.fn.Obj.Type().(*types.Signature)
	vals := make([]*int64, sig.Results().Len())
	i := 0
	for _, fl := range fr.fn.Decl.Type.Results.List {
		for _, nm := range fl.Names {
			if o := info.Defs[nm]; o != nil && i < len(vals) {
				if v, ok := e.known[o]; ok {
					vv := v
					vals[i] = &vv
				}
			}
			i++
		}
	}
	fr.vals, fr.rets = vals, 1
}

// knownSwitch selects the clause of a switch whose tag (or case conditions)
// can be decided from the known values.
func (e *Extractor) knownSwitch(info *types.Info, x *ast.SwitchStmt) ([]ast.Stmt, bool) {
	clauses := x.Body.List
	pick := -1
	def := -1
	if x.Tag != nil {
		tv, ok := e.eval(info, x.Tag)
		if !ok {
			return nil, false
		}
		for i, cl := range clauses {
			cc := cl.(*ast.CaseClause)
			if cc.List == nil {
				def = i
			}
			for _, l := range cc.List {
				lv, ok := e.eval(info, l)
				if !ok {
					return nil, false
				}
				if lv == tv && pick < 0 {
					pick = i
				}
			}
		}
	} else {
		for i, cl := range clauses {
			cc := cl.(*ast.CaseClause)
			if cc.List == nil {
				def = i
				continue
			}
			if pick >= 0 {
				continue
			}
			for _, l := range cc.List {
				bv, ok := e.evalBool(info, l)
				if !ok {
					return nil, false
				}
				if bv {
					pick = i
					break
				}
			}
		}
	}
	if pick < 0 {
		pick = def
	}
	if pick < 0 {
		return nil, true
	}
	var stmts []ast.Stmt
	for j := pick; j < len(clauses); j++ {
		b := clauses[j].(*ast.CaseClause).Body
		ft := false
		if len(b) > 0 {
			if br, ok := b[len(b)-1].(*ast.BranchStmt); ok && br.Tok == token.FALLTHROUGH {
				ft = true
				b = b[:len(b)-1]
			}
		}
		stmts = append(stmts, b...)
		if !ft {
			break
		}
	}
	// a `break` inside the chosen clause only leaves the switch
	out := make([]ast.Stmt, 0, len(stmts))
	for _, st := range stmts {
		if br, ok := st.(*ast.BranchStmt); ok && br.Tok == token.BREAK && br.Label == nil {
			break
		}
		out = append(out, st)
	}
	return out, true
}

// eval folds an integer or boolean expression over constants and known values.
func (e *Extractor) eval(info *types.Info, x ast.Expr) (int64, bool) {
	return e.evalDepth(info, x, 0)
}

func (e *Extractor) evalBool(info *types.Info, x ast.Expr) (bool, bool) {
	v, ok := e.evalDepth(info, x, 0)
	return v != 0, ok
}

func truncate(t types.Type, v int64) int64 {
	b, ok := t.Underlying().(*types.Basic)
	if !ok {
		return v
	}
	switch b.Kind() {
	case types.Uint8:
		return int64(uint8(v))
	case types.Int8:
		return int64(int8(v))
	case types.Uint16:
		return int64(uint16(v))
	case types.Int16:
		return int64(int16(v))
	case types.Uint32:
		return int64(uint32(v))
	case types.Int32:
		return int64(int32(v))
	}
	return v
}

func (e *Extractor) evalDepth(info *types.Info, x ast.Expr, depth int) (int64, bool) {
	if x == nil || depth > 12 {
		return 0, false
	}
	x = ast.Unparen(x)
	if tv, ok := info.Types[x]; ok && tv.Value != nil {
		switch tv.Value.Kind() {
		case constant.Bool:
			if constant.BoolVal(tv.Value) {
				return 1, true
			}
			return 0, true
		case constant.Int:
			if v, exact := constant.Int64Val(tv.Value); exact {
				return v, true
			}
		}
		return 0, false
	}
	switch v := x.(type) {
	case *ast.SelectorExpr:
		// a method value `r.ReadFloat` (not a call): a known function value; likewise
		// a method expression `(*T).ReadFloat` and a package-qualified function
		if s, ok := info.Selections[v]; ok && (s.Kind() == types.MethodVal || s.Kind() == types.MethodExpr) {
			if f, isF := s.Obj().(*types.Func); isF {
				return e.fnValue(f), true
			}
		}
		if f, isF := info.Uses[v.Sel].(*types.Func); isF {
			return e.fnValue(f), true
		}
	case *ast.IndexExpr:
		if val, found, ok := e.tableLookup(info, v); ok && found {
			return e.evalDepth(info, val, depth+1)
		}
	case *ast.Ident:
		o := info.Uses[v]
		if f, isF := o.(*types.Func); isF {
			return e.fnValue(f), true
		}
		if k, ok := e.known[o]; ok {
			return k, true
		}
		if k, ok := e.consts[o]; ok {
			return k, true
		}
		if d := pat.DefOf(info, v); d != nil {
			return e.evalDepth(info, d, depth+1)
		}
	case *ast.CallExpr:
		if tv, ok := info.Types[v.Fun]; ok && tv.IsType() && len(v.Args) == 1 {
			if k, ok := e.evalDepth(info, v.Args[0], depth+1); ok {
				return truncate(tv.Type, k), true
			}
			return 0, false
		}
		if k, ok := e.evalCall(info, v, depth); ok {
			return k, true
		}
	case *ast.UnaryExpr:
		k, ok := e.evalDepth(info, v.X, depth+1)
		if !ok {
			return 0, false
		}
		switch v.Op {
		case token.NOT:
			if k == 0 {
				return 1, true
			}
			return 0, true
		case token.SUB:
			return -k, true
		case token.ADD:
			return k, true
		case token.XOR:
			return truncate(info.TypeOf(v), ^k), true
		}
	case *ast.BinaryExpr:
		// short-circuit operators may be decided by one side
		if v.Op == token.LAND || v.Op == token.LOR {
			a, oka := e.evalDepth(info, v.X, depth+1)
			b, okb := e.evalDepth(info, v.Y, depth+1)
			if v.Op == token.LAND {
				if oka && a == 0 || okb && b == 0 {
					return 0, true
				}
				if oka && okb {
					return 1, true
				}
			} else {
				if oka && a != 0 || okb && b != 0 {
					return 1, true
				}
				if oka && okb {
					return 0, true
				}
			}
			return 0, false
		}
		if v.Op == token.EQL || v.Op == token.NEQ {
			// error variable against nil
			for _, p := range [][2]ast.Expr{{v.X, v.Y}, {v.Y, v.X}} {
				if core.IsNil(info, p[1]) {
					if id, ok := ast.Unparen(p[0]).(*ast.Ident); ok {
						if k, ok := e.known[info.Uses[id]]; ok {
							if (k == 0) == (v.Op == token.EQL) {
								return 1, true
							}
							return 0, true
						}
					}
					return 0, false
				}
			}
		}
		a, oka := e.evalDepth(info, v.X, depth+1)
		b, okb := e.evalDepth(info, v.Y, depth+1)
		if !oka || !okb {
			return 0, false
		}
		bo := func(c bool) (int64, bool) {
			if c {
				return 1, true
			}
			return 0, true
		}
		t := info.TypeOf(v)
		switch v.Op {
		case token.ADD:
			return truncate(t, a+b), true
		case token.SUB:
			return truncate(t, a-b), true
		case token.MUL:
			return truncate(t, a*b), true
		case token.QUO:
			if b != 0 {
				return a / b, true
			}
		case token.REM:
			if b != 0 {
				return a % b, true
			}
		case token.AND:
			return a & b, true
		case token.OR:
			return a | b, true
		case token.XOR:
			return a ^ b, true
		case token.AND_NOT:
			return a &^ b, true
		case token.SHL:
			if b >= 0 && b < 63 {
				return truncate(t, a<<uint(b)), true
			}
		case token.SHR:
			if b >= 0 && b < 64 {
				return a >> uint(b), true
			}
		case token.EQL:
			return bo(a == b)
		case token.NEQ:
			return bo(a != b)
		case token.LSS:
			return bo(a < b)
		case token.LEQ:
			return bo(a <= b)
		case token.GTR:
			return bo(a > b)
		case token.GEQ:
			return bo(a >= b)
		}
	}
	return 0, false
}
