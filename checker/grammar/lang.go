package grammar

import (
	"go/ast"
	"go/token"
	"go/types"
	"sort"
	"strings"

	"rscheck/core"
)

// Assume gives variable o (typically a parameter of the function about to be
// extracted) the known value v: tests of it — switch, if-chain, tagless
// switch, through single-assignment locals and parameters of inlined helpers —
// are then decided by constant folding, exactly as for the first byte in
// ByFirstByte. Call before FuncTerm.
func (e *Extractor) Assume(o types.Object, v int64) {
	if o != nil {
		e.known[o] = v
	}
}

// strictLit: a function literal that touches the stream makes the extraction
// undecided (Spec.StrictLits).
func (e *Extractor) strictLit(info *types.Info, lit *ast.FuncLit) {
	if e.deadLit(info, lit) {
		return
	}
	hit := false
	ast.Inspect(lit.Body, func(n ast.Node) bool {
		c, ok := n.(*ast.CallExpr)
		if !ok || hit {
			return !hit
		}
		if f := core.CalleeFunc(info, c); f != nil {
			name := core.FuncName(f)
			if _, ok := e.S.Prims[name]; ok {
				hit = true
			}
			if _, ok := e.S.BufPrims[name]; ok {
				hit = true
			}
			if _, ok := e.S.IfacePrims[f.Name()]; ok {
				if sig, ok := f.Type().(*types.Signature); ok && sig.Recv() != nil {
					if _, isIface := sig.Recv().Type().Underlying().(*types.Interface); isIface {
						hit = true
					}
				}
			}
			if e.S.Classify != nil {
				if _, ok := e.S.Classify(info, c, f); ok {
					hit = true
				}
			}
		}
		if e.S.Carrier != nil && !hit {
			for _, a := range c.Args {
				if t := info.TypeOf(a); t != nil && e.S.Carrier(t) {
					hit = true
				}
			}
			if sel, ok := c.Fun.(*ast.SelectorExpr); ok {
				if s, ok := info.Selections[sel]; ok && s.Kind() == types.MethodVal {
					if t := info.TypeOf(sel.X); t != nil && e.S.Carrier(t) {
						hit = true
					}
				}
			}
		}
		return !hit
	})
	if hit {
		e.undec("%s: the stream is used inside a function literal", e.C.Pos(lit.Pos()))
	}
}

// Language expands a rendered term into the set of token sequences of its
// successful paths, so that two terms can be compared independently of how
// their branches are spelled (if/else, guard clause, tagless switch, which arm
// comes first). Alt and Sw@? become unions; a Ret ends the path it is on; a
// loop is one symbol `Star{l1|l2|...}` (Loop@x{...} likewise, the bound kept)
// whose inner language is expanded and sorted; Brk stays a marker inside its
// loop. Binding names are kept as rendered (apply Canon first). ok is false
// when the term cannot be parsed, contains a switch over a bound value (whose
// labels carry meaning) or expands to more than 256 paths.
func Language(term string) ([]string, bool) {
	p := &langParser{s: term}
	alts, ok := p.seq(0)
	if !ok || p.i < len(p.s) {
		return nil, false
	}
	set := map[string]bool{}
	for _, a := range alts {
		set[strings.Join(a.toks, " ")] = true
	}
	var out []string
	for s := range set {
		out = append(out, s)
	}
	sort.Strings(out)
	return out, true
}

type langPath struct {
	toks []string
	done bool   // the path ended here: nothing that follows in the sequence belongs to it
	end  string // how: "Ret" (leaves the function), "Brk" (leaves the loop), "Cont" (next iteration)
}

type langParser struct {
	s string
	i int
}

const langMax = 256

// seq parses items until end of input or an unmatched '}' / '|' at this level.
func (p *langParser) seq(depth int) ([]langPath, bool) {
	cur := []langPath{{}}
	for {
		for p.i < len(p.s) && p.s[p.i] == ' ' {
			p.i++
		}
		if p.i >= len(p.s) || p.s[p.i] == '}' || p.s[p.i] == '|' {
			return cur, true
		}
		item, ok := p.item(depth)
		if !ok {
			return nil, false
		}
		var next []langPath
		for _, c := range cur {
			if c.done {
				next = append(next, c)
				continue
			}
			for _, it := range item {
				n := langPath{toks: append(append([]string{}, c.toks...), it.toks...), done: it.done, end: it.end}
				next = append(next, n)
			}
		}
		if len(next) > langMax {
			return nil, false
		}
		cur = next
	}
}

// head reads a token head up to (not including) a space, '{', '|' or '}' at
// bracket depth 0 of (...) and [...].
func (p *langParser) head() string {
	st := p.i
	par := 0
	for p.i < len(p.s) {
		ch := p.s[p.i]
		switch ch {
		case '(', '[':
			par++
		case ')', ']':
			par--
		}
		if par == 0 && (ch == ' ' || ch == '{' || ch == '|' || ch == '}') {
			break
		}
		p.i++
	}
	return p.s[st:p.i]
}

func (p *langParser) item(depth int) ([]langPath, bool) {
	h := p.head()
	if h == "" {
		return nil, false
	}
	if p.i >= len(p.s) || p.s[p.i] != '{' {
		if h == "Ret" || h == "Brk" || h == "Cont" {
			return []langPath{{done: true, end: h}}, true
		}
		return []langPath{{toks: []string{h}}}, true
	}
	p.i++ // '{'
	var branches [][]langPath
	for {
		if strings.HasPrefix(h, "Sw@") {
			// label up to ':'
			for p.i < len(p.s) && p.s[p.i] != ':' && p.s[p.i] != '}' {
				p.i++
			}
			if p.i < len(p.s) && p.s[p.i] == ':' {
				p.i++
			}
		}
		b, ok := p.seq(depth + 1)
		if !ok {
			return nil, false
		}
		branches = append(branches, b)
		if p.i >= len(p.s) {
			return nil, false
		}
		if p.s[p.i] == '|' {
			p.i++
			continue
		}
		p.i++ // '}'
		break
	}
	switch {
	case strings.HasPrefix(h, "Alt["), h == "Sw@?":
		var out []langPath
		for _, b := range branches {
			out = append(out, b...)
		}
		return out, true
	case strings.HasPrefix(h, "Sw@"):
		return nil, false
	case h == "Star" || strings.HasPrefix(h, "Loop@"):
		if len(branches) != 1 {
			return nil, false
		}
		set := map[string]bool{}
		for _, a := range branches[0] {
			s := strings.Join(a.toks, " ")
			if a.done && a.end != "Cont" {
				// leaving the loop or the function from inside is part of what the loop
				// does; ending the iteration early is just the end of that path
				s = strings.TrimSpace(s + " " + a.end)
			}
			set[s] = true
		}
		var inner []string
		for s := range set {
			inner = append(inner, s)
		}
		sort.Strings(inner)
		// the loop as a whole is one symbol after which the sequence goes on (a
		// return from inside it is recorded in the symbol)
		return []langPath{{toks: []string{h + "{" + strings.Join(inner, "|") + "}"}}}, true
	}
	return nil, false
}

// knownArg: the argument is (a conversion of) a variable with an assumed value.
func (e *Extractor) knownArg(info *types.Info, x ast.Expr) (int64, bool) {
	x = ast.Unparen(x)
	if call, ok := x.(*ast.CallExpr); ok && len(call.Args) == 1 {
		if tv, has := info.Types[call.Fun]; has && tv.IsType() {
			if k, ok := e.knownArg(info, call.Args[0]); ok {
				return truncate(tv.Type, k), true
			}
		}
		return 0, false
	}
	if id, ok := x.(*ast.Ident); ok {
		if k, ok := e.known[info.Uses[id]]; ok {
			return k, true
		}
	}
	return 0, false
}

// evalCall folds a call of an inlinable predicate/selector helper whose body
// only tests and returns (`return x == K`, guard clauses, a switch): the
// parameters take the values of the arguments that are known, the body is
// walked along the decided branches to the return it reaches.
func (e *Extractor) evalCall(info *types.Info, call *ast.CallExpr, depth int) (int64, bool) {
	if depth > 8 || e.S.Inline == nil || call.Ellipsis.IsValid() {
		return 0, false
	}
	f := core.CalleeFunc(info, call)
	if f == nil || !e.S.Inline(f) {
		return 0, false
	}
	sig, _ := f.Type().(*types.Signature)
	if sig == nil || sig.Results().Len() != 1 || sig.Variadic() {
		return 0, false
	}
	fn := e.C.FnOf(f)
	if fn == nil || fn.Decl.Body == nil {
		return 0, false
	}
	hi := fn.Pkg.TypesInfo
	type saved struct {
		o   types.Object
		v   int64
		had bool
	}
	var save []saved
	i := 0
	for _, fl := range fn.Decl.Type.Params.List {
		for _, nm := range fl.Names {
			if i >= len(call.Args) {
				break
			}
			arg := call.Args[i]
			i++
			po := hi.Defs[nm]
			if po == nil {
				continue
			}
			old, had := e.consts[po]
			save = append(save, saved{po, old, had})
			if k, ok := e.evalDepth(info, arg, depth+1); ok {
				e.consts[po] = k
			} else {
				delete(e.consts, po)
			}
		}
	}
	defer func() {
		for _, s := range save {
			if s.had {
				e.consts[s.o] = s.v
			} else {
				delete(e.consts, s.o)
			}
		}
	}()
	return e.evalBody(hi, fn.Decl.Body.List, depth+1)
}

// evalBody: the value returned by a body made of returns, decided ifs and
// decided switches only.
func (e *Extractor) evalBody(info *types.Info, stmts []ast.Stmt, depth int) (int64, bool) {
	for _, st := range stmts {
		switch x := st.(type) {
		case *ast.ReturnStmt:
			if len(x.Results) != 1 {
				return 0, false
			}
			return e.evalDepth(info, x.Results[0], depth)
		case *ast.IfStmt:
			if x.Init != nil {
				return 0, false
			}
			c, ok := e.evalDepth(info, x.Cond, depth)
			if !ok {
				return 0, false
			}
			var branch []ast.Stmt
			if c != 0 {
				branch = x.Body.List
			} else {
				switch el := x.Else.(type) {
				case *ast.BlockStmt:
					branch = el.List
				case *ast.IfStmt:
					branch = []ast.Stmt{el}
				case nil:
					continue
				}
			}
			return e.evalBody(info, branch, depth)
		case *ast.SwitchStmt:
			if x.Init != nil {
				return 0, false
			}
			body, ok := e.knownSwitch(info, x)
			if !ok {
				return 0, false
			}
			if len(body) == 0 {
				continue
			}
			return e.evalBody(info, body, depth)
		case *ast.BlockStmt:
			return e.evalBody(info, x.List, depth)
		default:
			return 0, false
		}
	}
	return 0, false
}

// deadLit: the literal is only stored in a local variable that is never used
// except in blank assignments `_ = v` (what is left of a closure after all its
// calls were expanded in place).
func (e *Extractor) deadLit(info *types.Info, lit *ast.FuncLit) bool {
	var file *ast.File
	for _, pk := range e.C.Program.Pkgs {
		if pk.TypesInfo == info {
			file = e.C.Program.FileOf(pk, lit.Pos())
		}
	}
	if file == nil {
		return false
	}
	var obj types.Object
	blank := map[*ast.Ident]bool{}
	ast.Inspect(file, func(n ast.Node) bool {
		switch x := n.(type) {
		case *ast.AssignStmt:
			if len(x.Lhs) == len(x.Rhs) {
				for i, r := range x.Rhs {
					if ast.Unparen(r) == ast.Expr(lit) {
						if id, ok := x.Lhs[i].(*ast.Ident); ok && id.Name != "_" {
							if obj = info.Defs[id]; obj == nil {
								obj = info.Uses[id]
							}
						}
					}
					if l, ok := x.Lhs[i].(*ast.Ident); ok && l.Name == "_" {
						if id, ok := ast.Unparen(r).(*ast.Ident); ok {
							blank[id] = true
						}
					}
				}
			}
		case *ast.ValueSpec:
			if len(x.Names) == len(x.Values) {
				for i, r := range x.Values {
					if ast.Unparen(r) == ast.Expr(lit) && x.Names[i].Name != "_" {
						obj = info.Defs[x.Names[i]]
					}
				}
			}
		}
		return true
	})
	if obj == nil {
		return false
	}
	if v, ok := obj.(*types.Var); !ok || v.Parent() == nil || v.Pkg() == nil || v.Parent() == v.Pkg().Scope() {
		return false
	}
	dead := true
	ast.Inspect(file, func(n ast.Node) bool {
		if id, ok := n.(*ast.Ident); ok && info.Uses[id] == obj && !blank[id] {
			dead = false
		}
		return dead
	})
	return dead
}

// streamFreeTable: the function-typed local v is defined once, by a lookup
// `v := table[k]` / `v, ok := table[k]` in a package-level map, slice or array
// that is initialised with a composite literal and never written elsewhere in
// its package, and no entry of the table can touch the stream: entries are
// function literals at package level (they capture no local) that neither call
// a primitive/inlinable helper nor take or mention a carrier, or declared
// functions without carrier parameters. (Table-driven dispatch of pure
// per-element conversions.)
func (e *Extractor) streamFreeTable(info *types.Info, v *types.Var) bool {
	var pkgSyntax []*ast.File
	for _, pk := range e.C.Program.Pkgs {
		if pk.TypesInfo == info {
			pkgSyntax = pk.Syntax
		}
	}
	if pkgSyntax == nil {
		return false
	}
	// the single definition of v
	var idx *ast.IndexExpr
	defs := 0
	for _, f := range pkgSyntax {
		if f.Pos() > v.Pos() || v.Pos() >= f.End() {
			continue
		}
		ast.Inspect(f, func(n ast.Node) bool {
			as, ok := n.(*ast.AssignStmt)
			if !ok {
				return true
			}
			for i, l := range as.Lhs {
				id, ok := ast.Unparen(l).(*ast.Ident)
				if !ok || (info.Defs[id] != v && info.Uses[id] != v) {
					continue
				}
				defs++
				if i == 0 && len(as.Rhs) == 1 {
					idx, _ = ast.Unparen(as.Rhs[0]).(*ast.IndexExpr)
				}
			}
			return true
		})
	}
	if defs != 1 || idx == nil {
		return false
	}
	tid, ok := ast.Unparen(idx.X).(*ast.Ident)
	if !ok {
		return false
	}
	table, ok := info.Uses[tid].(*types.Var)
	if !ok || table.Pkg() == nil || table.Parent() != table.Pkg().Scope() {
		return false
	}
	lit := e.tableLiteral(info, table)
	if lit == nil || len(lit.Elts) == 0 {
		return false
	}
	noCarrier := func(sig *types.Signature) bool {
		if e.S.Carrier == nil {
			return true
		}
		for i := 0; i < sig.Params().Len(); i++ {
			if e.S.Carrier(sig.Params().At(i).Type()) {
				return false
			}
		}
		return true
	}
	for _, el := range lit.Elts {
		val := el
		if kv, ok := el.(*ast.KeyValueExpr); ok {
			val = kv.Value
		}
		switch x := ast.Unparen(val).(type) {
		case *ast.FuncLit:
			sig, _ := info.TypeOf(x).(*types.Signature)
			if sig == nil || !noCarrier(sig) {
				return false
			}
			before := len(e.Undecided)
			saveStrict := e.S.StrictLits
			e.S.StrictLits = true
			e.strictLit(info, x)
			e.S.StrictLits = saveStrict
			if len(e.Undecided) != before {
				e.Undecided = e.Undecided[:before]
				return false
			}
		case *ast.Ident:
			f, ok := info.Uses[x].(*types.Func)
			if !ok {
				return false
			}
			sig := f.Type().(*types.Signature)
			if sig.Recv() != nil || !noCarrier(sig) || e.S.Inline != nil && e.S.Inline(f) && e.funcTouchesStream(f) {
				return false
			}
		default:
			return false
		}
	}
	return true
}

// funcTouchesStream: the declared function's body calls a primitive, an
// inlinable helper or hands a carrier to something.
func (e *Extractor) funcTouchesStream(f *types.Func) bool {
	fn := e.C.FnOf(f)
	if fn == nil || fn.Decl.Body == nil {
		return true
	}
	lit := &ast.FuncLit{Type: fn.Decl.Type, Body: fn.Decl.Body}
	before := len(e.Undecided)
	e.strictLitForce(fn.Pkg.TypesInfo, lit)
	hit := len(e.Undecided) != before
	e.Undecided = e.Undecided[:before]
	return hit
}

func (e *Extractor) strictLitForce(info *types.Info, lit *ast.FuncLit) {
	// strictLit consults deadLit first, which needs a literal that exists in a file;
	// a synthetic literal is simply not dead
	e.strictLit(info, lit)
}

// tableLiteral returns the composite literal a package-level map, slice or
// array variable is initialised with, provided nothing in its package writes
// the variable, an element of it, takes its address or deletes from it.
func (e *Extractor) tableLiteral(info *types.Info, table *types.Var) *ast.CompositeLit {
	if table.Pkg() == nil || table.Parent() != table.Pkg().Scope() {
		return nil
	}
	var pkgSyntax []*ast.File
	for _, pk := range e.C.Program.Pkgs {
		if pk.TypesInfo == info {
			pkgSyntax = pk.Syntax
		}
	}
	var lit *ast.CompositeLit
	written := false
	for _, f := range pkgSyntax {
		ast.Inspect(f, func(n ast.Node) bool {
			switch x := n.(type) {
			case *ast.ValueSpec:
				for i, nm := range x.Names {
					if info.Defs[nm] == table && len(x.Values) == len(x.Names) {
						lit, _ = ast.Unparen(x.Values[i]).(*ast.CompositeLit)
					}
				}
			case *ast.AssignStmt:
				for _, l := range x.Lhs {
					base := ast.Unparen(l)
					if ix, ok := base.(*ast.IndexExpr); ok {
						base = ast.Unparen(ix.X)
					}
					if id, ok := base.(*ast.Ident); ok && info.Uses[id] == table {
						written = true
					}
				}
			case *ast.UnaryExpr:
				if id, ok := ast.Unparen(x.X).(*ast.Ident); ok && x.Op == token.AND && info.Uses[id] == table {
					written = true
				}
			case *ast.CallExpr:
				if b, ok := core.Callee(info, x).(*types.Builtin); ok && b.Name() == "delete" && len(x.Args) > 0 {
					if id, ok := ast.Unparen(x.Args[0]).(*ast.Ident); ok && info.Uses[id] == table {
						written = true
					}
				}
			}
			return !written
		})
	}
	if written {
		return nil
	}
	return lit
}

// tableLookup evaluates `table[k]` for a key whose value is known: the element
// expression and whether the key is present. ok is false when the table is not
// a constant package-level table or the key is not known.
func (e *Extractor) tableLookup(info *types.Info, ix *ast.IndexExpr) (val ast.Expr, found bool, ok bool) {
	tid, isId := ast.Unparen(ix.X).(*ast.Ident)
	if !isId {
		return nil, false, false
	}
	table, isVar := info.Uses[tid].(*types.Var)
	if !isVar {
		return nil, false, false
	}
	k, known := e.evalDepth(info, ix.Index, 1)
	if !known {
		return nil, false, false
	}
	lit := e.tableLiteral(info, table)
	if lit == nil {
		return nil, false, false
	}
	_, isMap := info.TypeOf(lit).Underlying().(*types.Map)
	pos := int64(0)
	for _, el := range lit.Elts {
		kv, isKV := el.(*ast.KeyValueExpr)
		if !isKV {
			if isMap {
				return nil, false, false
			}
			if pos == k {
				return el, true, true
			}
			pos++
			continue
		}
		kk, isConst := core.IntConst(info, kv.Key)
		if !isConst {
			return nil, false, false
		}
		if kk == k {
			return kv.Value, true, true
		}
		pos = kk + 1
	}
	return nil, false, true
}
