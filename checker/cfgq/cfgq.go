// Package cfgq is engine E2 of DESIGN.md: path queries over the go/cfg
// control-flow graph of one function body.
package cfgq

import (
	"fmt"
	"go/ast"
	"go/token"
	"go/types"

	"golang.org/x/tools/go/cfg"

	"rscheck/core"
	"rscheck/pat"
)

// ---------------------------------------------------------------------------
// no-return functions (fixpoint over the module)

// NoReturn is the set of functions none of whose paths returns normally.
type NoReturn struct {
	set map[*types.Func]bool
}

func seedNoReturn(f *types.Func) bool {
	if f == nil || f.Pkg() == nil {
		return false
	}
	switch f.Pkg().Path() {
	case "os":
		return f.Name() == "Exit"
	case "log":
		switch f.Name() {
		case "Fatal", "Fatalf", "Fatalln", "Panic", "Panicf", "Panicln":
			return true
		}
	case "runtime":
		return f.Name() == "Goexit"
	}
	return false
}

// Is reports whether the call never returns.
func (nr *NoReturn) Is(info *types.Info, call *ast.CallExpr) bool {
	switch o := core.Callee(info, call).(type) {
	case *types.Builtin:
		return o.Name() == "panic"
	case *types.Func:
		if seedNoReturn(o) {
			return true
		}
		return nr != nil && nr.set[o.Origin()]
	}
	return false
}

// Has reports whether f is in the set.
func (nr *NoReturn) Has(f *types.Func) bool { return seedNoReturn(f) || nr.set[f] }

// ComputeNoReturn finds all module functions without a normal exit.
func ComputeNoReturn(p *core.Program) *NoReturn {
	nr := &NoReturn{set: map[*types.Func]bool{}}
	type item struct {
		obj  *types.Func
		body *ast.BlockStmt
		info *types.Info
	}
	var items []item
	for _, pk := range p.Pkgs {
		if pk.TypesInfo == nil {
			continue
		}
		for _, f := range pk.Syntax {
			for _, d := range f.Decls {
				fd, ok := d.(*ast.FuncDecl)
				if !ok || fd.Body == nil {
					continue
				}
				obj, _ := pk.TypesInfo.Defs[fd.Name].(*types.Func)
				if obj != nil {
					items = append(items, item{obj, fd.Body, pk.TypesInfo})
				}
			}
		}
	}
	for changed := true; changed; {
		changed = false
		for _, it := range items {
			if nr.set[it.obj] {
				continue
			}
			g := cfg.New(it.body, func(c *ast.CallExpr) bool { return !nr.Is(it.info, c) })
			normal := false
			for _, b := range g.Blocks {
				if b.Live && len(b.Succs) == 0 && !endsInNoReturn(b, it.info, nr) {
					normal = true
					break
				}
			}
			if !normal {
				nr.set[it.obj] = true
				changed = true
			}
		}
	}
	return nr
}

func endsInNoReturn(b *cfg.Block, info *types.Info, nr *NoReturn) bool {
	if len(b.Nodes) == 0 {
		return false
	}
	es, ok := b.Nodes[len(b.Nodes)-1].(*ast.ExprStmt)
	if !ok {
		return false
	}
	call, ok := es.X.(*ast.CallExpr)
	return ok && nr.Is(info, call)
}

// ---------------------------------------------------------------------------
// graph

// Graph is the CFG of one function body with helper indexes.
type Graph struct {
	CFG  *cfg.CFG
	Info *types.Info
	Fset *token.FileSet
	Body *ast.BlockStmt
	NR   *NoReturn

	switches map[*ast.CaseClause]*ast.SwitchStmt
	flagVars map[*types.Var]bool
	Prog     *core.Program // set by Of/OfLit: enables predicate-helper expansion in EdgeFacts
}

// Point is a position in the graph: node I of block B. I == len(B.Nodes)
// denotes the end of the block.
type Point struct {
	B *cfg.Block
	I int
}

// Node returns the cfg node at p (nil at block end).
func (p Point) Node() ast.Node {
	if p.B == nil || p.I >= len(p.B.Nodes) {
		return nil
	}
	return p.B.Nodes[p.I]
}

// New builds the graph for a body.
func New(fset *token.FileSet, info *types.Info, body *ast.BlockStmt, nr *NoReturn) *Graph {
	g := &Graph{Info: info, Fset: fset, Body: body, NR: nr}
	g.CFG = cfg.New(body, func(c *ast.CallExpr) bool { return !nr.Is(info, c) })
	return g
}

// Entry is the first point of the function.
func (g *Graph) Entry() Point { return Point{g.CFG.Blocks[0], 0} }

// Find returns the cfg node that contains n (the innermost containing node;
// nested function literals are not part of this graph).
func (g *Graph) Find(n ast.Node) (Point, bool) {
	var best Point
	found := false
	var bestLen token.Pos
	for _, b := range g.CFG.Blocks {
		for i, m := range b.Nodes {
			if m.Pos() <= n.Pos() && n.End() <= m.End() {
				l := m.End() - m.Pos()
				if !found || l < bestLen {
					best, found, bestLen = Point{b, i}, true, l
				}
			}
		}
	}
	if !found {
		return best, false
	}
	// reject if n lies inside a nested function literal of the found node
	inLit := false
	ast.Inspect(best.Node(), func(m ast.Node) bool {
		if fl, ok := m.(*ast.FuncLit); ok {
			if fl.Pos() <= n.Pos() && n.End() <= fl.End() && ast.Node(fl) != n {
				inLit = true
			}
			return false
		}
		return true
	})
	if inLit {
		return best, false
	}
	return best, true
}

// Points returns all live points whose node satisfies pred, in block order.
func (g *Graph) Points(pred func(ast.Node) bool) []Point {
	var out []Point
	for _, b := range g.CFG.Blocks {
		if !b.Live {
			continue
		}
		for i, m := range b.Nodes {
			if pred(m) {
				out = append(out, Point{b, i})
			}
		}
	}
	return out
}

// ExitKind classifies a block without successors.
type ExitKind int

const (
	NotExit   ExitKind = iota
	ExitRet            // explicit return statement
	ExitFall           // falls off the end of the body
	ExitAbort          // ends in a no-return call
)

// Exit classifies block b.
func (g *Graph) Exit(b *cfg.Block) ExitKind {
	if len(b.Succs) != 0 || !b.Live {
		return NotExit
	}
	if len(b.Nodes) > 0 {
		switch last := b.Nodes[len(b.Nodes)-1].(type) {
		case *ast.ReturnStmt:
			return ExitRet
		case *ast.ExprStmt:
			if c, ok := last.X.(*ast.CallExpr); ok && g.NR.Is(g.Info, c) {
				return ExitAbort
			}
		}
	}
	return ExitFall
}

// Query describes a path search. The search starts at From (inclusive unless
// After is set). A path is cut when it meets a node satisfying Avoid or an
// edge satisfying AvoidEdge. It succeeds when it meets a node satisfying
// Target (tested before Avoid on each node other than the start node when
// After is set) or leaves through an exit accepted by TargetExit.
type Query struct {
	From       Point
	After      bool
	Avoid      func(n ast.Node) bool
	AvoidEdge  func(b *cfg.Block, succ int) bool
	Target     func(n ast.Node) bool
	TargetExit func(b *cfg.Block, k ExitKind) bool
	// Assume lists facts taken as true at From (see flags.go): edges that
	// contradict them, alone or together with what the path establishes, are
	// not followed.
	Assume []Fact
	// Via, when set, arms the query only once the path has entered a block it
	// accepts: before that, Target, Avoid and TargetExit are not consulted (the
	// path only accumulates what its branches establish).
	Via func(b *cfg.Block) bool
}

// Path runs the query and returns a witness (list of rendered nodes) or nil
// when no such path exists.
func (g *Graph) Path(q Query) []string {
	type state struct {
		b    *cfg.Block
		prev *state
		from int
		env  flagEnv
		via  bool
	}
	start := q.From
	if start.B == nil {
		start = g.Entry()
	}
	type vkey struct {
		b   *cfg.Block
		env string
		via bool
	}
	visited := map[vkey]bool{}
	perBlock := map[*cfg.Block]int{}
	var witness func(s *state, last ast.Node, exit string) []string
	witness = func(s *state, last ast.Node, exit string) []string {
		var chain []*state
		for x := s; x != nil; x = x.prev {
			chain = append([]*state{x}, chain...)
		}
		var out []string
		for _, x := range chain {
			desc := fmt.Sprintf("block %d (%s)", x.b.Index, x.b.Kind)
			if len(x.b.Nodes) > 0 {
				i := x.from
				if i < len(x.b.Nodes) {
					desc += " " + g.where(x.b.Nodes[i]) + " " + core.NodeString(g.Fset, x.b.Nodes[i])
				}
			}
			out = append(out, desc)
		}
		if last != nil {
			out = append(out, "reaches "+g.where(last)+" "+core.NodeString(g.Fset, last))
		}
		if exit != "" {
			out = append(out, exit)
		}
		return out
	}
	var queue []*state
	var seed flagEnv
	for _, f := range q.Assume {
		seed = g.assume(f.Expr, f.Val, seed)
	}
	first := &state{b: start.B, from: start.I, env: seed, via: q.Via == nil || q.Via(start.B)}
	queue = append(queue, first)
	firstVisit := true
	for len(queue) > 0 {
		s := queue[0]
		queue = queue[1:]
		i := s.from
		cut := false
		env := s.env
		for ; i < len(s.b.Nodes); i++ {
			n := s.b.Nodes[i]
			isStart := firstVisit && i == start.I
			if isStart && q.After {
				env = g.transfer(n, env)
				continue
			}
			if s.via && q.Target != nil && q.Target(n) {
				return witness(s, n, "")
			}
			if s.via && q.Avoid != nil && q.Avoid(n) {
				cut = true
				break
			}
			env = g.transfer(n, env)
		}
		firstVisit = false
		if cut {
			continue
		}
		if len(s.b.Succs) == 0 {
			if q.TargetExit != nil && s.via {
				k := g.Exit(s.b)
				hit := false
				if k != NotExit {
					ret, _ := lastNode(s.b).(*ast.ReturnStmt)
					if ret != nil && len(env) > 0 {
						activeRet.Store(ret, retEnv{g, env})
					}
					hit = q.TargetExit(s.b, k)
					if ret != nil {
						activeRet.Delete(ret)
					}
				}
				if hit {
					return witness(s, nil, fmt.Sprintf("leaves through %s", exitName(k)))
				}
			}
			continue
		}
		for si, t := range s.b.Succs {
			if q.AvoidEdge != nil && q.AvoidEdge(s.b, si) {
				continue
			}
			if g.edgeInfeasible(s.b, si, env) {
				continue
			}
			tenv := g.learn(s.b, si, env)
			if perBlock[t] >= 32 {
				tenv = nil // too many distinct valuations reach t: continue without pruning
			}
			tvia := s.via || q.Via(t)
			k := vkey{t, tenv.key(), tvia}
			if visited[k] || visited[vkey{t, "", tvia}] {
				continue
			}
			visited[k] = true
			perBlock[t]++
			queue = append(queue, &state{b: t, prev: s, from: 0, env: tenv, via: tvia})
		}
	}
	return nil
}

func exitName(k ExitKind) string {
	switch k {
	case ExitRet:
		return "a return statement"
	case ExitFall:
		return "the end of the function body"
	case ExitAbort:
		return "a no-return call"
	}
	return "?"
}

func (g *Graph) where(n ast.Node) string {
	p := g.Fset.Position(n.Pos())
	return fmt.Sprintf("L%d:", p.Line)
}

// NormalExit accepts return statements and falling off the end.
func NormalExit(b *cfg.Block, k ExitKind) bool { return k == ExitRet || k == ExitFall }

// Dominates reports whether every path from the entry to b passes a node
// satisfying pred first.
func (g *Graph) Dominated(b Point, pred func(ast.Node) bool) (bool, []string) {
	target := b.Node()
	w := g.Path(Query{From: g.Entry(), Avoid: pred, Target: func(n ast.Node) bool { return n == target }})
	return w == nil, w
}

// MustPassToExit reports whether every path from `from` (exclusive) to a
// normal exit passes a node satisfying pred.
func (g *Graph) MustPassToExit(from Point, after bool, pred func(ast.Node) bool) (bool, []string) {
	w := g.Path(Query{From: from, After: after, Avoid: pred, TargetExit: NormalExit})
	return w == nil, w
}

// Reaches reports whether some path leads from `from` (exclusive) to a node
// satisfying target.
func (g *Graph) Reaches(from Point, target func(ast.Node) bool) []string {
	return g.Path(Query{From: from, After: true, Target: target})
}

// ---------------------------------------------------------------------------
// node predicates

// ExecCalls returns the calls that are evaluated when the cfg node n executes
// (a defer/go statement evaluates only its arguments; function literal bodies
// are not executed).
func ExecCalls(n ast.Node) []*ast.CallExpr {
	var out []*ast.CallExpr
	var root ast.Node = n
	var skip *ast.CallExpr
	switch s := n.(type) {
	case *ast.DeferStmt:
		skip = s.Call
	case *ast.GoStmt:
		skip = s.Call
	}
	core.Inspect(root, func(m ast.Node) bool {
		if c, ok := m.(*ast.CallExpr); ok && c != skip {
			out = append(out, c)
		}
		return true
	})
	return out
}

// HasCall builds a node predicate: the node executes a call accepted by match.
func (g *Graph) HasCall(match func(call *ast.CallExpr, callee types.Object) bool) func(ast.Node) bool {
	return func(n ast.Node) bool {
		for _, c := range ExecCalls(n) {
			if match(c, core.Callee(g.Info, c)) {
				return true
			}
		}
		return false
	}
}

// DeferredCall builds a node predicate: the node is a defer statement whose
// deferred call is accepted by match.
func (g *Graph) DeferredCall(match func(call *ast.CallExpr, callee types.Object) bool) func(ast.Node) bool {
	return func(n ast.Node) bool {
		d, ok := n.(*ast.DeferStmt)
		return ok && match(d.Call, core.Callee(g.Info, d.Call))
	}
}

// Or combines node predicates.
func Or(ps ...func(ast.Node) bool) func(ast.Node) bool {
	return func(n ast.Node) bool {
		for _, p := range ps {
			if p(n) {
				return true
			}
		}
		return false
	}
}

// ---------------------------------------------------------------------------
// branch facts

// Fact is an atomic boolean sub-expression with the truth value it is known
// to have on an edge.
type Fact struct {
	Expr ast.Expr
	Val  bool
}

// Facts returns the atoms of cond whose value is implied when cond evaluates
// to val: conjuncts on the true edge, disjuncts on the false edge, through
// negation and parentheses.
func Facts(cond ast.Expr, val bool) []Fact {
	cond = ast.Unparen(cond)
	switch c := cond.(type) {
	case *ast.UnaryExpr:
		if c.Op == token.NOT {
			return Facts(c.X, !val)
		}
	case *ast.BinaryExpr:
		switch c.Op {
		case token.LAND:
			if val {
				return append(Facts(c.X, true), Facts(c.Y, true)...)
			}
			return nil
		case token.LOR:
			if !val {
				return append(Facts(c.X, false), Facts(c.Y, false)...)
			}
			return nil
		}
	}
	return []Fact{{cond, val}}
}

// CondOf returns the branch condition that ends block b, if any (if/for
// conditions; for a switch-case test the case expression).
func CondOf(b *cfg.Block) ast.Expr {
	if len(b.Succs) != 2 || len(b.Nodes) == 0 {
		return nil
	}
	e, _ := b.Nodes[len(b.Nodes)-1].(ast.Expr)
	return e
}

// ---------------------------------------------------------------------------
// return classification

// RetKind classifies a return statement by its error result.
type RetKind int

const (
	RetNoErrResult RetKind = iota // function has no error result / bare
	RetNilErr                     // last result is the literal nil
	RetErr                        // provably an error exit
	RetMaybe                      // an error-typed value that may be nil
)

// ClassifyReturn inspects the last result of ret. body is the enclosing
// function body (used to see whether ret sits in an `if err != nil` arm).
func ClassifyReturn(info *types.Info, body ast.Node, ret *ast.ReturnStmt) RetKind {
	if len(ret.Results) == 0 {
		return RetNoErrResult
	}
	last := ast.Unparen(ret.Results[len(ret.Results)-1])
	tv, ok := info.Types[last]
	if core.IsNil(info, last) {
		return RetNilErr
	}
	if !ok || !isErrorType(tv.Type) {
		return RetNoErrResult
	}
	if _, isCall := last.(*ast.CallExpr); isCall {
		return RetErr // errors.New / Errorf / Trace ... construct a non-nil error
	}
	// a path query is asking about this return: the constants the path assigned
	// to the returned variable decide (see flags.go)
	if v, ok := activeRet.Load(ret); ok {
		re := v.(retEnv)
		switch re.g.classOf(last, re.env) {
		case 1:
			return RetNilErr
		case 2:
			return RetErr
		}
	}
	// `if x != nil { ... return x }`
	path := core.PathTo(body, ret)
	for i := len(path) - 1; i > 0; i-- {
		ifs, ok := path[i-1].(*ast.IfStmt)
		if !ok || path[i] != ast.Node(ifs.Body) {
			continue
		}
		for _, f := range Facts(ifs.Cond, true) {
			be, ok := ast.Unparen(f.Expr).(*ast.BinaryExpr)
			if !ok {
				continue
			}
			if f.Val && be.Op == token.NEQ || !f.Val && be.Op == token.EQL {
				if core.IsNil(info, be.Y) && core.SameRef(info, be.X, last) || core.IsNil(info, be.X) && core.SameRef(info, be.Y, last) {
					// ... unless the variable is re-assigned between the test and the return
					reassigned := false
					if obj := core.ObjOf(info, last); obj != nil {
						ast.Inspect(ifs.Body, func(m ast.Node) bool {
							if as, ok := m.(*ast.AssignStmt); ok && as.Pos() < ret.Pos() {
								for _, l := range as.Lhs {
									if id, ok := l.(*ast.Ident); ok && core.ObjOf(info, id) == obj && as.Tok != token.DEFINE {
										reassigned = true
									}
								}
							}
							return true
						})
					}
					if reassigned {
						return RetMaybe
					}
					return RetErr
				}
			}
		}
	}
	return RetMaybe
}

func isErrorType(t types.Type) bool {
	if t == nil {
		return false
	}
	return types.Identical(t, types.Universe.Lookup("error").Type())
}

// IsErrorType reports whether t is the predeclared error type.
func IsErrorType(t types.Type) bool { return isErrorType(t) }

// ---------------------------------------------------------------------------
// memoised constructors

// NR returns the module's no-return set (computed once per program).
func NR(p *core.Program) *NoReturn {
	if v, ok := p.Shared["cfgq.nr"]; ok {
		return v.(*NoReturn)
	}
	nr := ComputeNoReturn(p)
	p.Shared["cfgq.nr"] = nr
	return nr
}

// Of builds (once) the graph of a declared function.
func Of(p *core.Program, fn *core.Fn) *Graph {
	key := fmt.Sprintf("cfgq.g.%p", fn.Decl)
	// the cache is keyed by address: an entry is valid only for the very body it was built from (a
	// declaration copied by a rule and since collected may have had the same address)
	if v, ok := p.Shared[key]; ok && v.(*Graph).Body == fn.Decl.Body {
		return v.(*Graph)
	}
	g := New(p.Fset, fn.Pkg.TypesInfo, fn.Decl.Body, NR(p))
	g.Prog = p
	p.Shared[key] = g
	return g
}

// OfLit builds the graph of a function literal.
func OfLit(p *core.Program, info *types.Info, lit *ast.FuncLit) *Graph {
	key := fmt.Sprintf("cfgq.g.%p", lit)
	if v, ok := p.Shared[key]; ok && v.(*Graph).Body == lit.Body {
		return v.(*Graph)
	}
	g := New(p.Fset, info, lit.Body, NR(p))
	g.Prog = p
	p.Shared[key] = g
	return g
}

// ---------------------------------------------------------------------------
// edge facts and locksets

// switchOf maps a case clause to its switch statement (filled lazily per graph).
func (g *Graph) switchOf(cc *ast.CaseClause) *ast.SwitchStmt {
	if g.switches == nil {
		g.switches = map[*ast.CaseClause]*ast.SwitchStmt{}
		ast.Inspect(g.Body, func(n ast.Node) bool {
			if sw, ok := n.(*ast.SwitchStmt); ok {
				for _, cl := range sw.Body.List {
					g.switches[cl.(*ast.CaseClause)] = sw
				}
			}
			return true
		})
	}
	return g.switches[cc]
}

// EdgeFacts returns the atomic facts implied by leaving block b through
// successor succ: conjuncts/disjuncts of an if/for condition, and for a switch
// case test the case expression itself (tagless switch) or `tag == label`
// (tagged switch) on the matching edge. On the non-matching edge of a case
// test the negated fact is returned.
func (g *Graph) EdgeFacts(b *cfg.Block, succ int) []Fact {
	c := CondOf(b)
	if c == nil {
		return nil
	}
	if isCaseTest(b) {
		cc, _ := b.Succs[0].Stmt.(*ast.CaseClause)
		if cc == nil || g == nil {
			return nil
		}
		sw := g.switchOf(cc)
		if sw == nil {
			return nil
		}
		if sw.Tag == nil {
			return g.expandAll(Facts(c, succ == 0))
		}
		eq := &ast.BinaryExpr{X: sw.Tag, Op: token.EQL, Y: c, OpPos: c.Pos()}
		return []Fact{{eq, succ == 0}}
	}
	return g.expandAll(Facts(c, succ == 0))
}

func (g *Graph) expandAll(fs []Fact) []Fact {
	if g == nil || g.Prog == nil {
		return fs
	}
	out := fs
	for _, f := range fs {
		out = append(out, g.expandFact(f)...)
	}
	return out
}

// expandFact: a fact about the result of a same-module predicate helper
// (`ok(a, b)` is true/false, or `err := check(); err == nil`) implies the facts
// that hold on every path of the helper producing that result, with the
// helper's parameters replaced by the call's arguments.
func (g *Graph) expandFact(f Fact) []Fact {
	e := ast.Unparen(f.Expr)
	var call *ast.CallExpr
	outcome := ""
	switch x := e.(type) {
	case *ast.Ident:
		// a boolean local that is result #k of a helper call: the facts under which
		// the helper returns that value at position k
		if td, ok := pat.TupleDefOf(g.Info, x); ok {
			if t := g.Info.TypeOf(x); t != nil {
				if b, ok := t.Underlying().(*types.Basic); ok && b.Info()&types.IsBoolean != 0 {
					out := "false"
					if f.Val {
						out = "true"
					}
					return g.callFacts(td.Call, td.Index, out)
				}
			}
			return nil
		}
		// a boolean local assigned once stands for its definition
		if d := pat.DefOf(g.Info, x); d != nil {
			if t := g.Info.TypeOf(x); t != nil {
				if b, ok := t.Underlying().(*types.Basic); ok && b.Info()&types.IsBoolean != 0 {
					sub := Facts(d, f.Val)
					out := append([]Fact{}, sub...)
					for _, sf := range sub {
						out = append(out, g.expandFact(sf)...)
					}
					return out
				}
			}
		}
		return nil
	case *ast.UnaryExpr:
		if x.Op == token.NOT {
			return g.expandFact(Fact{x.X, !f.Val})
		}
		return nil
	case *ast.CallExpr:
		call = x
		if f.Val {
			outcome = "true"
		} else {
			outcome = "false"
		}
	case *ast.BinaryExpr:
		if x.Op != token.EQL && x.Op != token.NEQ {
			return nil
		}
		var v ast.Expr
		if core.IsNil(g.Info, x.Y) {
			v = x.X
		} else if core.IsNil(g.Info, x.X) {
			v = x.Y
		} else {
			return nil
		}
		isNil := x.Op == token.EQL && f.Val || x.Op == token.NEQ && !f.Val
		if !isNil {
			return nil
		}
		id, ok := ast.Unparen(v).(*ast.Ident)
		if !ok {
			return nil
		}
		d := pat.DefOf(g.Info, id)
		c2, ok := ast.Unparen(d).(*ast.CallExpr)
		if d == nil || !ok {
			return nil
		}
		call, outcome = c2, "nil"
	default:
		return nil
	}
	return g.callFacts(call, -1, outcome)
}

// callFacts: the facts (in the caller's vocabulary) that hold whenever the
// same-package helper called by `call` produces `outcome` at result idx
// (-1 = the last result).
func (g *Graph) callFacts(call *ast.CallExpr, idx int, outcome string) []Fact {
	callee := core.CalleeFunc(g.Info, call)
	if callee == nil || callee.Pkg() == nil {
		return nil
	}
	fn := g.Prog.FnOf(callee)
	if fn == nil || fn.Decl.Body == nil || fn.Pkg.TypesInfo != g.Info {
		return nil // same package only (shared type information)
	}
	facts := helperFacts(g.Prog, fn, idx, outcome)
	if len(facts) == 0 {
		return nil
	}
	// bind parameters (and the receiver) to the arguments
	m := map[types.Object]ast.Expr{}
	i := 0
	for _, fl := range fn.Decl.Type.Params.List {
		for _, nm := range fl.Names {
			if i < len(call.Args) {
				m[g.Info.Defs[nm]] = call.Args[i]
			}
			i++
		}
	}
	if fn.Decl.Recv != nil && len(fn.Decl.Recv.List) == 1 && len(fn.Decl.Recv.List[0].Names) == 1 {
		if sel, ok := ast.Unparen(call.Fun).(*ast.SelectorExpr); ok {
			m[g.Info.Defs[fn.Decl.Recv.List[0].Names[0]]] = sel.X
		}
	}
	var out []Fact
	for _, hf := range facts {
		out = append(out, Fact{Substitute(g.Info, hf.Expr, m), hf.Val})
	}
	return out
}

// helperFacts returns the atomic facts (over the helper's own parameters) that
// hold on every path on which the loop-free helper fn produces outcome
// ("true"/"false" for a bool result, "nil" for a nil error result).
func helperFacts(p *core.Program, fn *core.Fn, idx int, outcome string) []Fact {
	key := fmt.Sprintf("cfgq.hf.%p.%d.%s", fn.Decl, idx, outcome)
	if v, ok := p.Shared[key]; ok {
		return v.([]Fact)
	}
	p.Shared[key] = []Fact(nil) // recursion guard
	info := fn.Pkg.TypesInfo
	hg := Of(p, fn)
	loop := false
	ast.Inspect(fn.Decl.Body, func(n ast.Node) bool {
		switch n.(type) {
		case *ast.ForStmt, *ast.RangeStmt:
			loop = true
		}
		return true
	})
	if loop {
		return nil
	}
	var result [][]Fact
	paths := 0
	var walk func(b *cfg.Block, acc []Fact, seen map[*cfg.Block]bool)
	walk = func(b *cfg.Block, acc []Fact, seen map[*cfg.Block]bool) {
		if paths > 128 || seen[b] {
			return
		}
		if len(b.Succs) == 0 {
			paths++
			if len(b.Nodes) == 0 {
				return
			}
			ret, ok := b.Nodes[len(b.Nodes)-1].(*ast.ReturnStmt)
			if !ok || len(ret.Results) == 0 {
				return
			}
			k := idx
			if k < 0 {
				k = len(ret.Results) - 1
			}
			if k >= len(ret.Results) {
				return
			}
			last := ast.Unparen(ret.Results[k])
			facts := append([]Fact{}, acc...)
			switch outcome {
			case "true", "false":
				want := outcome == "true"
				if tv, ok := info.Types[last]; ok && tv.Value != nil {
					if (tv.Value.String() == "true") != want {
						return
					}
				} else {
					facts = append(facts, Facts(last, want)...)
				}
			case "nil":
				if !core.IsNil(info, last) {
					if ClassifyReturn(info, fn.Decl.Body, ret) == RetErr {
						return
					}
					// the value returned is nil on this outcome: `last != nil` is false
					if _, isCall := last.(*ast.CallExpr); !isCall {
						facts = append(facts, Fact{&ast.BinaryExpr{X: last, Op: token.NEQ, Y: ast.NewIdent("nil")}, false})
					}
				}
			}
			result = append(result, facts)
			return
		}
		seen[b] = true
		for si, t := range b.Succs {
			nacc := acc
			if len(b.Succs) == 2 {
				nacc = append(append([]Fact{}, acc...), (&Graph{Info: info, Body: fn.Decl.Body, CFG: hg.CFG}).EdgeFacts(b, si)...)
			}
			walk(t, nacc, seen)
		}
		delete(seen, b)
	}
	walk(hg.CFG.Blocks[0], nil, map[*cfg.Block]bool{})
	if len(result) == 0 || paths > 128 {
		return nil
	}
	// intersection
	var out []Fact
	for _, f := range result[0] {
		all := true
		for _, other := range result[1:] {
			found := false
			for _, o := range other {
				if o.Val == f.Val && pat.Same(info, o.Expr, f.Expr) {
					found = true
				}
			}
			all = all && found
		}
		if all {
			out = append(out, f)
		}
	}
	p.Shared[key] = out
	return out
}

// Substitute returns a copy of e in which identifiers denoting the objects in
// m are replaced by the mapped expressions.
func Substitute(info *types.Info, e ast.Expr, m map[types.Object]ast.Expr) ast.Expr {
	if len(m) == 0 || e == nil {
		return e
	}
	switch x := e.(type) {
	case *ast.Ident:
		if r, ok := m[info.Uses[x]]; ok {
			return &ast.ParenExpr{X: r}
		}
		return x
	case *ast.ParenExpr:
		return &ast.ParenExpr{X: Substitute(info, x.X, m)}
	case *ast.BinaryExpr:
		return &ast.BinaryExpr{X: Substitute(info, x.X, m), Op: x.Op, OpPos: x.OpPos, Y: Substitute(info, x.Y, m)}
	case *ast.UnaryExpr:
		return &ast.UnaryExpr{Op: x.Op, OpPos: x.OpPos, X: Substitute(info, x.X, m)}
	case *ast.CallExpr:
		args := make([]ast.Expr, len(x.Args))
		for i, a := range x.Args {
			args[i] = Substitute(info, a, m)
		}
		return &ast.CallExpr{Fun: Substitute(info, x.Fun, m), Lparen: x.Lparen, Args: args, Ellipsis: x.Ellipsis, Rparen: x.Rparen}
	case *ast.SelectorExpr:
		return &ast.SelectorExpr{X: Substitute(info, x.X, m), Sel: x.Sel}
	case *ast.IndexExpr:
		return &ast.IndexExpr{X: Substitute(info, x.X, m), Index: Substitute(info, x.Index, m)}
	}
	return e
}

// EdgeEstablishes reports whether leaving block b through successor succ
// implies a fact accepted by match (if/for conditions only; use
// Graph.Establishes to include switch case tests).
func EdgeEstablishes(b *cfg.Block, succ int, match func(Fact) bool) bool {
	c := CondOf(b)
	if c == nil || b.Kind == cfg.KindSwitchNextCase || isCaseTest(b) {
		return false
	}
	for _, f := range Facts(c, succ == 0) {
		if match(f) {
			return true
		}
	}
	return false
}

// Establishes is EdgeEstablishes including switch case tests.
func (g *Graph) Establishes(b *cfg.Block, succ int, match func(Fact) bool) bool {
	for _, f := range g.EdgeFacts(b, succ) {
		if match(f) {
			return true
		}
	}
	return false
}

// isCaseTest reports whether block b ends in a switch-case comparison (its
// last node is a case expression, not a boolean condition).
func isCaseTest(b *cfg.Block) bool {
	if len(b.Succs) != 2 {
		return false
	}
	return b.Succs[0].Kind == cfg.KindSwitchCaseBody
}

// OnlyViaFact reports whether every path from the entry to target leaves some
// branch through an edge that establishes a fact accepted by match.
func (g *Graph) OnlyViaFact(target Point, match func(Fact) bool) (bool, []string) {
	tn := target.Node()
	w := g.Path(Query{
		From:      g.Entry(),
		Target:    func(n ast.Node) bool { return n == tn },
		AvoidEdge: func(b *cfg.Block, s int) bool { return g.Establishes(b, s, match) },
	})
	return w == nil, w
}

// Held computes, for every live point, whether a lock is held on all paths
// reaching it: lock/unlock classify a cfg node (deferred unlocks are ignored,
// they run at exit).
func (g *Graph) Held(lock, unlock func(ast.Node) bool) map[ast.Node]bool {
	return g.HeldFrom(false, lock, unlock)
}

// HeldFrom is Held with a given lock state at function entry (true for a
// helper that is only ever called with the lock held).
func (g *Graph) HeldFrom(entry bool, lock, unlock func(ast.Node) bool) map[ast.Node]bool {
	in := map[*cfg.Block]bool{}
	out := map[*cfg.Block]bool{}
	for _, b := range g.CFG.Blocks {
		in[b], out[b] = true, true
	}
	preds := map[*cfg.Block][]*cfg.Block{}
	for _, b := range g.CFG.Blocks {
		for _, s := range b.Succs {
			preds[s] = append(preds[s], b)
		}
	}
	transfer := func(b *cfg.Block, v bool, rec map[ast.Node]bool) bool {
		for _, n := range b.Nodes {
			if rec != nil {
				rec[n] = v
			}
			if _, isDefer := n.(*ast.DeferStmt); isDefer {
				continue
			}
			if lock(n) {
				v = true
			} else if unlock(n) {
				v = false
			}
		}
		return v
	}
	for changed := true; changed; {
		changed = false
		for i, b := range g.CFG.Blocks {
			if !b.Live {
				continue
			}
			v := true
			if i == 0 {
				v = entry
			}
			for _, p := range preds[b] {
				if p.Live && !out[p] {
					v = false
				}
			}
			o := transfer(b, v, nil)
			if v != in[b] || o != out[b] {
				in[b], out[b] = v, o
				changed = true
			}
		}
	}
	res := map[ast.Node]bool{}
	for _, b := range g.CFG.Blocks {
		if b.Live {
			transfer(b, in[b], res)
		}
	}
	return res
}
