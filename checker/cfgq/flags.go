package cfgq

import (
	"go/ast"
	"go/token"
	"go/types"
	"sort"
	"strings"
	"sync"

	"golang.org/x/tools/go/cfg"
)

// Path-condition pruning of path queries. A path search carries what the path
// itself established about
//
//   - the function's own locals whose address is never taken and that no
//     function literal assigns: the constant class last assigned on the path
//     (true/false, nil / non-nil), and
//   - boolean atoms built from such locals, constants and fields of the
//     immutable configuration (conf.Options.*): the truth value the branches
//     taken so far gave them.
//
// An edge whose branch condition evaluates to the opposite value under that
// knowledge is not followed. Conjunctions and disjunctions are evaluated in
// three-valued logic and refined by unit propagation (the false edge of
// `a && b` with a known true makes b false). An assignment to a local drops
// everything that mentions it. Nothing is assumed about fields of shared
// objects, so every pruned edge is infeasible on every execution. This removes
// the correlated-branch paths that appear when a helper returning (flag, err)
// is expanded in place, when a test is repeated, or when a switch is rewritten
// as guard clauses:
//
//	skip, err = false, nil
//	if skip || err != nil { return err }   // the true edge is infeasible here
//
//	if exist && policy == "ignore" { return nil } else if exist { ... }   // not reached under "ignore"

type flagEnv map[string]int8 // 1 = false / nil, 2 = true / non-nil

// activeRet: while a path query evaluates its exit predicate on a return
// statement, the valuation the path reached it with (ClassifyReturn reads it).
var activeRet sync.Map // *ast.ReturnStmt -> retEnv

type retEnv struct {
	g   *Graph
	env flagEnv
}

func lastNode(b *cfg.Block) ast.Node {
	if len(b.Nodes) == 0 {
		return nil
	}
	return b.Nodes[len(b.Nodes)-1]
}

func (e flagEnv) key() string {
	if len(e) == 0 {
		return ""
	}
	parts := make([]string, 0, len(e))
	for k, c := range e {
		parts = append(parts, k+"="+itoa(int(c)))
	}
	sort.Strings(parts)
	return strings.Join(parts, ",")
}

func itoa(n int) string {
	if n == 0 {
		return "0"
	}
	var b []byte
	for n > 0 {
		b = append([]byte{byte('0' + n%10)}, b...)
		n /= 10
	}
	return string(b)
}

func (e flagEnv) with(k string, c int8) flagEnv {
	if k == "" || e[k] == c {
		return e
	}
	out := make(flagEnv, len(e)+1)
	for x, v := range e {
		out[x] = v
	}
	if c == 0 {
		delete(out, k)
	} else {
		out[k] = c
	}
	return out
}

// without drops every entry that mentions variable v.
func (g *Graph) without(e flagEnv, v *types.Var) flagEnv {
	tag := varKey(v)
	var out flagEnv
	for k := range e {
		if strings.Contains(k, tag) {
			if out == nil {
				out = make(flagEnv, len(e))
				for x, c := range e {
					out[x] = c
				}
			}
			delete(out, k)
		}
	}
	if out == nil {
		return e
	}
	return out
}

func varKey(v *types.Var) string { return v.Name() + "@" + itoa(int(v.Pos())) + ";" }

// trackable returns the locals of the graph's function that may be tracked.
func (g *Graph) trackable() map[*types.Var]bool {
	if g.flagVars != nil {
		return g.flagVars
	}
	g.flagVars = map[*types.Var]bool{}
	if g.Info == nil || g.Body == nil {
		return g.flagVars
	}
	unsafe := map[*types.Var]bool{}
	var walk func(n ast.Node, inLit bool)
	walk = func(n ast.Node, inLit bool) {
		ast.Inspect(n, func(m ast.Node) bool {
			switch x := m.(type) {
			case *ast.FuncLit:
				if !inLit {
					walk(x.Body, true)
					return false
				}
			case *ast.UnaryExpr:
				if x.Op == token.AND {
					if id, ok := ast.Unparen(x.X).(*ast.Ident); ok {
						if v := g.localVar(id); v != nil {
							unsafe[v] = true
						}
					}
				}
			case *ast.AssignStmt:
				if inLit {
					for _, l := range x.Lhs {
						if v := g.rootVar(l); v != nil && (v.Pos() < x.Pos() || x.Tok != token.DEFINE) {
							unsafe[v] = true
						}
					}
				}
			case *ast.IncDecStmt:
				if inLit {
					if v := g.rootVar(x.X); v != nil {
						unsafe[v] = true
					}
				}
			case *ast.RangeStmt:
				if inLit {
					for _, e := range []ast.Expr{x.Key, x.Value} {
						if e != nil {
							if v := g.rootVar(e); v != nil {
								unsafe[v] = true
							}
						}
					}
				}
			case *ast.CallExpr:
				// a method with a pointer receiver called on an addressable local takes its address
				if sel, ok := ast.Unparen(x.Fun).(*ast.SelectorExpr); ok {
					if s, has := g.Info.Selections[sel]; has && s.Kind() == types.MethodVal {
						if f, isF := s.Obj().(*types.Func); isF {
							if sig, _ := f.Type().(*types.Signature); sig != nil && sig.Recv() != nil {
								if _, ptr := sig.Recv().Type().(*types.Pointer); ptr {
									if id, isId := ast.Unparen(sel.X).(*ast.Ident); isId {
										if v := g.localVar(id); v != nil {
											if _, isPtr := v.Type().Underlying().(*types.Pointer); !isPtr {
												unsafe[v] = true
											}
										}
									}
								}
							}
						}
					}
				}
			}
			return true
		})
	}
	walk(g.Body, false)
	ast.Inspect(g.Body, func(m ast.Node) bool {
		if id, ok := m.(*ast.Ident); ok {
			if v := g.localVar(id); v != nil && !unsafe[v] {
				g.flagVars[v] = true
			}
		}
		return true
	})
	return g.flagVars
}

// localVar: the identifier denotes a variable declared inside the function body.
func (g *Graph) localVar(id *ast.Ident) *types.Var {
	o := g.Info.Uses[id]
	if o == nil {
		o = g.Info.Defs[id]
	}
	v, ok := o.(*types.Var)
	if !ok || v.IsField() || v.Pkg() == nil || v.Parent() == nil || v.Parent() == v.Pkg().Scope() {
		return nil
	}
	if v.Pos() < g.Body.Pos() || v.Pos() > g.Body.End() {
		return nil // parameters and results are left out
	}
	return v
}

// rootVar: the local variable an assignable expression is rooted at (x, x.f, x[i], *x).
func (g *Graph) rootVar(e ast.Expr) *types.Var {
	for {
		switch x := ast.Unparen(e).(type) {
		case *ast.Ident:
			if x.Name == "_" {
				return nil
			}
			return g.localVar(x)
		case *ast.SelectorExpr:
			e = x.X
		case *ast.IndexExpr:
			e = x.X
		case *ast.StarExpr:
			e = x.X
		case *ast.SliceExpr:
			e = x.X
		default:
			return nil
		}
	}
}

func (g *Graph) varOf(e ast.Expr) *types.Var {
	id, ok := ast.Unparen(e).(*ast.Ident)
	if !ok || id.Name == "_" {
		return nil
	}
	v := g.localVar(id)
	if v == nil || !g.trackable()[v] {
		return nil
	}
	return v
}

func isBoolType(t types.Type) bool {
	if t == nil {
		return false
	}
	b, ok := t.Underlying().(*types.Basic)
	return ok && b.Info()&types.IsBoolean != 0
}

func nilable(t types.Type) bool {
	if t == nil {
		return false
	}
	switch t.Underlying().(type) {
	case *types.Interface, *types.Pointer, *types.Map, *types.Slice, *types.Chan, *types.Signature:
		return true
	}
	return false
}

// termKey is the identity of a stable value expression: tracked locals,
// constants, fields of the configuration (conf.Options.*), len() and integer
// conversions of those. "" when e is not such an expression.
func (g *Graph) termKey(e ast.Expr) string {
	e = ast.Unparen(e)
	if tv, ok := g.Info.Types[e]; ok {
		if tv.Value != nil {
			return "#" + tv.Value.ExactString()
		}
		if tv.IsNil() {
			return "#nil"
		}
	}
	switch x := e.(type) {
	case *ast.Ident:
		if v := g.varOf(x); v != nil {
			return varKey(v)
		}
	case *ast.SelectorExpr:
		// conf.Options.<Field>: the configuration is not modified while a run is in progress
		if in, ok := ast.Unparen(x.X).(*ast.SelectorExpr); ok {
			if pk, isPk := ast.Unparen(in.X).(*ast.Ident); isPk {
				if pn, isPkg := g.Info.Uses[pk].(*types.PkgName); isPkg && in.Sel.Name == "Options" && strings.HasSuffix(pn.Imported().Path(), "/configure") {
					return "conf.Options." + x.Sel.Name
				}
			}
		}
	case *ast.CallExpr:
		if len(x.Args) == 1 {
			if id, ok := ast.Unparen(x.Fun).(*ast.Ident); ok && id.Name == "len" {
				if _, isB := g.Info.Uses[id].(*types.Builtin); isB {
					if k := g.termKey(x.Args[0]); k != "" && !strings.HasPrefix(k, "#") {
						return "len(" + k + ")"
					}
				}
			}
			if tv, ok := g.Info.Types[x.Fun]; ok && tv.IsType() {
				if k := g.termKey(x.Args[0]); k != "" {
					return types.TypeString(tv.Type, nil) + "(" + k + ")"
				}
			}
		}
	}
	return ""
}

// atomKey: the identity of a comparison atom and whether e is its negation.
func (g *Graph) atomKey(e ast.Expr) (key string, neg bool) {
	be, ok := ast.Unparen(e).(*ast.BinaryExpr)
	if !ok {
		return "", false
	}
	l, r := g.termKey(be.X), g.termKey(be.Y)
	if l == "" || r == "" || (strings.HasPrefix(l, "#") && strings.HasPrefix(r, "#")) {
		return "", false
	}
	switch be.Op {
	case token.EQL, token.NEQ:
		if l > r {
			l, r = r, l
		}
		return "(" + l + "==" + r + ")", be.Op == token.NEQ
	case token.LSS:
		return "(" + l + "<" + r + ")", false
	case token.GEQ:
		return "(" + l + "<" + r + ")", true
	case token.GTR:
		return "(" + r + "<" + l + ")", false
	case token.LEQ:
		return "(" + r + "<" + l + ")", true
	}
	return "", false
}

// eqParts splits an equality atom key "(a==b)" whose one side is a constant.
func eqParts(key string) (term, konst string, ok bool) {
	if !strings.HasPrefix(key, "(") || !strings.HasSuffix(key, ")") {
		return "", "", false
	}
	in := key[1 : len(key)-1]
	i := strings.Index(in, "==")
	if i < 0 {
		return "", "", false
	}
	a, b := in[:i], in[i+2:]
	switch {
	case strings.HasPrefix(a, "#") && !strings.HasPrefix(b, "#"):
		return b, a, true
	case strings.HasPrefix(b, "#") && !strings.HasPrefix(a, "#"):
		return a, b, true
	}
	return "", "", false
}

// classOf: 1 = false / nil, 2 = true / non-nil, 0 = unknown.
func (g *Graph) classOf(e ast.Expr, env flagEnv) int8 {
	e = ast.Unparen(e)
	if tv, ok := g.Info.Types[e]; ok {
		if tv.IsNil() {
			return 1
		}
		if tv.Value != nil {
			if isBoolType(tv.Type) {
				if tv.Value.String() == "true" {
					return 2
				}
				return 1
			}
			return 0
		}
	}
	switch x := e.(type) {
	case *ast.Ident:
		if v := g.varOf(x); v != nil && (isBoolType(v.Type()) || nilable(v.Type())) {
			return env[varKey(v)]
		}
	case *ast.UnaryExpr:
		switch x.Op {
		case token.NOT:
			switch g.classOf(x.X, env) {
			case 1:
				return 2
			case 2:
				return 1
			}
		case token.AND:
			return 2
		}
	case *ast.BinaryExpr:
		switch x.Op {
		case token.LAND:
			a, b := g.classOf(x.X, env), g.classOf(x.Y, env)
			if a == 1 || b == 1 {
				return 1
			}
			if a == 2 && b == 2 {
				return 2
			}
			return 0
		case token.LOR:
			a, b := g.classOf(x.X, env), g.classOf(x.Y, env)
			if a == 2 || b == 2 {
				return 2
			}
			if a == 1 && b == 1 {
				return 1
			}
			return 0
		case token.EQL, token.NEQ:
			// nil tests and comparisons of booleans whose classes are known
			tx, hx := g.Info.Types[ast.Unparen(x.X)]
			ty, hy := g.Info.Types[ast.Unparen(x.Y)]
			if hx && hy {
				a, b := g.classOf(x.X, env), g.classOf(x.Y, env)
				if a != 0 && b != 0 && (tx.IsNil() || ty.IsNil() || isBoolType(tx.Type) && isBoolType(ty.Type)) {
					if (x.Op == token.EQL) == (a == b) {
						return 2
					}
					return 1
				}
			}
		}
		if k, neg := g.atomKey(x); k != "" {
			c := env[k]
			if c == 0 {
				// x == c2 is false when x == c1 is known for another constant c1
				if term, konst, ok := eqParts(k); ok {
					for k2, v := range env {
						if v != 2 {
							continue
						}
						if t2, c2, ok2 := eqParts(k2); ok2 && t2 == term && c2 != konst {
							c = 1
							break
						}
					}
				}
			}
			if c != 0 && neg {
				c = 3 - c
			}
			return c
		}
	case *ast.CallExpr:
		if f := calleeFunc(g.Info, x); f != nil && f.Pkg() != nil {
			p := f.Pkg().Path()
			isErrPkg := p == "errors" || strings.HasSuffix(p, "/errors")
			if (isErrPkg && (f.Name() == "New" || f.Name() == "Errorf")) || (p == "fmt" && f.Name() == "Errorf") {
				return 2
			}
		}
	case *ast.CompositeLit, *ast.FuncLit:
		return 2
	case *ast.StarExpr:
		// *new(T): the zero value of T (how the expansion of a helper spells a zero result)
		if call, ok := ast.Unparen(x.X).(*ast.CallExpr); ok && len(call.Args) == 1 {
			if id, ok := ast.Unparen(call.Fun).(*ast.Ident); ok && id.Name == "new" {
				if _, isB := g.Info.Uses[id].(*types.Builtin); isB {
					if tv, ok := g.Info.Types[call.Args[0]]; ok && tv.IsType() && (isBoolType(tv.Type) || nilable(tv.Type)) {
						return 1
					}
				}
			}
		}
	}
	return 0
}

func calleeFunc(info *types.Info, call *ast.CallExpr) *types.Func {
	switch f := ast.Unparen(call.Fun).(type) {
	case *ast.Ident:
		fn, _ := info.Uses[f].(*types.Func)
		return fn
	case *ast.SelectorExpr:
		if sel, ok := info.Selections[f]; ok {
			fn, _ := sel.Obj().(*types.Func)
			return fn
		}
		fn, _ := info.Uses[f.Sel].(*types.Func)
		return fn
	}
	return nil
}

// assign records `v = rhs` (cls computed before any of the statement's kills).
func (g *Graph) assign(env flagEnv, lhs ast.Expr, cls int8, konst ...string) flagEnv {
	root := g.rootVar(lhs)
	if root == nil {
		return env
	}
	env = g.without(env, root)
	if v := g.varOf(lhs); v != nil && cls != 0 && (isBoolType(v.Type()) || nilable(v.Type())) {
		env = env.with(varKey(v), cls)
	}
	// a local of a basic (integer, string, …) type that is given a constant: the
	// atom `v == c` holds until v is written again (an enum verdict tested later)
	if len(konst) == 1 && konst[0] != "" {
		if v := g.varOf(lhs); v != nil && !isBoolType(v.Type()) {
			if _, basic := v.Type().Underlying().(*types.Basic); basic {
				env = env.with(eqKey(varKey(v), konst[0]), 2)
			}
		}
	}
	return env
}

func eqKey(l, r string) string {
	if l > r {
		l, r = r, l
	}
	return "(" + l + "==" + r + ")"
}

// constOf: the constant an expression stands for on this path ("#…"), or "".
func (g *Graph) constOf(e ast.Expr, env flagEnv) string {
	e = ast.Unparen(e)
	if tv, ok := g.Info.Types[e]; ok && tv.Value != nil && !isBoolType(tv.Type) {
		return "#" + tv.Value.ExactString()
	}
	if id, ok := e.(*ast.Ident); ok {
		if v := g.varOf(id); v != nil {
			vk := varKey(v)
			for k, c := range env {
				if c != 2 {
					continue
				}
				if term, konst, ok := eqParts(k); ok && term == vk {
					return konst
				}
			}
		}
	}
	return ""
}

// zeroConst: the constant key of the zero value of a basic type, or "".
func zeroConst(t types.Type) string {
	b, ok := t.Underlying().(*types.Basic)
	if !ok {
		return ""
	}
	switch {
	case b.Info()&types.IsBoolean != 0:
		return ""
	case b.Info()&types.IsString != 0:
		return `#""`
	case b.Info()&types.IsInteger != 0:
		return "#0"
	}
	return ""
}

// transfer applies the effect of cfg node n on env.
func (g *Graph) transfer(n ast.Node, env flagEnv) flagEnv {
	switch x := n.(type) {
	case *ast.AssignStmt:
		if len(x.Lhs) == len(x.Rhs) && (x.Tok == token.ASSIGN || x.Tok == token.DEFINE) {
			cls := make([]int8, len(x.Rhs))
			ks := make([]string, len(x.Rhs))
			for i, r := range x.Rhs {
				cls[i] = g.classOf(r, env)
				ks[i] = g.constOf(r, env)
			}
			for i, l := range x.Lhs {
				env = g.assign(env, l, cls[i], ks[i])
			}
			return env
		}
		for _, l := range x.Lhs {
			env = g.assign(env, l, 0)
		}
	case *ast.DeclStmt:
		gd, ok := x.Decl.(*ast.GenDecl)
		if !ok || gd.Tok != token.VAR {
			return env
		}
		for _, sp := range gd.Specs {
			if vs, ok := sp.(*ast.ValueSpec); ok {
				env = g.valueSpec(vs, env)
			}
		}
	case *ast.ValueSpec:
		env = g.valueSpec(x, env)
	case *ast.IncDecStmt:
		env = g.assign(env, x.X, 0)
	case *ast.RangeStmt:
		for _, e := range []ast.Expr{x.Key, x.Value} {
			if e != nil {
				env = g.assign(env, e, 0)
			}
		}
	}
	return env
}

func (g *Graph) valueSpec(vs *ast.ValueSpec, env flagEnv) flagEnv {
	for i, nm := range vs.Names {
		switch {
		case len(vs.Values) == 0:
			zk := ""
			if o := g.Info.Defs[nm]; o != nil {
				zk = zeroConst(o.Type())
			}
			env = g.assign(env, nm, 1, zk) // zero value: false / nil / 0 / ""
		case len(vs.Values) == len(vs.Names):
			env = g.assign(env, nm, g.classOf(vs.Values[i], env), g.constOf(vs.Values[i], env))
		default:
			env = g.assign(env, nm, 0)
		}
	}
	return env
}

// branchCond returns the boolean condition decided at the end of b (for a
// tagged switch the synthesized `tag == label`), or nil.
func (g *Graph) branchCond(b *cfg.Block) ast.Expr {
	if len(b.Succs) != 2 {
		return nil
	}
	c := CondOf(b)
	if c == nil {
		return nil
	}
	if isCaseTest(b) {
		cc, _ := b.Succs[0].Stmt.(*ast.CaseClause)
		if cc == nil {
			return nil
		}
		sw := g.switchOf(cc)
		if sw == nil {
			return nil
		}
		if sw.Tag != nil {
			return &ast.BinaryExpr{X: sw.Tag, Op: token.EQL, Y: c, OpPos: c.Pos()}
		}
	}
	return c
}

// edgeInfeasible: leaving b through successor si contradicts env.
func (g *Graph) edgeInfeasible(b *cfg.Block, si int, env flagEnv) bool {
	if len(env) == 0 {
		return false
	}
	c := g.branchCond(b)
	if c == nil {
		return false
	}
	switch g.classOf(c, env) {
	case 2:
		return si == 1
	case 1:
		return si == 0
	}
	return false
}

// learn refines env with what taking edge si of b establishes.
func (g *Graph) learn(b *cfg.Block, si int, env flagEnv) flagEnv {
	c := g.branchCond(b)
	if c == nil {
		return env
	}
	return g.assume(c, si == 0, env)
}

func (g *Graph) assume(c ast.Expr, val bool, env flagEnv) flagEnv {
	c = ast.Unparen(c)
	cls := int8(1)
	if val {
		cls = 2
	}
	switch x := c.(type) {
	case *ast.Ident:
		if v := g.varOf(x); v != nil && isBoolType(v.Type()) {
			return env.with(varKey(v), cls)
		}
	case *ast.UnaryExpr:
		if x.Op == token.NOT {
			return g.assume(x.X, !val, env)
		}
	case *ast.BinaryExpr:
		switch x.Op {
		case token.LAND:
			if val {
				return g.assume(x.Y, true, g.assume(x.X, true, env))
			}
			// unit propagation: one conjunct known true makes the other false
			if g.classOf(x.X, env) == 2 {
				return g.assume(x.Y, false, env)
			}
			if g.classOf(x.Y, env) == 2 {
				return g.assume(x.X, false, env)
			}
			return env
		case token.LOR:
			if !val {
				return g.assume(x.Y, false, g.assume(x.X, false, env))
			}
			if g.classOf(x.X, env) == 1 {
				return g.assume(x.Y, true, env)
			}
			if g.classOf(x.Y, env) == 1 {
				return g.assume(x.X, true, env)
			}
			return env
		case token.EQL, token.NEQ:
			for _, pr := range [][2]ast.Expr{{x.X, x.Y}, {x.Y, x.X}} {
				if tv, ok := g.Info.Types[ast.Unparen(pr[1])]; ok && tv.IsNil() {
					if v := g.varOf(pr[0]); v != nil {
						isNil := (x.Op == token.EQL) == val
						if isNil {
							return env.with(varKey(v), 1)
						}
						return env.with(varKey(v), 2)
					}
				}
			}
		}
		if k, neg := g.atomKey(x); k != "" {
			if neg {
				cls = 3 - cls
			}
			return env.with(k, cls)
		}
	}
	return env
}
