package main

import (
	"rscheck/driver"
	"rscheck/rules/c08"
)

func main() { driver.Main([]driver.PropDef{c08.Def}) }
