package main

import (
	"rscheck/driver"
	"rscheck/rules/c03"
)

func main() { driver.Main([]driver.PropDef{c03.Def}) }
