package main

import (
	"rscheck/driver"
	"rscheck/rules/c05"
)

func main() { driver.Main([]driver.PropDef{c05.Def}) }
