# Mutants and REF/FIX variants for the C05 rule set. Run:  python3 cmd/dev-c10/mut.py C05 /verif/bin/dev-c05 cmd/dev-c05/mutants.py [name...]
MUTANTS = [
 ('baseline', [
 ]),
 ('hdr 4-byte buffer', [
   ('redis-shake/common/utils.go', '\t\t\tb := []byte{0}\n\t\t\tif _, err := r.Read(b); err != nil {\n\t\t\t\tlog.PanicErrorf(err, "read sync', '\t\t\tb := make([]byte, 4)\n\t\t\tif _, err := r.Read(b); err != nil {\n\t\t\t\tlog.PanicErrorf(err, "read sync'),
 ]),
 ('hdr second bufio', [
   ('redis-shake/common/utils.go', 'if _, err := r.Read(b); err != nil {\n\t\t\t\tlog.PanicErrorf(err, "read sync', 'if _, err := bufio.NewReader(r).Read(b); err != nil {\n\t\t\t\tlog.PanicErrorf(err, "read sync'),
 ]),
 ('hdr drop len(rsp)==0', [
   ('redis-shake/common/utils.go', "if len(rsp) == 0 && b[0] == '\\n' {", "if b[0] == '\\n' {"),
 ]),
 ('hdr drop continue', [
   ('redis-shake/common/utils.go', '\t\t\t\tsize <- 0\n\t\t\t\tcontinue\n', '\t\t\t\tsize <- 0\n'),
 ]),
 ('hdr suffix CR only', [
   ('redis-shake/common/utils.go', 'strings.HasSuffix(rsp, "\\r\\n")', 'strings.HasSuffix(rsp, "\\r")'),
 ]),
 ('hdr digits window', [
   ('redis-shake/common/utils.go', 'rsp[1 : len(rsp)-2]', 'rsp[1 : len(rsp)-1]'),
 ]),
 ('hdr size+1', [
   ('redis-shake/common/utils.go', 'size <- int64(n)', 'size <- int64(n) + 1'),
 ]),
 ('iocopy drop clamp', [
   ('redis-shake/common/utils.go', '\tif len(p) > max {\n\t\tp = p[:max]\n\t}\n', ''),
 ]),
 ('iocopy clamp inverted', [
   ('redis-shake/common/utils.go', '\tif len(p) > max {\n\t\tp = p[:max]', '\tif len(p) < max {\n\t\tp = p[:max]'),
 ]),
 ('iocopy drop trunc', [
   ('redis-shake/common/utils.go', '\t} else {\n\t\tp = p[:n]\n\t}\n\tif _, err := w.Write(p)', '\t} else {\n\t\t_ = n\n\t}\n\tif _, err := w.Write(p)'),
 ]),
 ('rdb copy max=len(p)', [
   ('redis-shake/dbSync/syncBegin.go', 'utils.Iocopy(br, pipew, p, rdbSize)', 'utils.Iocopy(br, pipew, p, len(p))'),
 ]),
 ('dump drop flush', [
   ('redis-shake/dump.go', '\t\t\tnread.Add(ncopy)\n\t\t\tutils.FlushWriter(writer)\n\t\t}\n\t}()\n\n\t// print stat', '\t\t\tnread.Add(ncopy)\n\t\t}\n\t}()\n\n\t// print stat'),
 ]),
 ('pipe count before write', [
   ('redis-shake/dbSync/syncBegin.go', '\t\tif _, err := copyto.Write(p[:n]); err != nil {\n\t\t\treturn nread.Get(), err\n\t\t}\n\t\tnread.Add(int64(n))', '\t\tnread.Add(int64(n))\n\t\tif _, err := copyto.Write(p[:n]); err != nil {\n\t\t\treturn nread.Get(), err\n\t\t}'),
 ]),
 ('pipe write whole p', [
   ('redis-shake/dbSync/syncBegin.go', 'copyto.Write(p[:n])', 'copyto.Write(p)'),
 ]),
 ('pipe ignore write err', [
   ('redis-shake/dbSync/syncBegin.go', '\t\tif _, err := copyto.Write(p[:n]); err != nil {\n\t\t\treturn nread.Get(), err\n\t\t}', '\t\tif _, err := copyto.Write(p[:n]); err != nil {\n\t\t\tlog.Errorf("write failed %v", err)\n\t\t}'),
 ]),
 ('psync second reader for copy', [
   ('redis-shake/dbSync/syncBegin.go', 'go ds.runIncrementalSync(c, br, bw, int(nsize),', 'go ds.runIncrementalSync(c, bufio.NewReaderSize(c, utils.ReaderBufferSize), bw, int(nsize),'),
 ]),
 ('psync header other reader', [
   ('redis-shake/common/utils.go', 'waitRdbDump(br), nil', 'waitRdbDump(bufio.NewReader(br)), nil'),
 ]),
 ('psync keyword upper literal', [
   ('redis-shake/common/utils.go', 'strings.ToLower(xx[0]) == "continue"', 'strings.ToLower(xx[0]) == "CONTINUE"'),
 ]),
 ('psync case sensitive', [
   ('redis-shake/common/utils.go', 'strings.ToLower(xx[0]) == "fullresync"', 'xx[0] == "FULLRESYNC"'),
 ]),
 ('psync fields swapped', [
   ('redis-shake/common/utils.go', 'runid, offset := xx[1], v', 'runid, offset := xx[2], v'),
 ]),
 ('psync continue offset', [
   ('redis-shake/common/utils.go', 'return runid, offset - 1, nil, nil', 'return runid, offset, nil, nil'),
 ]),
 ('psync offset not stored', [
   ('redis-shake/dbSync/syncBegin.go', '\tds.sourceOffset = offset\n', ''),
 ]),
 ('dump returns new reader', [
   ('redis-shake/dump.go', '\treturn reader, writer, nsize\n}\n\nfunc (dd *dbDumper) sendCmd', '\treturn bufio.NewReaderSize(master, utils.ReaderBufferSize), writer, nsize\n}\n\nfunc (dd *dbDumper) sendCmd'),
 ]),
 ('sendCmd returns early', [
   ('redis-shake/dump.go', '\tfor nsize == 0 {\n\t\tselect {\n\t\tcase nsize = <-wait:\n\t\t\tif nsize == 0 {', '\tfor nsize < 0 {\n\t\tselect {\n\t\tcase nsize = <-wait:\n\t\t\tif nsize == 0 {'),
 ]),
 ('sync second reader', [
   ('redis-shake/dbSync/dbSyncer.go', 'ds.syncCommand(reader, ds.node.Target', 'ds.syncCommand(bufio.NewReaderSize(input, utils.ReaderBufferSize), ds.node.Target'),
 ]),
 ('reconnect stale reader', [
   ('redis-shake/dbSync/syncBegin.go', '\t\t\t\tbr = bufio.NewReaderSize(c, utils.ReaderBufferSize)\n\t\t\t\tbw =', '\t\t\t\tbw ='),
 ]),
 ('rdb loop cond', [
   ('redis-shake/dbSync/syncBegin.go', 'for rdbSize != 0 {', 'for rdbSize > 8192 {'),
 ]),
 ('fullsync size 0', [
   ('redis-shake/dbSync/syncBegin.go', 'go ds.runIncrementalSync(c, br, bw, int(nsize), runid', 'go ds.runIncrementalSync(c, br, bw, 0, runid'),
 ]),
 ('dump copy max=len(p)', [
   ('redis-shake/dump.go', '\t\t\tnstep := int(nsize - nread.Get())\n\t\t\tncopy := int64(utils.Iocopy(reader, writer, p, nstep))', '\t\t\tncopy := int64(utils.Iocopy(reader, writer, p, len(p)))'),
 ]),
 ('REF hdr rename + make + switch', [
   ('redis-shake/common/utils.go', '\t\tvar rsp string\n\t\tfor {\n\t\t\tb := []byte{0}\n\t\t\tif _, err := r.Read(b); err != nil {\n\t\t\t\tlog.PanicErrorf(err, "read sync response = \'%s\'", rsp)\n\t\t\t}\n\t\t\tif len(rsp) == 0 && b[0] == \'\\n\' {\n\t\t\t\tsize <- 0\n\t\t\t\tcontinue\n\t\t\t}\n\t\t\trsp += string(b)\n\t\t\tif strings.HasSuffix(rsp, "\\r\\n") {\n\t\t\t\tbreak\n\t\t\t}\n\t\t}\n\t\tif rsp[0] != \'$\' {\n\t\t\tlog.Panicf("invalid sync response, rsp = \'%s\'", rsp)\n\t\t}\n\t\tn, err := strconv.Atoi(rsp[1 : len(rsp)-2])\n\t\tif err != nil || n <= 0 {\n\t\t\tlog.PanicErrorf(err, "invalid sync response = \'%s\', n = %d", rsp, n)\n\t\t}', '\t\tvar hdr string\n\t\tfor {\n\t\t\tone := make([]byte, 1)\n\t\t\t_, rerr := r.Read(one)\n\t\t\tif rerr != nil {\n\t\t\t\tlog.PanicErrorf(rerr, "read sync response = \'%s\'", hdr)\n\t\t\t}\n\t\t\tswitch {\n\t\t\tcase \'\\n\' == one[0] && 0 == len(hdr):\n\t\t\t\tsize <- 0\n\t\t\t\tcontinue\n\t\t\t}\n\t\t\thdr += string(one)\n\t\t\tif !strings.HasSuffix(hdr, "\\r\\n") {\n\t\t\t\tcontinue\n\t\t\t}\n\t\t\tbreak\n\t\t}\n\t\tswitch hdr[0] {\n\t\tcase \'$\':\n\t\tdefault:\n\t\t\tlog.Panicf("invalid sync response, rsp = \'%s\'", hdr)\n\t\t}\n\t\tn, err := strconv.Atoi(hdr[1 : len(hdr)-2])\n\t\tif err != nil {\n\t\t\tlog.PanicErrorf(err, "invalid sync response = \'%s\', n = %d", hdr, n)\n\t\t}\n\t\tif n < 1 {\n\t\t\tlog.PanicErrorf(err, "invalid sync response = \'%s\', n = %d", hdr, n)\n\t\t}'),
 ]),
 ('REF iocopy forms', [
   ('redis-shake/common/utils.go', '\tif len(p) > max {\n\t\tp = p[:max]\n\t}\n\tif n, err := r.Read(p); err != nil {\n\t\tlog.PanicError(err, "read error, please check source redis log or network")\n\t} else {\n\t\tp = p[:n]\n\t}\n\tif _, err := w.Write(p); err != nil {\n\t\tlog.PanicError(err, "write error")\n\t}\n\treturn len(p)', '\tif max < len(p) {\n\t\tp = p[0:max]\n\t}\n\tgot, rerr := r.Read(p)\n\tif rerr != nil {\n\t\tlog.PanicError(rerr, "read error, please check source redis log or network")\n\t}\n\tif _, err := w.Write(p[:got]); err != nil {\n\t\tlog.PanicError(err, "write error")\n\t}\n\treturn got'),
 ]),
 ('REF rdb loop local', [
   ('redis-shake/dbSync/syncBegin.go', '\t\tfor rdbSize != 0 {\n\t\t\t// br -> pipew\n\t\t\trdbSize -= utils.Iocopy(br, pipew, p, rdbSize)\n\t\t}', '\t\tfor rdbSize > 0 {\n\t\t\tmoved := utils.Iocopy(br, pipew, p, rdbSize)\n\t\t\trdbSize = rdbSize - moved\n\t\t}'),
 ]),
 ('REF pipe copy locals', [
   ('redis-shake/dbSync/syncBegin.go', '\t\tn, err := br.Read(p)\n\t\tif err != nil {\n\t\t\treturn nread.Get(), err\n\t\t}\n\t\tif _, err := copyto.Write(p[:n]); err != nil {\n\t\t\treturn nread.Get(), err\n\t\t}\n\t\tnread.Add(int64(n))', '\t\tgot, rerr := br.Read(p)\n\t\tif rerr != nil {\n\t\t\treturn nread.Get(), rerr\n\t\t}\n\t\tchunk := p[0:got]\n\t\t_, werr := copyto.Write(chunk)\n\t\tswitch {\n\t\tcase werr != nil:\n\t\t\treturn nread.Get(), werr\n\t\t}\n\t\tnread.Add(int64(got))'),
 ]),
 ('REF psync reply forms', [
   ('redis-shake/common/utils.go', '\tif len(xx) == 1 && strings.ToLower(xx[0]) == "continue" {', '\tif "CONTINUE" == strings.ToUpper(xx[0]) && len(xx) == 1 {'),
   ('redis-shake/common/utils.go', '\t\trunid, offset := xx[1], v\n\t\treturn runid, offset, waitRdbDump(br), nil', '\t\treturn xx[1], v, waitRdbDump(br), nil'),
 ]),
 ('REF dump inline size', [
   ('redis-shake/dump.go', '\t\tfor nsize != nread.Get() {\n\t\t\tnstep := int(nsize - nread.Get())\n\t\t\tncopy := int64(utils.Iocopy(reader, writer, p, nstep))\n\t\t\tnread.Add(ncopy)\n\t\t\tutils.FlushWriter(writer)\n\t\t}', '\t\t\tfor nread.Get() < nsize {\n\t\t\t\tnread.Add(int64(utils.Iocopy(reader, writer, p, int(nsize-nread.Get()))))\n\t\t\t\tif err := writer.Flush(); err != nil {\n\t\t\t\t\tlog.PanicError(err, "flush error")\n\t\t\t\t}\n\t\t\t}'),
 ]),
 ('REF sendCmd if form', [
   ('redis-shake/dump.go', '\tfor nsize == 0 {\n\t\tselect {\n\t\tcase nsize = <-wait:\n\t\t\tif nsize == 0 {\n\t\t\t\tlog.Infof("routine[%v] + waiting source rdb", dd.id)\n\t\t\t}\n\t\tcase <-time.After(time.Second):\n\t\t\tlog.Infof("routine[%v] - waiting source rdb", dd.id)\n\t\t}\n\t}\n\treturn c, nsize', '\tfor {\n\t\tselect {\n\t\tcase nsize = <-wait:\n\t\t\tif nsize > 0 {\n\t\t\t\treturn c, nsize\n\t\t\t}\n\t\t\tlog.Infof("routine[%v] + waiting source rdb", dd.id)\n\t\tcase <-time.After(time.Second):\n\t\t\tlog.Infof("routine[%v] - waiting source rdb", dd.id)\n\t\t}\n\t}'),
 ]),
 ('FIX reconnect uses wait', [
   ('redis-shake/dbSync/syncBegin.go', '\t\t\t\t_, _, _, err = utils.SendPSyncContinue(br, bw, runId, ds.sourceOffset)\n\t\t\t\tif err != nil {', '\t\t\t\tvar w <-chan int64\n\t\t\t\t_, _, w, err = utils.SendPSyncContinue(br, bw, runId, ds.sourceOffset)\n\t\t\t\tif w != nil {\n\t\t\t\t\tlog.Panicf("DbSyncer[%d] source answered FULLRESYNC on reconnect", ds.id)\n\t\t\t\t}\n\t\t\t\tif err != nil {'),
 ]),
]
