package main

import (
	"rscheck/driver"
	"rscheck/rules/c12"
)

func main() { driver.Main([]driver.PropDef{c12.Def}) }
