package main

import (
	"rscheck/driver"
	"rscheck/rules/c07"
	"rscheck/rules/c16"
	"rscheck/rules/c17"
)

func main() { driver.Main([]driver.PropDef{c07.Def, c16.Def, c17.Def}) }
