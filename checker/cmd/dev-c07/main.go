package main

import (
	"rscheck/driver"
	"rscheck/rules/c07"
)

func main() { driver.Main([]driver.PropDef{c07.Def}) }
