package main

import (
	"rscheck/driver"
	"rscheck/rules/c15"
)

func main() { driver.Main([]driver.PropDef{c15.Def}) }
