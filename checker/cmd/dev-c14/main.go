package main

import (
	"rscheck/driver"
	"rscheck/rules/c14"
)

func main() { driver.Main([]driver.PropDef{c14.Def}) }
