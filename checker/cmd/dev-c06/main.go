package main

import (
	"rscheck/driver"
	"rscheck/rules/c06"
	"rscheck/rules/c14"
	"rscheck/rules/c20"
)

// development binary of the C06/C14/C20 rule sets (select with -prop)
func main() { driver.Main([]driver.PropDef{c06.Def, c14.Def, c20.Def}) }
