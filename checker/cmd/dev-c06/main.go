package main

import (
	"rscheck/driver"
	"rscheck/rules/c06"
)

func main() { driver.Main([]driver.PropDef{c06.Def}) }
