// private development binary of the C12 owner (C12 plus C01/C02, which share the
// grammar engine); not a registered check.
package main

import (
	"rscheck/driver"
	"rscheck/rules/c01"
	"rscheck/rules/c02"
	"rscheck/rules/c12"
)

func main() { driver.Main([]driver.PropDef{c01.Def, c02.Def, c12.Def}) }
