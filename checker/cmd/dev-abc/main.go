// dev-abc runs the C03, C04 and C08 rule sets only (developer binary; the
// registered checks use cmd/rscheck).
package main

import (
	"rscheck/driver"
	"rscheck/rules/c03"
	"rscheck/rules/c04"
	"rscheck/rules/c08"
)

func main() { driver.Main([]driver.PropDef{c03.Def, c04.Def, c08.Def}) }
