// rscheck decides the structural clauses of properties C01..C20 for /repo/src.
package main

import (
	"rscheck/driver"
	"rscheck/rules/c09"
)

func main() {
	driver.Main([]driver.PropDef{
		c09.Def,
	})
}
