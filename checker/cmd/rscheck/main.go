// rscheck decides the structural clauses of properties C01..C20 for /repo/src.
package main

import (
	"rscheck/driver"
	"rscheck/rules/c01"
	"rscheck/rules/c02"
	"rscheck/rules/c03"
	"rscheck/rules/c04"
	"rscheck/rules/c05"
	"rscheck/rules/c06"
	"rscheck/rules/c07"
	"rscheck/rules/c08"
	"rscheck/rules/c09"
	"rscheck/rules/c10"
	"rscheck/rules/c11"
	"rscheck/rules/c12"
	"rscheck/rules/c13"
	"rscheck/rules/c14"
	"rscheck/rules/c15"
	"rscheck/rules/c16"
	"rscheck/rules/c17"
	"rscheck/rules/c18"
	"rscheck/rules/c19"
	"rscheck/rules/c20"
)

func main() {
	driver.Main([]driver.PropDef{
		c08.Def,
		c04.Def,
		c03.Def,
		c15.Def,
		c13.Def,
		c11.Def,
		c20.Def,
		c17.Def,
		c16.Def,
		c14.Def,
		c07.Def,
		c06.Def,
		c01.Def,
		c02.Def,
		c05.Def,
		c09.Def,
		c10.Def,
		c12.Def,
		c18.Def,
		c19.Def,
	})
}
