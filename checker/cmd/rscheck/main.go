// rscheck decides the structural clauses of properties C01..C20 for /repo/src.
package main

import (
	"rscheck/driver"
	"rscheck/rules/c01"
	"rscheck/rules/c02"
	"rscheck/rules/c09"
	"rscheck/rules/c12"
	"rscheck/rules/c18"
	"rscheck/rules/c19"
)

func main() {
	driver.Main([]driver.PropDef{
		c01.Def,
		c02.Def,
		c09.Def,
		c12.Def,
		c18.Def,
		c19.Def,
	})
}
