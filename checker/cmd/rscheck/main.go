// rscheck decides the structural clauses of properties C01..C20 for /repo/src.
package main

import (
	"rscheck/driver"
	"rscheck/rules/all"
)

func main() { driver.Main(all.Defs()) }
