package main

import (
	"rscheck/driver"
	"rscheck/rules/c04"
)

func main() { driver.Main([]driver.PropDef{c04.Def}) }
