package main

import (
	"rscheck/driver"
	"rscheck/rules/c16"
)

func main() { driver.Main([]driver.PropDef{c16.Def}) }
