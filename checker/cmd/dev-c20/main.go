package main

import (
	"rscheck/driver"
	"rscheck/rules/c20"
)

func main() { driver.Main([]driver.PropDef{c20.Def}) }
