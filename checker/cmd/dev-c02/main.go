package main

import (
	"rscheck/driver"
	"rscheck/rules/c02"
)

func main() { driver.Main([]driver.PropDef{c02.Def}) }
