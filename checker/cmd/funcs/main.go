// Command funcs prints the baseline list of module functions (one key per
// line) for core/baseline_funcs.txt. Run it on the pinned tree only.
package main

import (
	"fmt"
	"os"

	"rscheck/core"
)

func main() {
	p, err := core.Load(false, "")
	if err != nil {
		fmt.Fprintln(os.Stderr, err)
		os.Exit(2)
	}
	for _, k := range core.FuncKeys(p) {
		fmt.Println(k)
	}
	for _, k := range core.ClosureKeys(p) {
		fmt.Println(k)
	}
	for _, k := range core.TypeKeys(p) {
		fmt.Println(k)
	}
	for _, k := range core.HashKeys(p) {
		fmt.Println(k)
	}
}
