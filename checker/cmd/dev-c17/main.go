package main

import (
	"rscheck/driver"
	"rscheck/rules/c17"
)

func main() { driver.Main([]driver.PropDef{c17.Def}) }
