package main

import (
	"rscheck/driver"
	"rscheck/rules/c11"
)

func main() { driver.Main([]driver.PropDef{c11.Def}) }
