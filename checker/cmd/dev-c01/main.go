package main

import (
	"rscheck/driver"
	"rscheck/rules/c01"
)

func main() { driver.Main([]driver.PropDef{c01.Def}) }
