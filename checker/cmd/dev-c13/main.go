package main

import (
	"rscheck/driver"
	"rscheck/rules/c13"
)

func main() { driver.Main([]driver.PropDef{c13.Def}) }
