package main

import (
	"rscheck/driver"
	"rscheck/rules/c10"
)

func main() { driver.Main([]driver.PropDef{c10.Def}) }
