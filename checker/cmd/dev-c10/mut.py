#!/usr/bin/env python3
# usage: mut.py PROP BIN  (reads mutants from a python file given as argv[3])
import subprocess,sys,os,re
prop,binp,spec=sys.argv[1],sys.argv[2],sys.argv[3]
ns={}
exec(open(spec).read(),ns)
only=sys.argv[4:] 
for name,edits in ns['MUTANTS']:
    if only and name not in only: continue
    args=['/verif/tools/mut.sh',prop]
    for f,old,new in edits:
        assert '@' not in old and '@' not in new
        args+= [f,'s@'+old+'@'+new+'@']
    env=dict(os.environ,RS_BIN=binp)
    out=subprocess.run(args,env=env,capture_output=True,text=True).stdout
    keys=[]
    for l in out.splitlines():
        m=re.match(r'^  \S+ (\S+): ',l)
        if m: keys.append('V '+m.group(1))
        m=re.match(r'^UNDECIDED property=\S+ (\S+):',l)
        if m: keys.append('U '+m.group(1))
        if l.startswith('MUT') or 'load/typecheck' in l or 'panic' in l: keys.append(l[:200])
    summ=[l for l in out.splitlines() if re.match(r'^C\d\d:',l)]
    print('== %s\n   %s\n   %s'%(name,'\n   '.join(keys) if keys else '(silent)',summ[0] if summ else out[-300:]))
