# Mutants (behaviour-breaking, must be reported) and REF/FIX variants (must stay silent apart from the known key)
# for the C10 rule set. Run:  python3 cmd/dev-c10/mut.py C10 /verif/bin/dev-c10 cmd/dev-c10/mutants.py [name...]
MUTANTS = [
 ('baseline', [
 ]),
 ('drop-offset-decodeText', [
   ('pkg/redis/decoder.go', "\td.offset += int64(len(b))\n\n\tif n := len(b) - 2; n < 0 || b[n] != '\\r' {\n\t\treturn make", "\tif n := len(b) - 2; n < 0 || b[n] != '\\r' {\n\t\treturn make"),
 ]),
 ('drop-offset++', [
   ('pkg/redis/decoder.go', '\td.offset++\n', ''),
 ]),
 ('offset++-before-label', [
   ('pkg/redis/decoder.go', 'ReadByte:\n\td.offset++\n', '\td.offset++\nReadByte:\n'),
 ]),
 ('n<-1 -> n<0 bulk', [
   ('pkg/redis/decoder.go', '\tif n < -1 {\n\t\treturn nil, errors.Trace(ErrBadRespBytesLen)', '\tif n < 0 {\n\t\treturn nil, errors.Trace(ErrBadRespBytesLen)'),
 ]),
 ('n<-1 -> n<-2 array', [
   ('pkg/redis/decoder.go', '\tif n < -1 {\n\t\treturn nil, errors.Trace(ErrBadRespArrayLen)', '\tif n < -2 {\n\t\treturn nil, errors.Trace(ErrBadRespArrayLen)'),
 ]),
 ('remove-LF-check-bulk', [
   ('pkg/redis/decoder.go', "if b[n] != '\\r' || b[n+1] != '\\n' {", "if b[n] != '\\r' {"),
 ]),
 ('remove-CR-check-text', [
   ('pkg/redis/decoder.go', "\tif n := len(b) - 2; n < 0 || b[n] != '\\r' {\n\t\treturn make", '\tif n := len(b) - 2; n < 0 {\n\t\treturn make'),
 ]),
 ('buffer n+1', [
   ('pkg/redis/decoder.go', 'make([]byte, n+2)', 'make([]byte, n+1)'),
 ]),
 ('readfull-offset-n', [
   ('pkg/redis/decoder.go', '\td.offset += int64(len(b))\n\n\tif b[n]', '\td.offset += n\n\n\tif b[n]'),
 ]),
 ('nil->empty decode', [
   ('pkg/redis/decoder.go', '\t} else if n == -1 {\n\t\treturn nil, nil\n\t}\n\n\tb :=', '\t} else if n == -1 {\n\t\treturn []byte{}, nil\n\t}\n\n\tb :='),
 ]),
 ('enc nil test -> len==0', [
   ('pkg/redis/encoder.go', '\tif b == nil {\n\t\treturn e.encodeInt(-1)', '\tif len(b) == 0 {\n\t\treturn e.encodeInt(-1)'),
 ]),
 ('enc CRLF -> LF', [
   ('pkg/redis/encoder.go', '\t\tif _, err := e.w.Write(b); err != nil {\n\t\t\treturn errors.Trace(err)\n\t\t}\n\t\tif _, err := e.w.WriteString("\\r\\n"); err != nil {', '\t\tif _, err := e.w.Write(b); err != nil {\n\t\t\treturn errors.Trace(err)\n\t\t}\n\t\tif _, err := e.w.WriteString("\\n"); err != nil {'),
 ]),
 ('swap tags enc', [
   ('pkg/redis/encoder.go', 'e.encodeType(typeError)', 'e.encodeType(typeString)'),
 ]),
 ('tag const', [
   ('pkg/redis/resp.go', "typeInt       respType = ':'", "typeInt       respType = ';'"),
 ]),
 ('depth not incremented', [
   ('pkg/redis/decoder.go', 'd.decodeResp(depth + 1)', 'd.decodeResp(depth)'),
 ]),
 ('depth check dropped', [
   ('pkg/redis/decoder.go', '\t\tif depth != 0 {\n\t\t\treturn nil, errors.Errorf("bad resp type %s", t)\n\t\t}\n', ''),
 ]),
 ('imap bias', [
   ('pkg/redis/encoder.go', 'strconv.Itoa(i - 1024)', 'strconv.Itoa(i - 1023)'),
 ]),
 ('itos guard', [
   ('pkg/redis/encoder.go', 'n >= 0 && n < int64(len(imap))', 'n < int64(len(imap))'),
 ]),
 ('parseint 32', [
   ('pkg/redis/decoder.go', 'strconv.ParseInt(string(b), 10, 64)', 'strconv.ParseInt(string(b), 10, 32)'),
 ]),
 ('ignore parse err', [
   ('pkg/redis/decoder.go', '\tif n, err := strconv.ParseInt(string(b), 10, 64); err != nil {\n\t\treturn 0, errors.Trace(err)\n\t} else {', '\tif n, err := strconv.ParseInt(string(b), 10, 64); err != nil && n != 0 {\n\t\treturn 0, errors.Trace(err)\n\t} else {'),
 ]),
 ('init offset 1', [
   ('pkg/redis/decoder.go', '&Decoder{r: r, offset: 0}', '&Decoder{r: r, offset: 1}'),
 ]),
 ('fix-F3', [
   ('pkg/redis/decoder.go', '\t\tif err = d.r.UnreadByte(); err != nil {\n\t\t\treturn nil, errors.Trace(err)\n\t\t}', '\t\tif err = d.r.UnreadByte(); err != nil {\n\t\t\treturn nil, errors.Trace(err)\n\t\t}\n\t\td.offset--'),
 ]),
 ('write order bulk', [
   ('pkg/redis/encoder.go', '\t\tif err := e.encodeInt(int64(len(b))); err != nil {\n\t\t\treturn err\n\t\t}\n\t\tif _, err := e.w.Write(b); err != nil {\n\t\t\treturn errors.Trace(err)\n\t\t}', '\t\tif _, err := e.w.Write(b); err != nil {\n\t\t\treturn errors.Trace(err)\n\t\t}\n\t\tif err := e.encodeInt(int64(len(b))); err != nil {\n\t\t\treturn err\n\t\t}'),
 ]),
 ('REF rename locals decodeText', [
   ('pkg/redis/decoder.go', "\tb, err := d.r.ReadBytes('\\n')\n\tif err != nil {\n\t\treturn make([]byte, 0, 0), errors.Trace(err)\n\t}\n\td.offset += int64(len(b))\n\n\tif n := len(b) - 2; n < 0 || b[n] != '\\r' {\n\t\treturn make([]byte, 0, 0), errors.Trace(ErrBadRespCRLFEnd)\n\t} else {\n\t\t//return string(b[:n]), nil\n\t\treturn b[:n], nil\n\t}", "\tline, rerr := d.r.ReadBytes('\\n')\n\tif rerr != nil {\n\t\treturn make([]byte, 0, 0), errors.Trace(rerr)\n\t}\n\td.offset += int64(len(line))\n\n\tend := len(line) - 2\n\tif end < 0 || '\\r' != line[end] {\n\t\treturn make([]byte, 0, 0), errors.Trace(ErrBadRespCRLFEnd)\n\t}\n\treturn line[:end], nil"),
 ]),
 ('REF if->switch bulk', [
   ('pkg/redis/decoder.go', '\tif n < -1 {\n\t\treturn nil, errors.Trace(ErrBadRespBytesLen)\n\t} else if n == -1 {\n\t\treturn nil, nil\n\t}\n\n\tb := make([]byte, n+2)', '\tswitch {\n\tcase n < -1:\n\t\treturn nil, errors.Trace(ErrBadRespBytesLen)\n\tcase n == -1:\n\t\treturn nil, nil\n\t}\n\n\tb := make([]byte, n+2)'),
 ]),
 ('REF tagged switch array', [
   ('pkg/redis/decoder.go', '\tif n < -1 {\n\t\treturn nil, errors.Trace(ErrBadRespArrayLen)\n\t} else if n == -1 {\n\t\treturn nil, nil\n\t}\n\n\ta := make', '\tif n <= -2 {\n\t\treturn nil, errors.Trace(ErrBadRespArrayLen)\n\t}\n\tswitch n {\n\tcase -1:\n\t\treturn nil, nil\n\t}\n\n\ta := make'),
 ]),
 ('REF extract local amount', [
   ('pkg/redis/decoder.go', "\td.offset += int64(len(b))\n\n\tif b[n] != '\\r' || b[n+1] != '\\n' {\n\t\treturn nil, errors.Trace(ErrBadRespCRLFEnd)\n\t}", "\tgot := int64(len(b))\n\td.offset += got\n\n\tif b[n] != '\\r' {\n\t\treturn nil, errors.Trace(ErrBadRespCRLFEnd)\n\t}\n\tif !(b[1+n] == '\\n') {\n\t\treturn nil, errors.Trace(ErrBadRespCRLFEnd)\n\t}"),
 ]),
 ('REF for loop decodeType', [
   ('pkg/redis/decoder.go', 'ReadByte:\n\td.offset++\n\tif b, err := d.r.ReadByte(); err != nil {\n\t\treturn 0, errors.Trace(err)\n\t} else if string(b) == "\\n" {\n\t\t/*\n\t\t * Bugfix: see https://github.com/alibaba/RedisShake/issues/204.\n\t\t * "\\n" occurs before and after the +FULLRESYNC response sometimes at the redis version of 3.2.7.\n\t\t */\n\t\tgoto ReadByte\n\t} else {\n\t\treturn respType(b), nil\n\t}', "\tfor {\n\t\tc, err := d.r.ReadByte()\n\t\tif err != nil {\n\t\t\treturn 0, errors.Trace(err)\n\t\t}\n\t\td.offset = d.offset + 1\n\t\tif c != '\\n' {\n\t\t\treturn respType(c), nil\n\t\t}\n\t}"),
 ]),
 ('REF encoder if-form swapped', [
   ('pkg/redis/encoder.go', '\tif b == nil {\n\t\treturn e.encodeInt(-1)\n\t} else {\n\t\tif err := e.encodeInt(int64(len(b))); err != nil {\n\t\t\treturn err\n\t\t}\n\t\tif _, err := e.w.Write(b); err != nil {\n\t\t\treturn errors.Trace(err)\n\t\t}\n\t\tif _, err := e.w.WriteString("\\r\\n"); err != nil {\n\t\t\treturn errors.Trace(err)\n\t\t}\n\t\treturn nil\n\t}', '\tif nil != b {\n\t\tsize := len(b)\n\t\tif err := e.encodeInt(int64(size)); err != nil {\n\t\t\treturn err\n\t\t}\n\t\tif _, err := e.w.Write(b); err != nil {\n\t\t\treturn errors.Trace(err)\n\t\t}\n\t\tconst crlf = "\\r\\n"\n\t\t_, err := e.w.WriteString(crlf)\n\t\treturn errors.Trace(err)\n\t}\n\treturn e.encodeInt(-1)'),
 ]),
 ('REF range loops', [
   ('pkg/redis/encoder.go', '\t\tfor i := 0; i < len(a); i++ {\n\t\t\tif err := e.encodeResp(a[i]); err != nil {\n\t\t\t\treturn err\n\t\t\t}\n\t\t}', '\t\tfor _, el := range a {\n\t\t\tif err := e.encodeResp(el); err != nil {\n\t\t\t\treturn err\n\t\t\t}\n\t\t}'),
   ('pkg/redis/decoder.go', '\tfor i := 0; i < len(a); i++ {\n\t\tif a[i], err = d.decodeResp(depth + 1); err != nil {', '\tfor i := range a {\n\t\tif a[i], err = d.decodeResp(1 + depth); err != nil {'),
 ]),
]
