package core

import (
	"encoding/json"
	"fmt"
	"go/ast"
	"go/token"
	"os"
	"path/filepath"
	"sort"
	"strings"
	"time"
)

// Status of one obligation.
type Status int

const (
	Pass Status = iota
	Fail
	Undecided
)

func (s Status) String() string {
	switch s {
	case Pass:
		return "pass"
	case Fail:
		return "FAIL"
	}
	return "UNDECIDED"
}

// Obligation is one instance of a rule on one construct. Key identifies the
// construct by rule and resolved names, never by line.
type Obligation struct {
	Rule    string   `json:"rule"`
	Key     string   `json:"key"`
	Pos     string   `json:"pos"`
	Status  string   `json:"status"`
	Detail  string   `json:"detail,omitempty"`
	Witness []string `json:"witness,omitempty"`
	Known   bool     `json:"known_finding,omitempty"`
	st      Status
	// imported: the verdict was taken over from a normalised view under a key the
	// tree as written never got to; a less normalised view does not overturn it
	imported bool
}

// FullKey is "<rule>/<key>".
func (o *Obligation) FullKey() string { return o.Rule + "/" + o.Key }

// Ctx is handed to the rule set of one property.
type Ctx struct {
	*Program
	Prop      string
	Tier      string
	Obs       []*Obligation
	Functions map[string]bool // functions whose bodies were analysed
	Notes     []string
	Extra     map[string]interface{} // merged into the evidence's coverage object
	keys      map[string]int
}

// NewCtx creates the context for one property.
func NewCtx(p *Program, prop, tier string) *Ctx {
	return &Ctx{Program: p, Prop: prop, Tier: tier, Functions: map[string]bool{}, keys: map[string]int{}}
}

func (c *Ctx) add(rule, key string, pos token.Pos, st Status, detail string, witness []string) *Obligation {
	full := rule + "/" + key
	c.keys[full]++
	if n := c.keys[full]; n > 1 {
		key = fmt.Sprintf("%s#%d", key, n)
	}
	o := &Obligation{Rule: rule, Key: key, Pos: c.Pos(pos), Status: st.String(), Detail: detail, Witness: witness, st: st}
	c.Obs = append(c.Obs, o)
	return o
}

// AddImported copies an obligation produced by another property's rule set
// (run on a private context) into c, prefixing its rule with that property.
func (c *Ctx) AddImported(from string, o *Obligation) {
	n := *o
	n.Rule = from + ":" + o.Rule
	c.keys[n.FullKey()]++
	c.Obs = append(c.Obs, &n)
}

// AdoptPasses merges the verdicts of a second run of the same rule set on an
// equivalent program (the tree with new helper functions expanded in place):
// an obligation that is not discharged here is discharged when the other run
// discharged the obligation of the same key, or when that obligation does not
// arise there and the other run has obligations of the same rule, none of them
// open. The expansion keeps every entry point (exported functions and methods,
// methods reachable through an interface, functions nobody refers to), so a
// construct of the tree is present in both programs; only helper-named keys can
// vanish. A proof on either of two equivalent programs is a proof.
func (c *Ctx) AdoptPasses(alt *Ctx) int { return c.AdoptPassesKnown(alt, nil) }

// AdoptPassesKnown is AdoptPasses where a failing obligation of the other run
// that is a recorded known finding (and fails under the same key here as well)
// does not count as an open obligation of its rule.
func (c *Ctx) AdoptPassesKnown(alt *Ctx, known *KnownFile, final ...bool) int {
	isFinal := len(final) == 1 && final[0]
	isKnown := map[string]bool{}
	if known != nil {
		mine := map[string]bool{}
		for _, o := range c.Obs {
			if o.st == Fail {
				mine[o.FullKey()] = true
			}
		}
		for _, k := range known.Findings {
			if k.Property == c.Prop {
				isKnown[k.Key] = true // whether or not this run got as far as that obligation
			}
		}
		_ = mine
	}
	byKey := map[string]*Obligation{}
	open := map[string]int{}
	seen := map[string]int{}
	openTotal := 0
	for _, o := range alt.Obs {
		byKey[o.FullKey()] = o
		seen[o.Rule]++
		if o.st != Pass && !(o.st == Fail && isKnown[o.FullKey()]) {
			open[o.Rule]++
			openTotal++
		}
	}
	n := 0
	early := map[string]bool{} // rules with an undecided obligation here that the other run discharges
	have := map[string]bool{}
	for _, o := range c.Obs {
		have[o.FullKey()] = true
	}
	// the other program is fully decided when nothing on it is undecided: what is
	// open there are violations, which are taken over below
	altUndecided := 0
	passHere := map[string]bool{}
	for _, o := range c.Obs {
		if o.st == Pass {
			passHere[o.FullKey()] = true
		}
	}
	altUndecidedIn := map[string]int{}
	for _, o := range alt.Obs {
		if o.st == Undecided && !passHere[o.FullKey()] {
			altUndecided++ // (what this run has decided itself does not count)
			altUndecidedIn[o.Rule]++
		}
	}
	// a rule that is stuck here on a key the other program does not have, while the
	// other program decides that rule completely and finds violations: the violations
	// are taken over (the stuck obligation itself stays as it is)
	ruleImport := map[string]bool{}
	if isFinal {
		for _, o := range c.Obs {
			if o.st != Undecided || o.imported || o.Rule == "anchor" || o.Rule == "panic" {
				continue
			}
			if _, has := byKey[o.FullKey()]; has {
				continue
			}
			r := o.Rule
			if r == "instances" {
				r = o.Key
			}
			if seen[r] > 0 && altUndecidedIn[r] == 0 && open[r] > 0 {
				ruleImport[r] = true
			}
		}
	}
	fullyDecided := altUndecided == 0
	importFails := false
	for _, o := range c.Obs {
		if o.st == Pass || o.imported {
			continue
		}
		o2, ok := byKey[o.FullKey()]
		wasUndecided := o.st == Undecided
		switch {
		case ok && o2.st == Pass:
			o.Detail = "discharged on the equivalent program obtained by expanding the new helper functions in place: " + o2.Detail + " [on the unexpanded program: " + o.Detail + "]"
		case !ok && o.Rule == "instances" && open["instances"] == 0 && (open[o.Key] == 0 || fullyDecided) && seen[o.Key] > 0:
			if open[o.Key] > 0 {
				importFails = true
			}
			// the instance count of rule o.Key is met on the expanded program (Expect records nothing then)
			o.Detail = "on the equivalent program obtained by expanding the new helper functions in place rule " + o.Key + " matches the expected number of sites and leaves nothing open [on the unexpanded program: " + o.Detail + "]"
		case !ok && (open[o.Rule] == 0 && openTotal == 0 || fullyDecided) && seen[o.Rule] > 0 && o.Rule != "anchor" && o.Rule != "panic" && o.Rule != "instances":
			if openTotal > 0 {
				importFails = true // the other program's violations come with this discharge
			}
			// (nothing at all is open on the other program: a recognition step that
			// failed there, under whatever rule, could be the reason why the key does
			// not arise)
			o.Detail = "does not arise on the equivalent program obtained by expanding the new helper functions in place, where rule " + o.Rule + " leaves nothing open [on the unexpanded program: " + o.Detail + "]"
		default:
			continue
		}
		o.st = Pass
		o.Status = Pass.String()
		o.Witness = nil
		n++
		_ = wasUndecided
		{
			// (a violation reported here that the other program overturns cut the rule
			// short in the same way as an undecided step)
			early[o.Rule] = true
			if o.Rule == "instances" {
				early[o.Key] = true
			}
		}
	}
	// A rule that stopped early here (one undecided obligation, which the other
	// run discharges) has produced none of its other obligations: what the other
	// run found for that rule under keys unknown here comes with the discharge —
	// its violations and its undecided obligations as well as its passes.
	ran := map[string]bool{}
	for _, o := range c.Obs {
		ran[o.Rule] = true
	}
	for _, o2 := range alt.Obs {
		// rules that stopped early here, and - when something was adopted at all -
		// rules that never got to run here because the rule set returned before them
		// (the fully normalised program that discharged something here is relied on: what
		// it complains about under keys this run never produced comes with the discharge,
		// whichever rule it is - a rule may have run here only in part)
		if !(early[o2.Rule] || n > 0 && !ran[o2.Rule] || importFails && o2.st == Fail || isFinal && n > 0 || ruleImport[o2.Rule] && o2.st == Fail) || have[o2.FullKey()] || o2.st == Pass {
			continue
		}
		cp := *o2
		cp.imported = true
		cp.Detail = o2.Detail + " [found on the equivalent program obtained by expanding the new helper functions in place; the rule stopped early on the tree as written]"
		c.Obs = append(c.Obs, &cp)
		have[cp.FullKey()] = true
	}
	return n
}

// AdoptViolations: an obligation that could not be decided on the tree as
// written and that fails, under the same key, on an equivalent normalised
// program is a violation (located on that program; the witness says so). It is
// called after every view had the chance to discharge the obligation.
func (c *Ctx) AdoptViolations(alt *Ctx) int {
	byKey := map[string]*Obligation{}
	for _, o := range alt.Obs {
		if o.st == Fail {
			byKey[o.FullKey()] = o
		}
	}
	n := 0
	for _, o := range c.Obs {
		if o.st != Undecided || o.Rule == "instances" || o.Rule == "anchor" || o.Rule == "panic" || o.Rule == "load" {
			continue
		}
		if o2, ok := byKey[o.FullKey()]; ok {
			o.st = Fail
			o.Status = Fail.String()
			o.Detail = o2.Detail + " [decided on the equivalent program obtained by expanding the new helper functions in place; on the tree as written: " + o.Detail + "]"
			o.Witness = o2.Witness
			if o2.Pos != "" {
				o.Pos = o2.Pos
			}
			n++
		}
	}
	return n
}

// Open reports whether some obligation is not discharged.
func (c *Ctx) Open() bool {
	for _, o := range c.Obs {
		if o.st != Pass {
			return true
		}
	}
	return false
}

// Check records an obligation that passes iff ok.
func (c *Ctx) Check(rule, key string, pos token.Pos, ok bool, detail string, witness ...string) bool {
	st := Pass
	if !ok {
		st = Fail
	}
	c.add(rule, key, pos, st, detail, witness)
	return ok
}

// Okf records a passing obligation.
func (c *Ctx) Okf(rule, key string, pos token.Pos, format string, a ...interface{}) {
	c.add(rule, key, pos, Pass, fmt.Sprintf(format, a...), nil)
}

// Failf records a failing obligation.
func (c *Ctx) Failf(rule, key string, pos token.Pos, format string, a ...interface{}) {
	c.add(rule, key, pos, Fail, fmt.Sprintf(format, a...), nil)
}

// Undecidedf records that the machinery cannot decide (lost anchor,
// unrecognised construct). The run exits 2 without a VIOLATION line.
func (c *Ctx) Undecidedf(rule, key string, pos token.Pos, format string, a ...interface{}) {
	c.add(rule, key, pos, Undecided, fmt.Sprintf(format, a...), nil)
}

// Note adds free text to the evidence.
func (c *Ctx) Note(format string, a ...interface{}) {
	c.Notes = append(c.Notes, fmt.Sprintf(format, a...))
}

// Func resolves an anchor; a missing anchor is recorded as UNDECIDED under
// rule "anchor" and nil is returned.
func (c *Ctx) Func(pkgPath, recv, name string) *Fn {
	f := c.LookupFunc(pkgPath, recv, name)
	label := pkgPath + "." + name
	if recv != "" {
		label = pkgPath + ".(" + recv + ")." + name
	}
	if f == nil || f.Decl == nil || f.Decl.Body == nil {
		c.Undecidedf("anchor", label, token.NoPos, "anchor function %s cannot be resolved in the current tree", label)
		return nil
	}
	c.Functions[label] = true
	return f
}

// FuncOpt resolves an optional anchor without recording anything if absent.
func (c *Ctx) FuncOpt(pkgPath, recv, name string) *Fn {
	f := c.LookupFunc(pkgPath, recv, name)
	if f == nil || f.Decl == nil || f.Decl.Body == nil {
		return nil
	}
	label := pkgPath + "." + name
	if recv != "" {
		label = pkgPath + ".(" + recv + ")." + name
	}
	c.Functions[label] = true
	return f
}

// Expect asserts a minimum instance count for a rule (a rule that matches
// fewer sites than were confirmed by hand must not pass vacuously).
func (c *Ctx) Expect(rule string, min int) {
	n := 0
	for _, o := range c.Obs {
		if o.Rule == rule {
			n++
		}
	}
	if n < min {
		c.Undecidedf("instances", rule, token.NoPos, "rule %s matched %d sites, at least %d were confirmed by hand on the pinned tree", rule, n, min)
	}
}

// Src renders a node as source text (for messages only, never for matching).
func (c *Ctx) Src(n ast.Node) string {
	if n == nil {
		return "<nil>"
	}
	return NodeString(c.Fset, n)
}

// ---------------------------------------------------------------------------
// known findings

// KnownFinding identifies a genuine defect recorded rather than repaired.
type KnownFinding struct {
	Property string `json:"property"`
	Key      string `json:"key"` // "<rule>/<key>" of the failing obligation
	What     string `json:"what"`
	Witness  string `json:"witness"`
}

// KnownFile is /verif/known_findings.json.
type KnownFile struct {
	Findings []KnownFinding `json:"findings"`
	Fixed    []string       `json:"fixed"`
}

// VerifDir is the directory holding known_findings.json and evidence/.
func VerifDir() string {
	if d := os.Getenv("RS_VERIF"); d != "" {
		return d
	}
	return "/verif"
}

// LoadKnown reads the committed known-findings file (never written here).
func LoadKnown() (*KnownFile, error) {
	b, err := os.ReadFile(filepath.Join(VerifDir(), "known_findings.json"))
	if err != nil {
		if os.IsNotExist(err) {
			return &KnownFile{}, nil
		}
		return nil, err
	}
	var k KnownFile
	if err := json.Unmarshal(b, &k); err != nil {
		return nil, err
	}
	return &k, nil
}

// ---------------------------------------------------------------------------
// verdict + evidence

// Result summarises one property run.
type Result struct {
	Prop       string
	Violations []*Obligation
	Known      []*Obligation
	Undecided  []*Obligation
	Exit       int
}

// Finish applies known findings, prints the protocol lines, writes replay
// files and the evidence file, and returns the exit code for this property.
func (c *Ctx) Finish(known *KnownFile, start time.Time, explanation, notDecided string, trusted []string) *Result {
	r := &Result{Prop: c.Prop}
	if len(c.LoadErrors) > 0 {
		for _, e := range c.LoadErrors {
			c.Undecidedf("load", "typecheck", token.NoPos, "%s", e)
		}
	}
	kmap := map[string]KnownFinding{}
	for _, k := range known.Findings {
		if k.Property == c.Prop {
			kmap[k.Key] = k
		}
	}
	pass := 0
	for _, o := range c.Obs {
		switch o.st {
		case Pass:
			pass++
		case Fail:
			if k, ok := kmap[o.FullKey()]; ok {
				o.Known = true
				r.Known = append(r.Known, o)
				fmt.Printf("KNOWN-FINDING: property=%s %s %s\n", c.Prop, o.FullKey(), k.What)
			} else {
				r.Violations = append(r.Violations, o)
			}
		case Undecided:
			r.Undecided = append(r.Undecided, o)
		}
	}
	evdir := filepath.Join(VerifDir(), "evidence")
	os.MkdirAll(filepath.Join(evdir, "replay"), 0o755)
	// stale replay files of this property are removed
	if old, _ := filepath.Glob(filepath.Join(evdir, "replay", c.Prop+"-*.json")); old != nil {
		for _, f := range old {
			os.Remove(f)
		}
	}
	for i, o := range r.Violations {
		path := filepath.Join(evdir, "replay", fmt.Sprintf("%s-%d.json", c.Prop, i+1))
		rep := map[string]interface{}{
			"property": c.Prop, "rule": o.Rule, "key": o.Key, "pos": o.Pos, "detail": o.Detail, "witness": o.Witness,
			"recheck": fmt.Sprintf("/verif/check.sh %s %s", c.Prop, c.Tier),
		}
		b, _ := json.MarshalIndent(rep, "", " ")
		os.WriteFile(path, append(b, '\n'), 0o644)
		fmt.Printf("VIOLATION property=%s replay=%s\n", c.Prop, path)
		fmt.Printf("  %s %s: %s\n", o.Pos, o.FullKey(), o.Detail)
		for _, w := range o.Witness {
			fmt.Printf("    %s\n", w)
		}
	}
	for _, o := range r.Undecided {
		fmt.Printf("UNDECIDED property=%s %s: %s\n", c.Prop, o.FullKey(), o.Detail)
	}
	switch {
	case len(r.Violations) > 0:
		r.Exit = 1
	case len(r.Undecided) > 0:
		r.Exit = 2
	}

	// evidence
	distinct := map[string]bool{}
	rules := map[string]int{}
	for _, o := range c.Obs {
		if o.st != Undecided {
			distinct[o.FullKey()] = true
		}
		rules[o.Rule]++
	}
	var samples []interface{}
	seenRule := map[string]int{}
	for _, o := range c.Obs {
		if seenRule[o.Rule] < 2 || o.st != Pass {
			seenRule[o.Rule]++
			samples = append(samples, o)
		}
		if len(samples) >= 60 {
			break
		}
	}
	var fns []string
	for f := range c.Functions {
		fns = append(fns, f)
	}
	sort.Strings(fns)
	var pkgs []string
	for _, pk := range c.Pkgs {
		if pk.ID == pk.PkgPath {
			pkgs = append(pkgs, strings.TrimPrefix(pk.PkgPath, Module+"/"))
		}
	}
	var knownHit []string
	for _, o := range r.Known {
		knownHit = append(knownHit, o.FullKey())
	}
	cov := map[string]interface{}{
		"explanation":            explanation,
		"not_decided":            notDecided,
		"obligations":            len(c.Obs),
		"discharged":             pass,
		"evaluations":            len(c.Obs),
		"distinct_nontrivial":    len(distinct),
		"rule":                   "one obligation per (rule, resolved construct) found in /repo/src's current working tree; distinct = distinct rule/construct keys with an analysed site (lost anchors and instance-count shortfalls excluded)",
		"samples":                samples,
		"rules":                  rules,
		"packages_loaded":        len(pkgs),
		"packages":               pkgs,
		"functions_analysed":     fns,
		"normalisations_applied": c.Normalisations,
		"main_type_errors":       c.MainTypeErrors,
		"known_findings_hit":     knownHit,
		"undecided":              len(r.Undecided),
		"notes":                  c.Notes,
		"checker_cmd":            fmt.Sprintf("/verif/check.sh %s %s", c.Prop, c.Tier),
		"trusted_base":           trusted,
		"build_context":          map[string]interface{}{"GOOS": orDefault(c.GOOS, "linux"), "tests": c.WithTests},
	}
	for k, v := range c.Extra {
		cov[k] = v
	}
	ev := map[string]interface{}{
		"property_id": c.Prop,
		"tier":        c.Tier,
		"seed":        seedFromEnv(),
		"level":       "other",
		"coverage":    cov,
		"assumptions": trusted,
		"wall_s":      time.Since(start).Seconds(),
		"violations":  len(r.Violations),
	}
	b, _ := json.MarshalIndent(ev, "", " ")
	os.WriteFile(filepath.Join(evdir, c.Prop+".json"), append(b, '\n'), 0o644)
	return r
}

func orDefault(s, d string) string {
	if s == "" {
		return d
	}
	return s
}

func seedFromEnv() int {
	var n int
	fmt.Sscanf(os.Getenv("VERIF_SEED"), "%d", &n)
	return n
}
