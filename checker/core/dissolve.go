package core

import (
	"bytes"
	"crypto/sha1"
	"fmt"
	"go/ast"
	"go/format"
	"go/token"
	"go/types"
	"os"
	"sort"
	"strings"

	"golang.org/x/tools/go/packages"
)

// Second normalisation stage, applied to the tree on which the calls of new
// helper functions have been expanded (inline.go). Three behaviour-preserving
// source-to-source rewrites remove what helper extraction with richer
// signatures leaves behind:
//
//   - `*&x` is x, `(&x).f` is x.f (a pointer out-parameter whose argument `&x`
//     was written in place of the parameter);
//   - a local of a struct type that the baseline does not have (a result struct
//     `span{maxlen, offset}` introduced with the helper) or of an anonymous
//     struct type, which is only ever assigned whole composite literals and read
//     or written field by field, is replaced by one local per field;
//   - a `for … range` over a composite literal of at most 8 elements (given in
//     place, or held in a local that is assigned once and never modified), whose
//     body has no break/continue/goto/defer, is unrolled.
//
// The rewritten files are type-checked again by the loader; any new error drops
// the stage. Nothing is rewritten on the pinned tree: the stage only runs on a
// tree that has new functions, and struct types of the baseline are left alone.

// TypeKeys lists "type|pkg|Name" for every named type declared in the module
// (for generating the baseline).
func TypeKeys(p *Program) []string {
	var out []string
	for _, pk := range p.Pkgs {
		if pk.ID != pk.PkgPath {
			continue
		}
		for _, f := range pk.Syntax {
			if IsTestFile(p.Fset, f) {
				continue
			}
			for _, d := range f.Decls {
				gd, ok := d.(*ast.GenDecl)
				if !ok || gd.Tok != token.TYPE {
					continue
				}
				for _, sp := range gd.Specs {
					if ts, ok := sp.(*ast.TypeSpec); ok {
						out = append(out, "type|"+pk.PkgPath+"|"+ts.Name.Name)
					}
				}
			}
		}
	}
	sort.Strings(out)
	return out
}

// BodyHash is the hash of a function body as printed by go/format (comments
// and layout do not count).
func BodyHash(fset *token.FileSet, fd *ast.FuncDecl) string {
	if fd.Body == nil {
		return ""
	}
	var b bytes.Buffer
	if err := format.Node(&b, fset, fd.Body); err != nil {
		return "?"
	}
	return fmt.Sprintf("%x", sha1.Sum(b.Bytes()))[:16]
}

// HashKeys lists "hash|<function key>|<body hash>" for every module function
// (for generating the baseline): a function whose body differs from the
// baseline's is a changed function, and only changed functions are normalised.
func HashKeys(p *Program) []string {
	var out []string
	for _, pk := range p.Pkgs {
		if pk.ID != pk.PkgPath {
			continue
		}
		for _, f := range pk.Syntax {
			if IsTestFile(p.Fset, f) {
				continue
			}
			for _, d := range f.Decls {
				if fd, ok := d.(*ast.FuncDecl); ok && fd.Body != nil {
					out = append(out, "hash|"+funcKey(pk.PkgPath, fd, pk.TypesInfo)+"|"+BodyHash(p.Fset, fd))
				}
			}
		}
	}
	sort.Strings(out)
	return out
}

// changedFunc: the function is not in the baseline or its body differs.
func changedFunc(p *Program, pk *packages.Package, fd *ast.FuncDecl) bool {
	key := funcKey(pk.PkgPath, fd, pk.TypesInfo)
	if !baselineSet[key] {
		return true
	}
	return !baselineSet["hash|"+key+"|"+BodyHash(p.Fset, fd)]
}

type rewriter struct {
	p    *Program
	pk   *packages.Package
	info *types.Info
	src  []byte
	file *ast.File
	base int // offset of file start in fset
	gen  map[ast.Node]func() string
	n    int
	// touched: an earlier stage rewrote this file; only there are loops unrolled,
	// anonymous structs split and &-* pairs cancelled (the pinned code is left as
	// it is; splitting a struct type the baseline does not have is done anywhere)
	touched bool
	// sinks: one flag per statement group that was moved into another statement's
	// generator; set when that generator ran. A group whose generator never ran was
	// dropped by a colliding rewrite: the file's stage is abandoned then.
	sinks []*bool
}

func (rw *rewriter) off(pos token.Pos) int { return rw.p.Fset.Position(pos).Offset }

// text renders node n with every rewritten descendant replaced.
func (rw *rewriter) text(n ast.Node) string {
	if g, ok := rw.gen[n]; ok {
		return g()
	}
	return rw.inner(n)
}

// inner renders n itself from the source, with rewritten descendants replaced.
func (rw *rewriter) inner(n ast.Node) string {
	var subs []ast.Node
	ast.Inspect(n, func(m ast.Node) bool {
		if m == nil || m == n {
			return true
		}
		if _, ok := rw.gen[m]; ok {
			subs = append(subs, m)
			return false
		}
		return true
	})
	start, end := rw.off(n.Pos()), rw.off(n.End())
	if len(subs) == 0 {
		return string(rw.src[start:end])
	}
	sort.Slice(subs, func(i, j int) bool { return subs[i].Pos() < subs[j].Pos() })
	var b strings.Builder
	at := start
	for _, s := range subs {
		so, se := rw.off(s.Pos()), rw.off(s.End())
		if so < at {
			continue
		}
		b.Write(rw.src[at:so])
		b.WriteString(rw.gen[s]())
		at = se
	}
	b.Write(rw.src[at:end])
	return b.String()
}

// dissolveNewStructs returns rewritten sources for the files of p in which one
// of the three rewrites applies.
func dissolveNewStructs(p *Program) (map[string][]byte, []string) {
	out := map[string][]byte{}
	var notes []string
	total := 0
	for _, pk := range p.Pkgs {
		if pk.ID != pk.PkgPath || pk.TypesInfo == nil || pk.PkgPath == MainPkg {
			continue
		}
		for _, f := range pk.Syntax {
			if IsTestFile(p.Fset, f) {
				continue
			}
			path := p.Fset.Position(f.Pos()).Filename
			src, ok := p.Overlay[path]
			if !ok {
				var err error
				if src, err = os.ReadFile(path); err != nil {
					continue
				}
			}
			rw := &rewriter{p: p, pk: pk, info: pk.TypesInfo, src: src, file: f, gen: map[ast.Node]func() string{}, touched: p.Rewritten[path]}
			fileTouched := rw.touched
			for _, d := range f.Decls {
				if fd, ok := d.(*ast.FuncDecl); ok && fd.Body != nil {
					rw.touched = fileTouched || changedFunc(p, pk, fd)
					rw.function(fd)
				}
			}
			if rw.n == 0 {
				continue
			}
			// render the whole file
			var b bytes.Buffer
			b.Write(src[:rw.off(f.Package)])
			start := rw.off(f.Package)
			end := len(src)
			_ = end
			// file body: from the package clause to the end, with rewrites
			body := rw.renderRange(f, start, len(src))
			b.WriteString(body)
			lost := false
			for _, ran := range rw.sinks {
				if !*ran {
					lost = true
				}
			}
			if lost {
				notes = append(notes, fmt.Sprintf("struct/loop normalisation of %s abandoned: a moved statement was not rendered", path))
				continue
			}
			res, err := format.Source(b.Bytes())
			if err != nil {
				notes = append(notes, fmt.Sprintf("struct/loop normalisation of %s abandoned: %v", path, err))
				continue
			}
			out[path] = res
			total += rw.n
		}
	}
	if total > 0 {
		notes = append(notes, fmt.Sprintf("second normalisation stage: %d rewrites (address-of/dereference pairs, result structs split into locals, loops over literals unrolled) in %d files", total, len(out)))
	}
	return out, notes
}

// renderRange renders the file from byte offset start to end with all rewrites.
func (rw *rewriter) renderRange(f *ast.File, start, end int) string {
	var subs []ast.Node
	ast.Inspect(f, func(m ast.Node) bool {
		if m == nil {
			return true
		}
		if _, ok := rw.gen[m]; ok {
			subs = append(subs, m)
			return false
		}
		return true
	})
	sort.Slice(subs, func(i, j int) bool { return subs[i].Pos() < subs[j].Pos() })
	var b strings.Builder
	at := start
	for _, s := range subs {
		so, se := rw.off(s.Pos()), rw.off(s.End())
		if so < at {
			continue
		}
		b.Write(rw.src[at:so])
		b.WriteString(rw.gen[s]())
		at = se
	}
	b.Write(rw.src[at:end])
	return b.String()
}

func (rw *rewriter) isNewStruct(t types.Type) (*types.Struct, bool) {
	if t == nil {
		return nil, false
	}
	st, ok := t.Underlying().(*types.Struct)
	if !ok || st.NumFields() == 0 || st.NumFields() > 8 {
		return nil, false
	}
	switch x := t.(type) {
	case *types.Named:
		o := x.Obj()
		if o.Pkg() == nil || !strings.HasPrefix(o.Pkg().Path(), Module) {
			return nil, false
		}
		if baselineSet["type|"+o.Pkg().Path()+"|"+o.Name()] {
			return nil, false
		}
		// (a type with methods is split as well once no method call on the local is
		// left: the validity check below rejects a local that is still used whole)
		return st, true
	case *types.Struct:
		return st, rw.touched
	}
	return nil, false
}

// function plans the rewrites inside one function.
func (rw *rewriter) function(fd *ast.FuncDecl) {
	info := rw.info
	// parents, for context tests
	parent := map[ast.Node]ast.Node{}
	var stack []ast.Node
	ast.Inspect(fd, func(n ast.Node) bool {
		if n == nil {
			stack = stack[:len(stack)-1]
			return true
		}
		if len(stack) > 0 {
			parent[n] = stack[len(stack)-1]
		}
		stack = append(stack, n)
		return true
	})
	names := map[string]bool{}
	ast.Inspect(fd, func(n ast.Node) bool {
		if id, ok := n.(*ast.Ident); ok {
			names[id.Name] = true
		}
		return true
	})

	// ---- `p := &x` with x a local and p only ever used as p.f / p.m(): p.f is x.f
	if rw.touched {
		declCount := map[string]int{}
		ast.Inspect(fd, func(n ast.Node) bool {
			if id, ok := n.(*ast.Ident); ok && info.Defs[id] != nil {
				declCount[id.Name]++
			}
			return true
		})
		ast.Inspect(fd.Body, func(n ast.Node) bool {
			as, ok := n.(*ast.AssignStmt)
			if !ok || as.Tok != token.DEFINE || len(as.Lhs) != 1 || len(as.Rhs) != 1 || !inListOf(parent, as) {
				return true
			}
			pid, ok := as.Lhs[0].(*ast.Ident)
			u, isU := ast.Unparen(as.Rhs[0]).(*ast.UnaryExpr)
			if !ok || !isU || u.Op != token.AND || info.Defs[pid] == nil {
				return true
			}
			xid, isId := ast.Unparen(u.X).(*ast.Ident)
			if !isId {
				return true
			}
			xv, _ := info.Uses[xid].(*types.Var)
			if xv == nil || xv.IsField() || xv.Pkg() == nil || xv.Parent() == xv.Pkg().Scope() || declCount[xv.Name()] != 1 {
				return true
			}
			if _, isStruct := xv.Type().Underlying().(*types.Struct); !isStruct {
				return true
			}
			pobj := info.Defs[pid]
			good := true
			var uses []*ast.SelectorExpr
			var blanks []ast.Stmt
			ast.Inspect(fd.Body, func(m ast.Node) bool {
				id, isId := m.(*ast.Ident)
				if !isId || info.Uses[id] != pobj {
					return true
				}
				switch pp := parent[id].(type) {
				case *ast.SelectorExpr:
					if pp.X == ast.Expr(id) {
						uses = append(uses, pp)
						return true
					}
				case *ast.AssignStmt:
					if len(pp.Lhs) == 1 && len(pp.Rhs) == 1 && pp.Rhs[0] == ast.Expr(id) && inListOf(parent, pp) {
						if b, isB := pp.Lhs[0].(*ast.Ident); isB && b.Name == "_" {
							blanks = append(blanks, pp)
							return true
						}
					}
				}
				good = false
				return false
			})
			if !good || len(uses) == 0 {
				return true
			}
			name := xv.Name()
			for _, se := range uses {
				se := se
				if rw.gen[se] != nil {
					return true
				}
				rw.gen[se] = func() string { return name + "." + se.Sel.Name }
			}
			rw.gen[as] = func() string { return "" }
			for _, b := range blanks {
				rw.gen[b] = func() string { return "" }
			}
			rw.n++
			return true
		})
	}

	// ---- *&x and (&x).f
	ast.Inspect(fd.Body, func(n ast.Node) bool {
		if !rw.touched {
			return false
		}
		switch x := n.(type) {
		case *ast.StarExpr:
			if u, ok := ast.Unparen(x.X).(*ast.UnaryExpr); ok && u.Op == token.AND {
				if _, isLit := ast.Unparen(u.X).(*ast.CompositeLit); !isLit {
					inner := u.X
					rw.gen[x] = func() string { return paren(inner, rw.text(inner)) }
					rw.n++
				}
			}
		case *ast.SelectorExpr:
			if u, ok := ast.Unparen(x.X).(*ast.UnaryExpr); ok && u.Op == token.AND {
				if _, isLit := ast.Unparen(u.X).(*ast.CompositeLit); !isLit {
					if _, isField := info.Selections[x]; isField && info.Selections[x].Kind() == types.FieldVal {
						inner, sel := u.X, x.Sel.Name
						rw.gen[x] = func() string { return paren(inner, rw.text(inner)) + "." + sel }
						rw.n++
					}
				}
			}
		}
		return true
	})

	// ---- a method or function value bound once to a local that is only called:
	// `next := l.NextBinEntry; … next()` is `l.NextBinEntry()` when l is not
	// reassigned in between (l is a parameter, receiver or single-assignment local)
	if rw.touched {
		type mv struct {
			def   ast.Stmt
			rhs   ast.Expr
			calls []*ast.CallExpr
			blank []ast.Stmt
			ok    bool
		}
		mvs := map[types.Object]*mv{}
		assignedVars := map[types.Object]int{}
		ast.Inspect(fd.Body, func(n ast.Node) bool {
			switch x := n.(type) {
			case *ast.AssignStmt:
				for _, l := range x.Lhs {
					if id, ok := ast.Unparen(l).(*ast.Ident); ok {
						if o := info.Uses[id]; o != nil {
							assignedVars[o]++
						}
					}
				}
			case *ast.IncDecStmt:
				if id, ok := ast.Unparen(x.X).(*ast.Ident); ok {
					assignedVars[info.Uses[id]]++
				}
			case *ast.UnaryExpr:
				if id, ok := ast.Unparen(x.X).(*ast.Ident); ok && x.Op == token.AND {
					assignedVars[info.Uses[id]]++
				}
			}
			return true
		})
		ast.Inspect(fd.Body, func(n ast.Node) bool {
			var defStmt ast.Stmt
			var id *ast.Ident
			var rhs0 ast.Expr
			switch as := n.(type) {
			case *ast.AssignStmt:
				if as.Tok != token.DEFINE || len(as.Lhs) != 1 || len(as.Rhs) != 1 || !inListOf(parent, as) {
					return true
				}
				lid, ok := as.Lhs[0].(*ast.Ident)
				if !ok {
					return true
				}
				defStmt, id, rhs0 = as, lid, as.Rhs[0]
			case *ast.DeclStmt:
				// `var check func() error = t.checkVersion` (what unrolling a loop over a
				// table of method values leaves)
				gd, ok := as.Decl.(*ast.GenDecl)
				if !ok || gd.Tok != token.VAR || len(gd.Specs) != 1 || !inListOf(parent, as) {
					return true
				}
				vs, ok := gd.Specs[0].(*ast.ValueSpec)
				if !ok || len(vs.Names) != 1 || len(vs.Values) != 1 {
					return true
				}
				defStmt, id, rhs0 = as, vs.Names[0], vs.Values[0]
			default:
				return true
			}
			if info.Defs[id] == nil {
				return true
			}
			rhs := ast.Unparen(rhs0)
			stable := false
			switch r := rhs.(type) {
			case *ast.Ident:
				_, stable = info.Uses[r].(*types.Func)
			case *ast.SelectorExpr:
				if sel, has := info.Selections[r]; has && sel.Kind() == types.MethodVal {
					// the receiver: an identifier (possibly with field selections) rooted at
					// something never assigned in this function
					root := ast.Unparen(r.X)
					for {
						if s2, isSel := root.(*ast.SelectorExpr); isSel {
							root = ast.Unparen(s2.X)
							continue
						}
						break
					}
					if rid, isId := root.(*ast.Ident); isId {
						if o := info.Uses[rid]; o != nil && assignedVars[o] == 0 {
							if _, isVar := o.(*types.Var); isVar {
								stable = root == ast.Unparen(r.X) // plain `x.M` only: fields of x may change
							}
						}
					}
				} else if _, isFunc := info.Uses[r.Sel].(*types.Func); isFunc {
					if pid, isId := ast.Unparen(r.X).(*ast.Ident); isId {
						_, stable = info.Uses[pid].(*types.PkgName)
					}
				}
			}
			if stable {
				mvs[info.Defs[id]] = &mv{def: defStmt, rhs: rhs0, ok: true}
			}
			return true
		})
		if len(mvs) > 0 {
			ast.Inspect(fd.Body, func(n ast.Node) bool {
				id, ok := n.(*ast.Ident)
				if !ok {
					return true
				}
				m := mvs[info.Uses[id]]
				if m == nil {
					return true
				}
				if call, isCall := parent[id].(*ast.CallExpr); isCall && ast.Unparen(call.Fun) == ast.Expr(id) {
					if _, inGo := parent[call].(*ast.GoStmt); !inGo {
						if _, inDefer := parent[call].(*ast.DeferStmt); !inDefer {
							m.calls = append(m.calls, call)
							return true
						}
					}
				}
				if as, isAs := parent[id].(*ast.AssignStmt); isAs && len(as.Lhs) == 1 && len(as.Rhs) == 1 && as.Rhs[0] == ast.Expr(id) {
					if b, isB := as.Lhs[0].(*ast.Ident); isB && b.Name == "_" && inListOf(parent, as) {
						m.blank = append(m.blank, as)
						return true
					}
				}
				m.ok = false
				return true
			})
			for o, m := range mvs {
				if !m.ok || len(m.calls) == 0 || assignedVars[o] > 0 {
					continue
				}
				m := m
				rw.gen[m.def] = func() string { return "" }
				for _, b := range m.blank {
					rw.gen[b] = func() string { return "" }
				}
				for _, call := range m.calls {
					fun := call.Fun
					rw.gen[fun] = func() string { return rw.text(m.rhs) }
				}
				rw.n++
			}
		}
	}

	// ---- a function literal called in place becomes a closure bound to a local
	// and a call of it (the next expansion round then treats it like any closure):
	// `v := func() T {…}()`  ->  `iife_n := func() T {…}; v := iife_n()`
	if rw.touched {
		ast.Inspect(fd.Body, func(n ast.Node) bool {
			var call *ast.CallExpr
			var st ast.Stmt
			switch x := n.(type) {
			case *ast.ExprStmt:
				call, _ = ast.Unparen(x.X).(*ast.CallExpr)
				st = x
			case *ast.AssignStmt:
				if len(x.Rhs) == 1 {
					call, _ = ast.Unparen(x.Rhs[0]).(*ast.CallExpr)
					st = x
				}
			}
			if call == nil || !inListOf(parent, st) || call.Ellipsis.IsValid() {
				return true
			}
			lit, ok := ast.Unparen(call.Fun).(*ast.FuncLit)
			if !ok {
				return true
			}
			name := fmt.Sprintf("iife_%d", rw.off(lit.Pos()))
			if names[name] {
				return true
			}
			rw.gen[call.Fun] = func() string { return name }
			stmt := st
			prev, had := rw.gen[stmt]
			_ = prev
			if had {
				return true
			}
			rw.gen[stmt] = func() string { return name + " := " + rw.inner(lit) + "\n" + rw.inner(stmt) }
			rw.n++
			return false
		})
		// `L: if c { body; goto L }` is `for c { body }` when nothing else jumps to L
		// and the body has no break/continue of its own
		ast.Inspect(fd.Body, func(n ast.Node) bool {
			ls, ok := n.(*ast.LabeledStmt)
			if !ok || !inListOf(parent, ls) {
				return true
			}
			ifs, ok := ls.Stmt.(*ast.IfStmt)
			if !ok || ifs.Init != nil || ifs.Else != nil || len(ifs.Body.List) == 0 {
				return true
			}
			last, ok := ifs.Body.List[len(ifs.Body.List)-1].(*ast.BranchStmt)
			if !ok || last.Tok != token.GOTO || last.Label == nil || last.Label.Name != ls.Label.Name {
				return true
			}
			refs, bad := 0, false
			ast.Inspect(fd.Body, func(m ast.Node) bool {
				if b, isB := m.(*ast.BranchStmt); isB && b.Label != nil && b.Label.Name == ls.Label.Name {
					refs++
				}
				return true
			})
			ast.Inspect(ifs.Body, func(m ast.Node) bool {
				switch y := m.(type) {
				case *ast.FuncLit:
					return false
				case *ast.BranchStmt:
					if y != last && (y.Tok == token.BREAK || y.Tok == token.CONTINUE || y.Tok == token.GOTO) {
						bad = true
					}
				}
				return true
			})
			if refs != 1 || bad {
				return true
			}
			rw.gen[ls] = func() string {
				var b strings.Builder
				b.WriteString("for " + rw.text(ifs.Cond) + " {\n")
				for _, st := range ifs.Body.List[:len(ifs.Body.List)-1] {
					b.WriteString(rw.text(st))
					b.WriteString("\n")
				}
				b.WriteString("}")
				return b.String()
			}
			rw.n++
			return true
		})
	}

	// ---- a function literal bound to a local that is never called any more
	// (all its calls were expanded): the literal and the `_ = f` keeping it used go
	if rw.touched {
		type fl struct {
			decl   ast.Stmt
			blanks []ast.Stmt
			ok     bool
		}
		lits := map[types.Object]*fl{}
		ast.Inspect(fd.Body, func(n ast.Node) bool {
			switch x := n.(type) {
			case *ast.DeclStmt:
				if gd, ok := x.Decl.(*ast.GenDecl); ok && gd.Tok == token.VAR && len(gd.Specs) == 1 && inListOf(parent, x) {
					if vs, ok := gd.Specs[0].(*ast.ValueSpec); ok && len(vs.Names) == 1 && len(vs.Values) == 1 {
						if _, isLit := ast.Unparen(vs.Values[0]).(*ast.FuncLit); isLit {
							if o := info.Defs[vs.Names[0]]; o != nil {
								lits[o] = &fl{decl: x, ok: true}
							}
						}
					}
				}
			case *ast.AssignStmt:
				if x.Tok == token.DEFINE && len(x.Lhs) == 1 && len(x.Rhs) == 1 && inListOf(parent, x) {
					if _, isLit := ast.Unparen(x.Rhs[0]).(*ast.FuncLit); isLit {
						if id, isId := x.Lhs[0].(*ast.Ident); isId {
							if o := info.Defs[id]; o != nil {
								lits[o] = &fl{decl: x, ok: true}
							}
						}
					}
				}
			}
			return true
		})
		if len(lits) > 0 {
			ast.Inspect(fd.Body, func(n ast.Node) bool {
				id, ok := n.(*ast.Ident)
				if !ok {
					return true
				}
				l := lits[info.Uses[id]]
				if l == nil {
					return true
				}
				if as, isAs := parent[id].(*ast.AssignStmt); isAs && len(as.Lhs) == 1 && len(as.Rhs) == 1 && as.Rhs[0] == ast.Expr(id) && inListOf(parent, as) {
					if b, isId := as.Lhs[0].(*ast.Ident); isId && b.Name == "_" {
						l.blanks = append(l.blanks, as)
						return true
					}
				}
				l.ok = false
				return true
			})
			for _, l := range lits {
				if !l.ok {
					continue
				}
				rw.gen[l.decl] = func() string { return "" }
				for _, b := range l.blanks {
					rw.gen[b] = func() string { return "" }
				}
				rw.n++
			}
		}
	}

	// ---- if statements whose condition is decided by constants (`x || true`
	// left behind by a helper called with a constant flag)
	if rw.touched {
		rw.flowRewrites(fd, parent)
		var pure func(e ast.Expr) bool
		pure = func(e ast.Expr) bool {
			ok := true
			ast.Inspect(e, func(m ast.Node) bool {
				switch y := m.(type) {
				case *ast.CallExpr:
					if tv, has := info.Types[y.Fun]; has && tv.IsType() {
						return true
					}
					if id, isId := ast.Unparen(y.Fun).(*ast.Ident); isId && (id.Name == "len" || id.Name == "cap") {
						if _, isB := info.Uses[id].(*types.Builtin); isB {
							return true
						}
					}
					ok = false
				case *ast.UnaryExpr:
					if y.Op == token.ARROW {
						ok = false
					}
				case *ast.FuncLit:
					ok = false
				}
				return ok
			})
			return ok
		}
		var decide func(e ast.Expr) (val, known bool)
		decide = func(e ast.Expr) (bool, bool) {
			e = ast.Unparen(e)
			if tv, has := info.Types[e]; has && tv.Value != nil {
				if b, isB := tv.Type.Underlying().(*types.Basic); isB && b.Info()&types.IsBoolean != 0 {
					return tv.Value.String() == "true", true
				}
			}
			switch x := e.(type) {
			case *ast.UnaryExpr:
				if x.Op == token.NOT {
					v, k := decide(x.X)
					return !v, k
				}
			case *ast.BinaryExpr:
				a, ka := decide(x.X)
				b, kb := decide(x.Y)
				switch x.Op {
				case token.LOR:
					if ka && a && pure(x.Y) || kb && b && pure(x.X) {
						return true, true
					}
					if ka && kb {
						return a || b, true
					}
				case token.LAND:
					if ka && !a && pure(x.Y) || kb && !b && pure(x.X) {
						return false, true
					}
					if ka && kb {
						return a && b, true
					}
				}
			}
			return false, false
		}
		// `a || false` is a, `a && true` is a
		ast.Inspect(fd.Body, func(n ast.Node) bool {
			be, ok := n.(*ast.BinaryExpr)
			if !ok || (be.Op != token.LOR && be.Op != token.LAND) {
				return true
			}
			if _, whole := decide(be); whole {
				return true
			}
			neutral := be.Op == token.LAND // true is neutral for &&, false for ||
			for _, pr := range [][2]ast.Expr{{be.X, be.Y}, {be.Y, be.X}} {
				if v, k := decide(pr[1]); k && v == neutral && pure(pr[1]) {
					keep := pr[0]
					rw.gen[be] = func() string { return rw.text(keep) }
					rw.n++
					break
				}
			}
			return true
		})
		// a block that declares nothing is spliced into the list it stands in
		ast.Inspect(fd.Body, func(n ast.Node) bool {
			blk, ok := n.(*ast.BlockStmt)
			if !ok || !inListOf(parent, blk) || blk == fd.Body {
				return true
			}
			declares := false
			for _, st := range blk.List {
				switch y := st.(type) {
				case *ast.DeclStmt, *ast.LabeledStmt:
					declares = true
				case *ast.AssignStmt:
					if y.Tok == token.DEFINE {
						declares = true
					}
				}
			}
			if declares && len(blk.List) > 0 {
				// the last statement of its list: what it declares can live in the enclosing
				// scope when no name of that scope is declared a second time
				var list []ast.Stmt
				switch pp := parent[blk].(type) {
				case *ast.BlockStmt:
					if pp != fd.Body && inListOf(parent, pp) {
						return true // a bare block that may be spliced itself this round: decided in the next
					}
					list = pp.List
				case *ast.CaseClause:
					list = pp.Body
				case *ast.CommClause:
					list = pp.Body
				}
				if len(list) == 0 || list[len(list)-1] != ast.Stmt(blk) {
					return true
				}
				declared := func(l []ast.Stmt, into map[string]bool) bool {
					for _, st := range l {
						switch y := st.(type) {
						case *ast.LabeledStmt:
							return false
						case *ast.DeclStmt:
							gd, isGen := y.Decl.(*ast.GenDecl)
							if !isGen {
								return false
							}
							for _, sp := range gd.Specs {
								switch z := sp.(type) {
								case *ast.ValueSpec:
									for _, nm := range z.Names {
										into[nm.Name] = true
									}
								case *ast.TypeSpec:
									into[z.Name.Name] = true
								}
							}
						case *ast.AssignStmt:
							if y.Tok == token.DEFINE {
								for _, l := range y.Lhs {
									if id, isId := l.(*ast.Ident); isId && info.Defs[id] != nil {
										into[id.Name] = true
									}
								}
							}
						}
					}
					return true
				}
				inner, outer := map[string]bool{}, map[string]bool{}
				if !declared(blk.List, inner) || !declared(list[:len(list)-1], outer) {
					return true
				}
				if parent[blk] == ast.Node(fd.Body) {
					for _, fl := range []*ast.FieldList{fd.Recv, fd.Type.Params, fd.Type.Results} {
						if fl != nil {
							for _, f := range fl.List {
								for _, nm := range f.Names {
									outer[nm.Name] = true
								}
							}
						}
					}
				}
				for nm := range inner {
					if outer[nm] && nm != "_" {
						return true
					}
				}
				// (a `:=` of the block that re-uses one of its own earlier names keeps working;
				// one that would now re-use a name of the enclosing list was excluded above)
				declares = false
			}
			if declares || len(blk.List) == 0 || rw.gen[blk] != nil {
				return true // (a block another rewrite of this round works on is left to the next round)
			}
			rw.gen[blk] = func() string {
				var b strings.Builder
				for _, st := range blk.List {
					b.WriteString(rw.text(st))
					b.WriteString("\n")
				}
				return b.String()
			}
			rw.n++
			return true
		})
		// a switch without a tag is the if / else-if chain of its cases (no fallthrough,
		// no break that leaves the switch)
		ast.Inspect(fd.Body, func(n ast.Node) bool {
			sw, ok := n.(*ast.SwitchStmt)
			if !ok || sw.Tag != nil || sw.Init != nil || !inListOf(parent, sw) || len(sw.Body.List) == 0 || rw.gen[sw] != nil {
				return true
			}
			if _, labelled := parent[sw].(*ast.LabeledStmt); labelled {
				return true
			}
			plain := true
			var leaves func(n ast.Node, inner bool)
			leaves = func(n ast.Node, inner bool) {
				ast.Inspect(n, func(m ast.Node) bool {
					if !plain {
						return false
					}
					switch y := m.(type) {
					case *ast.FuncLit:
						return false
					case *ast.ForStmt, *ast.RangeStmt, *ast.SwitchStmt, *ast.TypeSwitchStmt, *ast.SelectStmt:
						if m != n {
							if !inner {
								leaves(m, true)
							}
							return false
						}
					case *ast.BranchStmt:
						if y.Tok == token.FALLTHROUGH && !inner {
							plain = false
						}
						if y.Tok == token.BREAK && y.Label == nil && !inner {
							plain = false
						}
					}
					return true
				})
			}
			var deflt *ast.CaseClause
			var cases []*ast.CaseClause
			for _, st := range sw.Body.List {
				cc := st.(*ast.CaseClause)
				for _, b := range cc.Body {
					leaves(b, false)
				}
				if cc.List == nil {
					deflt = cc
				} else {
					cases = append(cases, cc)
				}
			}
			if !plain || len(cases) == 0 {
				return true
			}
			rw.gen[sw] = func() string {
				var b strings.Builder
				for i, cc := range cases {
					if i > 0 {
						b.WriteString(" else ")
					}
					var conds []string
					for _, e := range cc.List {
						t := rw.text(e)
						if len(cc.List) > 1 {
							t = "(" + t + ")"
						}
						conds = append(conds, t)
					}
					b.WriteString("if " + strings.Join(conds, " || ") + " {\n")
					for _, st := range cc.Body {
						b.WriteString(rw.text(st) + "\n")
					}
					b.WriteString("}")
				}
				if deflt != nil {
					b.WriteString(" else {\n")
					for _, st := range deflt.Body {
						b.WriteString(rw.text(st) + "\n")
					}
					b.WriteString("}")
				}
				return b.String()
			}
			rw.n++
			return true
		})
		ast.Inspect(fd.Body, func(n ast.Node) bool {
			ifs, ok := n.(*ast.IfStmt)
			if !ok || ifs.Init != nil || !inListOf(parent, ifs) || rw.gen[ifs] != nil {
				return true
			}
			v, known := decide(ifs.Cond)
			if !known {
				return true
			}
			rw.n++
			if v {
				rw.gen[ifs] = func() string { return rw.inner(ifs.Body) }
			} else if ifs.Else != nil {
				rw.gen[ifs] = func() string { return rw.text(ifs.Else) }
			} else {
				rw.gen[ifs] = func() string { return "{}" }
			}
			return true
		})
	}

	// ---- struct locals
	type cand struct {
		v       *types.Var
		st      *types.Struct
		fields  []string
		ok      bool
		defs    int
		nilDecl bool       // `var p *T` without a value
		alias   *cand      // the local whose field variables this one shares (its object was handed over by `alias = this`)
		ptr     bool       // the local is a pointer to the struct (defined once by &T{…})
		elem    types.Type // the struct type
	}
	type aliasRq struct {
		to, from *types.Var
		at       *ast.AssignStmt
	}
	var aliasReq []aliasRq
	cands := map[*types.Var]*cand{}
	var deps [][2]*types.Var // whole-value copies between candidates: both or neither
	blankUses := map[*types.Var][]ast.Stmt{}
	localOf := func(id *ast.Ident) *types.Var {
		o := info.Uses[id]
		if o == nil {
			o = info.Defs[id]
		}
		v, ok := o.(*types.Var)
		if !ok || v.IsField() || v.Pkg() == nil || v.Parent() == nil || v.Parent() == v.Pkg().Scope() {
			return nil
		}
		if v.Pos() < fd.Body.Pos() || v.Pos() > fd.Body.End() {
			return nil
		}
		return v
	}
	ast.Inspect(fd.Body, func(n ast.Node) bool {
		id, ok := n.(*ast.Ident)
		if !ok {
			return true
		}
		v := localOf(id)
		if v == nil || cands[v] != nil {
			return true
		}
		vt := v.Type()
		isPtr := false
		if pt, ok := vt.(*types.Pointer); ok {
			// p := &T{…} that is never reassigned and only used through p.f
			vt, isPtr = pt.Elem(), true
		}
		if st, isNew := rw.isNewStruct(vt); isNew {
			c := &cand{v: v, st: st, ok: true, ptr: isPtr, elem: vt}
			for i := 0; i < st.NumFields(); i++ {
				if st.Field(i).Embedded() {
					c.ok = false
				}
				c.fields = append(c.fields, st.Field(i).Name())
			}
			for _, f := range c.fields {
				if names[v.Name()+"_"+f] || f == "_" {
					c.ok = false
				}
			}
			cands[v] = c
		}
		return true
	})
	inList := func(s ast.Stmt) bool {
		switch pp := parent[s].(type) {
		case *ast.BlockStmt, *ast.CaseClause, *ast.CommClause:
			_ = pp
			return true
		}
		return false
	}
	isLitOf := func(e ast.Expr, c *cand) *ast.CompositeLit {
		e = ast.Unparen(e)
		if c.ptr {
			u, isU := e.(*ast.UnaryExpr)
			if !isU || u.Op != token.AND {
				return nil
			}
			e = ast.Unparen(u.X)
		}
		cl, ok := e.(*ast.CompositeLit)
		if !ok || !types.Identical(info.TypeOf(cl), c.elem) {
			return nil
		}
		keyed := false
		for _, el := range cl.Elts {
			if _, isKV := el.(*ast.KeyValueExpr); isKV {
				keyed = true
			}
		}
		if !keyed && len(cl.Elts) != 0 && len(cl.Elts) != len(c.fields) {
			return nil
		}
		return cl
	}
	// every use must be a recognised form
	ast.Inspect(fd.Body, func(n ast.Node) bool {
		id, ok := n.(*ast.Ident)
		if !ok {
			return true
		}
		v := localOf(id)
		c := cands[v]
		if v == nil || c == nil || !c.ok {
			return true
		}
		switch pp := parent[id].(type) {
		case *ast.SelectorExpr:
			if pp.X != ast.Expr(id) {
				c.ok = false
				return true
			}
			if s, has := info.Selections[pp]; !has || s.Kind() != types.FieldVal {
				c.ok = false
				return true
			}
			// (&r.f and pointer-receiver methods on r.f are fine: the field local is addressable too)
		case *ast.AssignStmt:
			idx := -1
			for i, l := range pp.Lhs {
				if l == ast.Expr(id) {
					idx = i
				}
			}
			if idx < 0 && len(pp.Lhs) == 1 && len(pp.Rhs) == 1 && pp.Rhs[0] == ast.Expr(id) && inList(pp) {
				if b, isId := pp.Lhs[0].(*ast.Ident); isId && b.Name == "_" {
					blankUses[v] = append(blankUses[v], pp)
					return true // `_ = r` keeps r used; it goes with r
				}
			}
			if idx < 0 && len(pp.Lhs) == len(pp.Rhs) && inList(pp) && (pp.Tok == token.ASSIGN || pp.Tok == token.DEFINE) {
				// the whole value copied into another candidate of the same type
				for i, r := range pp.Rhs {
					if r != ast.Expr(id) {
						continue
					}
					if lid, isId := pp.Lhs[i].(*ast.Ident); isId {
						if lv := localOf(lid); lv != nil && cands[lv] != nil && types.Identical(lv.Type(), v.Type()) {
							if c.ptr {
								// `sc = s`: the one object gets a second name (decided below)
								if pp.Tok != token.ASSIGN || len(pp.Lhs) != 1 {
									c.ok = false
									return true
								}
								aliasReq = append(aliasReq, aliasRq{lv, v, pp})
							}
							deps = append(deps, [2]*types.Var{lv, v})
							return true
						}
					}
				}
			}
			if idx < 0 || len(pp.Lhs) != len(pp.Rhs) || !inList(pp) || (pp.Tok != token.ASSIGN && pp.Tok != token.DEFINE) {
				c.ok = false
				return true
			}
			if c.ptr {
				// a pointer local stands for one object: defined once, by a literal (or,
				// declared without a value, by taking over another such local's object)
				c.defs++
				if c.defs > 1 {
					c.ok = false
					return true
				}
				if isLitOf(pp.Rhs[idx], c) == nil {
					rid, isId := ast.Unparen(pp.Rhs[idx]).(*ast.Ident)
					var rv *types.Var
					if isId {
						rv = localOf(rid)
					}
					if rv == nil || cands[rv] == nil || !cands[rv].ptr || !types.Identical(rv.Type(), v.Type()) || pp.Tok != token.ASSIGN || len(pp.Lhs) != 1 {
						c.ok = false
					}
					return true
				}
			}
			if isLitOf(pp.Rhs[idx], c) == nil {
				rid, isId := ast.Unparen(pp.Rhs[idx]).(*ast.Ident)
				var rv *types.Var
				if isId {
					rv = localOf(rid)
				}
				if rv == nil || cands[rv] == nil || !types.Identical(rv.Type(), v.Type()) {
					c.ok = false
				}
			}
			if pp.Tok == token.DEFINE {
				// every other left-hand side must be new as well or blank (a mixed := is kept simple)
				for i, l := range pp.Lhs {
					if i == idx {
						continue
					}
					lid, isId := l.(*ast.Ident)
					if !isId || (lid.Name != "_" && info.Defs[lid] == nil) {
						c.ok = false
					}
				}
			}
		case *ast.ValueSpec:
			ds, isDecl := parent[parent[pp]].(*ast.DeclStmt)
			if !isDecl || !inList(ds) || len(pp.Names) != 1 || len(parent[pp].(*ast.GenDecl).Specs) != 1 {
				c.ok = false
				return true
			}
			if c.ptr {
				if len(pp.Values) == 0 {
					c.nilDecl = true
				} else {
					c.defs++
				}
				if c.defs > 1 || len(pp.Values) > 1 {
					c.ok = false
					return true
				}
			}
			if len(pp.Values) == 1 {
				if isLitOf(pp.Values[0], c) == nil {
					c.ok = false
				}
			} else if len(pp.Values) != 0 {
				c.ok = false
			}
			if len(pp.Values) == 0 {
				// `var r T`: the field types must be printable in this file
				if _, named := c.v.Type().(*types.Named); !named {
					if pp.Type == nil {
						c.ok = false
					}
				}
			}
		default:
			c.ok = false
		}
		return true
	})
	// one object under two names: `var sc *T; { s := &T{…}; …; sc = s }` with s not used
	// afterwards - s shares sc's field variables
	for _, rq := range aliasReq {
		to, from := cands[rq.to], cands[rq.from]
		if to == nil || from == nil {
			continue
		}
		good := to.ok && from.ok && to.nilDecl && to.defs == 1 && from.defs == 1 && !from.nilDecl && from.alias == nil && to.alias == nil
		var fromDef ast.Stmt
		if good {
			ast.Inspect(fd.Body, func(n ast.Node) bool {
				id, isId := n.(*ast.Ident)
				if !isId {
					return true
				}
				if info.Uses[id] == types.Object(rq.from) && id.Pos() > rq.at.End() {
					good = false // still used under its own name after the hand-over
				}
				if info.Defs[id] == types.Object(rq.from) {
					switch d := parent[id].(type) {
					case *ast.AssignStmt:
						if len(d.Lhs) == 1 {
							fromDef = d
						}
					case *ast.ValueSpec:
						if ds, isDecl := parent[parent[d]].(*ast.DeclStmt); isDecl {
							fromDef = ds
						}
					}
				}
				if info.Defs[id] == types.Object(rq.to) && fromDef != nil {
					good = false // sc must be declared before s is
				}
				return true
			})
		}
		if good && (fromDef == nil || parent[fromDef] != parent[rq.at]) {
			good = false
		}
		if good {
			from.alias = to
		} else {
			to.ok, from.ok = false, false
		}
	}
	for changed := true; changed; {
		changed = false
		for _, d := range deps {
			a, b := cands[d[0]], cands[d[1]]
			if a == nil || b == nil {
				continue
			}
			if a.ok != b.ok {
				a.ok, b.ok = false, false
				changed = true
			}
		}
	}
	fieldName := func(c *cand, f string) string {
		if c.alias != nil {
			c = c.alias
		}
		return c.v.Name() + "_" + f
	}
	// the type of field i as source text valid in this file
	fieldType := func(c *cand, i int) (string, bool) {
		q := func(pk *types.Package) string {
			if pk == rw.pk.Types {
				return ""
			}
			for _, im := range rw.file.Imports {
				ipath := strings.Trim(im.Path.Value, `"`)
				if ipath == pk.Path() {
					if im.Name != nil {
						return im.Name.Name
					}
					return pk.Name()
				}
			}
			return "\x00"
		}
		s := types.TypeString(c.st.Field(i).Type(), q)
		return s, !strings.Contains(s, "\x00")
	}
	litValues := func(c *cand, cl *ast.CompositeLit) ([]string, bool) {
		// a constant element keeps the field's type once it initialises a variable of
		// its own (`lastdb: 0` of a uint32 field must not become an int)
		typedConst := func(j int, v ast.Expr, txt string) string {
			tv, has := info.Types[v]
			if !has || tv.Value == nil {
				return txt
			}
			if _, basic := c.st.Field(j).Type().Underlying().(*types.Basic); !basic {
				return txt
			}
			if ts, ok := fieldType(c, j); ok {
				return ts + "(" + txt + ")"
			}
			return txt
		}
		vals := make([]string, len(c.fields))
		set := make([]bool, len(c.fields))
		for i, el := range cl.Elts {
			if kv, ok := el.(*ast.KeyValueExpr); ok {
				k, isId := kv.Key.(*ast.Ident)
				if !isId {
					return nil, false
				}
				found := false
				for j, f := range c.fields {
					if f == k.Name {
						v := kv.Value
						vals[j] = typedConst(j, v, rw.text(v))
						set[j] = true
						found = true
					}
				}
				if !found {
					return nil, false
				}
			} else {
				vals[i] = typedConst(i, el, rw.text(el))
				set[i] = true
			}
		}
		for j := range vals {
			if !set[j] {
				ts, ok := fieldType(c, j)
				if !ok {
					return nil, false
				}
				vals[j] = zeroLiteral(c.st.Field(j).Type(), ts)
			}
		}
		return vals, true
	}
	for _, c := range cands {
		if !c.ok {
			continue
		}
		// types printable where needed?
		printable := true
		for i := range c.fields {
			if _, ok := fieldType(c, i); !ok {
				printable = false
			}
		}
		if !printable {
			continue
		}
		c := c
		planned := 0
		for _, b := range blankUses[c.v] {
			rw.gen[b] = func() string { return "" }
		}
		ast.Inspect(fd.Body, func(n ast.Node) bool {
			switch x := n.(type) {
			case *ast.SelectorExpr:
				if id, ok := x.X.(*ast.Ident); ok && localOf(id) == c.v {
					nm := fieldName(c, x.Sel.Name)
					rw.gen[x] = func() string { return nm }
					planned++
				}
			case *ast.DeclStmt:
				gd := x.Decl.(*ast.GenDecl)
				if gd.Tok != token.VAR || len(gd.Specs) != 1 {
					return true
				}
				vs := gd.Specs[0].(*ast.ValueSpec)
				if len(vs.Names) != 1 || localOf(vs.Names[0]) != c.v {
					return true
				}
				rw.gen[x] = func() string {
					var b strings.Builder
					var vals []string
					if len(vs.Values) == 1 {
						vals, _ = litValues(c, isLitOf(vs.Values[0], c))
					}
					for i, f := range c.fields {
						ts, _ := fieldType(c, i)
						if c.alias != nil && vals != nil {
							fmt.Fprintf(&b, "%s = %s\n", fieldName(c, f), vals[i]) // the variables exist already
							continue
						}
						if vals != nil {
							fmt.Fprintf(&b, "var %s %s = %s\n", fieldName(c, f), ts, vals[i])
						} else {
							fmt.Fprintf(&b, "var %s %s\n", fieldName(c, f), ts)
						}
						fmt.Fprintf(&b, "_ = %s\n", fieldName(c, f))
					}
					return b.String()
				}
				planned++
			case *ast.AssignStmt:
				idx := -1
				for i, l := range x.Lhs {
					if id, ok := l.(*ast.Ident); ok && localOf(id) == c.v {
						idx = i
					}
				}
				if idx < 0 {
					return true
				}
				prev := rw.gen[x]
				rw.gen[x] = func() string {
					// several candidates may share one assignment: build from the
					// current left/right lists
					_ = prev
					var lhs, rhs []string
					var tail strings.Builder
					for i, l := range x.Lhs {
						id, isId := l.(*ast.Ident)
						var cc *cand
						if isId {
							if v := localOf(id); v != nil && cands[v] != nil && cands[v].ok {
								cc = cands[v]
							}
						}
						if cc == nil {
							lhs = append(lhs, rw.text(l))
							rhs = append(rhs, rw.text(x.Rhs[i]))
							continue
						}
						var vals []string
						ok := false
						if cl := isLitOf(x.Rhs[i], cc); cl != nil {
							vals, ok = litValues(cc, cl)
						} else if rid, isId := ast.Unparen(x.Rhs[i]).(*ast.Ident); isId {
							if rv := localOf(rid); rv != nil && cands[rv] != nil && cands[rv].ok {
								for _, f := range cc.fields {
									vals = append(vals, fieldName(cands[rv], f))
								}
								ok = true
							}
						}
						if !ok {
							lhs = append(lhs, rw.text(l))
							rhs = append(rhs, rw.text(x.Rhs[i]))
							continue
						}
						for j, f := range cc.fields {
							lhs = append(lhs, fieldName(cc, f))
							rhs = append(rhs, vals[j])
							if x.Tok == token.DEFINE && cc.alias == nil {
								fmt.Fprintf(&tail, "\n_ = %s", fieldName(cc, f))
							}
						}
					}
					same := len(lhs) == len(rhs)
					for i := range lhs {
						if same && lhs[i] != rhs[i] {
							same = false
						}
					}
					if same && x.Tok == token.ASSIGN {
						return "" // the hand-over of an object whose field variables are shared
					}
					tok := x.Tok
					if tok == token.DEFINE && len(x.Lhs) == 1 {
						if cc := cands[localOf(x.Lhs[0].(*ast.Ident))]; cc != nil && cc.ok && cc.alias != nil {
							tok = token.ASSIGN // the variables exist already
						}
					}
					return strings.Join(lhs, ", ") + " " + tok.String() + " " + strings.Join(rhs, ", ") + tail.String()
				}
				planned++
			}
			return true
		})
		rw.n += planned
	}

	// ---- loops over literals
	ast.Inspect(fd.Body, func(n ast.Node) bool {
		rs, ok := n.(*ast.RangeStmt)
		if !ok || !inList(rs) || rs.Tok == token.ASSIGN || !rw.touched {
			return true
		}
		if _, labelled := parent[rs].(*ast.LabeledStmt); labelled {
			return true
		}
		lit := rw.literalOf(fd, rs.X)
		if lit == nil || len(lit.Elts) == 0 || len(lit.Elts) > 8 {
			return true
		}
		for _, el := range lit.Elts {
			if _, isKV := el.(*ast.KeyValueExpr); isKV {
				return true
			}
		}
		simple := true
		ast.Inspect(rs.Body, func(m ast.Node) bool {
			switch y := m.(type) {
			case *ast.BranchStmt, *ast.DeferStmt, *ast.LabeledStmt, *ast.FuncLit, *ast.GoStmt:
				_ = y
				simple = false
			}
			return simple
		})
		if !simple {
			return true
		}
		// the element type, spelled as in the literal (elided element types need it)
		var elemType string
		switch t := lit.Type.(type) {
		case *ast.ArrayType:
			elemType = rw.inner(t.Elt)
		default:
			return true
		}
		keyName, valName := "", ""
		if id, ok := rs.Key.(*ast.Ident); ok && id.Name != "_" {
			keyName = id.Name
		}
		if rs.Value != nil {
			if id, ok := rs.Value.(*ast.Ident); ok && id.Name != "_" {
				valName = id.Name
			} else if !ok {
				return true
			}
		}
		if rs.Key != nil {
			if _, ok := rs.Key.(*ast.Ident); !ok {
				return true
			}
		}
		// the key variable, when the body does not assign it, is replaced by the
		// index, and table[key] by the element itself
		var keyObj types.Object
		if keyName != "" {
			keyObj = info.Defs[rs.Key.(*ast.Ident)]
			ast.Inspect(rs.Body, func(m ast.Node) bool {
				switch y := m.(type) {
				case *ast.AssignStmt:
					for _, l := range y.Lhs {
						if id, isId := ast.Unparen(l).(*ast.Ident); isId && info.Uses[id] == keyObj {
							keyObj = nil
						}
					}
				case *ast.IncDecStmt:
					if id, isId := ast.Unparen(y.X).(*ast.Ident); isId && info.Uses[id] == keyObj {
						keyObj = nil
					}
				case *ast.UnaryExpr:
					if id, isId := ast.Unparen(y.X).(*ast.Ident); isId && y.Op == token.AND && info.Uses[id] == keyObj {
						keyObj = nil
					}
				}
				return true
			})
		}
		elemText := func(el ast.Expr) string {
			et := rw.text(el)
			if cl, isCl := el.(*ast.CompositeLit); isCl && cl.Type == nil {
				et = elemType + et
			}
			return et
		}
		rw.gen[rs] = func() string {
			var b strings.Builder
			if base, isId := ast.Unparen(rs.X).(*ast.Ident); isId {
				fmt.Fprintf(&b, "_ = %s\n", base.Name)
			} else if sl, isSl := ast.Unparen(rs.X).(*ast.SliceExpr); isSl {
				if base, isId := ast.Unparen(sl.X).(*ast.Ident); isId {
					fmt.Fprintf(&b, "_ = %s\n", base.Name)
				}
			}
			for i, el := range lit.Elts {
				b.WriteString("{\n")
				var tmp []ast.Node
				if keyObj != nil {
					idx := fmt.Sprintf("%d", i)
					et := "(" + elemText(el) + ")"
					ast.Inspect(rs.Body, func(m ast.Node) bool {
						switch y := m.(type) {
						case *ast.IndexExpr:
							if id, isId := ast.Unparen(y.Index).(*ast.Ident); isId && info.Uses[id] == keyObj && rw.literalOf(fd, y.X) == lit {
								if _, taken := rw.gen[y]; !taken {
									rw.gen[y] = func() string { return et }
									tmp = append(tmp, y)
									return false
								}
							}
						case *ast.Ident:
							if info.Uses[y] == keyObj {
								if _, taken := rw.gen[y]; !taken {
									rw.gen[y] = func() string { return idx }
									tmp = append(tmp, y)
								}
							}
						}
						return true
					})
				} else if keyName != "" {
					fmt.Fprintf(&b, "%s := %d\n_ = %s\n", keyName, i, keyName)
				}
				if valName != "" {
					fmt.Fprintf(&b, "var %s %s = %s\n_ = %s\n", valName, elemType, elemText(el), valName)
				}
				body := rw.inner(rs.Body)
				for _, t := range tmp {
					delete(rw.gen, t)
				}
				b.WriteString(strings.TrimSuffix(strings.TrimPrefix(strings.TrimSpace(body), "{"), "}"))
				b.WriteString("\n}\n")
			}
			return b.String()
		}
		rw.n++
		return true
	})
}

// zeroLiteral spells the zero value of t (ts is t as source text).
func zeroLiteral(t types.Type, ts string) string {
	switch u := t.Underlying().(type) {
	case *types.Basic:
		switch {
		case u.Info()&types.IsBoolean != 0:
			return ts + "(false)"
		case u.Info()&types.IsNumeric != 0:
			return ts + "(0)"
		case u.Info()&types.IsString != 0:
			return ts + `("")`
		}
	case *types.Pointer, *types.Slice, *types.Map, *types.Chan, *types.Signature, *types.Interface:
		return "(" + ts + ")(nil)"
	}
	return "*new(" + ts + ")"
}

// paren wraps text in parentheses unless e is an identifier or a selector chain.
func paren(e ast.Expr, text string) string {
	switch ast.Unparen(e).(type) {
	case *ast.Ident, *ast.SelectorExpr, *ast.IndexExpr:
		return text
	}
	return "(" + text + ")"
}

func inListOf(parent map[ast.Node]ast.Node, s ast.Stmt) bool {
	switch parent[s].(type) {
	case *ast.BlockStmt, *ast.CaseClause, *ast.CommClause:
		return true
	}
	return false
}

// literalOf resolves a range operand to a composite literal: the literal itself,
// `lit[:]`, or a local that is assigned the literal once and never modified.
func (rw *rewriter) literalOf(fd *ast.FuncDecl, e ast.Expr) *ast.CompositeLit {
	e = ast.Unparen(e)
	if sl, ok := e.(*ast.SliceExpr); ok && sl.Low == nil && sl.High == nil && sl.Max == nil {
		e = ast.Unparen(sl.X)
	}
	if cl, ok := e.(*ast.CompositeLit); ok {
		if _, isArr := cl.Type.(*ast.ArrayType); isArr {
			return cl
		}
		return nil
	}
	id, ok := e.(*ast.Ident)
	if !ok {
		return nil
	}
	obj := rw.info.Uses[id]
	v, isVar := obj.(*types.Var)
	if !isVar || v.IsField() || v.Pos() < fd.Body.Pos() || v.Pos() > fd.Body.End() {
		return nil
	}
	var def *ast.CompositeLit
	okAll := true
	ast.Inspect(fd.Body, func(n ast.Node) bool {
		switch x := n.(type) {
		case *ast.AssignStmt:
			for i, l := range x.Lhs {
				root := l
				for {
					switch y := ast.Unparen(root).(type) {
					case *ast.IndexExpr:
						root = y.X
						continue
					case *ast.SliceExpr:
						root = y.X
						continue
					}
					break
				}
				lid, isId := ast.Unparen(root).(*ast.Ident)
				if !isId || (rw.info.Uses[lid] != obj && rw.info.Defs[lid] != obj) {
					continue
				}
				if root != l || len(x.Lhs) != len(x.Rhs) || def != nil {
					okAll = false
					continue
				}
				cl, isCl := ast.Unparen(x.Rhs[i]).(*ast.CompositeLit)
				if !isCl {
					okAll = false
					continue
				}
				def = cl
			}
		case *ast.ValueSpec:
			for i, nm := range x.Names {
				if rw.info.Defs[nm] == obj {
					if len(x.Values) != len(x.Names) || def != nil {
						okAll = false
						continue
					}
					cl, isCl := ast.Unparen(x.Values[i]).(*ast.CompositeLit)
					if !isCl {
						okAll = false
						continue
					}
					def = cl
				}
			}
		case *ast.UnaryExpr:
			if x.Op == token.AND {
				if aid, isId := ast.Unparen(x.X).(*ast.Ident); isId && rw.info.Uses[aid] == obj {
					okAll = false
				}
			}
		case *ast.CallExpr:
			// the table handed to a function (other than len/cap) may be modified there
			if fid, isId := ast.Unparen(x.Fun).(*ast.Ident); isId && (fid.Name == "len" || fid.Name == "cap") {
				return true
			}
			for _, a := range x.Args {
				a = ast.Unparen(a)
				if sl, isSl := a.(*ast.SliceExpr); isSl {
					a = ast.Unparen(sl.X)
				}
				if aid, isId := a.(*ast.Ident); isId && rw.info.Uses[aid] == obj {
					okAll = false
				}
			}
		}
		return true
	})
	if !okAll || def == nil {
		return nil
	}
	if _, isArr := def.Type.(*ast.ArrayType); !isArr {
		return nil
	}
	return def
}
