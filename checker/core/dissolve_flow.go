package core

import (
	"fmt"
	"go/ast"
	"go/constant"
	"go/token"
	"go/types"
	"regexp"
	"sort"
	"strings"
)

// Control-flow rewrites of the second normalisation stage (changed functions only):
//
//   - sinkTests: `switch … { arms }; if <tests over variables the arms set> {…}` -
//     the if-chain is moved to the end of every arm (and of a default arm added when
//     there is none). A verdict computed in the arms and dispatched on afterwards
//     becomes, after foldAfterConstants, the early returns it stands for.
//   - foldAfterConstants: an if-chain directly after `v, w = c1, c2` (constants or nil)
//     drops the links those constants decide.
//   - splitCases: `case A, B: … switch t { case A: x; case B: y } …` inside a switch
//     over the same t becomes `case A: … x …; case B: … y …`.

func (rw *rewriter) leavesSwitch(sw ast.Stmt, bodies [][]ast.Stmt) bool {
	bad := false
	var walk func(n ast.Node)
	walk = func(n ast.Node) {
		ast.Inspect(n, func(m ast.Node) bool {
			if bad {
				return false
			}
			switch y := m.(type) {
			case *ast.FuncLit:
				return false
			case *ast.ForStmt, *ast.RangeStmt, *ast.SwitchStmt, *ast.TypeSwitchStmt, *ast.SelectStmt:
				if m != n {
					// an unlabelled break inside belongs to that statement; fallthrough cannot leave it
					return false
				}
			case *ast.BranchStmt:
				if y.Tok == token.FALLTHROUGH || y.Tok == token.BREAK && y.Label == nil {
					bad = true
				}
			}
			return true
		})
	}
	for _, b := range bodies {
		for _, st := range b {
			switch st.(type) {
			case *ast.ForStmt, *ast.RangeStmt, *ast.SwitchStmt, *ast.TypeSwitchStmt, *ast.SelectStmt:
				continue // its own breaks
			}
			walk(st)
		}
	}
	return bad
}

func (rw *rewriter) pureExpr(e ast.Expr) bool {
	ok := true
	ast.Inspect(e, func(m ast.Node) bool {
		switch y := m.(type) {
		case *ast.CallExpr:
			if tv, has := rw.info.Types[y.Fun]; has && tv.IsType() {
				return true
			}
			ok = false
		case *ast.UnaryExpr:
			if y.Op == token.ARROW {
				ok = false
			}
		case *ast.FuncLit, *ast.IndexExpr, *ast.StarExpr, *ast.SliceExpr, *ast.TypeAssertExpr:
			ok = false
		}
		return ok
	})
	return ok
}

// localVarsOf: the local variables an expression mentions (nil when it mentions
// anything else that is not a constant, nil, a type or a package).
func (rw *rewriter) testVars(e ast.Expr) (map[*types.Var]bool, bool) {
	out := map[*types.Var]bool{}
	ok := true
	ast.Inspect(e, func(m ast.Node) bool {
		switch y := m.(type) {
		case *ast.SelectorExpr:
			if tv, has := rw.info.Types[y]; has && tv.Value != nil {
				return false // pkg.Const
			}
			ok = false
			return false
		case *ast.Ident:
			switch o := rw.info.Uses[y].(type) {
			case *types.Var:
				if o.IsField() || o.Parent() == nil || o.Pkg() == nil || o.Parent() == o.Pkg().Scope() {
					ok = false
				} else {
					out[o] = true
				}
			case *types.Const, *types.Nil, *types.TypeName, *types.PkgName, *types.Builtin:
			default:
				ok = false
			}
		}
		return ok
	})
	return out, ok
}

func stmtCount(n ast.Node) int {
	k := 0
	ast.Inspect(n, func(m ast.Node) bool {
		if _, ok := m.(ast.Stmt); ok {
			k++
		}
		return true
	})
	return k
}

// assignsConstTo: the statement list ends (ignoring a trailing return/branch? no:
// must end) in an assignment that gives one of vars a constant or nil.
func (rw *rewriter) endsInConstAssign(l []ast.Stmt, vars map[*types.Var]bool) bool {
	if len(l) == 0 {
		return false
	}
	as, ok := l[len(l)-1].(*ast.AssignStmt)
	if !ok || len(as.Lhs) != len(as.Rhs) {
		return false
	}
	for i, lh := range as.Lhs {
		id, isId := lh.(*ast.Ident)
		if !isId {
			continue
		}
		v, _ := rw.info.Uses[id].(*types.Var)
		if v == nil {
			v, _ = rw.info.Defs[id].(*types.Var)
		}
		if v == nil || !vars[v] {
			continue
		}
		if tv, has := rw.info.Types[as.Rhs[i]]; has && (tv.Value != nil || tv.IsNil()) {
			return true
		}
	}
	return false
}

func (rw *rewriter) flowRewrites(fd *ast.FuncDecl, parent map[ast.Node]ast.Node) {
	info := rw.info
	lists := func(visit func(l []ast.Stmt)) {
		ast.Inspect(fd.Body, func(n ast.Node) bool {
			switch x := n.(type) {
			case *ast.BlockStmt:
				visit(x.List)
			case *ast.CaseClause:
				visit(x.Body)
			case *ast.CommClause:
				visit(x.Body)
			}
			return true
		})
	}

	// ---- `var ( a = x; b = y )` inside a function: one declaration each
	ast.Inspect(fd.Body, func(n ast.Node) bool {
		ds, ok := n.(*ast.DeclStmt)
		if !ok || !inListOf(parent, ds) {
			return true
		}
		gd, isGen := ds.Decl.(*ast.GenDecl)
		if !isGen || gd.Tok != token.VAR || len(gd.Specs) < 2 || rw.gen[ds] != nil {
			return true
		}
		rw.gen[ds] = func() string {
			var b strings.Builder
			for _, sp := range gd.Specs {
				b.WriteString("var " + rw.text(sp) + "\n")
			}
			return b.String()
		}
		rw.n++
		return true
	})

	// ---- `for init; cond; post { B }` whose init or post calls a function the baseline
	// does not have (an iterator's next()): `{ init; for cond { B; post } }`, so that the
	// calls are statements the expansion reaches. Only when B has no continue.
	isNewCall := func(n ast.Node) bool {
		hit := false
		ast.Inspect(n, func(m ast.Node) bool {
			call, ok := m.(*ast.CallExpr)
			if !ok || hit {
				return !hit
			}
			var fo *types.Func
			switch f := ast.Unparen(call.Fun).(type) {
			case *ast.Ident:
				fo, _ = info.Uses[f].(*types.Func)
			case *ast.SelectorExpr:
				if sel, has := info.Selections[f]; has {
					fo, _ = sel.Obj().(*types.Func)
				} else {
					fo, _ = info.Uses[f.Sel].(*types.Func)
				}
			}
			if fo == nil || fo.Pkg() == nil || !strings.HasPrefix(fo.Pkg().Path(), Module) {
				return true
			}
			recv := ""
			if sig, _ := fo.Type().(*types.Signature); sig != nil && sig.Recv() != nil {
				recv = NamedTypeName(sig.Recv().Type())
			}
			if !baselineSet[fo.Pkg().Path()+"|"+recv+"|"+fo.Name()] {
				hit = true
			}
			return !hit
		})
		return hit
	}
	ast.Inspect(fd.Body, func(n ast.Node) bool {
		fs, ok := n.(*ast.ForStmt)
		if !ok || !inListOf(parent, fs) || rw.gen[fs] != nil || (fs.Init == nil && fs.Post == nil && fs.Cond == nil) {
			return true
		}
		if _, labelled := parent[fs].(*ast.LabeledStmt); labelled {
			return true
		}
		condNew := fs.Cond != nil && isNewCall(fs.Cond)
		if !(fs.Init != nil && isNewCall(fs.Init) || fs.Post != nil && isNewCall(fs.Post)) {
			if condNew {
				// `for init; h(); post { B }`: the test becomes the first statement of the body
				// (it is evaluated at the top of every iteration, also after a continue)
				rw.gen[fs] = func() string {
					var b strings.Builder
					b.WriteString("for ")
					if fs.Init != nil || fs.Post != nil {
						if fs.Init != nil {
							b.WriteString(rw.text(fs.Init))
						}
						b.WriteString("; ; ")
						if fs.Post != nil {
							b.WriteString(rw.text(fs.Post) + " ")
						}
					}
					b.WriteString("{\nif !(" + rw.text(fs.Cond) + ") {\nbreak\n}\n")
					for _, st := range fs.Body.List {
						b.WriteString(rw.text(st) + "\n")
					}
					b.WriteString("}")
					return b.String()
				}
				rw.n++
			}
			return true
		}
		// no continue that belongs to this loop; nothing the body declares is used by post
		good := true
		var walk func(n ast.Node, depth int)
		walk = func(n ast.Node, depth int) {
			ast.Inspect(n, func(m ast.Node) bool {
				switch y := m.(type) {
				case *ast.FuncLit:
					return false
				case *ast.ForStmt, *ast.RangeStmt:
					if m != n {
						walk(m, depth+1)
						return false
					}
				case *ast.BranchStmt:
					if y.Tok == token.CONTINUE && (depth == 0 || y.Label != nil) {
						good = false
					}
				}
				return good
			})
		}
		for _, st := range fs.Body.List {
			switch st.(type) {
			case *ast.ForStmt, *ast.RangeStmt:
				walk(st, 1)
			default:
				walk(st, 0)
			}
		}
		if !good {
			return true
		}
		if fs.Post != nil {
			used := map[string]bool{}
			ast.Inspect(fs.Post, func(m ast.Node) bool {
				if id, isId := m.(*ast.Ident); isId {
					used[id.Name] = true
				}
				return true
			})
			for _, st := range fs.Body.List {
				switch y := st.(type) {
				case *ast.AssignStmt:
					if y.Tok == token.DEFINE {
						for _, lh := range y.Lhs {
							if id, isId := lh.(*ast.Ident); isId && used[id.Name] {
								good = false
							}
						}
					}
				case *ast.DeclStmt:
					if gd, isGen := y.Decl.(*ast.GenDecl); isGen {
						for _, sp := range gd.Specs {
							switch z := sp.(type) {
							case *ast.ValueSpec:
								for _, nm := range z.Names {
									if used[nm.Name] {
										good = false
									}
								}
							case *ast.TypeSpec:
								if used[z.Name.Name] {
									good = false
								}
							}
						}
					}
				}
			}
		}
		if !good {
			return true
		}
		rw.gen[fs] = func() string {
			var b strings.Builder
			b.WriteString("{\n")
			if fs.Init != nil {
				b.WriteString(rw.text(fs.Init) + "\n")
			}
			b.WriteString("for ")
			if fs.Cond != nil && !condNew {
				b.WriteString(rw.text(fs.Cond) + " ")
			}
			b.WriteString("{\n")
			if condNew {
				b.WriteString("if !(" + rw.text(fs.Cond) + ") {\nbreak\n}\n")
			}
			for _, st := range fs.Body.List {
				b.WriteString(rw.text(st) + "\n")
			}
			if fs.Post != nil {
				b.WriteString(rw.text(fs.Post) + "\n")
			}
			b.WriteString("}\n}")
			return b.String()
		}
		rw.n++
		return true
	})

	// ---- splitCases
	ast.Inspect(fd.Body, func(n ast.Node) bool {
		sw, ok := n.(*ast.SwitchStmt)
		if !ok || sw.Tag == nil {
			return true
		}
		tag, isId := ast.Unparen(sw.Tag).(*ast.Ident)
		if !isId {
			return true
		}
		tv, _ := info.Uses[tag].(*types.Var)
		if tv == nil {
			return true
		}
		for _, cl := range sw.Body.List {
			cc := cl.(*ast.CaseClause)
			if len(cc.List) < 2 || len(cc.List) > 8 || rw.gen[cc] != nil {
				continue
			}
			var vals []constant.Value
			for _, e := range cc.List {
				if t, has := info.Types[e]; has && t.Value != nil {
					vals = append(vals, t.Value)
				}
			}
			if len(vals) != len(cc.List) {
				continue
			}
			// nested switches over the same variable; the variable is not written in the clause
			var nested []*ast.SwitchStmt
			good := true
			for _, st := range cc.Body {
				ast.Inspect(st, func(m ast.Node) bool {
					switch y := m.(type) {
					case *ast.FuncLit:
						ast.Inspect(y, func(k ast.Node) bool {
							if id, isId := k.(*ast.Ident); isId && info.Uses[id] == types.Object(tv) {
								good = false // a closure that may write the tag
							}
							return good
						})
						return false
					case *ast.AssignStmt:
						for _, l := range y.Lhs {
							if id, isId := ast.Unparen(l).(*ast.Ident); isId && info.Uses[id] == types.Object(tv) {
								good = false
							}
						}
					case *ast.IncDecStmt:
						if id, isId := ast.Unparen(y.X).(*ast.Ident); isId && info.Uses[id] == types.Object(tv) {
							good = false
						}
					case *ast.UnaryExpr:
						if id, isId := ast.Unparen(y.X).(*ast.Ident); isId && y.Op == token.AND && info.Uses[id] == types.Object(tv) {
							good = false
						}
					case *ast.SwitchStmt:
						if id, isId := ast.Unparen(y.Tag).(*ast.Ident); isId && y.Tag != nil && info.Uses[id] == types.Object(tv) && y.Init == nil {
							if _, labelled := parent[y].(*ast.LabeledStmt); labelled || !inListOf(parent, y) {
								good = false
								return false
							}
							var bodies [][]ast.Stmt
							for _, c2 := range y.Body.List {
								c2c := c2.(*ast.CaseClause)
								bodies = append(bodies, c2c.Body)
								for _, e := range c2c.List {
									if t, has := info.Types[e]; !has || t.Value == nil {
										good = false
									}
								}
							}
							if rw.leavesSwitch(y, bodies) {
								good = false
							}
							nested = append(nested, y)
							return false
						}
					}
					return good
				})
			}
			if !good || len(nested) == 0 || stmtCount(cc)*len(vals) > 400 {
				continue
			}
			// labels of the clause get a fresh name in every copy
			labels := map[string]bool{}
			for _, st := range cc.Body {
				ast.Inspect(st, func(m ast.Node) bool {
					if ls, isL := m.(*ast.LabeledStmt); isL {
						labels[ls.Label.Name] = true
					}
					return true
				})
			}
			if len(labels) > 0 {
				ast.Inspect(fd, func(m ast.Node) bool {
					if id, isId := m.(*ast.Ident); isId && labels[id.Name] && (info.Uses[id] != nil || info.Defs[id] != nil) {
						if _, isLabel := info.Defs[id].(*types.Label); !isLabel {
							if _, isLabel := info.Uses[id].(*types.Label); !isLabel {
								good = false // the name is also a variable's
							}
						}
					}
					return good
				})
				if !good {
					continue
				}
			}
			cur := -1
			for _, ns := range nested {
				ns := ns
				rw.gen[ns] = func() string {
					if cur < 0 {
						return rw.inner(ns)
					}
					var pick, deflt *ast.CaseClause
					for _, c2 := range ns.Body.List {
						c2c := c2.(*ast.CaseClause)
						if c2c.List == nil {
							deflt = c2c
						}
						for _, e := range c2c.List {
							if constant.Compare(info.Types[e].Value, token.EQL, vals[cur]) {
								pick = c2c
							}
						}
					}
					if pick == nil {
						pick = deflt
					}
					var b strings.Builder
					b.WriteString("{\n")
					if pick != nil {
						for _, st := range pick.Body {
							b.WriteString(rw.text(st) + "\n")
						}
					}
					b.WriteString("}")
					return b.String()
				}
			}
			ccc := cc
			rw.gen[cc] = func() string {
				var b strings.Builder
				for i, e := range ccc.List {
					cur = i
					b.WriteString("case " + rw.text(e) + ":\n")
					for _, st := range ccc.Body {
						txt := rw.text(st)
						for name := range labels {
							txt = regexp.MustCompile(`\b`+regexp.QuoteMeta(name)+`\b`).ReplaceAllString(txt, fmt.Sprintf("%s_c%d", name, i))
						}
						b.WriteString(txt + "\n")
					}
				}
				cur = -1
				return b.String()
			}
			rw.n++
		}
		return true
	})

	// ---- sinkTests
	simpleCopy := func(st ast.Stmt) (*ast.AssignStmt, bool) {
		as, ok := st.(*ast.AssignStmt)
		if !ok || as.Tok != token.ASSIGN || len(as.Lhs) != len(as.Rhs) || rw.gen[as] != nil {
			return nil, false
		}
		for k, lh := range as.Lhs {
			id, isId := lh.(*ast.Ident)
			if !isId {
				return nil, false
			}
			if id.Name != "_" {
				v, _ := info.Uses[id].(*types.Var)
				if v == nil || v.IsField() || v.Pkg() == nil || v.Parent() == v.Pkg().Scope() {
					return nil, false
				}
				// (struct values and pointers to structs are the struct-splitting rewrite's)
				if structOf(v.Type()) != nil {
					return nil, false
				}
			}
			if _, okR := rw.testVars(as.Rhs[k]); !okR || !rw.pureExpr(as.Rhs[k]) {
				return nil, false
			}
		}
		return as, true
	}
	namesIn := func(nodes []ast.Stmt) map[string]bool {
		out := map[string]bool{}
		for _, n := range nodes {
			ast.Inspect(n, func(m ast.Node) bool {
				if id, ok := m.(*ast.Ident); ok {
					out[id.Name] = true
				}
				return true
			})
		}
		return out
	}
	declaredIn := func(l []ast.Stmt, init ast.Stmt) map[string]bool {
		out := map[string]bool{}
		add := func(st ast.Stmt) {
			switch y := st.(type) {
			case *ast.AssignStmt:
				if y.Tok == token.DEFINE {
					for _, lh := range y.Lhs {
						if id, ok := lh.(*ast.Ident); ok {
							out[id.Name] = true
						}
					}
				}
			case *ast.DeclStmt:
				if gd, ok := y.Decl.(*ast.GenDecl); ok {
					for _, sp := range gd.Specs {
						switch z := sp.(type) {
						case *ast.ValueSpec:
							for _, nm := range z.Names {
								out[nm.Name] = true
							}
						case *ast.TypeSpec:
							out[z.Name.Name] = true
						}
					}
				}
			}
		}
		if init != nil {
			add(init)
		}
		for _, st := range l {
			add(st)
		}
		return out
	}
	lists(func(l []ast.Stmt) {
		for i := 0; i+1 < len(l); i++ {
			if rw.gen[l[i]] != nil {
				continue
			}
			// S; simple copies; if-chain
			j := i + 1
			var moved []ast.Stmt
			for j < len(l) && len(moved) < 3 {
				if as, ok := simpleCopy(l[j]); ok {
					moved = append(moved, as)
					j++
					continue
				}
				break
			}
			if j >= len(l) {
				continue
			}
			t, isIf := l[j].(*ast.IfStmt)
			if !isIf || t.Init != nil || rw.gen[t] != nil {
				continue
			}
			moved = append(moved, t)
			// the tests: pure, over local variables and constants only
			vars := map[*types.Var]bool{}
			okT := true
			for c := t; c != nil && okT; {
				vs, ok := rw.testVars(c.Cond)
				if !ok || !rw.pureExpr(c.Cond) {
					okT = false
				}
				for v := range vs {
					vars[v] = true
				}
				next, isChain := c.Else.(*ast.IfStmt)
				if c.Else != nil && !isChain {
					break
				}
				if isChain && next.Init != nil {
					okT = false
				}
				c = next
			}
			for _, m := range moved[:len(moved)-1] {
				for _, r := range m.(*ast.AssignStmt).Rhs {
					vs, _ := rw.testVars(r)
					for v := range vs {
						vars[v] = true
					}
				}
			}
			ast.Inspect(t, func(m ast.Node) bool {
				switch m.(type) {
				case *ast.LabeledStmt, *ast.FuncLit:
					okT = false
				}
				return okT
			})
			if !okT || len(vars) == 0 || stmtCount(t) > 16 {
				continue
			}
			used := namesIn(moved)
			captures := func(arm []ast.Stmt, init ast.Stmt) bool {
				for nm := range declaredIn(arm, init) {
					if used[nm] && nm != "_" {
						return true
					}
				}
				return false
			}
			tail := func() string {
				var b strings.Builder
				for _, m := range moved {
					b.WriteString(rw.text(m) + "\n")
				}
				return b.String()
			}
			remove := func(gen func() string) func() string {
				// (rendering the moved statements inside the generator must give the
				// statements themselves although their own entries say "removed")
				for _, m := range moved {
					rw.gen[m] = func() string { return "" }
				}
				ran := new(bool)
				rw.sinks = append(rw.sinks, ran)
				return func() string {
					*ran = true
					saved := map[ast.Stmt]func() string{}
					for _, m := range moved {
						saved[m] = rw.gen[m]
						delete(rw.gen, m)
					}
					defer func() {
						for _, m := range moved {
							rw.gen[m] = saved[m]
						}
					}()
					return gen()
				}
			}
			var arms [][]ast.Stmt
			switch s := l[i].(type) {
			case *ast.BlockStmt:
				// a plain block that ends in a branching statement: the tests go inside
				if len(s.List) == 0 || captures(s.List, nil) {
					continue
				}
				switch s.List[len(s.List)-1].(type) {
				case *ast.IfStmt, *ast.SwitchStmt, *ast.BlockStmt:
				default:
					continue
				}
				if _, labelled := parent[s].(*ast.LabeledStmt); labelled {
					continue
				}
				rw.gen[s] = remove(func() string {
					var b strings.Builder
					b.WriteString("{\n")
					for _, st := range s.List {
						b.WriteString(rw.text(st) + "\n")
					}
					b.WriteString(tail() + "}")
					return b.String()
				})
				rw.n++
				i = j
			case *ast.IfStmt:
				if _, labelled := parent[s].(*ast.LabeledStmt); labelled {
					continue
				}
				bad := false
				hit := false
				n := 0
				for c := s; c != nil; {
					n++
					if captures(c.Body.List, c.Init) || rw.gen[c] != nil || rw.gen[c.Body] != nil {
						bad = true
					}
					hit = hit || rw.endsInConstAssign(c.Body.List, vars)
					switch e := c.Else.(type) {
					case *ast.IfStmt:
						c = e
					case *ast.BlockStmt:
						if captures(e.List, nil) || rw.gen[e] != nil {
							bad = true
						}
						hit = hit || rw.endsInConstAssign(e.List, vars)
						c = nil
					default:
						c = nil
					}
				}
				if bad || !hit || n > 12 {
					continue
				}
				rw.gen[s] = remove(func() string {
					var b strings.Builder
					for c := s; c != nil; {
						b.WriteString("if ")
						if c.Init != nil {
							b.WriteString(rw.text(c.Init) + "; ")
						}
						b.WriteString(rw.text(c.Cond) + " {\n")
						for _, st := range c.Body.List {
							b.WriteString(rw.text(st) + "\n")
						}
						b.WriteString(tail() + "}")
						switch e := c.Else.(type) {
						case *ast.IfStmt:
							b.WriteString(" else ")
							c = e
						case *ast.BlockStmt:
							b.WriteString(" else {\n")
							for _, st := range e.List {
								b.WriteString(rw.text(st) + "\n")
							}
							b.WriteString(tail() + "}")
							c = nil
						default:
							b.WriteString(" else {\n" + tail() + "}")
							c = nil
						}
					}
					return b.String()
				})
				rw.n++
				i = j
			case *ast.SwitchStmt:
				if _, labelled := parent[s].(*ast.LabeledStmt); labelled {
					continue
				}
				bad := false
				for _, cl := range s.Body.List {
					arms = append(arms, cl.(*ast.CaseClause).Body)
					if captures(cl.(*ast.CaseClause).Body, s.Init) || rw.gen[cl] != nil {
						bad = true // (a clause that is being split: the tests are sunk in the next round)
					}
				}
				if bad || len(arms) == 0 || len(arms) > 24 || rw.leavesSwitch(s, arms) {
					continue
				}
				hit := false
				for _, a := range arms {
					hit = hit || rw.endsInConstAssign(a, vars)
				}
				if !hit {
					continue
				}
				rw.gen[s] = remove(func() string {
					var b strings.Builder
					b.WriteString("switch ")
					if s.Init != nil {
						b.WriteString(rw.text(s.Init) + "; ")
					}
					if s.Tag != nil {
						b.WriteString(rw.text(s.Tag))
					}
					b.WriteString(" {\n")
					hasDefault := false
					for _, cl := range s.Body.List {
						cc := cl.(*ast.CaseClause)
						if cc.List == nil {
							hasDefault = true
							b.WriteString("default:\n")
						} else {
							var es []string
							for _, e := range cc.List {
								es = append(es, rw.text(e))
							}
							b.WriteString("case " + strings.Join(es, ", ") + ":\n")
						}
						for _, st := range cc.Body {
							b.WriteString(rw.text(st) + "\n")
						}
						b.WriteString(tail())
					}
					if !hasDefault {
						b.WriteString("default:\n" + tail())
					}
					b.WriteString("}")
					return b.String()
				})
				rw.n++
				i = j
			}
		}
	})

	// ---- foldAfterConstants
	lists(func(l []ast.Stmt) {
		for i := 1; i < len(l); i++ {
			t, isIf := l[i].(*ast.IfStmt)
			if !isIf || t.Init != nil || rw.gen[t] != nil {
				continue
			}
			env := map[*types.Var]constant.Value{}
			isNil := map[*types.Var]bool{}
			nonNil := map[*types.Var]bool{}
			forget := func(v *types.Var) { delete(env, v); delete(isNil, v); delete(nonNil, v) }
			// what the enclosing `if x != nil {` / `if x == nil {` says, when x is not written before here
			if blk, isBlk := parent[t].(*ast.BlockStmt); isBlk {
				if oif, isIf := parent[blk].(*ast.IfStmt); isIf {
					if be, isBin := ast.Unparen(oif.Cond).(*ast.BinaryExpr); isBin && (be.Op == token.NEQ || be.Op == token.EQL) {
						for _, pr := range [][2]ast.Expr{{be.X, be.Y}, {be.Y, be.X}} {
							id, isId := ast.Unparen(pr[0]).(*ast.Ident)
							tvn, has := info.Types[pr[1]]
							if !isId || !has || !tvn.IsNil() {
								continue
							}
							v, _ := info.Uses[id].(*types.Var)
							if v == nil || v.IsField() || v.Pkg() == nil || v.Parent() == v.Pkg().Scope() {
								continue
							}
							written := false
							// (a closure anywhere in the function that mentions x may write it when called)
							ast.Inspect(fd.Body, func(m ast.Node) bool {
								if fl, isLit := m.(*ast.FuncLit); isLit {
									ast.Inspect(fl, func(k ast.Node) bool {
										if lid, ok := k.(*ast.Ident); ok && info.Uses[lid] == types.Object(v) {
											written = true
										}
										return !written
									})
									return false
								}
								return !written
							})
							for _, st := range l[:i] {
								ast.Inspect(st, func(m ast.Node) bool {
									switch y := m.(type) {
									case *ast.AssignStmt:
										for _, lh := range y.Lhs {
											if lid, ok := ast.Unparen(lh).(*ast.Ident); ok && (info.Uses[lid] == types.Object(v)) {
												written = true
											}
										}
									case *ast.UnaryExpr:
										if lid, ok := ast.Unparen(y.X).(*ast.Ident); ok && y.Op == token.AND && info.Uses[lid] == types.Object(v) {
											written = true
										}
									case *ast.FuncLit:
										written = true // may write it
									}
									return !written
								})
							}
							if written {
								continue
							}
							inBody := blk == oif.Body
							if (be.Op == token.NEQ) == inBody {
								nonNil[v] = true
							} else {
								isNil[v] = true
							}
						}
					}
				}
			}
			// the simple assignments directly in front, in order (a copy hands on what is known)
			j0 := i
			for j0 > 0 && i-j0 < 4 {
				as, ok := l[j0-1].(*ast.AssignStmt)
				if !ok || len(as.Lhs) != len(as.Rhs) || (as.Tok != token.ASSIGN && as.Tok != token.DEFINE) || rw.gen[as] != nil {
					break
				}
				simple := true
				for _, lh := range as.Lhs {
					if _, isId := lh.(*ast.Ident); !isId {
						simple = false
					}
				}
				if !simple {
					break
				}
				j0--
			}
			type val struct {
				c      constant.Value
				isNil  bool
				nonNil bool
				known  bool
			}
			for _, st := range l[j0:i] {
				as := st.(*ast.AssignStmt)
				vals := make([]val, len(as.Rhs))
				for k, r := range as.Rhs {
					r = ast.Unparen(r)
					if tv, has := info.Types[r]; has && tv.Value != nil {
						vals[k] = val{c: tv.Value, known: true}
					} else if has && tv.IsNil() {
						vals[k] = val{isNil: true, known: true}
					} else if id, isId := r.(*ast.Ident); isId {
						if v, _ := info.Uses[id].(*types.Var); v != nil {
							if c, has := env[v]; has {
								vals[k] = val{c: c, known: true}
							} else if isNil[v] {
								vals[k] = val{isNil: true, known: true}
							} else if nonNil[v] {
								vals[k] = val{nonNil: true, known: true}
							}
						}
					}
				}
				for k, lh := range as.Lhs {
					id := lh.(*ast.Ident)
					if id.Name == "_" {
						continue
					}
					v, _ := info.Uses[id].(*types.Var)
					if v == nil {
						v, _ = info.Defs[id].(*types.Var)
					}
					if v == nil {
						continue
					}
					forget(v)
					switch {
					case !vals[k].known:
					case vals[k].c != nil:
						env[v] = vals[k].c
					case vals[k].isNil:
						isNil[v] = true
					case vals[k].nonNil:
						nonNil[v] = true
					}
				}
			}
			if len(env) == 0 && len(isNil) == 0 && len(nonNil) == 0 {
				continue
			}
			var decide func(e ast.Expr) (bool, bool)
			isNonNil := func(e ast.Expr) bool {
				if id, isId := ast.Unparen(e).(*ast.Ident); isId {
					if v, _ := info.Uses[id].(*types.Var); v != nil {
						return nonNil[v]
					}
				}
				return false
			}
			operand := func(e ast.Expr) (constant.Value, bool, bool) { // value, isNil, known
				e = ast.Unparen(e)
				if tv, has := info.Types[e]; has {
					if tv.Value != nil {
						return tv.Value, false, true
					}
					if tv.IsNil() {
						return nil, true, true
					}
				}
				if id, isId := e.(*ast.Ident); isId {
					if v, _ := info.Uses[id].(*types.Var); v != nil {
						if c, has := env[v]; has {
							return c, false, true
						}
						if isNil[v] {
							return nil, true, true
						}
					}
				}
				return nil, false, false
			}
			decide = func(e ast.Expr) (bool, bool) {
				e = ast.Unparen(e)
				switch x := e.(type) {
				case *ast.Ident:
					if c, _, k := operand(x); k && c != nil && c.Kind() == constant.Bool {
						return constant.BoolVal(c), true
					}
				case *ast.UnaryExpr:
					if x.Op == token.NOT {
						v, k := decide(x.X)
						return !v, k
					}
				case *ast.BinaryExpr:
					switch x.Op {
					case token.LAND, token.LOR:
						a, ka := decide(x.X)
						b, kb := decide(x.Y)
						if x.Op == token.LOR {
							if ka && a && rw.pureExpr(x.Y) || kb && b && rw.pureExpr(x.X) {
								return true, true
							}
							if ka && kb {
								return a || b, true
							}
						} else {
							if ka && !a && rw.pureExpr(x.Y) || kb && !b && rw.pureExpr(x.X) {
								return false, true
							}
							if ka && kb {
								return a && b, true
							}
						}
					case token.EQL, token.NEQ:
						a, an, ka := operand(x.X)
						b, bn, kb := operand(x.Y)
						if ka && an && isNonNil(x.Y) || kb && bn && isNonNil(x.X) {
							return x.Op == token.NEQ, true
						}
						if ka && kb {
							var eq bool
							switch {
							case an && bn:
								eq = true
							case an != bn:
								return false, false
							default:
								if a.Kind() != b.Kind() && !(a.Kind() == constant.Int && b.Kind() == constant.Float || a.Kind() == constant.Float && b.Kind() == constant.Int) {
									return false, false
								}
								eq = constant.Compare(a, token.EQL, b)
							}
							return eq == (x.Op == token.EQL), true
						}
					}
				}
				return false, false
			}
			// walk the chain
			type link struct {
				cond ast.Expr // nil: unconditional
				body ast.Stmt
			}
			var keep []link
			changed := false
			done := false
			for c := t; c != nil && !done; {
				if c.Init != nil {
					keep = append(keep, link{nil, c}) // the rest as it is
					done = true
					break
				}
				v, known := decide(c.Cond)
				switch {
				case known && v:
					keep = append(keep, link{nil, c.Body})
					changed = true
					done = true
				case known && !v:
					changed = true
				default:
					if !rw.pureExpr(c.Cond) {
						// an undecided test with effects: what follows it is left alone
						keep = append(keep, link{nil, c})
						done = true
						break
					}
					keep = append(keep, link{c.Cond, c.Body})
				}
				if done {
					break
				}
				switch e := c.Else.(type) {
				case *ast.IfStmt:
					c = e
				case nil:
					c = nil
				default:
					keep = append(keep, link{nil, e})
					c = nil
				}
			}
			if !changed {
				continue
			}
			kk := keep
			// a variable whose only reads were the tests decided here must stay used
			var usedNames []string
			for c := t; c != nil; {
				vs, _ := rw.testVars(c.Cond)
				for v := range vs {
					if _, has := env[v]; has || isNil[v] || nonNil[v] {
						dup := false
						for _, u := range usedNames {
							dup = dup || u == v.Name()
						}
						if !dup {
							usedNames = append(usedNames, v.Name())
						}
					}
				}
				next, _ := c.Else.(*ast.IfStmt)
				c = next
			}
			sort.Strings(usedNames)
			rw.gen[t] = func() string {
				var b strings.Builder
				for _, u := range usedNames {
					b.WriteString("_ = " + u + "\n")
				}
				for i, k := range kk {
					if i > 0 {
						b.WriteString(" else ")
					}
					if k.cond != nil {
						b.WriteString("if " + rw.text(k.cond) + " ")
						b.WriteString(rw.text(k.body))
						continue
					}
					if ifs, isIf := k.body.(*ast.IfStmt); isIf && i > 0 {
						b.WriteString(rw.inner(ifs))
					} else if i == 0 {
						if ifs, isIf := k.body.(*ast.IfStmt); isIf {
							b.WriteString(rw.inner(ifs))
						} else {
							b.WriteString(rw.text(k.body))
						}
					} else {
						b.WriteString(rw.text(k.body))
					}
				}
				if len(kk) == 0 {
					return "{}"
				}
				return b.String()
			}
			rw.n++
		}
	})
}
