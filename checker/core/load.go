// Package core is engine E1 of DESIGN.md: loader with the duplicate-const
// normalisation, anchor resolution by types.Object, obligation bookkeeping,
// known-findings handling and evidence output.
package core

import (
	"bytes"
	"fmt"
	"go/ast"
	"go/parser"
	"go/printer"
	"go/token"
	"go/types"
	"os"
	"path/filepath"
	"sort"
	"strings"

	"golang.org/x/tools/go/packages"

	"rscheck/pat"
)

// Module is the import-path prefix of the analysed module.
const Module = "github.com/alibaba/RedisShake"

// MainPkg is the only package that is allowed to carry type errors (see
// DESIGN.md 0.1): it is a botched merge on the pinned tree and anchors no
// mechanism of any property.
const MainPkg = Module + "/redis-shake/main"

// MinPackages is the number of module packages confirmed by hand on the pinned
// tree; loading fewer is UNDECIDED, never a pass.
const MinPackages = 38

// RepoDir returns the root of the analysed checkout (default /repo).
func RepoDir() string {
	if d := os.Getenv("RS_REPO"); d != "" {
		return d
	}
	return "/repo"
}

// Program is the loaded, type-checked view of /repo/src.
type Program struct {
	// Orig is the program before new helper functions were expanded in place
	// (nil when nothing was expanded). Rule sets that follow helper calls
	// themselves, with parameter binding, analyse this one.
	Orig           *Program
	Inlined        *Program        // the same tree with the calls of new helper functions expanded in place (nil when there are none); the last stage of the normalisation pipeline
	Rewritten      map[string]bool // files rewritten by a normalisation stage so far
	Views          []*Program      // intermediate stages of the pipeline (each an equivalent program)
	Fset           *token.FileSet
	Pkgs           []*packages.Package          // module packages, sorted by path
	All            map[string]*packages.Package // every package incl. dependencies
	Normalisations []string
	MainTypeErrors int
	LoadErrors     []string // fatal: type errors outside MainPkg, list errors
	WithTests      bool
	GOOS           string
	Shared         map[string]interface{} // memo space for engines (no-return set, graphs, SSA)
	Overlay        map[string][]byte      // in-memory file contents the program was parsed from (file name -> source), for files that differ from disk
}

// normalise computes the overlay: exact duplicate top-level const declarations
// inside one file are blanked (positions preserved).
func normalise(srcRoot string) (map[string][]byte, []string, error) {
	overlay := map[string][]byte{}
	var notes []string
	err := filepath.Walk(srcRoot, func(path string, fi os.FileInfo, err error) error {
		if err != nil {
			return err
		}
		if fi.IsDir() {
			if fi.Name() == "vendor" || fi.Name() == "testdata" || strings.HasPrefix(fi.Name(), ".") {
				return filepath.SkipDir
			}
			return nil
		}
		if !strings.HasSuffix(path, ".go") {
			return nil
		}
		src, err := os.ReadFile(path)
		if err != nil {
			return err
		}
		fset := token.NewFileSet()
		f, perr := parser.ParseFile(fset, path, src, parser.SkipObjectResolution)
		if perr != nil || f == nil {
			return nil // the type checker will report it
		}
		seen := map[string]bool{}
		var out []byte
		for _, d := range f.Decls {
			gd, ok := d.(*ast.GenDecl)
			if !ok || gd.Tok != token.CONST {
				continue
			}
			var buf bytes.Buffer
			if err := printer.Fprint(&buf, fset, gd); err != nil {
				continue
			}
			k := buf.String()
			if !seen[k] {
				seen[k] = true
				continue
			}
			if out == nil {
				out = append([]byte(nil), src...)
			}
			s, e := fset.Position(gd.Pos()).Offset, fset.Position(gd.End()).Offset
			for i := s; i < e && i < len(out); i++ {
				if out[i] != '\n' {
					out[i] = ' '
				}
			}
			rel, _ := filepath.Rel(srcRoot, path)
			notes = append(notes, fmt.Sprintf("%s:%d: exact duplicate of an earlier const declaration in the same file blanked in the in-memory overlay", rel, fset.Position(gd.Pos()).Line))
		}
		if out != nil {
			overlay[path] = out
		}
		return nil
	})
	return overlay, notes, err
}

// Load parses and type-checks the module with all dependencies (syntax
// included, so that module-cache packages such as cupcake/rdb can be analysed).
func Load(withTests bool, goos string) (*Program, error) {
	srcRoot := filepath.Join(RepoDir(), "src")
	overlay, notes, err := normalise(srcRoot)
	if err != nil {
		return nil, err
	}
	p, err := load1(withTests, goos, srcRoot, overlay, notes)
	if err != nil {
		return nil, err
	}
	// normalisation pipeline (only on a tree that has functions the baseline does
	// not know): expand the calls of new helpers in place, then split result
	// structs / unroll loops over literals / cancel &-* pairs, and repeat, because
	// each stage exposes work for the other (a closure argument becomes a closure
	// bound to a local of the expanded body; a struct result becomes visible only
	// once its helper is expanded). Every stage is type-checked again; a stage
	// whose output does not type-check is dropped.
	cur := p
	var added []string
	merged := map[string][]byte{}
	for k, v := range overlay {
		merged[k] = v
	}
	stageNo := 0
	dump := func(extra map[string][]byte) {
		if dir := os.Getenv("RS_DUMP_INLINE"); dir != "" {
			stageNo++
			for k, v := range extra {
				os.WriteFile(filepath.Join(dir, strings.ReplaceAll(strings.TrimPrefix(k, srcRoot+"/"), "/", "__")), v, 0o644)
				if os.Getenv("RS_DUMP_STAGES") != "" {
					os.WriteFile(filepath.Join(dir, strings.ReplaceAll(strings.TrimPrefix(k, srcRoot+"/"), "/", "__")+fmt.Sprintf(".stage%d", stageNo)), v, 0o644)
				}
			}
		}
	}
	apply := func(extra map[string][]byte, inotes []string, what string) bool {
		if len(extra) == 0 {
			return false
		}
		next := map[string][]byte{}
		for k, v := range merged {
			next[k] = v
		}
		for k, v := range extra {
			next[k] = v
		}
		p2, err2 := load1(withTests, goos, srcRoot, next, notes)
		if err2 != nil || len(p2.LoadErrors) > len(p.LoadErrors) || p2.MainTypeErrors > p.MainTypeErrors {
			why := ""
			if err2 != nil {
				why = err2.Error()
			} else if len(p2.LoadErrors) > 0 {
				why = p2.LoadErrors[len(p2.LoadErrors)-1]
			}
			p.Normalisations = append(p.Normalisations, what+" abandoned (the rewritten sources do not type-check: "+why+")")
			if dir := os.Getenv("RS_DUMP_INLINE"); dir != "" {
				for k, v := range extra {
					os.WriteFile(filepath.Join(dir, strings.ReplaceAll(strings.TrimPrefix(k, srcRoot+"/"), "/", "__")+".rejected"), v, 0o644)
				}
			}
			return false
		}
		dump(extra)
		merged = next
		p2.Rewritten = map[string]bool{}
		for k := range cur.Rewritten {
			p2.Rewritten[k] = true
		}
		for k := range extra {
			p2.Rewritten[k] = true
		}
		added = append(added, inotes...)
		p2.Normalisations = append(append([]string{}, notes...), added...)
		if cur != p {
			p.Views = append(p.Views, cur)
		}
		cur = p2
		return true
	}
	extra, inotes := inlineNewHelpers(p)
	if !apply(extra, inotes, "expansion of new helper functions") {
		p.Normalisations = append(p.Normalisations, inotes...)
	}
	if os.Getenv("RS_NO_DISSOLVE") == "" && os.Getenv("RS_NO_INLINE") == "" {
		for round := 0; round < 5; round++ {
			progress := false
			ex2, n2 := dissolveNewStructs(cur)
			if apply(ex2, n2, "second normalisation stage") {
				progress = true
			}
			ex3, n3 := inlineNewHelpers(cur)
			if apply(ex3, n3, "expansion of new helper functions (next round)") {
				progress = true
			}
			if !progress {
				break
			}
		}
	}
	// all views are kept: the driver runs every rule set on the tree as written
	// and, where something stays open, on the normalised views; an obligation
	// discharged on either of several equivalent programs is discharged
	if cur == p {
		return p, nil // nothing to normalise: the tree as written is the only view
	}
	p.Normalisations = append(p.Normalisations, added...)
	p.Inlined = cur
	cur.Orig = p
	for _, v := range p.Views {
		v.Orig = p
	}
	return p, nil
}

func load1(withTests bool, goos string, srcRoot string, overlay map[string][]byte, notes []string) (*Program, error) {
	env := append(os.Environ(), "GOWORK=off", "GOFLAGS=-mod=mod", "GOPROXY=off", "GOSUMDB=off", "GOTOOLCHAIN=local", "CGO_ENABLED=0")
	if goos != "" {
		env = append(env, "GOOS="+goos)
	}
	cfg := &packages.Config{
		Mode:    packages.LoadAllSyntax,
		Dir:     srcRoot,
		Env:     env,
		Overlay: overlay,
		Tests:   withTests,
	}
	pkgs, err := packages.Load(cfg, "./...")
	if err != nil {
		return nil, err
	}
	p := &Program{Shared: map[string]interface{}{}, All: map[string]*packages.Package{}, Normalisations: notes, WithTests: withTests, GOOS: goos, Overlay: overlay}
	packages.Visit(pkgs, nil, func(pk *packages.Package) {
		if p.Fset == nil && pk.Fset != nil {
			p.Fset = pk.Fset
		}
		// With Tests=true a package appears as "p" and "p [p.test]"; keep the
		// test-augmented variant under its ID and the plain one under PkgPath.
		if _, ok := p.All[pk.PkgPath]; !ok || pk.ID == pk.PkgPath {
			p.All[pk.PkgPath] = pk
		}
	})
	seen := map[string]bool{}
	for _, pk := range pkgs {
		if !strings.HasPrefix(pk.PkgPath, Module) {
			continue
		}
		if strings.HasSuffix(pk.PkgPath, ".test") {
			continue
		}
		if seen[pk.ID] {
			continue
		}
		seen[pk.ID] = true
		p.Pkgs = append(p.Pkgs, pk)
		for _, e := range pk.Errors {
			if pk.PkgPath == MainPkg || strings.HasPrefix(pk.ID, MainPkg+" ") {
				p.MainTypeErrors++
				continue
			}
			p.LoadErrors = append(p.LoadErrors, fmt.Sprintf("%s: %s", pk.PkgPath, e.Error()))
		}
	}
	sort.Slice(p.Pkgs, func(i, j int) bool { return p.Pkgs[i].ID < p.Pkgs[j].ID })
	for _, pk := range p.Pkgs {
		pat.RegisterPackage(pk.TypesInfo, pk.Syntax)
	}
	n := 0
	for _, pk := range p.Pkgs {
		if pk.ID == pk.PkgPath {
			n++
		}
	}
	if n < MinPackages {
		p.LoadErrors = append(p.LoadErrors, fmt.Sprintf("only %d module packages loaded, expected at least %d", n, MinPackages))
	}
	return p, nil
}

// Pkg returns a module package by path relative to the module root ("pkg/rdb")
// or any package by full import path.
func (p *Program) Pkg(path string) *packages.Package {
	if pk, ok := p.All[Module+"/"+path]; ok {
		return pk
	}
	return p.All[path]
}

// Fn is a resolved function anchor.
type Fn struct {
	Obj  *types.Func
	Decl *ast.FuncDecl
	Pkg  *packages.Package
}

// Name is a printable, position-free identification.
func (f *Fn) Name() string {
	if f == nil || f.Obj == nil {
		return "<unresolved>"
	}
	return FuncName(f.Obj)
}

// FuncName prints pkg.(Recv).Name with the module prefix removed.
func FuncName(o *types.Func) string {
	s := o.FullName()
	s = strings.ReplaceAll(s, Module+"/", "")
	return s
}

// LookupFunc resolves a function or method by package path, receiver type
// name ("" for functions) and name. It returns nil if absent.
func (p *Program) LookupFunc(pkgPath, recv, name string) *Fn {
	pk := p.Pkg(pkgPath)
	if pk == nil || pk.Types == nil {
		return nil
	}
	var obj types.Object
	if recv == "" {
		obj = pk.Types.Scope().Lookup(name)
	} else {
		tn, _ := pk.Types.Scope().Lookup(recv).(*types.TypeName)
		if tn == nil {
			return nil
		}
		named, _ := tn.Type().(*types.Named)
		if named == nil {
			return nil
		}
		for i := 0; i < named.NumMethods(); i++ {
			if named.Method(i).Name() == name {
				obj = named.Method(i)
			}
		}
	}
	fobj, _ := obj.(*types.Func)
	if fobj == nil {
		return nil
	}
	return p.FnOf(fobj)
}

// FnOf finds the declaration of a function object (module or dependency).
func (p *Program) FnOf(fobj *types.Func) *Fn {
	if fobj == nil || fobj.Pkg() == nil {
		return nil
	}
	fobj = fobj.Origin()
	pk := p.All[fobj.Pkg().Path()]
	if pk == nil {
		return nil
	}
	for _, f := range pk.Syntax {
		for _, d := range f.Decls {
			fd, ok := d.(*ast.FuncDecl)
			if !ok {
				continue
			}
			if pk.TypesInfo.Defs[fd.Name] == fobj {
				return &Fn{Obj: fobj, Decl: fd, Pkg: pk}
			}
		}
	}
	return nil
}

// Pos renders a position relative to the repository root.
func (p *Program) Pos(pos token.Pos) string {
	if !pos.IsValid() || p.Fset == nil {
		return "-"
	}
	ps := p.Fset.Position(pos)
	rel, err := filepath.Rel(RepoDir(), ps.Filename)
	if err != nil || strings.HasPrefix(rel, "..") {
		rel = ps.Filename
	}
	return fmt.Sprintf("%s:%d:%d", rel, ps.Line, ps.Column)
}

// FileOf returns the syntax file that contains pos.
func (p *Program) FileOf(pk *packages.Package, pos token.Pos) *ast.File {
	for _, f := range pk.Syntax {
		if f.Pos() <= pos && pos < f.End() {
			return f
		}
	}
	return nil
}

// ConstVal returns the constant value of an expression, if it has one.
func ConstVal(info *types.Info, e ast.Expr) (tv types.TypeAndValue, ok bool) {
	tv, ok = info.Types[e]
	if !ok || tv.Value == nil {
		return tv, false
	}
	return tv, true
}

// Callee resolves the static callee of a call (function, method or builtin).
func Callee(info *types.Info, call *ast.CallExpr) types.Object {
	fun := ast.Unparen(call.Fun)
	switch f := fun.(type) {
	case *ast.Ident:
		o := info.Uses[f]
		if v, isVar := o.(*types.Var); isVar && !v.IsField() {
			// a function or method value bound once to a local: `next := l.NextBinEntry; next()`
			if d := pat.DefOf(info, f); d != nil {
				switch x := ast.Unparen(d).(type) {
				case *ast.Ident:
					if fn, ok := info.Uses[x].(*types.Func); ok {
						return fn
					}
				case *ast.SelectorExpr:
					if sel, ok := info.Selections[x]; ok {
						if fn, ok := sel.Obj().(*types.Func); ok && sel.Kind() == types.MethodVal {
							return fn
						}
					} else if fn, ok := info.Uses[x.Sel].(*types.Func); ok {
						return fn
					}
				}
			}
		}
		return o
	case *ast.SelectorExpr:
		if sel, ok := info.Selections[f]; ok {
			return sel.Obj()
		}
		return info.Uses[f.Sel]
	case *ast.IndexExpr: // generic instantiation
		if id, ok := f.X.(*ast.Ident); ok {
			return info.Uses[id]
		}
	}
	return nil
}

// CalleeFunc is Callee restricted to *types.Func.
func CalleeFunc(info *types.Info, call *ast.CallExpr) *types.Func {
	f, _ := Callee(info, call).(*types.Func)
	return f
}

// IsFunc reports whether fn is the function pkgPath.name (or method
// pkgPath.(recv).name when recv != ""). pkgPath may be module-relative.
func IsFunc(fn *types.Func, pkgPath, recv, name string) bool {
	if fn == nil || fn.Name() != name || fn.Pkg() == nil {
		return false
	}
	pp := fn.Pkg().Path()
	if pp != pkgPath && pp != Module+"/"+pkgPath {
		return false
	}
	sig := fn.Type().(*types.Signature)
	if recv == "" {
		return sig.Recv() == nil
	}
	if sig.Recv() == nil {
		return false
	}
	t := sig.Recv().Type()
	if pt, ok := t.(*types.Pointer); ok {
		t = pt.Elem()
	}
	if n, ok := t.(*types.Named); ok {
		return n.Obj().Name() == recv
	}
	return false
}

// FuncsOf lists the functions and methods declared with a body in the
// non-test files of pk, in source order.
func (p *Program) FuncsOf(pk *packages.Package) []*Fn {
	var out []*Fn
	if pk == nil || pk.TypesInfo == nil {
		return nil
	}
	for _, f := range pk.Syntax {
		if IsTestFile(p.Fset, f) {
			continue
		}
		for _, d := range f.Decls {
			fd, ok := d.(*ast.FuncDecl)
			if !ok || fd.Body == nil {
				continue
			}
			if fo, ok := pk.TypesInfo.Defs[fd.Name].(*types.Func); ok {
				out = append(out, &Fn{Obj: fo, Decl: fd, Pkg: pk})
			}
		}
	}
	return out
}
