package core

import (
	"bytes"
	"go/ast"
	"go/constant"
	"go/printer"
	"go/token"
	"go/types"
	"strings"
)

// NodeString prints a node on one line.
func NodeString(fset *token.FileSet, n ast.Node) string {
	var b bytes.Buffer
	printer.Fprint(&b, fset, n)
	s := b.String()
	s = strings.Join(strings.Fields(s), " ")
	if len(s) > 160 {
		s = s[:157] + "..."
	}
	return s
}

// Inspect walks n like ast.Inspect but does not descend into function
// literals (their bodies belong to another control-flow graph) unless n itself
// is the literal.
func Inspect(n ast.Node, f func(ast.Node) bool) {
	ast.Inspect(n, func(m ast.Node) bool {
		if m == nil {
			return false
		}
		if _, ok := m.(*ast.FuncLit); ok && m != n {
			return false
		}
		return f(m)
	})
}

// InspectAll walks n including nested function literals.
func InspectAll(n ast.Node, f func(ast.Node) bool) {
	ast.Inspect(n, func(m ast.Node) bool {
		if m == nil {
			return false
		}
		return f(m)
	})
}

// Calls returns all call expressions under n (not inside nested literals) for
// which pred holds, in source order.
func Calls(n ast.Node, info *types.Info, pred func(call *ast.CallExpr, callee types.Object) bool) []*ast.CallExpr {
	var out []*ast.CallExpr
	Inspect(n, func(m ast.Node) bool {
		if c, ok := m.(*ast.CallExpr); ok {
			if pred(c, Callee(info, c)) {
				out = append(out, c)
			}
		}
		return true
	})
	return out
}

// CallsAll is Calls including nested function literals.
func CallsAll(n ast.Node, info *types.Info, pred func(call *ast.CallExpr, callee types.Object) bool) []*ast.CallExpr {
	var out []*ast.CallExpr
	InspectAll(n, func(m ast.Node) bool {
		if c, ok := m.(*ast.CallExpr); ok {
			if pred(c, Callee(info, c)) {
				out = append(out, c)
			}
		}
		return true
	})
	return out
}

// ObjOf returns the object an identifier or selector denotes.
func ObjOf(info *types.Info, e ast.Expr) types.Object {
	switch x := ast.Unparen(e).(type) {
	case *ast.Ident:
		if o := info.Uses[x]; o != nil {
			return o
		}
		return info.Defs[x]
	case *ast.SelectorExpr:
		if sel, ok := info.Selections[x]; ok {
			return sel.Obj()
		}
		return info.Uses[x.Sel]
	}
	return nil
}

// FieldOf reports the struct field a selector expression denotes (nil if it
// is not a field selection).
func FieldOf(info *types.Info, e ast.Expr) *types.Var {
	x, ok := ast.Unparen(e).(*ast.SelectorExpr)
	if !ok {
		return nil
	}
	if sel, ok := info.Selections[x]; ok && sel.Kind() == types.FieldVal {
		v, _ := sel.Obj().(*types.Var)
		return v
	}
	// qualified package-level variable (pkg.Var) is not a field
	return nil
}

// IsFieldNamed reports whether e selects field `field` of a struct type named
// `typ` (possibly through a pointer).
func IsFieldNamed(info *types.Info, e ast.Expr, typ, field string) bool {
	x, ok := ast.Unparen(e).(*ast.SelectorExpr)
	if !ok || x.Sel.Name != field {
		return false
	}
	sel, ok := info.Selections[x]
	if !ok || sel.Kind() != types.FieldVal {
		return false
	}
	return NamedTypeName(sel.Recv()) == typ
}

// NamedTypeName returns the name of a (pointer to a) named type, or "".
func NamedTypeName(t types.Type) string {
	if t == nil {
		return ""
	}
	if p, ok := t.(*types.Pointer); ok {
		t = p.Elem()
	}
	if n, ok := t.(*types.Named); ok {
		return n.Obj().Name()
	}
	return ""
}

// NamedTypePath returns "pkgpath.Name" of a (pointer to a) named type.
func NamedTypePath(t types.Type) string {
	if t == nil {
		return ""
	}
	if p, ok := t.(*types.Pointer); ok {
		t = p.Elem()
	}
	if n, ok := t.(*types.Named); ok {
		if n.Obj().Pkg() == nil {
			return n.Obj().Name()
		}
		return n.Obj().Pkg().Path() + "." + n.Obj().Name()
	}
	return ""
}

// IsNil reports whether e is the predeclared nil.
func IsNil(info *types.Info, e ast.Expr) bool {
	id, ok := ast.Unparen(e).(*ast.Ident)
	if !ok {
		return false
	}
	_, isNil := info.Uses[id].(*types.Nil)
	return isNil
}

// IntConst returns the int64 value of a constant expression.
func IntConst(info *types.Info, e ast.Expr) (int64, bool) {
	tv, ok := info.Types[e]
	if !ok || tv.Value == nil {
		return 0, false
	}
	v := constant.ToInt(tv.Value)
	if v.Kind() != constant.Int {
		return 0, false
	}
	return constant.Int64Val(v)
}

// StringConst returns the value of a constant string expression.
func StringConst(info *types.Info, e ast.Expr) (string, bool) {
	tv, ok := info.Types[e]
	if !ok || tv.Value == nil || tv.Value.Kind() != constant.String {
		return "", false
	}
	return constant.StringVal(tv.Value), true
}

// SameObj reports whether two expressions are identifiers/selectors denoting
// the same object (for selectors: same field on syntactically the same base).
func SameRef(info *types.Info, a, b ast.Expr) bool {
	a, b = ast.Unparen(a), ast.Unparen(b)
	switch x := a.(type) {
	case *ast.Ident:
		y, ok := b.(*ast.Ident)
		if !ok {
			return false
		}
		ox, oy := ObjOf(info, x), ObjOf(info, y)
		return ox != nil && ox == oy
	case *ast.SelectorExpr:
		y, ok := b.(*ast.SelectorExpr)
		if !ok {
			return false
		}
		ox, oy := ObjOf(info, x), ObjOf(info, y)
		if ox == nil || ox != oy {
			return false
		}
		if _, isPkg := info.Uses[identOf(x.X)].(*types.PkgName); isPkg {
			return true
		}
		return SameRef(info, x.X, y.X)
	case *ast.StarExpr:
		y, ok := b.(*ast.StarExpr)
		return ok && SameRef(info, x.X, y.X)
	case *ast.IndexExpr:
		y, ok := b.(*ast.IndexExpr)
		return ok && SameRef(info, x.X, y.X) && SameRef(info, x.Index, y.Index)
	case *ast.BasicLit:
		y, ok := b.(*ast.BasicLit)
		return ok && x.Kind == y.Kind && x.Value == y.Value
	}
	return false
}

func identOf(e ast.Expr) *ast.Ident {
	id, _ := ast.Unparen(e).(*ast.Ident)
	return id
}

// Mentions reports whether the object obj is referenced anywhere under n.
func Mentions(info *types.Info, n ast.Node, obj types.Object) bool {
	found := false
	InspectAll(n, func(m ast.Node) bool {
		if id, ok := m.(*ast.Ident); ok && (info.Uses[id] == obj || info.Defs[id] == obj) {
			found = true
		}
		return !found
	})
	return found
}

// MentionsField reports whether a selection of field (type,field) occurs under n.
func MentionsField(info *types.Info, n ast.Node, typ, field string) bool {
	found := false
	InspectAll(n, func(m ast.Node) bool {
		if e, ok := m.(ast.Expr); ok && IsFieldNamed(info, e, typ, field) {
			found = true
		}
		return !found
	})
	return found
}

// PathTo returns the chain of nodes from root down to target (inclusive), or
// nil when target is not under root.
func PathTo(root, target ast.Node) []ast.Node {
	var path, out []ast.Node
	ast.Inspect(root, func(n ast.Node) bool {
		if out != nil {
			return false
		}
		if n == nil {
			path = path[:len(path)-1]
			return false
		}
		path = append(path, n)
		if n == target {
			out = append([]ast.Node(nil), path...)
			return false
		}
		return true
	})
	return out
}

// FuncLits returns the function literals directly under n (not nested in
// other literals).
func FuncLits(n ast.Node) []*ast.FuncLit {
	var out []*ast.FuncLit
	ast.Inspect(n, func(m ast.Node) bool {
		if fl, ok := m.(*ast.FuncLit); ok && m != n {
			out = append(out, fl)
			return false
		}
		return true
	})
	return out
}

// AssignedTo returns the right-hand side expression assigned to lhs in an
// assignment statement when it is a 1:1 assignment position, else nil.
func AssignedTo(as *ast.AssignStmt, i int) ast.Expr {
	if len(as.Lhs) == len(as.Rhs) {
		return as.Rhs[i]
	}
	return nil
}

// IsTestFile reports whether a syntax file is a _test.go file.
func IsTestFile(fset *token.FileSet, f *ast.File) bool {
	return strings.HasSuffix(fset.Position(f.Pos()).Filename, "_test.go")
}
