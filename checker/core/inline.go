package core

// Normalisation of helper extraction.
//
// The rule packages anchor on the functions that exist in the pinned tree.
// The most common behaviour-preserving edit moves a piece of such a function
// into a *new* unexported helper (function or method) of the same package and
// calls it. Before the rules run, every call of a function that does not exist
// in the baseline list (baseline_funcs.txt, generated from the pinned tree) is
// expanded in place, source to source:
//
//	x, y := h(a, b)          var r0 T0; var r1 T1
//	                         {
//	                             var a0 P0 = a; var a1 P1 = b
//	                         L:  for {
//	                                 p0, p1 := a0, a1
//	                                 <body of h, `return e0, e1` -> `r0, r1 = e0, e1; break L`>
//	                                 break L
//	                             }
//	                         }
//	                         x, y := r0, r1
//
// The expansion is done only where it cannot change the evaluation order (the
// call is the first effectful sub-expression of its statement and not under
// && / ||), only for helpers without defer/recover/goto/variadics/type
// parameters, recursively for helpers that call other new helpers. The
// rewritten files are printed, handed to the loader as an overlay and
// type-checked again; if that produces any new error the normalisation is
// dropped as a whole and the original program is analysed. On the pinned tree
// there is no new function, so nothing is rewritten and nothing can go wrong.

import (
	"bytes"
	_ "embed"
	"fmt"
	"go/ast"
	"go/format"
	"go/token"
	"go/types"
	"os"
	"sort"
	"strings"

	"golang.org/x/tools/go/packages"
)

//go:embed baseline_funcs.txt
var baselineFuncs string

var baselineSet map[string]bool

func funcKey(pkgPath string, fd *ast.FuncDecl, info *types.Info) string {
	recv := ""
	if fd.Recv != nil && len(fd.Recv.List) == 1 {
		recv = NamedTypeName(info.TypeOf(fd.Recv.List[0].Type))
	}
	return pkgPath + "|" + recv + "|" + fd.Name.Name
}

// FuncKeys lists the keys of all module functions (for generating the baseline).
func FuncKeys(p *Program) []string {
	var out []string
	for _, pk := range p.Pkgs {
		if pk.ID != pk.PkgPath {
			continue
		}
		for _, f := range pk.Syntax {
			if IsTestFile(p.Fset, f) {
				continue
			}
			for _, d := range f.Decls {
				if fd, ok := d.(*ast.FuncDecl); ok {
					out = append(out, funcKey(pk.PkgPath, fd, pk.TypesInfo))
				}
			}
		}
	}
	sort.Strings(out)
	return out
}

type inliner struct {
	p            *Program
	pk           *packages.Package
	info         *types.Info
	helpers      map[types.Object]*ast.FuncDecl // new helpers of this package: functions, methods and closures bound once to a local
	file         *ast.File                      // file being rewritten
	n            int                            // fresh-name counter
	calls        int                            // expansions done
	busy         map[*ast.FuncDecl]bool         // recursion guard
	needImp      map[string]string              // local name -> path required in the current file
	failed       string
	frames       []map[types.Object]ast.Expr // parameter/receiver/named result -> argument template, innermost last
	clash        []string                    // names of the pending expansion's targets that the helper also declares
	expanded     map[types.Object]int
	isClosure    map[*ast.FuncDecl]bool
	free         map[*ast.FuncDecl]map[string]types.Object // closure -> captured variables by name
	doneIdent    map[*ast.Ident]bool                       // function identifiers of the calls that were expanded
	packs        map[ast.Expr][]ast.Expr                   // slice-literal template of a variadic parameter -> the caller's extra arguments
	deferHelpers map[types.Object]*ast.FuncDecl            // new helpers with defers and no results: expandable where the call ends a function body
	lastOfBody   map[ast.Stmt]bool
	labelHelpers map[types.Object]*ast.FuncDecl // new helpers with labels/gotos that are referred to once: expandable in place of `return h(…)`
	lastPre      int                            // number of leading binding statements in the result of the last inlineBodyR
	forceBind    bool                           // bind every non-constant argument to a local (the call is deferred: its arguments are evaluated now)
}

// inlineNewHelpers returns rewritten sources for the files in which a call of a
// new helper was expanded.
func inlineNewHelpers(p *Program) (map[string][]byte, []string) {
	if baselineSet == nil {
		baselineSet = map[string]bool{}
		for _, l := range strings.Split(baselineFuncs, "\n") {
			if l = strings.TrimSpace(l); l != "" {
				baselineSet[l] = true
			}
		}
	}
	if len(baselineSet) == 0 || os.Getenv("RS_NO_INLINE") != "" {
		return nil, nil
	}
	out := map[string][]byte{}
	var notes []string
	for _, pk := range p.Pkgs {
		if pk.ID != pk.PkgPath || pk.TypesInfo == nil || pk.PkgPath == MainPkg {
			continue
		}
		in := &inliner{p: p, pk: pk, info: pk.TypesInfo, helpers: map[types.Object]*ast.FuncDecl{}, busy: map[*ast.FuncDecl]bool{}, expanded: map[types.Object]int{}, doneIdent: map[*ast.Ident]bool{}, isClosure: map[*ast.FuncDecl]bool{}, free: map[*ast.FuncDecl]map[string]types.Object{}}
		for _, f := range pk.Syntax {
			if IsTestFile(p.Fset, f) {
				continue
			}
			for _, d := range f.Decls {
				fd, ok := d.(*ast.FuncDecl)
				if !ok || fd.Body == nil || baselineSet[funcKey(pk.PkgPath, fd, pk.TypesInfo)] {
					continue
				}
				if fo, ok := pk.TypesInfo.Defs[fd.Name].(*types.Func); ok && in.eligible(fd, fo) {
					in.helpers[fo] = fd
				}
			}
		}
		// closures bound once to a local that the baseline does not know
		for _, f := range pk.Syntax {
			if IsTestFile(p.Fset, f) {
				continue
			}
			for _, d := range f.Decls {
				if fd, ok := d.(*ast.FuncDecl); ok && fd.Body != nil {
					in.closures(fd)
				}
			}
		}
		if len(in.helpers) == 0 && len(in.deferHelpers) == 0 && len(in.labelHelpers) == 0 {
			continue
		}
		type built struct {
			f       *ast.File
			nf      *ast.File
			changed bool
			imps    map[string]string
			origin  map[*ast.FuncDecl]*ast.FuncDecl // clone -> original
		}
		var files []*built
		for _, f := range pk.Syntax {
			if IsTestFile(p.Fset, f) {
				continue
			}
			before := in.calls
			in.file, in.needImp = f, map[string]string{}
			bf := &built{f: f, nf: &ast.File{Name: ast.NewIdent(f.Name.Name)}, origin: map[*ast.FuncDecl]*ast.FuncDecl{}}
			for _, d := range f.Decls {
				switch x := d.(type) {
				case *ast.FuncDecl:
					nd := &ast.FuncDecl{Recv: in.fields(x.Recv), Name: ast.NewIdent(x.Name.Name), Type: in.expr(x.Type, nil).(*ast.FuncType)}
					if x.Body != nil {
						if in.hasForwardGoto(x.Body) {
							nd.Body = in.stmt(x.Body, nil, true).(*ast.BlockStmt)
						} else {
							nd.Body = &ast.BlockStmt{List: in.list(x.Body.List)}
						}
					}
					bf.origin[nd] = x
					bf.nf.Decls = append(bf.nf.Decls, nd)
				case *ast.GenDecl:
					bf.nf.Decls = append(bf.nf.Decls, in.genDecl(x))
				}
			}
			bf.changed = in.calls != before
			bf.imps = in.needImp
			files = append(files, bf)
		}
		// helpers all of whose references were expanded (or sit in other such helpers) are dropped
		removable := map[*ast.FuncDecl]bool{}
		if in.failed == "" && in.calls > 0 {
			// names of interface methods declared in the package: a method of such a
			// name may be reached through the interface and is never dropped
			ifaceNames := map[string]bool{}
			for _, f := range pk.Syntax {
				ast.Inspect(f, func(n ast.Node) bool {
					if it, isI := n.(*ast.InterfaceType); isI && it.Methods != nil {
						for _, m := range it.Methods.List {
							for _, nm := range m.Names {
								ifaceNames[nm.Name] = true
							}
						}
					}
					return true
				})
			}
			for changed := true; changed; {
				changed = false
				for fo, fd := range in.helpers {
					if removable[fd] {
						continue
					}
					// an exported function or method, one that may be reached through
					// an interface, and one nobody in the package refers to are entry
					// points, not helpers: their declarations stay (with expanded bodies)
					if !in.isClosure[fd] && (ast.IsExported(fd.Name.Name) || fd.Recv != nil && ifaceNames[fd.Name.Name] || fd.Name.Name == "init" || fd.Name.Name == "main") {
						continue
					}
					ok := true
					refs := 0
					for _, f := range pk.Syntax {
						if IsTestFile(p.Fset, f) {
							continue
						}
						for _, d := range f.Decls {
							owner, _ := d.(*ast.FuncDecl)
							ast.Inspect(d, func(n ast.Node) bool {
								id, isId := n.(*ast.Ident)
								if !isId || pk.TypesInfo.Uses[id] != fo {
									return true
								}
								if owner == fd {
									return true
								}
								refs++
								if owner != nil && removable[owner] {
									return true
								}
								if !in.doneIdent[id] {
									ok = false
								}
								return true
							})
						}
					}
					if ok && (refs > 0 || in.isClosure[fd]) {
						removable[fd] = true
						changed = true
					}
				}
			}
		}
		// a call that survived in some copy of a body (an expression context the
		// expansion does not reach) keeps its helper: the generated declarations that
		// stay are searched for the helpers' names
		for again := len(removable) > 0; again; {
			again = false
			names := map[string]bool{}
			for _, bf := range files {
				for _, d := range bf.nf.Decls {
					if nd, ok := d.(*ast.FuncDecl); ok && removable[bf.origin[nd]] {
						continue
					}
					ast.Inspect(d, func(n ast.Node) bool {
						if id, ok := n.(*ast.Ident); ok {
							names[id.Name] = true
						}
						return true
					})
				}
			}
			for fd, rm := range removable {
				if rm && !in.isClosure[fd] && names[fd.Name.Name] {
					// (the declaration's own name is only seen when it is kept)
					removable[fd] = false
					again = true
				}
			}
		}
		for _, bf := range files {
			f, nf := bf.f, bf.nf
			var kept []ast.Decl
			for _, d := range nf.Decls {
				if nd, ok := d.(*ast.FuncDecl); ok && removable[bf.origin[nd]] {
					bf.changed = true
					continue
				}
				kept = append(kept, d)
			}
			nf.Decls = kept
			if !bf.changed || in.failed != "" {
				continue
			}
			in.needImp = bf.imps
			// imports needed by the expanded bodies
			for name, path := range in.needImp {
				have := false
				for _, im := range f.Imports {
					ipath := strings.Trim(im.Path.Value, `"`)
					local := ""
					if im.Name != nil {
						local = im.Name.Name
					}
					if ipath == path && (local == name || local == "" && defaultImportName(pk, path) == name) {
						have = true
					}
				}
				if !have {
					spec := &ast.ImportSpec{Name: ast.NewIdent(name), Path: &ast.BasicLit{Kind: token.STRING, Value: `"` + path + `"`}}
					nf.Decls = append([]ast.Decl{&ast.GenDecl{Tok: token.IMPORT, Specs: []ast.Spec{spec}}}, nf.Decls...)
				}
			}
			// imports that the dropped helpers were the only users of
			usedPkg := map[string]bool{}
			for _, d := range nf.Decls {
				if gd, ok := d.(*ast.GenDecl); ok && gd.Tok == token.IMPORT {
					continue
				}
				ast.Inspect(d, func(n ast.Node) bool {
					if sel, ok := n.(*ast.SelectorExpr); ok {
						if id, ok := sel.X.(*ast.Ident); ok {
							usedPkg[id.Name] = true
						}
					}
					return true
				})
			}
			for _, d := range nf.Decls {
				gd, ok := d.(*ast.GenDecl)
				if !ok || gd.Tok != token.IMPORT {
					continue
				}
				var specs []ast.Spec
				for _, sp := range gd.Specs {
					is := sp.(*ast.ImportSpec)
					local := defaultImportName(pk, strings.Trim(is.Path.Value, `"`))
					if is.Name != nil {
						local = is.Name.Name
					}
					if local == "_" || local == "." || usedPkg[local] {
						specs = append(specs, sp)
					}
				}
				gd.Specs = specs
			}
			var nd []ast.Decl
			for _, d := range nf.Decls {
				if gd, ok := d.(*ast.GenDecl); ok && gd.Tok == token.IMPORT && len(gd.Specs) == 0 {
					continue
				}
				nd = append(nd, d)
			}
			nf.Decls = nd
			// imports first (they were cloned in order); print
			sort.SliceStable(nf.Decls, func(i, j int) bool {
				gi, oki := nf.Decls[i].(*ast.GenDecl)
				gj, okj := nf.Decls[j].(*ast.GenDecl)
				return oki && gi.Tok == token.IMPORT && !(okj && gj.Tok == token.IMPORT)
			})
			var buf bytes.Buffer
			if err := format.Node(&buf, token.NewFileSet(), nf); err != nil {
				in.failed = err.Error()
				continue
			}
			path := p.Fset.Position(f.Pos()).Filename
			// keep what precedes the package clause (build constraints)
			head := ""
			if src, err := os.ReadFile(path); err == nil {
				off := p.Fset.Position(f.Package).Offset
				if off > 0 && off <= len(src) {
					for _, ln := range strings.SplitAfter(string(src[:off]), "\n") {
						if t := strings.TrimSpace(ln); strings.HasPrefix(t, "//go:build") || strings.HasPrefix(t, "// +build") || t == "" {
							head += ln
						}
					}
				}
			}
			out[path] = append([]byte(head), buf.Bytes()...)
		}
		if in.failed != "" {
			notes = append(notes, fmt.Sprintf("%s: expansion of new helpers abandoned: %s", pk.PkgPath, in.failed))
			for _, f := range pk.Syntax {
				delete(out, p.Fset.Position(f.Pos()).Filename)
			}
			continue
		}
		if in.calls > 0 {
			var names []string
			for fo := range in.helpers {
				names = append(names, fo.Name())
			}
			sort.Strings(names)
			notes = append(notes, fmt.Sprintf("%s: %d calls of functions that are not in the baseline (%s) expanded in place before analysis", strings.TrimPrefix(pk.PkgPath, Module+"/"), in.calls, strings.Join(names, ", ")))
		}
	}
	return out, notes
}

func defaultImportName(pk *packages.Package, path string) string {
	if ip, ok := pk.Imports[path]; ok && ip.Types != nil {
		return ip.Types.Name()
	}
	if i := strings.LastIndex(path, "/"); i >= 0 {
		return path[i+1:]
	}
	return path
}

// eligible: a helper whose body can be expanded in place.
func (in *inliner) eligible(fd *ast.FuncDecl, fo types.Object) bool {
	sig := fo.Type().(*types.Signature)
	if sig.TypeParams() != nil || sig.RecvTypeParams() != nil {
		return false
	}
	if sig.Variadic() {
		// the variadic parameter is bound to a slice literal of the extra arguments (see bind)
		last := fd.Type.Params.List[len(fd.Type.Params.List)-1]
		if len(last.Names) > 1 {
			return false
		}
		if _, isEll := last.Type.(*ast.Ellipsis); !isEll {
			return false
		}
	}
	if fd.Recv != nil && (len(fd.Recv.List) != 1 || len(fd.Recv.List[0].Names) > 1) {
		return false
	}
	ok := true
	n := 0
	hasDefer := false
	hasLabel := false
	lits := map[*ast.FuncLit]bool{}
	inLit := func(m ast.Node) bool {
		for l := range lits {
			if l.Pos() <= m.Pos() && m.End() <= l.End() {
				return true
			}
		}
		return false
	}
	ast.Inspect(fd.Body, func(m ast.Node) bool {
		switch x := m.(type) {
		case *ast.FuncLit:
			lits[x] = true // its defers, labels and gotos are its own
		case *ast.DeferStmt:
			if !inLit(x) {
				hasDefer = true
			}
		case *ast.LabeledStmt:
			if !inLit(x) {
				hasLabel = true
			}
		case *ast.BranchStmt:
			if (x.Tok == token.GOTO || x.Label != nil) && !inLit(x) {
				hasLabel = true
			}
		case *ast.CallExpr:
			if id, isId := x.Fun.(*ast.Ident); isId && id.Name == "recover" && !inLit(x) {
				ok = false
			}
			if in.info.Uses[identOf(x.Fun)] == fo { // direct recursion
				ok = false
			}
			if sel, isSel := x.Fun.(*ast.SelectorExpr); isSel && in.info.Uses[sel.Sel] == fo {
				ok = false
			}
		case ast.Stmt:
			n++
		}
		return ok
	})
	if n > 120 {
		return false
	}
	if ok && hasLabel && !hasDefer {
		// labels and gotos stay valid when the body is written once, as it is, in place of
		// `return h(…)`: a helper that is referred to exactly once
		refs := 0
		for _, f := range in.pk.Syntax {
			ast.Inspect(f, func(m ast.Node) bool {
				if id, isId := m.(*ast.Ident); isId && in.info.Uses[id] == types.Object(fo) {
					refs++
				}
				return true
			})
		}
		if refs == 1 {
			if in.labelHelpers == nil {
				in.labelHelpers = map[types.Object]*ast.FuncDecl{}
			}
			in.labelHelpers[fo] = fd
		}
		return false
	}
	if hasLabel {
		return false
	}
	if ok && hasDefer {
		// a helper with defers and no results can still stand in for a call that is the
		// last statement of a function body: its defers then run where they ran before
		if sig.Results().Len() == 0 && !in.isClosureDecl(fd) {
			if in.deferHelpers == nil {
				in.deferHelpers = map[types.Object]*ast.FuncDecl{}
			}
			in.deferHelpers[fo] = fd
		}
		return false
	}
	// named results must all be named or all unnamed (Go guarantees); parameters may be blank
	return ok
}

func (in *inliner) isClosureDecl(fd *ast.FuncDecl) bool { return in.isClosure[fd] }

// lastStmts: the statements that end the body of a function or function literal
// without results (per package, computed once).
func (in *inliner) lastStmts() map[ast.Stmt]bool {
	if in.lastOfBody != nil {
		return in.lastOfBody
	}
	in.lastOfBody = map[ast.Stmt]bool{}
	for _, f := range in.pk.Syntax {
		ast.Inspect(f, func(n ast.Node) bool {
			var body *ast.BlockStmt
			var ft *ast.FuncType
			switch x := n.(type) {
			case *ast.FuncDecl:
				body, ft = x.Body, x.Type
			case *ast.FuncLit:
				body, ft = x.Body, x.Type
			}
			if body != nil && len(body.List) > 0 && (ft.Results == nil || len(ft.Results.List) == 0) {
				in.lastOfBody[body.List[len(body.List)-1]] = true
			}
			return true
		})
	}
	return in.lastOfBody
}

// closures registers the function literals of fd that are bound exactly once to
// a local which is only ever called, and that the baseline does not list.
func (in *inliner) closures(fd *ast.FuncDecl) {
	base := funcKey(in.pk.PkgPath, fd, in.info)
	reg := func(id *ast.Ident, lit *ast.FuncLit) {
		obj := in.info.Defs[id]
		if obj == nil || id.Name == "_" || baselineSet[base+"|"+id.Name] {
			return
		}
		// only called, never assigned again, never passed around
		ok := true
		ast.Inspect(fd.Body, func(n ast.Node) bool {
			switch x := n.(type) {
			case *ast.CallExpr:
				if f, isId := ast.Unparen(x.Fun).(*ast.Ident); isId && in.info.Uses[f] == obj {
					for _, a := range x.Args {
						ast.Inspect(a, func(m ast.Node) bool {
							if u, isId := m.(*ast.Ident); isId && in.info.Uses[u] == obj {
								ok = false
							}
							return ok
						})
					}
					return false
				}
			case *ast.AssignStmt:
				// `_ = f` (left by an earlier expansion to keep the local used) is not a use
				if len(x.Lhs) == 1 && len(x.Rhs) == 1 {
					if l, isId := x.Lhs[0].(*ast.Ident); isId && l.Name == "_" {
						if r, isId := ast.Unparen(x.Rhs[0]).(*ast.Ident); isId && in.info.Uses[r] == obj {
							return false
						}
					}
				}
			case *ast.GoStmt:
				if f, isId := ast.Unparen(x.Call.Fun).(*ast.Ident); isId && in.info.Uses[f] == obj {
					return false // `go f(...)` keeps the call
				}
			case *ast.DeferStmt:
				if f, isId := ast.Unparen(x.Call.Fun).(*ast.Ident); isId && in.info.Uses[f] == obj {
					return false
				}
			case *ast.Ident:
				if in.info.Uses[x] == obj {
					ok = false
				}
			}
			return ok
		})
		if !ok {
			return
		}
		nd := &ast.FuncDecl{Name: id, Type: lit.Type, Body: lit.Body}
		if !in.eligible(nd, obj) {
			return
		}
		// captured variables
		fv := map[string]types.Object{}
		ast.Inspect(lit.Body, func(n ast.Node) bool {
			if u, isId := n.(*ast.Ident); isId {
				if o, isVar := in.info.Uses[u].(*types.Var); isVar && !o.IsField() && o.Pkg() != nil && o.Parent() != o.Pkg().Scope() {
					if !(lit.Pos() <= o.Pos() && o.Pos() < lit.End()) {
						fv[u.Name] = o
					}
				}
			}
			return true
		})
		in.helpers[obj] = nd
		in.isClosure[nd] = true
		in.free[nd] = fv
	}
	ast.Inspect(fd.Body, func(n ast.Node) bool {
		switch x := n.(type) {
		case *ast.AssignStmt:
			if x.Tok == token.DEFINE && len(x.Lhs) == 1 && len(x.Rhs) == 1 {
				if id, ok := x.Lhs[0].(*ast.Ident); ok {
					if lit, ok := ast.Unparen(x.Rhs[0]).(*ast.FuncLit); ok {
						reg(id, lit)
					}
				}
			}
		case *ast.ValueSpec:
			if len(x.Names) == 1 && len(x.Values) == 1 {
				if lit, ok := ast.Unparen(x.Values[0]).(*ast.FuncLit); ok {
					reg(x.Names[0], lit)
				}
			}
		}
		return true
	})
}

// sameScope: at the call, every variable the closure captures is still what
// its name denotes (no shadowing between the definition and the call).
func (in *inliner) sameScope(fd *ast.FuncDecl, call *ast.CallExpr) bool {
	sc := in.pk.Types.Scope().Innermost(call.Pos())
	if sc == nil {
		return false
	}
	for name, obj := range in.free[fd] {
		if _, o := sc.LookupParent(name, call.Pos()); o != obj {
			return false
		}
	}
	return true
}

// ClosureKeys lists the closures bound to locals (for the baseline).
func ClosureKeys(p *Program) []string {
	var out []string
	for _, pk := range p.Pkgs {
		if pk.ID != pk.PkgPath {
			continue
		}
		for _, f := range pk.Syntax {
			if IsTestFile(p.Fset, f) {
				continue
			}
			for _, d := range f.Decls {
				fd, ok := d.(*ast.FuncDecl)
				if !ok || fd.Body == nil {
					continue
				}
				base := funcKey(pk.PkgPath, fd, pk.TypesInfo)
				ast.Inspect(fd.Body, func(n ast.Node) bool {
					switch x := n.(type) {
					case *ast.AssignStmt:
						if x.Tok == token.DEFINE && len(x.Lhs) == 1 && len(x.Rhs) == 1 {
							if id, ok := x.Lhs[0].(*ast.Ident); ok {
								if _, ok := ast.Unparen(x.Rhs[0]).(*ast.FuncLit); ok {
									out = append(out, base+"|"+id.Name)
								}
							}
						}
					case *ast.ValueSpec:
						if len(x.Names) == 1 && len(x.Values) == 1 {
							if _, ok := ast.Unparen(x.Values[0]).(*ast.FuncLit); ok {
								out = append(out, base+"|"+x.Names[0].Name)
							}
						}
					}
					return true
				})
			}
		}
	}
	sort.Strings(out)
	return out
}

func (in *inliner) hasForwardGoto(b *ast.BlockStmt) bool {
	has := false
	ast.Inspect(b, func(m ast.Node) bool {
		if br, ok := m.(*ast.BranchStmt); ok && br.Tok == token.GOTO {
			// a forward goto may not jump over the declarations an expansion adds
			ast.Inspect(b, func(k ast.Node) bool {
				if ls, ok := k.(*ast.LabeledStmt); ok && br.Label != nil && ls.Label.Name == br.Label.Name && ls.Pos() > br.Pos() {
					has = true
				}
				return true
			})
		}
		return true
	})
	return has
}

// name clones a declaring identifier (renamed when the expansion renames it).
func (in *inliner) name(id *ast.Ident) *ast.Ident {
	if n, ok := in.expr(id, nil).(*ast.Ident); ok {
		return n
	}
	return ast.NewIdent(id.Name)
}

func (in *inliner) fresh(prefix string) string {
	in.n++
	return fmt.Sprintf("%s_x%d", prefix, in.n)
}

// ---------------------------------------------------------------------------
// cloning with replacement

type repl map[ast.Expr]ast.Expr

func (in *inliner) exprs(xs []ast.Expr, r repl) []ast.Expr {
	if xs == nil {
		return nil
	}
	out := make([]ast.Expr, len(xs))
	for i, x := range xs {
		out[i] = in.expr(x, r)
	}
	return out
}

func (in *inliner) fields(fl *ast.FieldList) *ast.FieldList {
	if fl == nil {
		return nil
	}
	out := &ast.FieldList{}
	if fl.Opening.IsValid() {
		out.Opening, out.Closing = 1, 1
	}
	for _, f := range fl.List {
		nf := &ast.Field{Type: in.expr(f.Type, nil)}
		for _, nm := range f.Names {
			nf.Names = append(nf.Names, in.name(nm))
		}
		if f.Tag != nil {
			nf.Tag = &ast.BasicLit{Kind: f.Tag.Kind, Value: f.Tag.Value}
		}
		out.List = append(out.List, nf)
	}
	return out
}

func (in *inliner) expr(x ast.Expr, r repl) ast.Expr {
	if x == nil {
		return nil
	}
	if r != nil {
		if nx, ok := r[x]; ok {
			return nx
		}
	}
	switch v := x.(type) {
	case *ast.Ident:
		obj := in.info.Uses[v]
		if obj == nil {
			obj = in.info.Defs[v]
		}
		if pn, ok := obj.(*types.PkgName); ok {
			in.needImp[v.Name] = pn.Imported().Path()
		}
		if obj != nil {
			for i := len(in.frames) - 1; i >= 0; i-- {
				if t, ok := in.frames[i][obj]; ok {
					return in.expr(t, nil) // a fresh copy of the argument template
				}
			}
		}
		return ast.NewIdent(v.Name)
	case *ast.BasicLit:
		return &ast.BasicLit{Kind: v.Kind, Value: v.Value}
	case *ast.Ellipsis:
		return &ast.Ellipsis{Elt: in.expr(v.Elt, r)}
	case *ast.FuncLit:
		return &ast.FuncLit{Type: in.expr(v.Type, r).(*ast.FuncType), Body: &ast.BlockStmt{List: in.list(v.Body.List)}}
	case *ast.CompositeLit:
		return &ast.CompositeLit{Type: in.expr(v.Type, r), Elts: in.exprs(v.Elts, r), Incomplete: v.Incomplete}
	case *ast.ParenExpr:
		return &ast.ParenExpr{X: in.expr(v.X, r)}
	case *ast.SelectorExpr:
		return &ast.SelectorExpr{X: in.expr(v.X, r), Sel: ast.NewIdent(v.Sel.Name)}
	case *ast.IndexExpr:
		return &ast.IndexExpr{X: in.expr(v.X, r), Index: in.expr(v.Index, r)}
	case *ast.IndexListExpr:
		return &ast.IndexListExpr{X: in.expr(v.X, r), Indices: in.exprs(v.Indices, r)}
	case *ast.SliceExpr:
		return &ast.SliceExpr{X: in.expr(v.X, r), Low: in.expr(v.Low, r), High: in.expr(v.High, r), Max: in.expr(v.Max, r), Slice3: v.Slice3}
	case *ast.TypeAssertExpr:
		return &ast.TypeAssertExpr{X: in.expr(v.X, r), Type: in.expr(v.Type, r)}
	case *ast.CallExpr:
		if e := in.exprHelper(v, r); e != nil {
			return e
		}
		if v.Ellipsis.IsValid() && len(v.Args) > 0 {
			// f(a, rest...) where rest is a variadic parameter bound to the caller's extra
			// arguments: they are passed on one by one
			if id, isId := v.Args[len(v.Args)-1].(*ast.Ident); isId {
				if obj := in.info.Uses[id]; obj != nil {
					for i := len(in.frames) - 1; i >= 0; i-- {
						if t, ok := in.frames[i][obj]; ok {
							if elts, isPack := in.packs[t]; isPack {
								c := &ast.CallExpr{Fun: in.expr(v.Fun, r), Args: in.exprs(v.Args[:len(v.Args)-1], r)}
								for _, e := range elts {
									c.Args = append(c.Args, in.expr(e, nil))
								}
								return c
							}
							break
						}
					}
				}
			}
		}
		c := &ast.CallExpr{Fun: in.expr(v.Fun, r), Args: in.exprs(v.Args, r)}
		if v.Ellipsis.IsValid() {
			c.Ellipsis = 1
		}
		return c
	case *ast.StarExpr:
		return &ast.StarExpr{X: in.expr(v.X, r)}
	case *ast.UnaryExpr:
		return &ast.UnaryExpr{Op: v.Op, X: in.expr(v.X, r)}
	case *ast.BinaryExpr:
		return &ast.BinaryExpr{X: in.expr(v.X, r), Op: v.Op, Y: in.expr(v.Y, r)}
	case *ast.KeyValueExpr:
		return &ast.KeyValueExpr{Key: in.expr(v.Key, r), Value: in.expr(v.Value, r)}
	case *ast.ArrayType:
		return &ast.ArrayType{Len: in.expr(v.Len, r), Elt: in.expr(v.Elt, r)}
	case *ast.StructType:
		return &ast.StructType{Fields: in.fields(v.Fields), Incomplete: v.Incomplete}
	case *ast.FuncType:
		return &ast.FuncType{Params: in.fields(v.Params), Results: in.fields(v.Results)}
	case *ast.InterfaceType:
		return &ast.InterfaceType{Methods: in.fields(v.Methods), Incomplete: v.Incomplete}
	case *ast.MapType:
		return &ast.MapType{Key: in.expr(v.Key, r), Value: in.expr(v.Value, r)}
	case *ast.ChanType:
		return &ast.ChanType{Dir: v.Dir, Value: in.expr(v.Value, r)}
	}
	in.failed = fmt.Sprintf("unsupported expression %T", x)
	return ast.NewIdent("_")
}

func (in *inliner) genDecl(g *ast.GenDecl) *ast.GenDecl {
	out := &ast.GenDecl{Tok: g.Tok}
	if g.Lparen.IsValid() {
		out.Lparen, out.Rparen = 1, 1
	}
	for _, sp := range g.Specs {
		switch s := sp.(type) {
		case *ast.ImportSpec:
			ns := &ast.ImportSpec{Path: &ast.BasicLit{Kind: token.STRING, Value: s.Path.Value}}
			if s.Name != nil {
				ns.Name = ast.NewIdent(s.Name.Name)
			}
			out.Specs = append(out.Specs, ns)
		case *ast.ValueSpec:
			ns := &ast.ValueSpec{Type: in.expr(s.Type, nil), Values: in.exprs(s.Values, nil)}
			for _, nm := range s.Names {
				ns.Names = append(ns.Names, in.name(nm))
			}
			out.Specs = append(out.Specs, ns)
		case *ast.TypeSpec:
			ns := &ast.TypeSpec{Name: ast.NewIdent(s.Name.Name), TypeParams: in.fields(s.TypeParams), Type: in.expr(s.Type, nil)}
			if s.Assign.IsValid() {
				ns.Assign = 1
			}
			out.Specs = append(out.Specs, ns)
		}
	}
	return out
}

// stmt clones one statement; nested statement lists are rewritten unless
// plain is set.
func (in *inliner) stmt(s ast.Stmt, r repl, plain bool) ast.Stmt {
	if s == nil {
		return nil
	}
	sub := func(l []ast.Stmt) []ast.Stmt {
		if plain {
			var out []ast.Stmt
			for _, x := range l {
				out = append(out, in.stmt(x, nil, true))
			}
			return out
		}
		return in.list(l)
	}
	block := func(b *ast.BlockStmt) *ast.BlockStmt {
		if b == nil {
			return nil
		}
		return &ast.BlockStmt{List: sub(b.List)}
	}
	switch v := s.(type) {
	case *ast.BadStmt:
		in.failed = "bad statement"
		return &ast.EmptyStmt{}
	case *ast.DeclStmt:
		return &ast.DeclStmt{Decl: in.genDeclR(v.Decl.(*ast.GenDecl), r)}
	case *ast.EmptyStmt:
		return &ast.EmptyStmt{Implicit: v.Implicit}
	case *ast.LabeledStmt:
		return &ast.LabeledStmt{Label: ast.NewIdent(v.Label.Name), Stmt: in.stmt(v.Stmt, r, plain)}
	case *ast.ExprStmt:
		return &ast.ExprStmt{X: in.expr(v.X, r)}
	case *ast.SendStmt:
		return &ast.SendStmt{Chan: in.expr(v.Chan, r), Value: in.expr(v.Value, r)}
	case *ast.IncDecStmt:
		return &ast.IncDecStmt{X: in.expr(v.X, r), Tok: v.Tok}
	case *ast.AssignStmt:
		return &ast.AssignStmt{Lhs: in.exprs(v.Lhs, r), Tok: v.Tok, Rhs: in.exprs(v.Rhs, r)}
	case *ast.GoStmt:
		return &ast.GoStmt{Call: in.expr(v.Call, r).(*ast.CallExpr)}
	case *ast.DeferStmt:
		return &ast.DeferStmt{Call: in.expr(v.Call, r).(*ast.CallExpr)}
	case *ast.ReturnStmt:
		return &ast.ReturnStmt{Results: in.exprs(v.Results, r)}
	case *ast.BranchStmt:
		b := &ast.BranchStmt{Tok: v.Tok}
		if v.Label != nil {
			b.Label = ast.NewIdent(v.Label.Name)
		}
		return b
	case *ast.BlockStmt:
		return block(v)
	case *ast.IfStmt:
		n := &ast.IfStmt{Init: in.stmt(v.Init, r, true), Cond: in.expr(v.Cond, r), Body: block(v.Body)}
		if v.Else != nil {
			n.Else = in.elseStmt(v.Else, plain)
		}
		return n
	case *ast.CaseClause:
		return &ast.CaseClause{List: in.exprs(v.List, r), Body: sub(v.Body)}
	case *ast.SwitchStmt:
		return &ast.SwitchStmt{Init: in.stmt(v.Init, r, true), Tag: in.expr(v.Tag, r), Body: in.clauses(v.Body, plain)}
	case *ast.TypeSwitchStmt:
		return &ast.TypeSwitchStmt{Init: in.stmt(v.Init, r, true), Assign: in.stmt(v.Assign, r, true), Body: in.clauses(v.Body, plain)}
	case *ast.CommClause:
		return &ast.CommClause{Comm: in.stmt(v.Comm, r, true), Body: sub(v.Body)}
	case *ast.SelectStmt:
		return &ast.SelectStmt{Body: in.clauses(v.Body, plain)}
	case *ast.ForStmt:
		return &ast.ForStmt{Init: in.stmt(v.Init, r, true), Cond: in.expr(v.Cond, r), Post: in.stmt(v.Post, r, true), Body: block(v.Body)}
	case *ast.RangeStmt:
		return &ast.RangeStmt{Key: in.expr(v.Key, r), Value: in.expr(v.Value, r), Tok: v.Tok, X: in.expr(v.X, r), Body: block(v.Body)}
	}
	in.failed = fmt.Sprintf("unsupported statement %T", s)
	return &ast.EmptyStmt{}
}

func (in *inliner) clauses(b *ast.BlockStmt, plain bool) *ast.BlockStmt {
	out := &ast.BlockStmt{}
	for _, c := range b.List {
		out.List = append(out.List, in.stmt(c, nil, plain))
	}
	return out
}

// elseStmt: an else branch is a block or an if; an if that needs expansion is
// wrapped in a block.
func (in *inliner) elseStmt(s ast.Stmt, plain bool) ast.Stmt {
	if plain {
		return in.stmt(s, nil, true)
	}
	if ifs, ok := s.(*ast.IfStmt); ok {
		l := in.list([]ast.Stmt{ifs})
		if len(l) == 1 {
			if one, ok := l[0].(*ast.IfStmt); ok {
				return one
			}
			if blk, ok := l[0].(*ast.BlockStmt); ok {
				return blk
			}
		}
		return &ast.BlockStmt{List: l}
	}
	return in.stmt(s, nil, false)
}

func (in *inliner) genDeclR(g *ast.GenDecl, r repl) *ast.GenDecl {
	if r == nil {
		return in.genDecl(g)
	}
	out := &ast.GenDecl{Tok: g.Tok}
	if g.Lparen.IsValid() {
		out.Lparen, out.Rparen = 1, 1
	}
	for _, sp := range g.Specs {
		if s, ok := sp.(*ast.ValueSpec); ok {
			ns := &ast.ValueSpec{Type: in.expr(s.Type, nil), Values: in.exprs(s.Values, r)}
			for _, nm := range s.Names {
				ns.Names = append(ns.Names, in.name(nm))
			}
			out.Specs = append(out.Specs, ns)
		} else {
			return in.genDecl(g)
		}
	}
	return out
}

// ---------------------------------------------------------------------------
// statement lists

// list rewrites a statement list: statements that call a new helper are
// replaced by the helper's body, written the way it would have been written in
// place.
func (in *inliner) list(l []ast.Stmt) []ast.Stmt {
	var out []ast.Stmt
	for _, s := range l {
		out = append(out, in.one(s)...)
	}
	return out
}

// helperCall returns the call when x is (a parenthesised) call of an
// expandable new helper.
func (in *inliner) helperCall(x ast.Expr) (*ast.CallExpr, *ast.FuncDecl) {
	call, ok := ast.Unparen(x).(*ast.CallExpr)
	if !ok {
		return nil, nil
	}
	fd := in.helperOf(call)
	if fd == nil || in.busy[fd] {
		return nil, nil
	}
	return call, fd
}

func (in *inliner) one(s ast.Stmt) []ast.Stmt {
	if in.failed != "" {
		return []ast.Stmt{in.stmt(s, nil, true)}
	}
	// the definition of an expandable closure stays (its calls may all disappear)
	if id := closureDef(s); id != nil {
		if fd := in.helpers[in.info.Defs[id]]; fd != nil && in.isClosure[fd] {
			return []ast.Stmt{in.stmt(s, nil, false), blank(id.Name)}
		}
	}
	switch v := s.(type) {
	case *ast.LabeledStmt:
		// the label must keep naming the statement itself
		return []ast.Stmt{&ast.LabeledStmt{Label: ast.NewIdent(v.Label.Name), Stmt: in.stmt(v.Stmt, nil, false)}}
	case *ast.AssignStmt:
		// `n, err := f()` at the top level of a helper whose parameter or named
		// result is err assigns that err; once the body stands in a nested block
		// of the caller the same statement would declare a new one. The reused
		// names receive the value through a temporary instead.
		var reused []int
		if v.Tok == token.DEFINE && len(in.frames) > 0 {
			for i, l := range v.Lhs {
				if id, ok := l.(*ast.Ident); ok && id.Name != "_" && in.info.Defs[id] == nil {
					if _, mapped := in.frames[len(in.frames)-1][in.info.Uses[id]]; mapped {
						reused = append(reused, i)
					}
				}
			}
		}
		if len(reused) > 0 {
			cl, ok := in.stmt(s, nil, false).(*ast.AssignStmt)
			if !ok || len(cl.Lhs) != len(v.Lhs) {
				in.failed = "cannot rewrite a := that reuses a result of the helper"
				return []ast.Stmt{in.stmt(s, nil, true)}
			}
			out := []ast.Stmt{cl}
			for _, i := range reused {
				tmp := in.fresh(v.Lhs[i].(*ast.Ident).Name + "_h")
				target := cl.Lhs[i]
				cl.Lhs[i] = ast.NewIdent(tmp)
				out = append(out, &ast.AssignStmt{Lhs: []ast.Expr{target}, Tok: token.ASSIGN, Rhs: []ast.Expr{ast.NewIdent(tmp)}})
			}
			if len(reused) == len(v.Lhs) {
				cl.Tok = token.DEFINE
			}
			return out
		}
		if len(v.Rhs) == 1 && (v.Tok == token.ASSIGN || v.Tok == token.DEFINE) {
			if call, fd := in.helperCall(v.Rhs[0]); call != nil {
				if out := in.expandAssign(v.Lhs, v.Tok == token.DEFINE, call, fd); out != nil {
					return out
				}
			}
		}
	case *ast.DeclStmt:
		if gd, ok := v.Decl.(*ast.GenDecl); ok && gd.Tok == token.VAR && len(gd.Specs) == 1 {
			if vs, ok := gd.Specs[0].(*ast.ValueSpec); ok && len(vs.Values) == 1 && vs.Type == nil {
				if call, fd := in.helperCall(vs.Values[0]); call != nil {
					var lhs []ast.Expr
					for _, nm := range vs.Names {
						lhs = append(lhs, nm)
					}
					if out := in.expandAssign(lhs, true, call, fd); out != nil {
						return out
					}
				}
			}
		}
	case *ast.ExprStmt:
		if call, fd := in.helperCall(v.X); call != nil {
			if body := in.inlineBody(fd, call, nil, false); body != nil {
				return []ast.Stmt{&ast.BlockStmt{List: body}}
			}
		}
		if call, isCall := ast.Unparen(v.X).(*ast.CallExpr); isCall && len(in.deferHelpers) > 0 && len(in.frames) == 0 && in.lastStmts()[v] {
			// the call ends a function body: the helper's defers run at the same point
			var fo types.Object
			switch f := ast.Unparen(call.Fun).(type) {
			case *ast.Ident:
				fo = in.info.Uses[f]
			case *ast.SelectorExpr:
				if sel, ok := in.info.Selections[f]; ok && sel.Kind() == types.MethodVal {
					fo = sel.Obj()
				}
			}
			if fd := in.deferHelpers[fo]; fd != nil && !in.busy[fd] {
				if body := in.inlineBody(fd, call, nil, true); body != nil {
					return []ast.Stmt{&ast.BlockStmt{List: body}}
				}
			}
		}
	case *ast.DeferStmt:
		// `defer h(a)` is `{ a' := a; defer func() { <body of h with a'> }() }`: the
		// arguments are evaluated where the defer statement stands, the body runs later
		if call, fd := in.helperCall(v.Call); call != nil && !in.isClosure[fd] && (fd.Type.Results == nil || len(fd.Type.Results.List) == 0) && len(in.frames) == 0 {
			if sig, _ := in.info.Defs[fd.Name].Type().(*types.Signature); sig != nil && !sig.Variadic() {
				in.forceBind = true
				stmts := in.inlineBody(fd, call, nil, false)
				in.forceBind = false
				if stmts != nil && in.lastPre <= len(stmts) {
					pre, body := stmts[:in.lastPre], stmts[in.lastPre:]
					lit := &ast.FuncLit{Type: &ast.FuncType{Params: &ast.FieldList{}}, Body: &ast.BlockStmt{List: body}}
					out := append(append([]ast.Stmt{}, pre...), &ast.DeferStmt{Call: &ast.CallExpr{Fun: lit}})
					return []ast.Stmt{&ast.BlockStmt{List: out}}
				}
			}
		}
	case *ast.ReturnStmt:
		if len(v.Results) == 1 {
			if call, fd := in.helperCall(v.Results[0]); call != nil {
				if body := in.inlineBody(fd, call, nil, true); body != nil {
					return []ast.Stmt{&ast.BlockStmt{List: body}}
				}
			}
			if call, isCall := ast.Unparen(v.Results[0]).(*ast.CallExpr); isCall && len(in.labelHelpers) > 0 && len(in.frames) == 0 {
				var fo types.Object
				switch f := ast.Unparen(call.Fun).(type) {
				case *ast.Ident:
					fo = in.info.Uses[f]
				case *ast.SelectorExpr:
					if sel, ok := in.info.Selections[f]; ok && sel.Kind() == types.MethodVal {
						fo = sel.Obj()
					}
				}
				if fd := in.labelHelpers[fo]; fd != nil && !in.busy[fd] {
					if body := in.inlineBody(fd, call, nil, true); body != nil {
						return []ast.Stmt{&ast.BlockStmt{List: body}}
					}
				}
			}
		}
	case *ast.IfStmt:
		// `if h(...); cond { ... }`
		if es, ok := v.Init.(*ast.ExprStmt); ok {
			if call, fd := in.helperCall(es.X); call != nil {
				if body := in.inlineBody(fd, call, nil, false); body != nil {
					n := &ast.IfStmt{Cond: in.expr(v.Cond, nil), Body: &ast.BlockStmt{List: in.list(v.Body.List)}}
					if v.Else != nil {
						n.Else = in.elseStmt(v.Else, false)
					}
					return []ast.Stmt{&ast.BlockStmt{List: []ast.Stmt{&ast.BlockStmt{List: body}, n}}}
				}
			}
		}
		// `if x, err := h(...); cond { ... }`
		if as, ok := v.Init.(*ast.AssignStmt); ok && len(as.Rhs) == 1 && as.Tok == token.DEFINE {
			if call, fd := in.helperCall(as.Rhs[0]); call != nil {
				if pre := in.expandAssign(as.Lhs, true, call, fd); pre != nil {
					n := &ast.IfStmt{Cond: in.expr(v.Cond, nil), Body: &ast.BlockStmt{List: in.list(v.Body.List)}}
					if v.Else != nil {
						n.Else = in.elseStmt(v.Else, false)
					}
					return []ast.Stmt{&ast.BlockStmt{List: append(pre, n)}}
				}
			}
		}
	}
	// calls nested in the statement's own expressions: hoisted into temporaries
	// where that cannot change the evaluation order
	r := repl{}
	var pre []ast.Stmt
	for guard := 0; guard < 12; guard++ {
		call := in.candidate(s, r)
		if call == nil {
			break
		}
		fd := in.helperOf(call)
		fo := in.info.Defs[fd.Name]
		if fo.Type().(*types.Signature).Results().Len() != 1 {
			break
		}
		tmp := in.fresh("r")
		targets := []ast.Expr{ast.NewIdent(tmp)}
		body := in.inlineBodyR(fd, call, targets, false, false, r)
		if body == nil {
			break
		}
		pre = append(pre, varDecl(tmp, in.expr(fd.Type.Results.List[0].Type, nil)), &ast.BlockStmt{List: body})
		r[call] = ast.NewIdent(tmp)
	}
	if len(pre) == 0 {
		return []ast.Stmt{in.stmt(s, nil, false)}
	}
	tail := in.withHead(s, r)
	if defines(s) {
		return append(pre, tail)
	}
	return []ast.Stmt{&ast.BlockStmt{List: append(pre, tail)}}
}

func (in *inliner) markDone(call *ast.CallExpr) {
	switch f := ast.Unparen(call.Fun).(type) {
	case *ast.Ident:
		in.doneIdent[f] = true
	case *ast.SelectorExpr:
		in.doneIdent[f.Sel] = true
	}
}

// closureDef: `f := func(...) {...}` / `var f = func(...) {...}`.
func closureDef(s ast.Stmt) *ast.Ident {
	switch v := s.(type) {
	case *ast.AssignStmt:
		if v.Tok == token.DEFINE && len(v.Lhs) == 1 && len(v.Rhs) == 1 {
			if _, ok := ast.Unparen(v.Rhs[0]).(*ast.FuncLit); ok {
				id, _ := v.Lhs[0].(*ast.Ident)
				return id
			}
		}
	case *ast.DeclStmt:
		if gd, ok := v.Decl.(*ast.GenDecl); ok && gd.Tok == token.VAR && len(gd.Specs) == 1 {
			if vs, ok := gd.Specs[0].(*ast.ValueSpec); ok && len(vs.Names) == 1 && len(vs.Values) == 1 {
				if _, ok := ast.Unparen(vs.Values[0]).(*ast.FuncLit); ok {
					return vs.Names[0]
				}
			}
		}
	}
	return nil
}

func varDecl(name string, typ ast.Expr) ast.Stmt {
	return &ast.DeclStmt{Decl: &ast.GenDecl{Tok: token.VAR, Specs: []ast.Spec{&ast.ValueSpec{Names: []*ast.Ident{ast.NewIdent(name)}, Type: typ}}}}
}

func defines(s ast.Stmt) bool {
	switch v := s.(type) {
	case *ast.AssignStmt:
		return v.Tok == token.DEFINE
	case *ast.DeclStmt:
		return true
	}
	return false
}

// withHead clones statement s with the replacements applied to its own
// expressions (nested statement lists are rewritten as usual).
func (in *inliner) withHead(s ast.Stmt, r repl) ast.Stmt {
	switch v := s.(type) {
	case *ast.IfStmt:
		n := &ast.IfStmt{Init: in.stmt(v.Init, r, true), Cond: in.expr(v.Cond, r), Body: &ast.BlockStmt{List: in.list(v.Body.List)}}
		if v.Else != nil {
			n.Else = in.elseStmt(v.Else, false)
		}
		return n
	case *ast.SwitchStmt:
		return &ast.SwitchStmt{Init: in.stmt(v.Init, r, true), Tag: in.expr(v.Tag, r), Body: in.clauses(v.Body, false)}
	case *ast.RangeStmt:
		return &ast.RangeStmt{Key: in.expr(v.Key, nil), Value: in.expr(v.Value, nil), Tok: v.Tok, X: in.expr(v.X, r), Body: &ast.BlockStmt{List: in.list(v.Body.List)}}
	}
	return in.stmt(s, r, false)
}

// candidate finds the next single-result call of a new helper in statement s
// that can be computed before s without changing the evaluation order.
func (in *inliner) candidate(s ast.Stmt, done repl) *ast.CallExpr {
	var heads []ast.Expr
	switch v := s.(type) {
	case *ast.ExprStmt:
		heads = []ast.Expr{v.X}
	case *ast.AssignStmt:
		for _, l := range v.Lhs {
			if in.impure(l) {
				return nil
			}
		}
		heads = append(heads, v.Rhs...)
	case *ast.ReturnStmt:
		heads = v.Results
	case *ast.DeclStmt:
		if gd, ok := v.Decl.(*ast.GenDecl); ok && gd.Tok == token.VAR && len(gd.Specs) == 1 {
			if vs, ok := gd.Specs[0].(*ast.ValueSpec); ok {
				heads = vs.Values
			}
		}
	case *ast.IfStmt:
		if v.Init != nil {
			return in.candidate(v.Init, done) // the initialiser runs first
		}
		heads = []ast.Expr{v.Cond}
	case *ast.SwitchStmt:
		if v.Init != nil {
			return in.candidate(v.Init, done)
		}
		if v.Tag != nil {
			heads = []ast.Expr{v.Tag}
		}
	case *ast.RangeStmt:
		heads = []ast.Expr{v.X}
	case *ast.SendStmt:
		heads = []ast.Expr{v.Chan, v.Value}
	default:
		return nil
	}
	var found *ast.CallExpr
	stop := false
	var walk func(x ast.Expr)
	walk = func(x ast.Expr) {
		if x == nil || stop || found != nil {
			return
		}
		if _, replaced := done[x]; replaced {
			return
		}
		switch v := x.(type) {
		case *ast.ParenExpr:
			walk(v.X)
		case *ast.Ident, *ast.BasicLit, *ast.FuncLit:
		case *ast.SelectorExpr:
			walk(v.X)
		case *ast.StarExpr:
			walk(v.X)
		case *ast.UnaryExpr:
			if v.Op == token.ARROW {
				stop = true
				return
			}
			walk(v.X)
		case *ast.BinaryExpr:
			walk(v.X)
			if v.Op == token.LAND || v.Op == token.LOR {
				if in.impure(v.Y) { // evaluated conditionally
					stop = true
				}
				return
			}
			walk(v.Y)
		case *ast.IndexExpr:
			walk(v.X)
			walk(v.Index)
		case *ast.SliceExpr:
			walk(v.X)
			walk(v.Low)
			walk(v.High)
			walk(v.Max)
		case *ast.TypeAssertExpr:
			walk(v.X)
		case *ast.KeyValueExpr:
			walk(v.Key)
			walk(v.Value)
		case *ast.CompositeLit:
			for _, el := range v.Elts {
				walk(el)
			}
		case *ast.CallExpr:
			if tv, ok := in.info.Types[v.Fun]; ok && tv.IsType() {
				for _, a := range v.Args {
					walk(a)
				}
				return
			}
			if sel, ok := v.Fun.(*ast.SelectorExpr); ok {
				if _, isPkg := in.info.Uses[identOf(sel.X)].(*types.PkgName); !isPkg {
					walk(sel.X)
				}
			} else if _, ok := v.Fun.(*ast.Ident); !ok {
				walk(v.Fun)
			}
			for _, a := range v.Args {
				walk(a)
			}
			if found != nil || stop {
				return
			}
			if fd := in.helperOf(v); fd != nil && !in.busy[fd] && (!in.isExprHelper(fd) || in.impureArgs(v)) {
				// (a single-expression helper whose arguments cannot be written in place
				// of its parameters - a composite literal receiver, a call - is expanded
				// like any other helper, its parameters bound to locals)
				if _, isTuple := in.info.TypeOf(v).(*types.Tuple); !isTuple {
					found = v
					return
				}
				stop = true
				return
			}
			if in.helperOf(v) != nil && in.isExprHelper(in.helperOf(v)) && !in.impureArgs(v) {
				return // substituted as an expression
			}
			if b, isB := in.info.Uses[identOf(v.Fun)].(*types.Builtin); isB && (b.Name() == "len" || b.Name() == "cap" || b.Name() == "min" || b.Name() == "max") {
				return
			}
			stop = true // some other call happens first
		default:
			stop = true
		}
	}
	for _, h := range heads {
		walk(h)
		if found != nil || stop {
			break
		}
	}
	return found
}

func (in *inliner) impure(x ast.Expr) bool {
	imp := false
	ast.Inspect(x, func(n ast.Node) bool {
		switch v := n.(type) {
		case *ast.CallExpr:
			if tv, ok := in.info.Types[v.Fun]; ok && tv.IsType() {
				return true
			}
			if b, isB := in.info.Uses[identOf(v.Fun)].(*types.Builtin); isB && (b.Name() == "len" || b.Name() == "cap") {
				return true
			}
			imp = true
		case *ast.UnaryExpr:
			if v.Op == token.ARROW {
				imp = true
			}
		case *ast.FuncLit:
			return false
		}
		return !imp
	})
	return imp
}

func (in *inliner) impureArgs(call *ast.CallExpr) bool {
	for _, a := range call.Args {
		if !in.stable(a) {
			return true
		}
	}
	if sel, ok := ast.Unparen(call.Fun).(*ast.SelectorExpr); ok {
		if _, isPkg := in.info.Uses[identOf(sel.X)].(*types.PkgName); !isPkg && !in.stable(sel.X) {
			return true
		}
	}
	return false
}

// stable: an expression that can be written several times in place of a
// parameter: identifiers, field selections, literals, conversions and & * of
// those.
func (in *inliner) stable(x ast.Expr) bool {
	switch v := ast.Unparen(x).(type) {
	case *ast.Ident, *ast.BasicLit:
		return true
	case *ast.SelectorExpr:
		return in.stable(v.X)
	case *ast.StarExpr:
		return in.stable(v.X)
	case *ast.UnaryExpr:
		return (v.Op == token.AND || v.Op == token.SUB || v.Op == token.NOT) && in.stable(v.X)
	case *ast.CallExpr:
		if tv, ok := in.info.Types[v.Fun]; ok && tv.IsType() && len(v.Args) == 1 {
			return in.stable(v.Args[0])
		}
		if b, isB := in.info.Uses[identOf(v.Fun)].(*types.Builtin); isB && b.Name() == "len" && len(v.Args) == 1 {
			return in.stable(v.Args[0])
		}
	}
	return false
}

func (in *inliner) helperOf(call *ast.CallExpr) *ast.FuncDecl {
	var fo types.Object
	switch f := ast.Unparen(call.Fun).(type) {
	case *ast.Ident:
		fo = in.info.Uses[f]
	case *ast.SelectorExpr:
		if sel, ok := in.info.Selections[f]; ok && sel.Kind() == types.MethodVal {
			fo = sel.Obj()
		}
	}
	if fo == nil {
		return nil
	}
	fd := in.helpers[fo]
	if fd != nil && in.isClosure[fd] && !in.sameScope(fd, call) {
		return nil
	}
	return fd
}

// isExprHelper: the body is a single `return <expr>`.
func (in *inliner) isExprHelper(fd *ast.FuncDecl) bool {
	if len(fd.Body.List) != 1 {
		return false
	}
	ret, ok := fd.Body.List[0].(*ast.ReturnStmt)
	return ok && len(ret.Results) == 1 && !in.impureOwn(ret.Results[0])
}

// impureOwn: function literals make an expression unsuitable for substitution.
func (in *inliner) impureOwn(x ast.Expr) bool {
	bad := false
	ast.Inspect(x, func(n ast.Node) bool {
		if _, ok := n.(*ast.FuncLit); ok {
			bad = true
		}
		return !bad
	})
	return bad
}

// exprHelper substitutes a call of a single-expression helper whose arguments
// are stable expressions by the helper's expression.
func (in *inliner) exprHelper(call *ast.CallExpr, r repl) ast.Expr {
	fd := in.helperOf(call)
	if fd == nil || in.busy[fd] || !in.isExprHelper(fd) || in.impureArgs(call) {
		return nil
	}
	fr, pre := in.bind(fd, call, r, true)
	if fr == nil || len(pre) > 0 {
		return nil
	}
	in.calls++
	in.expanded[in.info.Defs[fd.Name]]++
	in.markDone(call)
	in.busy[fd] = true
	in.frames = append(in.frames, fr)
	res := in.expr(fd.Body.List[0].(*ast.ReturnStmt).Results[0], nil)
	in.frames = in.frames[:len(in.frames)-1]
	delete(in.busy, fd)
	// keep the static type of the result
	if fd.Type.Results != nil && len(fd.Type.Results.List) == 1 {
		if t := in.info.TypeOf(fd.Type.Results.List[0].Type); t != nil {
			if _, isBasic := t.Underlying().(*types.Basic); isBasic {
				if rt := in.info.TypeOf(fd.Body.List[0].(*ast.ReturnStmt).Results[0]); rt != nil && !types.Identical(rt, t) {
					return &ast.CallExpr{Fun: in.expr(fd.Type.Results.List[0].Type, nil), Args: []ast.Expr{res}}
				}
			}
		}
	}
	return &ast.ParenExpr{X: res}
}

// renameLocals gives every variable named `name` that the helper's body
// declares a fresh name (recorded in the frame).
func (in *inliner) renameLocals(fd *ast.FuncDecl, name string, fr map[types.Object]ast.Expr) {
	nn := in.fresh(name + "_h")
	ast.Inspect(fd.Body, func(n ast.Node) bool {
		if id, ok := n.(*ast.Ident); ok && id.Name == name {
			if obj := in.info.Defs[id]; obj != nil {
				if _, done := fr[obj]; !done {
					fr[obj] = ast.NewIdent(nn)
				}
			}
		}
		return true
	})
}

// bodyNames: the names declared inside the helper's body.
func (in *inliner) bodyNames(fd *ast.FuncDecl) map[string]bool {
	m := map[string]bool{}
	ast.Inspect(fd.Body, func(n ast.Node) bool {
		if id, ok := n.(*ast.Ident); ok && in.info.Defs[id] != nil {
			m[id.Name] = true
		}
		return true
	})
	return m
}

func freeNames(x ast.Expr, into map[string]bool) {
	ast.Inspect(x, func(n ast.Node) bool {
		if id, ok := n.(*ast.Ident); ok {
			into[id.Name] = true
		}
		return true
	})
}

// assigned: the parameter is assigned, incremented or has its address taken
// in the helper's body.
func (in *inliner) assigned(fd *ast.FuncDecl, obj types.Object) bool {
	hit := false
	// a struct or array held by value: writing one of its parts writes the parameter
	byValue := false
	switch obj.Type().Underlying().(type) {
	case *types.Struct, *types.Array:
		byValue = true
	}
	partOf := func(x ast.Expr) bool {
		if !byValue {
			return false
		}
		for {
			switch y := ast.Unparen(x).(type) {
			case *ast.SelectorExpr:
				if s, ok := in.info.Selections[y]; ok && s.Indirect() {
					return false // through a pointer field: not part of the value
				}
				x = y.X
				continue
			case *ast.IndexExpr:
				if _, isArr := in.info.TypeOf(y.X).Underlying().(*types.Array); !isArr {
					return false
				}
				x = y.X
				continue
			case *ast.Ident:
				return in.info.Uses[y] == obj
			}
			return false
		}
	}
	ast.Inspect(fd.Body, func(n ast.Node) bool {
		switch v := n.(type) {
		case *ast.CallExpr:
			// a pointer-receiver method called on (a part of) the value takes its address
			if sel, ok := ast.Unparen(v.Fun).(*ast.SelectorExpr); ok && byValue {
				if s, ok := in.info.Selections[sel]; ok && s.Kind() == types.MethodVal {
					if sig, ok := s.Obj().Type().(*types.Signature); ok && sig.Recv() != nil {
						if _, ptr := sig.Recv().Type().(*types.Pointer); ptr && partOf(sel.X) {
							if _, isPtr := in.info.TypeOf(sel.X).(*types.Pointer); !isPtr {
								hit = true
							}
						}
					}
				}
			}
		}
		switch v := n.(type) {
		case *ast.AssignStmt:
			for _, l := range v.Lhs {
				if id, ok := ast.Unparen(l).(*ast.Ident); ok && in.info.Uses[id] == obj {
					hit = true
				}
				if partOf(l) {
					hit = true
				}
			}
		case *ast.IncDecStmt:
			if id, ok := ast.Unparen(v.X).(*ast.Ident); ok && in.info.Uses[id] == obj {
				hit = true
			}
			if partOf(v.X) {
				hit = true
			}
		case *ast.UnaryExpr:
			if id, ok := ast.Unparen(v.X).(*ast.Ident); ok && v.Op == token.AND && in.info.Uses[id] == obj {
				hit = true
			}
			if v.Op == token.AND && partOf(v.X) {
				hit = true
			}
		case *ast.RangeStmt:
			for _, k := range []ast.Expr{v.Key, v.Value} {
				if id, ok := k.(*ast.Ident); ok && in.info.Uses[id] == obj {
					hit = true
				}
			}
		}
		return !hit
	})
	return hit
}

// asserted: the parameter is the operand of a type assertion or type switch,
// or is compared with another value (comparing needs the interface type).
func (in *inliner) asserted(fd *ast.FuncDecl, obj types.Object) bool {
	hit := false
	is := func(x ast.Expr) bool {
		id, ok := ast.Unparen(x).(*ast.Ident)
		return ok && in.info.Uses[id] == obj
	}
	ast.Inspect(fd.Body, func(n ast.Node) bool {
		switch v := n.(type) {
		case *ast.TypeAssertExpr:
			if is(v.X) {
				hit = true
			}
		case *ast.BinaryExpr:
			if (v.Op == token.EQL || v.Op == token.NEQ) && (is(v.X) || is(v.Y)) {
				hit = true
			}
		}
		return !hit
	})
	return hit
}

// indexed: an element of the (slice) parameter is written or has its address
// taken in the helper's body.
func (in *inliner) indexed(fd *ast.FuncDecl, obj types.Object) bool {
	hit := false
	isElem := func(x ast.Expr) bool {
		for {
			switch v := ast.Unparen(x).(type) {
			case *ast.IndexExpr:
				x = v.X
				continue
			case *ast.SliceExpr:
				x = v.X
				continue
			case *ast.Ident:
				return in.info.Uses[v] == obj
			}
			return false
		}
	}
	ast.Inspect(fd.Body, func(n ast.Node) bool {
		switch v := n.(type) {
		case *ast.AssignStmt:
			for _, l := range v.Lhs {
				if _, isId := ast.Unparen(l).(*ast.Ident); !isId && isElem(l) {
					hit = true
				}
			}
		case *ast.IncDecStmt:
			if isElem(v.X) {
				hit = true
			}
		case *ast.UnaryExpr:
			if v.Op == token.AND && isElem(v.X) {
				hit = true
			}
		}
		return !hit
	})
	return hit
}

// bind decides for the receiver and every parameter whether the argument is
// written in place of it (a stable expression, parameter never modified, no
// name captured) or bound to a local of the parameter's name first. It returns
// the substitution frame and the binding statements; nil when the call cannot
// be expanded.
func (in *inliner) bind(fd *ast.FuncDecl, call *ast.CallExpr, r repl, exprOnly bool) (map[types.Object]ast.Expr, []ast.Stmt) {
	fo := in.info.Defs[fd.Name]
	sig := fo.Type().(*types.Signature)
	names := in.bodyNames(fd)
	fr := map[types.Object]ast.Expr{}
	var pre []ast.Stmt
	// a later argument must not mention a name that an earlier binding declares
	declared := map[string]bool{}
	bindOne := func(nm *ast.Ident, typ ast.Expr, arg ast.Expr, argSrc ast.Expr) bool {
		free := map[string]bool{}
		freeNames(argSrc, free)
		for n := range free {
			if declared[n] {
				return false
			}
		}
		if nm == nil || nm.Name == "_" {
			if in.impure(argSrc) {
				pre = append(pre, &ast.AssignStmt{Lhs: []ast.Expr{ast.NewIdent("_")}, Tok: token.ASSIGN, Rhs: []ast.Expr{arg}})
			}
			return true
		}
		obj := in.info.Defs[nm]
		isNilArg := false
		if tv, ok := in.info.Types[argSrc]; ok && tv.IsNil() {
			isNilArg = true // an untyped nil is not written in place of the parameter (`nil(x)`, `nil != nil`)
		}
		forced := false
		if in.forceBind {
			if tv, ok := in.info.Types[argSrc]; !ok || tv.Value == nil {
				forced = true
			}
		}
		if in.stable(argSrc) && !in.assigned(fd, obj) && !isNilArg && !forced {
			for n := range free {
				if names[n] {
					in.renameLocals(fd, n, fr) // the helper's own local of that name gets another name
				}
			}
			// untyped constants keep the parameter's type
			if tv, ok := in.info.Types[argSrc]; ok && tv.Value != nil {
				if _, isBasic := obj.Type().Underlying().(*types.Basic); isBasic {
					arg = &ast.CallExpr{Fun: in.expr(typ, nil), Args: []ast.Expr{arg}}
				}
			}
			fr[obj] = arg
			return true
		}
		if exprOnly {
			return false
		}
		typX := in.expr(typ, nil)
		// an interface parameter that receives a value of a concrete type of this
		// package keeps that type (the parameter is never re-assigned or asserted on):
		// the method calls on it are then calls of the concrete methods
		if _, isIface := obj.Type().Underlying().(*types.Interface); isIface && !isNilArg && !in.assigned(fd, obj) && !in.asserted(fd, obj) {
			if ct := in.info.TypeOf(argSrc); ct != nil {
				elem, ptr := ct, false
				if p, isPtr := ct.(*types.Pointer); isPtr {
					elem, ptr = p.Elem(), true
				}
				if named, isNamed := elem.(*types.Named); isNamed && named.Obj().Pkg() == in.pk.Types && named.TypeArgs().Len() == 0 {
					if _, isI := named.Underlying().(*types.Interface); !isI {
						typX = ast.NewIdent(named.Obj().Name())
						if ptr {
							typX = &ast.StarExpr{X: typX}
						}
					}
				}
			}
		}
		pre = append(pre, &ast.DeclStmt{Decl: &ast.GenDecl{Tok: token.VAR, Specs: []ast.Spec{
			&ast.ValueSpec{Names: []*ast.Ident{ast.NewIdent(nm.Name)}, Type: typX, Values: []ast.Expr{arg}}}}}, blank(nm.Name))
		declared[nm.Name] = true
		return true
	}
	if fd.Recv != nil {
		sel, ok := ast.Unparen(call.Fun).(*ast.SelectorExpr)
		if !ok {
			return nil, nil
		}
		rx := in.expr(sel.X, r)
		if s, ok := in.info.Selections[sel]; ok {
			t := in.info.TypeOf(sel.X)
			idx := s.Index()
			for _, fi := range idx[:len(idx)-1] { // promoted through embedded fields
				st := structOf(t)
				if st == nil {
					return nil, nil
				}
				f := st.Field(fi)
				rx = &ast.SelectorExpr{X: rx, Sel: ast.NewIdent(f.Name())}
				t = f.Type()
			}
			_, wantPtr := sig.Recv().Type().(*types.Pointer)
			_, havePtr := t.(*types.Pointer)
			if wantPtr && !havePtr {
				rx = &ast.UnaryExpr{Op: token.AND, X: rx}
			} else if !wantPtr && havePtr {
				rx = &ast.StarExpr{X: rx}
			}
		}
		var nm *ast.Ident
		if len(fd.Recv.List[0].Names) == 1 {
			nm = fd.Recv.List[0].Names[0]
		}
		if !bindOne(nm, fd.Recv.List[0].Type, rx, sel.X) {
			return nil, nil
		}
	}
	ai := 0
	for fi, f := range fd.Type.Params.List {
		ns := f.Names
		if len(ns) == 0 {
			ns = []*ast.Ident{nil}
		}
		if ell, isEll := f.Type.(*ast.Ellipsis); isEll && fi == len(fd.Type.Params.List)-1 {
			// the variadic parameter: []T{extra arguments}, each extra argument a stable
			// expression or a temporary evaluated once, in order
			sliceT := &ast.ArrayType{Elt: ell.Elt}
			nm := ns[0]
			if call.Ellipsis.IsValid() {
				if ai != len(call.Args)-1 || !bindOne(nm, sliceT, in.expr(call.Args[ai], r), call.Args[ai]) {
					return nil, nil
				}
				return fr, pre
			}
			if exprOnly {
				for _, a := range call.Args[min(ai, len(call.Args)):] {
					if !in.stable(a) {
						return nil, nil
					}
				}
			}
			var elts []ast.Expr
			for ; ai < len(call.Args); ai++ {
				a := call.Args[ai]
				free := map[string]bool{}
				freeNames(a, free)
				for n := range free {
					if declared[n] {
						return nil, nil
					}
				}
				if in.stable(a) {
					for n := range free {
						if names[n] {
							in.renameLocals(fd, n, fr)
						}
					}
					elts = append(elts, in.expr(a, r))
					continue
				}
				tmp := in.fresh("va_h")
				pre = append(pre, &ast.DeclStmt{Decl: &ast.GenDecl{Tok: token.VAR, Specs: []ast.Spec{
					&ast.ValueSpec{Names: []*ast.Ident{ast.NewIdent(tmp)}, Type: in.expr(ell.Elt, nil), Values: []ast.Expr{in.expr(a, r)}}}}}, blank(tmp))
				elts = append(elts, ast.NewIdent(tmp))
			}
			if nm == nil || nm.Name == "_" {
				return fr, pre
			}
			obj := in.info.Defs[nm]
			var lit ast.Expr
			if len(elts) == 0 {
				lit = &ast.CallExpr{Fun: &ast.ParenExpr{X: in.expr(sliceT, nil)}, Args: []ast.Expr{ast.NewIdent("nil")}}
			} else {
				lit = &ast.CompositeLit{Type: in.expr(sliceT, nil), Elts: elts}
			}
			if in.assigned(fd, obj) || in.indexed(fd, obj) {
				if exprOnly {
					return nil, nil
				}
				pre = append(pre, &ast.DeclStmt{Decl: &ast.GenDecl{Tok: token.VAR, Specs: []ast.Spec{
					&ast.ValueSpec{Names: []*ast.Ident{ast.NewIdent(nm.Name)}, Type: in.expr(sliceT, nil), Values: []ast.Expr{lit}}}}}, blank(nm.Name))
				declared[nm.Name] = true
				return fr, pre
			}
			fr[obj] = lit
			if in.packs == nil {
				in.packs = map[ast.Expr][]ast.Expr{}
			}
			in.packs[lit] = elts
			return fr, pre
		}
		for _, nm := range ns {
			if ai >= len(call.Args) {
				return nil, nil
			}
			if !bindOne(nm, f.Type, in.expr(call.Args[ai], r), call.Args[ai]) {
				return nil, nil
			}
			ai++
		}
	}
	return fr, pre
}

func structOf(t types.Type) *types.Struct {
	if p, ok := t.(*types.Pointer); ok {
		t = p.Elem()
	}
	st, _ := t.Underlying().(*types.Struct)
	return st
}

func blank(name string) ast.Stmt {
	return &ast.AssignStmt{Lhs: []ast.Expr{ast.NewIdent("_")}, Tok: token.ASSIGN, Rhs: []ast.Expr{ast.NewIdent(name)}}
}

// expandAssign expands `lhs... (:=|=) h(args)`. The left-hand sides receive the
// helper's results directly; variables the statement declares are declared
// first (in the enclosing scope), the body goes into its own block.
func (in *inliner) expandAssign(lhs []ast.Expr, define bool, call *ast.CallExpr, fd *ast.FuncDecl) []ast.Stmt {
	var resTypes []ast.Expr
	if fd.Type.Results != nil {
		for _, f := range fd.Type.Results.List {
			cnt := len(f.Names)
			if cnt == 0 {
				cnt = 1
			}
			for i := 0; i < cnt; i++ {
				resTypes = append(resTypes, f.Type)
			}
		}
	}
	if len(lhs) != len(resTypes) {
		return nil
	}
	names := in.bodyNames(fd)
	var decls []ast.Stmt
	var targets []ast.Expr
	var clash []string
	allFresh := true
	for i, l := range lhs {
		switch v := ast.Unparen(l).(type) {
		case *ast.Ident:
			if v.Name == "_" {
				targets = append(targets, ast.NewIdent("_"))
				continue
			}
			// (inside an expansion the variable may have been given another name)
			mapped := in.expr(v, nil)
			mid, isId := mapped.(*ast.Ident)
			if !isId {
				if !in.stable(v) {
					return nil
				}
				free := map[string]bool{}
				freeNames(mapped, free)
				for n := range free {
					if names[n] {
						clash = append(clash, n)
					}
				}
				allFresh = false
				targets = append(targets, mapped)
				continue
			}
			if names[mid.Name] {
				clash = append(clash, mid.Name) // the helper declares a local of that name: it is renamed
			}
			if define && in.info.Defs[v] != nil {
				decls = append(decls, varDecl(mid.Name, in.expr(resTypes[i], nil)))
			} else {
				allFresh = false
			}
			targets = append(targets, ast.NewIdent(mid.Name))
		default:
			if !in.stable(l) {
				return nil
			}
			free := map[string]bool{}
			freeNames(l, free)
			for n := range free {
				if names[n] {
					clash = append(clash, n)
				}
			}
			allFresh = false
			targets = append(targets, in.expr(l, nil))
		}
	}
	in.clash = clash
	body := in.inlineBodyR(fd, call, targets, false, allFresh, nil)
	in.clash = nil
	if body == nil {
		return nil
	}
	return append(decls, &ast.BlockStmt{List: body})
}

func (in *inliner) inlineBody(fd *ast.FuncDecl, call *ast.CallExpr, targets []ast.Expr, tail bool) []ast.Stmt {
	return in.inlineBodyR(fd, call, targets, tail, false, nil)
}

// inlineBodyR builds the statements that stand for the call: parameter
// bindings and the helper's body with its returns turned into assignments to
// targets (tail: returns are kept, the call was the operand of a return).
// fresh tells that every target was declared by this statement, so a named
// result may be the target itself.
func (in *inliner) inlineBodyR(fd *ast.FuncDecl, call *ast.CallExpr, targets []ast.Expr, tail, fresh bool, r repl) []ast.Stmt {
	// the names to keep clear of belong to this call: binding the arguments may
	// expand other helpers (a closure argument that calls one), which must not
	// consume them
	clash := in.clash
	in.clash = nil
	fr, pre := in.bind(fd, call, r, false)
	if fr == nil {
		return nil
	}
	for _, n := range clash {
		in.renameLocals(fd, n, fr)
	}
	// named results
	var named []*ast.Ident
	var resTypes []ast.Expr
	if fd.Type.Results != nil {
		for _, f := range fd.Type.Results.List {
			for _, nm := range f.Names {
				named = append(named, nm)
				resTypes = append(resTypes, f.Type)
			}
		}
	}
	var namedTargets []ast.Expr // what a bare return yields
	for i, nm := range named {
		obj := in.info.Defs[nm]
		if nm.Name == "_" {
			namedTargets = append(namedTargets, nil)
			continue
		}
		if fresh && !tail && i < len(targets) {
			if id, ok := targets[i].(*ast.Ident); ok && id.Name != "_" {
				fr[obj] = ast.NewIdent(id.Name) // the named result is the target
				namedTargets = append(namedTargets, ast.NewIdent(id.Name))
				continue
			}
		}
		// a named result whose name is also the name of something the call's targets
		// mention gets a name of its own: declared under its own name it would shadow
		// the target (`at, ok = w.next()` with results named at, ok)
		local := nm.Name
		for _, t := range targets {
			free := map[string]bool{}
			if t != nil {
				freeNames(t, free)
			}
			if free[nm.Name] {
				local = in.fresh(nm.Name + "_h")
				fr[obj] = ast.NewIdent(local)
				break
			}
		}
		pre = append(pre, varDecl(local, in.expr(resTypes[i], nil)), blank(local))
		namedTargets = append(namedTargets, ast.NewIdent(local))
	}
	in.calls++
	in.expanded[in.info.Defs[fd.Name]]++
	in.markDone(call)
	in.busy[fd] = true
	in.frames = append(in.frames, fr)
	body := in.list(fd.Body.List)
	in.frames = in.frames[:len(in.frames)-1]
	delete(in.busy, fd)
	nres := 0
	if fd.Type.Results != nil {
		nres = fd.Type.Results.NumFields()
	}
	leaf := func(ret *ast.ReturnStmt) []ast.Stmt {
		res := ret.Results
		if len(res) == 0 && len(named) > 0 {
			for _, nt := range namedTargets {
				if nt == nil {
					return nil
				}
				res = append(res, in.expr(nt, nil))
			}
		}
		if tail {
			return []ast.Stmt{&ast.ReturnStmt{Results: res}}
		}
		if len(res) == 0 {
			return nil
		}
		if len(targets) == 0 {
			// the caller discards the results; what the return statement evaluates is kept
			var out []ast.Stmt
			for _, x := range res {
				if !in.impure(x) {
					continue
				}
				if _, isCall := ast.Unparen(x).(*ast.CallExpr); isCall && len(res) == 1 && nres > 1 {
					out = append(out, &ast.ExprStmt{X: x}) // return f() handing on several values
				} else {
					out = append(out, &ast.AssignStmt{Lhs: []ast.Expr{ast.NewIdent("_")}, Tok: token.ASSIGN, Rhs: []ast.Expr{x}})
				}
			}
			return out
		}
		if len(res) == len(targets) {
			// drop `x = x`
			var l, rr []ast.Expr
			for i := range res {
				a, okA := targets[i].(*ast.Ident)
				b, okB := ast.Unparen(res[i]).(*ast.Ident)
				if okA && okB && a.Name == b.Name {
					continue
				}
				l = append(l, in.expr(targets[i], nil))
				rr = append(rr, res[i])
			}
			if len(l) == 0 {
				return nil
			}
			return []ast.Stmt{&ast.AssignStmt{Lhs: l, Tok: token.ASSIGN, Rhs: rr}}
		}
		var l []ast.Expr
		for _, t := range targets {
			l = append(l, in.expr(t, nil))
		}
		return []ast.Stmt{&ast.AssignStmt{Lhs: l, Tok: token.ASSIGN, Rhs: res}}
	}
	if out, ok := tailify(body, leaf); ok {
		in.lastPre = len(pre)
		return append(pre, out...)
	}
	if tail {
		// every path of the helper returns and its returns are the caller's: the
		// body stands as a block (no one-trip loop is needed, and the block keeps
		// the enclosing function's last statement a terminating one)
		in.lastPre = len(pre)
		return append(pre, &ast.BlockStmt{List: in.breakify(body, leaf, "")})
	}
	// returns inside loops or in the middle of branches: a labelled one-trip loop
	label := in.fresh("L")
	lb := in.breakify(body, leaf, label)
	lb = append(lb, &ast.BranchStmt{Tok: token.BREAK, Label: ast.NewIdent(label)})
	if tail {
		// every path of the helper returns; the loop never falls through
		lb = lb[:len(lb)-1]
		in.lastPre = len(pre)
		return append(pre, &ast.LabeledStmt{Label: ast.NewIdent(label), Stmt: &ast.ForStmt{Body: &ast.BlockStmt{List: append(lb, &ast.BranchStmt{Tok: token.BREAK, Label: ast.NewIdent(label)})}}})
	}
	in.lastPre = len(pre)
	return append(pre, &ast.LabeledStmt{Label: ast.NewIdent(label), Stmt: &ast.ForStmt{Body: &ast.BlockStmt{List: lb}}})
}

// ---------------------------------------------------------------------------
// returns

func hasReturn(n ast.Node) bool {
	found := false
	ast.Inspect(n, func(m ast.Node) bool {
		switch m.(type) {
		case *ast.FuncLit:
			return false
		case *ast.ReturnStmt:
			found = true
		}
		return !found
	})
	return found
}

func listHasReturn(l []ast.Stmt) bool {
	for _, s := range l {
		if hasReturn(s) {
			return true
		}
	}
	return false
}

// terminates: the list certainly ends in a return (or a call that does not
// return is not assumed: only syntactic returns count).
func terminates(l []ast.Stmt) bool {
	if len(l) == 0 {
		return false
	}
	switch v := l[len(l)-1].(type) {
	case *ast.ReturnStmt:
		return true
	case *ast.BlockStmt:
		return terminates(v.List)
	case *ast.IfStmt:
		if v.Else == nil || !terminates(v.Body.List) {
			return false
		}
		switch e := v.Else.(type) {
		case *ast.BlockStmt:
			return terminates(e.List)
		case *ast.IfStmt:
			return terminates([]ast.Stmt{e})
		}
	case *ast.SwitchStmt:
		hasDefault := false
		for _, c := range v.Body.List {
			cc := c.(*ast.CaseClause)
			if cc.List == nil {
				hasDefault = true
			}
			if !terminates(cc.Body) {
				return false
			}
		}
		return hasDefault
	}
	return false
}

// tailify rewrites a body whose returns are all at the ends of branches into
// return-free code: `if c { ...; return x }; rest` becomes
// `if c { ...; <leaf x> } else { rest }`. ok is false when a return sits inside
// a loop, a select or a branch that may also fall through.
func tailify(l []ast.Stmt, leaf func(*ast.ReturnStmt) []ast.Stmt) ([]ast.Stmt, bool) {
	var out []ast.Stmt
	for i, s := range l {
		if !hasReturn(s) {
			out = append(out, s)
			continue
		}
		rest := l[i+1:]
		switch v := s.(type) {
		case *ast.ReturnStmt:
			return append(out, leaf(v)...), true
		case *ast.BlockStmt:
			inner, ok := tailify(append(append([]ast.Stmt{}, v.List...), rest...), leaf)
			if !ok {
				return nil, false
			}
			return append(out, &ast.BlockStmt{List: inner}), true
		case *ast.IfStmt:
			n, ok := tailifyIf(v, rest, leaf)
			if !ok {
				return nil, false
			}
			return append(out, n), true
		case *ast.SwitchStmt:
			// every clause that returns must end in a return; the others continue with rest
			hasDefault := false
			var clauses []ast.Stmt
			dup := 0
			for _, c := range v.Body.List {
				cc := c.(*ast.CaseClause)
				if cc.List == nil {
					hasDefault = true
				}
				body := cc.Body
				if listHasReturn(body) && !terminates(body) {
					return nil, false
				}
				if !terminates(body) {
					body = append(append([]ast.Stmt{}, body...), rest...)
					dup++
				}
				nb, ok := tailify(body, leaf)
				if !ok {
					return nil, false
				}
				clauses = append(clauses, &ast.CaseClause{List: cc.List, Body: nb})
			}
			if !hasDefault {
				nb, ok := tailify(rest, leaf)
				if !ok {
					return nil, false
				}
				clauses = append(clauses, &ast.CaseClause{Body: nb})
				dup++
			}
			if dup > 1 && len(rest) > 3 {
				return nil, false // would duplicate too much code
			}
			return append(out, &ast.SwitchStmt{Init: v.Init, Tag: v.Tag, Body: &ast.BlockStmt{List: clauses}}), true
		default:
			return nil, false
		}
	}
	return out, true
}

func tailifyIf(v *ast.IfStmt, rest []ast.Stmt, leaf func(*ast.ReturnStmt) []ast.Stmt) (ast.Stmt, bool) {
	thenL := v.Body.List
	var elseL []ast.Stmt
	switch e := v.Else.(type) {
	case *ast.BlockStmt:
		elseL = e.List
	case *ast.IfStmt:
		elseL = []ast.Stmt{e}
	}
	tT, tE := terminates(thenL), v.Else != nil && terminates(elseL)
	if listHasReturn(thenL) && !tT || listHasReturn(elseL) && !tE {
		return nil, false
	}
	if !tT {
		thenL = append(append([]ast.Stmt{}, thenL...), rest...)
	}
	if !tE {
		elseL = append(append([]ast.Stmt{}, elseL...), rest...)
	}
	if !tT && !tE && len(rest) > 0 {
		return nil, false // rest would be duplicated
	}
	nt, ok := tailify(thenL, leaf)
	if !ok {
		return nil, false
	}
	ne, ok := tailify(elseL, leaf)
	if !ok {
		return nil, false
	}
	n := &ast.IfStmt{Init: v.Init, Cond: v.Cond, Body: &ast.BlockStmt{List: nt}}
	if len(ne) == 1 {
		if ei, isIf := ne[0].(*ast.IfStmt); isIf {
			n.Else = ei
			return n, true
		}
	}
	if len(ne) > 0 {
		n.Else = &ast.BlockStmt{List: ne}
	}
	return n, true
}

// breakify is the fallback: every return becomes its leaf followed by a break
// out of the wrapper loop.
func (in *inliner) breakify(l []ast.Stmt, leaf func(*ast.ReturnStmt) []ast.Stmt, label string) []ast.Stmt {
	var out []ast.Stmt
	for _, s := range l {
		out = append(out, in.breakStmt(s, leaf, label))
	}
	return out
}

func (in *inliner) breakStmt(s ast.Stmt, leaf func(*ast.ReturnStmt) []ast.Stmt, label string) ast.Stmt {
	bl := func(l []ast.Stmt) []ast.Stmt { return in.breakify(l, leaf, label) }
	switch v := s.(type) {
	case *ast.ReturnStmt:
		if label == "" {
			// the call was the operand of a return: the helper's returns are the caller's
			if l := leaf(v); len(l) == 1 {
				return l[0]
			}
			return &ast.BlockStmt{List: leaf(v)}
		}
		return &ast.BlockStmt{List: append(leaf(v), &ast.BranchStmt{Tok: token.BREAK, Label: ast.NewIdent(label)})}
	case *ast.BlockStmt:
		v.List = bl(v.List)
	case *ast.IfStmt:
		v.Body.List = bl(v.Body.List)
		if v.Else != nil {
			v.Else = in.breakStmt(v.Else, leaf, label)
		}
	case *ast.ForStmt:
		v.Body.List = bl(v.Body.List)
	case *ast.RangeStmt:
		v.Body.List = bl(v.Body.List)
	case *ast.SwitchStmt:
		v.Body.List = bl(v.Body.List)
	case *ast.TypeSwitchStmt:
		v.Body.List = bl(v.Body.List)
	case *ast.SelectStmt:
		v.Body.List = bl(v.Body.List)
	case *ast.CaseClause:
		v.Body = bl(v.Body)
	case *ast.CommClause:
		v.Body = bl(v.Body)
	case *ast.LabeledStmt:
		v.Stmt = in.breakStmt(v.Stmt, leaf, label)
	}
	return s
}
