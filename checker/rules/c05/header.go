// R1 (no read-ahead) and R4 (framing) of the reply-header parser waitRdbDump.
package c05

import (
	"fmt"
	"go/ast"
	"go/constant"
	"go/token"
	"go/types"

	"rscheck/cfgq"
	"rscheck/core"
	"rscheck/lin"
	"rscheck/pat"
	"rscheck/rules/c10/flow"
)

// ---------------------------------------------------------------------------
// R1 + R4: waitRdbDump

func (r *rs) header() {
	c := r.c
	fn := r.fn(pkgU, "", "waitRdbDump")
	if fn == nil {
		return
	}
	info := fn.Pkg.TypesInfo
	_, rd := param(fn, 0)
	var lit *ast.FuncLit
	for _, fl := range core.FuncLits(fn.Decl.Body) {
		if core.Mentions(info, fl, rd) {
			if lit != nil {
				c.Undecidedf("R1.header", "waitRdbDump/reader-uses", fl.Pos(), "the stream is used by more than one function literal")
				return
			}
			lit = fl
		}
	}
	if lit == nil || rd == nil {
		c.Undecidedf("R1.header", "waitRdbDump/reader-uses", fn.Decl.Pos(), "cannot find the goroutine that reads the reply header")
		return
	}
	g := cfgq.OfLit(c.Program, info, lit)
	// every use of the stream is a 1-byte Read
	var reads []*ast.CallExpr
	handled := map[*ast.Ident]bool{}
	core.InspectAll(fn.Decl.Body, func(m ast.Node) bool {
		call, ok := m.(*ast.CallExpr)
		if !ok {
			return true
		}
		if flow.MethodOn(call, "Read", flow.IsObj(info, rd)) && len(call.Args) == 1 {
			reads = append(reads, call)
			handled[ast.Unparen(call.Fun).(*ast.SelectorExpr).X.(*ast.Ident)] = true
			return true
		}
		for _, a := range call.Args {
			if id, ok := ast.Unparen(a).(*ast.Ident); ok && flow.IsObj(info, rd)(id) {
				handled[id] = true
				if f := core.CalleeFunc(info, call); f != nil && f.Pkg() != nil && f.Pkg().Path() == "bufio" {
					c.Failf("R1.header", "waitRdbDump/no-buffered-reader", call.Pos(), "%s wraps the stream in a buffered reader inside the header parser: it reads ahead past '$n\\r\\n' and is then dropped, so the first RDB bytes never reach the RDB consumer", c.Src(call))
				} else {
					c.Undecidedf("R1.header", "waitRdbDump/reader-uses", call.Pos(), "the stream is passed to %s", c.Src(call.Fun))
				}
			}
		}
		return true
	})
	core.InspectAll(fn.Decl.Body, func(m ast.Node) bool {
		if id, ok := m.(*ast.Ident); ok && info.Uses[id] == rd && !handled[id] {
			c.Undecidedf("R1.header", "waitRdbDump/reader-uses", id.Pos(), "unrecognised use of the stream")
		}
		return true
	})
	var buf types.Object
	for _, call := range reads {
		buf = flow.Obj(info, call.Args[0])
		if buf == nil {
			c.Undecidedf("R1.header", "waitRdbDump/one-byte-read", call.Pos(), "Read into %s, not a plain buffer variable", c.Src(call.Args[0]))
			continue
		}
		defs, other := defsOf(info, fn.Decl.Body, buf)
		if len(defs) == 0 || other > 0 {
			c.Undecidedf("R1.header", "waitRdbDump/one-byte-read", call.Pos(), "definition of the read buffer not recognised")
			continue
		}
		for _, d := range defs {
			switch n := bufLen(info, d); {
			case n == 1:
				c.Okf("R1.header", "waitRdbDump/one-byte-read", call.Pos(), "the header is read through a buffer of constant length 1")
			case n > 1:
				c.Failf("R1.header", "waitRdbDump/one-byte-read", call.Pos(), "the header is read through a %d-byte buffer: one Read can return bytes beyond '$n\\r\\n' (the start of the RDB); they are discarded with the header and the RDB consumer no longer sees exactly the n announced bytes", n)
			default:
				c.Undecidedf("R1.header", "waitRdbDump/one-byte-read", call.Pos(), "length of the read buffer %s is not a constant", c.Src(d))
			}
		}
	}
	if len(reads) != 1 || buf == nil {
		c.Undecidedf("instances", "R1.header", fn.Decl.Pos(), "expected exactly one Read site on the stream, found %d", len(reads))
		return
	}
	readPt, ok := flow.PointOf(g, reads[0])
	if !ok {
		c.Undecidedf("R1.header", "waitRdbDump/graph", reads[0].Pos(), "the Read is not in the goroutine's control-flow graph")
		return
	}
	isRead := flow.CallOn(g, func(call *ast.CallExpr) bool { return call == reads[0] })

	// ---- R4 framing
	app, ab := pat.Stmt("_rsp += string(_b)").Find(info, lit.Body, nil)
	if app == nil || flow.Obj(info, ab["_b"]) != buf {
		c.Undecidedf("R4.frame", "waitRdbDump/accumulate", lit.Pos(), "cannot find `rsp += string(b)` over the read buffer")
		return
	}
	rsp := flow.Obj(info, ab["_rsp"])
	isRsp := flow.IsObj(info, rsp)
	var ticks, sizes []cfgq.Point
	var chanObj types.Object
	for _, p := range g.Points(func(m ast.Node) bool { _, ok := m.(*ast.SendStmt); return ok }) {
		s := p.Node().(*ast.SendStmt)
		if chanObj == nil {
			chanObj = flow.Obj(info, s.Chan)
		}
		if isConst(info, s.Value, 0) {
			ticks = append(ticks, p)
		} else {
			sizes = append(sizes, p)
		}
	}
	if len(ticks) != 1 || len(sizes) != 1 || chanObj == nil {
		c.Undecidedf("R4.frame", "waitRdbDump/sends", lit.Pos(), "expected one keep-alive send of 0 and one size send, found %d and %d", len(ticks), len(sizes))
		return
	}
	tick, size := ticks[0], sizes[0]
	hdr := flow.NewBuffer(info, lit.Body, rsp, nil)                              // the accumulated header
	one := flow.NewBuffer(info, lit.Body, buf, mustConstExpr(info, lit.Body, 1)) // the 1-byte read buffer
	zero := lin.Form{Coef: map[string]int64{}}
	r.guard("R4.frame", "waitRdbDump/tick-before-header-only", tick.Node().Pos(), g, tick, hdr.LenIs(0), flow.Opaque(g, hdr.Understood, rsp),
		"a 0 tick may be sent only while no header byte was stored (len(rsp) == 0): otherwise the LF that ends '$n\\r\\n' is swallowed as a keep-alive and the header never completes")
	r.guard("R4.frame", "waitRdbDump/tick-for-newline-only", tick.Node().Pos(), g, tick, one.Establishes(zero, '\n'), flow.Opaque(g, one.Understood, buf),
		"a 0 tick may be sent only for a '\\n' byte: any other byte dropped here is a header byte ('$' or a digit) that is lost")
	w3 := g.Path(cfgq.Query{From: tick, After: true, Avoid: isRead, Target: isNode(app)})
	c.Check("R4.frame", "waitRdbDump/tick-not-stored", tick.Node().Pos(), w3 == nil, "after a keep-alive '\\n' the next byte must be read before anything is appended: a stored '\\n' makes the header start with a byte other than '$'", w3...)
	w4 := g.Path(cfgq.Query{From: readPt, After: true, Avoid: cfgq.Or(isNode(app), isNode(tick.Node()), isRead), Target: isNode(size.Node())})
	c.Check("R4.frame", "waitRdbDump/every-byte-stored", reads[0].Pos(), w4 == nil, "every byte read that is not a keep-alive must be appended to the header before the size is announced", w4...)
	// header complete only at CR LF
	r.guard("R4.frame", "waitRdbDump/complete-at-crlf", size.Node().Pos(), g, size, hdr.Establishes(flow.Shift(hdr.Length, -1), '\n'), flow.Opaque(g, hdr.Understood, rsp),
		"the size may be announced only once the header ends in (CR) LF (the first LF of a well-formed header is its last byte): stopping earlier leaves header bytes in the stream in front of the RDB, stopping later eats RDB bytes")
	// the number
	// the number: Atoi/ParseInt over a window of the header
	var atoi *ast.AssignStmt
	var win *ast.SliceExpr
	core.Inspect(lit.Body, func(m ast.Node) bool {
		as, ok := m.(*ast.AssignStmt)
		if !ok || len(as.Rhs) != 1 || len(as.Lhs) != 2 || atoi != nil {
			return true
		}
		call, ok := ast.Unparen(as.Rhs[0]).(*ast.CallExpr)
		if f := core.CalleeFunc(info, call); !ok || f == nil || len(call.Args) == 0 || !(core.IsFunc(f, "strconv", "", "Atoi") || core.IsFunc(f, "strconv", "", "ParseInt")) {
			return true
		}
		if se, isSlice := ast.Unparen(flow.ValueOf(info, lit.Body, ast.Unparen(call.Args[0]))).(*ast.SliceExpr); isSlice && isRsp(se.X) && se.Max == nil {
			atoi, win = as, se
		}
		return true
	})
	if atoi == nil {
		c.Undecidedf("R4.frame", "waitRdbDump/digits", lit.Pos(), "cannot find `n, err := strconv.Atoi(rsp[lo:hi])`")
		return
	}
	loF, hiF := zero, hdr.Length
	if win.Low != nil {
		loF = lin.Of(info, win.Low)
	}
	if win.High != nil {
		hiF = lin.Of(info, win.High)
	}
	back := lin.Form{Coef: map[string]int64{}, Const: hiF.Const - hdr.Length.Const}
	for a, v := range hiF.Coef {
		back.Coef[a] += v
	}
	for a, v := range hdr.Length.Coef {
		back.Coef[a] -= v
		if back.Coef[a] == 0 {
			delete(back.Coef, a)
		}
	}
	if len(loF.Coef) != 0 || len(back.Coef) != 0 {
		c.Undecidedf("R4.frame", "waitRdbDump/digits", atoi.Pos(), "window %s is not rsp[const : len(rsp)-const]", c.Src(win))
	} else {
		c.Check("R4.frame", "waitRdbDump/digits", atoi.Pos(), loF.Const == 1 && back.Const == -2, fmt.Sprintf("the size is the text between the 1-byte marker and the 2-byte CR LF (found rsp[%d : len%+d]): any other window makes Atoi fail or drop a digit for every well-formed header", loF.Const, back.Const))
	}
	nb := pat.Binds{"_n": atoi.Lhs[0]}
	nobj := flow.Obj(info, nb["_n"])
	sv := size.Node().(*ast.SendStmt)
	sent := unconv(info, flow.Resolve(info, lit.Body, unconv(info, sv.Value)))
	if be, isBin := sent.(*ast.BinaryExpr); flow.IsObj(info, nobj)(sent) && flow.Assignments(info, lit.Body, nobj) == 1 {
		c.Okf("R4.frame", "waitRdbDump/size-sent-unchanged", sv.Pos(), "the value announced on the channel is exactly the parsed n")
	} else if isBin && (be.Op == token.ADD || be.Op == token.SUB) && flow.IsObj(info, nobj)(unconv(info, be.X)) && !isConst(info, be.Y, 0) {
		c.Failf("R4.frame", "waitRdbDump/size-sent-unchanged", sv.Pos(), "the value announced is %s, not the parsed n: the RDB copy counts down from it and hands over to the command phase too early or too late", c.Src(sv.Value))
	} else {
		c.Undecidedf("R4.frame", "waitRdbDump/size-sent-unchanged", sv.Pos(), "announced value %s not recognised", c.Src(sv.Value))
	}
	okd, _ := g.Dominated(size, isNode(ast.Node(atoi)))
	c.Check("R4.frame", "waitRdbDump/size-after-parse", sv.Pos(), okd, "the size is announced only after it was parsed")
	// no read after the announcement (R1)
	w6 := g.Path(cfgq.Query{From: size, After: true, Target: isRead})
	c.Check("R1.header", "waitRdbDump/no-read-after-size", sv.Pos(), w6 == nil, "after the size was announced the header goroutine must not read from the stream again: every further byte belongs to the RDB consumer", w6...)
	// the channel returned is the one written
	retOK := false
	core.Inspect(fn.Decl.Body, func(m ast.Node) bool {
		if ret, ok := m.(*ast.ReturnStmt); ok && len(ret.Results) == 1 && flow.IsObj(info, chanObj)(ret.Results[0]) {
			retOK = true
		}
		return true
	})
	c.Check("R4.frame", "waitRdbDump/returns-channel", fn.Decl.Pos(), retOK, "waitRdbDump returns the channel the goroutine announces the size on")
	// guards for replies outside the premise: recorded, never a violation
	for _, gd := range []struct {
		key   string
		match func(cfgq.Fact) bool
	}{
		{"guard-marker", hdr.Establishes(zero, '$')},
		{"guard-positive", func(f cfgq.Fact) bool { return nonZero(info, f, flow.IsObj(info, nobj)) }},
	} {
		if ok, _ := flow.OnlyVia(g, size, gd.match); ok {
			c.Okf("R4.frame", "waitRdbDump/"+gd.key, sv.Pos(), "reply guard present")
		} else {
			c.Undecidedf("R4.frame", "waitRdbDump/"+gd.key, sv.Pos(), "reply guard not recognised (outside the property's premise, not a violation)")
		}
	}
}

// mustConstExpr finds (or makes) an expression with the constant integer value k, for lin.
func mustConstExpr(info *types.Info, body ast.Node, k int64) ast.Expr {
	lit := &ast.BasicLit{Kind: token.INT, Value: fmt.Sprint(k)}
	info.Types[lit] = types.TypeAndValue{Type: types.Typ[types.UntypedInt], Value: constant.MakeInt64(k)}
	return lit
}
