// R1 (no read-ahead) and R4 (framing) of the reply-header parser waitRdbDump.
package c05

import (
	"fmt"
	"go/ast"
	"go/constant"
	"go/token"
	"go/types"

	"rscheck/cfgq"
	"rscheck/core"
	"rscheck/lin"
	"rscheck/pat"
	"rscheck/rules/c10/flow"
)

// ---------------------------------------------------------------------------
// R1 + R4: waitRdbDump

func (r *rs) header() {
	c := r.c
	fn := r.fn(pkgU, "", "waitRdbDump")
	if fn == nil {
		return
	}
	info := fn.Pkg.TypesInfo
	_, rd := param(fn, 0)
	// The stream may reach the header parser under another name. A name that denotes the SAME reader (a
	// copy, a conversion, a type assertion `br, ok := r.(*bufio.Reader)`) is the stream. A buffered reader
	// created over it here (bufio.NewReader(r)) is a different reader: it takes more than it is asked for
	// from the stream and keeps it in a buffer that nobody reads once the header is parsed - the callers go
	// on with the reader they handed in (this function returns only the size channel).
	streams := map[types.Object]bool{}
	wraps := map[types.Object][]*ast.CallExpr{}
	foreign := map[types.Object]bool{} // also assigned something that is not derived from the stream
	handled := map[*ast.Ident]bool{}
	if rd != nil {
		streams[rd] = true
	}
	derive := func(e ast.Expr) (kind string, wrap *ast.CallExpr) {
		e = ast.Unparen(e)
		if ta, ok := e.(*ast.TypeAssertExpr); ok && ta.Type != nil {
			e = ast.Unparen(ta.X)
		}
		e = unconv(info, e)
		if o := flow.Obj(info, e); o != nil && streams[o] {
			return "same", nil
		}
		if call, ok := e.(*ast.CallExpr); ok && len(call.Args) >= 1 {
			if f := core.CalleeFunc(info, call); f != nil && f.Pkg() != nil && f.Pkg().Path() == "bufio" {
				if o := flow.Obj(info, unconv(info, call.Args[0])); o != nil && streams[o] {
					return "wrap", call
				}
			}
		}
		return "", nil
	}
	for round := 0; round < 3; round++ {
		core.InspectAll(fn.Decl.Body, func(m ast.Node) bool {
			var lhs []*ast.Ident
			var rhs []ast.Expr
			switch x := m.(type) {
			case *ast.AssignStmt:
				if x.Tok != token.ASSIGN && x.Tok != token.DEFINE {
					return true
				}
				for i, l := range x.Lhs {
					id, _ := ast.Unparen(l).(*ast.Ident)
					switch {
					case len(x.Lhs) == len(x.Rhs):
						lhs, rhs = append(lhs, id), append(rhs, x.Rhs[i])
					case i == 0 && len(x.Rhs) == 1: // v, ok := r.(T)
						if _, isTA := ast.Unparen(x.Rhs[0]).(*ast.TypeAssertExpr); isTA {
							lhs, rhs = append(lhs, id), append(rhs, x.Rhs[0])
						}
					}
				}
			case *ast.ValueSpec:
				if len(x.Values) == len(x.Names) {
					for i, nm := range x.Names {
						lhs, rhs = append(lhs, nm), append(rhs, x.Values[i])
					}
				}
			}
			for i, id := range lhs {
				if id == nil || id.Name == "_" {
					continue
				}
				o := core.ObjOf(info, id)
				if o == nil || o == rd {
					continue
				}
				switch kind, wrap := derive(rhs[i]); kind {
				case "same", "wrap":
					streams[o] = true
					handled[id] = true
					if wrap != nil {
						seen := false
						for _, w := range wraps[o] {
							seen = seen || w == wrap
						}
						if !seen {
							wraps[o] = append(wraps[o], wrap)
						}
					}
					core.InspectAll(rhs[i], func(n ast.Node) bool {
						if rid, ok := n.(*ast.Ident); ok && streams[info.Uses[rid]] {
							handled[rid] = true
						}
						return true
					})
				default:
					if streams[o] {
						foreign[o] = true
					}
				}
			}
			return true
		})
	}
	var lit *ast.FuncLit
	for _, fl := range core.FuncLits(fn.Decl.Body) {
		uses := false
		for o := range streams {
			uses = uses || core.Mentions(info, fl, o)
		}
		if uses {
			if lit != nil {
				c.Undecidedf("R1.header", "waitRdbDump/reader-uses", fl.Pos(), "the stream is used by more than one function literal")
				return
			}
			lit = fl
		}
	}
	// the name under which the parser reads
	if lit != nil {
		var names []types.Object
		for o := range streams {
			reads := false
			core.InspectAll(lit, func(m ast.Node) bool {
				if call, ok := m.(*ast.CallExpr); ok && flow.MethodOn(call, "Read", flow.IsObj(info, o)) {
					reads = true
				}
				return !reads
			})
			if reads {
				names = append(names, o)
			}
		}
		switch {
		case len(names) == 1:
			rd = names[0]
		case len(names) > 1:
			c.Undecidedf("R1.header", "waitRdbDump/reader-uses", lit.Pos(), "the header parser reads the stream under %d names", len(names))
			return
		}
	}
	if rd != nil && foreign[rd] {
		c.Undecidedf("R1.header", "waitRdbDump/reader-uses", fn.Decl.Pos(), "%s is also assigned something that is not the stream", rd.Name())
		return
	}
	if rd != nil {
		for _, w := range wraps[rd] {
			c.Failf("R1.header", "waitRdbDump/no-buffered-reader", w.Pos(), "the header is parsed through %s, a buffered reader created here over the stream: it takes more than the bytes of '$n\\r\\n' from the stream (whatever arrived with them) and is dropped with the parser, while the callers go on reading the reader they handed in - the first RDB bytes never reach the RDB consumer", c.Src(w))
		}
	}
	// the region that parses the header: the goroutine literal, or the body of a same-package function
	// started with `go f(r, size)` (then the stream and the channel are that function's parameters)
	var body *ast.BlockStmt
	var g *cfgq.Graph
	scan := []ast.Node{fn.Decl.Body}
	var retChan types.Object // when the region is a helper: the caller's channel handed to it
	var chanParam types.Object
	if lit != nil {
		body, g = lit.Body, flow.GraphOfLit(c.Program, info, lit)
	} else if rd != nil {
		core.Inspect(fn.Decl.Body, func(m ast.Node) bool {
			gs, ok := m.(*ast.GoStmt)
			if !ok || body != nil {
				return true
			}
			h := c.Program.FnOf(core.CalleeFunc(info, gs.Call))
			if h == nil || h.Pkg != fn.Pkg || h.Decl.Recv != nil {
				return true
			}
			h = r.inl.Fn(h)
			var newRd types.Object
			for i, a := range gs.Call.Args {
				_, po := param(h, i)
				if ao := flow.Obj(info, a); ao != nil && (ao == rd || streams[ao]) {
					if id, isID := ast.Unparen(a).(*ast.Ident); isID {
						handled[id] = true
					}
					for _, w := range wraps[ao] {
						c.Failf("R1.header", "waitRdbDump/no-buffered-reader", w.Pos(), "the header parser is started on %s, a buffered reader created here over the stream: it reads ahead past '$n\\r\\n' and is dropped with the parser, while the callers go on reading the reader they handed in", c.Src(w))
					}
					newRd = po
				} else if _, isChan := info.TypeOf(a).Underlying().(*types.Chan); isChan && po != nil {
					retChan, chanParam = flow.Obj(info, a), po
				}
			}
			if newRd != nil {
				// the only use of the stream in the caller is this hand-over
				body, g, rd = h.Decl.Body, flow.GraphOf(c.Program, h), newRd
				scan = []ast.Node{h.Decl.Body}
			}
			return true
		})
	}
	if body == nil || rd == nil {
		c.Undecidedf("R1.header", "waitRdbDump/reader-uses", fn.Decl.Pos(), "cannot find the goroutine that reads the reply header")
		return
	}
	// every use of the stream is a 1-byte Read
	var reads []*ast.CallExpr
	core.InspectAll(scan[0], func(m ast.Node) bool {
		call, ok := m.(*ast.CallExpr)
		if !ok {
			return true
		}
		if flow.MethodOn(call, "Read", flow.IsObj(info, rd)) && len(call.Args) == 1 {
			reads = append(reads, call)
			handled[ast.Unparen(call.Fun).(*ast.SelectorExpr).X.(*ast.Ident)] = true
			return true
		}
		for _, a := range call.Args {
			if id, ok := ast.Unparen(a).(*ast.Ident); ok && flow.IsObj(info, rd)(id) {
				handled[id] = true
				if f := core.CalleeFunc(info, call); f != nil && f.Pkg() != nil && f.Pkg().Path() == "bufio" {
					c.Failf("R1.header", "waitRdbDump/no-buffered-reader", call.Pos(), "%s wraps the stream in a buffered reader inside the header parser: it reads ahead past '$n\\r\\n' and is then dropped, so the first RDB bytes never reach the RDB consumer", c.Src(call))
				} else {
					c.Undecidedf("R1.header", "waitRdbDump/reader-uses", call.Pos(), "the stream is passed to %s", c.Src(call.Fun))
				}
			}
		}
		return true
	})
	core.InspectAll(scan[0], func(m ast.Node) bool {
		if id, ok := m.(*ast.Ident); ok && (info.Uses[id] == rd || streams[info.Uses[id]]) && !handled[id] {
			c.Undecidedf("R1.header", "waitRdbDump/reader-uses", id.Pos(), "unrecognised use of the stream")
		}
		return true
	})
	var buf types.Object
	for _, call := range reads {
		// the buffer: a slice variable, or an array sliced in full at the call (`one[:]`)
		arg := ast.Unparen(call.Args[0])
		if se, ok := arg.(*ast.SliceExpr); ok && se.Low == nil && se.High == nil && se.Max == nil {
			arg = ast.Unparen(se.X)
		}
		buf = flow.Obj(info, arg)
		if buf == nil {
			c.Undecidedf("R1.header", "waitRdbDump/one-byte-read", call.Pos(), "Read into %s, not a plain buffer variable", c.Src(call.Args[0]))
			continue
		}
		var lens []int64
		if at, isArr := buf.Type().Underlying().(*types.Array); isArr {
			lens = []int64{at.Len()}
		} else {
			defs, other := defsOf(info, scan[0], buf)
			if len(defs) == 0 || other > 0 {
				c.Undecidedf("R1.header", "waitRdbDump/one-byte-read", call.Pos(), "definition of the read buffer not recognised")
				continue
			}
			for _, d := range defs {
				lens = append(lens, bufLen(info, d))
			}
		}
		for _, n := range lens {
			switch {
			case n == 1:
				c.Okf("R1.header", "waitRdbDump/one-byte-read", call.Pos(), "the header is read through a buffer of constant length 1")
			case n > 1:
				c.Failf("R1.header", "waitRdbDump/one-byte-read", call.Pos(), "the header is read through a %d-byte buffer: one Read can return bytes beyond '$n\\r\\n' (the start of the RDB); they are discarded with the header and the RDB consumer no longer sees exactly the n announced bytes", n)
			default:
				c.Undecidedf("R1.header", "waitRdbDump/one-byte-read", call.Pos(), "length of the read buffer is not a constant")
			}
		}
	}
	if len(reads) != 1 || buf == nil {
		c.Undecidedf("instances", "R1.header", fn.Decl.Pos(), "expected exactly one Read site on the stream, found %d", len(reads))
		return
	}
	readPt, ok := flow.PointOf(g, reads[0])
	if !ok {
		c.Undecidedf("R1.header", "waitRdbDump/graph", reads[0].Pos(), "the Read is not in the goroutine's control-flow graph")
		return
	}
	isRead := flow.CallOn(g, func(call *ast.CallExpr) bool { return call == reads[0] })

	// ---- R4 framing
	// the statement that stores the byte just read: rsp += string(b), rsp = rsp + string(b),
	// rsp = append(rsp, b[0]) or rsp = append(rsp, b...)
	isBuf := func(e ast.Expr) bool { // b, b[:], string(b), b[0]
		e = unconv(info, e)
		switch x := e.(type) {
		case *ast.SliceExpr:
			return x.Low == nil && x.High == nil && flow.IsObj(info, buf)(x.X)
		case *ast.IndexExpr:
			return flow.IsObj(info, buf)(x.X) && isConst(info, x.Index, 0)
		}
		return flow.IsObj(info, buf)(e)
	}
	var app ast.Node
	var rsp types.Object
	core.Inspect(body, func(m ast.Node) bool {
		as, ok := m.(*ast.AssignStmt)
		if !ok || len(as.Lhs) != 1 || len(as.Rhs) != 1 || app != nil {
			return true
		}
		lo := flow.Obj(info, as.Lhs[0])
		if lo == nil {
			return true
		}
		rhs := ast.Unparen(as.Rhs[0])
		switch {
		case as.Tok == token.ADD_ASSIGN && isBuf(rhs):
			app, rsp = as, lo
		case as.Tok == token.ASSIGN:
			if be, ok := rhs.(*ast.BinaryExpr); ok && be.Op == token.ADD && flow.IsObj(info, lo)(be.X) && isBuf(be.Y) {
				app, rsp = as, lo
			}
			if call, ok := rhs.(*ast.CallExpr); ok && flow.IsBuiltin(info, call, "append") && len(call.Args) == 2 && flow.IsObj(info, lo)(call.Args[0]) && isBuf(call.Args[1]) {
				app, rsp = as, lo
			}
		}
		return true
	})
	if app == nil {
		c.Undecidedf("R4.frame", "waitRdbDump/accumulate", body.Pos(), "cannot find the statement that appends the byte read to the header")
		return
	}
	isRsp := flow.IsObj(info, rsp)
	var ticks, sizes []cfgq.Point
	var chanObj types.Object
	for _, p := range g.Points(func(m ast.Node) bool { _, ok := m.(*ast.SendStmt); return ok }) {
		s := p.Node().(*ast.SendStmt)
		if chanObj == nil {
			chanObj = flow.Obj(info, s.Chan)
		}
		if isConst(info, s.Value, 0) {
			ticks = append(ticks, p)
		} else {
			sizes = append(sizes, p)
		}
	}
	if len(ticks) != 1 || len(sizes) != 1 || chanObj == nil {
		c.Undecidedf("R4.frame", "waitRdbDump/sends", lit.Pos(), "expected one keep-alive send of 0 and one size send, found %d and %d", len(ticks), len(sizes))
		return
	}
	tick, size := ticks[0], sizes[0]
	hdr := flow.NewBuffer(info, body, rsp, nil)                          // the accumulated header
	one := flow.NewBuffer(info, body, buf, mustConstExpr(info, body, 1)) // the 1-byte read buffer
	zero := lin.Form{Coef: map[string]int64{}}
	r.guard("R4.frame", "waitRdbDump/tick-before-header-only", tick.Node().Pos(), g, tick, hdr.LenIs(0), flow.Opaque(g, hdr.Understood, rsp),
		"a 0 tick may be sent only while no header byte was stored (len(rsp) == 0): otherwise the LF that ends '$n\\r\\n' is swallowed as a keep-alive and the header never completes")
	r.guard("R4.frame", "waitRdbDump/tick-for-newline-only", tick.Node().Pos(), g, tick, one.Establishes(zero, '\n'), flow.Opaque(g, one.Understood, buf),
		"a 0 tick may be sent only for a '\\n' byte: any other byte dropped here is a header byte ('$' or a digit) that is lost")
	w3 := g.Path(cfgq.Query{From: tick, After: true, Avoid: isRead, Target: isNode(app)})
	c.Check("R4.frame", "waitRdbDump/tick-not-stored", tick.Node().Pos(), w3 == nil, "after a keep-alive '\\n' the next byte must be read before anything is appended: a stored '\\n' makes the header start with a byte other than '$'", w3...)
	w4 := g.Path(cfgq.Query{From: readPt, After: true, Avoid: cfgq.Or(isNode(app), isNode(tick.Node()), isRead), Target: isNode(size.Node())})
	c.Check("R4.frame", "waitRdbDump/every-byte-stored", reads[0].Pos(), w4 == nil, "every byte read that is not a keep-alive must be appended to the header before the size is announced", w4...)
	// header complete only at CR LF
	r.guard("R4.frame", "waitRdbDump/complete-at-crlf", size.Node().Pos(), g, size, hdr.Establishes(flow.Shift(hdr.Length, -1), '\n'), flow.Opaque(g, hdr.Understood, rsp),
		"the size may be announced only once the header ends in (CR) LF (the first LF of a well-formed header is its last byte): stopping earlier leaves header bytes in the stream in front of the RDB, stopping later eats RDB bytes")
	// the number
	// the number: Atoi/ParseInt over a window of the header
	// The text handed to Atoi/ParseInt as a window [lo, hi) of the header, however it is cut out: a slice
	// expression, strings.TrimSuffix/TrimPrefix with the terminator / the marker (the header is known to
	// end in CR LF and to start with the marker where the size is announced: complete-at-crlf, marker),
	// strings.TrimSpace (which removes the trailing CR LF), through conversions and single-use locals.
	var window func(e ast.Expr, depth int) (lo, hi lin.Form, ok bool)
	window = func(e ast.Expr, depth int) (lin.Form, lin.Form, bool) {
		e = unconv(info, e)
		if depth > 4 {
			return lin.Form{}, lin.Form{}, false
		}
		if isRsp(e) { // before looking through locals: the header variable itself has definitions
			return zero, hdr.Length, true
		}
		e = unconv(info, flow.ValueOf(info, body, e))
		if isRsp(e) {
			return zero, hdr.Length, true
		}
		switch x := e.(type) {
		case *ast.SliceExpr:
			lo, hi, ok := window(x.X, depth+1)
			if !ok || x.Max != nil {
				return lo, hi, false
			}
			// indices of a slice of a window count from the window's start
			if x.High != nil {
				hi = lin.Of(info, x.High)
				for a, v := range lo.Coef {
					hi.Coef[a] += v
				}
				hi.Const += lo.Const
			}
			if x.Low != nil {
				l := lin.Of(info, x.Low)
				out := lin.Form{Coef: map[string]int64{}, Const: lo.Const + l.Const}
				for a, v := range lo.Coef {
					out.Coef[a] += v
				}
				for a, v := range l.Coef {
					out.Coef[a] += v
				}
				lo = out
			}
			return lo, hi, true
		case *ast.CallExpr:
			f := core.CalleeFunc(info, x)
			if f == nil || f.Pkg() == nil || f.Pkg().Path() != "strings" || len(x.Args) == 0 {
				return lin.Form{}, lin.Form{}, false
			}
			lo, hi, ok := window(x.Args[0], depth+1)
			if !ok {
				return lo, hi, false
			}
			atEnd := hi.Equal(hdr.Length)
			atStart := len(lo.Coef) == 0 && lo.Const == 0
			switch f.Name() {
			case "TrimSuffix":
				if k, isK := core.StringConst(info, x.Args[1]); isK && atEnd && (k == "\r\n" || k == "\n") {
					return lo, flow.Shift(hi, -int64(len(k))), true
				}
			case "TrimPrefix":
				if k, isK := core.StringConst(info, x.Args[1]); isK && atStart && k == "$" {
					return flow.Shift(lo, 1), hi, true
				}
			case "TrimSpace":
				if atEnd {
					return lo, flow.Shift(hi, -2), true
				}
			case "TrimRight":
				if k, isK := core.StringConst(info, x.Args[1]); isK && atEnd && (k == "\r\n" || k == "\n\r") {
					return lo, flow.Shift(hi, -2), true
				}
			}
		}
		return lin.Form{}, lin.Form{}, false
	}
	var atoi *ast.AssignStmt
	var loF, hiF lin.Form
	var winSrc ast.Expr
	core.Inspect(body, func(m ast.Node) bool {
		as, ok := m.(*ast.AssignStmt)
		if !ok || len(as.Rhs) != 1 || len(as.Lhs) != 2 || atoi != nil {
			return true
		}
		call, ok := ast.Unparen(as.Rhs[0]).(*ast.CallExpr)
		if f := core.CalleeFunc(info, call); !ok || f == nil || len(call.Args) == 0 || !(core.IsFunc(f, "strconv", "", "Atoi") || core.IsFunc(f, "strconv", "", "ParseInt")) {
			return true
		}
		if lo, hi, isWin := window(call.Args[0], 0); isWin {
			atoi, loF, hiF, winSrc = as, lo, hi, call.Args[0]
		}
		return true
	})
	if atoi == nil {
		c.Undecidedf("R4.frame", "waitRdbDump/digits", lit.Pos(), "cannot find `n, err := strconv.Atoi(<a window of the header>)`")
		return
	}
	back := lin.Form{Coef: map[string]int64{}, Const: hiF.Const - hdr.Length.Const}
	for a, v := range hiF.Coef {
		back.Coef[a] += v
	}
	for a, v := range hdr.Length.Coef {
		back.Coef[a] -= v
		if back.Coef[a] == 0 {
			delete(back.Coef, a)
		}
	}
	if len(loF.Coef) != 0 || len(back.Coef) != 0 {
		c.Undecidedf("R4.frame", "waitRdbDump/digits", atoi.Pos(), "window %s is not rsp[const : len(rsp)-const]", c.Src(winSrc))
	} else {
		c.Check("R4.frame", "waitRdbDump/digits", atoi.Pos(), loF.Const == 1 && back.Const == -2, fmt.Sprintf("the size is the text between the 1-byte marker and the 2-byte CR LF (found rsp[%d : len%+d]): any other window makes Atoi fail or drop a digit for every well-formed header", loF.Const, back.Const))
	}
	nb := pat.Binds{"_n": atoi.Lhs[0]}
	nobj := flow.Obj(info, nb["_n"])
	sv := size.Node().(*ast.SendStmt)
	sent := unconv(info, flow.ChaseDef(g, unconv(info, flow.Resolve(info, body, unconv(info, sv.Value))), size))
	if be, isBin := sent.(*ast.BinaryExpr); flow.IsObj(info, nobj)(sent) && flow.Assignments(info, body, nobj) == 1 {
		c.Okf("R4.frame", "waitRdbDump/size-sent-unchanged", sv.Pos(), "the value announced on the channel is exactly the parsed n")
	} else if isBin && (be.Op == token.ADD || be.Op == token.SUB) && flow.IsObj(info, nobj)(unconv(info, be.X)) && !isConst(info, be.Y, 0) {
		c.Failf("R4.frame", "waitRdbDump/size-sent-unchanged", sv.Pos(), "the value announced is %s, not the parsed n: the RDB copy counts down from it and hands over to the command phase too early or too late", c.Src(sv.Value))
	} else {
		c.Undecidedf("R4.frame", "waitRdbDump/size-sent-unchanged", sv.Pos(), "announced value %s not recognised", c.Src(sv.Value))
	}
	okd, _ := g.Dominated(size, isNode(ast.Node(atoi)))
	c.Check("R4.frame", "waitRdbDump/size-after-parse", sv.Pos(), okd, "the size is announced only after it was parsed")
	r.sizeDelivered(g, body, atoi, size)
	// no read after the announcement (R1)
	w6 := g.Path(cfgq.Query{From: size, After: true, Target: isRead})
	c.Check("R1.header", "waitRdbDump/no-read-after-size", sv.Pos(), w6 == nil, "after the size was announced the header goroutine must not read from the stream again: every further byte belongs to the RDB consumer", w6...)
	// the channel returned is the one written
	retOK := false
	core.Inspect(fn.Decl.Body, func(m ast.Node) bool {
		if ret, ok := m.(*ast.ReturnStmt); ok && len(ret.Results) == 1 && (flow.IsObj(info, chanObj)(ret.Results[0]) || chanParam != nil && chanObj == chanParam && flow.IsObj(info, retChan)(ret.Results[0])) {
			retOK = true
		}
		return true
	})
	c.Check("R4.frame", "waitRdbDump/returns-channel", fn.Decl.Pos(), retOK, "waitRdbDump returns the channel the goroutine announces the size on")
	// guards for replies outside the premise: recorded, never a violation
	for _, gd := range []struct {
		key   string
		match func(cfgq.Fact) bool
	}{
		{"guard-marker", hdr.Establishes(zero, '$')},
		{"guard-positive", func(f cfgq.Fact) bool { return nonZero(info, f, flow.IsObj(info, nobj)) }},
	} {
		if ok, _ := flow.OnlyVia(g, size, gd.match); ok {
			c.Okf("R4.frame", "waitRdbDump/"+gd.key, sv.Pos(), "reply guard present")
		} else {
			c.Undecidedf("R4.frame", "waitRdbDump/"+gd.key, sv.Pos(), "reply guard not recognised (outside the property's premise, not a violation)")
		}
	}
}

// mustConstExpr finds (or makes) an expression with the constant integer value k, for lin.
func mustConstExpr(info *types.Info, body ast.Node, k int64) ast.Expr {
	lit := &ast.BasicLit{Kind: token.INT, Value: fmt.Sprint(k)}
	info.Types[lit] = types.TypeAndValue{Type: types.Typ[types.UntypedInt], Value: constant.MakeInt64(k)}
	return lit
}
