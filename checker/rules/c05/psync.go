// R5 (PSYNC reply) and R2 (one buffered reader per connection).
package c05

import (
	"fmt"
	"go/ast"
	"go/token"
	"go/types"
	"sort"
	"strings"

	"rscheck/cfgq"
	"rscheck/core"
	"rscheck/lin"
	"rscheck/pat"
	"rscheck/rules/c10/flow"
)

// ---------------------------------------------------------------------------
// R5: SendPSyncContinue

func (r *rs) psyncReply() {
	c := r.c
	fn, wait := r.fn(pkgU, "", "SendPSyncContinue"), r.fn(pkgU, "", "waitRdbDump")
	if fn == nil || wait == nil {
		return
	}
	info := fn.Pkg.TypesInfo
	g := flow.GraphOf(c.Program, fn)
	brID, br := param(fn, 0)
	runID, _ := param(fn, 2)
	offID, _ := param(fn, 3)
	// reply decoded from br
	dec, db := pat.Stmt("_r, _e = redis.Decode(_br)").Find(info, fn.Decl.Body, pat.Binds{"_br": brID})
	if dec == nil {
		c.Undecidedf("R5.reply", "SendPSyncContinue/decode", fn.Decl.Pos(), "cannot find `r, e := redis.Decode(br)` on the reader parameter")
		return
	}
	_, sb := pat.Stmt("_x, _err = redis.AsString(_r, nil)").Find(info, fn.Decl.Body, db)
	if sb == nil {
		// the decoded reply may travel through another variable (the result of a helper that decodes it,
		// expanded in place: `r, err = decoded, nil` on success, `r, err = nil, <error>` otherwise): every
		// definition of the variable that can arrive at AsString is the decoded value or nil
		if as, b2 := pat.Stmt("_x, _err = redis.AsString(_y, nil)").Find(info, fn.Decl.Body, nil); as != nil {
			if at, ok := flow.PointOf(g, as); ok && carriesOrNil(g, at, b2["_y"].(ast.Expr), flow.Obj(info, db["_r"]), 0) {
				sb = b2
			}
		}
	}
	var xb pat.Binds
	// The reply line split into fields: strings.Split(line, " ") / SplitN / strings.Fields(line), where
	// line is the reply through pure string transformers. Conversions and trimming are transparent; a
	// case-changing transformer (ToLower/ToUpper/Title...) is remembered: it folds every field, the
	// announced run id included.
	peelText := func(e ast.Expr) (ast.Expr, string) {
		fold := ""
		e = ast.Unparen(flow.Resolve(info, fn.Decl.Body, ast.Unparen(e)))
		for {
			call, ok := e.(*ast.CallExpr)
			if !ok || len(call.Args) == 0 {
				return e, fold
			}
			f := core.CalleeFunc(info, call)
			switch {
			case f != nil && f.Pkg() != nil && (f.Pkg().Path() == "strings" || f.Pkg().Path() == "bytes"):
				switch f.Name() {
				case "ToLower", "ToLowerSpecial":
					fold = "lower"
				case "ToUpper", "ToUpperSpecial", "ToTitle", "Title":
					fold = "upper"
				case "TrimSpace", "TrimRight", "TrimLeft", "Trim", "TrimSuffix", "TrimPrefix", "TrimFunc", "TrimRightFunc", "TrimLeftFunc":
				default:
					return e, fold
				}
			default:
				if tv, isConv := info.Types[call.Fun]; !isConv || !tv.IsType() || len(call.Args) != 1 {
					return e, fold
				}
			}
			e = ast.Unparen(flow.Resolve(info, fn.Decl.Body, ast.Unparen(call.Args[0])))
		}
	}
	folded := ""
	if sb != nil {
		core.Inspect(fn.Decl.Body, func(m ast.Node) bool {
			as, ok := m.(*ast.AssignStmt)
			if !ok || len(as.Lhs) != 1 || len(as.Rhs) != 1 {
				return true
			}
			call, ok := ast.Unparen(as.Rhs[0]).(*ast.CallExpr)
			if !ok {
				return true
			}
			f := core.CalleeFunc(info, call)
			var sep ast.Expr
			switch {
			case core.IsFunc(f, "strings", "", "Split") && len(call.Args) == 2, core.IsFunc(f, "strings", "", "SplitN") && len(call.Args) == 3:
				sep = call.Args[1]
			case core.IsFunc(f, "strings", "", "Fields") && len(call.Args) == 1:
			default:
				return true
			}
			if line, fold := peelText(call.Args[0]); pat.Same(info, line, sb["_x"]) {
				xb, folded = pat.Binds{"_xx": as.Lhs[0]}, fold
				if sep != nil {
					if sv, ok := core.StringConst(info, sep); !ok || sv != " " {
						c.Check("R5.reply", "SendPSyncContinue/fields", dec.Pos(), false, fmt.Sprintf("the reply fields are separated by one space (found %q): run id and offset are taken from the wrong places", sv))
					}
				}
			}
			return true
		})
	}
	if xb == nil {
		c.Undecidedf("R5.reply", "SendPSyncContinue/fields", dec.Pos(), "cannot find the reply line being split into fields")
		return
	}
	field := func(e ast.Expr) int64 {
		b := pat.Expr("_xx[_i]").Match(info, e, pat.Binds{"_xx": xb["_xx"]})
		if b == nil {
			return -1
		}
		k, ok := core.IntConst(info, b["_i"].(ast.Expr))
		if !ok {
			return -1
		}
		return k
	}
	// keyword tests: every branch fact of the function (if/for conditions, tagless and tagged switch
	// cases, boolean locals) that compares something with the constants "continue" / "fullresync"
	foldKw := func(f cfgq.Fact) (kw string, arg ast.Expr, ok bool) { // strings.EqualFold(x, "kw")
		call, isCall := ast.Unparen(f.Expr).(*ast.CallExpr)
		if !isCall || len(call.Args) != 2 || !core.IsFunc(core.CalleeFunc(info, call), "strings", "", "EqualFold") {
			return "", nil, false
		}
		for _, p := range [][2]ast.Expr{{call.Args[0], call.Args[1]}, {call.Args[1], call.Args[0]}} {
			if s, isC := core.StringConst(info, p[1]); isC {
				return strings.ToLower(s), p[0], true
			}
		}
		return "", nil, false
	}
	kwFact := func(want string) func(cfgq.Fact) bool {
		return func(f cfgq.Fact) bool {
			if kw, _, ok := foldKw(f); ok {
				return f.Val && kw == want
			}
			s, eq, ok := flow.StrCmp(info, f, func(e ast.Expr) bool { return true })
			return ok && eq && strings.ToLower(s) == want
		}
	}
	seen := map[string]bool{}
	for _, blk := range g.CFG.Blocks {
		if !blk.Live || len(blk.Succs) != 2 {
			continue
		}
		for _, f := range flow.EdgeFacts(g, blk, 0) {
			if kw, arg, ok := foldKw(f); ok && (kw == "continue" || kw == "fullresync") && !seen[kw] {
				seen[kw] = true
				if inner, _ := peelText(arg); field(inner) == 0 {
					c.Okf("R5.reply", "SendPSyncContinue/keyword-"+kw, f.Expr.Pos(), "field 0 is compared with strings.EqualFold: every letter case matches")
				} else {
					c.Undecidedf("R5.reply", "SendPSyncContinue/keyword-"+kw, f.Expr.Pos(), "keyword comparison %s not recognised", c.Src(f.Expr))
				}
				continue
			}
			x, y, op, isRel := flow.Rel(f)
			if !isRel || op != token.EQL && op != token.NEQ {
				continue
			}
			for _, side := range [][2]ast.Expr{{x, y}, {y, x}} {
				s, isC := core.StringConst(info, side[1])
				kw := strings.ToLower(s)
				if !isC || kw != "continue" && kw != "fullresync" || seen[kw] {
					continue
				}
				seen[kw] = true
				key := "SendPSyncContinue/keyword-" + kw
				pos := side[1].Pos()
				other := ast.Unparen(flow.Resolve(info, fn.Decl.Body, ast.Unparen(side[0])))
				if inner, fold := peelText(other); fold == "" && field(inner) == 0 {
					other = inner // trimming / conversions around the field do not matter
				}
				call, isCall := other.(*ast.CallExpr)
				cf := (*types.Func)(nil)
				if isCall {
					cf = core.CalleeFunc(info, call)
				}
				arg0 := func() ast.Expr { return ast.Unparen(flow.Resolve(info, fn.Decl.Body, ast.Unparen(call.Args[0]))) }
				switch {
				case cf != nil && core.IsFunc(cf, "strings", "", "ToLower") && field(arg0()) == 0:
					c.Check("R5.reply", key, pos, s == kw, fmt.Sprintf("a lower-cased field is compared with %q, which can never match: the reply is rejected whatever its letter case", s))
				case cf != nil && core.IsFunc(cf, "strings", "", "ToUpper") && field(arg0()) == 0:
					c.Check("R5.reply", key, pos, s == strings.ToUpper(s), fmt.Sprintf("an upper-cased field is compared with %q, which can never match: the reply is rejected whatever its letter case", s))
				case field(other) == 0 && folded == "lower":
					c.Check("R5.reply", key, pos, s == kw, fmt.Sprintf("a field of the lower-cased reply is compared with %q, which can never match", s))
				case field(other) == 0 && folded == "upper":
					c.Check("R5.reply", key, pos, s == strings.ToUpper(s), fmt.Sprintf("a field of the upper-cased reply is compared with %q, which can never match", s))
				case field(other) == 0:
					c.Failf("R5.reply", key, pos, "field 0 is compared with %q case-sensitively: a reply spelled in the other letter case (e.g. %q) is rejected", s, swapCase(s))
				default:
					c.Undecidedf("R5.reply", key, pos, "keyword comparison with %q not recognised", s)
				}
			}
		}
	}
	for _, kw := range []string{"continue", "fullresync"} {
		if !seen[kw] {
			c.Undecidedf("R5.reply", "SendPSyncContinue/keyword-"+kw, fn.Decl.Pos(), "no comparison with the keyword %q found", kw)
		}
	}
	r.requestOffset(fn, g, offID)
	// classify successful returns by the keyword edge they sit behind
	nc, nf := 0, 0
	for _, pt := range g.Points(func(m ast.Node) bool { ret, ok := m.(*ast.ReturnStmt); return ok && len(ret.Results) == 4 }) {
		ret := pt.Node().(*ast.ReturnStmt)
		if !core.IsNil(info, ret.Results[3]) {
			continue
		}
		viaC, _ := flow.OnlyVia(g, pt, kwFact("continue"))
		viaF, _ := flow.OnlyVia(g, pt, kwFact("fullresync"))
		switch {
		case viaC && !viaF:
			nc++
			r.continueReturn(fn, g, ret, runID, offID)
		case viaF && !viaC:
			nf++
			// run id <- field 1, offset <- ParseInt(field 2), header read from br
			// the run id returned derives from reply field 1, without any case-changing transformer on the way
			rid, ridFold := peelText(ret.Results[0])
			switch {
			case field(rid) == 1 && (folded != "" || ridFold != ""):
				how := folded + "-cased reply line"
				if ridFold != "" {
					how = ridFold + "-cased field"
				}
				c.Failf("R5.reply", "SendPSyncContinue/fullresync-runid", ret.Pos(), "the run id returned is field 1 of the %s: a run id announced with letters of the other case is altered, the source does not recognise it in the next PSYNC and answers with a full resync", how)
			default:
				c.Check("R5.reply", "SendPSyncContinue/fullresync-runid", ret.Pos(), field(rid) == 1, fmt.Sprintf("on FULLRESYNC the run id is reply field 1 (found %s): a wrong run id makes every later PSYNC a full resync or, worse, continues the wrong history", c.Src(rid)))
			}
			off := flow.Resolve(info, fn.Decl.Body, ret.Results[1])
			okOff := false
			if oo := flow.Obj(info, off); oo != nil {
				if as, ob := pat.Stmt("_v, _e2 = strconv.ParseInt(_src, _base, _bits)").Find(info, fn.Decl.Body, nil); as != nil && flow.Obj(info, ob["_v"]) == oo {
					okOff = field(ob["_src"].(ast.Expr)) == 2 && isConst(info, ob["_base"].(ast.Expr), 10) && isConst(info, ob["_bits"].(ast.Expr), 64)
				}
			}
			c.Check("R5.reply", "SendPSyncContinue/fullresync-offset", ret.Pos(), okOff, "on FULLRESYNC the offset is ParseInt(field 2, 10, 64): any other value shifts every offset acknowledged and resumed from afterwards")
			wc, isCall := ast.Unparen(flow.ChaseDef(g, ret.Results[2], pt)).(*ast.CallExpr)
			if !isCall || core.CalleeFunc(info, wc) != wait.Obj {
				c.Undecidedf("R2.reader", "SendPSyncContinue/header-reader", ret.Pos(), "the third result %s is not a call of waitRdbDump", c.Src(ret.Results[2]))
			} else {
				c.Check("R2.reader", "SendPSyncContinue/header-reader", wc.Pos(), flow.IsObj(info, br)(wc.Args[0]),
					"the RDB header must be read from the very reader that decoded +FULLRESYNC: that reader may already hold the '$n' line and RDB bytes in its buffer, which any other reader never sees")
			}
		default:
			c.Undecidedf("R5.reply", "SendPSyncContinue/success-return", ret.Pos(), "successful return %s is not behind exactly one keyword test", c.Src(ret))
		}
	}
	if nc != 1 || nf != 1 {
		c.Undecidedf("instances", "R5.reply", fn.Decl.Pos(), "expected one successful return per keyword, found continue=%d fullresync=%d", nc, nf)
	}
}

func swapCase(s string) string {
	if s == strings.ToLower(s) {
		return strings.ToUpper(s)
	}
	return strings.ToLower(s)
}

// requestOffset: the offset written into the psync command, as a function of the offset handed in. The
// caller holds every byte up to and including inOffset, so the stream must be requested from inOffset+1
// for EVERY real offset (0 included); only the sentinel -1 ("nothing yet") is passed on unchanged. A
// path-sensitive walk knows, per path, which values of inOffset can take it (the tests on it and on its
// copies) and by which constant the value sent differs from it (assignments of the form v = w + k).
func (r *rs) requestOffset(fn *core.Fn, g *cfgq.Graph, offID *ast.Ident) {
	c := r.c
	info := fn.Pkg.TypesInfo
	key := "SendPSyncContinue/request-offset"
	var sentCall *ast.CallExpr
	for _, call := range flow.FindCalls(fn.Decl.Body, func(call *ast.CallExpr) bool {
		f := core.CalleeFunc(info, call)
		if f == nil || f.Name() != "NewCommand" || len(call.Args) < 3 {
			return false
		}
		s, ok := core.StringConst(info, call.Args[0])
		return ok && strings.ToLower(s) == "psync"
	}) {
		sentCall = call
	}
	in := core.ObjOf(info, offID)
	if sentCall == nil || in == nil {
		c.Undecidedf("R5.reply", key, fn.Decl.Pos(), "cannot find the psync command and its offset argument")
		return
	}
	w := &flow.Sym{G: g}
	init := flow.NewState()
	inTok := w.Eval(offID, init).Tok
	mark := func(o types.Object) string { return fmt.Sprintf("delta:%p", o) }
	// delta of an expression relative to inOffset on this path (ok false: not of the form inOffset + k)
	deltaOf := func(e ast.Expr, st *flow.SState) (int64, bool) {
		f := lin.Of(info, unconv(info, e))
		if len(f.Coef) == 0 {
			// a constant c on a path whose tests pin inOffset to a constant c' is inOffset + (c - c') there
			// (`if inOffset == -1 { offset = -1 }`)
			if iv := st.IntervalOf(inTok); iv.Lo == iv.Hi {
				return f.Const - iv.Lo, true
			}
			return 0, false
		}
		if len(f.Coef) != 1 {
			return 0, false
		}
		var atom string
		for a, cf := range f.Coef {
			if cf != 1 {
				return 0, false
			}
			atom = a
		}
		var base types.Object
		core.Inspect(e, func(m ast.Node) bool {
			if id, ok := m.(*ast.Ident); ok && base == nil && lin.Key(info, id) == atom {
				if v, isVar := core.ObjOf(info, id).(*types.Var); isVar {
					base = v
				}
			}
			return base == nil
		})
		if base == nil {
			return 0, false
		}
		if d, has := st.Marks[mark(base)]; has && d.Kind == flow.SInt {
			return d.K + f.Const, true
		}
		if base == in {
			if _, written := st.Marks[mark(in)]; !written {
				return f.Const, true
			}
		}
		return 0, false
	}
	type obs struct {
		iv    flow.Interval
		k     int64
		known bool
	}
	var seen []obs
	w.Visit = func(m ast.Node, st *flow.SState) bool {
		for _, call := range cfgq.ExecCalls(m) {
			if call == sentCall {
				k, ok := deltaOf(call.Args[2], st)
				seen = append(seen, obs{st.IntervalOf(inTok), k, ok})
			}
		}
		set := func(l ast.Expr, k int64, ok bool) {
			o := flow.Obj(info, l)
			if o == nil {
				return
			}
			if ok {
				st.Marks[mark(o)] = flow.SVal{Kind: flow.SInt, K: k}
			} else {
				st.Marks[mark(o)] = flow.SVal{Tok: "unknown"}
			}
		}
		switch x := m.(type) {
		case *ast.AssignStmt:
			switch {
			case (x.Tok == token.ASSIGN || x.Tok == token.DEFINE) && len(x.Lhs) == len(x.Rhs):
				type upd struct {
					l  ast.Expr
					k  int64
					ok bool
				}
				var ups []upd
				for i, l := range x.Lhs {
					if b, isInt := info.TypeOf(l).Underlying().(*types.Basic); isInt && b.Info()&types.IsInteger != 0 {
						k, ok := deltaOf(x.Rhs[i], st)
						ups = append(ups, upd{l, k, ok})
					}
				}
				for _, u := range ups {
					set(u.l, u.k, u.ok)
				}
			case (x.Tok == token.ADD_ASSIGN || x.Tok == token.SUB_ASSIGN) && len(x.Lhs) == 1 && len(x.Rhs) == 1:
				k0, ok0 := deltaOf(x.Lhs[0], st)
				cst, isC := core.IntConst(info, x.Rhs[0])
				if x.Tok == token.SUB_ASSIGN {
					cst = -cst
				}
				set(x.Lhs[0], k0+cst, ok0 && isC)
			default:
				for _, l := range x.Lhs {
					set(l, 0, false)
				}
			}
		case *ast.IncDecStmt:
			k0, ok0 := deltaOf(x.X, st)
			if x.Tok == token.DEC {
				set(x.X, k0-1, ok0)
			} else {
				set(x.X, k0+1, ok0)
			}
		}
		return false
	}
	w.Run(init)
	if w.Overflow || len(seen) == 0 {
		c.Undecidedf("R5.reply", key, sentCall.Pos(), "cannot enumerate the paths to the psync command")
		return
	}
	bad, und := "", false
	for _, o := range seen {
		real := o.iv.Hi >= 0                       // some real offset (>= 0) takes this path
		sentinel := o.iv.Lo <= -1 && o.iv.Hi >= -1 // the sentinel -1 takes it
		switch {
		case !o.known:
			if real || sentinel {
				und = true
			}
		case real && o.k != 1:
			lo := o.iv.Lo
			if lo < 0 {
				lo = 0
			}
			bad = fmt.Sprintf("for an offset of %d the command asks for the stream from offset%+d", lo, o.k)
		case sentinel && !real && o.k != 0:
			bad = fmt.Sprintf("the sentinel -1 is sent as %d", -1+o.k)
		}
	}
	switch {
	case bad != "":
		c.Failf("R5.reply", key, sentCall.Pos(), "%s; the caller holds every byte up to its offset, so PSYNC must ask for offset+1 for every real offset (0 included) and pass only -1 on unchanged: asking for a byte the source no longer has (or has already sent) makes it answer with a full resync, or shifts every later offset by one", bad)
	case und:
		c.Undecidedf("R5.reply", key, sentCall.Pos(), "the offset written into the psync command is not of the form inOffset + constant on every path")
	default:
		c.Okf("R5.reply", key, sentCall.Pos(), "the command asks for offset+1 for every offset >= 0 and passes -1 on unchanged")
	}
}

// continueReturn: `return runid, offset - k, nil, nil` with runid = InRunid, offset = inOffset (+k when != -1).
func (r *rs) continueReturn(fn *core.Fn, g *cfgq.Graph, ret *ast.ReturnStmt, runID, offID *ast.Ident) {
	c := r.c
	info := fn.Pkg.TypesInfo
	body := fn.Decl.Body
	c.Check("R5.reply", "SendPSyncContinue/continue-no-rdb", ret.Pos(), core.IsNil(info, ret.Results[2]), "on CONTINUE no RDB follows: the wait channel must be nil so that the caller starts the command phase at once")
	// run id
	valueIs := func(e ast.Expr, src *ast.Ident) (bool, bool) {
		if pat.Same(info, e, src) {
			return true, true
		}
		o := flow.Obj(info, e)
		if o == nil {
			return false, false
		}
		defs, other := defsOf(info, body, o)
		if other > 0 || len(defs) != 1 {
			return false, false
		}
		return pat.Same(info, defs[0], src), true
	}
	ok, known := valueIs(ret.Results[0], runID)
	if !known {
		c.Undecidedf("R5.reply", "SendPSyncContinue/continue-runid", ret.Pos(), "cannot trace %s to a single definition", c.Src(ret.Results[0]))
	} else {
		c.Check("R5.reply", "SendPSyncContinue/continue-runid", ret.Pos(), ok, "on CONTINUE the caller's run id is returned unchanged")
	}
	// offset: PSYNC asks for the stream starting at byte S (the argument of the psync command); when the
	// source continues, the caller has everything up to S-1, which is what must be returned. Both values
	// are compared as linear forms over the same variables, so any way of computing S is accepted.
	var sent ast.Expr
	var sentCall *ast.CallExpr
	for _, call := range flow.FindCalls(body, func(call *ast.CallExpr) bool {
		f := core.CalleeFunc(info, call)
		if f == nil || f.Name() != "NewCommand" || len(call.Args) < 3 {
			return false
		}
		s, ok := core.StringConst(info, call.Args[0])
		return ok && strings.ToLower(s) == "psync"
	}) {
		sent, sentCall = call.Args[2], call
	}
	if sent == nil {
		c.Undecidedf("R5.reply", "SendPSyncContinue/continue-offset", ret.Pos(), "cannot find the psync command and its offset argument")
		return
	}
	sf, rf := lin.Of(info, sent), lin.Of(info, ret.Results[1])
	if !(lin.Form{Coef: sf.Coef}).Equal(lin.Form{Coef: rf.Coef}) || len(sf.Coef) == 0 {
		c.Undecidedf("R5.reply", "SendPSyncContinue/continue-offset", ret.Pos(), "the offset returned (%s) and the offset requested (%s) are not computed from the same variable", c.Src(ret.Results[1]), c.Src(sent))
		return
	}
	// the variables they are computed from must not change between the request and the return
	sp, ok1 := flow.PointOf(g, sentCall)
	rp, ok2 := flow.PointOf(g, ret)
	changed := false
	if ok1 && ok2 {
		core.Inspect(sent, func(m ast.Node) bool {
			id, isID := m.(*ast.Ident)
			if !isID {
				return true
			}
			if v, isVar := info.Uses[id].(*types.Var); isVar && !v.IsField() {
				for _, ap := range g.Points(assignsTo(info, v)) {
					if g.Path(cfgq.Query{From: sp, After: true, Target: isNode(ap.Node())}) != nil && g.Path(cfgq.Query{From: ap, After: true, Target: isNode(rp.Node())}) != nil {
						changed = true
					}
				}
				for _, ap := range g.Points(func(n ast.Node) bool { s, ok := n.(*ast.IncDecStmt); return ok && flow.IsObj(info, v)(s.X) }) {
					if g.Path(cfgq.Query{From: sp, After: true, Target: isNode(ap.Node())}) != nil && g.Path(cfgq.Query{From: ap, After: true, Target: isNode(rp.Node())}) != nil {
						changed = true
					}
				}
			}
			return true
		})
	}
	if !ok1 || !ok2 || changed {
		c.Undecidedf("R5.reply", "SendPSyncContinue/continue-offset", ret.Pos(), "the requested offset is modified between the psync command and the CONTINUE return")
		return
	}
	shiftBy := rf.Const - (sf.Const - 1)
	c.Check("R5.reply", "SendPSyncContinue/continue-offset", ret.Pos(), shiftBy == 0,
		fmt.Sprintf("PSYNC asks for the stream from byte S and CONTINUE returns S%+d, but the caller then holds everything up to S-1: its offset comes back shifted by %+d, so the bytes counted from it are acknowledged/resumed at the wrong position (lost or duplicated after a reconnect)", rf.Const-sf.Const, shiftBy))
}

// ---------------------------------------------------------------------------
// R2 / R5.use: sendPSyncCmd

// carriesOrNil: every definition of e that can arrive at `at` gives it obj's value (directly or through
// copies) or the literal nil; at least one gives obj's value.
func carriesOrNil(g *cfgq.Graph, at cfgq.Point, e ast.Expr, obj types.Object, depth int) bool {
	info := g.Info
	e = unconv(info, e)
	if obj == nil || depth > 3 {
		return false
	}
	if flow.IsObj(info, obj)(e) {
		return true
	}
	v, isVar := flow.Obj(info, e).(*types.Var)
	if !isVar || v.IsField() {
		return false
	}
	isDef := assignsTo(info, v)
	target := at.Node()
	some := false
	for _, p := range g.Points(isDef) {
		if p.Node() == target || g.Path(cfgq.Query{From: p, After: true, Avoid: isDef, Target: func(m ast.Node) bool { return m == target }}) == nil {
			continue
		}
		as := p.Node().(*ast.AssignStmt)
		if len(as.Lhs) != len(as.Rhs) || as.Tok != token.ASSIGN && as.Tok != token.DEFINE {
			return false
		}
		for i, l := range as.Lhs {
			if !flow.IsObj(info, v)(l) {
				continue
			}
			switch {
			case core.IsNil(info, as.Rhs[i]):
			case carriesOrNil(g, p, as.Rhs[i], obj, depth+1):
				some = true
			default:
				return false
			}
		}
	}
	return some
}

// sameValue: does expression e, read at point `at`, carry the value held by
// obj? known is false when e is a variable whose value cannot be traced to a
// single definition - then nothing is claimed either way.
// outer is the body of the enclosing function when g is the graph of a function literal inside it (nil
// otherwise): a variable captured by the literal is defined out there.
func sameValue(g *cfgq.Graph, outer ast.Node, at cfgq.Point, e ast.Expr, obj types.Object) (same, known bool) {
	info := g.Info
	cur := unconv(info, e)
	for i := 0; i < 6; i++ {
		if flow.IsObj(info, obj)(cur) {
			return true, true
		}
		if sel, isSel := cur.(*ast.SelectorExpr); isSel {
			// a field of a struct local (or of a pointer to a literal built here): what the literal gave it,
			// provided nothing that can run before `at` writes the field or hands the struct to other code
			base := flow.Obj(info, sel.X)
			bv, isVar := base.(*types.Var)
			if !isVar || bv.IsField() || bv.Pkg() == nil || bv.Parent() == bv.Pkg().Scope() {
				return false, false
			}
			target := at.Node()
			touches := func(n ast.Node) bool {
				hit := false
				core.Inspect(n, func(m ast.Node) bool {
					switch x := m.(type) {
					case *ast.AssignStmt:
						for _, l := range x.Lhs {
							if ls, ok := ast.Unparen(l).(*ast.SelectorExpr); ok && flow.IsObj(info, bv)(ls.X) && ls.Sel.Name == sel.Sel.Name {
								hit = true
							}
							if st, ok := ast.Unparen(l).(*ast.StarExpr); ok && flow.IsObj(info, bv)(st.X) {
								hit = true
							}
						}
					case *ast.CallExpr:
						// a pointer to the struct (the variable itself when it is one, or its address) handed to
						// other code: the field may be rewritten there
						_, isPtr := bv.Type().Underlying().(*types.Pointer)
						for _, a := range x.Args {
							if isPtr && flow.IsObj(info, bv)(a) {
								hit = true
							}
						}
						if isAddrArg(x, bv, info) {
							hit = true
						}
						if fs, ok := ast.Unparen(x.Fun).(*ast.SelectorExpr); ok && flow.IsObj(info, bv)(fs.X) {
							if sl := info.Selections[fs]; sl != nil && sl.Kind() == types.MethodVal {
								hit = true // a method of the struct may write its fields
							}
						}
					}
					return !hit
				})
				return hit
			}
			for _, p := range g.Points(touches) {
				if p.Node() != target && g.Path(cfgq.Query{From: p, After: true, Target: func(m ast.Node) bool { return m == target }}) != nil {
					return false, false
				}
			}
			d := flow.ChaseDef(g, sel, at)
			if d == ast.Expr(sel) {
				return false, false
			}
			dd, p := flow.ReachingDefAt(g, bv, at)
			if dd == nil {
				return false, false
			}
			cur, at = unconv(info, d), p
			continue
		}
		o := flow.Obj(info, cur)
		if o == nil {
			return false, true // a literal, a call: not the variable's value by any copy
		}
		v, isVar := o.(*types.Var)
		if !isVar {
			return false, true
		}
		if outer != nil && !flow.DefinedIn(info, g.Body, v) && flow.DefinedIn(info, outer, v) {
			// captured from the enclosing function: its one assignment out there is its value in here
			// (several, or one inside a literal that may run concurrently: nothing can be said)
			if flow.Assignments(info, outer, v) != 1 || flow.Assignments(info, g.Body, v) != 0 {
				return false, false
			}
			var rhs ast.Expr
			core.Inspect(outer, func(m ast.Node) bool {
				switch x := m.(type) {
				case *ast.AssignStmt:
					if len(x.Lhs) == len(x.Rhs) && (x.Tok == token.ASSIGN || x.Tok == token.DEFINE) {
						for i, l := range x.Lhs {
							if flow.IsObj(info, v)(l) {
								rhs = x.Rhs[i]
							}
						}
					}
				case *ast.ValueSpec:
					if len(x.Names) == len(x.Values) {
						for i, nm := range x.Names {
							if info.Defs[nm] == types.Object(v) {
								rhs = x.Values[i]
							}
						}
					}
				}
				return true
			})
			if rhs == nil {
				return false, false
			}
			r := unconv(info, rhs)
			if flow.IsObj(info, obj)(r) {
				return true, true
			}
			if ro, isVar := flow.Obj(info, r).(*types.Var); isVar && flow.Assignments(info, outer, ro) == 0 {
				return false, true // another never-assigned variable (a different parameter)
			}
			if _, isID := r.(*ast.Ident); !isID {
				if _, isSel := r.(*ast.SelectorExpr); !isSel {
					return false, true // built out there from something else
				}
			}
			return false, false
		}
		if flow.Assignments(info, g.Body, v) == 0 {
			return false, true // a parameter (or a variable never assigned): a different value
		}
		d, p := flow.ReachingDefAt(g, v, at)
		if d == nil {
			return false, false
		}
		cur, at = unconv(info, d), p
	}
	return false, false
}

// isAddrArg: the call takes the address of v (&v among its arguments).
func isAddrArg(call *ast.CallExpr, v types.Object, info *types.Info) bool {
	for _, a := range call.Args {
		if u, ok := ast.Unparen(a).(*ast.UnaryExpr); ok && u.Op == token.AND && flow.IsObj(info, v)(u.X) {
			return true
		}
	}
	return false
}

// checkSame records `e carries obj's value` as an obligation: VIOLATION only when e provably is something else.
func (r *rs) checkSame(rule, key string, pos token.Pos, g *cfgq.Graph, outer ast.Node, at cfgq.Point, e ast.Expr, obj types.Object, detail string) {
	same, known := sameValue(g, outer, at, e, obj)
	if !known {
		r.c.Undecidedf(rule, key, pos, "cannot trace %s to a single definition; required: %s", r.c.Src(e), detail)
		return
	}
	r.c.Check(rule, key, pos, same, detail)
}

func (r *rs) sendPSyncCmd() {
	c := r.c
	fn, spc, ris := r.fn(pkgS, "DbSyncer", "sendPSyncCmd"), r.fn(pkgU, "", "SendPSyncContinue"), r.fn(pkgS, "DbSyncer", "runIncrementalSync")
	if fn == nil || spc == nil || ris == nil {
		return
	}
	info := fn.Pkg.TypesInfo
	g := flow.GraphOf(c.Program, fn)
	calls := callsTo(info, fn.Decl.Body, spc.Obj, false)
	if len(calls) != 1 {
		c.Undecidedf("R2.reader", "sendPSyncCmd/handshake-reader", fn.Decl.Pos(), "expected one SendPSyncContinue call, found %d", len(calls))
		return
	}
	hs := calls[0]
	nrs := readersLike(info, fn.Decl.Body, newReaders(info, fn.Decl.Body, true), flow.Obj(info, hs.Args[0]))
	if len(nrs) == 0 {
		c.Undecidedf("R2.reader", "sendPSyncCmd/one-reader", fn.Decl.Pos(), "no bufio reader is created")
		return
	}
	conn := flow.Obj(info, nrs[0].Args[0])
	br := assignedVar(info, fn.Decl.Body, nrs[0], 0)
	pt, inGraph := flow.PointOf(g, nrs[0])
	loops := inGraph && g.Path(cfgq.Query{From: pt, After: true, Target: isNode(pt.Node())}) != nil
	c.Check("R2.reader", "sendPSyncCmd/one-reader", nrs[0].Pos(), len(nrs) == 1 && !loops,
		fmt.Sprintf("exactly one buffered reader may be created over the source connection (found %d, in a loop: %v): a second reader starts behind whatever the first one has already buffered (the '$n' header or RDB bytes), which is lost", len(nrs), loops))
	if conn == nil || br == nil || flow.Assignments(info, fn.Decl.Body, br) != 1 || flow.Assignments(info, fn.Decl.Body, conn) != 1 {
		c.Undecidedf("R2.reader", "sendPSyncCmd/reader-var", nrs[0].Pos(), "connection or reader is not a single-assignment variable")
		return
	}
	c.Check("R2.reader", "sendPSyncCmd/handshake-reader", hs.Pos(), flow.IsObj(info, br)(hs.Args[0]), "the PSYNC reply must be decoded through the connection's single buffered reader")
	// results of the handshake
	var res [4]types.Object
	for i := range res {
		res[i] = assignedVar(info, fn.Decl.Body, hs, i)
	}
	if res[0] == nil || res[1] == nil || res[2] == nil {
		c.Undecidedf("R5.use", "sendPSyncCmd/results", hs.Pos(), "the results of SendPSyncContinue are not bound to variables")
		return
	}
	hp, _ := flow.PointOf(g, hs)
	gos := callsTo(info, fn.Decl.Body, ris.Obj, false)
	if len(gos) < 2 {
		c.Undecidedf("instances", "R2.reader", fn.Decl.Pos(), "expected the CONTINUE and the FULLRESYNC start of runIncrementalSync, found %d", len(gos))
	}
	// the announced offset is stored before the copy starts
	stored := func(m ast.Node) bool {
		as, ok := m.(*ast.AssignStmt)
		if !ok || len(as.Lhs) != len(as.Rhs) {
			return false
		}
		for i, l := range as.Lhs {
			if core.IsFieldNamed(info, l, "DbSyncer", "sourceOffset") && flow.IsObj(info, res[1])(as.Rhs[i]) {
				return true
			}
		}
		return false
	}
	for i, gc := range gos {
		key := fmt.Sprintf("sendPSyncCmd/start#%d", i+1)
		gp, ok := flow.PointOf(g, gc)
		if !ok {
			c.Undecidedf("R2.reader", key, gc.Pos(), "call not in the control-flow graph")
			continue
		}
		c.Check("R2.reader", key+"/same-conn-and-reader", gc.Pos(), flow.IsObj(info, conn)(gc.Args[0]) && flow.IsObj(info, br)(gc.Args[1]),
			"the copy goroutine must get the connection together with the one reader created over it: the reader holds the bytes that follow the PSYNC reply")
		okS, wS := g.Dominated(gp, stored)
		c.Check("R5.use", key+"/offset-stored", gc.Pos(), okS, "the offset announced by the source must be stored in ds.sourceOffset before the stream is consumed: all later ACKs and checkpoints count from it", wS...)
		r.checkSame("R5.use", key+"/runid-passed", gc.Pos(), g, nil, gp, gc.Args[4], res[0], "the run id announced by the source is the one the copy loop reconnects with")
		// the size
		isWait := flow.IsObj(info, res[2])
		size := unconv(info, flow.Resolve(info, fn.Decl.Body, gc.Args[3]))
		if isConst(info, size, 0) {
			r.guard("R5.use", key+"/size", gc.Pos(), g, gp, func(f cfgq.Fact) bool { isNil, ok := flow.NilCmp(info, f, isWait); return ok && isNil },
				flow.Opaque(g, func(f cfgq.Fact) bool { _, ok := flow.NilCmp(info, f, isWait); return ok }, res[2]),
				"the copy may start with RDB size 0 only when the handshake returned no wait channel (CONTINUE): otherwise the RDB is fed to the command parser")
		} else if so := flow.Obj(info, size); so != nil {
			recv := false
			core.Inspect(fn.Decl.Body, func(m ast.Node) bool {
				if as, ok := m.(*ast.AssignStmt); ok && len(as.Lhs) == 1 && len(as.Rhs) == 1 && flow.IsObj(info, so)(as.Lhs[0]) {
					if u, ok := ast.Unparen(as.Rhs[0]).(*ast.UnaryExpr); ok && u.Op == token.ARROW && isWait(u.X) {
						recv = true
					}
				}
				return true
			})
			if !recv {
				c.Undecidedf("R5.use", key+"/size", gc.Pos(), "cannot see %s being received from the handshake's wait channel", so.Name())
			} else {
				r.guard("R5.use", key+"/size", gc.Pos(), g, gp, func(f cfgq.Fact) bool { return nonZero(info, f, flow.IsObj(info, so)) },
					flow.Opaque(g, func(f cfgq.Fact) bool { _, _, ok := flow.Cmp(info, f, flow.IsObj(info, so)); return ok }, so),
					"the RDB size handed to the copy loop is the non-zero value received from the handshake's wait channel (0 ticks are keep-alives)")
			}
		} else {
			c.Undecidedf("R5.use", key+"/size", gc.Pos(), "size argument %s not recognised", c.Src(gc.Args[3]))
		}
	}
	// successful returns report the announced run id
	for _, p := range g.Points(func(m ast.Node) bool { ret, ok := m.(*ast.ReturnStmt); return ok && len(ret.Results) == 5 }) {
		ret := p.Node().(*ast.ReturnStmt)
		if !core.IsNil(info, ret.Results[4]) || g.Path(cfgq.Query{From: hp, After: true, Target: isNode(ret)}) == nil {
			continue
		}
		r.checkSame("R5.use", "sendPSyncCmd/returns-runid", ret.Pos(), g, nil, p, ret.Results[3], res[0], "the run id reported to Sync is the one announced by the source")
	}
}

// ---------------------------------------------------------------------------
// R2 + R3 caller: runIncrementalSync

func (r *rs) runIncrementalSync() {
	c := r.c
	fn, ioc, ppc := r.fn(pkgS, "DbSyncer", "runIncrementalSync"), r.fn(pkgU, "", "Iocopy"), r.fn(pkgS, "DbSyncer", "pSyncPipeCopy")
	if fn == nil || ioc == nil || ppc == nil {
		return
	}
	info := fn.Pkg.TypesInfo
	g := flow.GraphOf(c.Program, fn)
	_, conn := param(fn, 0)
	_, br := param(fn, 1)
	_, sizeP := param(fn, 3)
	r.boundedCaller("runIncrementalSync", fn, g, fn.Decl.Body, ioc, br, sizeP)
	// Which reader belongs to which connection is a statement about VALUES, not about the variables (or
	// struct fields) that carry them. A path-sensitive walk names every value by where it was produced:
	// the connection and the reader handed over by the caller (whose buffer holds the first command
	// bytes), every connection opened later, every buffered reader created - remembering over which
	// connection value it was created. A value produced by a call is a new one each time the call runs.
	copies := callsTo(info, fn.Decl.Body, ppc.Obj, false)
	allReaders := newReaders(info, fn.Decl.Body, false)
	const (
		good = iota
		unknown
		bad
	)
	type verdict struct {
		st   int
		seen bool
		why  string
	}
	worse := func(v *verdict, st int, why string) {
		v.seen = true
		if st > v.st {
			v.st, v.why = st, why
		}
	}
	copyV := map[*ast.CallExpr]*verdict{}
	for _, call := range copies {
		copyV[call] = &verdict{}
	}
	type rdV struct{ fresh, once verdict }
	readerV := map[*ast.CallExpr]*rdV{}
	for _, nr := range allReaders {
		readerV[nr] = &rdV{}
	}
	connV := map[string]*verdict{} // per connection value opened in this function
	connSrc := map[string]ast.Node{}
	w := &flow.Sym{G: g}
	connID, brID := ast.NewIdent(conn.Name()), ast.NewIdent(br.Name())
	info.Uses[connID], info.Uses[brID] = conn, br
	init := flow.NewState()
	conn0, br0 := w.Eval(connID, init).Tok, w.Eval(brID, init).Tok
	known := func(v flow.SVal) bool { return v.Tok != "" && !strings.HasPrefix(v.Tok, "expr") }
	w.Visit = func(m ast.Node, st *flow.SState) bool {
		calls := cfgq.ExecCalls(m)
		// a call that runs again yields a new value: what was known about its previous result is void
		for _, call := range calls {
			tok := fmt.Sprintf("call%p#0", call)
			delete(st.Marks, "reader-over:"+tok)
			delete(st.Marks, "conn-of:"+tok)
		}
		for _, call := range calls {
			rv := readerV[call]
			if rv == nil {
				continue
			}
			cv := w.Eval(call.Args[0], st)
			switch {
			case !known(cv):
				worse(&rv.fresh, unknown, fmt.Sprintf("cannot tell which connection %s is", c.Src(call.Args[0])))
				worse(&rv.once, unknown, "")
				continue
			case cv.Tok == conn0:
				worse(&rv.fresh, bad, "")
			default:
				worse(&rv.fresh, good, "")
			}
			if _, has := st.Marks["reader-over:"+cv.Tok]; has {
				worse(&rv.once, bad, "")
			} else {
				worse(&rv.once, good, "")
			}
			st.Marks["reader-over:"+cv.Tok] = flow.SVal{Kind: flow.SBool, B: true}
			st.Marks["conn-of:"+fmt.Sprintf("call%p#0", call)] = flow.SVal{Tok: cv.Tok}
			if cv.Tok != conn0 {
				if connV[cv.Tok] == nil {
					connV[cv.Tok], connSrc[cv.Tok] = &verdict{}, cv.Src
				}
			}
		}
		for _, call := range calls {
			v := copyV[call]
			if v == nil || len(call.Args) < 2 {
				continue
			}
			cv, bv := w.Eval(call.Args[0], st), w.Eval(call.Args[1], st)
			of := ""
			switch {
			case bv.Tok == br0:
				of = conn0
			case known(bv):
				if mk, has := st.Marks["conn-of:"+bv.Tok]; has {
					of = mk.Tok
				}
			}
			st8 := good
			switch {
			case !known(cv) || of == "":
				st8 = unknown
			case of != cv.Tok:
				st8 = bad
			}
			worse(v, st8, fmt.Sprintf("connection %s, reader %s", c.Src(call.Args[0]), c.Src(call.Args[1])))
			if known(cv) && cv.Tok != conn0 {
				if connV[cv.Tok] == nil {
					connV[cv.Tok], connSrc[cv.Tok] = &verdict{}, cv.Src
				}
				worse(connV[cv.Tok], st8, "")
			}
		}
		return false
	}
	w.Run(init)
	for i, call := range copies {
		key := fmt.Sprintf("runIncrementalSync/stream-copy#%d", i+1)
		v := copyV[call]
		switch {
		case w.Overflow || !v.seen || v.st == unknown:
			c.Undecidedf("R2.reader", key, call.Pos(), "cannot tell from which connection and reader values the command stream is copied (%s)", v.why)
		default:
			c.Check("R2.reader", key, call.Pos(), v.st == good,
				"the command stream is copied from the reader that the RDB was copied from (and the connection it wraps): the first command bytes are usually already in that reader's buffer")
		}
	}
	if len(copies) == 0 {
		c.Undecidedf("R2.reader", "runIncrementalSync/stream-copy", fn.Decl.Pos(), "no pSyncPipeCopy call")
	}
	for i, nr := range allReaders {
		key := fmt.Sprintf("runIncrementalSync/new-reader#%d", i+1)
		rv := readerV[nr]
		if w.Overflow || !rv.fresh.seen || rv.fresh.st == unknown {
			c.Undecidedf("R2.reader", key+"/only-on-new-conn", nr.Pos(), "%s: the connection it wraps cannot be traced (%s)", c.Src(nr), rv.fresh.why)
		} else {
			c.Check("R2.reader", key+"/only-on-new-conn", nr.Pos(), rv.fresh.st == good, "a new buffered reader may be created only over a connection opened here: a second reader over the connection handed over by the caller misses the bytes the first one has buffered")
		}
		if w.Overflow || !rv.once.seen || rv.once.st == unknown {
			c.Undecidedf("R2.reader", key+"/once-per-conn", nr.Pos(), "%s: the connection it wraps cannot be traced", c.Src(nr))
		} else {
			c.Check("R2.reader", key+"/once-per-conn", nr.Pos(), rv.once.st == good, "at most one buffered reader per connection")
		}
	}
	// every connection opened here: what is copied from it afterwards goes through a reader created over it
	var toks []string
	for t := range connV {
		toks = append(toks, t)
	}
	sort.Slice(toks, func(i, j int) bool {
		pi, pj := token.NoPos, token.NoPos
		if n := connSrc[toks[i]]; n != nil {
			pi = n.Pos()
		}
		if n := connSrc[toks[j]]; n != nil {
			pj = n.Pos()
		}
		if pi != pj {
			return pi < pj
		}
		return toks[i] < toks[j]
	})
	for i, t := range toks {
		key := fmt.Sprintf("runIncrementalSync/reconnect#%d/fresh-reader", i+1)
		pos := fn.Decl.Pos()
		if n := connSrc[t]; n != nil {
			pos = n.Pos()
		}
		v := connV[t]
		switch {
		case w.Overflow || v.st == unknown:
			c.Undecidedf("R2.reader", key, pos, "cannot trace the reader used with the connection opened here")
		case !v.seen:
			c.Okf("R2.reader", key, pos, "a reader is created over the connection opened here; nothing else is copied from it")
		default:
			c.Check("R2.reader", key, pos, v.st == good, "after the connection was replaced nothing may be copied through the old reader: it still holds (and would replay) bytes of the dead connection")
		}
	}
}

func (r *rs) syncEntry() {
	c := r.c
	fn, rdb, cmd := r.fn(pkgS, "DbSyncer", "Sync"), r.fn(pkgS, "DbSyncer", "syncRDBFile"), r.fn(pkgS, "DbSyncer", "syncCommand")
	if fn == nil || rdb == nil || cmd == nil {
		return
	}
	info := fn.Pkg.TypesInfo
	a, b := callsTo(info, fn.Decl.Body, rdb.Obj, false), callsTo(info, fn.Decl.Body, cmd.Obj, false)
	var nrs []*ast.CallExpr
	if len(a) == 1 {
		nrs = readersLike(info, fn.Decl.Body, newReaders(info, fn.Decl.Body, true), flow.Obj(info, a[0].Args[0]))
	}
	if len(nrs) == 0 || len(a) != 1 || len(b) != 1 {
		c.Undecidedf("R2.reader", "Sync/shape", fn.Decl.Pos(), "expected a buffered reader, one syncRDBFile and one syncCommand call")
		return
	}
	rdv := assignedVar(info, fn.Decl.Body, nrs[0], 0)
	c.Check("R2.reader", "Sync/one-reader", nrs[0].Pos(), len(nrs) == 1, fmt.Sprintf("exactly one buffered reader over the pipe (found %d)", len(nrs)))
	if rdv == nil || flow.Assignments(info, fn.Decl.Body, rdv) != 1 {
		c.Undecidedf("R2.reader", "Sync/reader-var", nrs[0].Pos(), "the reader is not a single-assignment variable")
		return
	}
	c.Check("R2.reader", "Sync/rdb-and-commands-share-reader", b[0].Pos(), flow.IsObj(info, rdv)(a[0].Args[0]) && flow.IsObj(info, rdv)(b[0].Args[0]),
		"the RDB loader and the command parser must read through the same buffered reader: the loader's reader has usually buffered the first commands, which a second reader never sees")
}

// rawConn: the raw connection leaves sendCmd/sendSyncCmd only once a non-zero size arrived.
func (r *rs) rawConn(pkgPath, recv, name string) {
	c := r.c
	fn, osc := r.fn(pkgPath, recv, name), r.fn(pkgU, "", "OpenSyncConn")
	if fn == nil || osc == nil {
		return
	}
	info := fn.Pkg.TypesInfo
	g := flow.GraphOf(c.Program, fn)
	calls := callsTo(info, fn.Decl.Body, osc.Obj, false)
	if len(calls) != 1 {
		c.Undecidedf("R2.reader", name+"/raw-conn", fn.Decl.Pos(), "expected one OpenSyncConn call")
		return
	}
	conn, wait := assignedVar(info, fn.Decl.Body, calls[0], 0), assignedVar(info, fn.Decl.Body, calls[0], 1)
	k := 0
	for _, p := range g.Points(func(m ast.Node) bool { ret, ok := m.(*ast.ReturnStmt); return ok && len(ret.Results) == 2 }) {
		ret := p.Node().(*ast.ReturnStmt)
		so := flow.Obj(info, ret.Results[1])
		if conn == nil || wait == nil || so == nil || !flow.IsObj(info, conn)(ret.Results[0]) {
			c.Undecidedf("R2.reader", name+"/raw-conn", ret.Pos(), "return %s is not (connection, size variable)", c.Src(ret))
			continue
		}
		k++
		recvd := false
		core.Inspect(fn.Decl.Body, func(m ast.Node) bool {
			if as, ok := m.(*ast.AssignStmt); ok && len(as.Lhs) == 1 && len(as.Rhs) == 1 && flow.IsObj(info, so)(as.Lhs[0]) {
				if u, ok := ast.Unparen(as.Rhs[0]).(*ast.UnaryExpr); ok && u.Op == token.ARROW && flow.IsObj(info, wait)(u.X) {
					recvd = true
				}
			}
			return true
		})
		if !recvd {
			c.Undecidedf("R2.reader", name+"/raw-conn", ret.Pos(), "cannot see %s being received from the header goroutine's channel", so.Name())
			continue
		}
		r.guard("R2.reader", name+"/raw-conn", ret.Pos(), g, p, func(f cfgq.Fact) bool { return nonZero(info, f, flow.IsObj(info, so)) },
			flow.Opaque(g, func(f cfgq.Fact) bool { _, _, ok := flow.Cmp(info, f, flow.IsObj(info, so)); return ok }, so),
			"the raw connection may be handed on only after a non-zero size was received from the header goroutine: before that the goroutine is still reading the same socket byte by byte, and a second reader would split the header/RDB bytes between the two")
	}
	if k == 0 {
		c.Undecidedf("R2.reader", name+"/raw-conn", fn.Decl.Pos(), "no (connection, size) return found")
	}
}

// replyUsed: every caller of SendPSyncContinue must look at the wait channel
// it returns, because a non-nil channel means that an RDB precedes the commands.
func (r *rs) replyUsed() {
	c := r.c
	spc := c.Func(pkgU, "", "SendPSyncContinue")
	if spc == nil {
		return
	}
	// one obligation per role (the initial handshake / any later reconnect), however many functions -
	// or expanded copies of a helper - contain a call of that role
	type agg struct {
		n, bad int
		pos    token.Pos
	}
	roles := map[string]*agg{}
	note := func(role string, info *types.Info, body ast.Node, call *ast.CallExpr) {
		wait := assignedVar(info, body, call, 2)
		used := false
		if wait != nil {
			core.InspectAll(body, func(m ast.Node) bool {
				if id, ok := m.(*ast.Ident); ok && info.Uses[id] == wait {
					used = true
				}
				return true
			})
		}
		a := roles[role]
		if a == nil {
			a = &agg{pos: call.Pos()}
			roles[role] = a
		}
		a.n++
		if !used {
			a.bad++
			a.pos = call.Pos()
		}
	}
	// The role of a call is decided by who reaches it, not by the function that happens to contain it:
	// the handshake of sendPSyncCmd and the reconnect of runIncrementalSync are looked at in the views of
	// these two functions, in which their helpers are expanded; any other function that still contains a
	// call the views did not show counts as a reconnect of its own.
	covered := map[token.Pos]bool{}
	for _, v := range []struct{ role, recv, name string }{{"sendPSyncCmd", "DbSyncer", "sendPSyncCmd"}, {"reconnect", "DbSyncer", "runIncrementalSync"}} {
		fn := r.fn(pkgS, v.recv, v.name)
		if fn == nil {
			continue
		}
		for _, call := range callsTo(fn.Pkg.TypesInfo, fn.Decl.Body, spc.Obj, true) {
			covered[call.Pos()] = true
			note(v.role, fn.Pkg.TypesInfo, fn.Decl.Body, call)
		}
	}
	for _, pp := range []string{pkgS, pkgR, pkgU} {
		pk := c.Pkg(pp)
		info := pk.TypesInfo
		for _, f := range pk.Syntax {
			for _, d := range f.Decls {
				fd, ok := d.(*ast.FuncDecl)
				if !ok || fd.Body == nil {
					continue
				}
				for _, call := range callsTo(info, fd.Body, spc.Obj, true) {
					if covered[call.Pos()] {
						continue
					}
					role := "reconnect"
					if fd.Name.Name == "sendPSyncCmd" {
						role = "sendPSyncCmd"
					}
					note(role, info, fd.Body, call)
				}
			}
		}
	}
	for _, role := range []string{"sendPSyncCmd", "reconnect"} {
		a := roles[role]
		if a == nil {
			continue
		}
		c.Check("R5.use", role+"/wait-result-used", a.pos, a.bad == 0,
			"the wait channel returned by SendPSyncContinue is discarded: when the source answers this PSYNC with +FULLRESYNC, the header goroutine started on the reader and the stream copy that follows read the same reader concurrently, so '$n', the RDB bytes and the commands are split between them and the command parser is fed RDB bytes (the announced run id/offset are ignored as well)")
	}
	if len(roles) < 2 {
		c.Undecidedf("instances", "R5.use", token.NoPos, "only %d roles of SendPSyncContinue callers found, 2 confirmed by hand", len(roles))
	}
}
