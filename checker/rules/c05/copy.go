// R3 (bounded copy) and R6 (stream copy): Iocopy, its RDB callers, pSyncPipeCopy, the dump loop.
package c05

import (
	"fmt"
	"go/ast"
	"go/token"
	"go/types"

	"golang.org/x/tools/go/cfg"

	"rscheck/cfgq"
	"rscheck/core"
	"rscheck/lin"
	"rscheck/pat"
	"rscheck/rules/c10/flow"
)

// ---------------------------------------------------------------------------
// R3: Iocopy and its bounded callers

func (r *rs) iocopy() {
	c := r.c
	fn := r.fn(pkgU, "", "Iocopy")
	if fn == nil {
		return
	}
	info := fn.Pkg.TypesInfo
	g := flow.GraphOf(c.Program, fn)
	_, rd := param(fn, 0)
	_, wr := param(fn, 1)
	pid, p := param(fn, 2)
	mid, mx := param(fn, 3)
	isP, isMax := flow.IsObj(info, p), flow.IsObj(info, mx)
	// the stream is read directly, or through io.LimitReader(r, N) which bounds the read by N
	limited := func(e ast.Expr) *ast.CallExpr {
		lc, ok := ast.Unparen(e).(*ast.CallExpr)
		if ok && core.IsFunc(core.CalleeFunc(info, lc), "io", "", "LimitReader") && len(lc.Args) == 2 && flow.IsObj(info, rd)(lc.Args[0]) {
			return lc
		}
		return nil
	}
	reads := flow.FindCalls(fn.Decl.Body, func(call *ast.CallExpr) bool {
		return len(call.Args) == 1 && (flow.MethodOn(call, "Read", flow.IsObj(info, rd)) || flow.MethodOn(call, "Read", func(e ast.Expr) bool { return limited(e) != nil }))
	})
	writes := flow.FindCalls(fn.Decl.Body, func(call *ast.CallExpr) bool {
		return flow.MethodOn(call, "Write", flow.IsObj(info, wr)) && len(call.Args) == 1
	})
	if len(reads) != 1 || len(writes) != 1 || p == nil || mx == nil {
		c.Undecidedf("R3.bounded", "Iocopy/shape", fn.Decl.Pos(), "expected one r.Read and one w.Write, found %d and %d", len(reads), len(writes))
		return
	}
	_, _ = pid, mid
	rp, _ := flow.PointOf(g, reads[0])
	wp, _ := flow.PointOf(g, writes[0])
	// (a) the read is bounded by max
	clamp := func(m ast.Node) bool { return reslice(info, m, isP, isMax) }
	small := flow.Establishes(g, func(f cfgq.Fact) bool {
		x, y, op, ok := flow.Rel(f)
		if !ok {
			return false
		}
		lenP := func(e ast.Expr) bool {
			call, ok := ast.Unparen(e).(*ast.CallExpr)
			return ok && flow.IsBuiltin(info, call, "len") && isP(call.Args[0])
		}
		return lenP(x) && isMax(y) && (op == token.LEQ || op == token.LSS || op == token.EQL) || isMax(x) && lenP(y) && (op == token.GEQ || op == token.GTR || op == token.EQL)
	})
	unknownCut := false
	core.Inspect(fn.Decl.Body, func(m ast.Node) bool {
		if as, ok := m.(*ast.AssignStmt); ok && assignsTo(info, p)(as) && !clamp(as) && !reslice(info, as, isP, func(ast.Expr) bool { return true }) {
			unknownCut = true
		}
		return true
	})
	if unknownCut {
		c.Undecidedf("R3.bounded", "Iocopy/buffer-assignments", fn.Decl.Pos(), "the buffer parameter is re-assigned in a form other than p = p[:k]")
		return
	}
	detailMax := "the buffer handed to Read must hold at most max bytes on every path (len(p) <= max tested, or p = p[:max]): otherwise one Read takes bytes beyond the end of the RDB, which are written to the RDB consumer / dump file and are missing from the command stream"
	var lim *ast.CallExpr
	if sel, ok := ast.Unparen(reads[0].Fun).(*ast.SelectorExpr); ok {
		lim = limited(sel.X)
	}
	// p[:L] with L a local that is max, or was compared with max
	var bound types.Object
	if se, ok := ast.Unparen(reads[0].Args[0]).(*ast.SliceExpr); ok && isP(se.X) && se.Max == nil && se.High != nil && (se.Low == nil || isConst(info, se.Low, 0)) && !isMax(se.High) {
		bound = flow.Obj(info, se.High)
	}
	switch arg := ast.Unparen(reads[0].Args[0]); {
	case lim != nil:
		mf, nf := lin.Of(info, mid), lin.Of(info, lim.Args[1])
		switch {
		case nf.Equal(mf):
			c.Okf("R3.bounded", "Iocopy/read-at-most-max", reads[0].Pos(), "the read goes through io.LimitReader(r, max)")
		case (lin.Form{Coef: nf.Coef}).Equal(lin.Form{Coef: mf.Coef}) && nf.Const > mf.Const:
			c.Check("R3.bounded", "Iocopy/read-at-most-max", reads[0].Pos(), false, detailMax)
		default:
			c.Undecidedf("R3.bounded", "Iocopy/read-at-most-max", reads[0].Pos(), "limit %s of the LimitReader is not max", c.Src(lim.Args[1]))
		}
	case bound != nil:
		isB := flow.IsObj(info, bound)
		setMax := func(m ast.Node) bool {
			as, ok := m.(*ast.AssignStmt)
			if !ok || len(as.Lhs) != len(as.Rhs) {
				return false
			}
			for i, l := range as.Lhs {
				if isB(l) && isMax(unconv(info, as.Rhs[i])) {
					return true
				}
			}
			return false
		}
		leMax := flow.Establishes(g, func(f cfgq.Fact) bool {
			x, y, op, ok := flow.Rel(f)
			if !ok {
				return false
			}
			return isB(x) && isMax(y) && (op == token.LEQ || op == token.LSS || op == token.EQL) || isMax(x) && isB(y) && (op == token.GEQ || op == token.GTR || op == token.EQL)
		})
		w := g.Path(cfgq.Query{From: g.Entry(), Avoid: setMax, AvoidEdge: leMax, Target: isNode(rp.Node())})
		c.Check("R3.bounded", "Iocopy/read-at-most-max", reads[0].Pos(), w == nil, detailMax, w...)
	case isP(arg):
		w := g.Path(cfgq.Query{From: g.Entry(), Avoid: clamp, AvoidEdge: small, Target: isNode(rp.Node())})
		c.Check("R3.bounded", "Iocopy/read-at-most-max", reads[0].Pos(), w == nil,
			"the buffer handed to Read must hold at most max bytes on every path (len(p) <= max tested, or p = p[:max]): otherwise one Read takes bytes beyond the end of the RDB, which are written to the RDB consumer / dump file and are missing from the command stream", w...)
	case prefixOf(info, arg, isP, isMax):
		c.Okf("R3.bounded", "Iocopy/read-at-most-max", reads[0].Pos(), "reads into p[:max]")
	default:
		c.Undecidedf("R3.bounded", "Iocopy/read-at-most-max", reads[0].Pos(), "Read argument %s not recognised", c.Src(arg))
	}
	// (b) exactly the prefix read is written
	n := assignedVar(info, fn.Decl.Body, reads[0], 0)
	if n == nil {
		c.Undecidedf("R3.bounded", "Iocopy/write-prefix", reads[0].Pos(), "the byte count returned by Read is not bound to a variable")
		return
	}
	trunc := func(m ast.Node) bool { return reslice(info, m, isP, flow.IsObj(info, n)) }
	isPrefix := func(e ast.Expr) bool { return prefixOf(info, e, isP, flow.IsObj(info, n)) }
	okDom, wd := g.Dominated(wp, isNode(rp.Node()))
	c.Check("R3.bounded", "Iocopy/read-before-write", writes[0].Pos(), okDom, "the write must follow the read", wd...)
	if flow.Assignments(info, fn.Decl.Body, n) != 1 {
		c.Undecidedf("R3.bounded", "Iocopy/write-prefix", reads[0].Pos(), "the byte count variable is assigned more than once")
		return
	}
	// the buffer is only ever re-sliced from its start (checked above) and n is assigned once, so a local
	// defined as p[:n] denotes the bytes just read wherever it is used
	local := func(e ast.Expr) ast.Expr { return ast.Unparen(flow.ValueOf(info, fn.Decl.Body, ast.Unparen(e))) }
	switch arg := local(writes[0].Args[0]); {
	case isP(arg):
		w := g.Path(cfgq.Query{From: rp, After: true, Avoid: trunc, Target: isNode(wp.Node())})
		c.Check("R3.bounded", "Iocopy/write-prefix", writes[0].Pos(), w == nil, "between Read and Write the buffer must be cut to the n bytes read (p = p[:n]): otherwise stale buffer bytes are written after the fresh ones", w...)
	case isPrefix(arg):
		c.Okf("R3.bounded", "Iocopy/write-prefix", writes[0].Pos(), "writes p[:n]")
	default:
		c.Undecidedf("R3.bounded", "Iocopy/write-prefix", writes[0].Pos(), "Write argument %s not recognised", c.Src(arg))
	}
	// (c) the result is the number of bytes moved
	nret := 0
	for _, pt := range g.Points(func(m ast.Node) bool { _, ok := m.(*ast.ReturnStmt); return ok }) {
		ret := pt.Node().(*ast.ReturnStmt)
		nret++
		var result ast.Expr
		if len(ret.Results) == 1 {
			result = ret.Results[0]
		} else if len(ret.Results) == 0 && fn.Decl.Type.Results != nil && len(fn.Decl.Type.Results.List) == 1 && len(fn.Decl.Type.Results.List[0].Names) == 1 {
			// a bare return of the named result: what it was last assigned on the way here
			result = flow.ChaseDef(g, fn.Decl.Type.Results.List[0].Names[0], pt)
		}
		if result == nil {
			c.Undecidedf("R3.bounded", "Iocopy/returns-count", ret.Pos(), "result not recognised")
			continue
		}
		res := unconv(info, local(unconv(info, result)))
		call, isCall := res.(*ast.CallExpr)
		isLen := isCall && flow.IsBuiltin(info, call, "len")
		switch {
		case flow.IsObj(info, n)(res):
			c.Okf("R3.bounded", "Iocopy/returns-count", ret.Pos(), "returns n")
		case isLen && isPrefix(local(call.Args[0])):
			c.Okf("R3.bounded", "Iocopy/returns-count", ret.Pos(), "returns len(p[:n])")
		case isLen && isP(call.Args[0]):
			w := g.Path(cfgq.Query{From: rp, After: true, Avoid: trunc, Target: isNode(ret)})
			c.Check("R3.bounded", "Iocopy/returns-count", ret.Pos(), w == nil, "len(p) is the number of bytes moved only after p = p[:n]: a larger result makes the caller's countdown end before the RDB does", w...)
		default:
			c.Undecidedf("R3.bounded", "Iocopy/returns-count", ret.Pos(), "result %s not recognised", c.Src(result))
		}
		okW, ww := g.Dominated(pt, isNode(wp.Node()))
		c.Check("R3.bounded", "Iocopy/write-before-return", ret.Pos(), okW, "the bytes counted in the result must have been written", ww...)
	}
	if nret == 0 {
		c.Undecidedf("R3.bounded", "Iocopy/returns-count", fn.Decl.Pos(), "no return statement")
	}
}

// remaining checks one RDB copy loop: Iocopy(..., max) with max the remaining count.
func (r *rs) boundedCaller(key string, fn *core.Fn, g *cfgq.Graph, root ast.Node, iocopy *core.Fn, wantReader, sizeParam types.Object) {
	c := r.c
	info := fn.Pkg.TypesInfo
	calls := callsTo(info, root, iocopy.Obj, false)
	if len(calls) != 1 {
		c.Undecidedf("R3.bounded", key+"/copy", root.Pos(), "expected one Iocopy call in the RDB copy, found %d", len(calls))
		return
	}
	call := calls[0]
	if cpt, in := flow.PointOf(g, call); in {
		var outer ast.Node
		if fn.Decl.Body != g.Body {
			outer = fn.Decl.Body
		}
		r.checkSame("R2.reader", key+"/copy-reader", call.Pos(), g, outer, cpt, call.Args[0], wantReader,
			"the RDB is copied from the buffered reader that was handed over: bytes already buffered there would otherwise be skipped")
	} else {
		c.Check("R2.reader", key+"/copy-reader", call.Pos(), flow.IsObj(info, wantReader)(call.Args[0]),
			"the RDB is copied from the buffered reader that was handed over: bytes already buffered there would otherwise be skipped")
	}
	path := core.PathTo(root, call)
	var loop *ast.ForStmt
	for _, n := range path {
		if fs, ok := n.(*ast.ForStmt); ok {
			loop = fs
		}
	}
	// peel looks through conversions and single-definition locals
	var stages []ast.Expr // the max argument and what it stands for, local by local
	peel := func(e ast.Expr) ast.Expr {
		for i := 0; i < 4; i++ {
			e = unconv(info, e)
			stages = append(stages, e)
			r := flow.Resolve(info, root, e)
			if r == e {
				break
			}
			e = r
		}
		return unconv(info, e)
	}
	maxArg := peel(call.Args[3])
	pbuf := flow.Obj(info, call.Args[2])
	if lc, ok := maxArg.(*ast.CallExpr); ok && flow.IsBuiltin(info, lc, "len") && pbuf != nil && flow.IsObj(info, pbuf)(lc.Args[0]) {
		c.Failf("R3.bounded", key+"/max-is-remaining", call.Pos(), "the RDB copy is bounded by the buffer size, not by the bytes still to copy: the last Read runs past the end of the RDB and the first command bytes end up in the RDB consumer / dump file")
		return
	}
	isCall := func(e ast.Expr) bool {
		return unconv(info, flow.ValueOf(info, root, unconv(info, e))) == ast.Expr(call)
	}
	// The remaining count M = max argument as a linear form (x; total - done; total - done.Get(); a local
	// holding one of these). The result of Iocopy must be taken off M: subtracted from a variable that
	// counts down in M, or added to a variable/counter that M subtracts.
	var goOn, stop, known func(cfgq.Fact) bool // facts that say "bytes remain" / "nothing remains"; facts that are understood
	var tracked []types.Object
	forms := []lin.Form{lin.Of(info, maxArg)}
	core.Inspect(maxArg, func(m ast.Node) bool {
		if id, ok := m.(*ast.Ident); ok {
			if v, isVar := core.ObjOf(info, id).(*types.Var); isVar {
				tracked = append(tracked, v)
			}
		}
		return true
	})
	// a single-assignment local that carries the count (`remaining := total - done.Get()`) is a name of the
	// same quantity: tests on it are tests on the count
	for _, st := range stages {
		if x, isVar := flow.Obj(info, st).(*types.Var); isVar && flow.Assignments(info, root, x) == 1 {
			f := lin.Of(info, st)
			dup := false
			for _, g := range forms {
				dup = dup || g.Equal(f)
			}
			if !dup {
				forms = append(forms, f)
				tracked = append(tracked, x)
			}
		}
	}
	// a max variable that is recomputed as total - done.Get() stands for that form as well
	if x := flow.Obj(info, maxArg); x != nil {
		defs, _ := defsOf(info, root, x)
		for _, d := range defs {
			f := lin.Of(info, d)
			if len(f.Coef) >= 2 {
				forms = append(forms, f)
				core.Inspect(d, func(m ast.Node) bool {
					if id, ok := m.(*ast.Ident); ok {
						if v, isVar := core.ObjOf(info, id).(*types.Var); isVar {
							tracked = append(tracked, v)
						}
					}
					return true
				})
			}
		}
	}
	coefOf := func(e ast.Expr) int64 { // the coefficient of atom e in one of the forms
		k := lin.Key(info, e)
		for _, f := range forms {
			if cv, ok := f.Coef[k]; ok {
				return cv
			}
		}
		return 0
	}
	accounted := false
	var counter ast.Expr // the variable / counter that absorbs the result
	core.Inspect(root, func(m ast.Node) bool {
		switch st := m.(type) {
		case *ast.AssignStmt:
			if len(st.Lhs) != 1 || len(st.Rhs) != 1 {
				return true
			}
			lh, rh := st.Lhs[0], ast.Unparen(st.Rhs[0])
			be, isBin := rh.(*ast.BinaryExpr)
			switch {
			case st.Tok == token.SUB_ASSIGN && isCall(rh) && coefOf(lh) == 1,
				st.Tok == token.ASSIGN && isBin && be.Op == token.SUB && pat.Same(info, be.X, lh) && isCall(be.Y) && coefOf(lh) == 1:
				accounted, counter = true, lh
			case st.Tok == token.ADD_ASSIGN && isCall(rh) && coefOf(lh) == -1,
				st.Tok == token.ASSIGN && isBin && be.Op == token.ADD && pat.Same(info, be.X, lh) && isCall(be.Y) && coefOf(lh) == -1:
				accounted, counter = true, lh
			}
		case *ast.CallExpr:
			if ab := pat.Expr("_done.Add(_v)").Match(info, st, nil); ab != nil && isCall(ab["_v"].(ast.Expr)) {
				get := &ast.CallExpr{Fun: &ast.SelectorExpr{X: ab["_done"].(ast.Expr), Sel: ast.NewIdent("Get")}}
				if coefOf(get) == -1 {
					accounted, counter = true, ab["_done"].(ast.Expr)
				}
			}
		}
		return true
	})
	if !accounted {
		c.Undecidedf("R3.bounded", key+"/max-is-remaining", call.Pos(), "cannot see the result of Iocopy being taken off its max argument %s", c.Src(call.Args[3]))
		return
	}
	c.Okf("R3.bounded", key+"/max-is-remaining", call.Pos(), "max is the remaining count and the result of Iocopy is taken off it (through %s)", c.Src(counter))
	what := c.Src(call.Args[3]) + " > 0"
	anyForm := func(test func(lin.Form) bool) bool {
		for _, f := range forms {
			if test(f) {
				return true
			}
		}
		return false
	}
	goOn = func(f cfgq.Fact) bool {
		return anyForm(func(m lin.Form) bool {
			return flow.LinIs(info, f, m, token.GTR, 0) || flow.LinIs(info, f, m, token.NEQ, 0)
		})
	}
	stop = func(f cfgq.Fact) bool {
		return anyForm(func(m lin.Form) bool {
			return flow.LinIs(info, f, m, token.LEQ, 0) || flow.LinIs(info, f, m, token.EQL, 0)
		})
	}
	known = func(f cfgq.Fact) bool {
		cmp, ok := lin.CmpOf(info, f.Expr, f.Val)
		if !ok || len(cmp.F.Coef) == 0 {
			return false
		}
		for a := range cmp.F.Coef {
			in := false
			for _, m := range forms {
				if _, has := m.Coef[a]; has {
					in = true
				}
			}
			if !in {
				return false
			}
		}
		return true
	}
	// the count starts at the announced size: M at loop entry
	r.startsAtForm(key, fn.Decl.Body, forms, counter, sizeParam, info, call.Pos())
	cp, inGraph := flow.PointOf(g, call)
	// the loop, on the graph: the nodes that lie on a cycle through the copy - whether a for statement, a
	// `goto` back to a label or any other spelling produced it
	inLoop := map[ast.Node]bool{}
	loopPos := call.Pos()
	if inGraph {
		cn := cp.Node()
		for _, b := range g.CFG.Blocks {
			for i, m := range b.Nodes {
				if m == cn {
					continue
				}
				mp := cfgq.Point{B: b, I: i}
				if g.Path(cfgq.Query{From: cp, After: true, Target: isNode(m)}) != nil && g.Path(cfgq.Query{From: mp, After: true, Target: isNode(cn)}) != nil {
					inLoop[m] = true
				}
			}
		}
		if g.Path(cfgq.Query{From: cp, After: true, Target: isNode(cn)}) != nil {
			inLoop[cn] = true
		}
	}
	if loop != nil {
		// a for statement around the copy: the innermost one is the loop (it may itself sit in an outer loop)
		loopPos = loop.Pos()
		inLoop = map[ast.Node]bool{}
		for _, b := range g.CFG.Blocks {
			for _, m := range b.Nodes {
				if flow.Contains(loop, m) {
					inLoop[m] = true
				}
			}
		}
	}
	if !inGraph || !inLoop[cp.Node()] {
		c.Undecidedf("R3.bounded", key+"/until-exhausted", call.Pos(), "the copy is not inside a loop of the analysed body")
		return
	}
	detail := fmt.Sprintf("a chunk is copied only while %s, and the loop is left only once nothing remains: stopping earlier leaves RDB bytes in front of the command stream (or truncates the dump)", what)
	opq := flow.Opaque(g, known, tracked...)
	vOn, w1 := flow.Guard(g, cp, goOn, opq)
	// leaving the loop: only through an edge that says nothing remains; an exit through a test of the
	// counters that is not understood is undecided, an exit through understood tests only is a violation
	leave := func(avoid func(*cfg.Block, int) bool) []string {
		return g.Path(cfgq.Query{From: cp, After: true, AvoidEdge: avoid, TargetExit: cfgq.NormalExit,
			Target: func(m ast.Node) bool { return !inLoop[m] }})
	}
	early := leave(func(b *cfg.Block, s int) bool {
		for _, f := range flow.EdgeFacts(g, b, s) {
			if stop(f) || opq(b, f) {
				return true
			}
		}
		return false
	})
	maybe := leave(flow.Establishes(g, stop))
	switch {
	case vOn == flow.Violated || early != nil:
		c.Check("R3.bounded", key+"/until-exhausted", loopPos, false, detail, append(w1, early...)...)
	case vOn == flow.Unknown || maybe != nil:
		c.Undecidedf("R3.bounded", key+"/until-exhausted", loopPos, "the loop tests its counters in a form that is not understood; required: %s", detail)
	default:
		c.Check("R3.bounded", key+"/until-exhausted", loopPos, true, detail)
	}
}

// startsAtForm: the remaining count equals the announced size when the copy starts. For a countdown
// variable that is its initial value; for total - done it is total, with done starting at 0.
func (r *rs) startsAtForm(key string, root ast.Node, forms []lin.Form, counter ast.Expr, sizeParam types.Object, info *types.Info, pos token.Pos) {
	c := r.c
	k := key + "/counts-announced-size"
	if sizeParam == nil {
		c.Undecidedf("R3.bounded", k, pos, "size parameter not resolved")
		return
	}
	sid := ast.NewIdent(sizeParam.Name())
	info.Uses[sid] = sizeParam
	want := lin.Of(info, sid)
	co := flow.Obj(info, counter)
	for _, m := range forms {
		cKey := lin.Key(info, counter)
		getKey := lin.Key(info, &ast.CallExpr{Fun: &ast.SelectorExpr{X: counter, Sel: ast.NewIdent("Get")}})
		switch {
		case len(m.Coef) == 1 && m.Coef[cKey] == 1 && co != nil:
			r.startsAt(key, root, co, sizeParam, info, pos) // a countdown variable
			return
		case len(m.Coef) == 2 && (m.Coef[cKey] == -1 || m.Coef[getKey] == -1):
			// total - done: take done out, what is left is the total
			total := lin.Form{Coef: map[string]int64{}, Const: m.Const}
			for a, v := range m.Coef {
				if a != cKey && a != getKey {
					total.Coef[a] = v
				}
			}
			zero := co != nil && startsAtZero(info, root, co) || co == nil && fieldStartsAtZero(info, root, counter)
			switch {
			case total.Equal(want) && zero:
				c.Okf("R3.bounded", k, pos, "the copy counts up to the announced size %s from 0", sizeParam.Name())
			case (lin.Form{Coef: total.Coef}).Equal(lin.Form{Coef: want.Coef}) && zero:
				c.Failf("R3.bounded", k, pos, "the copy counts %s%+d bytes, not the announced size: the hand-over to the command phase is off by that many bytes", sizeParam.Name(), total.Const-want.Const)
			default:
				c.Undecidedf("R3.bounded", k, pos, "cannot relate the total of the copy loop to the size parameter (progress counter starts at 0: %v)", zero)
			}
			return
		}
	}
	c.Undecidedf("R3.bounded", k, pos, "the remaining count is not a countdown variable or total - done")
}

// fieldStartsAtZero: the progress counter is a field of a struct local built once by a literal (or its
// address) that does not mention the field - it holds its zero value - and the field is never assigned.
func fieldStartsAtZero(info *types.Info, root ast.Node, counter ast.Expr) bool {
	sel, ok := ast.Unparen(counter).(*ast.SelectorExpr)
	if !ok {
		return false
	}
	base, isVar := flow.Obj(info, sel.X).(*types.Var)
	if !isVar || base.IsField() || flow.Assignments(info, root, base) != 1 {
		return false
	}
	zero, bad := false, false
	core.InspectAll(root, func(m ast.Node) bool {
		as, isAs := m.(*ast.AssignStmt)
		if !isAs {
			return true
		}
		for i, l := range as.Lhs {
			if ls, isSel := ast.Unparen(l).(*ast.SelectorExpr); isSel && flow.IsObj(info, base)(ls.X) && ls.Sel.Name == sel.Sel.Name {
				bad = true
			}
			if !flow.IsObj(info, base)(l) || len(as.Lhs) != len(as.Rhs) {
				continue
			}
			r := ast.Unparen(as.Rhs[i])
			if u, isAddr := r.(*ast.UnaryExpr); isAddr && u.Op == token.AND {
				r = ast.Unparen(u.X)
			}
			lit, isLit := r.(*ast.CompositeLit)
			if !isLit {
				bad = true
				continue
			}
			zero = true
			stt, _ := info.TypeOf(lit).Underlying().(*types.Struct)
			for j, el := range lit.Elts {
				if kv, keyed := el.(*ast.KeyValueExpr); keyed {
					if k, isKey := kv.Key.(*ast.Ident); isKey && k.Name == sel.Sel.Name {
						zero = isConst(info, kv.Value, 0)
					}
				} else if stt != nil && j < stt.NumFields() && stt.Field(j).Name() == sel.Sel.Name {
					zero = isConst(info, el, 0)
				}
			}
		}
		return true
	})
	return zero && !bad
}

// startsAtZero: the progress counter is declared without a value (atomic counter, zero int) or initialised with 0.
func startsAtZero(info *types.Info, root ast.Node, o types.Object) bool {
	ok := false
	bad := false
	core.InspectAll(root, func(m ast.Node) bool {
		switch st := m.(type) {
		case *ast.ValueSpec:
			for i, n := range st.Names {
				if info.Defs[n] == o {
					if len(st.Values) == 0 {
						ok = true
					} else if i < len(st.Values) {
						ok = isConst(info, st.Values[i], 0)
					}
				}
			}
		case *ast.AssignStmt:
			if st.Tok == token.DEFINE && len(st.Lhs) == len(st.Rhs) {
				for i, l := range st.Lhs {
					if id, isID := l.(*ast.Ident); isID && info.Defs[id] == o {
						if isConst(info, st.Rhs[i], 0) {
							ok = true
						} else {
							bad = true
						}
					}
				}
			}
		}
		return true
	})
	return ok && !bad
}

// startsAt: the counter x (countdown or total) is the announced size: the size parameter itself, or a
// local initialised from it (as a linear form, so int(size), size+0 ... are the same).
func (r *rs) startsAt(key string, root ast.Node, x, sizeParam types.Object, info *types.Info, pos token.Pos) {
	c := r.c
	k := key + "/counts-announced-size"
	if sizeParam == nil {
		c.Undecidedf("R3.bounded", k, pos, "size parameter not resolved")
		return
	}
	if x == sizeParam {
		c.Okf("R3.bounded", k, pos, "the copy counts the announced size %s itself", x.Name())
		return
	}
	sid := ast.NewIdent(sizeParam.Name())
	info.Uses[sid] = sizeParam
	want := lin.Of(info, sid)
	var inits []ast.Expr
	core.InspectAll(root, func(m ast.Node) bool {
		switch s := m.(type) {
		case *ast.AssignStmt:
			if len(s.Lhs) == len(s.Rhs) && (s.Tok == token.DEFINE || s.Tok == token.ASSIGN) {
				for i, l := range s.Lhs {
					if flow.IsObj(info, x)(l) {
						// x = x - moved is the countdown step, not an initialisation
						if be, ok := ast.Unparen(s.Rhs[i]).(*ast.BinaryExpr); ok && be.Op == token.SUB && flow.IsObj(info, x)(be.X) {
							continue
						}
						inits = append(inits, s.Rhs[i])
					}
				}
			}
		case *ast.ValueSpec:
			for i, n := range s.Names {
				if info.Defs[n] == x && i < len(s.Values) {
					inits = append(inits, s.Values[i])
				}
			}
		}
		return true
	})
	if len(inits) != 1 {
		c.Undecidedf("R3.bounded", k, pos, "the counter %s has %d initialisations", x.Name(), len(inits))
		return
	}
	got := lin.Of(info, inits[0])
	switch {
	case got.Equal(want):
		c.Okf("R3.bounded", k, pos, "%s starts at the announced size %s", x.Name(), sizeParam.Name())
	case (lin.Form{Coef: got.Coef}).Equal(lin.Form{Coef: want.Coef}):
		c.Failf("R3.bounded", k, pos, "the copy counts %s = %s%+d bytes, not the announced size: it hands over to the command phase %d byte(s) off, so RDB bytes reach the command parser or command bytes reach the RDB consumer", x.Name(), sizeParam.Name(), got.Const-want.Const, got.Const-want.Const)
	default:
		c.Undecidedf("R3.bounded", k, pos, "the counter %s starts at %s, which is not the size parameter", x.Name(), c.Src(inits[0]))
	}
}

// ---------------------------------------------------------------------------
// R6: pSyncPipeCopy

func (r *rs) pipeCopy() {
	c := r.c
	fn := r.fn(pkgS, "DbSyncer", "pSyncPipeCopy")
	if fn == nil {
		return
	}
	info := fn.Pkg.TypesInfo
	g := flow.GraphOf(c.Program, fn)
	_, br := param(fn, 1)
	_, dst := param(fn, 3)
	reads := flow.FindCalls(fn.Decl.Body, func(call *ast.CallExpr) bool {
		return flow.MethodOn(call, "Read", flow.IsObj(info, br)) && len(call.Args) == 1
	})
	writes := flow.FindCalls(fn.Decl.Body, func(call *ast.CallExpr) bool {
		return flow.MethodOn(call, "Write", flow.IsObj(info, dst)) && len(call.Args) == 1
	})
	if len(reads) != 1 || len(writes) != 1 {
		c.Undecidedf("R6.copy", "pSyncPipeCopy/shape", fn.Decl.Pos(), "expected one br.Read and one copyto.Write, found %d and %d", len(reads), len(writes))
		return
	}
	rd, wr := reads[0], writes[0]
	n := assignedVar(info, fn.Decl.Body, rd, 0)
	// the buffer: a variable, or a field of a struct local that is built once and whose field is never
	// assigned afterwards (`pc.buf`) - then the same expression denotes the same buffer everywhere
	isBuf := func(ast.Expr) bool { return false }
	if bo := flow.Obj(info, rd.Args[0]); bo != nil {
		isBuf = flow.IsObj(info, bo)
	} else if sel, ok := ast.Unparen(rd.Args[0]).(*ast.SelectorExpr); ok {
		if base, isVar := flow.Obj(info, sel.X).(*types.Var); isVar && !base.IsField() && flow.Assignments(info, fn.Decl.Body, base) == 1 {
			written := false
			core.InspectAll(fn.Decl.Body, func(m ast.Node) bool {
				if as, isAs := m.(*ast.AssignStmt); isAs {
					for _, l := range as.Lhs {
						if ls, isSel := ast.Unparen(l).(*ast.SelectorExpr); isSel && flow.IsObj(info, base)(ls.X) && ls.Sel.Name == sel.Sel.Name {
							written = true
						}
					}
				}
				return !written
			})
			if !written {
				isBuf = func(e ast.Expr) bool {
					es, ok := ast.Unparen(e).(*ast.SelectorExpr)
					return ok && flow.IsObj(info, base)(es.X) && es.Sel.Name == sel.Sel.Name
				}
			}
		}
	}
	if n == nil || !isBuf(rd.Args[0]) {
		c.Undecidedf("R6.copy", "pSyncPipeCopy/shape", rd.Pos(), "the byte count of Read is not bound to a variable, or the buffer is not a plain variable")
		return
	}
	// written slice
	arg := ast.Unparen(flow.Resolve(info, fn.Decl.Body, wr.Args[0]))
	switch {
	case prefixOf(info, arg, isBuf, flow.IsObj(info, n)):
		c.Okf("R6.copy", "pSyncPipeCopy/write-prefix", wr.Pos(), "writes p[:n]")
	case isBuf(arg):
		c.Failf("R6.copy", "pSyncPipeCopy/write-prefix", wr.Pos(), "the whole buffer is written instead of the n bytes read: stale bytes of earlier reads are injected into the command stream")
	default:
		c.Undecidedf("R6.copy", "pSyncPipeCopy/write-prefix", wr.Pos(), "Write argument %s not recognised", c.Src(arg))
	}
	// Path-sensitive walk of the copy loop. Per path it is known whether the last read and the last write
	// reported an error (whatever variables carry the two errors - one shared variable included), what
	// has happened since the last read, and what amount is counted.
	readN, readErr := fmt.Sprintf("call%p#0", rd), fmt.Sprintf("call%p#1", rd)
	writeN, writeErr := fmt.Sprintf("call%p#0", wr), fmt.Sprintf("call%p#1", wr)
	type verdict struct {
		bad, blind int
		pos        token.Pos
	}
	v := map[string]*verdict{"write-after-good-read": {}, "count-after-write": {}, "count-only-on-success": {}, "every-write-counted": {}, "every-read-written": {}}
	adds, otherAdds := 0, 0
	errState := func(w *flow.Sym, st *flow.SState, tok string) flow.SKind {
		k := flow.SUnknown
		held := false
		for _, val := range st.Env {
			if val.Tok == tok {
				held, k = true, val.Kind
			}
		}
		if !held {
			return -1 // the error is not kept in any variable
		}
		return k
	}
	flag := func(st *flow.SState, name string) bool { return st.Marks[name].B }
	set := func(st *flow.SState, name string, b bool) { st.Marks[name] = flow.SVal{Kind: flow.SBool, B: b} }
	w := &flow.Sym{G: g}
	w.Visit = func(m ast.Node, st *flow.SState) bool {
		for _, call := range cfgq.ExecCalls(m) {
			switch {
			case call == rd:
				if flag(st, "wrote") && !flag(st, "counted") {
					v["every-write-counted"].bad++
					v["every-write-counted"].pos = wr.Pos()
				}
				if flag(st, "read") && !flag(st, "wrote") {
					v["every-read-written"].bad++
					v["every-read-written"].pos = rd.Pos()
				}
				set(st, "read", true)
				set(st, "wrote", false)
				set(st, "counted", false)
			case call == wr:
				x := v["write-after-good-read"]
				x.pos = wr.Pos()
				switch k := errState(w, st, readErr); {
				case !flag(st, "read") || k == flow.SNonNil || k == -1:
					x.bad++
				case k != flow.SNil:
					x.blind++
				}
				set(st, "wrote", true)
			default:
				// an increment of a counter, however it is spelled: c.Add(v), c.Set(c.Get() + v)
				var amount ast.Expr
				if b := pat.Expr("_c.Add(_v)").Match(info, call, nil); b != nil {
					amount = b["_v"].(ast.Expr)
				} else if b := pat.Expr("_c.Set(_c.Get() + _v)").Match(info, call, nil); b != nil {
					amount = b["_v"].(ast.Expr)
				}
				if amount == nil || !flag(st, "read") {
					continue
				}
				am := w.Eval(amount, st)
				lenOfWritten := false
				if lc, ok := unconv(info, flow.Resolve(info, fn.Decl.Body, unconv(info, amount))).(*ast.CallExpr); ok && flow.IsBuiltin(info, lc, "len") && len(lc.Args) == 1 {
					e := ast.Unparen(lc.Args[0])
					lenOfWritten = pat.Same(info, e, ast.Unparen(wr.Args[0])) || prefixOf(info, ast.Unparen(flow.Resolve(info, fn.Decl.Body, e)), isBuf, flow.IsObj(info, n))
				}
				if am.Tok != readN && am.Tok != writeN && !lenOfWritten {
					otherAdds++
					continue
				}
				adds++
				x, y := v["count-after-write"], v["count-only-on-success"]
				x.pos, y.pos = call.Pos(), call.Pos()
				if !flag(st, "wrote") {
					x.bad++
				} else {
					switch k := errState(w, st, writeErr); {
					case k == flow.SNonNil || k == -1:
						y.bad++
					case k != flow.SNil:
						y.blind++
					}
				}
				set(st, "counted", true)
			}
		}
		return false
	}
	w.Run(nil)
	if adds == 0 {
		c.Undecidedf("R6.copy", "pSyncPipeCopy/count", fn.Decl.Pos(), "no counter.Add of the bytes read or written found (%d other Add calls)", otherAdds)
		return
	}
	details := map[string]string{
		"write-after-good-read": "a write happens only after a read that returned no error",
		"count-after-write":     "n is counted only after the n bytes were written: counting first advances the acknowledged offset past bytes that a failing write never delivered",
		"count-only-on-success": "n is counted only when the write reported no error: otherwise the offset used for the reconnect skips bytes that were never forwarded (lost)",
		"every-write-counted":   "every successful write is counted before the next read: uncounted bytes are requested again after a reconnect (duplicated)",
		"every-read-written":    "every successful read is written before the next read: otherwise the bytes of that read are dropped",
	}
	for _, k := range []string{"write-after-good-read", "count-after-write", "count-only-on-success", "every-write-counted", "every-read-written"} {
		x := v[k]
		pos := x.pos
		if pos == token.NoPos {
			pos = wr.Pos()
		}
		switch {
		case x.bad > 0:
			c.Check("R6.copy", "pSyncPipeCopy/"+k, pos, false, details[k])
		case x.blind > 0 || w.Overflow:
			c.Undecidedf("R6.copy", "pSyncPipeCopy/"+k, pos, "an error value is tested in a form that is not understood; required: %s", details[k])
		default:
			c.Check("R6.copy", "pSyncPipeCopy/"+k, pos, true, details[k])
		}
	}
}

// ---------------------------------------------------------------------------
// dump mode and Sync: one reader, RDB loop bounded and flushed

func (r *rs) dumpSide() {
	c := r.c
	dump, sendCmd, rdbFile := r.fn(pkgR, "dbDumper", "dump"), r.fn(pkgR, "dbDumper", "sendCmd"), r.fn(pkgR, "dbDumper", "dumpRDBFile")
	ioc, flush := r.fn(pkgU, "", "Iocopy"), r.fn(pkgU, "", "FlushWriter")
	if dump == nil || sendCmd == nil || rdbFile == nil || ioc == nil || flush == nil {
		return
	}
	info := dump.Pkg.TypesInfo
	sc := callsTo(info, dump.Decl.Body, sendCmd.Obj, false)
	df := callsTo(info, dump.Decl.Body, rdbFile.Obj, false)
	var nrs []*ast.CallExpr
	if len(df) == 1 {
		nrs = readersLike(info, dump.Decl.Body, newReaders(info, dump.Decl.Body, true), flow.Obj(info, df[0].Args[0]))
	}
	if len(nrs) == 0 || len(sc) != 1 || len(df) != 1 {
		c.Undecidedf("R2.reader", "dump/shape", dump.Decl.Pos(), "expected sendCmd, one buffered reader and dumpRDBFile in dump")
		return
	}
	master, size := assignedVar(info, dump.Decl.Body, sc[0], 0), assignedVar(info, dump.Decl.Body, sc[0], 1)
	rdv := assignedVar(info, dump.Decl.Body, nrs[0], 0)
	c.Check("R2.reader", "dump/one-reader", nrs[0].Pos(), len(nrs) == 1, fmt.Sprintf("exactly one buffered reader over the source connection (found %d): the bytes after the RDB sit in that reader's buffer and are the start of the command phase", len(nrs)))
	if master == nil || rdv == nil || size == nil || flow.Assignments(info, dump.Decl.Body, rdv) != 1 {
		c.Undecidedf("R2.reader", "dump/reader-var", nrs[0].Pos(), "connection, size or reader not bound to single-assignment variables")
		return
	}
	c.Check("R2.reader", "dump/reader-over-conn", nrs[0].Pos(), flow.IsObj(info, master)(nrs[0].Args[0]), "the reader wraps the connection returned by sendCmd, i.e. it is created only after the '$n' header was consumed byte by byte")
	c.Check("R2.reader", "dump/copy-reader", df[0].Pos(), flow.IsObj(info, rdv)(df[0].Args[0]), "the RDB is dumped through that reader")
	c.Check("R3.bounded", "dump/size-passed", df[0].Pos(), flow.IsObj(info, size)(df[0].Args[2]), "the size announced by the source bounds the dump")
	nret := 0
	core.Inspect(dump.Decl.Body, func(m ast.Node) bool {
		if ret, ok := m.(*ast.ReturnStmt); ok && len(ret.Results) == 3 {
			nret++
			c.Check("R2.reader", "dump/returns-reader", ret.Pos(), flow.IsObj(info, rdv)(ret.Results[0]), "the command phase continues on the same reader: a fresh reader would miss the bytes buffered behind the RDB")
		}
		return true
	})
	if nret == 0 {
		c.Undecidedf("R2.reader", "dump/returns-reader", dump.Decl.Pos(), "no 3-result return in dump")
	}
	// the copy loop lives in a goroutine literal of dumpRDBFile
	_, rparam := param(rdbFile, 0)
	_, sparam := param(rdbFile, 2)
	wid, _ := param(rdbFile, 1)
	var lit *ast.FuncLit
	for _, fl := range core.FuncLits(rdbFile.Decl.Body) {
		if len(callsTo(info, fl, ioc.Obj, false)) > 0 {
			lit = fl
		}
	}
	if lit == nil {
		c.Undecidedf("R3.bounded", "dumpRDBFile/copy", rdbFile.Decl.Pos(), "cannot find the goroutine that calls Iocopy")
		return
	}
	g := flow.GraphOfLit(c.Program, info, lit)
	r.boundedCaller("dumpRDBFile", rdbFile, g, lit, ioc, rparam, sparam)
	call := callsTo(info, lit, ioc.Obj, false)[0]
	if !pat.Same(info, call.Args[1], wid) {
		c.Undecidedf("R3.bounded", "dumpRDBFile/flush", call.Pos(), "the copy does not write to the writer parameter")
		return
	}
	cp, _ := flow.PointOf(g, call)
	isFlush := flow.CallOn(g, func(fc *ast.CallExpr) bool {
		return core.CalleeFunc(info, fc) == flush.Obj && pat.Same(info, fc.Args[0], wid) || pat.Expr("_w.Flush()").Match(info, fc, pat.Binds{"_w": wid}) != nil
	})
	w := g.Path(cfgq.Query{From: cp, After: true, Avoid: isFlush, TargetExit: cfgq.NormalExit})
	c.Check("R3.bounded", "dumpRDBFile/flush", call.Pos(), w == nil, "every copied chunk is flushed before the goroutine ends: otherwise the tail of the RDB stays in the buffered writer and the dump file is shorter than the n announced bytes", w...)
}
