// R3 (bounded copy) and R6 (stream copy): Iocopy, its RDB callers, pSyncPipeCopy, the dump loop.
package c05

import (
	"fmt"
	"go/ast"
	"go/token"
	"go/types"

	"golang.org/x/tools/go/cfg"

	"rscheck/cfgq"
	"rscheck/core"
	"rscheck/lin"
	"rscheck/pat"
	"rscheck/rules/c10/flow"
)

// ---------------------------------------------------------------------------
// R3: Iocopy and its bounded callers

func (r *rs) iocopy() {
	c := r.c
	fn := r.fn(pkgU, "", "Iocopy")
	if fn == nil {
		return
	}
	info := fn.Pkg.TypesInfo
	g := cfgq.Of(c.Program, fn)
	_, rd := param(fn, 0)
	_, wr := param(fn, 1)
	pid, p := param(fn, 2)
	mid, mx := param(fn, 3)
	isP, isMax := flow.IsObj(info, p), flow.IsObj(info, mx)
	reads := flow.FindCalls(fn.Decl.Body, func(call *ast.CallExpr) bool {
		return flow.MethodOn(call, "Read", flow.IsObj(info, rd)) && len(call.Args) == 1
	})
	writes := flow.FindCalls(fn.Decl.Body, func(call *ast.CallExpr) bool {
		return flow.MethodOn(call, "Write", flow.IsObj(info, wr)) && len(call.Args) == 1
	})
	if len(reads) != 1 || len(writes) != 1 || p == nil || mx == nil {
		c.Undecidedf("R3.bounded", "Iocopy/shape", fn.Decl.Pos(), "expected one r.Read and one w.Write, found %d and %d", len(reads), len(writes))
		return
	}
	_, _ = pid, mid
	rp, _ := flow.PointOf(g, reads[0])
	wp, _ := flow.PointOf(g, writes[0])
	// (a) the read is bounded by max
	clamp := func(m ast.Node) bool { return reslice(info, m, isP, isMax) }
	small := flow.Establishes(g, func(f cfgq.Fact) bool {
		x, y, op, ok := flow.Rel(f)
		if !ok {
			return false
		}
		lenP := func(e ast.Expr) bool {
			call, ok := ast.Unparen(e).(*ast.CallExpr)
			return ok && flow.IsBuiltin(info, call, "len") && isP(call.Args[0])
		}
		return lenP(x) && isMax(y) && (op == token.LEQ || op == token.LSS || op == token.EQL) || isMax(x) && lenP(y) && (op == token.GEQ || op == token.GTR || op == token.EQL)
	})
	unknownCut := false
	core.Inspect(fn.Decl.Body, func(m ast.Node) bool {
		if as, ok := m.(*ast.AssignStmt); ok && assignsTo(info, p)(as) && !clamp(as) && !reslice(info, as, isP, func(ast.Expr) bool { return true }) {
			unknownCut = true
		}
		return true
	})
	if unknownCut {
		c.Undecidedf("R3.bounded", "Iocopy/buffer-assignments", fn.Decl.Pos(), "the buffer parameter is re-assigned in a form other than p = p[:k]")
		return
	}
	switch arg := ast.Unparen(reads[0].Args[0]); {
	case isP(arg):
		w := g.Path(cfgq.Query{From: g.Entry(), Avoid: clamp, AvoidEdge: small, Target: isNode(rp.Node())})
		c.Check("R3.bounded", "Iocopy/read-at-most-max", reads[0].Pos(), w == nil,
			"the buffer handed to Read must hold at most max bytes on every path (len(p) <= max tested, or p = p[:max]): otherwise one Read takes bytes beyond the end of the RDB, which are written to the RDB consumer / dump file and are missing from the command stream", w...)
	case prefixOf(info, arg, isP, isMax):
		c.Okf("R3.bounded", "Iocopy/read-at-most-max", reads[0].Pos(), "reads into p[:max]")
	default:
		c.Undecidedf("R3.bounded", "Iocopy/read-at-most-max", reads[0].Pos(), "Read argument %s not recognised", c.Src(arg))
	}
	// (b) exactly the prefix read is written
	n := assignedVar(info, fn.Decl.Body, reads[0], 0)
	if n == nil {
		c.Undecidedf("R3.bounded", "Iocopy/write-prefix", reads[0].Pos(), "the byte count returned by Read is not bound to a variable")
		return
	}
	trunc := func(m ast.Node) bool { return reslice(info, m, isP, flow.IsObj(info, n)) }
	isPrefix := func(e ast.Expr) bool { return prefixOf(info, e, isP, flow.IsObj(info, n)) }
	okDom, wd := g.Dominated(wp, isNode(rp.Node()))
	c.Check("R3.bounded", "Iocopy/read-before-write", writes[0].Pos(), okDom, "the write must follow the read", wd...)
	if flow.Assignments(info, fn.Decl.Body, n) != 1 {
		c.Undecidedf("R3.bounded", "Iocopy/write-prefix", reads[0].Pos(), "the byte count variable is assigned more than once")
		return
	}
	// the buffer is only ever re-sliced from its start (checked above) and n is assigned once, so a local
	// defined as p[:n] denotes the bytes just read wherever it is used
	local := func(e ast.Expr) ast.Expr { return ast.Unparen(flow.ValueOf(info, fn.Decl.Body, ast.Unparen(e))) }
	switch arg := local(writes[0].Args[0]); {
	case isP(arg):
		w := g.Path(cfgq.Query{From: rp, After: true, Avoid: trunc, Target: isNode(wp.Node())})
		c.Check("R3.bounded", "Iocopy/write-prefix", writes[0].Pos(), w == nil, "between Read and Write the buffer must be cut to the n bytes read (p = p[:n]): otherwise stale buffer bytes are written after the fresh ones", w...)
	case isPrefix(arg):
		c.Okf("R3.bounded", "Iocopy/write-prefix", writes[0].Pos(), "writes p[:n]")
	default:
		c.Undecidedf("R3.bounded", "Iocopy/write-prefix", writes[0].Pos(), "Write argument %s not recognised", c.Src(arg))
	}
	// (c) the result is the number of bytes moved
	nret := 0
	for _, pt := range g.Points(func(m ast.Node) bool { _, ok := m.(*ast.ReturnStmt); return ok }) {
		ret := pt.Node().(*ast.ReturnStmt)
		nret++
		res := unconv(info, local(unconv(info, ret.Results[0])))
		call, isCall := res.(*ast.CallExpr)
		isLen := isCall && flow.IsBuiltin(info, call, "len")
		switch {
		case flow.IsObj(info, n)(res):
			c.Okf("R3.bounded", "Iocopy/returns-count", ret.Pos(), "returns n")
		case isLen && isPrefix(local(call.Args[0])):
			c.Okf("R3.bounded", "Iocopy/returns-count", ret.Pos(), "returns len(p[:n])")
		case isLen && isP(call.Args[0]):
			w := g.Path(cfgq.Query{From: rp, After: true, Avoid: trunc, Target: isNode(ret)})
			c.Check("R3.bounded", "Iocopy/returns-count", ret.Pos(), w == nil, "len(p) is the number of bytes moved only after p = p[:n]: a larger result makes the caller's countdown end before the RDB does", w...)
		default:
			c.Undecidedf("R3.bounded", "Iocopy/returns-count", ret.Pos(), "result %s not recognised", c.Src(ret.Results[0]))
		}
		okW, ww := g.Dominated(pt, isNode(wp.Node()))
		c.Check("R3.bounded", "Iocopy/write-before-return", ret.Pos(), okW, "the bytes counted in the result must have been written", ww...)
	}
	if nret == 0 {
		c.Undecidedf("R3.bounded", "Iocopy/returns-count", fn.Decl.Pos(), "no return statement")
	}
}

// remaining checks one RDB copy loop: Iocopy(..., max) with max the remaining count.
func (r *rs) boundedCaller(key string, fn *core.Fn, g *cfgq.Graph, root ast.Node, iocopy *core.Fn, wantReader, sizeParam types.Object) {
	c := r.c
	info := fn.Pkg.TypesInfo
	calls := callsTo(info, root, iocopy.Obj, false)
	if len(calls) != 1 {
		c.Undecidedf("R3.bounded", key+"/copy", root.Pos(), "expected one Iocopy call in the RDB copy, found %d", len(calls))
		return
	}
	call := calls[0]
	c.Check("R2.reader", key+"/copy-reader", call.Pos(), flow.IsObj(info, wantReader)(call.Args[0]),
		"the RDB is copied from the buffered reader that was handed over: bytes already buffered there would otherwise be skipped")
	path := core.PathTo(root, call)
	var loop *ast.ForStmt
	for _, n := range path {
		if fs, ok := n.(*ast.ForStmt); ok {
			loop = fs
		}
	}
	// peel looks through conversions and single-definition locals
	peel := func(e ast.Expr) ast.Expr {
		for i := 0; i < 4; i++ {
			e = unconv(info, e)
			r := flow.Resolve(info, root, e)
			if r == e {
				break
			}
			e = r
		}
		return unconv(info, e)
	}
	maxArg := peel(call.Args[3])
	pbuf := flow.Obj(info, call.Args[2])
	if lc, ok := maxArg.(*ast.CallExpr); ok && flow.IsBuiltin(info, lc, "len") && pbuf != nil && flow.IsObj(info, pbuf)(lc.Args[0]) {
		c.Failf("R3.bounded", key+"/max-is-remaining", call.Pos(), "the RDB copy is bounded by the buffer size, not by the bytes still to copy: the last Read runs past the end of the RDB and the first command bytes end up in the RDB consumer / dump file")
		return
	}
	isCall := func(e ast.Expr) bool {
		return unconv(info, flow.ValueOf(info, root, unconv(info, e))) == ast.Expr(call)
	}
	var goOn, stop, known func(cfgq.Fact) bool // facts that say "bytes remain" / "nothing remains"; facts that are understood
	var tracked []types.Object
	what := ""
	if x := flow.Obj(info, maxArg); x != nil {
		// form A: x -= Iocopy(.., x) while x != 0
		sub := false
		core.Inspect(root, func(m ast.Node) bool {
			if as, ok := m.(*ast.AssignStmt); ok && len(as.Lhs) == 1 && len(as.Rhs) == 1 && flow.IsObj(info, x)(as.Lhs[0]) {
				if as.Tok == token.SUB_ASSIGN && isCall(as.Rhs[0]) {
					sub = true
				}
				if be, ok := ast.Unparen(as.Rhs[0]).(*ast.BinaryExpr); ok && as.Tok == token.ASSIGN && be.Op == token.SUB && flow.IsObj(info, x)(be.X) && isCall(be.Y) {
					sub = true
				}
			}
			return true
		})
		if !sub {
			c.Undecidedf("R3.bounded", key+"/max-is-remaining", call.Pos(), "the result of Iocopy is not subtracted from its max argument %s", x.Name())
			return
		}
		c.Okf("R3.bounded", key+"/max-is-remaining", call.Pos(), "max is the remaining count %s and the result is subtracted from it", x.Name())
		// the countdown starts at the announced size
		r.startsAt(key, root, x, sizeParam, info, call.Pos())
		isX := flow.IsObj(info, x)
		what = x.Name() + " != 0"
		tracked = []types.Object{x}
		known = func(f cfgq.Fact) bool { _, _, ok := flow.Cmp(info, f, isX); return ok }
		goOn = func(f cfgq.Fact) bool { return nonZero(info, f, isX) }
		stop = func(f cfgq.Fact) bool {
			op, k, ok := flow.Cmp(info, f, isX)
			return ok && (op == token.EQL && k == 0 || op == token.LEQ && k == 0 || op == token.LSS && k == 1)
		}
	} else {
		// form B: max = total - done.Get(); done.Add(Iocopy(..)) while total != done.Get()
		b := pat.Expr("_total - _done.Get()").Match(info, maxArg, nil)
		if b == nil {
			c.Undecidedf("R3.bounded", key+"/max-is-remaining", call.Pos(), "max argument %s is neither the remaining counter nor total - done.Get()", c.Src(call.Args[3]))
			return
		}
		added := false
		core.Inspect(root, func(m ast.Node) bool {
			if ac, ok := m.(*ast.CallExpr); ok {
				if ab := pat.Expr("_done.Add(_v)").Match(info, ac, pat.Binds{"_done": b["_done"]}); ab != nil && isCall(ab["_v"].(ast.Expr)) {
					added = true
				}
			}
			return true
		})
		if !added {
			c.Undecidedf("R3.bounded", key+"/max-is-remaining", call.Pos(), "the result of Iocopy is not added to the progress counter %s", c.Src(b["_done"]))
			return
		}
		c.Okf("R3.bounded", key+"/max-is-remaining", call.Pos(), "max is total - done and the result is added to done")
		if to := flow.Obj(info, b["_total"]); to != nil {
			r.startsAt(key, root, to, sizeParam, info, call.Pos())
		} else if sizeParam != nil {
			sid := ast.NewIdent(sizeParam.Name())
			info.Uses[sid] = sizeParam
			want, got := lin.Of(info, sid), lin.Of(info, b["_total"].(ast.Expr))
			k := key + "/counts-announced-size"
			switch {
			case got.Equal(want):
				c.Okf("R3.bounded", k, call.Pos(), "the total is the announced size")
			case (lin.Form{Coef: got.Coef}).Equal(lin.Form{Coef: want.Coef}):
				c.Failf("R3.bounded", k, call.Pos(), "the copy counts %s%+d bytes, not the announced size: the dump is cut short or runs into the command stream by that many bytes", sizeParam.Name(), got.Const-want.Const)
			default:
				c.Undecidedf("R3.bounded", k, call.Pos(), "the total %s is not the size parameter", c.Src(b["_total"]))
			}
		} else {
			c.Undecidedf("R3.bounded", key+"/counts-announced-size", call.Pos(), "size parameter not resolved")
		}
		isTotal := func(e ast.Expr) bool { return pat.Same(info, e, b["_total"]) }
		isDone := func(e ast.Expr) bool {
			return pat.Expr("_done.Get()").Match(info, e, pat.Binds{"_done": b["_done"]}) != nil
		}
		// a local that holds total - done.Get()
		isRem := func(e ast.Expr) bool {
			_, isID := ast.Unparen(e).(*ast.Ident)
			return isID && pat.Expr("_total - _done.Get()").Match(info, peel(e), b) != nil
		}
		rel := func(f cfgq.Fact) (token.Token, bool) { // relation "total op done"
			x, y, op, ok := flow.Rel(f)
			switch {
			case ok && isTotal(x) && isDone(y):
				return op, true
			case ok && isDone(x) && isTotal(y):
				return map[token.Token]token.Token{token.EQL: token.EQL, token.NEQ: token.NEQ, token.LSS: token.GTR, token.GTR: token.LSS, token.LEQ: token.GEQ, token.GEQ: token.LEQ}[op], true
			}
			return 0, false
		}
		what = "done != total"
		tracked = []types.Object{flow.Obj(info, b["_total"]), flow.Obj(info, b["_done"])}
		known = func(f cfgq.Fact) bool {
			_, ok1 := rel(f)
			_, _, ok2 := flow.Cmp(info, f, isRem)
			return ok1 || ok2
		}
		goOn = func(f cfgq.Fact) bool {
			op, ok := rel(f)
			return ok && (op == token.NEQ || op == token.GTR) || nonZero(info, f, isRem)
		}
		stop = func(f cfgq.Fact) bool {
			if op, ok := rel(f); ok && (op == token.EQL || op == token.LEQ) {
				return true
			}
			op, k, ok := flow.Cmp(info, f, isRem)
			return ok && (op == token.EQL && k == 0 || op == token.LEQ && k == 0 || op == token.LSS && k == 1)
		}
	}
	cp, inGraph := flow.PointOf(g, call)
	if loop == nil || !inGraph {
		c.Undecidedf("R3.bounded", key+"/until-exhausted", call.Pos(), "the copy is not inside a for loop of the analysed body")
		return
	}
	detail := fmt.Sprintf("a chunk is copied only while %s, and the loop is left only once nothing remains: stopping earlier leaves RDB bytes in front of the command stream (or truncates the dump)", what)
	opq := flow.Opaque(g, known, tracked...)
	vOn, w1 := flow.Guard(g, cp, goOn, opq)
	// leaving the loop: only through an edge that says nothing remains; an exit through a test of the
	// counters that is not understood is undecided, an exit through understood tests only is a violation
	leave := func(avoid func(*cfg.Block, int) bool) []string {
		return g.Path(cfgq.Query{From: cp, After: true, AvoidEdge: avoid, TargetExit: cfgq.NormalExit,
			Target: func(m ast.Node) bool { return !flow.Contains(loop, m) }})
	}
	early := leave(func(b *cfg.Block, s int) bool {
		for _, f := range flow.EdgeFacts(g, b, s) {
			if stop(f) || opq(b, f) {
				return true
			}
		}
		return false
	})
	maybe := leave(flow.Establishes(g, stop))
	switch {
	case vOn == flow.Violated || early != nil:
		c.Check("R3.bounded", key+"/until-exhausted", loop.Pos(), false, detail, append(w1, early...)...)
	case vOn == flow.Unknown || maybe != nil:
		c.Undecidedf("R3.bounded", key+"/until-exhausted", loop.Pos(), "the loop tests its counters in a form that is not understood; required: %s", detail)
	default:
		c.Check("R3.bounded", key+"/until-exhausted", loop.Pos(), true, detail)
	}
}

// startsAt: the counter x (countdown or total) is the announced size: the size parameter itself, or a
// local initialised from it (as a linear form, so int(size), size+0 ... are the same).
func (r *rs) startsAt(key string, root ast.Node, x, sizeParam types.Object, info *types.Info, pos token.Pos) {
	c := r.c
	k := key + "/counts-announced-size"
	if sizeParam == nil {
		c.Undecidedf("R3.bounded", k, pos, "size parameter not resolved")
		return
	}
	if x == sizeParam {
		c.Okf("R3.bounded", k, pos, "the copy counts the announced size %s itself", x.Name())
		return
	}
	sid := ast.NewIdent(sizeParam.Name())
	info.Uses[sid] = sizeParam
	want := lin.Of(info, sid)
	var inits []ast.Expr
	core.InspectAll(root, func(m ast.Node) bool {
		switch s := m.(type) {
		case *ast.AssignStmt:
			if len(s.Lhs) == len(s.Rhs) && (s.Tok == token.DEFINE || s.Tok == token.ASSIGN) {
				for i, l := range s.Lhs {
					if flow.IsObj(info, x)(l) {
						// x = x - moved is the countdown step, not an initialisation
						if be, ok := ast.Unparen(s.Rhs[i]).(*ast.BinaryExpr); ok && be.Op == token.SUB && flow.IsObj(info, x)(be.X) {
							continue
						}
						inits = append(inits, s.Rhs[i])
					}
				}
			}
		case *ast.ValueSpec:
			for i, n := range s.Names {
				if info.Defs[n] == x && i < len(s.Values) {
					inits = append(inits, s.Values[i])
				}
			}
		}
		return true
	})
	if len(inits) != 1 {
		c.Undecidedf("R3.bounded", k, pos, "the counter %s has %d initialisations", x.Name(), len(inits))
		return
	}
	got := lin.Of(info, inits[0])
	switch {
	case got.Equal(want):
		c.Okf("R3.bounded", k, pos, "%s starts at the announced size %s", x.Name(), sizeParam.Name())
	case (lin.Form{Coef: got.Coef}).Equal(lin.Form{Coef: want.Coef}):
		c.Failf("R3.bounded", k, pos, "the copy counts %s = %s%+d bytes, not the announced size: it hands over to the command phase %d byte(s) off, so RDB bytes reach the command parser or command bytes reach the RDB consumer", x.Name(), sizeParam.Name(), got.Const-want.Const, got.Const-want.Const)
	default:
		c.Undecidedf("R3.bounded", k, pos, "the counter %s starts at %s, which is not the size parameter", x.Name(), c.Src(inits[0]))
	}
}

// ---------------------------------------------------------------------------
// R6: pSyncPipeCopy

func (r *rs) pipeCopy() {
	c := r.c
	fn := r.fn(pkgS, "DbSyncer", "pSyncPipeCopy")
	if fn == nil {
		return
	}
	info := fn.Pkg.TypesInfo
	g := cfgq.Of(c.Program, fn)
	_, br := param(fn, 1)
	_, dst := param(fn, 3)
	reads := flow.FindCalls(fn.Decl.Body, func(call *ast.CallExpr) bool {
		return flow.MethodOn(call, "Read", flow.IsObj(info, br)) && len(call.Args) == 1
	})
	writes := flow.FindCalls(fn.Decl.Body, func(call *ast.CallExpr) bool {
		return flow.MethodOn(call, "Write", flow.IsObj(info, dst)) && len(call.Args) == 1
	})
	if len(reads) != 1 || len(writes) != 1 {
		c.Undecidedf("R6.copy", "pSyncPipeCopy/shape", fn.Decl.Pos(), "expected one br.Read and one copyto.Write, found %d and %d", len(reads), len(writes))
		return
	}
	rd, wr := reads[0], writes[0]
	n, rerr := assignedVar(info, fn.Decl.Body, rd, 0), assignedVar(info, fn.Decl.Body, rd, 1)
	werr := assignedVar(info, fn.Decl.Body, wr, 1)
	buf := flow.Obj(info, rd.Args[0])
	if n == nil || rerr == nil || werr == nil || buf == nil {
		c.Undecidedf("R6.copy", "pSyncPipeCopy/shape", rd.Pos(), "results of Read/Write are not bound to variables")
		return
	}
	rp, _ := flow.PointOf(g, rd)
	wp, _ := flow.PointOf(g, wr)
	nilFact := func(o types.Object) func(cfgq.Fact) bool {
		return func(f cfgq.Fact) bool { isNil, ok := flow.NilCmp(info, f, flow.IsObj(info, o)); return ok && isNil }
	}
	// written slice
	arg := ast.Unparen(flow.Resolve(info, fn.Decl.Body, wr.Args[0]))
	switch {
	case prefixOf(info, arg, flow.IsObj(info, buf), flow.IsObj(info, n)):
		c.Okf("R6.copy", "pSyncPipeCopy/write-prefix", wr.Pos(), "writes p[:n]")
	case flow.IsObj(info, buf)(arg):
		c.Failf("R6.copy", "pSyncPipeCopy/write-prefix", wr.Pos(), "the whole buffer is written instead of the n bytes read: stale bytes of earlier reads are injected into the command stream")
	default:
		c.Undecidedf("R6.copy", "pSyncPipeCopy/write-prefix", wr.Pos(), "Write argument %s not recognised", c.Src(arg))
	}
	errKnown := func(o types.Object) func(cfgq.Fact) bool {
		return func(f cfgq.Fact) bool { _, ok := flow.NilCmp(info, f, flow.IsObj(info, o)); return ok }
	}
	if okd, wd := g.Dominated(wp, isNode(rp.Node())); !okd {
		c.Check("R6.copy", "pSyncPipeCopy/write-after-good-read", wr.Pos(), false, "a write happens only after a read that returned no error", wd...)
	} else {
		r.guard("R6.copy", "pSyncPipeCopy/write-after-good-read", wr.Pos(), g, wp, nilFact(rerr), flow.Opaque(g, errKnown(rerr), rerr), "a write happens only after a read that returned no error")
	}
	// the counter
	// the amount counted is n, or the length of the slice that was written
	written := func(e ast.Expr) bool {
		e = ast.Unparen(e)
		return pat.Same(info, e, ast.Unparen(wr.Args[0])) || prefixOf(info, ast.Unparen(flow.Resolve(info, fn.Decl.Body, e)), flow.IsObj(info, buf), flow.IsObj(info, n))
	}
	adds := flow.FindCalls(fn.Decl.Body, func(call *ast.CallExpr) bool {
		if pat.Expr("_c.Add(_v)").Match(info, call, nil) == nil {
			return false
		}
		amount := unconv(info, flow.Resolve(info, fn.Decl.Body, unconv(info, call.Args[0])))
		if lc, ok := amount.(*ast.CallExpr); ok && flow.IsBuiltin(info, lc, "len") && len(lc.Args) == 1 && written(lc.Args[0]) {
			return true
		}
		return flow.IsObj(info, n)(amount)
	})
	if len(adds) != 1 {
		c.Undecidedf("R6.copy", "pSyncPipeCopy/count", fn.Decl.Pos(), "expected one counter.Add(n), found %d", len(adds))
		return
	}
	ap, _ := flow.PointOf(g, adds[0])
	okA, wA := g.Dominated(ap, isNode(wp.Node()))
	c.Check("R6.copy", "pSyncPipeCopy/count-after-write", adds[0].Pos(), okA, "n is counted only after the n bytes were written: counting first advances the acknowledged offset past bytes that a failing write never delivered", wA...)
	r.guard("R6.copy", "pSyncPipeCopy/count-only-on-success", adds[0].Pos(), g, ap, nilFact(werr), flow.Opaque(g, errKnown(werr), werr), "n is counted only when the write reported no error: otherwise the offset used for the reconnect skips bytes that were never forwarded (lost)")
	w := g.Path(cfgq.Query{From: wp, After: true, Avoid: isNode(ap.Node()), AvoidEdge: flow.ErrEdge(g), Target: isNode(rp.Node())})
	c.Check("R6.copy", "pSyncPipeCopy/every-write-counted", wr.Pos(), w == nil, "every successful write is counted before the next read: uncounted bytes are requested again after a reconnect (duplicated)", w...)
	w2 := g.Path(cfgq.Query{From: rp, After: true, Avoid: isNode(wp.Node()), AvoidEdge: flow.ErrEdge(g), Target: isNode(rp.Node())})
	c.Check("R6.copy", "pSyncPipeCopy/every-read-written", rd.Pos(), w2 == nil, "every successful read is written before the next read: otherwise the bytes of that read are dropped", w2...)
}

// ---------------------------------------------------------------------------
// dump mode and Sync: one reader, RDB loop bounded and flushed

func (r *rs) dumpSide() {
	c := r.c
	dump, sendCmd, rdbFile := r.fn(pkgR, "dbDumper", "dump"), r.fn(pkgR, "dbDumper", "sendCmd"), r.fn(pkgR, "dbDumper", "dumpRDBFile")
	ioc, flush := r.fn(pkgU, "", "Iocopy"), r.fn(pkgU, "", "FlushWriter")
	if dump == nil || sendCmd == nil || rdbFile == nil || ioc == nil || flush == nil {
		return
	}
	info := dump.Pkg.TypesInfo
	sc := callsTo(info, dump.Decl.Body, sendCmd.Obj, false)
	df := callsTo(info, dump.Decl.Body, rdbFile.Obj, false)
	var nrs []*ast.CallExpr
	if len(df) == 1 {
		nrs = readersLike(info, dump.Decl.Body, newReaders(info, dump.Decl.Body, true), flow.Obj(info, df[0].Args[0]))
	}
	if len(nrs) == 0 || len(sc) != 1 || len(df) != 1 {
		c.Undecidedf("R2.reader", "dump/shape", dump.Decl.Pos(), "expected sendCmd, one buffered reader and dumpRDBFile in dump")
		return
	}
	master, size := assignedVar(info, dump.Decl.Body, sc[0], 0), assignedVar(info, dump.Decl.Body, sc[0], 1)
	rdv := assignedVar(info, dump.Decl.Body, nrs[0], 0)
	c.Check("R2.reader", "dump/one-reader", nrs[0].Pos(), len(nrs) == 1, fmt.Sprintf("exactly one buffered reader over the source connection (found %d): the bytes after the RDB sit in that reader's buffer and are the start of the command phase", len(nrs)))
	if master == nil || rdv == nil || size == nil || flow.Assignments(info, dump.Decl.Body, rdv) != 1 {
		c.Undecidedf("R2.reader", "dump/reader-var", nrs[0].Pos(), "connection, size or reader not bound to single-assignment variables")
		return
	}
	c.Check("R2.reader", "dump/reader-over-conn", nrs[0].Pos(), flow.IsObj(info, master)(nrs[0].Args[0]), "the reader wraps the connection returned by sendCmd, i.e. it is created only after the '$n' header was consumed byte by byte")
	c.Check("R2.reader", "dump/copy-reader", df[0].Pos(), flow.IsObj(info, rdv)(df[0].Args[0]), "the RDB is dumped through that reader")
	c.Check("R3.bounded", "dump/size-passed", df[0].Pos(), flow.IsObj(info, size)(df[0].Args[2]), "the size announced by the source bounds the dump")
	nret := 0
	core.Inspect(dump.Decl.Body, func(m ast.Node) bool {
		if ret, ok := m.(*ast.ReturnStmt); ok && len(ret.Results) == 3 {
			nret++
			c.Check("R2.reader", "dump/returns-reader", ret.Pos(), flow.IsObj(info, rdv)(ret.Results[0]), "the command phase continues on the same reader: a fresh reader would miss the bytes buffered behind the RDB")
		}
		return true
	})
	if nret == 0 {
		c.Undecidedf("R2.reader", "dump/returns-reader", dump.Decl.Pos(), "no 3-result return in dump")
	}
	// the copy loop lives in a goroutine literal of dumpRDBFile
	_, rparam := param(rdbFile, 0)
	_, sparam := param(rdbFile, 2)
	wid, _ := param(rdbFile, 1)
	var lit *ast.FuncLit
	for _, fl := range core.FuncLits(rdbFile.Decl.Body) {
		if len(callsTo(info, fl, ioc.Obj, false)) > 0 {
			lit = fl
		}
	}
	if lit == nil {
		c.Undecidedf("R3.bounded", "dumpRDBFile/copy", rdbFile.Decl.Pos(), "cannot find the goroutine that calls Iocopy")
		return
	}
	g := cfgq.OfLit(c.Program, info, lit)
	r.boundedCaller("dumpRDBFile", rdbFile, g, lit, ioc, rparam, sparam)
	call := callsTo(info, lit, ioc.Obj, false)[0]
	if !pat.Same(info, call.Args[1], wid) {
		c.Undecidedf("R3.bounded", "dumpRDBFile/flush", call.Pos(), "the copy does not write to the writer parameter")
		return
	}
	cp, _ := flow.PointOf(g, call)
	isFlush := flow.CallOn(g, func(fc *ast.CallExpr) bool {
		return core.CalleeFunc(info, fc) == flush.Obj && pat.Same(info, fc.Args[0], wid) || pat.Expr("_w.Flush()").Match(info, fc, pat.Binds{"_w": wid}) != nil
	})
	w := g.Path(cfgq.Query{From: cp, After: true, Avoid: isFlush, TargetExit: cfgq.NormalExit})
	c.Check("R3.bounded", "dumpRDBFile/flush", call.Pos(), w == nil, "every copied chunk is flushed before the goroutine ends: otherwise the tail of the RDB stays in the buffered writer and the dump file is shorter than the n announced bytes", w...)
}
