// Package c05 decides the structural clauses of property C05 (RDB / command
// stream hand-off).
package c05

import (
	"fmt"
	"go/ast"
	"go/printer"
	"go/token"
	"go/types"
	"os"
	"strings"

	"rscheck/cfgq"
	"rscheck/core"
	"rscheck/driver"
	"rscheck/rules/c10/flow"
)

const (
	pkgU = "redis-shake/common"
	pkgS = "redis-shake/dbSync"
	pkgR = "redis-shake"
)

var Def = driver.PropDef{
	ID: "C05",
	Explanation: "Structural necessary conditions of the SYNC/PSYNC hand-off, checked on every path of the anchored functions (unexported non-anchor helpers of the same package are looked through: their bodies are inlined, up to two levels, with parameters bound to the arguments): " +
		"R1 no read-ahead in waitRdbDump (the stream is only read through Read calls with a 1-byte buffer, never wrapped in a buffered reader, and not read any more once the size was announced); " +
		"R2 one buffered reader per connection (sendPSyncCmd/dump/Sync create exactly one bufio reader and hand that same value to the PSYNC handshake, the RDB copy and the command phase; runIncrementalSync creates a new reader only after the connection was replaced and never copies through a stale one; the raw connection is returned by sendCmd/sendSyncCmd only after a non-zero size was received); " +
		"R3 bounded copy (Iocopy reads into at most max bytes, writes exactly the prefix read and returns its length; the RDB loops count exactly the announced size, pass the remaining byte count as max, subtract/add the result to the same counter, loop until it is exhausted and flush the dump writer); " +
		"R4 header framing (keep-alive tick only for '\\n' before any header byte and without storing it, header complete only at CR LF, size parsed from the bytes between '$' and CR LF and sent unchanged, by a send that waits for the receiver or is repeated until taken - never one that gives up and lets the goroutine end); " +
		"R5 PSYNC reply (case-insensitive keywords; CONTINUE returns the caller's run id and offset, FULLRESYNC returns field 1 / ParseInt(field 2) and reads the RDB header from the reader that decoded the reply; sendPSyncCmd stores the announced offset, hands the announced run id on and starts the copy with the announced size; every caller of SendPSyncContinue looks at the wait channel it returns, since a non-nil channel means an RDB precedes the commands); " +
		"R6 stream copy (pSyncPipeCopy writes exactly p[:n] of every successful read and counts n only after, and always after, the write succeeded); " +
		"R7 dump file (the writer handed to dumpRDBFile wraps a file that the open call - followed by value flow through the module's helpers to the os call, flags evaluated as constants - creates or truncates, so it holds nothing when the copy starts).",
	NotDecided: "behaviour under every TCP fragmentation (follows from R1-R3 with bufio semantics trusted), pipe capacity interplay (C09), the reply guards for answers outside the property's premise ('$' marker, n > 0) beyond recording them.",
	Trusted:    []string{"go/parser, go/types, go/cfg (x/tools v0.29.0)", "bufio.Reader, io.Reader/io.Writer contracts, strconv, strings"},
	Run:        Run,
}

type rs struct {
	c   *core.Ctx
	inl *flow.Inliner
}

// anchors are the unexported functions the rules reason about by name; other
// unexported same-package functions count as helpers and are looked through.
var anchors = map[string]bool{"waitRdbDump": true, "sendPSyncCmd": true, "runIncrementalSync": true, "pSyncPipeCopy": true, "dump": true, "sendCmd": true,
	"dumpRDBFile": true, "dumpCommand": true, "sendSyncCmd": true, "syncRDBFile": true, "syncCommand": true}

// guard records a three-valued guard obligation: VIOLATION only when a path
// reaches the site through tests that are all understood and none of which
// establishes the fact; a test on the tracked values in an unknown form makes
// it UNDECIDED.
func (r *rs) guard(rule, key string, pos token.Pos, g *cfgq.Graph, p cfgq.Point, want func(cfgq.Fact) bool, opaque flow.EdgeTest, detail string) {
	switch v, w := flow.Guard(g, p, want, opaque); v {
	case flow.Holds:
		r.c.Check(rule, key, pos, true, detail)
	case flow.Violated:
		r.c.Check(rule, key, pos, false, detail, w...)
	default:
		r.c.Undecidedf(rule, key, pos, "the site is guarded by a test on the tracked value whose form is not understood; required: %s", detail)
	}
}

// fn resolves an anchor and returns its view with helper calls inlined.
func (r *rs) fn(pkgPath, recv, name string) *core.Fn {
	fn := r.inl.Fn(r.c.Func(pkgPath, recv, name))
	if fn != nil && os.Getenv("RS_DUMP") == name { // developer aid: the view the rules look at
		printer.Fprint(os.Stderr, r.c.Fset, fn.Decl.Body)
		fmt.Fprintln(os.Stderr)
	}
	return fn
}

func Run(c *core.Ctx) {
	r := &rs{c: c}
	r.inl = flow.NewInliner(c.Program, func(f *types.Func) bool { return f.Exported() || anchors[f.Name()] })
	for _, p := range []string{pkgU, pkgS, pkgR} {
		if c.Pkg(p) == nil {
			c.Undecidedf("anchor", p, token.NoPos, "package not loaded")
			return
		}
	}
	r.header()
	r.iocopy()
	r.psyncReply()
	r.sendPSyncCmd()
	r.replyUsed()
	r.runIncrementalSync()
	r.pipeCopy()
	r.dumpSide()
	r.dumpFile()
	r.syncEntry()
	r.rawConn(pkgR, "dbDumper", "sendCmd")
	r.rawConn(pkgS, "DbSyncer", "sendSyncCmd")
	// instance counts confirmed on the pinned tree: fewer is UNDECIDED, never a vacuous pass
	flow.ExpectAll(c, map[string]int{"R1.header": 2, "R2.reader": 19, "R3.bounded": 13, "R4.frame": 12, "R5.reply": 7, "R5.use": 10, "R6.copy": 6, "R7.dumpfile": 2})
}

// ---- helpers

func param(fn *core.Fn, i int) (*ast.Ident, types.Object) {
	k := 0
	for _, f := range fn.Decl.Type.Params.List {
		for _, id := range f.Names {
			if k == i {
				return id, fn.Pkg.TypesInfo.Defs[id]
			}
			k++
		}
	}
	return nil, nil
}

func isConst(info *types.Info, e ast.Expr, k int64) bool {
	v, ok := core.IntConst(info, e)
	return ok && v == k
}

func unconv(info *types.Info, e ast.Expr) ast.Expr {
	for {
		e = ast.Unparen(e)
		call, ok := e.(*ast.CallExpr)
		if !ok || len(call.Args) != 1 {
			return e
		}
		if tv, ok := info.Types[call.Fun]; !ok || !tv.IsType() {
			return e
		}
		e = call.Args[0]
	}
}

// callsTo lists the calls of callee below root (nested literals included when all is set).
func callsTo(info *types.Info, root ast.Node, callee *types.Func, all bool) []*ast.CallExpr {
	pred := func(call *ast.CallExpr, o types.Object) bool { return o != nil && o == types.Object(callee) }
	if all {
		return core.CallsAll(root, info, pred)
	}
	return core.Calls(root, info, pred)
}

// newReaders lists the bufio.NewReader / NewReaderSize calls below root.
func newReaders(info *types.Info, root ast.Node, all bool) []*ast.CallExpr {
	pred := func(call *ast.CallExpr, o types.Object) bool {
		f, _ := o.(*types.Func)
		return f != nil && f.Pkg() != nil && f.Pkg().Path() == "bufio" && strings.HasPrefix(f.Name(), "NewReader") && len(call.Args) >= 1
	}
	if all {
		return core.CallsAll(root, info, pred)
	}
	return core.Calls(root, info, pred)
}

// readersLike narrows the bufio readers of a function to those that wrap the
// same object as the reader bound to `want` (or the first one): readers over
// unrelated streams are none of this property's business.
func readersLike(info *types.Info, root ast.Node, nrs []*ast.CallExpr, want types.Object) []*ast.CallExpr {
	if len(nrs) == 0 {
		return nil
	}
	first := nrs[0]
	for _, nr := range nrs {
		if v := assignedVar(info, root, nr, 0); v != nil && v == want {
			first = nr
		}
	}
	src := flow.Obj(info, first.Args[0])
	out := []*ast.CallExpr{first}
	for _, nr := range nrs {
		if nr != first && src != nil && flow.Obj(info, nr.Args[0]) == src {
			out = append(out, nr)
		}
	}
	return out
}

// assignedVar: the variable that receives the value of call in its enclosing 1:1 or n:1 assignment.
func assignedVar(info *types.Info, root ast.Node, call *ast.CallExpr, idx int) types.Object {
	path := core.PathTo(root, call)
	for i := len(path) - 2; i >= 0; i-- {
		if as, ok := path[i].(*ast.AssignStmt); ok {
			if len(as.Rhs) == 1 && ast.Unparen(as.Rhs[0]) == ast.Expr(call) && idx < len(as.Lhs) {
				return flow.Obj(info, as.Lhs[idx])
			}
			for j, rh := range as.Rhs {
				if ast.Unparen(rh) == ast.Expr(call) && len(as.Lhs) == len(as.Rhs) && idx == 0 {
					return flow.Obj(info, as.Lhs[j])
				}
			}
			// the value is stored in a field of a struct built here (`link := T{r: call}`) and read back
			// into a variable (`reader := link.r`): that variable receives it
			if idx == 0 && len(as.Lhs) == len(as.Rhs) {
				for j, rh := range as.Rhs {
					field := ""
					core.Inspect(rh, func(m ast.Node) bool {
						if kv, ok := m.(*ast.KeyValueExpr); ok && ast.Unparen(kv.Value) == ast.Expr(call) {
							if id, ok := kv.Key.(*ast.Ident); ok {
								field = id.Name
							}
						}
						return true
					})
					holder := flow.Obj(info, as.Lhs[j])
					if field == "" || holder == nil {
						continue
					}
					var out types.Object
					n := 0
					core.InspectAll(root, func(m ast.Node) bool {
						if a2, ok := m.(*ast.AssignStmt); ok && len(a2.Lhs) == len(a2.Rhs) {
							for k, r2 := range a2.Rhs {
								if sel, ok := ast.Unparen(r2).(*ast.SelectorExpr); ok && sel.Sel.Name == field && flow.IsObj(info, holder)(sel.X) {
									out = flow.Obj(info, a2.Lhs[k])
									n++
								}
							}
						}
						return true
					})
					if n == 1 {
						return out
					}
				}
			}
			return nil
		}
	}
	return nil
}

func assignsTo(info *types.Info, obj types.Object) func(ast.Node) bool {
	return func(n ast.Node) bool {
		as, ok := n.(*ast.AssignStmt)
		if !ok {
			return false
		}
		for _, l := range as.Lhs {
			if flow.IsObj(info, obj)(l) {
				return true
			}
		}
		return false
	}
}

func nonZero(info *types.Info, f cfgq.Fact, isX func(ast.Expr) bool) bool {
	op, k, ok := flow.Cmp(info, f, isX)
	if !ok {
		return false
	}
	return op == token.NEQ && k == 0 || op == token.GTR && k >= 0 || op == token.GEQ && k >= 1
}

// prefixOf: e is base[:high] or base[0:high].
func prefixOf(info *types.Info, e ast.Expr, isBase, isHigh func(ast.Expr) bool) bool {
	se, ok := ast.Unparen(e).(*ast.SliceExpr)
	return ok && se.Max == nil && se.High != nil && (se.Low == nil || isConst(info, se.Low, 0)) && isBase(se.X) && isHigh(se.High)
}

// reslice: n is `v = v[:high]` for the variable accepted by isV.
func reslice(info *types.Info, n ast.Node, isV, isHigh func(ast.Expr) bool) bool {
	as, ok := n.(*ast.AssignStmt)
	return ok && as.Tok == token.ASSIGN && len(as.Lhs) == 1 && len(as.Rhs) == 1 && isV(as.Lhs[0]) && prefixOf(info, as.Rhs[0], isV, isHigh)
}

func isNode(n ast.Node) func(ast.Node) bool { return func(m ast.Node) bool { return m == n } }

// bufLen: constant length of the byte slice expression e ([]byte{..} literal or make([]byte, k)); -1 if unknown.
func bufLen(info *types.Info, e ast.Expr) int64 {
	switch x := ast.Unparen(e).(type) {
	case *ast.CompositeLit:
		for _, el := range x.Elts {
			if _, keyed := el.(*ast.KeyValueExpr); keyed {
				return -1
			}
		}
		if _, isSlice := info.TypeOf(x).Underlying().(*types.Slice); isSlice {
			return int64(len(x.Elts))
		}
	case *ast.CallExpr:
		if flow.IsBuiltin(info, x, "make") && len(x.Args) >= 2 {
			if k, ok := core.IntConst(info, x.Args[1]); ok {
				return k
			}
		}
	}
	return -1
}

// defsOf lists the right-hand sides assigned 1:1 to obj below root.
func defsOf(info *types.Info, root ast.Node, obj types.Object) (rhs []ast.Expr, other int) {
	core.InspectAll(root, func(m ast.Node) bool {
		if as, ok := m.(*ast.AssignStmt); ok {
			for i, l := range as.Lhs {
				if flow.IsObj(info, obj)(l) {
					if len(as.Lhs) == len(as.Rhs) && (as.Tok == token.DEFINE || as.Tok == token.ASSIGN) {
						rhs = append(rhs, as.Rhs[i])
					} else {
						other++
					}
				}
			}
		}
		return true
	})
	return
}
