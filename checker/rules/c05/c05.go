// Package c05 decides the structural clauses of property C05 (RDB / command
// stream hand-off).
package c05

import (
	"fmt"
	"go/ast"
	"go/token"
	"go/types"
	"strings"

	"rscheck/cfgq"
	"rscheck/core"
	"rscheck/driver"
	"rscheck/pat"
	"rscheck/rules/c10/flow"
)

const (
	pkgU = "redis-shake/common"
	pkgS = "redis-shake/dbSync"
	pkgR = "redis-shake"
)

var Def = driver.PropDef{
	ID: "C05",
	Explanation: "Structural necessary conditions of the SYNC/PSYNC hand-off, checked on every path of the anchored functions: " +
		"R1 no read-ahead in waitRdbDump (the stream is only read through Read calls with a 1-byte buffer, never wrapped in a buffered reader, and not read any more once the size was announced); " +
		"R2 one buffered reader per connection (sendPSyncCmd/dump/Sync create exactly one bufio reader and hand that same value to the PSYNC handshake, the RDB copy and the command phase; runIncrementalSync creates a new reader only after the connection was replaced and never copies through a stale one; the raw connection is returned by sendCmd/sendSyncCmd only after a non-zero size was received); " +
		"R3 bounded copy (Iocopy reads into at most max bytes, writes exactly the prefix read and returns its length; the RDB loops pass the remaining byte count as max, subtract/add the result to the same counter, loop until it is exhausted and flush the dump writer); " +
		"R4 header framing (keep-alive tick only for '\\n' before any header byte and without storing it, header complete only at CR LF, size parsed from the bytes between '$' and CR LF and sent unchanged); " +
		"R5 PSYNC reply (case-insensitive keywords; CONTINUE returns the caller's run id and offset, FULLRESYNC returns field 1 / ParseInt(field 2) and reads the RDB header from the reader that decoded the reply; sendPSyncCmd stores the announced offset, hands the announced run id on and starts the copy with the announced size); " +
		"R6 stream copy (pSyncPipeCopy writes exactly p[:n] of every successful read and counts n only after, and always after, the write succeeded).",
	NotDecided: "behaviour under every TCP fragmentation (follows from R1-R3 with bufio semantics trusted), pipe capacity interplay (C09), the reply guards for answers outside the property's premise ('$' marker, n > 0) beyond recording them.",
	Trusted:    []string{"go/parser, go/types, go/cfg (x/tools v0.29.0)", "bufio.Reader, io.Reader/io.Writer contracts, strconv, strings"},
	Run:        Run,
}

type rs struct{ c *core.Ctx }

func Run(c *core.Ctx) {
	r := &rs{c}
	for _, p := range []string{pkgU, pkgS, pkgR} {
		if c.Pkg(p) == nil {
			c.Undecidedf("anchor", p, token.NoPos, "package not loaded")
			return
		}
	}
	r.header()
	r.iocopy()
	r.psyncReply()
	r.sendPSyncCmd()
	r.replyUsed()
	r.runIncrementalSync()
	r.pipeCopy()
	r.dumpSide()
	r.syncEntry()
	r.rawConn(pkgR, "dbDumper", "sendCmd")
	r.rawConn(pkgS, "DbSyncer", "sendSyncCmd")
}

// ---- helpers

func param(fn *core.Fn, i int) (*ast.Ident, types.Object) {
	k := 0
	for _, f := range fn.Decl.Type.Params.List {
		for _, id := range f.Names {
			if k == i {
				return id, fn.Pkg.TypesInfo.Defs[id]
			}
			k++
		}
	}
	return nil, nil
}

func isConst(info *types.Info, e ast.Expr, k int64) bool {
	v, ok := core.IntConst(info, e)
	return ok && v == k
}

func unconv(info *types.Info, e ast.Expr) ast.Expr {
	for {
		e = ast.Unparen(e)
		call, ok := e.(*ast.CallExpr)
		if !ok || len(call.Args) != 1 {
			return e
		}
		if tv, ok := info.Types[call.Fun]; !ok || !tv.IsType() {
			return e
		}
		e = call.Args[0]
	}
}

// callsTo lists the calls of callee below root (nested literals included when all is set).
func callsTo(info *types.Info, root ast.Node, callee *types.Func, all bool) []*ast.CallExpr {
	pred := func(call *ast.CallExpr, o types.Object) bool { return o != nil && o == types.Object(callee) }
	if all {
		return core.CallsAll(root, info, pred)
	}
	return core.Calls(root, info, pred)
}

// newReaders lists the bufio.NewReader / NewReaderSize calls below root.
func newReaders(info *types.Info, root ast.Node, all bool) []*ast.CallExpr {
	pred := func(call *ast.CallExpr, o types.Object) bool {
		f, _ := o.(*types.Func)
		return f != nil && f.Pkg() != nil && f.Pkg().Path() == "bufio" && strings.HasPrefix(f.Name(), "NewReader") && len(call.Args) >= 1
	}
	if all {
		return core.CallsAll(root, info, pred)
	}
	return core.Calls(root, info, pred)
}

// readersLike narrows the bufio readers of a function to those that wrap the
// same object as the reader bound to `want` (or the first one): readers over
// unrelated streams are none of this property's business.
func readersLike(info *types.Info, root ast.Node, nrs []*ast.CallExpr, want types.Object) []*ast.CallExpr {
	if len(nrs) == 0 {
		return nil
	}
	first := nrs[0]
	for _, nr := range nrs {
		if v := assignedVar(info, root, nr, 0); v != nil && v == want {
			first = nr
		}
	}
	src := flow.Obj(info, first.Args[0])
	out := []*ast.CallExpr{first}
	for _, nr := range nrs {
		if nr != first && src != nil && flow.Obj(info, nr.Args[0]) == src {
			out = append(out, nr)
		}
	}
	return out
}

// assignedVar: the variable that receives the value of call in its enclosing 1:1 or n:1 assignment.
func assignedVar(info *types.Info, root ast.Node, call *ast.CallExpr, idx int) types.Object {
	path := core.PathTo(root, call)
	for i := len(path) - 2; i >= 0; i-- {
		if as, ok := path[i].(*ast.AssignStmt); ok {
			if len(as.Rhs) == 1 && ast.Unparen(as.Rhs[0]) == ast.Expr(call) && idx < len(as.Lhs) {
				return flow.Obj(info, as.Lhs[idx])
			}
			for j, rh := range as.Rhs {
				if ast.Unparen(rh) == ast.Expr(call) && len(as.Lhs) == len(as.Rhs) && idx == 0 {
					return flow.Obj(info, as.Lhs[j])
				}
			}
			return nil
		}
	}
	return nil
}

func assignsTo(info *types.Info, obj types.Object) func(ast.Node) bool {
	return func(n ast.Node) bool {
		as, ok := n.(*ast.AssignStmt)
		if !ok {
			return false
		}
		for _, l := range as.Lhs {
			if flow.IsObj(info, obj)(l) {
				return true
			}
		}
		return false
	}
}

func nonZero(info *types.Info, f cfgq.Fact, isX func(ast.Expr) bool) bool {
	op, k, ok := flow.Cmp(info, f, isX)
	if !ok {
		return false
	}
	return op == token.NEQ && k == 0 || op == token.GTR && k >= 0 || op == token.GEQ && k >= 1
}

// prefixOf: e is base[:high] or base[0:high].
func prefixOf(info *types.Info, e ast.Expr, isBase, isHigh func(ast.Expr) bool) bool {
	se, ok := ast.Unparen(e).(*ast.SliceExpr)
	return ok && se.Max == nil && se.High != nil && (se.Low == nil || isConst(info, se.Low, 0)) && isBase(se.X) && isHigh(se.High)
}

// reslice: n is `v = v[:high]` for the variable accepted by isV.
func reslice(info *types.Info, n ast.Node, isV, isHigh func(ast.Expr) bool) bool {
	as, ok := n.(*ast.AssignStmt)
	return ok && as.Tok == token.ASSIGN && len(as.Lhs) == 1 && len(as.Rhs) == 1 && isV(as.Lhs[0]) && prefixOf(info, as.Rhs[0], isV, isHigh)
}

func isNode(n ast.Node) func(ast.Node) bool { return func(m ast.Node) bool { return m == n } }

// bufLen: constant length of the byte slice expression e ([]byte{..} literal or make([]byte, k)); -1 if unknown.
func bufLen(info *types.Info, e ast.Expr) int64 {
	switch x := ast.Unparen(e).(type) {
	case *ast.CompositeLit:
		for _, el := range x.Elts {
			if _, keyed := el.(*ast.KeyValueExpr); keyed {
				return -1
			}
		}
		if _, isSlice := info.TypeOf(x).Underlying().(*types.Slice); isSlice {
			return int64(len(x.Elts))
		}
	case *ast.CallExpr:
		if flow.IsBuiltin(info, x, "make") && len(x.Args) >= 2 {
			if k, ok := core.IntConst(info, x.Args[1]); ok {
				return k
			}
		}
	}
	return -1
}

// defsOf lists the right-hand sides assigned 1:1 to obj below root.
func defsOf(info *types.Info, root ast.Node, obj types.Object) (rhs []ast.Expr, other int) {
	core.InspectAll(root, func(m ast.Node) bool {
		if as, ok := m.(*ast.AssignStmt); ok {
			for i, l := range as.Lhs {
				if flow.IsObj(info, obj)(l) {
					if len(as.Lhs) == len(as.Rhs) && (as.Tok == token.DEFINE || as.Tok == token.ASSIGN) {
						rhs = append(rhs, as.Rhs[i])
					} else {
						other++
					}
				}
			}
		}
		return true
	})
	return
}

// ---------------------------------------------------------------------------
// R1 + R4: waitRdbDump

func (r *rs) header() {
	c := r.c
	fn := c.Func(pkgU, "", "waitRdbDump")
	if fn == nil {
		return
	}
	info := fn.Pkg.TypesInfo
	_, rd := param(fn, 0)
	var lit *ast.FuncLit
	for _, fl := range core.FuncLits(fn.Decl.Body) {
		if core.Mentions(info, fl, rd) {
			if lit != nil {
				c.Undecidedf("R1.header", "waitRdbDump/reader-uses", fl.Pos(), "the stream is used by more than one function literal")
				return
			}
			lit = fl
		}
	}
	if lit == nil || rd == nil {
		c.Undecidedf("R1.header", "waitRdbDump/reader-uses", fn.Decl.Pos(), "cannot find the goroutine that reads the reply header")
		return
	}
	g := cfgq.OfLit(c.Program, info, lit)
	// every use of the stream is a 1-byte Read
	var reads []*ast.CallExpr
	handled := map[*ast.Ident]bool{}
	core.InspectAll(fn.Decl.Body, func(m ast.Node) bool {
		call, ok := m.(*ast.CallExpr)
		if !ok {
			return true
		}
		if flow.MethodOn(call, "Read", flow.IsObj(info, rd)) && len(call.Args) == 1 {
			reads = append(reads, call)
			handled[ast.Unparen(call.Fun).(*ast.SelectorExpr).X.(*ast.Ident)] = true
			return true
		}
		for _, a := range call.Args {
			if id, ok := ast.Unparen(a).(*ast.Ident); ok && flow.IsObj(info, rd)(id) {
				handled[id] = true
				if f := core.CalleeFunc(info, call); f != nil && f.Pkg() != nil && f.Pkg().Path() == "bufio" {
					c.Failf("R1.header", "waitRdbDump/no-buffered-reader", call.Pos(), "%s wraps the stream in a buffered reader inside the header parser: it reads ahead past '$n\\r\\n' and is then dropped, so the first RDB bytes never reach the RDB consumer", c.Src(call))
				} else {
					c.Undecidedf("R1.header", "waitRdbDump/reader-uses", call.Pos(), "the stream is passed to %s", c.Src(call.Fun))
				}
			}
		}
		return true
	})
	core.InspectAll(fn.Decl.Body, func(m ast.Node) bool {
		if id, ok := m.(*ast.Ident); ok && info.Uses[id] == rd && !handled[id] {
			c.Undecidedf("R1.header", "waitRdbDump/reader-uses", id.Pos(), "unrecognised use of the stream")
		}
		return true
	})
	var buf types.Object
	for _, call := range reads {
		buf = flow.Obj(info, call.Args[0])
		if buf == nil {
			c.Undecidedf("R1.header", "waitRdbDump/one-byte-read", call.Pos(), "Read into %s, not a plain buffer variable", c.Src(call.Args[0]))
			continue
		}
		defs, other := defsOf(info, fn.Decl.Body, buf)
		if len(defs) == 0 || other > 0 {
			c.Undecidedf("R1.header", "waitRdbDump/one-byte-read", call.Pos(), "definition of the read buffer not recognised")
			continue
		}
		for _, d := range defs {
			switch n := bufLen(info, d); {
			case n == 1:
				c.Okf("R1.header", "waitRdbDump/one-byte-read", call.Pos(), "the header is read through a buffer of constant length 1")
			case n > 1:
				c.Failf("R1.header", "waitRdbDump/one-byte-read", call.Pos(), "the header is read through a %d-byte buffer: one Read can return bytes beyond '$n\\r\\n' (the start of the RDB); they are discarded with the header and the RDB consumer no longer sees exactly the n announced bytes", n)
			default:
				c.Undecidedf("R1.header", "waitRdbDump/one-byte-read", call.Pos(), "length of the read buffer %s is not a constant", c.Src(d))
			}
		}
	}
	if len(reads) != 1 || buf == nil {
		c.Undecidedf("instances", "R1.header", fn.Decl.Pos(), "expected exactly one Read site on the stream, found %d", len(reads))
		return
	}
	readPt, ok := g.Find(reads[0])
	if !ok {
		c.Undecidedf("R1.header", "waitRdbDump/graph", reads[0].Pos(), "the Read is not in the goroutine's control-flow graph")
		return
	}
	isRead := flow.CallOn(g, func(call *ast.CallExpr) bool { return call == reads[0] })

	// ---- R4 framing
	app, ab := pat.Stmt("_rsp += string(_b)").Find(info, lit.Body, nil)
	if app == nil || flow.Obj(info, ab["_b"]) != buf {
		c.Undecidedf("R4.frame", "waitRdbDump/accumulate", lit.Pos(), "cannot find `rsp += string(b)` over the read buffer")
		return
	}
	rsp := flow.Obj(info, ab["_rsp"])
	isRsp := flow.IsObj(info, rsp)
	lenRsp := func(e ast.Expr) bool {
		call, ok := ast.Unparen(e).(*ast.CallExpr)
		return ok && flow.IsBuiltin(info, call, "len") && isRsp(call.Args[0])
	}
	firstByte := func(base func(ast.Expr) bool) func(ast.Expr) bool {
		return func(e ast.Expr) bool {
			ix, ok := ast.Unparen(e).(*ast.IndexExpr)
			return ok && base(ix.X) && isConst(info, ix.Index, 0)
		}
	}
	var ticks, sizes []cfgq.Point
	var chanObj types.Object
	for _, p := range g.Points(func(m ast.Node) bool { _, ok := m.(*ast.SendStmt); return ok }) {
		s := p.Node().(*ast.SendStmt)
		if chanObj == nil {
			chanObj = flow.Obj(info, s.Chan)
		}
		if isConst(info, s.Value, 0) {
			ticks = append(ticks, p)
		} else {
			sizes = append(sizes, p)
		}
	}
	if len(ticks) != 1 || len(sizes) != 1 || chanObj == nil {
		c.Undecidedf("R4.frame", "waitRdbDump/sends", lit.Pos(), "expected one keep-alive send of 0 and one size send, found %d and %d", len(ticks), len(sizes))
		return
	}
	tick, size := ticks[0], sizes[0]
	ok1, w1 := flow.OnlyVia(g, tick, func(f cfgq.Fact) bool { return flow.CmpIs(info, f, lenRsp, token.EQL, 0) })
	c.Check("R4.frame", "waitRdbDump/tick-before-header-only", tick.Node().Pos(), ok1, "a 0 tick may be sent only while no header byte was stored (len(rsp) == 0): otherwise the LF that ends '$n\\r\\n' is swallowed as a keep-alive and the header never completes", w1...)
	ok2, w2 := flow.OnlyVia(g, tick, func(f cfgq.Fact) bool { return flow.CmpIs(info, f, firstByte(flow.IsObj(info, buf)), token.EQL, '\n') })
	c.Check("R4.frame", "waitRdbDump/tick-for-newline-only", tick.Node().Pos(), ok2, "a 0 tick may be sent only for a '\\n' byte: any other byte dropped here is a header byte ('$' or a digit) that is lost", w2...)
	w3 := g.Path(cfgq.Query{From: tick, After: true, Avoid: isRead, Target: isNode(app)})
	c.Check("R4.frame", "waitRdbDump/tick-not-stored", tick.Node().Pos(), w3 == nil, "after a keep-alive '\\n' the next byte must be read before anything is appended: a stored '\\n' makes the header start with a byte other than '$'", w3...)
	w4 := g.Path(cfgq.Query{From: readPt, After: true, Avoid: cfgq.Or(isNode(app), isNode(tick.Node()), isRead), Target: isNode(size.Node())})
	c.Check("R4.frame", "waitRdbDump/every-byte-stored", reads[0].Pos(), w4 == nil, "every byte read that is not a keep-alive must be appended to the header before the size is announced", w4...)
	// header complete only at CR LF
	ok5, w5 := flow.OnlyVia(g, size, func(f cfgq.Fact) bool {
		b := pat.Expr("strings.HasSuffix(_s, _t)").Match(info, f.Expr, nil)
		if b == nil || !f.Val || !isRsp(b["_s"].(ast.Expr)) {
			return false
		}
		s, ok := core.StringConst(info, b["_t"].(ast.Expr))
		return ok && (s == "\r\n" || s == "\n") // the first LF of a well-formed header is its last byte
	})
	c.Check("R4.frame", "waitRdbDump/complete-at-crlf", size.Node().Pos(), ok5, "the size may be announced only once the header ends in (CR) LF: stopping earlier leaves header bytes in the stream in front of the RDB, stopping later eats RDB bytes", w5...)
	// the number
	atoi, nb := pat.Stmt("_n, _err = strconv.Atoi(_s[_lo : len(_s) - _k])").Find(info, lit.Body, pat.Binds{"_s": ab["_rsp"]})
	if atoi == nil {
		c.Undecidedf("R4.frame", "waitRdbDump/digits", lit.Pos(), "cannot find `n, err := strconv.Atoi(rsp[lo : len(rsp)-k])`")
		return
	}
	lo, okl := core.IntConst(info, nb["_lo"].(ast.Expr))
	k, okk := core.IntConst(info, nb["_k"].(ast.Expr))
	if !okl || !okk {
		c.Undecidedf("R4.frame", "waitRdbDump/digits", atoi.Pos(), "slice bounds are not constants")
	} else {
		c.Check("R4.frame", "waitRdbDump/digits", atoi.Pos(), lo == 1 && k == 2, fmt.Sprintf("the size is the text between the 1-byte marker and the 2-byte CR LF (found rsp[%d : len-%d]): any other window makes Atoi fail or drop a digit for every well-formed header", lo, k))
	}
	nobj := flow.Obj(info, nb["_n"])
	sv := size.Node().(*ast.SendStmt)
	sent := unconv(info, flow.Resolve(info, lit.Body, unconv(info, sv.Value)))
	if be, isBin := sent.(*ast.BinaryExpr); flow.IsObj(info, nobj)(sent) && flow.Assignments(info, lit.Body, nobj) == 1 {
		c.Okf("R4.frame", "waitRdbDump/size-sent-unchanged", sv.Pos(), "the value announced on the channel is exactly the parsed n")
	} else if isBin && (be.Op == token.ADD || be.Op == token.SUB) && flow.IsObj(info, nobj)(unconv(info, be.X)) && !isConst(info, be.Y, 0) {
		c.Failf("R4.frame", "waitRdbDump/size-sent-unchanged", sv.Pos(), "the value announced is %s, not the parsed n: the RDB copy counts down from it and hands over to the command phase too early or too late", c.Src(sv.Value))
	} else {
		c.Undecidedf("R4.frame", "waitRdbDump/size-sent-unchanged", sv.Pos(), "announced value %s not recognised", c.Src(sv.Value))
	}
	okd, _ := g.Dominated(size, isNode(atoi))
	c.Check("R4.frame", "waitRdbDump/size-after-parse", sv.Pos(), okd, "the size is announced only after it was parsed")
	// no read after the announcement (R1)
	w6 := g.Path(cfgq.Query{From: size, After: true, Target: isRead})
	c.Check("R1.header", "waitRdbDump/no-read-after-size", sv.Pos(), w6 == nil, "after the size was announced the header goroutine must not read from the stream again: every further byte belongs to the RDB consumer", w6...)
	// the channel returned is the one written
	retOK := false
	core.Inspect(fn.Decl.Body, func(m ast.Node) bool {
		if ret, ok := m.(*ast.ReturnStmt); ok && len(ret.Results) == 1 && flow.IsObj(info, chanObj)(ret.Results[0]) {
			retOK = true
		}
		return true
	})
	c.Check("R4.frame", "waitRdbDump/returns-channel", fn.Decl.Pos(), retOK, "waitRdbDump returns the channel the goroutine announces the size on")
	// guards for replies outside the premise: recorded, never a violation
	for _, gd := range []struct {
		key   string
		match func(cfgq.Fact) bool
	}{
		{"guard-marker", func(f cfgq.Fact) bool { return flow.CmpIs(info, f, firstByte(isRsp), token.EQL, '$') }},
		{"guard-positive", func(f cfgq.Fact) bool { return nonZero(info, f, flow.IsObj(info, nobj)) }},
	} {
		if ok, _ := flow.OnlyVia(g, size, gd.match); ok {
			c.Okf("R4.frame", "waitRdbDump/"+gd.key, sv.Pos(), "reply guard present")
		} else {
			c.Undecidedf("R4.frame", "waitRdbDump/"+gd.key, sv.Pos(), "reply guard not recognised (outside the property's premise, not a violation)")
		}
	}
}

// ---------------------------------------------------------------------------
// R3: Iocopy and its bounded callers

func (r *rs) iocopy() {
	c := r.c
	fn := c.Func(pkgU, "", "Iocopy")
	if fn == nil {
		return
	}
	info := fn.Pkg.TypesInfo
	g := cfgq.Of(c.Program, fn)
	_, rd := param(fn, 0)
	_, wr := param(fn, 1)
	pid, p := param(fn, 2)
	mid, mx := param(fn, 3)
	isP, isMax := flow.IsObj(info, p), flow.IsObj(info, mx)
	reads := flow.FindCalls(fn.Decl.Body, func(call *ast.CallExpr) bool { return flow.MethodOn(call, "Read", flow.IsObj(info, rd)) && len(call.Args) == 1 })
	writes := flow.FindCalls(fn.Decl.Body, func(call *ast.CallExpr) bool { return flow.MethodOn(call, "Write", flow.IsObj(info, wr)) && len(call.Args) == 1 })
	if len(reads) != 1 || len(writes) != 1 || p == nil || mx == nil {
		c.Undecidedf("R3.bounded", "Iocopy/shape", fn.Decl.Pos(), "expected one r.Read and one w.Write, found %d and %d", len(reads), len(writes))
		return
	}
	_, _ = pid, mid
	rp, _ := g.Find(reads[0])
	wp, _ := g.Find(writes[0])
	// (a) the read is bounded by max
	clamp := func(m ast.Node) bool { return reslice(info, m, isP, isMax) }
	small := flow.Establishes(g, func(f cfgq.Fact) bool {
		x, y, op, ok := flow.Rel(f)
		if !ok {
			return false
		}
		lenP := func(e ast.Expr) bool {
			call, ok := ast.Unparen(e).(*ast.CallExpr)
			return ok && flow.IsBuiltin(info, call, "len") && isP(call.Args[0])
		}
		return lenP(x) && isMax(y) && (op == token.LEQ || op == token.LSS || op == token.EQL) || isMax(x) && lenP(y) && (op == token.GEQ || op == token.GTR || op == token.EQL)
	})
	unknownCut := false
	core.Inspect(fn.Decl.Body, func(m ast.Node) bool {
		if as, ok := m.(*ast.AssignStmt); ok && assignsTo(info, p)(as) && !clamp(as) && !reslice(info, as, isP, func(ast.Expr) bool { return true }) {
			unknownCut = true
		}
		return true
	})
	if unknownCut {
		c.Undecidedf("R3.bounded", "Iocopy/buffer-assignments", fn.Decl.Pos(), "the buffer parameter is re-assigned in a form other than p = p[:k]")
		return
	}
	switch arg := ast.Unparen(reads[0].Args[0]); {
	case isP(arg):
		w := g.Path(cfgq.Query{From: g.Entry(), Avoid: clamp, AvoidEdge: small, Target: isNode(rp.Node())})
		c.Check("R3.bounded", "Iocopy/read-at-most-max", reads[0].Pos(), w == nil,
			"the buffer handed to Read must hold at most max bytes on every path (len(p) <= max tested, or p = p[:max]): otherwise one Read takes bytes beyond the end of the RDB, which are written to the RDB consumer / dump file and are missing from the command stream", w...)
	case prefixOf(info, arg, isP, isMax):
		c.Okf("R3.bounded", "Iocopy/read-at-most-max", reads[0].Pos(), "reads into p[:max]")
	default:
		c.Undecidedf("R3.bounded", "Iocopy/read-at-most-max", reads[0].Pos(), "Read argument %s not recognised", c.Src(arg))
	}
	// (b) exactly the prefix read is written
	n := assignedVar(info, fn.Decl.Body, reads[0], 0)
	if n == nil {
		c.Undecidedf("R3.bounded", "Iocopy/write-prefix", reads[0].Pos(), "the byte count returned by Read is not bound to a variable")
		return
	}
	trunc := func(m ast.Node) bool { return reslice(info, m, isP, flow.IsObj(info, n)) }
	isPrefix := func(e ast.Expr) bool { return prefixOf(info, e, isP, flow.IsObj(info, n)) }
	okDom, wd := g.Dominated(wp, isNode(rp.Node()))
	c.Check("R3.bounded", "Iocopy/read-before-write", writes[0].Pos(), okDom, "the write must follow the read", wd...)
	switch arg := ast.Unparen(writes[0].Args[0]); {
	case isP(arg):
		w := g.Path(cfgq.Query{From: rp, After: true, Avoid: trunc, Target: isNode(wp.Node())})
		c.Check("R3.bounded", "Iocopy/write-prefix", writes[0].Pos(), w == nil, "between Read and Write the buffer must be cut to the n bytes read (p = p[:n]): otherwise stale buffer bytes are written after the fresh ones", w...)
	case isPrefix(arg):
		c.Okf("R3.bounded", "Iocopy/write-prefix", writes[0].Pos(), "writes p[:n]")
	default:
		c.Undecidedf("R3.bounded", "Iocopy/write-prefix", writes[0].Pos(), "Write argument %s not recognised", c.Src(arg))
	}
	// (c) the result is the number of bytes moved
	nret := 0
	for _, pt := range g.Points(func(m ast.Node) bool { _, ok := m.(*ast.ReturnStmt); return ok }) {
		ret := pt.Node().(*ast.ReturnStmt)
		nret++
		res := unconv(info, ret.Results[0])
		call, isCall := res.(*ast.CallExpr)
		switch {
		case flow.IsObj(info, n)(res):
			c.Okf("R3.bounded", "Iocopy/returns-count", ret.Pos(), "returns n")
		case isCall && flow.IsBuiltin(info, call, "len") && isP(call.Args[0]):
			w := g.Path(cfgq.Query{From: rp, After: true, Avoid: trunc, Target: isNode(ret)})
			c.Check("R3.bounded", "Iocopy/returns-count", ret.Pos(), w == nil, "len(p) is the number of bytes moved only after p = p[:n]: a larger result makes the caller's countdown end before the RDB does", w...)
		default:
			c.Undecidedf("R3.bounded", "Iocopy/returns-count", ret.Pos(), "result %s not recognised", c.Src(ret.Results[0]))
		}
		okW, ww := g.Dominated(pt, isNode(wp.Node()))
		c.Check("R3.bounded", "Iocopy/write-before-return", ret.Pos(), okW, "the bytes counted in the result must have been written", ww...)
	}
	if nret == 0 {
		c.Undecidedf("R3.bounded", "Iocopy/returns-count", fn.Decl.Pos(), "no return statement")
	}
}

// remaining checks one RDB copy loop: Iocopy(..., max) with max the remaining count.
func (r *rs) boundedCaller(key string, fn *core.Fn, root ast.Node, iocopy *core.Fn, wantReader types.Object) {
	c := r.c
	info := fn.Pkg.TypesInfo
	calls := callsTo(info, root, iocopy.Obj, false)
	if len(calls) != 1 {
		c.Undecidedf("R3.bounded", key+"/copy", root.Pos(), "expected one Iocopy call in the RDB copy, found %d", len(calls))
		return
	}
	call := calls[0]
	c.Check("R2.reader", key+"/copy-reader", call.Pos(), flow.IsObj(info, wantReader)(call.Args[0]),
		"the RDB is copied from the buffered reader that was handed over: bytes already buffered there would otherwise be skipped")
	path := core.PathTo(root, call)
	var loop *ast.ForStmt
	for _, n := range path {
		if fs, ok := n.(*ast.ForStmt); ok {
			loop = fs
		}
	}
	maxArg := flow.Resolve(info, root, call.Args[3])
	pbuf := flow.Obj(info, call.Args[2])
	if lc, ok := unconv(info, maxArg).(*ast.CallExpr); ok && flow.IsBuiltin(info, lc, "len") && pbuf != nil && flow.IsObj(info, pbuf)(lc.Args[0]) {
		c.Failf("R3.bounded", key+"/max-is-remaining", call.Pos(), "the RDB copy is bounded by the buffer size, not by the bytes still to copy: the last Read runs past the end of the RDB and the first command bytes end up in the RDB consumer / dump file")
		return
	}
	// form A: x -= Iocopy(.., x)   under  for x != 0
	var stmt ast.Stmt
	for _, n := range path {
		if s, ok := n.(ast.Stmt); ok {
			if _, isBlock := s.(*ast.BlockStmt); !isBlock {
				stmt = s
			}
		}
	}
	_ = stmt
	if x := flow.Obj(info, maxArg); x != nil {
		sub := false
		isCall := func(e ast.Expr) bool { return unconv(info, flow.ValueOf(info, root, unconv(info, e))) == ast.Expr(call) }
		core.Inspect(root, func(m ast.Node) bool {
			if as, ok := m.(*ast.AssignStmt); ok && len(as.Lhs) == 1 && len(as.Rhs) == 1 && flow.IsObj(info, x)(as.Lhs[0]) {
				if as.Tok == token.SUB_ASSIGN && isCall(as.Rhs[0]) {
					sub = true
				}
				if be, ok := ast.Unparen(as.Rhs[0]).(*ast.BinaryExpr); ok && as.Tok == token.ASSIGN && be.Op == token.SUB && flow.IsObj(info, x)(be.X) && isCall(be.Y) {
					sub = true
				}
			}
			return true
		})
		if !sub {
			c.Undecidedf("R3.bounded", key+"/max-is-remaining", call.Pos(), "the result of Iocopy is not subtracted from its max argument %s", x.Name())
			return
		}
		c.Okf("R3.bounded", key+"/max-is-remaining", call.Pos(), "max is the remaining count %s and the result is subtracted from it", x.Name())
		isX := flow.IsObj(info, x)
		if loop == nil || loop.Cond == nil {
			c.Undecidedf("R3.bounded", key+"/until-exhausted", call.Pos(), "the copy is not inside a conditional for loop")
			return
		}
		okc := false
		for _, f := range cfgq.Facts(loop.Cond, true) {
			okc = okc || nonZero(info, f, isX)
		}
		okx := false
		for _, f := range cfgq.Facts(loop.Cond, false) {
			if op, k, ok := flow.Cmp(info, f, isX); ok && (op == token.EQL && k == 0 || op == token.LEQ && k == 0 || op == token.LSS && k == 1) {
				okx = true
			}
		}
		c.Check("R3.bounded", key+"/until-exhausted", loop.Pos(), okc && okx, fmt.Sprintf("the loop must run while %s != 0 and stop only at 0: stopping earlier leaves RDB bytes in front of the command stream", x.Name()))
		return
	}
	// form B: max = int(total - done.Get()); done.Add(int64(Iocopy(..)))  under  for total != done.Get()
	b := pat.Expr("_total - _done.Get()").Match(info, unconv(info, maxArg), nil)
	if b == nil {
		c.Undecidedf("R3.bounded", key+"/max-is-remaining", call.Pos(), "max argument %s is neither the remaining counter nor total - done.Get()", c.Src(call.Args[3]))
		return
	}
	added := false
	core.Inspect(root, func(m ast.Node) bool {
		if ac, ok := m.(*ast.CallExpr); ok {
			if ab := pat.Expr("_done.Add(_v)").Match(info, ac, pat.Binds{"_done": b["_done"]}); ab != nil {
				if unconv(info, flow.ValueOf(info, root, unconv(info, ab["_v"].(ast.Expr)))) == ast.Expr(call) {
					added = true
				}
			}
		}
		return true
	})
	if !added {
		c.Undecidedf("R3.bounded", key+"/max-is-remaining", call.Pos(), "the result of Iocopy is not added to the progress counter %s", c.Src(b["_done"]))
		return
	}
	c.Okf("R3.bounded", key+"/max-is-remaining", call.Pos(), "max is total - done and the result is added to done")
	if loop == nil || loop.Cond == nil {
		c.Undecidedf("R3.bounded", key+"/until-exhausted", call.Pos(), "the copy is not inside a conditional for loop")
		return
	}
	okc := pat.Expr("_total != _done.Get()").Match(info, loop.Cond, b) != nil || pat.Expr("_done.Get() < _total").Match(info, loop.Cond, b) != nil
	c.Check("R3.bounded", key+"/until-exhausted", loop.Pos(), okc, "the loop must run exactly while done != total: stopping earlier truncates the dump and leaves RDB bytes in front of the command stream")
}

// ---------------------------------------------------------------------------
// R5: SendPSyncContinue

func (r *rs) psyncReply() {
	c := r.c
	fn, wait := c.Func(pkgU, "", "SendPSyncContinue"), c.Func(pkgU, "", "waitRdbDump")
	if fn == nil || wait == nil {
		return
	}
	info := fn.Pkg.TypesInfo
	g := cfgq.Of(c.Program, fn)
	brID, br := param(fn, 0)
	runID, _ := param(fn, 2)
	offID, _ := param(fn, 3)
	// reply decoded from br
	dec, db := pat.Stmt("_r, _e = redis.Decode(_br)").Find(info, fn.Decl.Body, pat.Binds{"_br": brID})
	if dec == nil {
		c.Undecidedf("R5.reply", "SendPSyncContinue/decode", fn.Decl.Pos(), "cannot find `r, e := redis.Decode(br)` on the reader parameter")
		return
	}
	_, sb := pat.Stmt("_x, _err = redis.AsString(_r, nil)").Find(info, fn.Decl.Body, db)
	var xb pat.Binds
	if sb != nil {
		_, xb = pat.Stmt("_xx = strings.Split(string(_x), _sep)").Find(info, fn.Decl.Body, sb)
	}
	if xb == nil {
		c.Undecidedf("R5.reply", "SendPSyncContinue/fields", dec.Pos(), "cannot find the reply line being split into fields")
		return
	}
	if s, ok := core.StringConst(info, xb["_sep"].(ast.Expr)); !ok || s != " " {
		c.Check("R5.reply", "SendPSyncContinue/fields", dec.Pos(), false, fmt.Sprintf("the reply fields are separated by one space (found %q): run id and offset are taken from the wrong places", s))
	}
	field := func(e ast.Expr) int64 {
		b := pat.Expr("_xx[_i]").Match(info, e, pat.Binds{"_xx": xb["_xx"]})
		if b == nil {
			return -1
		}
		k, ok := core.IntConst(info, b["_i"].(ast.Expr))
		if !ok {
			return -1
		}
		return k
	}
	// keyword tests
	kwFact := func(want string) func(cfgq.Fact) bool {
		return func(f cfgq.Fact) bool {
			s, eq, ok := flow.StrCmp(info, f, func(e ast.Expr) bool { return true })
			return ok && eq && strings.ToLower(s) == want
		}
	}
	seen := map[string]bool{}
	core.Inspect(fn.Decl.Body, func(m ast.Node) bool {
		be, ok := m.(*ast.BinaryExpr)
		if !ok || be.Op != token.EQL && be.Op != token.NEQ {
			return true
		}
		for _, side := range [][2]ast.Expr{{be.X, be.Y}, {be.Y, be.X}} {
			s, isC := core.StringConst(info, side[1])
			kw := strings.ToLower(s)
			if !isC || kw != "continue" && kw != "fullresync" {
				continue
			}
			seen[kw] = true
			key := "SendPSyncContinue/keyword-" + kw
			other := ast.Unparen(side[0])
			call, isCall := other.(*ast.CallExpr)
			f := (*types.Func)(nil)
			if isCall {
				f = core.CalleeFunc(info, call)
			}
			switch {
			case f != nil && core.IsFunc(f, "strings", "", "ToLower") && field(call.Args[0]) == 0:
				c.Check("R5.reply", key, be.Pos(), s == kw, fmt.Sprintf("a lower-cased field is compared with %q, which can never match: the reply is rejected whatever its letter case", s))
			case f != nil && core.IsFunc(f, "strings", "", "ToUpper") && field(call.Args[0]) == 0:
				c.Check("R5.reply", key, be.Pos(), s == strings.ToUpper(s), fmt.Sprintf("an upper-cased field is compared with %q, which can never match: the reply is rejected whatever its letter case", s))
			case field(other) == 0:
				c.Failf("R5.reply", key, be.Pos(), "field 0 is compared with %q case-sensitively: a reply spelled in the other letter case (e.g. %q) is rejected", s, swapCase(s))
			default:
				c.Undecidedf("R5.reply", key, be.Pos(), "keyword comparison %s not recognised", c.Src(be))
			}
		}
		return true
	})
	for _, kw := range []string{"continue", "fullresync"} {
		if !seen[kw] {
			c.Undecidedf("R5.reply", "SendPSyncContinue/keyword-"+kw, fn.Decl.Pos(), "no comparison with the keyword %q found (strings.EqualFold or another idiom?)", kw)
		}
	}
	// classify successful returns by the keyword edge they sit behind
	nc, nf := 0, 0
	for _, pt := range g.Points(func(m ast.Node) bool { ret, ok := m.(*ast.ReturnStmt); return ok && len(ret.Results) == 4 }) {
		ret := pt.Node().(*ast.ReturnStmt)
		if !core.IsNil(info, ret.Results[3]) {
			continue
		}
		viaC, _ := flow.OnlyVia(g, pt, kwFact("continue"))
		viaF, _ := flow.OnlyVia(g, pt, kwFact("fullresync"))
		switch {
		case viaC && !viaF:
			nc++
			r.continueReturn(fn, g, ret, runID, offID)
		case viaF && !viaC:
			nf++
			// run id <- field 1, offset <- ParseInt(field 2), header read from br
			rid := flow.Resolve(info, fn.Decl.Body, ret.Results[0])
			c.Check("R5.reply", "SendPSyncContinue/fullresync-runid", ret.Pos(), field(rid) == 1, fmt.Sprintf("on FULLRESYNC the run id is reply field 1 (found %s): a wrong run id makes every later PSYNC a full resync or, worse, continues the wrong history", c.Src(rid)))
			off := flow.Resolve(info, fn.Decl.Body, ret.Results[1])
			okOff := false
			if oo := flow.Obj(info, off); oo != nil {
				if as, ob := pat.Stmt("_v, _e2 = strconv.ParseInt(_src, _base, _bits)").Find(info, fn.Decl.Body, nil); as != nil && flow.Obj(info, ob["_v"]) == oo {
					okOff = field(ob["_src"].(ast.Expr)) == 2 && isConst(info, ob["_base"].(ast.Expr), 10) && isConst(info, ob["_bits"].(ast.Expr), 64)
				}
			}
			c.Check("R5.reply", "SendPSyncContinue/fullresync-offset", ret.Pos(), okOff, "on FULLRESYNC the offset is ParseInt(field 2, 10, 64): any other value shifts every offset acknowledged and resumed from afterwards")
			wc, isCall := ast.Unparen(ret.Results[2]).(*ast.CallExpr)
			if !isCall || core.CalleeFunc(info, wc) != wait.Obj {
				c.Undecidedf("R2.reader", "SendPSyncContinue/header-reader", ret.Pos(), "the third result %s is not a call of waitRdbDump", c.Src(ret.Results[2]))
			} else {
				c.Check("R2.reader", "SendPSyncContinue/header-reader", wc.Pos(), flow.IsObj(info, br)(wc.Args[0]),
					"the RDB header must be read from the very reader that decoded +FULLRESYNC: that reader may already hold the '$n' line and RDB bytes in its buffer, which any other reader never sees")
			}
		default:
			c.Undecidedf("R5.reply", "SendPSyncContinue/success-return", ret.Pos(), "successful return %s is not behind exactly one keyword test", c.Src(ret))
		}
	}
	if nc != 1 || nf != 1 {
		c.Undecidedf("instances", "R5.reply", fn.Decl.Pos(), "expected one successful return per keyword, found continue=%d fullresync=%d", nc, nf)
	}
}

func swapCase(s string) string {
	if s == strings.ToLower(s) {
		return strings.ToUpper(s)
	}
	return strings.ToLower(s)
}

// continueReturn: `return runid, offset - k, nil, nil` with runid = InRunid, offset = inOffset (+k when != -1).
func (r *rs) continueReturn(fn *core.Fn, g *cfgq.Graph, ret *ast.ReturnStmt, runID, offID *ast.Ident) {
	c := r.c
	info := fn.Pkg.TypesInfo
	body := fn.Decl.Body
	c.Check("R5.reply", "SendPSyncContinue/continue-no-rdb", ret.Pos(), core.IsNil(info, ret.Results[2]), "on CONTINUE no RDB follows: the wait channel must be nil so that the caller starts the command phase at once")
	// run id
	valueIs := func(e ast.Expr, src *ast.Ident) (bool, bool) {
		if pat.Same(info, e, src) {
			return true, true
		}
		o := flow.Obj(info, e)
		if o == nil {
			return false, false
		}
		defs, other := defsOf(info, body, o)
		if other > 0 || len(defs) != 1 {
			return false, false
		}
		return pat.Same(info, defs[0], src), true
	}
	ok, known := valueIs(ret.Results[0], runID)
	if !known {
		c.Undecidedf("R5.reply", "SendPSyncContinue/continue-runid", ret.Pos(), "cannot trace %s to a single definition", c.Src(ret.Results[0]))
	} else {
		c.Check("R5.reply", "SendPSyncContinue/continue-runid", ret.Pos(), ok, "on CONTINUE the caller's run id is returned unchanged")
	}
	// offset: the value sent is inOffset+k (when != -1), the value returned must undo exactly that k
	b := pat.Expr("_off - _k").Match(info, ret.Results[1], nil)
	var back int64
	var off types.Object
	if b != nil {
		k, isC := core.IntConst(info, b["_k"].(ast.Expr))
		if !isC {
			b = nil
		}
		back, off = k, flow.Obj(info, b["_off"])
	} else if o := flow.Obj(info, ret.Results[1]); o != nil {
		b, off = pat.Binds{}, o
	}
	if b == nil || off == nil {
		c.Undecidedf("R5.reply", "SendPSyncContinue/continue-offset", ret.Pos(), "offset result %s not recognised", c.Src(ret.Results[1]))
		return
	}
	var fwd int64
	nplain, nother := 0, 0
	core.Inspect(body, func(m ast.Node) bool {
		switch s := m.(type) {
		case *ast.AssignStmt:
			for i, l := range s.Lhs {
				if !flow.IsObj(info, off)(l) {
					continue
				}
				k, isC := int64(0), false
				if len(s.Lhs) == len(s.Rhs) {
					k, isC = core.IntConst(info, s.Rhs[i])
				}
				switch {
				case s.Tok == token.ASSIGN && len(s.Lhs) == len(s.Rhs) && pat.Same(info, s.Rhs[i], offID):
					nplain++
				case s.Tok == token.ADD_ASSIGN && isC:
					fwd += k
				case s.Tok == token.SUB_ASSIGN && isC:
					fwd -= k
				default:
					nother++
				}
			}
		case *ast.IncDecStmt:
			if flow.IsObj(info, off)(s.X) {
				if s.Tok == token.INC {
					fwd++
				} else {
					fwd--
				}
			}
		}
		return true
	})
	if nplain != 1 || nother > 0 {
		c.Undecidedf("R5.reply", "SendPSyncContinue/continue-offset", ret.Pos(), "the offset variable is not `offset = inOffset` plus constant adjustments")
		return
	}
	c.Check("R5.reply", "SendPSyncContinue/continue-offset", ret.Pos(), fwd == back,
		fmt.Sprintf("PSYNC is sent with inOffset%+d and CONTINUE returns that value %+d: the caller's offset comes back shifted by %+d, so the bytes counted from it are acknowledged/resumed at the wrong position (lost or duplicated after a reconnect)", fwd, -back, fwd-back))
}

// ---------------------------------------------------------------------------
// R2 / R5.use: sendPSyncCmd

func (r *rs) sendPSyncCmd() {
	c := r.c
	fn, spc, ris := c.Func(pkgS, "DbSyncer", "sendPSyncCmd"), c.Func(pkgU, "", "SendPSyncContinue"), c.Func(pkgS, "DbSyncer", "runIncrementalSync")
	if fn == nil || spc == nil || ris == nil {
		return
	}
	info := fn.Pkg.TypesInfo
	g := cfgq.Of(c.Program, fn)
	calls := callsTo(info, fn.Decl.Body, spc.Obj, false)
	if len(calls) != 1 {
		c.Undecidedf("R2.reader", "sendPSyncCmd/handshake-reader", fn.Decl.Pos(), "expected one SendPSyncContinue call, found %d", len(calls))
		return
	}
	hs := calls[0]
	nrs := readersLike(info, fn.Decl.Body, newReaders(info, fn.Decl.Body, true), flow.Obj(info, hs.Args[0]))
	if len(nrs) == 0 {
		c.Undecidedf("R2.reader", "sendPSyncCmd/one-reader", fn.Decl.Pos(), "no bufio reader is created")
		return
	}
	conn := flow.Obj(info, nrs[0].Args[0])
	br := assignedVar(info, fn.Decl.Body, nrs[0], 0)
	pt, inGraph := g.Find(nrs[0])
	loops := inGraph && g.Path(cfgq.Query{From: pt, After: true, Target: isNode(pt.Node())}) != nil
	c.Check("R2.reader", "sendPSyncCmd/one-reader", nrs[0].Pos(), len(nrs) == 1 && !loops,
		fmt.Sprintf("exactly one buffered reader may be created over the source connection (found %d, in a loop: %v): a second reader starts behind whatever the first one has already buffered (the '$n' header or RDB bytes), which is lost", len(nrs), loops))
	if conn == nil || br == nil || flow.Assignments(info, fn.Decl.Body, br) != 1 || flow.Assignments(info, fn.Decl.Body, conn) != 1 {
		c.Undecidedf("R2.reader", "sendPSyncCmd/reader-var", nrs[0].Pos(), "connection or reader is not a single-assignment variable")
		return
	}
	c.Check("R2.reader", "sendPSyncCmd/handshake-reader", hs.Pos(), flow.IsObj(info, br)(hs.Args[0]), "the PSYNC reply must be decoded through the connection's single buffered reader")
	// results of the handshake
	var res [4]types.Object
	for i := range res {
		res[i] = assignedVar(info, fn.Decl.Body, hs, i)
	}
	if res[0] == nil || res[1] == nil || res[2] == nil {
		c.Undecidedf("R5.use", "sendPSyncCmd/results", hs.Pos(), "the results of SendPSyncContinue are not bound to variables")
		return
	}
	hp, _ := g.Find(hs)
	gos := callsTo(info, fn.Decl.Body, ris.Obj, false)
	if len(gos) < 2 {
		c.Undecidedf("instances", "R2.reader", fn.Decl.Pos(), "expected the CONTINUE and the FULLRESYNC start of runIncrementalSync, found %d", len(gos))
	}
	// the announced offset is stored before the copy starts
	stored := func(m ast.Node) bool {
		as, ok := m.(*ast.AssignStmt)
		if !ok || len(as.Lhs) != len(as.Rhs) {
			return false
		}
		for i, l := range as.Lhs {
			if core.IsFieldNamed(info, l, "DbSyncer", "sourceOffset") && flow.IsObj(info, res[1])(as.Rhs[i]) {
				return true
			}
		}
		return false
	}
	for i, gc := range gos {
		key := fmt.Sprintf("sendPSyncCmd/start#%d", i+1)
		gp, ok := g.Find(gc)
		if !ok {
			c.Undecidedf("R2.reader", key, gc.Pos(), "call not in the control-flow graph")
			continue
		}
		c.Check("R2.reader", key+"/same-conn-and-reader", gc.Pos(), flow.IsObj(info, conn)(gc.Args[0]) && flow.IsObj(info, br)(gc.Args[1]),
			"the copy goroutine must get the connection together with the one reader created over it: the reader holds the bytes that follow the PSYNC reply")
		okS, wS := g.Dominated(gp, stored)
		c.Check("R5.use", key+"/offset-stored", gc.Pos(), okS, "the offset announced by the source must be stored in ds.sourceOffset before the stream is consumed: all later ACKs and checkpoints count from it", wS...)
		c.Check("R5.use", key+"/runid-passed", gc.Pos(), flow.IsObj(info, res[0])(gc.Args[4]), "the run id announced by the source is the one the copy loop reconnects with")
		// the size
		isWait := flow.IsObj(info, res[2])
		size := unconv(info, flow.Resolve(info, fn.Decl.Body, gc.Args[3]))
		if isConst(info, size, 0) {
			okN, wN := flow.OnlyVia(g, gp, func(f cfgq.Fact) bool { isNil, ok := flow.NilCmp(info, f, isWait); return ok && isNil })
			c.Check("R5.use", key+"/size", gc.Pos(), okN, "the copy may start with RDB size 0 only when the handshake returned no wait channel (CONTINUE): otherwise the RDB is fed to the command parser", wN...)
		} else if so := flow.Obj(info, size); so != nil {
			recv := false
			core.Inspect(fn.Decl.Body, func(m ast.Node) bool {
				if as, ok := m.(*ast.AssignStmt); ok && len(as.Lhs) == 1 && len(as.Rhs) == 1 && flow.IsObj(info, so)(as.Lhs[0]) {
					if u, ok := ast.Unparen(as.Rhs[0]).(*ast.UnaryExpr); ok && u.Op == token.ARROW && isWait(u.X) {
						recv = true
					}
				}
				return true
			})
			okZ, wZ := flow.OnlyVia(g, gp, func(f cfgq.Fact) bool { return nonZero(info, f, flow.IsObj(info, so)) })
			c.Check("R5.use", key+"/size", gc.Pos(), recv && okZ, "the RDB size handed to the copy loop is the non-zero value received from the handshake's wait channel (0 ticks are keep-alives)", wZ...)
		} else {
			c.Undecidedf("R5.use", key+"/size", gc.Pos(), "size argument %s not recognised", c.Src(gc.Args[3]))
		}
	}
	// successful returns report the announced run id
	for _, p := range g.Points(func(m ast.Node) bool { ret, ok := m.(*ast.ReturnStmt); return ok && len(ret.Results) == 5 }) {
		ret := p.Node().(*ast.ReturnStmt)
		if !core.IsNil(info, ret.Results[4]) || g.Path(cfgq.Query{From: hp, After: true, Target: isNode(ret)}) == nil {
			continue
		}
		c.Check("R5.use", "sendPSyncCmd/returns-runid", ret.Pos(), flow.IsObj(info, res[0])(ret.Results[3]), "the run id reported to Sync is the one announced by the source")
	}
}

// ---------------------------------------------------------------------------
// R2 + R3 caller: runIncrementalSync

func (r *rs) runIncrementalSync() {
	c := r.c
	fn, ioc, ppc := c.Func(pkgS, "DbSyncer", "runIncrementalSync"), c.Func(pkgU, "", "Iocopy"), c.Func(pkgS, "DbSyncer", "pSyncPipeCopy")
	if fn == nil || ioc == nil || ppc == nil {
		return
	}
	info := fn.Pkg.TypesInfo
	g := cfgq.Of(c.Program, fn)
	_, conn := param(fn, 0)
	_, br := param(fn, 1)
	r.boundedCaller("runIncrementalSync", fn, fn.Decl.Body, ioc, br)
	setsConn, setsBr := assignsTo(info, conn), assignsTo(info, br)
	copies := callsTo(info, fn.Decl.Body, ppc.Obj, false)
	isCopy := flow.CallOn(g, func(call *ast.CallExpr) bool {
		f := core.CalleeFunc(info, call)
		return f == ppc.Obj || f == ioc.Obj
	})
	for i, call := range copies {
		c.Check("R2.reader", fmt.Sprintf("runIncrementalSync/stream-copy#%d", i+1), call.Pos(), flow.IsObj(info, conn)(call.Args[0]) && flow.IsObj(info, br)(call.Args[1]),
			"the command stream is copied from the reader that the RDB was copied from (and the connection it wraps): the first command bytes are usually already in that reader's buffer")
	}
	if len(copies) == 0 {
		c.Undecidedf("R2.reader", "runIncrementalSync/stream-copy", fn.Decl.Pos(), "no pSyncPipeCopy call")
	}
	for i, nr := range newReaders(info, fn.Decl.Body, false) {
		key := fmt.Sprintf("runIncrementalSync/new-reader#%d", i+1)
		p, ok := g.Find(nr)
		if !ok || !flow.IsObj(info, conn)(nr.Args[0]) || assignedVar(info, fn.Decl.Body, nr, 0) != br {
			c.Undecidedf("R2.reader", key, nr.Pos(), "%s is not `br = bufio.NewReader*(c)`", c.Src(nr))
			continue
		}
		w := g.Path(cfgq.Query{From: g.Entry(), Avoid: setsConn, Target: isNode(p.Node())})
		c.Check("R2.reader", key+"/only-on-new-conn", nr.Pos(), w == nil, "a new buffered reader may be created only after the connection variable was replaced: a second reader over the original connection misses the bytes the first one has buffered", w...)
		w2 := g.Path(cfgq.Query{From: p, After: true, Avoid: setsConn, Target: func(m ast.Node) bool {
			return len(newReaders(info, m, false)) > 0
		}})
		c.Check("R2.reader", key+"/once-per-conn", nr.Pos(), w2 == nil, "at most one buffered reader per connection", w2...)
	}
	for i, p := range g.Points(setsConn) {
		w := g.Path(cfgq.Query{From: p, After: true, Avoid: cfgq.Or(setsBr, setsConn), Target: isCopy})
		c.Check("R2.reader", fmt.Sprintf("runIncrementalSync/reconnect#%d/fresh-reader", i+1), p.Node().Pos(), w == nil, "after the connection was replaced nothing may be copied through the old reader: it still holds (and would replay) bytes of the dead connection", w...)
	}
}

// ---------------------------------------------------------------------------
// R6: pSyncPipeCopy

func (r *rs) pipeCopy() {
	c := r.c
	fn := c.Func(pkgS, "DbSyncer", "pSyncPipeCopy")
	if fn == nil {
		return
	}
	info := fn.Pkg.TypesInfo
	g := cfgq.Of(c.Program, fn)
	_, br := param(fn, 1)
	_, dst := param(fn, 3)
	reads := flow.FindCalls(fn.Decl.Body, func(call *ast.CallExpr) bool { return flow.MethodOn(call, "Read", flow.IsObj(info, br)) && len(call.Args) == 1 })
	writes := flow.FindCalls(fn.Decl.Body, func(call *ast.CallExpr) bool { return flow.MethodOn(call, "Write", flow.IsObj(info, dst)) && len(call.Args) == 1 })
	if len(reads) != 1 || len(writes) != 1 {
		c.Undecidedf("R6.copy", "pSyncPipeCopy/shape", fn.Decl.Pos(), "expected one br.Read and one copyto.Write, found %d and %d", len(reads), len(writes))
		return
	}
	rd, wr := reads[0], writes[0]
	n, rerr := assignedVar(info, fn.Decl.Body, rd, 0), assignedVar(info, fn.Decl.Body, rd, 1)
	werr := assignedVar(info, fn.Decl.Body, wr, 1)
	buf := flow.Obj(info, rd.Args[0])
	if n == nil || rerr == nil || werr == nil || buf == nil {
		c.Undecidedf("R6.copy", "pSyncPipeCopy/shape", rd.Pos(), "results of Read/Write are not bound to variables")
		return
	}
	rp, _ := g.Find(rd)
	wp, _ := g.Find(wr)
	nilFact := func(o types.Object) func(cfgq.Fact) bool {
		return func(f cfgq.Fact) bool { isNil, ok := flow.NilCmp(info, f, flow.IsObj(info, o)); return ok && isNil }
	}
	// written slice
	arg := ast.Unparen(flow.Resolve(info, fn.Decl.Body, wr.Args[0]))
	switch {
	case prefixOf(info, arg, flow.IsObj(info, buf), flow.IsObj(info, n)):
		c.Okf("R6.copy", "pSyncPipeCopy/write-prefix", wr.Pos(), "writes p[:n]")
	case flow.IsObj(info, buf)(arg):
		c.Failf("R6.copy", "pSyncPipeCopy/write-prefix", wr.Pos(), "the whole buffer is written instead of the n bytes read: stale bytes of earlier reads are injected into the command stream")
	default:
		c.Undecidedf("R6.copy", "pSyncPipeCopy/write-prefix", wr.Pos(), "Write argument %s not recognised", c.Src(arg))
	}
	ok1, w1 := flow.OnlyVia(g, wp, nilFact(rerr))
	okd, _ := g.Dominated(wp, isNode(rp.Node()))
	c.Check("R6.copy", "pSyncPipeCopy/write-after-good-read", wr.Pos(), ok1 && okd, "a write happens only after a read that returned no error", w1...)
	// the counter
	adds := flow.FindCalls(fn.Decl.Body, func(call *ast.CallExpr) bool {
		return pat.Expr("_c.Add(_v)").Match(info, call, nil) != nil && flow.IsObj(info, n)(unconv(info, call.Args[0]))
	})
	if len(adds) != 1 {
		c.Undecidedf("R6.copy", "pSyncPipeCopy/count", fn.Decl.Pos(), "expected one counter.Add(n), found %d", len(adds))
		return
	}
	ap, _ := g.Find(adds[0])
	okA, wA := g.Dominated(ap, isNode(wp.Node()))
	okE, wE := flow.OnlyVia(g, ap, nilFact(werr))
	c.Check("R6.copy", "pSyncPipeCopy/count-after-write", adds[0].Pos(), okA, "n is counted only after the n bytes were written: counting first advances the acknowledged offset past bytes that a failing write never delivered", wA...)
	c.Check("R6.copy", "pSyncPipeCopy/count-only-on-success", adds[0].Pos(), okE, "n is counted only when the write reported no error: otherwise the offset used for the reconnect skips bytes that were never forwarded (lost)", wE...)
	w := g.Path(cfgq.Query{From: wp, After: true, Avoid: isNode(ap.Node()), AvoidEdge: flow.ErrEdge(g), Target: isNode(rp.Node())})
	c.Check("R6.copy", "pSyncPipeCopy/every-write-counted", wr.Pos(), w == nil, "every successful write is counted before the next read: uncounted bytes are requested again after a reconnect (duplicated)", w...)
	w2 := g.Path(cfgq.Query{From: rp, After: true, Avoid: isNode(wp.Node()), AvoidEdge: flow.ErrEdge(g), Target: isNode(rp.Node())})
	c.Check("R6.copy", "pSyncPipeCopy/every-read-written", rd.Pos(), w2 == nil, "every successful read is written before the next read: otherwise the bytes of that read are dropped", w2...)
}

// ---------------------------------------------------------------------------
// dump mode and Sync: one reader, RDB loop bounded and flushed

func (r *rs) dumpSide() {
	c := r.c
	dump, sendCmd, rdbFile := c.Func(pkgR, "dbDumper", "dump"), c.Func(pkgR, "dbDumper", "sendCmd"), c.Func(pkgR, "dbDumper", "dumpRDBFile")
	ioc, flush := c.Func(pkgU, "", "Iocopy"), c.Func(pkgU, "", "FlushWriter")
	if dump == nil || sendCmd == nil || rdbFile == nil || ioc == nil || flush == nil {
		return
	}
	info := dump.Pkg.TypesInfo
	sc := callsTo(info, dump.Decl.Body, sendCmd.Obj, false)
	df := callsTo(info, dump.Decl.Body, rdbFile.Obj, false)
	var nrs []*ast.CallExpr
	if len(df) == 1 {
		nrs = readersLike(info, dump.Decl.Body, newReaders(info, dump.Decl.Body, true), flow.Obj(info, df[0].Args[0]))
	}
	if len(nrs) == 0 || len(sc) != 1 || len(df) != 1 {
		c.Undecidedf("R2.reader", "dump/shape", dump.Decl.Pos(), "expected sendCmd, one buffered reader and dumpRDBFile in dump")
		return
	}
	master, size := assignedVar(info, dump.Decl.Body, sc[0], 0), assignedVar(info, dump.Decl.Body, sc[0], 1)
	rdv := assignedVar(info, dump.Decl.Body, nrs[0], 0)
	c.Check("R2.reader", "dump/one-reader", nrs[0].Pos(), len(nrs) == 1, fmt.Sprintf("exactly one buffered reader over the source connection (found %d): the bytes after the RDB sit in that reader's buffer and are the start of the command phase", len(nrs)))
	if master == nil || rdv == nil || size == nil || flow.Assignments(info, dump.Decl.Body, rdv) != 1 {
		c.Undecidedf("R2.reader", "dump/reader-var", nrs[0].Pos(), "connection, size or reader not bound to single-assignment variables")
		return
	}
	c.Check("R2.reader", "dump/reader-over-conn", nrs[0].Pos(), flow.IsObj(info, master)(nrs[0].Args[0]), "the reader wraps the connection returned by sendCmd, i.e. it is created only after the '$n' header was consumed byte by byte")
	c.Check("R2.reader", "dump/copy-reader", df[0].Pos(), flow.IsObj(info, rdv)(df[0].Args[0]), "the RDB is dumped through that reader")
	c.Check("R3.bounded", "dump/size-passed", df[0].Pos(), flow.IsObj(info, size)(df[0].Args[2]), "the size announced by the source bounds the dump")
	nret := 0
	core.Inspect(dump.Decl.Body, func(m ast.Node) bool {
		if ret, ok := m.(*ast.ReturnStmt); ok && len(ret.Results) == 3 {
			nret++
			c.Check("R2.reader", "dump/returns-reader", ret.Pos(), flow.IsObj(info, rdv)(ret.Results[0]), "the command phase continues on the same reader: a fresh reader would miss the bytes buffered behind the RDB")
		}
		return true
	})
	if nret == 0 {
		c.Undecidedf("R2.reader", "dump/returns-reader", dump.Decl.Pos(), "no 3-result return in dump")
	}
	// the copy loop lives in a goroutine literal of dumpRDBFile
	_, rparam := param(rdbFile, 0)
	wid, _ := param(rdbFile, 1)
	var lit *ast.FuncLit
	for _, fl := range core.FuncLits(rdbFile.Decl.Body) {
		if len(callsTo(info, fl, ioc.Obj, false)) > 0 {
			lit = fl
		}
	}
	if lit == nil {
		c.Undecidedf("R3.bounded", "dumpRDBFile/copy", rdbFile.Decl.Pos(), "cannot find the goroutine that calls Iocopy")
		return
	}
	r.boundedCaller("dumpRDBFile", rdbFile, lit, ioc, rparam)
	g := cfgq.OfLit(c.Program, info, lit)
	call := callsTo(info, lit, ioc.Obj, false)[0]
	if !pat.Same(info, call.Args[1], wid) {
		c.Undecidedf("R3.bounded", "dumpRDBFile/flush", call.Pos(), "the copy does not write to the writer parameter")
		return
	}
	cp, _ := g.Find(call)
	isFlush := flow.CallOn(g, func(fc *ast.CallExpr) bool {
		return core.CalleeFunc(info, fc) == flush.Obj && pat.Same(info, fc.Args[0], wid) || pat.Expr("_w.Flush()").Match(info, fc, pat.Binds{"_w": wid}) != nil
	})
	w := g.Path(cfgq.Query{From: cp, After: true, Avoid: isFlush, TargetExit: cfgq.NormalExit})
	c.Check("R3.bounded", "dumpRDBFile/flush", call.Pos(), w == nil, "every copied chunk is flushed before the goroutine ends: otherwise the tail of the RDB stays in the buffered writer and the dump file is shorter than the n announced bytes", w...)
}

func (r *rs) syncEntry() {
	c := r.c
	fn, rdb, cmd := c.Func(pkgS, "DbSyncer", "Sync"), c.Func(pkgS, "DbSyncer", "syncRDBFile"), c.Func(pkgS, "DbSyncer", "syncCommand")
	if fn == nil || rdb == nil || cmd == nil {
		return
	}
	info := fn.Pkg.TypesInfo
	a, b := callsTo(info, fn.Decl.Body, rdb.Obj, false), callsTo(info, fn.Decl.Body, cmd.Obj, false)
	var nrs []*ast.CallExpr
	if len(a) == 1 {
		nrs = readersLike(info, fn.Decl.Body, newReaders(info, fn.Decl.Body, true), flow.Obj(info, a[0].Args[0]))
	}
	if len(nrs) == 0 || len(a) != 1 || len(b) != 1 {
		c.Undecidedf("R2.reader", "Sync/shape", fn.Decl.Pos(), "expected a buffered reader, one syncRDBFile and one syncCommand call")
		return
	}
	rdv := assignedVar(info, fn.Decl.Body, nrs[0], 0)
	c.Check("R2.reader", "Sync/one-reader", nrs[0].Pos(), len(nrs) == 1, fmt.Sprintf("exactly one buffered reader over the pipe (found %d)", len(nrs)))
	if rdv == nil || flow.Assignments(info, fn.Decl.Body, rdv) != 1 {
		c.Undecidedf("R2.reader", "Sync/reader-var", nrs[0].Pos(), "the reader is not a single-assignment variable")
		return
	}
	c.Check("R2.reader", "Sync/rdb-and-commands-share-reader", b[0].Pos(), flow.IsObj(info, rdv)(a[0].Args[0]) && flow.IsObj(info, rdv)(b[0].Args[0]),
		"the RDB loader and the command parser must read through the same buffered reader: the loader's reader has usually buffered the first commands, which a second reader never sees")
}

// rawConn: the raw connection leaves sendCmd/sendSyncCmd only once a non-zero size arrived.
func (r *rs) rawConn(pkgPath, recv, name string) {
	c := r.c
	fn, osc := c.Func(pkgPath, recv, name), c.Func(pkgU, "", "OpenSyncConn")
	if fn == nil || osc == nil {
		return
	}
	info := fn.Pkg.TypesInfo
	g := cfgq.Of(c.Program, fn)
	calls := callsTo(info, fn.Decl.Body, osc.Obj, false)
	if len(calls) != 1 {
		c.Undecidedf("R2.reader", name+"/raw-conn", fn.Decl.Pos(), "expected one OpenSyncConn call")
		return
	}
	conn, wait := assignedVar(info, fn.Decl.Body, calls[0], 0), assignedVar(info, fn.Decl.Body, calls[0], 1)
	k := 0
	for _, p := range g.Points(func(m ast.Node) bool { ret, ok := m.(*ast.ReturnStmt); return ok && len(ret.Results) == 2 }) {
		ret := p.Node().(*ast.ReturnStmt)
		so := flow.Obj(info, ret.Results[1])
		if conn == nil || wait == nil || so == nil || !flow.IsObj(info, conn)(ret.Results[0]) {
			c.Undecidedf("R2.reader", name+"/raw-conn", ret.Pos(), "return %s is not (connection, size variable)", c.Src(ret))
			continue
		}
		k++
		recvd := false
		core.Inspect(fn.Decl.Body, func(m ast.Node) bool {
			if as, ok := m.(*ast.AssignStmt); ok && len(as.Lhs) == 1 && len(as.Rhs) == 1 && flow.IsObj(info, so)(as.Lhs[0]) {
				if u, ok := ast.Unparen(as.Rhs[0]).(*ast.UnaryExpr); ok && u.Op == token.ARROW && flow.IsObj(info, wait)(u.X) {
					recvd = true
				}
			}
			return true
		})
		ok, w := flow.OnlyVia(g, p, func(f cfgq.Fact) bool { return nonZero(info, f, flow.IsObj(info, so)) })
		c.Check("R2.reader", name+"/raw-conn", ret.Pos(), ok && recvd,
			"the raw connection may be handed on only after a non-zero size was received from the header goroutine: before that the goroutine is still reading the same socket byte by byte, and a second reader would split the header/RDB bytes between the two", w...)
	}
	if k == 0 {
		c.Undecidedf("R2.reader", name+"/raw-conn", fn.Decl.Pos(), "no (connection, size) return found")
	}
}

// replyUsed: every caller of SendPSyncContinue must look at the wait channel
// it returns, because a non-nil channel means that an RDB precedes the commands.
func (r *rs) replyUsed() {
	c := r.c
	spc := c.Func(pkgU, "", "SendPSyncContinue")
	if spc == nil {
		return
	}
	n := 0
	for _, pp := range []string{pkgS, pkgR, pkgU} {
		pk := c.Pkg(pp)
		info := pk.TypesInfo
		for _, f := range pk.Syntax {
			for _, d := range f.Decls {
				fd, ok := d.(*ast.FuncDecl)
				if !ok || fd.Body == nil {
					continue
				}
				for _, call := range callsTo(info, fd.Body, spc.Obj, true) {
					n++
					wait := assignedVar(info, fd.Body, call, 2)
					used := false
					if wait != nil {
						core.InspectAll(fd.Body, func(m ast.Node) bool {
							if id, ok := m.(*ast.Ident); ok && info.Uses[id] == wait {
								used = true
							}
							return true
						})
					}
					c.Check("R5.use", fd.Name.Name+"/wait-result-used", call.Pos(), used,
						"the wait channel returned by SendPSyncContinue is discarded: when the source answers this PSYNC with +FULLRESYNC, the header goroutine started on the reader and the stream copy that follows read the same reader concurrently, so '$n', the RDB bytes and the commands are split between them and the command parser is fed RDB bytes (the announced run id/offset are ignored as well)")
				}
			}
		}
	}
	if n < 2 {
		c.Undecidedf("instances", "R5.use", token.NoPos, "only %d callers of SendPSyncContinue found, 2 confirmed by hand", n)
	}
}
