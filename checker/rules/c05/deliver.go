// R4 size-delivered (the parsed size reaches the caller) and R7 (the dump output file starts empty).
package c05

import (
	"fmt"
	"go/ast"
	"go/constant"
	"go/token"
	"go/types"

	"golang.org/x/tools/go/cfg"

	"rscheck/cfgq"
	"rscheck/core"
	"rscheck/rules/c10/flow"
)

// ---------------------------------------------------------------------------
// R4: the announcement of the size is not lossy
//
// The callers of waitRdbDump (sendPSyncCmd, sendCmd, sendSyncCmd) poll the channel until a non-zero value
// arrives; the header goroutine ends once it announced the size. So the one announcement of the parsed size
// must be taken by the receiver whatever the receiver is doing at that instant: it is a send that waits
// (a plain send statement, or the only alternative of a select), or a send that is retried until it was
// taken. A send that is one alternative of a select with a default clause gives up when the receiver is not
// ready (or, on a buffered channel, when the buffer still holds a keep-alive 0 nobody fetched yet); when
// the goroutine can end after giving up, the size is never delivered.
//
// go/cfg puts the communication statements of a select in front of the dispatch, so "the send happened"
// is not a node but the edge into the body block of its clause.
func (r *rs) sizeDelivered(g *cfgq.Graph, body *ast.BlockStmt, parse ast.Node, size cfgq.Point) {
	c := r.c
	const rule, key = "R4.frame", "waitRdbDump/size-delivered"
	sv, _ := size.Node().(*ast.SendStmt)
	if sv == nil {
		c.Undecidedf(rule, key, body.Pos(), "the announcement of the size is not a send statement")
		return
	}
	detail := "once the size was parsed it reaches the caller: it is announced by a send that waits for the receiver (or is repeated until it was taken) on every path on which the header goroutine ends normally; the callers poll the channel until a non-zero value arrives, so a size that was dropped is never delivered and neither the RDB consumer nor the command parser ever sees a byte"
	pp, ok := flow.PointOf(g, parse)
	if !ok {
		c.Undecidedf(rule, key, sv.Pos(), "the statement that parses the size is not in the goroutine's control-flow graph")
		return
	}
	// the end of a select without default after its last alternative is not an exit: nothing is ready, it waits
	normalExit := func(b *cfg.Block, k cfgq.ExitKind) bool {
		return cfgq.NormalExit(b, k) && !(b.Kind == cfg.KindSelectAfterCase && len(b.Nodes) == 0)
	}
	var clause *ast.CommClause
	var sel *ast.SelectStmt
	if path := core.PathTo(body, sv); len(path) >= 4 {
		if cc, isCC := path[len(path)-2].(*ast.CommClause); isCC && cc.Comm == ast.Stmt(sv) {
			clause = cc
			sel, _ = path[len(path)-4].(*ast.SelectStmt)
		}
	}
	if clause != nil {
		if sel == nil {
			c.Undecidedf(rule, key, sv.Pos(), "cannot find the select statement of the announcement")
			return
		}
		bodyOf := map[*ast.CommClause]*cfg.Block{}
		for _, b := range g.CFG.Blocks {
			if cc, isCC := b.Stmt.(*ast.CommClause); isCC && b.Kind == cfg.KindSelectCaseBody {
				bodyOf[cc] = b
			}
		}
		taken := bodyOf[clause]
		others := map[*cfg.Block]bool{}
		hasDefault := false
		for _, st := range sel.Body.List {
			cc, _ := st.(*ast.CommClause)
			switch {
			case cc == nil || cc == clause:
			case cc.Comm == nil:
				hasDefault = true
			case bodyOf[cc] != nil:
				others[bodyOf[cc]] = true
			default:
				taken = nil
			}
		}
		if taken == nil {
			c.Undecidedf(rule, key, sv.Pos(), "the alternatives of the select that announces the size are not in the control-flow graph")
			return
		}
		// gave up: neither this alternative nor another communication was chosen (the default clause ran)
		gaveUp := g.Path(cfgq.Query{From: size, After: true, TargetExit: normalExit,
			AvoidEdge: func(b *cfg.Block, s int) bool { return b.Succs[s] == taken || others[b.Succs[s]] }})
		if gaveUp != nil && hasDefault {
			c.Check(rule, key, sv.Pos(), false, detail+" (here the send is an alternative of a select with a default clause: when the receiver is not receiving at that instant, or the buffer of the channel still holds an unfetched keep-alive 0, the value is dropped and the goroutine ends)", gaveUp...)
			return
		}
		abandoned := g.Path(cfgq.Query{From: size, After: true, TargetExit: normalExit,
			AvoidEdge: func(b *cfg.Block, s int) bool { return b.Succs[s] == taken }})
		if abandoned != nil {
			c.Undecidedf(rule, key, sv.Pos(), "the announcement of the size can be abandoned in favour of another channel operation of the same select, after which the goroutine can end; whether that only happens when nobody waits for the size is not decided; required: %s", detail)
			return
		}
	}
	// a path from the parse to the normal end of the goroutine that does not come by the announcement at all
	if w := g.Path(cfgq.Query{From: pp, After: true, Avoid: isNode(sv), TargetExit: normalExit}); w != nil {
		c.Undecidedf(rule, key, sv.Pos(), "a path ends the header goroutine after the size was parsed without coming by its announcement; whether it can be taken is not decided; required: %s", detail)
		return
	}
	c.Check(rule, key, sv.Pos(), true, detail)
}

// ---------------------------------------------------------------------------
// R7: the dump output file starts empty
//
// dump writes exactly the n RDB bytes from offset 0 into the file its writer wraps and never shortens the
// file itself. The file is byte-identical to the RDB only if it holds nothing when the copy starts: the
// open call that produced the file value creates a new file or truncates an existing one. Followed by
// value flow from the writer argument of dumpRDBFile, through the bufio writer, the file variable and the
// functions of this module that return it, to the os call; the flags are evaluated as constants.

type openVerdict int

const (
	openEmpty openVerdict = iota
	openKeeps
	openUnknown
)

type openResult struct {
	v      openVerdict
	pos    token.Pos
	reason string
}

// binding of the parameters of a helper to the arguments of the call that is followed
type argBind struct {
	info *types.Info
	root ast.Node
	args map[types.Object]ast.Expr
	up   *argBind
}

func newWriters(info *types.Info, root ast.Node) []*ast.CallExpr {
	return core.CallsAll(root, info, func(call *ast.CallExpr, o types.Object) bool {
		f, _ := o.(*types.Func)
		return f != nil && f.Pkg() != nil && f.Pkg().Path() == "bufio" && (f.Name() == "NewWriter" || f.Name() == "NewWriterSize") && len(call.Args) >= 1
	})
}

// originCall: the call whose result idx is the value of e (through conversions and single-definition locals).
func originCall(info *types.Info, root ast.Node, e ast.Expr) (*ast.CallExpr, int) {
	e = unconv(info, flow.Resolve(info, root, unconv(info, e)))
	if call, ok := e.(*ast.CallExpr); ok {
		return call, 0
	}
	obj, _ := flow.Obj(info, e).(*types.Var)
	if obj == nil || obj.IsField() || flow.Assignments(info, root, obj) != 1 {
		return nil, 0
	}
	var out *ast.CallExpr
	idx := 0
	core.InspectAll(root, func(m ast.Node) bool {
		switch s := m.(type) {
		case *ast.AssignStmt:
			if len(s.Rhs) == 1 && len(s.Lhs) > 1 {
				for i, l := range s.Lhs {
					if flow.IsObj(info, obj)(l) {
						if call, ok := ast.Unparen(s.Rhs[0]).(*ast.CallExpr); ok {
							out, idx = call, i
						}
					}
				}
			}
		case *ast.ValueSpec:
			if len(s.Values) == 1 && len(s.Names) > 1 {
				for i, n := range s.Names {
					if info.Defs[n] == types.Object(obj) {
						if call, ok := ast.Unparen(s.Values[0]).(*ast.CallExpr); ok {
							out, idx = call, i
						}
					}
				}
			}
		}
		return true
	})
	return out, idx
}

// constFlags evaluates an integer expression made of constants, through single-definition locals and the
// parameters bound by the calls followed so far.
func constFlags(info *types.Info, root ast.Node, e ast.Expr, bind *argBind, depth int) (int64, bool) {
	if depth > 6 {
		return 0, false
	}
	e = unconv(info, e)
	if v, ok := core.IntConst(info, e); ok {
		return v, true
	}
	switch x := e.(type) {
	case *ast.BinaryExpr:
		a, okA := constFlags(info, root, x.X, bind, depth+1)
		b, okB := constFlags(info, root, x.Y, bind, depth+1)
		if !okA || !okB {
			return 0, false
		}
		switch x.Op {
		case token.OR, token.ADD:
			if x.Op == token.ADD && a&b != 0 {
				return 0, false
			}
			return a | b, true
		case token.AND:
			return a & b, true
		case token.AND_NOT:
			return a &^ b, true
		case token.XOR:
			return a ^ b, true
		}
		return 0, false
	case *ast.Ident, *ast.SelectorExpr:
		o := core.ObjOf(info, e)
		if k, isConst := o.(*types.Const); isConst {
			if v := constant.ToInt(k.Val()); v.Kind() == constant.Int {
				return constant.Int64Val(v)
			}
			return 0, false
		}
		if bind != nil && o != nil {
			if a, isParam := bind.args[o]; isParam {
				if flow.Assignments(info, root, o) != 0 {
					return 0, false // the parameter is re-assigned in the helper
				}
				return constFlags(bind.info, bind.root, a, bind.up, depth+1)
			}
		}
		if r := flow.Resolve(info, root, e); r != e {
			return constFlags(info, root, r, bind, depth+1)
		}
	}
	return 0, false
}

// shortens: a call below root that empties or removes a file by other means (then the flags alone do not decide).
func shortens(info *types.Info, root ast.Node) bool {
	found := false
	core.InspectAll(root, func(m ast.Node) bool {
		call, ok := m.(*ast.CallExpr)
		if !ok || found {
			return !found
		}
		if f := core.CalleeFunc(info, call); f != nil && f.Pkg() != nil && f.Pkg().Path() == "os" {
			switch f.Name() {
			case "Truncate", "Remove", "RemoveAll", "Rename":
				found = true
			}
		}
		return !found
	})
	return found
}

// opened decides how the file that is result idx of call was opened.
func (r *rs) opened(info *types.Info, root ast.Node, call *ast.CallExpr, idx int, bind *argBind, depth int) openResult {
	c := r.c
	f := core.CalleeFunc(info, call)
	if f == nil || f.Pkg() == nil {
		return openResult{openUnknown, call.Pos(), fmt.Sprintf("the file is the result of %s, a call that cannot be resolved", c.Src(call.Fun))}
	}
	if f.Pkg().Path() == "os" && f.Type().(*types.Signature).Recv() == nil {
		if idx != 0 {
			return openResult{openUnknown, call.Pos(), "the file is not the first result of the open call"}
		}
		switch f.Name() {
		case "Create":
			return openResult{openEmpty, call.Pos(), "os.Create truncates the file"}
		case "CreateTemp":
			return openResult{openEmpty, call.Pos(), "os.CreateTemp makes a new file"}
		case "OpenFile":
			if len(call.Args) != 3 {
				break
			}
			lookup := func(name string) (int64, bool) {
				k, _ := f.Pkg().Scope().Lookup(name).(*types.Const)
				if k == nil {
					return 0, false
				}
				return constant.Int64Val(constant.ToInt(k.Val()))
			}
			trunc, ok1 := lookup("O_TRUNC")
			creat, ok2 := lookup("O_CREATE")
			excl, ok3 := lookup("O_EXCL")
			flags, ok := constFlags(info, root, call.Args[1], bind, 0)
			if !ok || !ok1 || !ok2 || !ok3 {
				return openResult{openUnknown, call.Pos(), fmt.Sprintf("the flags %s of the open call are not constants that can be evaluated", c.Src(call.Args[1]))}
			}
			switch {
			case flags&trunc != 0:
				return openResult{openEmpty, call.Pos(), "the file is opened with O_TRUNC"}
			case flags&creat != 0 && flags&excl != 0:
				return openResult{openEmpty, call.Pos(), "the file is opened with O_CREATE|O_EXCL: it did not exist"}
			case shortens(info, root) || bind != nil && shortens(bind.info, bind.root):
				return openResult{openUnknown, call.Pos(), "the file is opened without O_TRUNC, and files are truncated, removed or renamed nearby by other calls"}
			}
			return openResult{openKeeps, call.Pos(), fmt.Sprintf("%s opens the file with flags that neither truncate an existing file (O_TRUNC) nor insist on a new one (O_CREATE|O_EXCL)", c.Src(call))}
		}
		return openResult{openUnknown, call.Pos(), fmt.Sprintf("the file comes from os.%s", f.Name())}
	}
	h := c.Program.FnOf(f)
	if h == nil || h.Decl == nil || h.Decl.Body == nil || depth >= 3 {
		return openResult{openUnknown, call.Pos(), fmt.Sprintf("the file is the result of %s, whose body is not followed", c.Src(call.Fun))}
	}
	h = r.inl.Fn(h)
	hinfo := h.Pkg.TypesInfo
	nb := &argBind{info: info, root: root, args: map[types.Object]ast.Expr{}, up: bind}
	if h.Decl.Recv == nil && !f.Type().(*types.Signature).Variadic() {
		for i, a := range call.Args {
			if _, po := param(h, i); po != nil {
				nb.args[po] = a
			}
		}
	}
	var out *openResult
	merge := func(x openResult) {
		switch {
		case out == nil,
			x.v == openUnknown && out.v != openUnknown,
			x.v == openKeeps && out.v == openEmpty:
			out = &x
		}
	}
	core.Inspect(h.Decl.Body, func(m ast.Node) bool {
		ret, ok := m.(*ast.ReturnStmt)
		if !ok {
			return true
		}
		switch {
		case len(ret.Results) == 0:
			merge(openResult{openUnknown, ret.Pos(), fmt.Sprintf("%s returns the file through a named result", f.Name())})
		case len(ret.Results) == 1 && f.Type().(*types.Signature).Results().Len() > 1:
			if inner, isCall := ast.Unparen(ret.Results[0]).(*ast.CallExpr); isCall {
				merge(r.opened(hinfo, h.Decl.Body, inner, idx, nb, depth+1))
			} else {
				merge(openResult{openUnknown, ret.Pos(), "result not recognised"})
			}
		case idx < len(ret.Results):
			if core.IsNil(hinfo, ret.Results[idx]) {
				return true // no file on this path
			}
			inner, j := originCall(hinfo, h.Decl.Body, ret.Results[idx])
			if inner == nil {
				merge(openResult{openUnknown, ret.Pos(), fmt.Sprintf("the value %s returned by %s is not the result of a call bound to a single-assignment variable", c.Src(ret.Results[idx]), f.Name())})
			} else {
				merge(r.opened(hinfo, h.Decl.Body, inner, j, nb, depth+1))
			}
		}
		return true
	})
	if out == nil {
		return openResult{openUnknown, call.Pos(), fmt.Sprintf("%s has no return statement that yields the file", f.Name())}
	}
	return *out
}

func (r *rs) dumpFile() {
	c := r.c
	const rule = "R7.dumpfile"
	dump, rdbFile := r.fn(pkgR, "dbDumper", "dump"), r.fn(pkgR, "dbDumper", "dumpRDBFile")
	if dump == nil || rdbFile == nil {
		return
	}
	info := dump.Pkg.TypesInfo
	body := dump.Decl.Body
	df := callsTo(info, body, rdbFile.Obj, false)
	if len(df) != 1 || len(df[0].Args) < 2 {
		c.Undecidedf(rule, "dump/output-writer", dump.Decl.Pos(), "expected one dumpRDBFile call in dump, found %d", len(df))
		return
	}
	warg := unconv(info, df[0].Args[1])
	wobj := flow.Obj(info, warg)
	var nws []*ast.CallExpr
	for _, nw := range newWriters(info, body) {
		if ast.Expr(nw) == warg || wobj != nil && assignedVar(info, body, nw, 0) == wobj {
			nws = append(nws, nw)
		}
	}
	if len(nws) != 1 || wobj != nil && flow.Assignments(info, body, wobj) != 1 {
		c.Undecidedf(rule, "dump/output-writer", df[0].Pos(), "the writer handed to dumpRDBFile is not one buffered writer bound to a single-assignment variable (%d candidates)", len(nws))
		return
	}
	open, idx := originCall(info, body, nws[0].Args[0])
	if open == nil {
		c.Undecidedf(rule, "dump/output-writer", nws[0].Pos(), "the destination %s of the dump writer is not the result of a call bound to a single-assignment variable", c.Src(nws[0].Args[0]))
		return
	}
	c.Okf(rule, "dump/output-writer", nws[0].Pos(), "the RDB is written through one buffered writer over the file returned by %s", c.Src(open.Fun))
	detail := "the file the RDB is dumped into holds nothing when the copy starts (it is created, or an existing file is truncated by the open call): dump writes the n RDB bytes from offset 0 and never shortens the file, so whatever a longer earlier file held behind byte n stays and the output is not byte-identical to the RDB"
	switch res := r.opened(info, body, open, idx, nil, 0); res.v {
	case openEmpty:
		c.Check(rule, "dump/output-opened-empty", res.pos, true, detail)
	case openKeeps:
		c.Check(rule, "dump/output-opened-empty", res.pos, false, detail+" ("+res.reason+")")
	default:
		c.Undecidedf(rule, "dump/output-opened-empty", res.pos, "%s; required: %s", res.reason, detail)
	}
}
