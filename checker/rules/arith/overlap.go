package arith

import (
	"fmt"
	"go/ast"
	"go/token"
	"go/types"
	"strings"

	"rscheck/cfgq"
	"rscheck/core"
	"rscheck/flow"
	"rscheck/lin"
	"rscheck/pat"
)

// OverlapSafeCopy decides a necessary condition of LZF decompression: a
// back-reference may overlap the bytes it produces (distance 1 repeats one
// byte), so the match has to be copied byte by byte in ascending order. The
// builtin copy has memmove semantics: `copy(out[o:o+n], out[ref:ref+n])` on one
// and the same buffer reads bytes that were not written yet when the ranges
// overlap. Such a copy is accepted only on paths that established
// `ref + n <= o`; without any guard, or under a guard that still admits an
// overlap (`ref+n-1 <= o`), it is a violation.
func OverlapSafeCopy(c *core.Ctx, rule string, fn *core.Fn) {
	if fn == nil {
		return
	}
	info := fn.Pkg.TypesInfo
	e := flow.New(c.Program)
	g := cfgq.Of(c.Program, fn)
	key := fn.Name() + "/overlap-safe-copy"
	isCopy := func(f *types.Func) bool { return false }
	_ = isCopy
	n := 0
	var bad, undec []string
	for _, p := range g.Points(func(nd ast.Node) bool { return true }) {
		core.Inspect(p.Node(), func(m ast.Node) bool {
			call, ok := m.(*ast.CallExpr)
			if !ok || len(call.Args) != 2 {
				return true
			}
			if bi, isB := core.Callee(info, call).(*types.Builtin); !isB || bi.Name() != "copy" {
				return true
			}
			dst, okD := ast.Unparen(call.Args[0]).(*ast.SliceExpr)
			src, okS := ast.Unparen(call.Args[1]).(*ast.SliceExpr)
			if !okD || !okS || !pat.Same(info, dst.X, src.X) {
				return true // different buffers (or whole-slice forms, which cannot describe a back reference)
			}
			n++
			where := c.Pos(call.Pos())
			if dst.Low == nil || src.Low == nil {
				undec = append(undec, fmt.Sprintf("%s: copy within one buffer without explicit start offsets", where))
				return true
			}
			// length of the copy: the shorter of the two windows; take the source window
			var length lin.Form
			switch {
			case src.High != nil:
				length = lin.Combo(info, 0, 1, src.High, -1, src.Low)
			case dst.High != nil:
				length = lin.Combo(info, 0, 1, dst.High, -1, dst.Low)
			default:
				undec = append(undec, fmt.Sprintf("%s: copy within one buffer without a bounded window", where))
				return true
			}
			// want: src.Low + length - dst.Low <= 0
			want := lin.Combo(info, 0, 1, src.Low, -1, dst.Low)
			for k, v := range length.Coef {
				want.Coef[k] += v
				if want.Coef[k] == 0 {
					delete(want.Coef, k)
				}
			}
			want.Const += length.Const
			site := flow.Site{G: g, At: p}
			guarded, weaker := false, ""
			e.Under(site, func(f cfgq.Fact) bool {
				cmp, ok := lin.CmpOf(info, f.Expr, f.Val)
				if !ok {
					return false
				}
				if cmp.Is(want, token.LEQ) {
					guarded = true
					return true
				}
				// the same variables with a smaller constant: the guard admits an overlap
				for d := int64(1); d <= 4; d++ {
					w := lin.Form{Coef: want.Coef, Const: want.Const - d}
					if cmp.Is(w, token.LEQ) {
						weaker = types.ExprString(flow.Positive(f))
					}
				}
				return false
			})
			switch {
			case guarded:
			case weaker != "":
				bad = append(bad, fmt.Sprintf("%s: `%s` still admits a source window that overlaps the bytes being written (the last byte of such a match is read before it is written)", where, weaker))
			default:
				// any fact relating the two offsets?
				related := false
				e.Under(site, func(f cfgq.Fact) bool {
					s := types.ExprString(f.Expr)
					if strings.Contains(s, types.ExprString(src.Low)) && strings.Contains(s, types.ExprString(dst.Low)) {
						related = true
					}
					return false
				})
				if related {
					undec = append(undec, fmt.Sprintf("%s: copy within one buffer under a condition on the offsets that is not recognised as `source end <= destination start`", where))
				} else {
					bad = append(bad, fmt.Sprintf("%s: `%s` copies within one buffer with memmove semantics; an LZF back reference may overlap its own output (distance < length) and must be copied byte by byte", where, types.ExprString(call)))
				}
			}
			return true
		})
	}
	switch {
	case len(bad) > 0:
		c.Failf(rule, key, fn.Decl.Pos(), "back references are copied in ascending byte order: %s", strings.Join(bad, "; "))
	case len(undec) > 0:
		c.Undecidedf(rule, key, fn.Decl.Pos(), "%s", strings.Join(undec, "; "))
	default:
		c.Okf(rule, key, fn.Decl.Pos(), "%d block copies within one buffer, all under a non-overlap guard", n)
	}
}

// CheckLZFCopies applies OverlapSafeCopy to both copies of the LZF decompressor.
func CheckLZFCopies(c *core.Ctx, rule string) {
	OverlapSafeCopy(c, rule, c.Func("pkg/rdb", "", "lzfDecompress"))
	OverlapSafeCopy(c, rule, c.Func("pkg/libs/cupcake/rdb", "", "lzfDecompress"))
}
