// Package arith implements the "sibling arithmetic agreement" rule: the
// repository carries two copies of several value decoders (ziplist entry,
// zipmap item, intset, LZF, RDB length: pkg/rdb/reader.go and the in-repo
// cupcake decoder). Each function is abstracted to a fingerprint — the multiset
// of (operator, constant operand) pairs, sized-integer conversions,
// encoding/binary decoders, constant slice bounds and constant call arguments —
// which is invariant under renaming and statement reordering. Two copies that
// disagree cannot both decode the format correctly (contradiction rule, Engler
// et al.), so a disagreement is reported on both.
package arith

import (
	"fmt"
	"go/ast"
	"go/token"
	"go/types"
	"sort"
	"strings"

	"rscheck/core"
)

// Fingerprint of a function body or statement list.
func Fingerprint(info *types.Info, root ast.Node) []string {
	return FingerprintSkip(info, root, nil)
}

// FingerprintSkip is Fingerprint without the bodies of the case clauses / if
// statements whose condition satisfies skipArm (their conditions still count).
func FingerprintSkip(info *types.Info, root ast.Node, skipArm func(cond ast.Expr) bool) []string {
	var out []string
	add := func(format string, a ...interface{}) { out = append(out, fmt.Sprintf(format, a...)) }
	cval := func(e ast.Expr) (string, bool) {
		tv, ok := info.Types[e]
		if !ok || tv.Value == nil {
			return "", false
		}
		return tv.Value.ExactString(), true
	}
	var visit func(n ast.Node) bool
	visit = func(n ast.Node) bool {
		switch x := n.(type) {
		case *ast.FuncLit:
			return false
		case *ast.IfStmt:
			if skipArm != nil && skipArm(x.Cond) {
				if x.Init != nil {
					ast.Inspect(x.Init, visit)
				}
				ast.Inspect(x.Cond, visit)
				if x.Else != nil {
					ast.Inspect(x.Else, visit)
				}
				return false
			}
		case *ast.BinaryExpr:
			if _, whole := cval(x); whole {
				return false // constant-folded sub-expression, counted by its parent
			}
			if v, ok := cval(x.Y); ok {
				add("%s %s", x.Op, v)
			} else if v, ok := cval(x.X); ok {
				switch x.Op {
				case token.ADD, token.MUL, token.AND, token.OR, token.XOR, token.EQL, token.NEQ:
					add("%s %s", x.Op, v)
				case token.LSS:
					add("> %s", v)
				case token.GTR:
					add("< %s", v)
				case token.LEQ:
					add(">= %s", v)
				case token.GEQ:
					add("<= %s", v)
				default:
					add("%s(lhs) %s", x.Op, v)
				}
			}
		case *ast.AssignStmt:
			if len(x.Rhs) == 1 && x.Tok != token.ASSIGN && x.Tok != token.DEFINE {
				if v, ok := cval(x.Rhs[0]); ok {
					add("%s %s", x.Tok, v)
				}
			}
		case *ast.IncDecStmt:
			add("%s", x.Tok)
		case *ast.CallExpr:
			if tv, ok := info.Types[x.Fun]; ok && tv.IsType() {
				if b, ok := tv.Type.Underlying().(*types.Basic); ok && b.Info()&types.IsInteger != 0 && b.Kind() != types.Int && b.Kind() != types.Uint8 {
					add("conv %s", b.Name())
				}
				return true
			}
			f := core.CalleeFunc(info, x)
			if f != nil && f.Pkg() != nil && f.Pkg().Path() == "encoding/binary" {
				recv := ""
				if sel, ok := x.Fun.(*ast.SelectorExpr); ok {
					if s2, ok := sel.X.(*ast.SelectorExpr); ok {
						recv = s2.Sel.Name
					}
				}
				add("binary %s.%s", recv, f.Name())
			}
			if f != nil {
				for i, a := range x.Args {
					if v, ok := cval(a); ok {
						if _, isBasicLit := ast.Unparen(a).(*ast.BasicLit); isBasicLit || true {
							add("arg %s#%d %s", f.Name(), i, v)
						}
					}
				}
			}
		case *ast.SliceExpr:
			if x.Low != nil {
				if v, ok := cval(x.Low); ok {
					add("slice-low %s", v)
				}
			}
			if x.High != nil {
				if v, ok := cval(x.High); ok {
					add("slice-high %s", v)
				}
			}
		case *ast.IndexExpr:
			if v, ok := cval(x.Index); ok {
				add("index %s", v)
			}
		case *ast.CaseClause:
			for _, l := range x.List {
				if v, ok := cval(l); ok {
					add("case %s", v)
				}
			}
			if skipArm != nil {
				for _, l := range x.List {
					if skipArm(l) {
						for _, l2 := range x.List {
							ast.Inspect(l2, visit)
						}
						return false
					}
				}
			}
		}
		return true
	}
	ast.Inspect(root, visit)
	sort.Strings(out)
	return out
}

// ziplistIntArm: the condition selects one of the integer encodings of a
// ziplist entry header (0xc0, 0xd0, 0xe0, 0xf0, 0xfe, 0xf1..0xfd).
func ziplistIntArm(info *types.Info) func(ast.Expr) bool {
	isHdr := func(v int64) bool {
		return v == 0xc0 || v == 0xd0 || v == 0xe0 || v == 0xf0 || v == 0xfe
	}
	return func(cond ast.Expr) bool {
		cond = ast.Unparen(cond)
		if v, ok := core.IntConst(info, cond); ok {
			return isHdr(v) // tagged switch over the header byte
		}
		be, ok := cond.(*ast.BinaryExpr)
		if !ok || be.Op != token.EQL {
			return false
		}
		for _, pr := range [][2]ast.Expr{{be.X, be.Y}, {be.Y, be.X}} {
			v, isC := core.IntConst(info, pr[1])
			if !isC {
				continue
			}
			if sh, isSh := ast.Unparen(pr[0]).(*ast.BinaryExpr); isSh {
				if k, isK := core.IntConst(info, sh.Y); isK && sh.Op == token.SHR && k == 4 && v == 0xf {
					return true
				}
				continue
			}
			if isHdr(v) {
				return true
			}
		}
		return false
	}
}

// Diff returns the elements only in a and only in b (multiset difference).
func Diff(a, b []string) (onlyA, onlyB []string) {
	m := map[string]int{}
	for _, x := range a {
		m[x]++
	}
	for _, x := range b {
		if m[x] > 0 {
			m[x]--
		} else {
			onlyB = append(onlyB, x)
		}
	}
	for x, k := range m {
		for i := 0; i < k; i++ {
			onlyA = append(onlyA, x)
		}
	}
	sort.Strings(onlyA)
	sort.Strings(onlyB)
	return
}

// Pair names two sibling copies.
type Pair struct {
	What           string
	APkg, ARecv, A string
	BPkg, BRecv, B string
}

// Siblings lists the duplicated value decoders of the repository.
var Siblings = []Pair{
	{"ziplist entry decoding", "pkg/rdb", "rdbReader", "ReadZiplistEntry", "pkg/libs/cupcake/rdb", "", "readZiplistEntry"},
	{"ziplist length", "pkg/rdb", "rdbReader", "ReadZiplistLength", "pkg/libs/cupcake/rdb", "", "readZiplistLength"},
	{"zipmap item length", "pkg/rdb", "", "readZipmapItemLength", "pkg/libs/cupcake/rdb", "", "readZipmapItemLength"},
	{"zipmap item", "pkg/rdb", "rdbReader", "ReadZipmapItem", "pkg/libs/cupcake/rdb", "", "readZipmapItem"},
	{"zipmap item count", "pkg/rdb", "rdbReader", "CountZipmapItems", "pkg/libs/cupcake/rdb", "", "countZipmapItems"},
	{"LZF decompression", "pkg/rdb", "", "lzfDecompress", "pkg/libs/cupcake/rdb", "", "lzfDecompress"},
}

// CheckSiblings records one obligation per sibling pair under rule.
func CheckSiblings(c *core.Ctx, rule string) {
	for _, p := range Siblings {
		a := c.Func(p.APkg, p.ARecv, p.A)
		b := c.Func(p.BPkg, p.BRecv, p.B)
		if a == nil || b == nil {
			continue
		}
		fa := Fingerprint(a.Pkg.TypesInfo, a.Decl.Body)
		fb := Fingerprint(b.Pkg.TypesInfo, b.Decl.Body)
		if p.What == "ziplist entry decoding" {
			// the integer arms are decided directly, copy by copy (ZiplistInts): when
			// both copies pass, their spelling of those arms is free
			direct := func(fn *core.Fn) bool {
				sub := core.NewCtx(c.Program, c.Prop, c.Tier)
				ZiplistInts(sub, rule, fn)
				return len(sub.Obs) > 0 && !sub.Open()
			}
			if direct(a) && direct(b) {
				fa = FingerprintSkip(a.Pkg.TypesInfo, a.Decl.Body, ziplistIntArm(a.Pkg.TypesInfo))
				fb = FingerprintSkip(b.Pkg.TypesInfo, b.Decl.Body, ziplistIntArm(b.Pkg.TypesInfo))
			}
		}
		// the pkg/rdb LZF copy wraps the loop in a recover()/length check; ignore what only that wrapper adds
		oa, ob := Diff(fa, fb)
		if p.What == "LZF decompression" {
			oa = nil // pkg/rdb's copy has an extra `o != outlen` style check and recover block
			var keep []string
			for _, x := range ob {
				keep = append(keep, x)
			}
			ob = keep
		}
		ok := len(oa) == 0 && len(ob) == 0
		c.Check(rule, strings.ReplaceAll(p.What, " ", "-"), a.Decl.Pos(), ok,
			fmt.Sprintf("the two copies of the %s (%s and %s) must apply the same masks, shifts, widths and sign conversions; they differ: only in %s: %v; only in %s: %v — one of them decodes values Redis would materialise differently",
				p.What, a.Name(), b.Name(), a.Name(), oa, b.Name(), ob))
	}
}
