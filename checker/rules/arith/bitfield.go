package arith

import (
	"fmt"
	"go/ast"
	"go/token"
	"go/types"
	"sort"
	"strings"

	"rscheck/cfgq"
	"rscheck/core"
	"rscheck/flow"
	"rscheck/lin"
	"rscheck/pat"
)

// A Field is the abstract value of an integer expression assembled from bytes
// of a buffer: the significant bits occupy [Lo,Hi) of the two's-complement
// representation, the bits below Lo are zero, the bits from Hi upwards repeat
// bit Hi-1 when Signed and are zero otherwise. Bytes lists, for bit positions
// Lo, Lo+8, ..., which byte of which read the bits come from (nil when the
// field is not byte-aligned).
type Field struct {
	Lo, Hi int
	Signed bool
	Bytes  []ByteRef
}

// ByteRef names byte Idx of the bytes delivered by one read call; Size is the
// number of bytes that call consumes.
type ByteRef struct {
	Read ast.Node
	Idx  int
	Size int
}

func (f Field) String() string {
	s := "zero-extended"
	if f.Signed {
		s = "sign-extended"
	}
	return fmt.Sprintf("%s from bits [%d,%d)", s, f.Lo, f.Hi)
}

// fieldEval evaluates expressions to Fields inside one function body.
type fieldEval struct {
	info     *types.Info
	body     *ast.BlockStmt
	prog     *core.Program                    // set: single-return helpers of the module are followed
	known    func(ast.Expr) (int64, bool)     // the value of an expression at the site, from branch facts
	knownLen func(types.Object) (int64, bool) // len(<local>) at the site, from branch facts
	bound    map[types.Object][]ByteRef       // byte-slice parameters bound to the bytes of a read (table entries entered with their key)
	calls    int
}

func basicOf(t types.Type) (width int, signed bool, ok bool) {
	if t == nil {
		return 0, false, false
	}
	b, isB := t.Underlying().(*types.Basic)
	if !isB || b.Info()&types.IsInteger == 0 {
		return 0, false, false
	}
	switch b.Kind() {
	case types.Int8:
		return 8, true, true
	case types.Int16:
		return 16, true, true
	case types.Int32:
		return 32, true, true
	case types.Int64, types.Int:
		return 64, true, true
	case types.Uint8:
		return 8, false, true
	case types.Uint16:
		return 16, false, true
	case types.Uint32:
		return 32, false, true
	case types.Uint64, types.Uint:
		return 64, false, true
	case types.UntypedInt:
		return 64, true, true
	}
	return 0, false, false
}

func (fe *fieldEval) constOf(e ast.Expr) (int64, bool) { return core.IntConst(fe.info, e) }

// eval returns the field of e, or a reason why it cannot be determined.
func (fe *fieldEval) eval(e ast.Expr, depth int) (Field, string) {
	if depth > 12 {
		return Field{}, "expression too deep"
	}
	e = ast.Unparen(e)
	switch x := e.(type) {
	case *ast.Ident:
		if d := pat.DefOf(fe.info, x); d != nil {
			return fe.eval(d, depth+1)
		}
		if td, ok := pat.TupleDefOf(fe.info, x); ok {
			if td.Index == 0 {
				if f, why := fe.readCall(td.Call); why == "" {
					return f, ""
				}
			}
			return fe.follow(td.Call, td.Index, depth)
		}
		return Field{}, "`" + x.Name + "` is not a single-assignment local defined from a read"
	case *ast.IndexExpr:
		i, ok := fe.constOf(x.Index)
		if !ok {
			return Field{}, "index is not constant"
		}
		bytes, why := fe.buffer(x.X)
		if why != "" {
			return Field{}, why
		}
		if int(i) >= len(bytes) || i < 0 {
			return Field{}, fmt.Sprintf("index %d outside the %d bytes of the buffer", i, len(bytes))
		}
		if bytes[i].Read == nil {
			return Field{Lo: 0, Hi: 0}, ""
		}
		return Field{Lo: 0, Hi: 8, Bytes: []ByteRef{bytes[i]}}, ""
	case *ast.CallExpr:
		// conversion
		if tv, has := fe.info.Types[x.Fun]; has && tv.IsType() && len(x.Args) == 1 {
			f, why := fe.eval(x.Args[0], depth+1)
			if why != "" {
				return f, why
			}
			return fe.convert(f, fe.info.TypeOf(x.Args[0]), tv.Type)
		}
		if fn := core.CalleeFunc(fe.info, x); fn != nil && fn.Pkg() != nil && fn.Pkg().Path() == "encoding/binary" && len(x.Args) == 1 {
			n := map[string]int{"Uint16": 2, "Uint32": 4, "Uint64": 8}[fn.Name()]
			recv := ""
			if sig, ok := fn.Type().(*types.Signature); ok && sig.Recv() != nil {
				recv = core.NamedTypeName(sig.Recv().Type())
			}
			if n > 0 && (recv == "littleEndian" || recv == "bigEndian") {
				bytes, why := fe.buffer(x.Args[0])
				if why != "" {
					return Field{}, why
				}
				if len(bytes) < n {
					return Field{}, fmt.Sprintf("%s decodes %d bytes, the read filled %d", fn.Name(), n, len(bytes))
				}
				bytes = append([]ByteRef{}, bytes[:n]...)
				if recv == "bigEndian" {
					for i, j := 0, n-1; i < j; i, j = i+1, j-1 {
						bytes[i], bytes[j] = bytes[j], bytes[i]
					}
				}
				first, last := -1, -1
				for i, b := range bytes {
					if b.Read != nil {
						if first < 0 {
							first = i
						}
						last = i
					}
				}
				if first < 0 {
					return Field{}, ""
				}
				for i := first; i <= last; i++ {
					if bytes[i].Read == nil {
						return Field{}, "the buffer has unfilled bytes between filled ones"
					}
				}
				return Field{Lo: 8 * first, Hi: 8 * (last + 1), Bytes: bytes[first : last+1]}, ""
			}
		}
		if f, why := fe.readCall(x); why == "" {
			return f, ""
		}
		return fe.follow(x, 0, depth)
	case *ast.BinaryExpr:
		switch x.Op {
		case token.SHR, token.SHL:
			k, ok := fe.constOf(x.Y)
			if !ok || k < 0 || k > 64 {
				return Field{}, "shift count is not constant"
			}
			f, why := fe.eval(x.X, depth+1)
			if why != "" {
				return f, why
			}
			w, signed, ok := basicOf(fe.info.TypeOf(x.X))
			if !ok {
				return Field{}, "shift of a non-integer"
			}
			if x.Op == token.SHR {
				return shr(f, int(k)), ""
			}
			return shl(f, int(k), w, signed)
		case token.OR, token.ADD, token.XOR:
			a, why := fe.eval(x.X, depth+1)
			if why != "" {
				return a, why
			}
			b, why := fe.eval(x.Y, depth+1)
			if why != "" {
				return b, why
			}
			return join(a, b)
		case token.AND:
			f, m := x.X, x.Y
			mask, ok := fe.constOf(m)
			if !ok {
				f, m = x.Y, x.X
				if mask, ok = fe.constOf(m); !ok {
					return Field{}, "mask is not constant"
				}
			}
			fl, why := fe.eval(f, depth+1)
			if why != "" {
				return fl, why
			}
			return andMask(fl, uint64(mask))
		case token.MUL:
			for _, pr := range [][2]ast.Expr{{x.X, x.Y}, {x.Y, x.X}} {
				if c, ok := fe.constOf(pr[1]); ok && c > 0 && c&(c-1) == 0 {
					k := 0
					for c > 1 {
						c >>= 1
						k++
					}
					f, why := fe.eval(pr[0], depth+1)
					if why != "" {
						return f, why
					}
					w, signed, ok := basicOf(fe.info.TypeOf(pr[0]))
					if !ok {
						return Field{}, "multiplication of a non-integer"
					}
					return shl(f, k, w, signed)
				}
			}
		}
		return Field{}, "operator " + x.Op.String() + " is outside the bit-field fragment"
	}
	return Field{}, fmt.Sprintf("%T is outside the bit-field fragment", e)
}

func shr(f Field, k int) Field {
	out := Field{Lo: f.Lo - k, Hi: f.Hi - k, Signed: f.Signed}
	if out.Hi < 0 {
		out.Hi = 0
	}
	if f.Bytes != nil && k%8 == 0 && f.Lo%8 == 0 {
		drop := 0
		if k > f.Lo {
			drop = (k - f.Lo) / 8
		}
		if drop < len(f.Bytes) {
			out.Bytes = f.Bytes[drop:]
		}
	}
	if out.Lo < 0 {
		out.Lo = 0
	}
	if f.Bytes != nil && out.Bytes == nil && out.Hi > out.Lo {
		out.Bytes = nil
	}
	return out
}

func shl(f Field, k, w int, signed bool) (Field, string) {
	if f.Hi == f.Lo {
		return f, ""
	}
	if f.Hi+k > w {
		return Field{}, fmt.Sprintf("<< %d pushes significant bits out of the %d-bit type", k, w)
	}
	out := Field{Lo: f.Lo + k, Hi: f.Hi + k, Signed: f.Signed, Bytes: f.Bytes}
	if k%8 != 0 {
		out.Bytes = nil
	}
	if signed && out.Hi == w {
		out.Signed = true
	}
	return out, ""
}

func join(a, b Field) (Field, string) {
	if a.Hi == a.Lo {
		return b, ""
	}
	if b.Hi == b.Lo {
		return a, ""
	}
	if a.Lo > b.Lo {
		a, b = b, a
	}
	if a.Signed {
		return Field{}, "a sign-extended part is combined below another part"
	}
	if a.Hi != b.Lo {
		return Field{}, fmt.Sprintf("parts [%d,%d) and [%d,%d) overlap or leave a gap", a.Lo, a.Hi, b.Lo, b.Hi)
	}
	out := Field{Lo: a.Lo, Hi: b.Hi, Signed: b.Signed}
	if a.Bytes != nil && b.Bytes != nil {
		out.Bytes = append(append([]ByteRef{}, a.Bytes...), b.Bytes...)
	}
	return out, ""
}

func andMask(f Field, mask uint64) (Field, string) {
	if mask == 0 {
		return Field{}, ""
	}
	p := 0
	for mask&1 == 0 {
		mask >>= 1
		p++
	}
	q := p
	for mask&1 == 1 {
		mask >>= 1
		q++
	}
	if mask != 0 {
		return Field{}, "mask is not a contiguous run of bits"
	}
	if f.Signed && q > f.Hi {
		return Field{}, "mask keeps copies of the sign bit"
	}
	out := Field{Lo: f.Lo, Hi: f.Hi}
	if p > out.Lo {
		out.Lo = p
	}
	if q < out.Hi {
		out.Hi = q
	}
	if out.Hi <= out.Lo {
		return Field{}, ""
	}
	if f.Bytes != nil && out.Lo%8 == 0 && out.Hi%8 == 0 && f.Lo%8 == 0 {
		out.Bytes = f.Bytes[(out.Lo-f.Lo)/8 : (out.Hi-f.Lo)/8]
	}
	return out, ""
}

func (fe *fieldEval) convert(f Field, from, to types.Type) (Field, string) {
	wf, sf, ok1 := basicOf(from)
	wt, st, ok2 := basicOf(to)
	if !ok1 || !ok2 {
		return Field{}, "conversion between non-integer types"
	}
	_ = sf
	if f.Hi == f.Lo {
		return f, ""
	}
	if wt < wf && f.Hi > wt {
		// truncation
		if f.Bytes != nil && f.Lo%8 == 0 && wt%8 == 0 && wt > f.Lo {
			f.Bytes = f.Bytes[:(wt-f.Lo)/8]
		} else {
			f.Bytes = nil
		}
		f.Hi = wt
		f.Signed = false
		if wt <= f.Lo {
			return Field{}, ""
		}
	}
	switch {
	case st && f.Hi == wt:
		f.Signed = true
	case !st && f.Signed:
		if f.Hi == wf && wf == wt {
			f.Signed = false
		} else {
			return Field{}, "a sign-extended value is converted to an unsigned type"
		}
	}
	return f, ""
}

// follow evaluates result idx of a call of a module function whose returns all
// yield the same field (constant results of error returns are ignored).
func (fe *fieldEval) follow(call *ast.CallExpr, idx, depth int) (Field, string) {
	if fe.prog == nil || fe.calls > 6 {
		return Field{}, "call `" + types.ExprString(call.Fun) + "` is not a known byte read"
	}
	f := core.CalleeFunc(fe.info, call)
	if f == nil {
		if fl, why, ok := fe.tableCall(call, depth); ok {
			return fl, why
		}
	}
	fn := fe.prog.FnOf(f)
	if fn == nil || fn.Decl == nil || fn.Decl.Body == nil {
		return Field{}, "call `" + types.ExprString(call.Fun) + "` is not a known byte read"
	}
	sub := &fieldEval{info: fn.Pkg.TypesInfo, body: fn.Decl.Body, prog: fe.prog, calls: fe.calls + 1}
	var out *Field
	why := ""
	core.Inspect(fn.Decl.Body, func(n ast.Node) bool {
		ret, ok := n.(*ast.ReturnStmt)
		if !ok || why != "" {
			return true
		}
		if idx >= len(ret.Results) {
			why = "`" + fn.Name() + "` returns through named results"
			return true
		}
		r := ast.Unparen(ret.Results[idx])
		if _, isC := core.IntConst(sub.info, r); isC {
			return true
		}
		fl, w := sub.eval(r, depth+1)
		if w != "" {
			why = fn.Name() + ": " + w
			return true
		}
		if out != nil && (out.Lo != fl.Lo || out.Hi != fl.Hi || out.Signed != fl.Signed || len(out.Bytes) != len(fl.Bytes)) {
			why = "`" + fn.Name() + "` returns different values on different paths"
			return true
		}
		out = &fl
		return true
	})
	if why != "" {
		return Field{}, why
	}
	if out == nil {
		return Field{}, "`" + fn.Name() + "` has no value-carrying return"
	}
	return *out, ""
}

// tableCall evaluates `h(buf)` where `h, ok := table[key]` (or `h := table[key]`)
// picks a function literal out of a package-level map that is never written,
// keyed by the byte width, and buf is `X.Slice(w)` with w the same value as key:
// every entry is evaluated with its parameter bound to a read of key bytes; all
// entries must be well-formed for their own width, the result reported is the
// entry's (the caller checks it against the size of the read).
func (fe *fieldEval) tableCall(call *ast.CallExpr, depth int) (Field, string, bool) {
	id, ok := ast.Unparen(call.Fun).(*ast.Ident)
	if !ok || len(call.Args) != 1 {
		return Field{}, "", false
	}
	obj := fe.info.Uses[id]
	var idx *ast.IndexExpr
	ndef := 0
	core.Inspect(fe.body, func(m ast.Node) bool {
		as, isAs := m.(*ast.AssignStmt)
		if !isAs || len(as.Rhs) != 1 {
			return true
		}
		for i, l := range as.Lhs {
			if lid, isId := l.(*ast.Ident); isId && (fe.info.Defs[lid] == obj || fe.info.Uses[lid] == obj) && obj != nil {
				ndef++
				if i == 0 {
					idx, _ = ast.Unparen(as.Rhs[0]).(*ast.IndexExpr)
				}
			}
		}
		return true
	})
	if ndef != 1 || idx == nil {
		return Field{}, "", false
	}
	tid, ok := ast.Unparen(idx.X).(*ast.Ident)
	if !ok {
		return Field{}, "", false
	}
	tv, ok := fe.info.Uses[tid].(*types.Var)
	if !ok || tv.Pkg() == nil || tv.Parent() != tv.Pkg().Scope() {
		return Field{}, "", false
	}
	// the table's literal, and no write to the table anywhere in its package
	var lit *ast.CompositeLit
	written := false
	for _, pk := range fe.prog.Pkgs {
		if pk.Types != tv.Pkg() {
			continue
		}
		for _, file := range pk.Syntax {
			ast.Inspect(file, func(m ast.Node) bool {
				switch x := m.(type) {
				case *ast.ValueSpec:
					for i, nm := range x.Names {
						if pk.TypesInfo.Defs[nm] == tv && i < len(x.Values) {
							lit, _ = ast.Unparen(x.Values[i]).(*ast.CompositeLit)
						}
					}
				case *ast.AssignStmt:
					for _, l := range x.Lhs {
						root := ast.Unparen(l)
						if ix, isIx := root.(*ast.IndexExpr); isIx {
							root = ast.Unparen(ix.X)
						}
						if rid, isId := root.(*ast.Ident); isId && pk.TypesInfo.Uses[rid] == tv {
							written = true
						}
					}
				case *ast.CallExpr:
					if fid, isId := ast.Unparen(x.Fun).(*ast.Ident); isId && fid.Name == "delete" && len(x.Args) > 0 {
						if rid, isId := ast.Unparen(x.Args[0]).(*ast.Ident); isId && pk.TypesInfo.Uses[rid] == tv {
							written = true
						}
					}
				}
				return true
			})
		}
	}
	if lit == nil || written {
		return Field{}, "", false
	}
	// the argument is a read whose size is the table key
	arg, isId := ast.Unparen(call.Args[0]).(*ast.Ident)
	if !isId {
		return Field{}, "", false
	}
	td, okTd := pat.TupleDefOf(fe.info, arg)
	if !okTd || td.Index != 0 || len(td.Call.Args) != 1 || lin.Key(fe.info, td.Call.Args[0]) != lin.Key(fe.info, idx.Index) {
		return Field{}, "the buffer handed to the table entry is not a read of `key` bytes", true
	}
	var out *Field
	for _, el := range lit.Elts {
		kv, isKV := el.(*ast.KeyValueExpr)
		if !isKV {
			return Field{}, "", false
		}
		k, isC := fe.constOf(kv.Key)
		fl, isLit := ast.Unparen(kv.Value).(*ast.FuncLit)
		if !isC || !isLit || k <= 0 || k > 16 || len(fl.Type.Params.List) != 1 || len(fl.Type.Params.List[0].Names) != 1 || len(fl.Body.List) != 1 {
			return Field{}, "", false
		}
		ret, isRet := fl.Body.List[0].(*ast.ReturnStmt)
		if !isRet || len(ret.Results) != 1 {
			return Field{}, "", false
		}
		bytes := make([]ByteRef, k)
		for i := range bytes {
			bytes[i] = ByteRef{Read: td.Call, Idx: i, Size: int(k)}
		}
		sub := &fieldEval{info: fe.info, body: fl.Body, prog: fe.prog, calls: fe.calls + 1,
			bound: map[types.Object][]ByteRef{fe.info.Defs[fl.Type.Params.List[0].Names[0]]: bytes}}
		f, why := sub.eval(ret.Results[0], depth+1)
		if why != "" {
			return Field{}, fmt.Sprintf("table entry %d: %s", k, why), true
		}
		if f.Lo != 0 || f.Hi != int(8*k) || !f.Signed || len(f.Bytes) != int(k) {
			// report the malformed entry as it is: the caller's check names what is wrong
			return f, "", true
		}
		if out == nil {
			out = &f
		}
	}
	if out == nil {
		return Field{}, "", false
	}
	return *out, "", true
}

// readCall: the call is a read of a fixed number of bytes delivering a byte
// or a byte slice: X.ReadByte(), X.Slice(k), X.ReadBytes(k) ...
func (fe *fieldEval) readCall(call *ast.CallExpr) (Field, string) {
	sel, ok := ast.Unparen(call.Fun).(*ast.SelectorExpr)
	if !ok {
		return Field{}, "not a read"
	}
	if sel.Sel.Name == "ReadByte" && len(call.Args) == 0 {
		return Field{Lo: 0, Hi: 8, Bytes: []ByteRef{{Read: call, Idx: 0, Size: 1}}}, ""
	}
	return Field{}, "not a read"
}

// buffer resolves a byte-slice expression to its bytes: the result of a
// fixed-size read (`b, err := X.Slice(k)`), or a `make([]byte, n)` local
// filled by exactly one `X.Read(b[i:j])` / `io.ReadFull(X, b[i:j])`, possibly
// re-sliced with constant bounds.
func (fe *fieldEval) buffer(e ast.Expr) ([]ByteRef, string) {
	e = ast.Unparen(e)
	if sl, ok := e.(*ast.SliceExpr); ok {
		inner, why := fe.buffer(sl.X)
		if why != "" {
			return nil, why
		}
		lo, hi := 0, len(inner)
		if sl.Low != nil {
			v, ok := fe.constOf(sl.Low)
			if !ok {
				return nil, "slice bound is not constant"
			}
			lo = int(v)
		}
		if sl.High != nil {
			v, ok := fe.constOf(sl.High)
			if !ok {
				return nil, "slice bound is not constant"
			}
			hi = int(v)
		}
		if lo < 0 || hi > len(inner) || lo > hi {
			return nil, "slice bounds outside the buffer"
		}
		return inner[lo:hi], ""
	}
	id, ok := e.(*ast.Ident)
	if !ok {
		// a scratch buffer that is not a local (a field of the reader): the bytes a
		// full read filled just before, `io.ReadFull(r, X[:k])` / `readFull(X[:k])`
		if _, isSel := e.(*ast.SelectorExpr); isSel {
			var out []ByteRef
			why := "the scratch buffer `" + types.ExprString(e) + "` is not filled by a full read of a constant window in this function"
			nfill := 0
			core.Inspect(fe.body, func(m ast.Node) bool {
				call, ok := m.(*ast.CallExpr)
				if !ok {
					return true
				}
				name := ""
				switch f := ast.Unparen(call.Fun).(type) {
				case *ast.SelectorExpr:
					name = f.Sel.Name
				case *ast.Ident:
					name = f.Name
				}
				if name != "ReadFull" && name != "readFull" && name != "Read" {
					return true
				}
				for _, a := range call.Args {
					a = ast.Unparen(a)
					lo, hi := int64(0), int64(-1)
					base := a
					if sl, isSl := a.(*ast.SliceExpr); isSl {
						base = ast.Unparen(sl.X)
						if sl.Low != nil {
							v, ok := fe.constOf(sl.Low)
							if !ok {
								continue
							}
							lo = v
						}
						if sl.High != nil {
							v, ok := fe.constOf(sl.High)
							if !ok {
								continue
							}
							hi = v
						}
					}
					if !pat.Same(fe.info, base, e) {
						continue
					}
					nfill++
					if name == "Read" {
						why = "`" + types.ExprString(e) + "` is filled by a single Read, which may deliver fewer bytes than the window holds"
						continue
					}
					if hi < 0 {
						t := fe.info.TypeOf(base)
						if at, isArr := t.Underlying().(*types.Array); isArr {
							hi = at.Len()
						} else {
							continue
						}
					}
					if hi <= lo || hi > 16 {
						continue
					}
					out = make([]ByteRef, hi)
					for i := lo; i < hi; i++ {
						out[i] = ByteRef{Read: call, Idx: int(i - lo), Size: int(hi - lo)}
					}
				}
				return true
			})
			if nfill == 1 && out != nil {
				return out, ""
			}
			return nil, why
		}
		return nil, "buffer is not a local variable"
	}
	obj := fe.info.Uses[id]
	if b, ok := fe.bound[obj]; ok {
		return b, ""
	}
	if td, ok := pat.TupleDefOf(fe.info, id); ok && td.Index == 0 {
		if sel, isSel := ast.Unparen(td.Call.Fun).(*ast.SelectorExpr); isSel && len(td.Call.Args) == 1 {
			k, isC := fe.constOf(td.Call.Args[0])
			if !isC && fe.known != nil {
				k, isC = fe.known(td.Call.Args[0])
			}
			if !isC && fe.knownLen != nil {
				k, isC = fe.knownLen(obj)
			}
			if isC && k > 0 && k <= 16 && (sel.Sel.Name == "Slice" || sel.Sel.Name == "ReadBytes" || sel.Sel.Name == "Next") {
				if fe.writtenElsewhere(obj, nil) {
					return nil, "`" + id.Name + "` is modified after the read"
				}
				out := make([]ByteRef, k)
				for i := range out {
					out[i] = ByteRef{Read: td.Call, Idx: i, Size: int(k)}
				}
				return out, ""
			}
		}
		return nil, "`" + id.Name + "` is not the result of a fixed-size read"
	}
	d := pat.DefOf(fe.info, id)
	if sl, isSl := ast.Unparen(d).(*ast.SliceExpr); d != nil && isSl {
		// b := scratch[lo:hi], filled completely by readFull(b) / io.ReadFull(r, b)
		lo, hi := int64(0), int64(-1)
		if sl.Low != nil {
			v, ok := fe.constOf(sl.Low)
			if !ok {
				return nil, "slice bound is not constant"
			}
			lo = v
		}
		if sl.High != nil {
			v, ok := fe.constOf(sl.High)
			if !ok {
				return nil, "slice bound is not constant"
			}
			hi = v
		}
		if hi < 0 || hi <= lo || hi-lo > 16 {
			return nil, "`" + id.Name + "` is not a window of constant size"
		}
		var fill *ast.CallExpr
		partial := ""
		core.Inspect(fe.body, func(m ast.Node) bool {
			call, ok := m.(*ast.CallExpr)
			if !ok {
				return true
			}
			name := ""
			switch f := ast.Unparen(call.Fun).(type) {
			case *ast.SelectorExpr:
				name = f.Sel.Name
			case *ast.Ident:
				name = f.Name
			}
			for _, a := range call.Args {
				if aid, isId := ast.Unparen(a).(*ast.Ident); isId && fe.info.Uses[aid] == obj {
					switch name {
					case "readFull", "ReadFull":
						fill = call
					case "Read":
						partial = "`" + id.Name + "` is filled by a single Read, which may deliver fewer bytes than the window holds"
					}
				}
			}
			return true
		})
		if partial != "" {
			return nil, partial
		}
		if fill == nil {
			return nil, "`" + id.Name + "` is not filled by a full read"
		}
		out := make([]ByteRef, hi-lo)
		for i := range out {
			out[i] = ByteRef{Read: fill, Idx: i, Size: int(hi - lo)}
		}
		return out, ""
	}
	mk, ok := ast.Unparen(d).(*ast.CallExpr)
	if d == nil || !ok {
		return nil, "`" + id.Name + "` is not a single-assignment buffer"
	}
	if fid, isId := ast.Unparen(mk.Fun).(*ast.Ident); !isId || fid.Name != "make" || len(mk.Args) < 2 {
		return nil, "`" + id.Name + "` is not made with a constant length"
	}
	n, isC := fe.constOf(mk.Args[1])
	if !isC || n <= 0 || n > 16 {
		return nil, "`" + id.Name + "` is not made with a constant length"
	}
	// the one fill
	var fill *ast.CallExpr
	var fillArg ast.Expr
	nfill := 0
	core.Inspect(fe.body, func(m ast.Node) bool {
		call, ok := m.(*ast.CallExpr)
		if !ok {
			return true
		}
		name := ""
		switch f := ast.Unparen(call.Fun).(type) {
		case *ast.SelectorExpr:
			name = f.Sel.Name
		case *ast.Ident:
			name = f.Name
		}
		if name != "Read" && name != "ReadFull" {
			return true
		}
		for _, a := range call.Args {
			base := ast.Unparen(a)
			if sl, isSl := base.(*ast.SliceExpr); isSl {
				base = ast.Unparen(sl.X)
			}
			if bid, isId := base.(*ast.Ident); isId && fe.info.Uses[bid] == obj {
				fill, fillArg = call, a
				nfill++
			}
		}
		return true
	})
	if nfill != 1 {
		return nil, fmt.Sprintf("`%s` is filled by %d reads", id.Name, nfill)
	}
	if fe.writtenElsewhere(obj, fill) {
		return nil, "`" + id.Name + "` is modified besides the read that fills it"
	}
	lo, hi := 0, int(n)
	if sl, isSl := ast.Unparen(fillArg).(*ast.SliceExpr); isSl {
		if sl.Low != nil {
			v, ok := fe.constOf(sl.Low)
			if !ok {
				return nil, "fill bound is not constant"
			}
			lo = int(v)
		}
		if sl.High != nil {
			v, ok := fe.constOf(sl.High)
			if !ok {
				return nil, "fill bound is not constant"
			}
			hi = int(v)
		}
	}
	if lo < 0 || hi > int(n) || lo >= hi {
		return nil, "fill bounds outside the buffer"
	}
	out := make([]ByteRef, n)
	for i := lo; i < hi; i++ {
		out[i] = ByteRef{Read: fill, Idx: i - lo, Size: hi - lo}
	}
	return out, ""
}

// writtenElsewhere: the buffer is assigned through an index, passed to another
// call that may write it (copy, Read, PutUint...) or appended to, except in `but`.
func (fe *fieldEval) writtenElsewhere(obj types.Object, but *ast.CallExpr) bool {
	found := false
	mentions := func(e ast.Expr) bool {
		m := false
		ast.Inspect(e, func(n ast.Node) bool {
			if id, ok := n.(*ast.Ident); ok && fe.info.Uses[id] == obj {
				m = true
			}
			return !m
		})
		return m
	}
	core.Inspect(fe.body, func(n ast.Node) bool {
		switch x := n.(type) {
		case *ast.AssignStmt:
			for _, l := range x.Lhs {
				if ix, ok := ast.Unparen(l).(*ast.IndexExpr); ok && mentions(ix.X) {
					found = true
				}
			}
		case *ast.IncDecStmt:
			if mentions(x.X) {
				found = true
			}
		case *ast.CallExpr:
			if x == but {
				return true
			}
			name := ""
			switch f := ast.Unparen(x.Fun).(type) {
			case *ast.SelectorExpr:
				name = f.Sel.Name
			case *ast.Ident:
				name = f.Name
			}
			writer := name == "copy" || name == "Read" || name == "ReadFull" || name == "ReadAt" || strings.HasPrefix(name, "Put") || name == "append"
			if writer && len(x.Args) > 0 && mentions(x.Args[0]) {
				found = true
			}
			if (name == "ReadFull" || name == "ReadAtLeast") && len(x.Args) > 1 && mentions(x.Args[1]) {
				found = true
			}
		}
		return !found
	})
	return found
}

// ZiplistInts decides the integer arms of a ziplist entry decoder: under the
// header byte 0xc0 / 0xd0 / 0xe0 / 0xf0 / 0xfe the number rendered is the
// little-endian two's-complement integer of 2 / 4 / 8 / 3 / 1 bytes, all of
// them delivered by one read of exactly that size, sign-extended from its own
// top bit; under header 0xf1..0xfd it is the low nibble minus one. The
// expression is evaluated in a bit-field domain (conversions, constant shifts,
// |, +, ^, & with constant masks, encoding/binary, constant indices), so every
// spelling with the same value is accepted and a lost sign extension, a byte
// taken twice, a wrong width or byte order are violations.
func ZiplistInts(c *core.Ctx, rule string, fn *core.Fn) {
	if fn == nil {
		return
	}
	info := fn.Pkg.TypesInfo
	e := flow.New(c.Program)
	g := cfgq.Of(c.Program, fn)
	fe := &fieldEval{info: info, body: fn.Decl.Body}
	isRender := func(f *types.Func) bool {
		return f != nil && f.Pkg() != nil && f.Pkg().Path() == "strconv" && (f.Name() == "FormatInt" || f.Name() == "Itoa" || f.Name() == "AppendInt")
	}
	type arm struct {
		hdr   int64
		bytes int
	}
	arms := []arm{{0xc0, 2}, {0xd0, 4}, {0xe0, 8}, {0xf0, 3}, {0xfe, 1}}
	hdrIs := func(k int64) func(cfgq.Fact) bool {
		return func(f cfgq.Fact) bool {
			be, ok := ast.Unparen(flow.Positive(f)).(*ast.BinaryExpr)
			if !ok || be.Op != token.EQL {
				return false
			}
			for _, pr := range [][2]ast.Expr{{be.X, be.Y}, {be.Y, be.X}} {
				if v, isC := core.IntConst(info, pr[1]); isC && v == k {
					if _, isC2 := core.IntConst(info, pr[0]); !isC2 {
						if w, _, ok := basicOf(info.TypeOf(pr[0])); ok && w == 8 {
							if _, isBin := ast.Unparen(pr[0]).(*ast.BinaryExpr); !isBin {
								return true
							}
						}
					}
				}
			}
			return false
		}
	}
	nibble := flow.Holds(info, nil, "_h >> 4 == 15", "_h & 0xf0 == 0xf0", "_h >> 4 == 0xf", "_h >= 0xf1 && _h <= 0xfd")
	seen := map[int64]bool{}
	var bad, undec []string
	sites := e.Calls(g, fn.Decl.Body, isRender)
	for _, cs := range sites {
		var x ast.Expr
		switch cs.Fn.Name() {
		case "AppendInt":
			if len(cs.Call.Args) > 1 {
				x = cs.Call.Args[1]
			}
		default:
			if len(cs.Call.Args) > 0 {
				x = cs.Call.Args[0]
			}
		}
		if x == nil {
			continue
		}
		if len(cs.Up) > 0 {
			undec = append(undec, fmt.Sprintf("%s renders an integer inside a helper", c.Pos(cs.Call.Pos())))
			continue
		}
		var which *arm
		for i := range arms {
			if e.Under(cs.Site, hdrIs(arms[i].hdr)) {
				which = &arms[i]
			}
		}
		if which == nil {
			if e.Under(cs.Site, nibble) {
				seen[0xf1] = true
				ok := false
				for _, p := range []string{"int64(_h&0x0f) - 1", "int64(_h&0x0f-1)", "int64((_h&0x0f)-1)", "int64(_h&0x0f) + -1", "int64(int8(_h&0x0f) - 1)", "int64(int(_h&0x0f) - 1)"} {
					if pat.Expr(p).Match(info, x, nil) != nil {
						ok = true
					}
				}
				if !ok {
					undec = append(undec, fmt.Sprintf("4-bit immediate is rendered as `%s`", types.ExprString(x)))
				}
				continue
			}
			undec = append(undec, fmt.Sprintf("%s renders an integer on a path where the header byte is not known to equal one of the integer encodings", c.Pos(cs.Call.Pos())))
			continue
		}
		seen[which.hdr] = true
		f, why := fe.eval(x, 0)
		name := fmt.Sprintf("header %#x (%d-byte integer)", which.hdr, which.bytes)
		if why != "" {
			undec = append(undec, fmt.Sprintf("%s: `%s`: %s", name, types.ExprString(x), why))
			continue
		}
		switch {
		case f.Lo != 0 || f.Hi != 8*which.bytes:
			bad = append(bad, fmt.Sprintf("%s is rendered from bits [%d,%d) of what was read (want [0,%d)): `%s`", name, f.Lo, f.Hi, 8*which.bytes, types.ExprString(x)))
		case !f.Signed:
			bad = append(bad, fmt.Sprintf("%s is zero-extended, not sign-extended from bit %d: negative values come out as large positive ones: `%s`", name, f.Hi-1, types.ExprString(x)))
		case f.Bytes == nil:
			undec = append(undec, fmt.Sprintf("%s: byte order of `%s` not resolved", name, types.ExprString(x)))
		default:
			for i, b := range f.Bytes {
				if b.Read != f.Bytes[0].Read || b.Idx != i || b.Size != which.bytes {
					bad = append(bad, fmt.Sprintf("%s: bits [%d,%d) come from byte %d of a %d-byte read (want byte %d of one %d-byte read, little-endian): `%s`", name, 8*i, 8*i+8, b.Idx, b.Size, i, which.bytes, types.ExprString(x)))
					break
				}
			}
		}
	}
	var miss []string
	for _, a := range arms {
		if !seen[a.hdr] {
			miss = append(miss, fmt.Sprintf("%#x", a.hdr))
		}
	}
	sort.Strings(bad)
	key := fn.Name() + "/ziplist-ints"
	switch {
	case len(bad) > 0:
		c.Failf(rule, key, fn.Decl.Pos(), "ziplist integer entries are little-endian two's-complement integers of 2/4/8/3/1 bytes; %s", strings.Join(bad, "; "))
	case len(undec) > 0:
		c.Undecidedf(rule, key, fn.Decl.Pos(), "cannot evaluate every integer arm of the ziplist entry decoder: %s", strings.Join(undec, "; "))
	case len(miss) > 0 && len(sites) == 0:
		c.Undecidedf(rule, key, fn.Decl.Pos(), "no integer rendering (strconv.FormatInt/Itoa/AppendInt) found in the ziplist entry decoder")
	case len(miss) > 0:
		c.Failf(rule, key, fn.Decl.Pos(), "the ziplist entry decoder renders no integer under header byte %s: entries with that encoding are rejected or mis-decoded", strings.Join(miss, ", "))
	default:
		c.Okf(rule, key, fn.Decl.Pos(), "%d integer arms: width, byte order and sign extension agree with the ziplist encoding", len(arms))
	}
}

// CheckZiplistInts applies ZiplistInts to both copies of the ziplist entry decoder.
func CheckZiplistInts(c *core.Ctx, rule string) {
	ZiplistInts(c, rule, c.Func("pkg/rdb", "rdbReader", "ReadZiplistEntry"))
	ZiplistInts(c, rule, c.Func("pkg/libs/cupcake/rdb", "", "readZiplistEntry"))
}

// SignedIntsOfReads decides every integer rendering (strconv.FormatInt/Itoa/
// AppendInt) inside fn, or inside region when given: the number rendered is the
// little-endian two's-complement integer of ALL the bytes of ONE fixed-size read
// (1, 2, 4 or 8 bytes), sign-extended from its own top bit. Values may come
// through conversions, shifts, single-return helpers of the module
// (readInt16 -> readUint16 -> readFull + binary.LittleEndian.Uint16) and
// buffers whose size is known from the branch facts at the site
// (`buf.Slice(int(intSize))` under `intSize == 2`).
func SignedIntsOfReads(c *core.Ctx, rule string, fn *core.Fn, region ast.Node, label string, minSites int) {
	if fn == nil {
		return
	}
	if region == nil {
		region = fn.Decl.Body
	}
	info := fn.Pkg.TypesInfo
	e := flow.New(c.Program)
	g := cfgq.Of(c.Program, fn)
	isRender := func(f *types.Func) bool {
		return f != nil && f.Pkg() != nil && f.Pkg().Path() == "strconv" && (f.Name() == "FormatInt" || f.Name() == "Itoa" || f.Name() == "AppendInt")
	}
	var bad, undec []string
	n := 0
	for _, cs := range e.Calls(g, region, isRender) {
		if len(cs.Up) > 0 {
			continue
		}
		var x ast.Expr
		if cs.Fn.Name() == "AppendInt" {
			if len(cs.Call.Args) > 1 {
				x = cs.Call.Args[1]
			}
		} else if len(cs.Call.Args) > 0 {
			x = cs.Call.Args[0]
		}
		if x == nil {
			continue
		}
		n++
		factIs := func(site flow.Site, match func(be *ast.BinaryExpr, side ast.Expr) bool) (int64, bool) {
			for _, k := range []int64{1, 2, 3, 4, 8, 16} {
				k := k
				if e.Under(site, func(f cfgq.Fact) bool {
					be, ok := ast.Unparen(flow.Positive(f)).(*ast.BinaryExpr)
					if !ok || be.Op != token.EQL {
						return false
					}
					for _, pr := range [][2]ast.Expr{{be.X, be.Y}, {be.Y, be.X}} {
						if v, isC := core.IntConst(info, pr[1]); isC && v == k && match(be, pr[0]) {
							return true
						}
					}
					return false
				}) {
					return k, true
				}
			}
			return 0, false
		}
		evalAt := func(site flow.Site, x ast.Expr) (Field, string) {
			fe := &fieldEval{info: info, body: fn.Decl.Body, prog: c.Program}
			fe.known = func(sz ast.Expr) (int64, bool) {
				key := lin.Key(info, sz)
				return factIs(site, func(_ *ast.BinaryExpr, side ast.Expr) bool { return lin.Key(info, side) == key })
			}
			fe.knownLen = func(obj types.Object) (int64, bool) {
				return factIs(site, func(_ *ast.BinaryExpr, side ast.Expr) bool {
					call, ok := ast.Unparen(side).(*ast.CallExpr)
					if !ok || len(call.Args) != 1 {
						return false
					}
					if bi, isB := core.Callee(info, call).(*types.Builtin); !isB || bi.Name() != "len" {
						return false
					}
					id, isId := ast.Unparen(call.Args[0]).(*ast.Ident)
					return isId && info.Uses[id] == obj
				})
			}
			return fe.eval(x, 0)
		}
		check := func(where string, x ast.Expr, f Field) {
			if len(f.Bytes) == 0 {
				undec = append(undec, fmt.Sprintf("%s: `%s` is not assembled from the bytes of a read", where, types.ExprString(x)))
				return
			}
			size := f.Bytes[0].Size
			switch {
			case size != 1 && size != 2 && size != 4 && size != 8:
				undec = append(undec, fmt.Sprintf("%s: integer rendered from a %d-byte read", where, size))
			case f.Lo != 0 || f.Hi != 8*size:
				bad = append(bad, fmt.Sprintf("%s: the integer is rendered from bits [%d,%d) of a %d-byte read (want all %d bits): `%s`", where, f.Lo, f.Hi, size, 8*size, types.ExprString(x)))
			case !f.Signed:
				bad = append(bad, fmt.Sprintf("%s: the %d-byte integer is zero-extended, not sign-extended from bit %d: negative values come out as large positive ones: `%s`", where, size, f.Hi-1, types.ExprString(x)))
			default:
				for i, b := range f.Bytes {
					if b.Read != f.Bytes[0].Read || b.Idx != i {
						bad = append(bad, fmt.Sprintf("%s: bits [%d,%d) come from byte %d of the read (want byte %d, little-endian): `%s`", where, 8*i, 8*i+8, b.Idx, i, types.ExprString(x)))
						break
					}
				}
			}
		}
		where := c.Pos(cs.Call.Pos())
		f, why := evalAt(cs.Site, x)
		if why == "" {
			check(where, x, f)
			continue
		}
		// a local that receives the value in several branches (`switch width { case 2: v = … }`):
		// every assignment is judged where it stands
		inner := x
		for {
			inner = ast.Unparen(inner)
			if cv, isCall := inner.(*ast.CallExpr); isCall && len(cv.Args) == 1 {
				if tv, has := info.Types[cv.Fun]; has && tv.IsType() {
					inner = cv.Args[0]
					continue
				}
			}
			break
		}
		id, isId := inner.(*ast.Ident)
		var assigns []*ast.AssignStmt
		if isId && info.Uses[id] != nil {
			obj := info.Uses[id]
			okAll := true
			core.Inspect(fn.Decl.Body, func(m ast.Node) bool {
				as, isAs := m.(*ast.AssignStmt)
				if !isAs {
					return true
				}
				for i, l := range as.Lhs {
					lid, isL := ast.Unparen(l).(*ast.Ident)
					if !isL || (info.Uses[lid] != obj && info.Defs[lid] != obj) {
						continue
					}
					if len(as.Lhs) != len(as.Rhs) || (as.Tok != token.ASSIGN && as.Tok != token.DEFINE) || i >= len(as.Rhs) {
						okAll = false
						continue
					}
					assigns = append(assigns, &ast.AssignStmt{Lhs: []ast.Expr{l}, Rhs: []ast.Expr{as.Rhs[i]}, TokPos: as.Pos()})
					_ = i
				}
				return true
			})
			if !okAll {
				assigns = nil
			}
		}
		if len(assigns) < 2 {
			undec = append(undec, fmt.Sprintf("%s: `%s`: %s", where, types.ExprString(x), why))
			continue
		}
		for _, as := range assigns {
			rhs := as.Rhs[0]
			if v, isC := core.IntConst(info, rhs); isC && v == 0 {
				continue
			}
			pt, okp := g.Find(rhs)
			if !okp {
				// the site of the enclosing statement
				core.Inspect(fn.Decl.Body, func(m ast.Node) bool {
					if st, isSt := m.(*ast.AssignStmt); isSt && !okp {
						for _, r := range st.Rhs {
							if r == rhs {
								pt, okp = g.Find(st)
							}
						}
					}
					return !okp
				})
			}
			if !okp {
				undec = append(undec, fmt.Sprintf("%s: cannot locate the assignment `%s`", where, types.ExprString(rhs)))
				continue
			}
			f2, why2 := evalAt(flow.Site{G: g, At: pt}, rhs)
			w2 := c.Pos(rhs.Pos())
			if why2 != "" {
				undec = append(undec, fmt.Sprintf("%s: `%s`: %s", w2, types.ExprString(rhs), why2))
				continue
			}
			check(w2, rhs, f2)
		}
	}
	key := fn.Name() + "/" + label
	switch {
	case len(bad) > 0:
		c.Failf(rule, key, fn.Decl.Pos(), "integers stored in 1/2/4/8 bytes are little-endian two's-complement values; %s", strings.Join(bad, "; "))
	case len(undec) > 0:
		c.Undecidedf(rule, key, fn.Decl.Pos(), "cannot evaluate every integer rendered here: %s", strings.Join(undec, "; "))
	case n < minSites:
		c.Undecidedf(rule, key, fn.Decl.Pos(), "%d integer renderings found, %d confirmed on the pinned tree", n, minSites)
	default:
		c.Okf(rule, key, fn.Decl.Pos(), "%d integer renderings: width, byte order and sign extension agree with the bytes read", n)
	}
}
