package arith

import (
	"fmt"
	"go/ast"
	"go/types"
	"sort"
	"strings"

	"rscheck/cfgq"
	"rscheck/core"
	"rscheck/flow"
	"rscheck/pat"
)

// LengthFingerprint decides the arithmetic of an RDB length decoder from the
// values its first result can take (package flow): under tag 0 and tag 3 the
// result is the low six bits of the first byte, under tag 1 those six bits
// shifted by 8 plus the next byte; every other origin must be a fixed-width
// read, a constant 0 or the zero value of an error return. The tag is the top
// two bits of the same byte. Temporaries, helper functions, if-chains instead
// of switches and early returns do not change the verdict.
func LengthFingerprint(c *core.Ctx, rule string, fn *core.Fn) {
	if fn == nil {
		return
	}
	info := fn.Pkg.TypesInfo
	e := flow.New(c.Program)
	e.PureOnly = true
	low6 := pat.Expr("uint32(_u & 0x3f)")
	p14 := []*pat.Pattern{pat.Expr("uint32(_u&0x3f)<<8 + uint32(_v)"), pat.Expr("uint32(_u&0x3f)<<8 | uint32(_v)"),
		pat.Expr("uint32(_u&0x3f)<<8 ^ uint32(_v)"),
		pat.Expr("uint32(_u&0x3f)*256 + uint32(_v)")}
	tagIs := func(u ast.Node, k int) func(cfgq.Fact) bool {
		b := pat.Binds{"_u": u}
		return flow.Holds(info, b,
			fmt.Sprintf("_u >> 6 == %d", k), fmt.Sprintf("(_u & 0xc0) >> 6 == %d", k), fmt.Sprintf("_u & 0xc0 == %d", k<<6))
	}
	seen := map[string]bool{}
	var bad, undec []string
	var others []flow.Case
	var firsts []ast.Node
	for _, cs := range e.Returns(fn, 0) {
		switch {
		case cs.Unknown != "":
			undec = append(undec, cs.Unknown)
			continue
		case cs.Zero:
			continue
		}
		x := ast.Unparen(cs.Expr)
		if v, ok := core.IntConst(info, x); ok && v == 0 {
			continue
		}
		if b := low6.Match(info, x, nil); b != nil {
			firsts = append(firsts, b["_u"])
			switch {
			case e.AnyUnder(cs.Sites, tagIs(b["_u"], 0)):
				seen["6bit"] = true
			case e.AnyUnder(cs.Sites, tagIs(b["_u"], 3)):
				seen["enc"] = true
			default:
				bad = append(bad, fmt.Sprintf("`%s` is returned on a path where the tag (top two bits) is not known to be 0 or 3", e.Describe(cs)))
			}
			continue
		}
		if b := pat.Any(info, x, nil, p14...); b != nil {
			firsts = append(firsts, b["_u"])
			if e.AnyUnder(cs.Sites, tagIs(b["_u"], 1)) {
				seen["14bit"] = true
				if sameValue(info, b["_u"], b["_v"]) {
					bad = append(bad, fmt.Sprintf("`%s` uses the first byte twice", e.Describe(cs)))
				}
			} else {
				bad = append(bad, fmt.Sprintf("`%s` is returned on a path where the tag is not known to be 1", e.Describe(cs)))
			}
			continue
		}
		others = append(others, cs)
	}
	// anything else must not be computed from the first byte (it is a wider
	// read, whatever its spelling)
	for _, cs := range others {
		fromFirst := false
		ast.Inspect(cs.Expr, func(n ast.Node) bool {
			if ex, ok := n.(ast.Expr); ok {
				for _, u := range firsts {
					if pat.Same(info, ex, u) {
						fromFirst = true
					}
				}
			}
			return !fromFirst
		})
		if fromFirst || len(firsts) == 0 {
			bad = append(bad, fmt.Sprintf("the length is computed as `%s`", e.Describe(cs)))
		} else {
			seen["wide"] = true
		}
	}
	sort.Strings(bad)
	switch {
	case len(bad) > 0:
		c.Failf(rule, fn.Name(), fn.Decl.Pos(), "the RDB length decoder must take the tag from the top two bits and the value from the low six bits (& 0x3f) of the first byte, the 14-bit form being those six bits << 8 plus the next byte; %s: some lengths decode to other values", strings.Join(bad, "; "))
	case len(undec) > 0:
		c.Undecidedf(rule, fn.Name(), fn.Decl.Pos(), "cannot resolve every value the decoder returns: %s", strings.Join(undec, "; "))
	case !seen["6bit"] || !seen["14bit"] || !seen["enc"] || !seen["wide"]:
		var miss []string
		for _, k := range []string{"6bit", "14bit", "enc", "wide"} {
			if !seen[k] {
				miss = append(miss, k)
			}
		}
		c.Failf(rule, fn.Name(), fn.Decl.Pos(), "the RDB length decoder has no arm computing the %s form: lengths stored in that form are decoded as something else", strings.Join(miss, ", "))
	default:
		c.Okf(rule, fn.Name(), fn.Decl.Pos(), "6-bit, 14-bit, encoded and wide forms computed from the right bits under the right tag")
	}
}

// sameValue: two results of different calls are different values even when
// the calls are spelled alike.
func sameValue(info *types.Info, a, b ast.Node) bool {
	ca, oka := unconv(info, a).(*ast.CallExpr)
	cb, okb := unconv(info, b).(*ast.CallExpr)
	if oka && okb {
		return ca == cb
	}
	return pat.Same(info, a, b)
}

func unconv(info *types.Info, n ast.Node) ast.Node {
	for {
		x, ok := n.(ast.Expr)
		if !ok {
			return n
		}
		x = ast.Unparen(x)
		call, ok := x.(*ast.CallExpr)
		if ok && len(call.Args) == 1 {
			if tv, has := info.Types[call.Fun]; has && tv.IsType() {
				n = call.Args[0]
				continue
			}
		}
		return x
	}
}
