package c03

// R6 (payload identity / database routing) and R7 (filter polarity) of the parser.

import (
	"fmt"
	"go/ast"
	"go/token"
	"go/types"
	"strings"

	"golang.org/x/tools/go/cfg"

	"rscheck/cfgq"
	"rscheck/core"
	"rscheck/pat"
)

// ---------------------------------------------------------------------------
// R6 payload identity

// DecimalOf recognises "decimal text of integer expression E" and returns E.
func DecimalOf(info *types.Info, scope ast.Node, e ast.Expr) ast.Expr {
	for depth := 0; depth < 6; depth++ {
		o, ok := SoleOrigin(info, scope, e)
		if !ok || o.Expr == nil || o.Res > 0 || o.Range || o.Op != 0 {
			return nil
		}
		call, ok := ast.Unparen(o.Expr).(*ast.CallExpr)
		if !ok {
			return nil
		}
		f := core.CalleeFunc(info, call)
		switch {
		case core.IsFunc(f, Common, "", "String2Bytes") && len(call.Args) == 1:
			e = call.Args[0]
		case core.IsFunc(f, "strconv", "", "FormatInt") && len(call.Args) == 2:
			if b, ok := core.IntConst(info, call.Args[1]); !ok || b != 10 {
				return nil
			}
			return stripConv(info, call.Args[0])
		case core.IsFunc(f, "strconv", "", "Itoa") && len(call.Args) == 1:
			return stripConv(info, call.Args[0])
		case core.IsFunc(f, "fmt", "", "Sprintf") && len(call.Args) == 2:
			if s, ok := core.StringConst(info, call.Args[0]); !ok || s != "%d" && s != "%v" {
				return nil
			}
			return stripConv(info, call.Args[1])
		case core.IsFunc(f, "fmt", "", "Sprint") && len(call.Args) == 1:
			return stripConv(info, call.Args[0])
		default:
			return nil
		}
	}
	return nil
}

func stripConv(info *types.Info, e ast.Expr) ast.Expr {
	for {
		e = ast.Unparen(e)
		call, ok := e.(*ast.CallExpr)
		if !ok || len(call.Args) != 1 {
			return e
		}
		if tv, ok := info.Types[call.Fun]; !ok || !tv.IsType() {
			return e
		}
		e = call.Args[0]
	}
}

func isTargetDB(info *types.Info, e ast.Expr) bool {
	return FieldIs(info, e, "Configuration", "TargetDB")
}

// selectArg returns the integer expression whose decimal text is the single
// argument of an enqueued SELECT.
func selectArg(info *types.Info, scope ast.Node, args ast.Expr) ast.Expr {
	lit, ok := ast.Unparen(args).(*ast.CompositeLit)
	if !ok || len(lit.Elts) != 1 {
		return nil
	}
	return DecimalOf(info, scope, lit.Elts[0])
}

func r6(c *core.Ctx, p *Parser) {
	const rule = "R6.payload"
	info := p.Info
	body := p.Fn.Decl.Body
	idx := map[string]int{}
	for _, e := range p.Sends {
		idx[e.Name]++
		key := fmt.Sprintf("%s#%d", e.Name, idx[e.Name])
		switch e.Name {
		case "command":
			// Cmd: first result of ParseArgs(resp); Args: element-wise copy of HandleFilterKeyWithCommand(cmd, argv)[0]
			var pa *ast.CallExpr
			okCmd := false
			if o, ok := SoleOrigin(info, body, e.Field["Cmd"]); ok {
				if call, ok := CallOrigin(info, o, "pkg/redis", "", "ParseArgs", 0); ok && len(call.Args) == 1 && IsObj(info, p.Resp)(call.Args[0]) {
					pa, okCmd = call, true
				}
			}
			if okCmd {
				c.Okf(rule, key+"/cmd", e.Pos(), "Cmd is the command name parsed from the response decoded in this iteration")
			} else if v, isConst := core.StringConst(info, e.Field["Cmd"]); isConst {
				c.Failf(rule, key+"/cmd", e.Pos(), "every source command is forwarded under the fixed name %q", v)
			} else {
				c.Undecidedf(rule, key+"/cmd", e.Pos(), "cannot trace Cmd `%s` to ParseArgs(resp)", c.Src(e.Field["Cmd"]))
			}
			checkArgs(c, p, e, key, pa)
			if lastDb := dbVar(info, e.Field["Db"]); lastDb != nil {
				checkLastDb(c, p, key, lastDb)
			} else {
				c.Undecidedf(rule, key+"/db", e.Pos(), "Db `%s` is not a local variable", c.Src(e.Field["Db"]))
			}
		case "start-db":
			// handled by StartDb below
		case "select":
			arg := selectArg(info, body, e.Field["Args"])
			db := e.Field["Db"]
			switch {
			case arg == nil:
				c.Undecidedf(rule, key+"/arg-is-db", e.Pos(), "cannot read the SELECT argument `%s` as the decimal text of an integer", c.Src(e.Field["Args"]))
			case pat.Same(info, arg, db) || isTargetDB(info, arg) && isTargetDB(info, db):
				c.Okf(rule, key+"/arg-is-db", e.Pos(), "the SELECT argument and the Db tag are the same value")
			default:
				c.Undecidedf(rule, key+"/arg-is-db", e.Pos(), "SELECT argument `%s` and Db tag `%s` are different expressions", c.Src(arg), c.Src(db))
			}
			fixedTargetDb(c, p, e, rule, key)
		}
	}
	StartDb(c, p, rule)
	argsOwned(c)
}

// StartDb checks that the resumed start database is enqueued first (also used by C04.R5).
func StartDb(c *core.Ctx, p *Parser, rule string) {
	n := 0
	for _, e := range p.Sends {
		if e.Name == "start-db" {
			n++
			startDb(c, p, e, rule, fmt.Sprintf("start-db#%d", n))
		}
	}
	if n == 0 {
		if len(FieldWrites(c, Syncer, "startDbId")) > 0 {
			c.Failf(rule, "start-db", p.Fn.Decl.Pos(), "Sync records the checkpoint's database in ds.startDbId but parseSourceCommand never enqueues a SELECT for it: after PSYNC CONTINUE the stream carries no SELECT of its own, so the resumed commands run in database 0")
		} else {
			c.Undecidedf(rule, "start-db", p.Fn.Decl.Pos(), "no start-database SELECT before the parser loop")
		}
	}
}

func dbVar(info *types.Info, e ast.Expr) *types.Var {
	id, ok := ast.Unparen(e).(*ast.Ident)
	if !ok {
		return nil
	}
	v, _ := core.ObjOf(info, id).(*types.Var)
	return v
}

func checkArgs(c *core.Ctx, p *Parser, e *Enq, key string, pa *ast.CallExpr) {
	const rule = "R6.payload"
	info := p.Info
	body := p.Fn.Decl.Body
	k := key + "/args"
	und := func(format string, a ...interface{}) { c.Undecidedf(rule, k, e.Pos(), format, a...) }
	src, fail, why := elementCopy(c, info, body, e.Field["Args"], p.Fn.Pkg.PkgPath, 0)
	if fail != "" {
		c.Failf(rule, k, e.Pos(), "%s", fail)
		return
	}
	if why != "" {
		und("%s", why)
		return
	}
	o, ok := SoleOrigin(info, body, src)
	if !ok {
		und("cannot trace the copied slice `%s`", c.Src(src))
		return
	}
	if call, ok := CallOrigin(info, o, "redis-shake/filter", "", "HandleFilterKeyWithCommand", 0); ok && len(call.Args) == 2 {
		// its inputs are the command and arguments of the same ParseArgs call
		good := pa != nil
		for i, a := range call.Args {
			ao, ok := SoleOrigin(info, body, a)
			if !ok || ast.Unparen(ao.Expr) != ast.Expr(pa) || ao.Res != i {
				good = false
			}
		}
		if good {
			c.Okf(rule, k, e.Pos(), "Args is an element-wise copy of HandleFilterKeyWithCommand(cmd, argv) of this iteration's command")
		} else {
			und("HandleFilterKeyWithCommand is not applied to (cmd, argv) of this iteration's ParseArgs")
		}
		return
	}
	if call, ok := CallOrigin(info, o, "pkg/redis", "", "ParseArgs", 1); ok && call == pa {
		c.Failf(rule, k, e.Pos(), "Args copies the unfiltered argument list: keys removed by the key filter are forwarded to the target")
		return
	}
	und("the copied slice `%s` does not come from HandleFilterKeyWithCommand", c.Src(src))
}

// atoiOfFirst: o is the first result of strconv.Atoi(<string of X[0]>) with isArgv(X).
func atoiOfFirst(info *types.Info, scope ast.Node, o Origin, isArgv func(ast.Expr) bool) bool {
	call, ok := CallOrigin(info, o, "strconv", "", "Atoi", 0)
	if !ok || len(call.Args) != 1 {
		return false
	}
	ao, ok := SoleOrigin(info, scope, call.Args[0])
	if !ok {
		return false
	}
	ix, _ := ast.Unparen(ao.Expr).(*ast.IndexExpr)
	if ix == nil {
		return false
	}
	i0, isC := core.IntConst(info, ix.Index)
	return isC && i0 == 0 && isArgv(ix.X)
}

// indexedFill recognises `D := make([]T, len(S)); for i[, v] := range S { D[i] = S[i] | v }`
// (the assignment being a top-level statement of the range body) and returns S.
func indexedFill(info *types.Info, body ast.Node, d *ast.Ident, mk *ast.CallExpr) ast.Expr {
	if len(mk.Args) != 2 {
		return nil
	}
	b := pat.Expr("len(_s)").Match(info, mk.Args[1], nil)
	if b == nil {
		return nil
	}
	var hit ast.Expr
	n := 0
	core.Inspect(body, func(m ast.Node) bool {
		rs, ok := m.(*ast.RangeStmt)
		if !ok {
			// any other element write of D makes the form unknown
			if as, ok := m.(*ast.AssignStmt); ok {
				for _, l := range as.Lhs {
					if ix, ok := ast.Unparen(l).(*ast.IndexExpr); ok && pat.Same(info, ix.X, d) {
						n++
					}
				}
			}
			return true
		}
		if !pat.Same(info, rs.X, b["_s"]) || rs.Key == nil {
			return true
		}
		for _, st := range rs.Body.List {
			as, ok := st.(*ast.AssignStmt)
			if !ok || len(as.Lhs) != 1 || len(as.Rhs) != 1 || as.Tok != token.ASSIGN {
				continue
			}
			ix, ok := ast.Unparen(as.Lhs[0]).(*ast.IndexExpr)
			if !ok || !pat.Same(info, ix.X, d) || !pat.Same(info, ix.Index, rs.Key) {
				continue
			}
			rhs := ast.Unparen(as.Rhs[0])
			okVal := rs.Value != nil && pat.Same(info, rhs, rs.Value)
			if sx, ok := rhs.(*ast.IndexExpr); ok && pat.Same(info, sx.X, rs.X) && pat.Same(info, sx.Index, rs.Key) {
				okVal = true
			}
			if okVal {
				hit = rs.X
			}
		}
		return true
	})
	if n != 1 { // exactly one element write, the recognised one
		return nil
	}
	return hit
}

// elementCopy recognises "x is an element-wise copy of the slice src": x is a
// local built by make(.., 0, ..) + append in a range over src (or pre-sized and
// filled by index), or the result of a helper of the package that builds its
// result that way from one of its parameters. It returns src in the
// vocabulary of scope, or a failure / undecided message.
func elementCopy(c *core.Ctx, info *types.Info, scope ast.Node, x ast.Expr, pkgPath string, depth int) (src ast.Expr, fail, undecided string) {
	if call, ok := ast.Unparen(x).(*ast.CallExpr); ok && depth < 3 {
		h := HelperOf(c.Program, info, scope, call, pkgPath)
		if h == nil || call.Ellipsis.IsValid() {
			return nil, "", fmt.Sprintf("Args `%s` is not a local slice", c.Src(x))
		}
		var rets []*ast.ReturnStmt
		core.Inspect(h.Body, func(m ast.Node) bool {
			if r, ok := m.(*ast.ReturnStmt); ok {
				rets = append(rets, r)
			}
			return true
		})
		if len(rets) != 1 || len(rets[0].Results) != 1 {
			return nil, "", fmt.Sprintf("the helper called by `%s` does not have a single return of one value", c.Src(x))
		}
		hscope := ast.Node(h.Body)
		if h.Fn != nil {
			hscope = h.Fn.Decl
		} else if h.Lit != nil {
			hscope = h.Lit
		}
		hsrc, f, u := elementCopy(c, h.Info, hscope, rets[0].Results[0], pkgPath, depth+1)
		if f != "" || u != "" {
			return nil, f, u
		}
		bind := BindCall(call, h.Type, h.Recv, h.Info)
		id, ok := ast.Unparen(hsrc).(*ast.Ident)
		if !ok || bind[core.ObjOf(h.Info, id)] == nil {
			return nil, "", fmt.Sprintf("the helper called by `%s` copies `%s`, which is not one of its parameters", c.Src(x), c.Src(hsrc))
		}
		return bind[core.ObjOf(h.Info, id)], "", ""
	}
	id, ok := ast.Unparen(x).(*ast.Ident)
	if !ok {
		return nil, "", fmt.Sprintf("Args `%s` is not a local slice", c.Src(x))
	}
	var nonEmptyMake *ast.CallExpr
	for _, o := range Origins(info, scope, id) {
		var call *ast.CallExpr
		var bi *types.Builtin
		if o.Expr != nil {
			call, _ = ast.Unparen(o.Expr).(*ast.CallExpr)
		}
		if call != nil {
			bi, _ = core.Callee(info, call).(*types.Builtin)
		}
		switch {
		case o.Zero:
			// declared without a value: nothing in it yet
		case call != nil && bi != nil && bi.Name() == "make":
			n, ok := int64(-1), false
			if len(call.Args) >= 2 {
				n, ok = core.IntConst(info, call.Args[1])
			}
			if !ok || n != 0 {
				nonEmptyMake = call
			}
		case call != nil && bi != nil && bi.Name() == "append" && len(call.Args) == 2 && !call.Ellipsis.IsValid() && appendsToItself(info, o.Stmt, call):
			ro, ok := SoleOrigin(info, scope, call.Args[1])
			if !ok || !ro.Range || ro.Res != 1 {
				return nil, "", fmt.Sprintf("appended element `%s` is not the value of a range loop", c.Src(call.Args[1]))
			}
			rs := ro.Stmt.(*ast.RangeStmt)
			if !(rs.Pos() <= call.Pos() && call.End() <= rs.End()) {
				return nil, "", "append outside the range that binds its element"
			}
			// one append per element, executed on every iteration
			n := 0
			for _, st := range rs.Body.List {
				if as, ok := st.(*ast.AssignStmt); ok && len(as.Rhs) == 1 && ast.Unparen(as.Rhs[0]) == ast.Expr(call) {
					n++
				}
			}
			if n != 1 {
				return nil, "", "the append is not a top-level statement of the range body"
			}
			src = rs.X
		default:
			if o.Param {
				return nil, "", fmt.Sprintf("Args `%s` is not built here", c.Src(x))
			}
			return nil, "", fmt.Sprintf("unexpected definition of the argument slice: `%s`", c.Src(o.Stmt))
		}
	}
	if src != nil && nonEmptyMake != nil {
		return nil, fmt.Sprintf("`%s` starts the argument list with nil elements and the copied ones are appended after them: the forwarded command has extra arguments", c.Src(nonEmptyMake)), ""
	}
	if src == nil && nonEmptyMake != nil {
		// make([]T, len(S)) filled by `for i := range S { D[i] = S[i] }` (or the range value)
		if idx := indexedFill(info, scope, id, nonEmptyMake); idx != nil {
			src = idx
		}
	}
	if src == nil && nonEmptyMake != nil {
		return nil, "", fmt.Sprintf("the argument slice is pre-sized by `%s` and filled by index: not the known append form", c.Src(nonEmptyMake))
	}
	if src == nil {
		return nil, "the argument slice is never filled: every command is forwarded without arguments", ""
	}
	return src, "", ""
}

// appendsToItself: stmt is `v = append(v, ...)` for the given append call.
func appendsToItself(info *types.Info, stmt ast.Node, call *ast.CallExpr) bool {
	as, ok := stmt.(*ast.AssignStmt)
	if !ok || len(as.Lhs) != len(as.Rhs) {
		return false
	}
	for i, r := range as.Rhs {
		if ast.Unparen(r) == ast.Expr(call) {
			return pat.Same(info, as.Lhs[i], call.Args[0])
		}
	}
	return false
}

// checkLastDb: every definition of the Db variable is -1, the parsed SELECT argument or target.db.
func checkLastDb(c *core.Ctx, p *Parser, key string, v *types.Var) {
	const rule = "R6.payload"
	info := p.Info
	body := p.Fn.Decl.Body
	n := 0
	var ref ast.Expr
	core.Inspect(body, func(m ast.Node) bool {
		if x, ok := m.(*ast.Ident); ok && ref == nil && core.ObjOf(info, x) == types.Object(v) {
			ref = x
		}
		return true
	})
	for _, o := range Origins(info, body, ref) {
		n++
		k := fmt.Sprintf("%s/db-source#%d", key, n)
		pos := token.NoPos
		if o.Stmt != nil {
			pos = o.Stmt.Pos()
		}
		switch {
		case o.Zero:
			c.Okf(rule, k, pos, "zero value")
		case o.Op != 0 || o.Range || o.Res > 0:
			c.Failf(rule, k, pos, "the database tag is changed by `%s`, not taken from a SELECT: commands are tagged with a database the source never selected", c.Src(o.Stmt))
		case isTargetDB(info, o.Expr):
			c.Okf(rule, k, pos, "conf.Options.TargetDB")
		default:
			if _, isConst := core.IntConst(info, o.Expr); isConst && o.Stmt != nil {
				if _, isSpec := o.Stmt.(*ast.ValueSpec); isSpec {
					c.Okf(rule, k, pos, "initial value before the first SELECT")
					continue
				}
				if p.Loop.Pos() <= o.Stmt.Pos() && o.Stmt.End() <= p.Loop.End() {
					c.Undecidedf(rule, k, pos, "the database tag is set to a constant inside the loop by `%s`", c.Src(o.Stmt))
				} else {
					c.Okf(rule, k, pos, "initial value before the first SELECT")
				}
				continue
			}
			isArgv := func(x ast.Expr) bool { // the argument vector of this iteration's ParseArgs(resp)
				xo, ok := SoleOrigin(info, body, x)
				if !ok {
					return false
				}
				pc, ok := CallOrigin(info, xo, "pkg/redis", "", "ParseArgs", 1)
				return ok && len(pc.Args) == 1 && IsObj(info, p.Resp)(pc.Args[0])
			}
			if atoiOfFirst(info, body, o, isArgv) {
				c.Okf(rule, k, pos, "the argument of the parsed SELECT")
				continue
			}
			// or a module helper that parses its argv parameter: every return is Atoi(string(param[0]))
			if hc, isCall := ast.Unparen(o.Expr).(*ast.CallExpr); isCall && o.Res <= 0 && o.Op == 0 && !o.Range {
				if fn := c.FnOf(core.CalleeFunc(info, hc)); fn != nil && fn.Decl.Body != nil && strings.HasPrefix(fn.Pkg.PkgPath, core.Module) &&
					fn.Obj.Type().(*types.Signature).Results().Len() == 1 {
					finfo := fn.Pkg.TypesInfo
					good, rets := true, 0
					core.Inspect(fn.Decl.Body, func(m ast.Node) bool {
						ret, ok := m.(*ast.ReturnStmt)
						if !ok || len(ret.Results) != 1 {
							return true
						}
						rets++
						ro, ok := SoleOrigin(finfo, fn.Decl, ret.Results[0])
						if !ok || !atoiOfFirst(finfo, fn.Decl, ro, func(x ast.Expr) bool {
							id, ok := ast.Unparen(x).(*ast.Ident)
							if !ok {
								return false
							}
							pi := 0
							for _, f := range fn.Decl.Type.Params.List {
								for _, nm := range f.Names {
									if finfo.Defs[nm] == core.ObjOf(finfo, id) && pi < len(hc.Args) && isArgv(hc.Args[pi]) {
										return true
									}
									pi++
								}
							}
							return false
						}) {
							good = false
						}
						return true
					})
					if good && rets > 0 {
						c.Okf(rule, k, pos, "the argument of the parsed SELECT (parsed by %s)", fn.Name())
						continue
					}
				}
			}
			c.Undecidedf(rule, k, pos, "cannot trace `%s` to the SELECT argument or target.db", c.Src(o.Expr))
		}
	}
}

// startDb: `if ds.startDbId != 0 { enqueue select <startDbId> }` before the loop.
func startDb(c *core.Ctx, p *Parser, e *Enq, rule, key string) {
	info := p.Info
	isStart := func(x ast.Expr) bool {
		return x != nil && FieldIs(info, ChaseCopy(info, p.Fn.Decl, x), Syncer, "startDbId")
	}
	arg := selectArg(info, p.Fn.Decl.Body, e.Field["Args"])
	cmd, _ := core.StringConst(info, e.Field["Cmd"])
	switch {
	case !strings.EqualFold(cmd, "select"):
		c.Undecidedf(rule, key+"/select", e.Pos(), "the command enqueued before the loop is not a constant SELECT")
	case arg != nil && isStart(arg) && isStart(e.Field["Db"]):
		c.Okf(rule, key+"/select", e.Pos(), "SELECT <ds.startDbId>, tagged with the same database")
	case arg != nil && (isStart(arg) || isStart(e.Field["Db"])):
		c.Failf(rule, key+"/select", e.Pos(), "the start SELECT names `%s` but is tagged Db `%s`: the resumed stream continues in another database than the checkpoint recorded", c.Src(arg), c.Src(e.Field["Db"]))
	default:
		c.Undecidedf(rule, key+"/select", e.Pos(), "cannot read the start SELECT's argument/Db as ds.startDbId")
	}
	zero := func(ft cfgq.Fact) bool {
		eq, ok := EqFact(ft, isStart, func(x ast.Expr) bool { v, ok := core.IntConst(info, x); return ok && v == 0 })
		return ok && eq
	}
	notSend := func(n ast.Node) bool { return n == e.Pt.Node() }
	w := p.G.Path(cfgq.Query{From: p.G.Entry(), Avoid: notSend, AvoidEdge: p.Fl.Edge(zero), Target: p.IsDecode})
	if w != nil {
		// a guard on startDbId of another form is not judged
		anyTest := func(b *cfg.Block, s int) bool {
			cond := cfgq.CondOf(b)
			if cond == nil {
				return false
			}
			if core.MentionsField(info, cond, Syncer, "startDbId") {
				return true
			}
			hit := false // or a local copy of it
			ast.Inspect(cond, func(m ast.Node) bool {
				if id, ok := m.(*ast.Ident); ok && isStart(id) {
					hit = true
				}
				return true
			})
			return hit
		}
		if p.G.Path(cfgq.Query{From: p.G.Entry(), Avoid: notSend, AvoidEdge: anyTest, Target: p.IsDecode}) == nil {
			c.Undecidedf(rule, key+"/first", e.Pos(), "the start SELECT is guarded by a test of ds.startDbId that is not the known `!= 0` form")
			return
		}
	}
	c.Check(rule, key+"/first", e.Pos(), w == nil,
		"when ds.startDbId != 0 the SELECT of the resumed database must be enqueued before the first source command is decoded: a stream resumed by PSYNC CONTINUE carries no SELECT of its own, so the commands would run in database 0", w...)
}

// fixedTargetDb: with target.db configured, the injected SELECT may only be
// skipped when the *target* is known to be in that database.
func fixedTargetDb(c *core.Ctx, p *Parser, e *Enq, rule, key string) {
	info := p.Info
	body := p.Fn.Decl.Body
	k := key + "/fixed-target-db"
	// the guard: an edge `TargetDB == v` / `TargetDB != v` (v a local) on which the enqueue is skipped
	var guard *cfg.Block
	var gv types.Object
	for _, b := range p.G.CFG.Blocks {
		if !b.Live || len(b.Succs) != 2 {
			continue
		}
		for si := range b.Succs {
			for _, ft := range p.Fl.Facts(b, si) {
				be, ok := ast.Unparen(ft.Expr).(*ast.BinaryExpr)
				if !ok || be.Op != token.EQL && be.Op != token.NEQ {
					continue
				}
				for _, pair := range [][2]ast.Expr{{be.X, be.Y}, {be.Y, be.X}} {
					if v := dbVar(info, pair[1]); isTargetDB(info, pair[0]) && v != nil && !v.IsField() {
						guard, gv = b, v
					}
				}
			}
		}
	}
	if guard == nil {
		// no skip guard: the SELECT must then be unconditional in its arm; nothing to judge
		c.Okf(rule, k, e.Pos(), "the injected SELECT is not skipped by a comparison with a local database variable")
		return
	}
	eqEdge := func(ft cfgq.Fact) bool {
		eq, ok := EqFact(ft, func(x ast.Expr) bool { return isTargetDB(info, x) }, IsObj(info, gv))
		return ok && eq
	}
	// is the enqueue really skipped on the `==` edge?
	skip := p.G.Path(cfgq.Query{From: cfgq.Point{B: guard, I: len(guard.Nodes) - 1}, After: true, Avoid: p.IsSend, Target: p.IsDecode,
		AvoidEdge: func(b *cfg.Block, s int) bool { return b == guard && !p.Fl.Edge(eqEdge)(b, s) }})
	if skip == nil {
		c.Okf(rule, k, e.Pos(), "no path skips the SELECT when the compared variable equals target.db")
		return
	}
	// does the compared variable hold the *source's* database at the guard?
	var srcAssign ast.Node
	isAssignOf := func(n ast.Node) (ast.Expr, bool) {
		as, ok := n.(*ast.AssignStmt)
		if !ok || len(as.Lhs) != len(as.Rhs) {
			return nil, false
		}
		for i, l := range as.Lhs {
			if IsObj(info, gv)(l) {
				return as.Rhs[i], true
			}
		}
		return nil, false
	}
	for _, pt := range p.G.Points(func(n ast.Node) bool { _, ok := isAssignOf(n); return ok }) {
		rhs, _ := isAssignOf(pt.Node())
		o, ok := SoleOrigin(info, body, rhs)
		if !ok {
			continue
		}
		if _, ok := CallOrigin(info, o, "strconv", "", "Atoi", 0); !ok {
			continue
		}
		gn := guard.Nodes[len(guard.Nodes)-1]
		w := p.G.Path(cfgq.Query{From: pt, After: true, Target: func(n ast.Node) bool { return n == gn },
			Avoid: func(n ast.Node) bool { _, ok := isAssignOf(n); return ok || p.IsDecode(n) }})
		if w != nil {
			srcAssign = pt.Node()
		}
	}
	if srcAssign == nil {
		c.Okf(rule, k, e.Pos(), "the variable compared with target.db does not hold the source's database at the comparison")
		return
	}
	// any other SELECT on the target connection at start would make the skip safe: not judged then
	preselected := false
	for _, b := range AllBodies(c) {
		if b.Pkg.PkgPath != p.Fn.Pkg.PkgPath || b.Decl.Name.Name != "syncCommand" && b.Decl.Name.Name != "sendTargetCommand" {
			continue
		}
		core.Inspect(b.Root(), func(n ast.Node) bool {
			if call, ok := n.(*ast.CallExpr); ok && len(call.Args) > 0 {
				_, isDo := ConnMethod(b.Pkg.TypesInfo, call, "Do")
				if v, ok := core.StringConst(b.Pkg.TypesInfo, call.Args[0]); ok && isDo && strings.EqualFold(v, "select") {
					preselected = true
				}
				if site := SendOf(b.Pkg.TypesInfo, call); site != nil && len(site.Args) > 0 {
					if v, ok := core.StringConst(b.Pkg.TypesInfo, site.Args[0]); ok && strings.EqualFold(v, "select") {
						preselected = true
					}
				}
			}
			return true
		})
	}
	if preselected {
		c.Undecidedf(rule, k, e.Pos(), "the target connection is selected elsewhere; cannot judge the skipped SELECT")
		return
	}
	c.Check(rule, k, e.Pos(), false,
		fmt.Sprintf("with target.db = k the injected `SELECT k` is skipped whenever the source's own SELECT argument (`%s`) equals k, although that says nothing about the database the target connection is in. "+
			"Witness: target.db = 3, fresh target connection (database 0), source stream `SELECT 3; SET a 1`: no SELECT is ever sent and `SET a 1` is applied in database 0 instead of the configured database 3", c.Src(srcAssign)), skip...)
}

// ---------------------------------------------------------------------------
// R6 (continued): the argument bytes handed to the queue are owned by the command

// argsOwned: the []byte values the RESP decoder returns are freshly allocated;
// a slice of the bufio.Reader's internal buffer (Peek, ReadSlice) is
// overwritten by the next refill while the command still waits in ds.sendBuf
// or in the sender's batch.
func argsOwned(c *core.Ctx) {
	const rule = "R6.payload"
	pk := c.Pkg("pkg/redis")
	if pk == nil {
		c.Undecidedf(rule, "args-owned", token.NoPos, "package pkg/redis not loaded")
		return
	}
	info := pk.TypesInfo
	n := 0
	for _, b := range AllBodies(c) {
		if b.Pkg != pk || b.Lit != nil || b.Decl.Recv == nil || core.NamedTypeName(info.TypeOf(b.Decl.Recv.List[0].Type)) != "Decoder" {
			continue
		}
		fresh, alias := 0, ""
		var apos token.Pos
		core.Inspect(b.Decl.Body, func(m ast.Node) bool {
			ret, ok := m.(*ast.ReturnStmt)
			if !ok {
				return true
			}
			for _, r := range ret.Results {
				t := info.TypeOf(r)
				if t == nil {
					continue
				}
				if sl, ok := t.Underlying().(*types.Slice); !ok || !types.Identical(sl.Elem().Underlying(), types.Typ[types.Byte]) {
					continue
				}
				base := ast.Unparen(r)
				for {
					if se, ok := base.(*ast.SliceExpr); ok {
						base = ast.Unparen(se.X)
						continue
					}
					break
				}
				for _, o := range Origins(info, b.Decl, base) {
					call, _ := ast.Unparen(o.Expr).(*ast.CallExpr)
					if o.Expr == nil || call == nil {
						continue
					}
					if bi, ok := core.Callee(info, call).(*types.Builtin); ok && bi.Name() == "make" {
						fresh++
						continue
					}
					if f := core.CalleeFunc(info, call); f != nil && f.Pkg() != nil && f.Pkg().Path() == "bufio" && (f.Name() == "Peek" || f.Name() == "ReadSlice" || f.Name() == "Bytes") && o.Res <= 0 {
						alias, apos = c.Src(call), call.Pos()
					}
				}
			}
			return true
		})
		switch {
		case alias != "":
			n++
			c.Failf(rule, "args-owned/"+b.Decl.Name.Name, apos, "%s returns bytes that alias the bufio.Reader's buffer (`%s`): the parser keeps decoding while the command waits in ds.sendBuf / the sender's batch, the next refill overwrites the buffer, and the target receives different argument bytes than the source sent", b.Decl.Name.Name, alias)
		case fresh > 0:
			n++
			c.Okf(rule, "args-owned/"+b.Decl.Name.Name, b.Decl.Pos(), "the returned bytes are freshly allocated")
		}
	}
	if n == 0 {
		c.Undecidedf(rule, "args-owned", token.NoPos, "no Decoder method returning allocated bytes found")
	}
}

// ---------------------------------------------------------------------------
// R7 filter polarity

func r7(c *core.Ctx, p *Parser) {
	const rule = "R7.polarity"
	info := p.Info
	body := p.Fn.Decl.Body
	// plain verdict variables: bool locals only ever assigned true/false or an un-negated filter.* result
	plain := map[types.Object]bool{}
	verdict := func(o types.Object) bool {
		if v, ok := plain[o]; ok {
			return v
		}
		ok := true
		var ref ast.Expr
		core.Inspect(body, func(m ast.Node) bool {
			if x, isID := m.(*ast.Ident); isID && ref == nil && core.ObjOf(info, x) == o {
				ref = x
			}
			return true
		})
		if ref == nil {
			ok = false
		} else {
			for _, or := range Origins(info, body, ref) {
				if or.Zero {
					continue
				}
				if or.Expr == nil || or.Op != 0 || or.Range {
					ok = false
					continue
				}
				if tv, has := info.Types[or.Expr]; has && tv.Value != nil {
					continue
				}
				call, isCall := ast.Unparen(or.Expr).(*ast.CallExpr)
				if !isCall {
					ok = false
					continue
				}
				f := core.CalleeFunc(info, call)
				if f == nil || f.Pkg() == nil || !strings.HasSuffix(f.Pkg().Path(), "redis-shake/filter") {
					ok = false
				}
			}
		}
		plain[o] = ok
		return ok
	}
	positive := func(ft cfgq.Fact) bool {
		o, val := BoolFact(info, ft)
		return o != nil && val
	}
	unknown := func(ft cfgq.Fact) bool { // a test the rule cannot interpret as a plain negative verdict
		o, val := BoolFact(info, ft)
		if o != nil {
			return val || !verdict(o)
		}
		found := false
		ast.Inspect(ft.Expr, func(m ast.Node) bool {
			if id, ok := m.(*ast.Ident); ok {
				if v, ok := core.ObjOf(info, id).(*types.Var); ok && types.Identical(v.Type().Underlying(), types.Typ[types.Bool]) {
					found = true
				}
			}
			// a verdict computed in the condition itself (filter.X(...), a predicate helper of the module)
			if call, ok := m.(*ast.CallExpr); ok {
				if f := core.CalleeFunc(info, call); f != nil && f.Pkg() != nil && strings.HasPrefix(f.Pkg().Path(), core.Module) {
					if sig, ok := f.Type().(*types.Signature); ok && sig.Results().Len() >= 1 && types.Identical(sig.Results().At(0).Type().Underlying(), types.Typ[types.Bool]) {
						found = true
					}
				}
			}
			return true
		})
		return found
	}
	// a verdict variable that survives the iteration may only hold the database verdict
	// (filter.FilterDB of the parsed SELECT); per-command verdicts are set in every iteration
	seenV := map[types.Object]bool{}
	for _, blk := range p.G.CFG.Blocks {
		if !blk.Live || len(blk.Succs) != 2 {
			continue
		}
		cond := cfgq.CondOf(blk)
		if cond == nil || !(p.Loop.Pos() <= cond.Pos() && cond.End() <= p.Loop.End()) {
			continue
		}
		ast.Inspect(cond, func(m ast.Node) bool {
			id, ok := m.(*ast.Ident)
			if !ok {
				return true
			}
			v, ok := core.ObjOf(info, id).(*types.Var)
			if !ok || v.IsField() || seenV[v] || !types.Identical(v.Type().Underlying(), types.Typ[types.Bool]) || !verdict(v) {
				return true
			}
			seenV[v] = true
			isSet := func(n ast.Node) bool {
				as, ok := n.(*ast.AssignStmt)
				if ok {
					for _, l := range as.Lhs {
						if IsObj(info, v)(l) {
							return true
						}
					}
				}
				if ds, ok := n.(*ast.ValueSpec); ok {
					for _, nm := range ds.Names {
						if info.Defs[nm] == types.Object(v) {
							return true
						}
					}
				}
				return false
			}
			uses := func(n ast.Node) bool { return !isSet(n) && core.Mentions(info, n, v) }
			// read before it is set in the iteration that begins at the top of the loop body
			carried := false
			for _, lb := range p.G.CFG.Blocks {
				if lb.Kind == cfg.KindForBody && lb.Stmt == ast.Stmt(p.Loop) {
					carried = p.G.Path(cfgq.Query{From: cfgq.Point{B: lb, I: 0}, Avoid: isSet, Target: uses}) != nil
				}
			}
			if !carried {
				return true
			}
			for _, o := range Origins1(info, body, id) {
				if o.Zero || o.Stmt == nil || !(p.Loop.Pos() <= o.Stmt.Pos() && o.Stmt.End() <= p.Loop.End()) {
					continue
				}
				key := "verdict-scope/" + fmt.Sprint(len(seenV))
				call, _ := ast.Unparen(o.Expr).(*ast.CallExpr)
				if call != nil && core.IsFunc(core.CalleeFunc(info, call), "redis-shake/filter", "", "FilterDB") {
					c.Okf(rule, key, o.Stmt.Pos(), "the flag kept across commands is the database verdict of the last SELECT")
					continue
				}
				if tv, ok := info.Types[o.Expr]; ok && tv.Value != nil && tv.Value.String() == "true" {
					c.Failf(rule, key, o.Stmt.Pos(), "`%s`: this flag is not re-evaluated for every command (it keeps its value until the next SELECT), so after one command that sets it every following command is counted as filtered and dropped although no filter rejects it", c.Src(o.Stmt))
				} else {
					c.Undecidedf(rule, key, o.Stmt.Pos(), "`%s` sets a flag that survives the loop iteration", c.Src(o.Stmt))
				}
			}
			return true
		})
	}
	k := 0
	for _, pt := range p.G.Points(p.counts(c)) {
		if !(p.Loop.Pos() <= pt.Node().Pos() && pt.Node().End() <= p.Loop.End()) {
			continue
		}
		k++
		tn := pt.Node()
		key := fmt.Sprintf("filtered-only-on-verdict#%d", k)
		tgt := func(n ast.Node) bool { return n == tn }
		wf := p.G.Path(cfgq.Query{From: pt, After: true, Avoid: p.IsDecode, Target: p.IsSend})
		c.Check(rule, fmt.Sprintf("filtered-means-dropped#%d", k), tn.Pos(), wf == nil,
			"a command counted as filtered must not be enqueued afterwards: on this path a command rejected by the db/command/key filter is still applied on the target", wf...)
		w := p.G.Path(cfgq.Query{From: p.DecodePt, After: true, AvoidEdge: p.Fl.Edge(positive), Target: tgt, Avoid: p.IsDecode})
		if w == nil {
			c.Okf(rule, key, tn.Pos(), "the drop site is reachable only through a positive filter verdict")
			continue
		}
		w2 := p.G.Path(cfgq.Query{From: p.DecodePt, After: true, AvoidEdge: p.Fl.Edge(unknown), Target: tgt, Avoid: p.IsDecode})
		if w2 != nil {
			c.Check(rule, key, tn.Pos(), false, "a command is dropped and counted as filtered on a path on which every filter verdict is negative (or none was consulted): commands that survive the filters are not forwarded", w2...)
		} else {
			c.Undecidedf(rule, key, tn.Pos(), "the drop site is reached through a condition whose polarity the rule cannot interpret")
		}
	}
	if k == 0 {
		c.Undecidedf(rule, "filtered-only-on-verdict", p.Loop.Pos(), "no filter counter site in the parser loop")
	}
}
