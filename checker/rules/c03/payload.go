package c03

// R6 (payload identity / database routing) and R7 (filter polarity) of the parser.

import (
	"fmt"
	"go/ast"
	"go/token"
	"go/types"
	"sort"
	"strings"

	"golang.org/x/tools/go/cfg"

	"rscheck/cfgq"
	"rscheck/core"
	"rscheck/pat"
)

// ---------------------------------------------------------------------------
// R6 payload identity

// DecimalOf recognises "decimal text of integer expression E" and returns E.
func DecimalOf(info *types.Info, scope ast.Node, e ast.Expr) ast.Expr {
	for depth := 0; depth < 6; depth++ {
		o, ok := SoleOrigin(info, scope, e)
		if !ok || o.Expr == nil || o.Res > 0 || o.Range || o.Op != 0 {
			return nil
		}
		call, ok := ast.Unparen(o.Expr).(*ast.CallExpr)
		if !ok {
			return nil
		}
		f := core.CalleeFunc(info, call)
		switch {
		case core.IsFunc(f, Common, "", "String2Bytes") && len(call.Args) == 1:
			e = call.Args[0]
		case core.IsFunc(f, "strconv", "", "FormatInt") && len(call.Args) == 2:
			if b, ok := core.IntConst(info, call.Args[1]); !ok || b != 10 {
				return nil
			}
			return stripConv(info, call.Args[0])
		case core.IsFunc(f, "strconv", "", "Itoa") && len(call.Args) == 1:
			return stripConv(info, call.Args[0])
		case core.IsFunc(f, "fmt", "", "Sprintf") && len(call.Args) == 2:
			if s, ok := core.StringConst(info, call.Args[0]); !ok || s != "%d" && s != "%v" {
				return nil
			}
			return stripConv(info, call.Args[1])
		case core.IsFunc(f, "fmt", "", "Sprint") && len(call.Args) == 1:
			return stripConv(info, call.Args[0])
		default:
			return nil
		}
	}
	return nil
}

func stripConv(info *types.Info, e ast.Expr) ast.Expr {
	for {
		e = ast.Unparen(e)
		call, ok := e.(*ast.CallExpr)
		if !ok || len(call.Args) != 1 {
			return e
		}
		if tv, ok := info.Types[call.Fun]; !ok || !tv.IsType() {
			return e
		}
		e = call.Args[0]
	}
}

func isTargetDB(info *types.Info, e ast.Expr) bool {
	return FieldIs(info, e, "Configuration", "TargetDB")
}

// selectArg returns the integer expression whose decimal text is the single
// argument of an enqueued SELECT.
func selectArg(info *types.Info, scope ast.Node, args ast.Expr) ast.Expr {
	if id, isID := ast.Unparen(args).(*ast.Ident); isID {
		// the argument list built in a local first (`var args []interface{} = []interface{}{..}`), never touched afterwards
		if o, ok := SoleOrigin(info, scope, id); ok && o.Expr != nil && o.Op == 0 && !o.Range && o.Res < 0 && !o.Param && !elementWritten(info, scope, core.ObjOf(info, id)) {
			args = o.Expr
		}
	}
	lit, ok := ast.Unparen(args).(*ast.CompositeLit)
	if !ok || len(lit.Elts) != 1 {
		return nil
	}
	return DecimalOf(info, scope, lit.Elts[0])
}

// elementWritten: some `v[i] = ..`, `append(v, ..)` assigned back, or &v under scope.
func elementWritten(info *types.Info, scope ast.Node, v types.Object) bool {
	found := false
	core.InspectAll(scope, func(n ast.Node) bool {
		switch x := n.(type) {
		case *ast.AssignStmt:
			for _, l := range x.Lhs {
				if ix, ok := ast.Unparen(l).(*ast.IndexExpr); ok && IsObj(info, v)(ix.X) {
					found = true
				}
			}
		case *ast.UnaryExpr:
			if x.Op == token.AND && IsObj(info, v)(x.X) {
				found = true
			}
		}
		return true
	})
	return found
}

func r6(c *core.Ctx, p *Parser) {
	const rule = "R6.payload"
	info := p.Info
	body := p.Fn.Decl.Body
	idx := map[string]int{}
	for _, e := range p.Sends {
		idx[e.Name]++
		key := fmt.Sprintf("%s#%d", e.Name, idx[e.Name])
		switch e.Name {
		case "command":
			// Cmd: first result of ParseArgs(resp); Args: element-wise copy of HandleFilterKeyWithCommand(cmd, argv)[0]
			var pa *ast.CallExpr
			okCmd := false
			if o, ok := SoleOrigin(info, body, e.Field["Cmd"]); ok {
				if call, ok := CallOrigin(info, o, "pkg/redis", "", "ParseArgs", 0); ok && len(call.Args) == 1 && IsObj(info, p.Resp)(call.Args[0]) {
					pa, okCmd = call, true
				}
			}
			if okCmd {
				c.Okf(rule, key+"/cmd", e.Pos(), "Cmd is the command name parsed from the response decoded in this iteration")
			} else if v, isConst := core.StringConst(info, e.Field["Cmd"]); isConst {
				c.Failf(rule, key+"/cmd", e.Pos(), "every source command is forwarded under the fixed name %q", v)
			} else {
				c.Undecidedf(rule, key+"/cmd", e.Pos(), "cannot trace Cmd `%s` to ParseArgs(resp)", c.Src(e.Field["Cmd"]))
			}
			checkArgs(c, p, e, key, pa)
			if lastDb := dbVar(info, e.Field["Db"]); lastDb != nil {
				checkLastDb(c, p, key, lastDb)
			} else {
				c.Undecidedf(rule, key+"/db", e.Pos(), "Db `%s` is not a local variable", c.Src(e.Field["Db"]))
			}
		case "start-db":
			// handled by StartDb below
		case "select":
			arg := selectArg(info, body, e.Field["Args"])
			db := e.Field["Db"]
			switch {
			case arg == nil:
				c.Undecidedf(rule, key+"/arg-is-db", e.Pos(), "cannot read the SELECT argument `%s` as the decimal text of an integer", c.Src(e.Field["Args"]))
			case pat.Same(info, arg, db) || isTargetDB(info, arg) && isTargetDB(info, db):
				c.Okf(rule, key+"/arg-is-db", e.Pos(), "the SELECT argument and the Db tag are the same value")
			default:
				c.Undecidedf(rule, key+"/arg-is-db", e.Pos(), "SELECT argument `%s` and Db tag `%s` are different expressions", c.Src(arg), c.Src(db))
			}
			fixedTargetDb(c, p, e, rule, key)
		}
	}
	StartDb(c, p, rule)
	argsOwned(c)
}

// StartDb checks that the resumed start database is enqueued first (also used by C04.R5).
func StartDb(c *core.Ctx, p *Parser, rule string) {
	n := 0
	for _, e := range p.Sends {
		if e.Name == "start-db" {
			n++
			startDb(c, p, e, rule, fmt.Sprintf("start-db#%d", n))
		}
	}
	if n == 0 {
		if len(FieldWrites(c, Syncer, "startDbId")) > 0 {
			c.Failf(rule, "start-db", p.Fn.Decl.Pos(), "Sync records the checkpoint's database in ds.startDbId but parseSourceCommand never enqueues a SELECT for it: after PSYNC CONTINUE the stream carries no SELECT of its own, so the resumed commands run in database 0")
		} else {
			c.Undecidedf(rule, "start-db", p.Fn.Decl.Pos(), "no start-database SELECT before the parser loop")
		}
	}
}

func dbVar(info *types.Info, e ast.Expr) *types.Var {
	id, ok := ast.Unparen(e).(*ast.Ident)
	if !ok {
		return nil
	}
	v, _ := core.ObjOf(info, id).(*types.Var)
	return v
}

func checkArgs(c *core.Ctx, p *Parser, e *Enq, key string, pa *ast.CallExpr) {
	const rule = "R6.payload"
	info := p.Info
	body := p.Fn.Decl.Body
	k := key + "/args"
	und := func(format string, a ...interface{}) { c.Undecidedf(rule, k, e.Pos(), format, a...) }
	src, fail, why := elementCopy(c, info, body, e.Field["Args"], p.Fn.Pkg.PkgPath, 0)
	if fail != "" {
		c.Failf(rule, k, e.Pos(), "%s", fail)
		return
	}
	if why != "" {
		und("%s", why)
		return
	}
	o, ok := SoleOrigin(info, body, src)
	if !ok {
		// several definitions: the one that reaches the copy decides (the others -- `newArgv = nil` on the
		// drop arms, the zero value of the declaration -- must not reach it)
		o, ok = reachingDef(p, src)
	}
	if !ok {
		und("cannot trace the copied slice `%s`", c.Src(src))
		return
	}
	for step := 0; step < 4 && o.Expr != nil && o.Op == 0 && !o.Range && o.Res < 0; step++ {
		if _, isID := ast.Unparen(o.Expr).(*ast.Ident); !isID {
			break
		}
		// through temporaries that hold the call's result
		o2, ok2 := SoleOrigin(info, body, o.Expr)
		if !ok2 {
			o2, ok2 = reachingDef(p, o.Expr)
		}
		if !ok2 {
			break
		}
		o = o2
	}
	if call, ok := CallOrigin(info, o, "redis-shake/filter", "", "HandleFilterKeyWithCommand", 0); ok && len(call.Args) == 2 {
		// its inputs are the command and arguments of the same ParseArgs call
		good := pa != nil
		for i, a := range call.Args {
			ao, ok := SoleOrigin(info, body, a)
			if !ok || ast.Unparen(ao.Expr) != ast.Expr(pa) || ao.Res != i {
				good = false
			}
		}
		if good {
			c.Okf(rule, k, e.Pos(), "Args is an element-wise copy of HandleFilterKeyWithCommand(cmd, argv) of this iteration's command")
		} else {
			und("HandleFilterKeyWithCommand is not applied to (cmd, argv) of this iteration's ParseArgs")
		}
		return
	}
	if call, ok := CallOrigin(info, o, "pkg/redis", "", "ParseArgs", 1); ok && call == pa {
		c.Failf(rule, k, e.Pos(), "Args copies the unfiltered argument list: keys removed by the key filter are forwarded to the target")
		return
	}
	und("the copied slice `%s` does not come from HandleFilterKeyWithCommand", c.Src(src))
}

// reachingDef: src is a local with several definitions of which exactly one
// can reach the place where src is read (path query with the engine's
// constant tracking); returns that definition.
func reachingDef(p *Parser, src ast.Expr) (Origin, bool) {
	id, ok := ast.Unparen(src).(*ast.Ident)
	if !ok {
		return Origin{}, false
	}
	v, ok := core.ObjOf(p.Info, id).(*types.Var)
	if !ok || v.IsField() {
		return Origin{}, false
	}
	use, ok := p.G.Find(src)
	if !ok {
		return Origin{}, false
	}
	un := use.Node()
	isDef := func(n ast.Node) bool {
		switch x := n.(type) {
		case *ast.AssignStmt:
			for _, l := range x.Lhs {
				if IsObj(p.Info, v)(l) {
					return true
				}
			}
		case *ast.ValueSpec:
			for _, nm := range x.Names {
				if p.Info.Defs[nm] == types.Object(v) {
					return true
				}
			}
		case *ast.DeclStmt:
			if gd, ok := x.Decl.(*ast.GenDecl); ok {
				for _, sp := range gd.Specs {
					if vs, ok := sp.(*ast.ValueSpec); ok {
						for _, nm := range vs.Names {
							if p.Info.Defs[nm] == types.Object(v) {
								return true
							}
						}
					}
				}
			}
		}
		return false
	}
	var hit []Origin
	for _, o := range Origins1(p.Info, p.Fn.Decl, id) {
		if o.Stmt == nil {
			return Origin{}, false
		}
		dp, ok := p.G.Find(o.Stmt)
		if !ok {
			return Origin{}, false
		}
		if w := p.G.Path(cfgq.Query{From: dp, After: true, Avoid: isDef, Target: func(n ast.Node) bool { return n == un }}); w != nil {
			hit = append(hit, o)
		}
	}
	if len(hit) == 1 && !hit[0].Zero {
		return hit[0], true
	}
	return Origin{}, false
}

// atoiOfFirst: o is the first result of strconv.Atoi(<string of X[0]>) with isArgv(X).
func atoiOfFirst(info *types.Info, scope ast.Node, o Origin, isArgv func(ast.Expr) bool) bool {
	call, ok := CallOrigin(info, o, "strconv", "", "Atoi", 0)
	if !ok || len(call.Args) != 1 {
		return false
	}
	ao, ok := SoleOrigin(info, scope, call.Args[0])
	if !ok {
		return false
	}
	ix, _ := ast.Unparen(ao.Expr).(*ast.IndexExpr)
	if ix == nil {
		return false
	}
	i0, isC := core.IntConst(info, ix.Index)
	return isC && i0 == 0 && isArgv(ix.X)
}

// indexedFill recognises `D := make([]T, len(S)); for i[, v] := range S { D[i] = S[i] | v }`
// (the assignment being a top-level statement of the range body) and returns S.
func indexedFill(c *core.Ctx, info *types.Info, body ast.Node, d *ast.Ident, mk *ast.CallExpr) ast.Expr {
	if len(mk.Args) != 2 {
		return nil
	}
	b := pat.Expr("len(_s)").Match(info, mk.Args[1], nil)
	if b == nil {
		return nil
	}
	var hit ast.Expr
	var lastW *ast.AssignStmt
	n := 0
	core.Inspect(body, func(m ast.Node) bool {
		rs, ok := m.(*ast.RangeStmt)
		if !ok {
			// any other element write of D makes the form unknown
			if as, ok := m.(*ast.AssignStmt); ok {
				for _, l := range as.Lhs {
					if ix, ok := ast.Unparen(l).(*ast.IndexExpr); ok && pat.Same(info, ix.X, d) {
						n++
						lastW = as
					}
				}
			}
			return true
		}
		if !pat.Same(info, rs.X, b["_s"]) || rs.Key == nil {
			return true
		}
		for _, st := range rs.Body.List {
			as, ok := st.(*ast.AssignStmt)
			if !ok || len(as.Lhs) != 1 || len(as.Rhs) != 1 || as.Tok != token.ASSIGN {
				continue
			}
			ix, ok := ast.Unparen(as.Lhs[0]).(*ast.IndexExpr)
			if !ok || !pat.Same(info, ix.X, d) || !pat.Same(info, ix.Index, rs.Key) {
				continue
			}
			rhs := ast.Unparen(as.Rhs[0])
			okVal := rs.Value != nil && pat.Same(info, rhs, rs.Value)
			if sx, ok := rhs.(*ast.IndexExpr); ok && pat.Same(info, sx.X, rs.X) && pat.Same(info, sx.Index, rs.Key) {
				okVal = true
			}
			if okVal {
				hit = rs.X
			}
		}
		return true
	})
	if n != 1 { // exactly one element write, the recognised one
		return nil
	}
	if hit == nil && lastW != nil && len(lastW.Lhs) == 1 && len(lastW.Rhs) == 1 && lastW.Tok == token.ASSIGN {
		// D[i] = S[i] with a counter i walking S (for or goto form)
		dx := ast.Unparen(lastW.Lhs[0]).(*ast.IndexExpr)
		if sx, ok := ast.Unparen(lastW.Rhs[0]).(*ast.IndexExpr); ok && pat.Same(info, sx.Index, dx.Index) && pat.Same(info, sx.X, b["_s"]) {
			if walkedIndex(c, info, body, sx, lastW) == "" {
				hit = sx.X
			}
		}
	}
	return hit
}

// elementCopy recognises "x is an element-wise copy of the slice src": x is a
// local built by make(.., 0, ..) + append in a range over src (or pre-sized and
// filled by index), or the result of a helper of the package that builds its
// result that way from one of its parameters. It returns src in the
// vocabulary of scope, or a failure / undecided message.
func elementCopy(c *core.Ctx, info *types.Info, scope ast.Node, x ast.Expr, pkgPath string, depth int) (src ast.Expr, fail, undecided string) {
	if call, ok := ast.Unparen(x).(*ast.CallExpr); ok && depth < 3 {
		h := HelperOf(c.Program, info, scope, call, pkgPath)
		if h == nil || call.Ellipsis.IsValid() {
			return nil, "", fmt.Sprintf("Args `%s` is not a local slice", c.Src(x))
		}
		var rets []*ast.ReturnStmt
		core.Inspect(h.Body, func(m ast.Node) bool {
			if r, ok := m.(*ast.ReturnStmt); ok {
				rets = append(rets, r)
			}
			return true
		})
		if len(rets) != 1 || len(rets[0].Results) != 1 {
			return nil, "", fmt.Sprintf("the helper called by `%s` does not have a single return of one value", c.Src(x))
		}
		hscope := ast.Node(h.Body)
		if h.Fn != nil {
			hscope = h.Fn.Decl
		} else if h.Lit != nil {
			hscope = h.Lit
		}
		hsrc, f, u := elementCopy(c, h.Info, hscope, rets[0].Results[0], pkgPath, depth+1)
		if f != "" || u != "" {
			return nil, f, u
		}
		bind := BindCall(call, h.Type, h.Recv, h.Info)
		id, ok := ast.Unparen(hsrc).(*ast.Ident)
		if !ok || bind[core.ObjOf(h.Info, id)] == nil {
			return nil, "", fmt.Sprintf("the helper called by `%s` copies `%s`, which is not one of its parameters", c.Src(x), c.Src(hsrc))
		}
		return bind[core.ObjOf(h.Info, id)], "", ""
	}
	id, ok := ast.Unparen(x).(*ast.Ident)
	if !ok {
		return nil, "", fmt.Sprintf("Args `%s` is not a local slice", c.Src(x))
	}
	var nonEmptyMake *ast.CallExpr
	nApp := 0
	for _, o := range Origins(info, scope, id) {
		var call *ast.CallExpr
		var bi *types.Builtin
		if o.Expr != nil {
			call, _ = ast.Unparen(o.Expr).(*ast.CallExpr)
		}
		if call != nil {
			bi, _ = core.Callee(info, call).(*types.Builtin)
		}
		switch {
		case o.Zero:
			// declared without a value: nothing in it yet
		case call != nil && bi != nil && bi.Name() == "make":
			n, ok := int64(-1), false
			if len(call.Args) >= 2 {
				n, ok = core.IntConst(info, call.Args[1])
			}
			if !ok || n != 0 {
				nonEmptyMake = call
			}
		case call != nil && bi != nil && bi.Name() == "append" && len(call.Args) == 2 && !call.Ellipsis.IsValid() && appendsToItself(info, o.Stmt, call):
			nApp++
			if nApp > 1 {
				return nil, "", "the argument slice is appended to at more than one place"
			}
			if ix, ok := ast.Unparen(call.Args[1]).(*ast.IndexExpr); ok {
				// S[i]: i the key of a range over S, or a counter walking 0..len(S)-1 (for or goto form)
				ko, isKey := SoleOrigin(info, scope, ix.Index)
				if !(isKey && ko.Range && ko.Res == 0 && pat.Same(info, ko.Stmt.(*ast.RangeStmt).X, ix.X)) {
					why := walkedIndex(c, info, scope, ix, o.Stmt)
					if why != "" {
						return nil, "", why
					}
					src = ix.X
					continue
				}
			}
			ro, ok := SoleOrigin(info, scope, call.Args[1])
			if ix, isIx := ast.Unparen(call.Args[1]).(*ast.IndexExpr); isIx {
				ro, ok = SoleOrigin(info, scope, ix.Index)
				ok = ok && ro.Range && ro.Res == 0
				ro.Res = 1
			}
			if !ok || !ro.Range || ro.Res != 1 {
				return nil, "", fmt.Sprintf("appended element `%s` is not the value of a range loop", c.Src(call.Args[1]))
			}
			rs := ro.Stmt.(*ast.RangeStmt)
			if !(rs.Pos() <= call.Pos() && call.End() <= rs.End()) {
				return nil, "", "append outside the range that binds its element"
			}
			// one append per element, executed on every iteration
			n := 0
			for _, st := range rs.Body.List {
				if as, ok := st.(*ast.AssignStmt); ok && len(as.Rhs) == 1 && ast.Unparen(as.Rhs[0]) == ast.Expr(call) {
					n++
				}
			}
			if n != 1 {
				return nil, "", "the append is not a top-level statement of the range body"
			}
			if why := everyIteration(c, info, scope, rs, o.Stmt); why != "" {
				return nil, "", why
			}
			src = rs.X
		default:
			if o.Param {
				return nil, "", fmt.Sprintf("Args `%s` is not built here", c.Src(x))
			}
			return nil, "", fmt.Sprintf("unexpected definition of the argument slice: `%s`", c.Src(o.Stmt))
		}
	}
	if src != nil && nonEmptyMake != nil {
		return nil, fmt.Sprintf("`%s` starts the argument list with nil elements and the copied ones are appended after them: the forwarded command has extra arguments", c.Src(nonEmptyMake)), ""
	}
	if src == nil && nonEmptyMake != nil {
		// make([]T, len(S)) filled by `for i := range S { D[i] = S[i] }` (or the range value)
		if idx := indexedFill(c, info, scope, id, nonEmptyMake); idx != nil {
			src = idx
		}
	}
	if src == nil && nonEmptyMake != nil {
		return nil, "", fmt.Sprintf("the argument slice is pre-sized by `%s` and filled by index: not the known append form", c.Src(nonEmptyMake))
	}
	if src == nil {
		return nil, "the argument slice is never filled: every command is forwarded without arguments", ""
	}
	return src, "", ""
}

// appendsToItself: stmt is `v = append(v, ...)` for the given append call.
func appendsToItself(info *types.Info, stmt ast.Node, call *ast.CallExpr) bool {
	as, ok := stmt.(*ast.AssignStmt)
	if !ok || len(as.Lhs) != len(as.Rhs) {
		return false
	}
	for i, r := range as.Rhs {
		if ast.Unparen(r) == ast.Expr(call) {
			return pat.Same(info, as.Lhs[i], call.Args[0])
		}
	}
	return false
}

// checkLastDb: every definition of the Db variable is -1, the parsed SELECT argument or target.db.
func checkLastDb(c *core.Ctx, p *Parser, key string, v *types.Var) {
	const rule = "R6.payload"
	info := p.Info
	body := p.Fn.Decl.Body
	n := 0
	var ref ast.Expr
	core.Inspect(body, func(m ast.Node) bool {
		if x, ok := m.(*ast.Ident); ok && ref == nil && core.ObjOf(info, x) == types.Object(v) {
			ref = x
		}
		return true
	})
	for _, o := range Origins(info, body, ref) {
		n++
		k := fmt.Sprintf("%s/db-source#%d", key, n)
		pos := token.NoPos
		if o.Stmt != nil {
			pos = o.Stmt.Pos()
		}
		switch {
		case o.Zero:
			c.Okf(rule, k, pos, "zero value")
		case o.Op != 0 || o.Range || o.Res > 0:
			c.Failf(rule, k, pos, "the database tag is changed by `%s`, not taken from a SELECT: commands are tagged with a database the source never selected", c.Src(o.Stmt))
		case isTargetDB(info, o.Expr):
			c.Okf(rule, k, pos, "conf.Options.TargetDB")
		default:
			if _, isConst := core.IntConst(info, o.Expr); isConst && o.Stmt != nil {
				if _, isSpec := o.Stmt.(*ast.ValueSpec); isSpec {
					c.Okf(rule, k, pos, "initial value before the first SELECT")
					continue
				}
				if p.Loop.Pos() <= o.Stmt.Pos() && o.Stmt.End() <= p.Loop.End() {
					c.Undecidedf(rule, k, pos, "the database tag is set to a constant inside the loop by `%s`", c.Src(o.Stmt))
				} else {
					c.Okf(rule, k, pos, "initial value before the first SELECT")
				}
				continue
			}
			isArgv := func(x ast.Expr) bool { // the argument vector of this iteration's ParseArgs(resp)
				xo, ok := SoleOrigin(info, body, x)
				if !ok {
					return false
				}
				pc, ok := CallOrigin(info, xo, "pkg/redis", "", "ParseArgs", 1)
				return ok && len(pc.Args) == 1 && IsObj(info, p.Resp)(pc.Args[0])
			}
			if atoiOfFirst(info, body, o, isArgv) {
				c.Okf(rule, k, pos, "the argument of the parsed SELECT")
				continue
			}
			// or a module helper that parses its argv parameter: every return is Atoi(string(param[0]))
			if hc, isCall := ast.Unparen(o.Expr).(*ast.CallExpr); isCall && o.Res <= 0 && o.Op == 0 && !o.Range {
				if fn := c.FnOf(core.CalleeFunc(info, hc)); fn != nil && fn.Decl.Body != nil && strings.HasPrefix(fn.Pkg.PkgPath, core.Module) &&
					fn.Obj.Type().(*types.Signature).Results().Len() == 1 {
					finfo := fn.Pkg.TypesInfo
					good, rets := true, 0
					core.Inspect(fn.Decl.Body, func(m ast.Node) bool {
						ret, ok := m.(*ast.ReturnStmt)
						if !ok || len(ret.Results) != 1 {
							return true
						}
						rets++
						ro, ok := SoleOrigin(finfo, fn.Decl, ret.Results[0])
						if !ok || !atoiOfFirst(finfo, fn.Decl, ro, func(x ast.Expr) bool {
							id, ok := ast.Unparen(x).(*ast.Ident)
							if !ok {
								return false
							}
							pi := 0
							for _, f := range fn.Decl.Type.Params.List {
								for _, nm := range f.Names {
									if finfo.Defs[nm] == core.ObjOf(finfo, id) && pi < len(hc.Args) && isArgv(hc.Args[pi]) {
										return true
									}
									pi++
								}
							}
							return false
						}) {
							good = false
						}
						return true
					})
					if good && rets > 0 {
						c.Okf(rule, k, pos, "the argument of the parsed SELECT (parsed by %s)", fn.Name())
						continue
					}
				}
			}
			c.Undecidedf(rule, k, pos, "cannot trace `%s` to the SELECT argument or target.db", c.Src(o.Expr))
		}
	}
}

// startDb: `if ds.startDbId != 0 { enqueue select <startDbId> }` before the loop.
func startDb(c *core.Ctx, p *Parser, e *Enq, rule, key string) {
	info := p.Info
	isStart := func(x ast.Expr) bool {
		return x != nil && FieldIs(info, ChaseCopy(info, p.Fn.Decl, x), Syncer, "startDbId")
	}
	arg := selectArg(info, p.Fn.Decl.Body, e.Field["Args"])
	cmd, _ := core.StringConst(info, e.Field["Cmd"])
	switch {
	case !strings.EqualFold(cmd, "select"):
		c.Undecidedf(rule, key+"/select", e.Pos(), "the command enqueued before the loop is not a constant SELECT")
	case arg != nil && isStart(arg) && isStart(e.Field["Db"]):
		c.Okf(rule, key+"/select", e.Pos(), "SELECT <ds.startDbId>, tagged with the same database")
	case arg != nil && (isStart(arg) || isStart(e.Field["Db"])):
		c.Failf(rule, key+"/select", e.Pos(), "the start SELECT names `%s` but is tagged Db `%s`: the resumed stream continues in another database than the checkpoint recorded", c.Src(arg), c.Src(e.Field["Db"]))
	default:
		c.Undecidedf(rule, key+"/select", e.Pos(), "cannot read the start SELECT's argument/Db as ds.startDbId")
	}
	zero := func(ft cfgq.Fact) bool {
		eq, ok := EqFact(ft, isStart, func(x ast.Expr) bool { v, ok := core.IntConst(info, x); return ok && v == 0 })
		return ok && eq
	}
	notSend := func(n ast.Node) bool { return n == e.Pt.Node() }
	w := p.G.Path(cfgq.Query{From: p.G.Entry(), Avoid: notSend, AvoidEdge: p.Fl.Edge(zero), Target: p.IsDecode})
	if w != nil {
		// a guard on startDbId of another form is not judged
		anyTest := func(b *cfg.Block, s int) bool {
			cond := cfgq.CondOf(b)
			if cond == nil {
				return false
			}
			if core.MentionsField(info, cond, Syncer, "startDbId") {
				return true
			}
			hit := false // or a local copy of it
			ast.Inspect(cond, func(m ast.Node) bool {
				if id, ok := m.(*ast.Ident); ok && isStart(id) {
					hit = true
				}
				return true
			})
			return hit
		}
		if p.G.Path(cfgq.Query{From: p.G.Entry(), Avoid: notSend, AvoidEdge: anyTest, Target: p.IsDecode}) == nil {
			c.Undecidedf(rule, key+"/first", e.Pos(), "the start SELECT is guarded by a test of ds.startDbId that is not the known `!= 0` form")
			return
		}
	}
	c.Check(rule, key+"/first", e.Pos(), w == nil,
		"when ds.startDbId != 0 the SELECT of the resumed database must be enqueued before the first source command is decoded: a stream resumed by PSYNC CONTINUE carries no SELECT of its own, so the commands would run in database 0", w...)
}

// fixedTargetDb: with target.db configured, the injected SELECT may only be
// skipped when the *target* is known to be in that database.
func fixedTargetDb(c *core.Ctx, p *Parser, e *Enq, rule, key string) {
	info := p.Info
	body := p.Fn.Decl.Body
	k := key + "/fixed-target-db"
	// the guard: an edge `TargetDB == v` / `TargetDB != v` (v a local) on which the enqueue is skipped
	var guard *cfg.Block
	var gv types.Object
	for _, b := range p.G.CFG.Blocks {
		if !b.Live || len(b.Succs) != 2 {
			continue
		}
		for si := range b.Succs {
			for _, ft := range p.Fl.Facts(b, si) {
				be, ok := ast.Unparen(ft.Expr).(*ast.BinaryExpr)
				if !ok || be.Op != token.EQL && be.Op != token.NEQ {
					continue
				}
				for _, pair := range [][2]ast.Expr{{be.X, be.Y}, {be.Y, be.X}} {
					if v := dbVar(info, pair[1]); isTargetDB(info, pair[0]) && v != nil && !v.IsField() {
						guard, gv = b, v
					}
				}
			}
		}
	}
	if guard == nil {
		// no skip guard: the SELECT must then be unconditional in its arm; nothing to judge
		c.Okf(rule, k, e.Pos(), "the injected SELECT is not skipped by a comparison with a local database variable")
		return
	}
	eqEdge := func(ft cfgq.Fact) bool {
		eq, ok := EqFact(ft, func(x ast.Expr) bool { return isTargetDB(info, x) }, IsObj(info, gv))
		return ok && eq
	}
	// is the enqueue really skipped on the `==` edge?
	skip := p.G.Path(cfgq.Query{From: cfgq.Point{B: guard, I: len(guard.Nodes) - 1}, After: true, Avoid: p.IsSend, Target: p.IsDecode,
		AvoidEdge: func(b *cfg.Block, s int) bool { return b == guard && !p.Fl.Edge(eqEdge)(b, s) }})
	if skip == nil {
		c.Okf(rule, k, e.Pos(), "no path skips the SELECT when the compared variable equals target.db")
		return
	}
	// does the compared variable hold the *source's* database at the guard?
	var srcAssign ast.Node
	isAssignOf := func(n ast.Node) (ast.Expr, bool) {
		as, ok := n.(*ast.AssignStmt)
		if !ok || len(as.Lhs) != len(as.Rhs) {
			return nil, false
		}
		for i, l := range as.Lhs {
			if IsObj(info, gv)(l) {
				return as.Rhs[i], true
			}
		}
		return nil, false
	}
	for _, pt := range p.G.Points(func(n ast.Node) bool { _, ok := isAssignOf(n); return ok }) {
		rhs, _ := isAssignOf(pt.Node())
		o, ok := SoleOrigin(info, body, rhs)
		if !ok {
			continue
		}
		if _, ok := CallOrigin(info, o, "strconv", "", "Atoi", 0); !ok {
			continue
		}
		gn := guard.Nodes[len(guard.Nodes)-1]
		w := p.G.Path(cfgq.Query{From: pt, After: true, Target: func(n ast.Node) bool { return n == gn },
			Avoid: func(n ast.Node) bool { _, ok := isAssignOf(n); return ok || p.IsDecode(n) }})
		if w != nil {
			srcAssign = pt.Node()
		}
	}
	if srcAssign == nil {
		c.Okf(rule, k, e.Pos(), "the variable compared with target.db does not hold the source's database at the comparison")
		return
	}
	// any other SELECT on the target connection at start would make the skip safe: not judged then
	preselected := false
	for _, b := range AllBodies(c) {
		if b.Pkg.PkgPath != p.Fn.Pkg.PkgPath || b.Decl.Name.Name != "syncCommand" && b.Decl.Name.Name != "sendTargetCommand" {
			continue
		}
		core.Inspect(b.Root(), func(n ast.Node) bool {
			if call, ok := n.(*ast.CallExpr); ok && len(call.Args) > 0 {
				_, isDo := ConnMethod(b.Pkg.TypesInfo, call, "Do")
				if v, ok := core.StringConst(b.Pkg.TypesInfo, call.Args[0]); ok && isDo && strings.EqualFold(v, "select") {
					preselected = true
				}
				if site := SendOf(b.Pkg.TypesInfo, call); site != nil && len(site.Args) > 0 {
					if v, ok := core.StringConst(b.Pkg.TypesInfo, site.Args[0]); ok && strings.EqualFold(v, "select") {
						preselected = true
					}
				}
			}
			return true
		})
	}
	if preselected {
		c.Undecidedf(rule, k, e.Pos(), "the target connection is selected elsewhere; cannot judge the skipped SELECT")
		return
	}
	c.Check(rule, k, e.Pos(), false,
		fmt.Sprintf("with target.db = k the injected `SELECT k` is skipped whenever the source's own SELECT argument (`%s`) equals k, although that says nothing about the database the target connection is in. "+
			"Witness: target.db = 3, fresh target connection (database 0), source stream `SELECT 3; SET a 1`: no SELECT is ever sent and `SET a 1` is applied in database 0 instead of the configured database 3", c.Src(srcAssign)), skip...)
}

// ---------------------------------------------------------------------------
// R6 (continued): the argument bytes handed to the queue are owned by the command

// argsOwned: the []byte values the RESP decoder returns are freshly allocated;
// a slice of the bufio.Reader's internal buffer (Peek, ReadSlice) is
// overwritten by the next refill while the command still waits in ds.sendBuf
// or in the sender's batch.
func argsOwned(c *core.Ctx) {
	const rule = "R6.payload"
	pk := c.Pkg("pkg/redis")
	if pk == nil {
		c.Undecidedf(rule, "args-owned", token.NoPos, "package pkg/redis not loaded")
		return
	}
	info := pk.TypesInfo
	n := 0
	for _, b := range AllBodies(c) {
		if b.Pkg != pk || b.Lit != nil || b.Decl.Recv == nil || core.NamedTypeName(info.TypeOf(b.Decl.Recv.List[0].Type)) != "Decoder" {
			continue
		}
		fresh, alias := 0, ""
		var apos token.Pos
		core.Inspect(b.Decl.Body, func(m ast.Node) bool {
			ret, ok := m.(*ast.ReturnStmt)
			if !ok {
				return true
			}
			for _, r := range ret.Results {
				t := info.TypeOf(r)
				if t == nil {
					continue
				}
				if sl, ok := t.Underlying().(*types.Slice); !ok || !types.Identical(sl.Elem().Underlying(), types.Typ[types.Byte]) {
					continue
				}
				base := ast.Unparen(r)
				for {
					if se, ok := base.(*ast.SliceExpr); ok {
						base = ast.Unparen(se.X)
						continue
					}
					break
				}
				for _, o := range Origins(info, b.Decl, base) {
					call, _ := ast.Unparen(o.Expr).(*ast.CallExpr)
					if o.Expr == nil || call == nil {
						continue
					}
					if bi, ok := core.Callee(info, call).(*types.Builtin); ok && bi.Name() == "make" {
						fresh++
						continue
					}
					if f := core.CalleeFunc(info, call); f != nil && f.Pkg() != nil && f.Pkg().Path() == "bufio" && (f.Name() == "Peek" || f.Name() == "ReadSlice" || f.Name() == "Bytes") && o.Res <= 0 {
						alias, apos = c.Src(call), call.Pos()
					}
				}
			}
			return true
		})
		switch {
		case alias != "":
			n++
			c.Failf(rule, "args-owned/"+b.Decl.Name.Name, apos, "%s returns bytes that alias the bufio.Reader's buffer (`%s`): the parser keeps decoding while the command waits in ds.sendBuf / the sender's batch, the next refill overwrites the buffer, and the target receives different argument bytes than the source sent", b.Decl.Name.Name, alias)
		case fresh > 0:
			n++
			c.Okf(rule, "args-owned/"+b.Decl.Name.Name, b.Decl.Pos(), "the returned bytes are freshly allocated")
		}
	}
	if n == 0 {
		c.Undecidedf(rule, "args-owned", token.NoPos, "no Decoder method returning allocated bytes found")
	}
}

// ---------------------------------------------------------------------------
// R7 filter polarity

func r7(c *core.Ctx, p *Parser) {
	const rule = "R7.polarity"
	info := p.Info
	body := p.Fn.Decl.Body
	// plain verdict variables: bool locals only ever assigned true/false or an un-negated filter.* result
	plain := map[types.Object]bool{}
	verdict := func(o types.Object) bool {
		if v, ok := plain[o]; ok {
			return v
		}
		ok := true
		var ref ast.Expr
		core.Inspect(body, func(m ast.Node) bool {
			if x, isID := m.(*ast.Ident); isID && ref == nil && core.ObjOf(info, x) == o {
				ref = x
			}
			return true
		})
		if ref == nil {
			ok = false
		} else {
			for _, or := range Origins(info, body, ref) {
				if or.Zero {
					continue
				}
				if or.Expr == nil || or.Op != 0 || or.Range {
					ok = false
					continue
				}
				if tv, has := info.Types[or.Expr]; has && tv.Value != nil {
					continue
				}
				call, isCall := ast.Unparen(or.Expr).(*ast.CallExpr)
				if !isCall {
					ok = false
					continue
				}
				f := core.CalleeFunc(info, call)
				if f == nil || f.Pkg() == nil || !strings.HasSuffix(f.Pkg().Path(), "redis-shake/filter") {
					ok = false
				}
			}
		}
		plain[o] = ok
		return ok
	}
	positive := func(ft cfgq.Fact) bool {
		o, val := BoolFact(info, ft)
		if o != nil {
			return val
		}
		// the verdict tested where it is computed: `if filter.FilterCommands(sCmd) {`
		if call, ok := ast.Unparen(ft.Expr).(*ast.CallExpr); ok && ft.Val {
			if f := core.CalleeFunc(info, call); f != nil && f.Pkg() != nil && strings.HasSuffix(f.Pkg().Path(), "redis-shake/filter") {
				return true
			}
		}
		return false
	}
	// a path that sets a verdict flag to true has consulted a positive verdict as well (the test of the
	// flag may have been folded away by the normalisation: `flag = true; count; continue`)
	setsFlag := func(n ast.Node) bool {
		as, ok := n.(*ast.AssignStmt)
		if !ok || len(as.Lhs) != len(as.Rhs) {
			return false
		}
		for i, l := range as.Lhs {
			id, ok := ast.Unparen(l).(*ast.Ident)
			if !ok {
				continue
			}
			v, ok := core.ObjOf(info, id).(*types.Var)
			if !ok || v.IsField() || !types.Identical(v.Type().Underlying(), types.Typ[types.Bool]) {
				continue
			}
			if tv, ok := info.Types[as.Rhs[i]]; ok && tv.Value != nil && tv.Value.String() == "true" {
				return true
			}
		}
		return false
	}
	unknown := func(ft cfgq.Fact) bool { // a test the rule cannot interpret as a plain negative verdict
		o, val := BoolFact(info, ft)
		if o != nil {
			return val || !verdict(o)
		}
		found := false
		ast.Inspect(ft.Expr, func(m ast.Node) bool {
			if id, ok := m.(*ast.Ident); ok {
				if v, ok := core.ObjOf(info, id).(*types.Var); ok && types.Identical(v.Type().Underlying(), types.Typ[types.Bool]) {
					found = true
				}
			}
			// a verdict computed in the condition itself (filter.X(...), a predicate helper of the module)
			if call, ok := m.(*ast.CallExpr); ok {
				if f := core.CalleeFunc(info, call); f != nil && f.Pkg() != nil && strings.HasPrefix(f.Pkg().Path(), core.Module) {
					if sig, ok := f.Type().(*types.Signature); ok && sig.Results().Len() >= 1 && types.Identical(sig.Results().At(0).Type().Underlying(), types.Typ[types.Bool]) {
						found = true
					}
				}
			}
			return true
		})
		return found
	}
	// a verdict variable that survives the iteration may only hold the database verdict
	// (filter.FilterDB of the parsed SELECT); per-command verdicts are set in every iteration
	seenV := map[types.Object]bool{}
	for _, blk := range p.G.CFG.Blocks {
		if !blk.Live || len(blk.Succs) != 2 {
			continue
		}
		cond := cfgq.CondOf(blk)
		if cond == nil || !(p.Loop.Pos() <= cond.Pos() && cond.End() <= p.Loop.End()) {
			continue
		}
		ast.Inspect(cond, func(m ast.Node) bool {
			id, ok := m.(*ast.Ident)
			if !ok {
				return true
			}
			v, ok := core.ObjOf(info, id).(*types.Var)
			if !ok || v.IsField() || seenV[v] || !types.Identical(v.Type().Underlying(), types.Typ[types.Bool]) || !verdict(v) {
				return true
			}
			seenV[v] = true
			isSet := func(n ast.Node) bool {
				as, ok := n.(*ast.AssignStmt)
				if ok {
					for _, l := range as.Lhs {
						if IsObj(info, v)(l) {
							return true
						}
					}
				}
				if ds, ok := n.(*ast.ValueSpec); ok {
					for _, nm := range ds.Names {
						if info.Defs[nm] == types.Object(v) {
							return true
						}
					}
				}
				return false
			}
			uses := func(n ast.Node) bool { return !isSet(n) && core.Mentions(info, n, v) }
			// read before it is set in the iteration that begins at the top of the loop body
			carried := false
			for _, lb := range p.G.CFG.Blocks {
				if lb.Kind == cfg.KindForBody && lb.Stmt == ast.Stmt(p.Loop) {
					carried = p.G.Path(cfgq.Query{From: cfgq.Point{B: lb, I: 0}, Avoid: isSet, Target: uses}) != nil
				}
			}
			if !carried {
				return true
			}
			for _, o := range Origins1(info, body, id) {
				if o.Zero || o.Stmt == nil || !(p.Loop.Pos() <= o.Stmt.Pos() && o.Stmt.End() <= p.Loop.End()) {
					continue
				}
				key := "verdict-scope/" + fmt.Sprint(len(seenV))
				call, _ := ast.Unparen(o.Expr).(*ast.CallExpr)
				if call != nil && core.IsFunc(core.CalleeFunc(info, call), "redis-shake/filter", "", "FilterDB") {
					c.Okf(rule, key, o.Stmt.Pos(), "the flag kept across commands is the database verdict of the last SELECT")
					continue
				}
				if tv, ok := info.Types[o.Expr]; ok && tv.Value != nil && tv.Value.String() == "true" {
					c.Failf(rule, key, o.Stmt.Pos(), "`%s`: this flag is not re-evaluated for every command (it keeps its value until the next SELECT), so after one command that sets it every following command is counted as filtered and dropped although no filter rejects it", c.Src(o.Stmt))
				} else {
					c.Undecidedf(rule, key, o.Stmt.Pos(), "`%s` sets a flag that survives the loop iteration", c.Src(o.Stmt))
				}
			}
			return true
		})
	}
	k := 0
	for _, pt := range p.G.Points(p.counts(c)) {
		if !(p.Loop.Pos() <= pt.Node().Pos() && pt.Node().End() <= p.Loop.End()) {
			continue
		}
		k++
		tn := pt.Node()
		key := fmt.Sprintf("filtered-only-on-verdict#%d", k)
		tgt := func(n ast.Node) bool { return n == tn }
		wf := p.G.Path(cfgq.Query{From: pt, After: true, Avoid: p.IsDecode, Target: p.IsSend})
		c.Check(rule, fmt.Sprintf("filtered-means-dropped#%d", k), tn.Pos(), wf == nil,
			"a command counted as filtered must not be enqueued afterwards: on this path a command rejected by the db/command/key filter is still applied on the target", wf...)
		w := p.G.Path(cfgq.Query{From: p.DecodePt, After: true, AvoidEdge: p.Fl.Edge(positive), Target: tgt, Avoid: cfgq.Or(p.IsDecode, setsFlag)})
		if w == nil {
			c.Okf(rule, key, tn.Pos(), "the drop site is reachable only through a positive filter verdict")
			continue
		}
		w2 := p.G.Path(cfgq.Query{From: p.DecodePt, After: true, AvoidEdge: p.Fl.Edge(unknown), Target: tgt, Avoid: cfgq.Or(p.IsDecode, setsFlag)})
		direct := false
		for _, call := range cfgq.ExecCalls(tn) {
			direct = direct || isFilterCount(info, call)
		}
		if w2 != nil && !direct {
			// the counter sits inside a helper this statement calls: whether it runs is decided by the helper's own conditions
			c.Undecidedf(rule, key, tn.Pos(), "the filter counter is reached through a helper called here; the conditions under which the helper counts are not visible on this view")
		} else if w2 != nil {
			c.Check(rule, key, tn.Pos(), false, "a command is dropped and counted as filtered on a path on which every filter verdict is negative (or none was consulted): commands that survive the filters are not forwarded", w2...)
		} else {
			c.Undecidedf(rule, key, tn.Pos(), "the drop site is reached through a condition whose polarity the rule cannot interpret")
		}
	}
	if k == 0 {
		c.Undecidedf(rule, "filtered-only-on-verdict", p.Loop.Pos(), "no filter counter site in the parser loop")
	}
	VerdictHonoured(c, p, rule)
	dbVerdictEverySelect(c, p, rule)
}

// dbVerdictEverySelect: the database verdict is a function of the database the
// source selected. Every parsed SELECT must therefore reach the assignment
// `flag = filter.FilterDB(n)`; skipping it is only sound when the skipped case
// provably has the same verdict. A guard `n != v` with a variable v that is
// also assigned something other than the parsed number (the fixed target
// database) is not such a case: v does not always name the source's database.
func dbVerdictEverySelect(c *core.Ctx, p *Parser, rule string) {
	info := p.Info
	const key = "db-verdict/every-select"
	var set *ast.AssignStmt
	var nArg ast.Expr
	core.Inspect(p.Loop.Body, func(m ast.Node) bool {
		as, ok := m.(*ast.AssignStmt)
		if !ok || len(as.Lhs) != len(as.Rhs) {
			return true
		}
		for _, r := range as.Rhs {
			if call, ok := ast.Unparen(r).(*ast.CallExpr); ok && core.IsFunc(core.CalleeFunc(info, call), "redis-shake/filter", "", "FilterDB") && len(call.Args) == 1 {
				set, nArg = as, call.Args[0]
			}
		}
		return true
	})
	if set == nil {
		return // (a helper evaluates it: the expanded view is judged)
	}
	// where the number is parsed: the definition of the argument
	o, ok := SoleOrigin(info, p.Fn.Decl, nArg)
	if !ok || o.Stmt == nil {
		return
	}
	from, ok := p.G.Find(o.Stmt)
	if !ok {
		return
	}
	isSet := func(n ast.Node) bool { return n == ast.Node(set) }
	w := p.G.Path(cfgq.Query{From: from, After: true, Avoid: isSet, Target: cfgq.Or(p.IsDecode, p.IsSend)})
	if w == nil {
		c.Okf(rule, key, set.Pos(), "every parsed SELECT re-evaluates the database filter")
		return
	}
	// the guards around the assignment
	nObj := types.Object(nil)
	if id, ok := ast.Unparen(nArg).(*ast.Ident); ok {
		nObj = core.ObjOf(info, id)
	}
	path := core.PathTo(p.Loop.Body, set)
	for i := 0; i+1 < len(path); i++ {
		ifs, ok := path[i].(*ast.IfStmt)
		if !ok || path[i+1] != ast.Node(ifs.Body) || nObj == nil {
			continue
		}
		be, ok := ast.Unparen(ifs.Cond).(*ast.BinaryExpr)
		if !ok || be.Op != token.NEQ {
			continue
		}
		var other ast.Expr
		switch {
		case IsObj(info, nObj)(be.X):
			other = be.Y
		case IsObj(info, nObj)(be.Y):
			other = be.X
		}
		oid, ok := ast.Unparen(other).(*ast.Ident)
		if other == nil || !ok {
			continue
		}
		keyed := false
		for _, d := range Origins1(info, p.Fn.Decl, oid) {
			if d.Zero || d.Expr == nil || d.Stmt == nil {
				continue
			}
			if IsObj(info, nObj)(d.Expr) {
				// recorded next to the verdict, under the same guard
				keyed = keyed || ifs.Body.Pos() <= d.Stmt.Pos() && d.Stmt.End() <= ifs.Body.End()
				continue
			}
			if _, isConst := core.IntConst(info, d.Expr); isConst && !(p.Loop.Pos() <= d.Stmt.Pos() && d.Stmt.End() <= p.Loop.End()) {
				continue // the initial value before the loop
			}
			keyed = false
			c.Check(rule, key, set.Pos(), false, fmt.Sprintf("the database filter is only re-evaluated when the selected number differs from `%s`, but `%s` does not always hold the database the source selected last (`%s`): after that assignment a source SELECT of that number is taken for 'no change' and the verdict of the previously selected database stays in force, so commands issued in a filtered source database are forwarded (or commands of an allowed one dropped)", oid.Name, oid.Name, c.Src(d.Stmt)), w...)
			return
		}
		if keyed && len(path) > 0 {
			// the only guard on the way? (one level: the verdict is cached under the number it was computed for)
			c.Okf(rule, key, set.Pos(), "the database filter is re-evaluated whenever the selected number differs from `%s`, which always holds the number the verdict was computed for", oid.Name)
			return
		}
	}
	c.Undecidedf(rule, key, set.Pos(), "a parsed SELECT can reach the next command without re-evaluating filter.FilterDB; the rule cannot show that the skipped case keeps the verdict")
}

// VerdictHonoured: the converse of filtered-only-on-verdict (keys verdict-honoured/<enqueue>#k under rule). A drop flag is a
// plain verdict variable whose being true sends the command to a drop site
// (it occurs positively in a condition from whose true side every path counts
// the command as filtered before anything else happens), and in any case the
// database verdict (the flag set from filter.FilterDB of the parsed SELECT,
// which survives the iteration). Every enqueue inside the loop must lie behind
// a test that found each drop flag false: counted from the last write of the
// flag (writes of the constant false need no test), or from the start of the
// iteration when the flag is not written on the way.
func VerdictHonoured(c *core.Ctx, p *Parser, rule string) {
	info := p.Info
	body := p.Fn.Decl.Body
	// plain verdict variables: bool locals only ever assigned true/false or an un-negated filter.* result
	plain := map[types.Object]bool{}
	verdict := func(o types.Object) bool {
		if v, ok := plain[o]; ok {
			return v
		}
		ok := true
		var ref ast.Expr
		core.Inspect(body, func(m ast.Node) bool {
			if x, isID := m.(*ast.Ident); isID && ref == nil && core.ObjOf(info, x) == o {
				ref = x
			}
			return true
		})
		if ref == nil {
			ok = false
		} else {
			for _, or := range Origins(info, body, ref) {
				if or.Zero {
					continue
				}
				if or.Expr == nil || or.Op != 0 || or.Range {
					ok = false
					continue
				}
				if tv, has := info.Types[or.Expr]; has && tv.Value != nil {
					continue
				}
				call, isCall := ast.Unparen(or.Expr).(*ast.CallExpr)
				if !isCall {
					ok = false
					continue
				}
				f := core.CalleeFunc(info, call)
				if f == nil || f.Pkg() == nil || !strings.HasSuffix(f.Pkg().Path(), "redis-shake/filter") {
					ok = false
				}
			}
		}
		plain[o] = ok
		return ok
	}
	g := p.G
	counts := p.counts(c)
	inLoop := func(n ast.Node) bool { return n != nil && p.Loop.Pos() <= n.Pos() && n.End() <= p.Loop.End() }
	var flags []types.Object
	seen := map[types.Object]bool{}
	addFlag := func(o types.Object) {
		if v, ok := o.(*types.Var); ok && !v.IsField() && !seen[o] && verdict(o) {
			seen[o] = true
			flags = append(flags, o)
		}
	}
	for _, b := range g.CFG.Blocks {
		if !b.Live || len(b.Succs) != 2 {
			continue
		}
		cond := cfgq.CondOf(b)
		if cond == nil || !inLoop(cond) {
			continue
		}
		for si := range b.Succs {
			// does this side always end in a drop?
			w := g.Path(cfgq.Query{From: cfgq.Point{B: b.Succs[si], I: 0}, Avoid: counts, Target: cfgq.Or(p.IsDecode, p.IsSend), TargetExit: cfgq.NormalExit})
			if w != nil || g.Path(cfgq.Query{From: cfgq.Point{B: b.Succs[si], I: 0}, Target: counts}) == nil {
				continue
			}
			for _, ft := range p.Fl.Facts(b, si) {
				if o, val := BoolFact(info, ft); o != nil && val {
					addFlag(o)
				}
			}
			for _, al := range p.Fl.AltsOf(b, si) {
				for _, ft := range al {
					if o, val := BoolFact(info, ft); o != nil && val {
						addFlag(o)
					}
				}
			}
		}
	}
	// the database verdict
	core.Inspect(p.Loop.Body, func(m ast.Node) bool {
		as, ok := m.(*ast.AssignStmt)
		if !ok || len(as.Lhs) != len(as.Rhs) {
			return true
		}
		for i, r := range as.Rhs {
			if call, ok := ast.Unparen(r).(*ast.CallExpr); ok && core.IsFunc(core.CalleeFunc(info, call), "redis-shake/filter", "", "FilterDB") {
				if id, ok := ast.Unparen(as.Lhs[i]).(*ast.Ident); ok {
					addFlag(core.ObjOf(info, id))
				}
			}
		}
		return true
	})
	if len(flags) == 0 {
		return
	}
	sort.Slice(flags, func(i, j int) bool { return flags[i].Pos() < flags[j].Pos() })
	var start *cfg.Block
	for _, lb := range g.CFG.Blocks {
		if lb.Kind == cfg.KindForBody && lb.Stmt == ast.Stmt(p.Loop) {
			start = lb
		}
	}
	if start == nil {
		return
	}
	idx := map[string]int{}
	for _, e := range p.Sends {
		if !e.InLoop {
			continue
		}
		idx[e.Name]++
		key := fmt.Sprintf("verdict-honoured/%s#%d", e.Name, idx[e.Name])
		target := func(n ast.Node) bool { return n == e.Pt.Node() }
		var wit []string
		culprit := ""
		var culpritObj types.Object
		for _, v := range flags {
			v := v
			// write of v: 0 none, 1 the constant false, 2 anything else
			writeKind := func(n ast.Node) int {
				kind := 0
				upd := func(rhs ast.Expr, known bool) {
					k := 2
					if !known {
						k = 1 // declared without a value: false
					} else if tv, ok := info.Types[rhs]; ok && tv.Value != nil && tv.Value.String() == "false" {
						k = 1
					}
					if k > kind {
						kind = k
					}
				}
				switch x := n.(type) {
				case *ast.AssignStmt:
					for i, l := range x.Lhs {
						if IsObj(info, v)(l) {
							if len(x.Lhs) == len(x.Rhs) && (x.Tok == token.ASSIGN || x.Tok == token.DEFINE) {
								upd(x.Rhs[i], true)
							} else {
								kind = 2
							}
						}
					}
				case *ast.ValueSpec:
					for i, nm := range x.Names {
						if info.Defs[nm] == v {
							if i < len(x.Values) {
								upd(x.Values[i], true)
							} else {
								upd(nil, false)
							}
						}
					}
				case *ast.DeclStmt:
					if gd, ok := x.Decl.(*ast.GenDecl); ok {
						for _, sp := range gd.Specs {
							if vs, ok := sp.(*ast.ValueSpec); ok {
								for i, nm := range vs.Names {
									if info.Defs[nm] == v {
										if i < len(vs.Values) {
											upd(vs.Values[i], true)
										} else {
											upd(nil, false)
										}
									}
								}
							}
						}
					}
				}
				return kind
			}
			isWrite := func(n ast.Node) bool { return writeKind(n) > 0 }
			foundFalse := p.Fl.Edge(func(ft cfgq.Fact) bool {
				o, val := BoolFact(info, ft)
				return o == v && !val
			})
			// flags derived from v: `w := v` / `w := v || ...` with every other write of w the constant
			// true; once that definition has run, finding w false finds v false as well
			type derivedFlag struct {
				w   types.Object
				def ast.Node
			}
			var derived []derivedFlag
			core.Inspect(p.Loop.Body, func(m ast.Node) bool {
				as, ok := m.(*ast.AssignStmt)
				if !ok || len(as.Lhs) != len(as.Rhs) || (as.Tok != token.ASSIGN && as.Tok != token.DEFINE) {
					return true
				}
				for i, l := range as.Lhs {
					id, ok := ast.Unparen(l).(*ast.Ident)
					if !ok || id.Name == "_" {
						continue
					}
					wv, ok := core.ObjOf(info, id).(*types.Var)
					if !ok || types.Object(wv) == v || !types.Identical(wv.Type().Underlying(), types.Typ[types.Bool]) {
						continue
					}
					hasV := false
					for _, d := range disjuncts(as.Rhs[i]) {
						hasV = hasV || IsObj(info, v)(d)
					}
					if !hasV {
						continue
					}
					okOthers := true
					for _, o := range Origins1(info, p.Fn.Decl, id) {
						if o.Stmt == ast.Node(as) || o.Zero {
							continue
						}
						tv, isC := info.Types[o.Expr]
						if o.Expr == nil || o.Op != 0 || !isC || tv.Value == nil || tv.Value.String() != "true" {
							okOthers = false
						}
					}
					if okOthers {
						derived = append(derived, derivedFlag{wv, as})
					}
				}
				return true
			})
			isDef := func(n ast.Node) bool {
				for _, d := range derived {
					if n == d.def {
						return true
					}
				}
				return false
			}
			// a path on which neither v nor (after its definition ran) a flag derived from v was found false
			unguarded := func(from cfgq.Point, after bool, stop func(ast.Node) bool) []string {
				if w := g.Path(cfgq.Query{From: from, After: after, Avoid: cfgq.Or(stop, isDef), AvoidEdge: foundFalse, Target: target}); w != nil {
					return w
				}
				for _, d := range derived {
					dp, ok := g.Find(d.def)
					if !ok || g.Path(cfgq.Query{From: from, After: after, Avoid: stop, Target: func(n ast.Node) bool { return n == dp.Node() }}) == nil {
						continue
					}
					dw := d.w
					wFalse := p.Fl.Edge(func(ft cfgq.Fact) bool {
						o, val := BoolFact(info, ft)
						return o == dw && !val
					})
					if w := g.Path(cfgq.Query{From: dp, After: true, Avoid: cfgq.Or(stop, isDef, p.IsDecode), Target: target,
						AvoidEdge: func(b *cfg.Block, si int) bool { return foundFalse(b, si) || wFalse(b, si) }}); w != nil {
						return w
					}
				}
				return nil
			}
			// (a) the value the flag has at the start of the iteration
			// (a variable declared inside the loop body is re-created in every iteration: it can only be
			// true after a write of this iteration, which (b) covers -- also when its declaration sits in
			// a nested block that the path to the enqueue does not enter)
			var w []string
			if !(p.Loop.Body.Pos() <= v.Pos() && v.Pos() < p.Loop.Body.End()) {
				w = unguarded(cfgq.Point{B: start, I: 0}, false, isWrite)
			}
			// (b) every write that may leave it true
			if w == nil {
				for _, wp := range g.Points(func(n ast.Node) bool { return inLoop(n) && writeKind(n) == 2 }) {
					w = unguarded(wp, true, cfgq.Or(isWrite, p.IsDecode))
					if w != nil {
						break
					}
				}
			}
			if w != nil {
				wit, culprit, culpritObj = w, v.Name(), v
				break
			}
		}
		if wit != nil && flowsElsewhere(info, p.Loop.Body, culpritObj) {
			c.Undecidedf(rule, key, e.Pos(), "the flag `%s` (true = drop the command) is copied into other variables or handed to calls; the rule cannot see whether the enqueue lies behind a test that found it false", culprit)
			continue
		}
		if wit == nil {
			c.Okf(rule, key, e.Pos(), "the enqueue lies behind tests that found every drop flag (%d of them, among them the database verdict of the last SELECT) false", len(flags))
			continue
		}
		c.Check(rule, key, e.Pos(), false, fmt.Sprintf(
			"every enqueue in the parser loop must lie behind a test that found every filter verdict false; on this path the flag `%s` (true = drop the command) is not consulted after it was last set, so a command is forwarded although the filter verdict in force says drop: e.g. the master's keep-alive PING while the source is inside a filtered database is sent to the target and stamps a checkpoint offset inside the filtered stretch, and a restart from that checkpoint applies the following commands of the filtered database to the recorded one", culprit), wit...)
	}
}

// walkedIndex decides, on the control-flow graph of scope, that the statement
// at (`d = append(d, S[i])`) runs exactly once for i = 0, 1, .., len(S)-1:
// i is a local counter defined by a constant 0 and one increment by 1, one
// guard `i < len(S)` (or an equivalent comparison) is passed before every
// append, append and increment alternate, and the guard is not left on its
// true side without appending. It covers `for i := 0; i < len(S); i++`, the
// same loop written with a label and goto, and a while-style for. The result
// is "" or the reason why the form is not recognised.
func walkedIndex(c *core.Ctx, info *types.Info, scope ast.Node, ix *ast.IndexExpr, at ast.Node) string {
	iid, ok := ast.Unparen(ix.Index).(*ast.Ident)
	if !ok {
		return fmt.Sprintf("appended element `%s` is neither a range value nor indexed by a counter", c.Src(ix))
	}
	iv := core.ObjOf(info, iid)
	var body *ast.BlockStmt
	switch x := scope.(type) {
	case *ast.FuncDecl:
		body = x.Body
	case *ast.FuncLit:
		body = x.Body
	case *ast.BlockStmt:
		body = x
	}
	if body == nil || iv == nil {
		return fmt.Sprintf("appended element `%s`: enclosing body not available", c.Src(ix))
	}
	un := func(format string, a ...interface{}) string {
		return fmt.Sprintf("appended element `%s` is indexed by `%s`, ", c.Src(ix), iid.Name) + fmt.Sprintf(format, a...)
	}
	// definitions of the counter
	var init, inc ast.Node
	for _, o := range Origins(info, scope, iid) {
		switch {
		case o.Zero:
			if init != nil {
				return un("which has several initialisations")
			}
			init = o.Stmt
		case o.Op == token.INC && o.Expr == nil, o.Op == token.ADD_ASSIGN && isIntConst(info, o.Expr, 1):
			if inc != nil {
				return un("which is advanced at several places")
			}
			inc = o.Stmt
		case o.Op == 0 && !o.Range && o.Res < 0 && isIntConst(info, o.Expr, 0):
			if init != nil {
				return un("which has several initialisations")
			}
			init = o.Stmt
		case o.Op == 0 && !o.Range && o.Res < 0 && (pat.Expr("_i + 1").Match(info, o.Expr, pat.Binds{"_i": iid}) != nil || pat.Expr("1 + _i").Match(info, o.Expr, pat.Binds{"_i": iid}) != nil):
			if inc != nil {
				return un("which is advanced at several places")
			}
			inc = o.Stmt
		default:
			return un("which is not a counter from 0 in steps of 1 (`%s`)", c.Src(o.Stmt))
		}
	}
	if init == nil || inc == nil {
		return un("which is not a counter from 0 in steps of 1")
	}
	escapes := false
	core.InspectAll(body, func(n ast.Node) bool {
		switch x := n.(type) {
		case *ast.UnaryExpr:
			if x.Op == token.AND && IsObj(info, iv)(x.X) {
				escapes = true
			}
		case *ast.FuncLit:
			if core.Mentions(info, x, iv) {
				escapes = true
			}
		}
		return true
	})
	if escapes {
		return un("whose address is taken or which a closure captures")
	}
	g := cfgq.New(c.Program.Fset, info, body, cfgq.NR(c.Program))
	pA, ok1 := g.Find(at)
	pI, ok2 := g.Find(inc)
	pZ, ok3 := g.Find(init)
	if ds, ok := init.(*ast.DeclStmt); ok && !ok3 {
		pZ, ok3 = g.Find(ds.Decl)
	}
	if !ok1 || !ok2 || !ok3 {
		return un("but the statements are not found in the control-flow graph")
	}
	// the guard
	type guard struct {
		b    *cfg.Block
		succ int
		cond ast.Expr
	}
	var gs []guard
	for _, b := range g.CFG.Blocks {
		cond := cfgq.CondOf(b)
		if cond == nil || len(b.Succs) != 2 {
			continue
		}
		be, ok := ast.Unparen(cond).(*ast.BinaryExpr)
		if !ok {
			continue
		}
		isI := func(e ast.Expr) bool { return IsObj(info, iv)(e) }
		isLen := func(e ast.Expr) bool {
			m := pat.Expr("len(_s)").Match(info, e, nil)
			if m == nil {
				return false
			}
			sx, _ := m["_s"].(ast.Expr)
			return sx != nil && pat.Same(info, sx, ix.X)
		}
		op := be.Op
		switch {
		case isI(be.X) && isLen(be.Y):
		case isLen(be.X) && isI(be.Y):
			switch op { // mirror
			case token.LSS:
				op = token.GTR
			case token.GTR:
				op = token.LSS
			case token.LEQ:
				op = token.GEQ
			case token.GEQ:
				op = token.LEQ
			}
		default:
			continue
		}
		switch op {
		case token.LSS, token.NEQ:
			gs = append(gs, guard{b, 0, cond})
		case token.GEQ, token.EQL:
			gs = append(gs, guard{b, 1, cond})
		default:
			return un("compared with the length by `%s`: off by one or not a bound", c.Src(cond))
		}
	}
	if len(gs) != 1 {
		return un("but there is not exactly one guard `%s < len(%s)`", iid.Name, c.Src(ix.X))
	}
	gd := gs[0]
	isA := func(n ast.Node) bool { return n == at }
	isInc := func(n ast.Node) bool { return n == inc }
	isInit := func(n ast.Node) bool { return n == pZ.Node() }
	isG := func(n ast.Node) bool { return n == ast.Node(gd.cond) }
	inEdge := func(b *cfg.Block, succ int) bool { return b == gd.b && succ == gd.succ }
	sObj := types.Object(nil)
	if sid, ok := ast.Unparen(ix.X).(*ast.Ident); ok {
		sObj = core.ObjOf(info, sid)
	}
	writesS := func(n ast.Node) bool {
		as, ok := n.(*ast.AssignStmt)
		if !ok || sObj == nil {
			return false
		}
		for _, l := range as.Lhs {
			if IsObj(info, sObj)(l) {
				return true
			}
		}
		return false
	}
	if sObj == nil {
		return un("into `%s`, which is not a variable", c.Src(ix.X))
	}
	// the destination: leaving the guarded region for a use of it without having appended loses an element
	var dObj types.Object
	if as, ok := at.(*ast.AssignStmt); ok && len(as.Lhs) == 1 {
		l := ast.Unparen(as.Lhs[0])
		if dx, ok := l.(*ast.IndexExpr); ok {
			l = ast.Unparen(dx.X)
		}
		if id, ok := l.(*ast.Ident); ok {
			dObj = core.ObjOf(info, id)
		}
	}
	if dObj == nil {
		return un("but the destination of `%s` is not a variable", c.Src(at))
	}
	usesD := func(n ast.Node) bool { return n != at && core.Mentions(info, n, dObj) }
	checks := []struct {
		q   cfgq.Query
		why string
	}{
		{cfgq.Query{From: pZ, After: true, AvoidEdge: inEdge, Target: isA}, "the append can be reached without passing the bound check"},
		{cfgq.Query{From: pZ, After: true, Avoid: isA, Target: isInc}, "the counter can advance before the first append (element skipped)"},
		{cfgq.Query{From: pA, After: true, Avoid: isInc, Target: cfgq.Or(isA, isG)}, "the next round can start without advancing the counter"},
		{cfgq.Query{From: pI, After: true, Avoid: isA, Target: isInc}, "the counter can advance twice without an append (element skipped)"},
		{cfgq.Query{From: pI, After: true, AvoidEdge: inEdge, Avoid: isInit, Target: isA}, "the append can be reached again without passing the bound check"},
		{cfgq.Query{From: cfgq.Point{B: gd.b.Succs[gd.succ]}, Avoid: cfgq.Or(isA, isInit), Target: cfgq.Or(isG, usesD), TargetExit: cfgq.NormalExit}, "the loop can be left inside the bound without appending (element missing)"},
	}
	for _, ch := range checks {
		if w := g.Path(ch.q); w != nil {
			return un("and %s", ch.why)
		}
	}
	for _, w := range g.Points(writesS) {
		wn := w.Node()
		isW := func(n ast.Node) bool { return n == wn }
		if g.Path(cfgq.Query{From: pA, After: true, Avoid: isInit, Target: isW}) != nil && g.Path(cfgq.Query{From: w, After: true, Avoid: isInit, Target: isA}) != nil {
			return un("and the source slice is reassigned while it is walked")
		}
	}
	if g.Path(cfgq.Query{From: pZ, After: true, Target: isA}) == nil {
		return un("but the append is not reachable from the initialisation of the counter")
	}
	return ""
}

func isIntConst(info *types.Info, e ast.Expr, v int64) bool {
	if e == nil {
		return false
	}
	n, ok := core.IntConst(info, e)
	return ok && n == v
}

// everyIteration: no iteration of the range statement rs ends (next iteration,
// break, goto out of the loop) without executing the statement at. Calls that
// do not return end a path.
func everyIteration(c *core.Ctx, info *types.Info, scope ast.Node, rs *ast.RangeStmt, at ast.Node) string {
	var body *ast.BlockStmt
	switch x := scope.(type) {
	case *ast.FuncDecl:
		body = x.Body
	case *ast.FuncLit:
		body = x.Body
	case *ast.BlockStmt:
		body = x
	}
	if body == nil {
		return "range loop of the argument copy: enclosing body not available"
	}
	g := cfgq.New(c.Program.Fset, info, body, cfgq.NR(c.Program))
	var start *cfg.Block
	for _, b := range g.CFG.Blocks {
		if b.Kind == cfg.KindRangeBody && b.Stmt == ast.Node(rs) {
			start = b
		}
	}
	if start == nil {
		return "range loop of the argument copy not found in the control-flow graph"
	}
	seen := map[*cfg.Block]bool{}
	var walk func(b *cfg.Block) bool
	walk = func(b *cfg.Block) bool {
		if seen[b] {
			return false
		}
		seen[b] = true
		for _, n := range b.Nodes {
			if n == at {
				return false
			}
		}
		if b != start && !(rs.Body.Pos() <= blockPos(b) && blockPos(b) < rs.Body.End()) {
			return true // left the loop body (next iteration, loop exit or a jump elsewhere)
		}
		if k := g.Exit(b); len(b.Succs) == 0 {
			return cfgq.NormalExit(b, k)
		}
		for _, s := range b.Succs {
			if walk(s) {
				return true
			}
		}
		return false
	}
	if walk(start) {
		return fmt.Sprintf("an iteration of `for ... range %s` can end without `%s`: an argument would be missing", c.Src(rs.X), c.Src(at))
	}
	return ""
}

// blockPos: position of the first node of b, or of the statement the block belongs to.
func blockPos(b *cfg.Block) token.Pos {
	if len(b.Nodes) > 0 {
		return b.Nodes[0].Pos()
	}
	if b.Stmt != nil {
		return b.Stmt.Pos()
	}
	return token.NoPos
}

// flowsElsewhere: inside body the bool variable v is read anywhere else than
// in the condition of an if / for / switch-case (its value may then travel in
// another variable the caller's path query does not follow).
func flowsElsewhere(info *types.Info, body ast.Node, v types.Object) bool {
	inCond := map[*ast.Ident]bool{}
	mark := func(e ast.Expr) {
		if e == nil {
			return
		}
		ast.Inspect(e, func(m ast.Node) bool {
			if _, isCall := m.(*ast.CallExpr); isCall {
				return false // an argument of a call inside a condition flows into the callee
			}
			if id, ok := m.(*ast.Ident); ok {
				inCond[id] = true
			}
			return true
		})
	}
	core.InspectAll(body, func(m ast.Node) bool {
		switch x := m.(type) {
		case *ast.IfStmt:
			mark(x.Cond)
		case *ast.ForStmt:
			mark(x.Cond)
		case *ast.SwitchStmt:
			mark(x.Tag)
		case *ast.CaseClause:
			for _, e := range x.List {
				mark(e)
			}
		}
		return true
	})
	found := false
	core.InspectAll(body, func(m ast.Node) bool {
		switch x := m.(type) {
		case *ast.AssignStmt:
			for _, l := range x.Lhs {
				if id, ok := ast.Unparen(l).(*ast.Ident); ok {
					inCond[id] = true // a write, not a read
				}
			}
		case *ast.Ident:
			if info.Uses[x] == v && !inCond[x] {
				found = true
			}
		}
		return true
	})
	return found
}

// disjuncts splits `a || b || c` (one element for anything else).
func disjuncts(e ast.Expr) []ast.Expr {
	e = ast.Unparen(e)
	if be, ok := e.(*ast.BinaryExpr); ok && be.Op == token.LOR {
		return append(disjuncts(be.X), disjuncts(be.Y)...)
	}
	return []ast.Expr{e}
}
