package c03

// R4 (barrier before append) and R5 (barrier automaton); both are also run,
// in strict mode, by C04.R3.

import (
	"fmt"
	"go/ast"
	"go/constant"
	"go/token"
	"go/types"
	"sort"
	"strings"

	"golang.org/x/tools/go/cfg"

	"rscheck/cfgq"
	"rscheck/core"
	"rscheck/pat"
)

// ---------------------------------------------------------------------------
// R4 barrier before append (strict: deviations are failures; otherwise UNDECIDED)

func BarrierBeforeAppend(c *core.Ctx, s *Sender, rule string, strict bool) {
	info := s.Info
	yes, no := pkgConst(c, "flushStatusYes"), pkgConst(c, "flushStatusNo")
	if s.Barrier == nil || yes == nil || no == nil || s.Fs == nil {
		c.Undecidedf(rule, "shape", s.Fn.Decl.Pos(), "no `state, flush = barrierStatus(item.Cmd, state)` in sendTargetCommand, or the flush constants are missing")
		return
	}
	call := s.BarrierCall
	okArgs := len(call.Args) == 2 && isFieldOf(info, call.Args[0], s.Item, "Cmd") && IsObj(info, s.Bs)(call.Args[1])
	if okArgs {
		c.Okf(rule, "automaton-input", call.Pos(), "barrierStatus is fed the received command's name and the previous state, and its result becomes the state")
	} else {
		c.Undecidedf(rule, "automaton-input", call.Pos(), "`%s` does not thread (item.Cmd, previous state) through barrierStatus", c.Src(s.Barrier))
	}
	noFlush := func(ft cfgq.Fact) bool {
		if eq, ok := EqFact(ft, IsObj(info, s.Fs), IsConstVal(info, yes)); ok && !eq {
			return true
		}
		eq, ok := EqFact(ft, IsObj(info, s.Fs), IsConstVal(info, no))
		return ok && eq
	}
	fsWrite := func(n ast.Node) bool {
		as, ok := n.(*ast.AssignStmt)
		if !ok || s.BarrierChain[n] {
			return false
		}
		for _, l := range as.Lhs {
			if IsObj(info, s.Fs)(l) {
				return true
			}
		}
		return false
	}
	flushed := cfgq.Or(s.IsFlushCall, s.IsRecv)
	var tests []*cfg.Block // branches on the flush variable
	for _, b := range s.G.CFG.Blocks {
		if !b.Live || len(b.Succs) != 2 {
			continue
		}
		hit := false
		for si := range b.Succs {
			for _, ft := range s.Fl.Facts(b, si) {
				hit = hit || core.Mentions(info, ft.Expr, s.Fs)
			}
		}
		if cond := cfgq.CondOf(b); hit || cond != nil && core.Mentions(info, cond, s.Fs) {
			tests = append(tests, b)
		}
	}
	isTestEdge := func(b *cfg.Block, i int) bool {
		for _, t := range tests {
			if t == b {
				return true
			}
		}
		return false
	}
	for i, a := range s.Appends {
		pt, ok := s.G.Find(a)
		if !ok {
			continue
		}
		tn := pt.Node()
		toAppend := func(n ast.Node) bool { return n == tn }
		detail := "when barrierStatus reports a flush (SELECT/MULTI/EXEC), sendFunc() must run before the barrier command itself is cached: otherwise one batch spans a SELECT and its checkpoint is stored in only one of the databases its commands ran in"
		key := fmt.Sprintf("flush-before-append#%d", i+1)
		// definite: the flush status is tested unmodified, the flush edge is taken, and the append is reached without sendFunc()
		var bad []string
		for _, t := range tests {
			cn := t.Nodes[len(t.Nodes)-1]
			p1 := s.G.Path(cfgq.Query{From: s.BarrierPt, After: true, Avoid: cfgq.Or(flushed, fsWrite), Target: func(n ast.Node) bool { return n == cn }})
			if p1 == nil {
				continue
			}
			for si, succ := range t.Succs {
				if s.Fl.Edge(noFlush)(t, si) {
					continue
				}
				if p2 := s.G.Path(cfgq.Query{From: cfgq.Point{B: succ, I: 0}, Avoid: flushed, AvoidEdge: s.Fl.Edge(noFlush), Target: toAppend}); p2 != nil {
					bad = append(append([]string{}, p1...), p2...)
				}
			}
		}
		if bad == nil { // or the append is reached without consulting the flush status at all
			bad = s.G.Path(cfgq.Query{From: s.BarrierPt, After: true, Avoid: flushed, AvoidEdge: isTestEdge, Target: toAppend})
		}
		any := s.G.Path(cfgq.Query{From: s.BarrierPt, After: true, Avoid: flushed, AvoidEdge: s.Fl.Edge(noFlush), Target: toAppend})
		switch {
		case bad == nil && any == nil:
			c.Okf(rule, key, a.Pos(), "the append is reachable from the barrier test only through sendFunc() or a no-flush edge")
		case bad != nil && strict:
			c.Check(rule, key, a.Pos(), false, detail, bad...)
		default:
			c.Undecidedf(rule, key, a.Pos(), "%s (not a necessary condition of this property by itself, or the flush variable is rewritten before its test; decided under C04.R3)", detail)
		}
	}
}

// ---------------------------------------------------------------------------
// R5 automaton

// Automaton evaluates barrierStatus over all states and command classes.
func Automaton(c *core.Ctx, rule string, strict bool) {
	fn := c.Func(DbSync, "", "barrierStatus")
	pk := c.Pkg(DbSync)
	if fn == nil || pk == nil {
		return
	}
	bm := pk.Types.Scope().Lookup("barrierMap")
	m, lit := MapLiteral(c, DbSync, bm)
	if m == nil {
		c.Undecidedf(rule, "barrierMap", fn.Decl.Pos(), "barrierMap is not a map[string]string literal with distinct constant entries")
		return
	}
	names := []string{"barrierStatusNo", "barrierStatusAdd", "barrierStatusHoldStart", "barrierStatusHolding", "barrierStatusHoldEnd"}
	st := map[string]string{}
	for _, n := range names {
		k := pkgConst(c, n)
		if k == nil || k.Val().Kind() != constant.String {
			c.Undecidedf(rule, "states", fn.Decl.Pos(), "state constant %s not found", n)
			return
		}
		st[n] = constant.StringVal(k.Val())
	}
	yes, no := pkgConst(c, "flushStatusYes"), pkgConst(c, "flushStatusNo")
	if yes == nil || no == nil {
		c.Undecidedf(rule, "states", fn.Decl.Pos(), "flush constants not found")
		return
	}
	name := func(v string) string {
		for _, n := range names {
			if st[n] == v {
				return strings.TrimPrefix(n, "barrierStatus")
			}
		}
		return fmt.Sprintf("%q", v)
	}
	No, Add, HS, Hg, HE := st[names[0]], st[names[1]], st[names[2]], st[names[3]], st[names[4]]
	cmds := []string{"select", "multi", "exec"}
	for k := range m {
		if k != "select" && k != "multi" && k != "exec" {
			cmds = append(cmds, k)
		}
	}
	sort.Strings(cmds[3:])
	cmds = append(cmds, "\x00other")
	globals := map[types.Object]ival{bm: {m: m}}
	type cell struct {
		next  string
		flush bool
		panic bool
	}
	run := func(state, cmd string) (cell, error) {
		res, pan, err := evalTable(c, fn, []constant.Value{constant.MakeString(cmd), constant.MakeString(state)}, globals)
		if err != nil {
			return cell{}, err
		}
		if pan {
			return cell{panic: true}, nil
		}
		if len(res) != 2 || res[0].Kind() != constant.String {
			return cell{}, fmt.Errorf("unexpected result arity")
		}
		f := constant.Compare(res[1], token.EQL, yes.Val())
		if !f && !constant.Compare(res[1], token.EQL, no.Val()) {
			return cell{}, fmt.Errorf("flush result is neither flushStatusYes nor flushStatusNo")
		}
		return cell{next: constant.StringVal(res[0]), flush: f}, nil
	}
	// a dry run loads the other package-level tables barrierStatus consults; their keys are command classes too
	for _, sn := range names {
		for _, cmd := range cmds {
			run(st[sn], cmd)
		}
	}
	extra := map[string]bool{}
	for _, g := range globals {
		for k := range g.m {
			extra[k] = true
		}
		for k := range g.mm {
			extra[k] = true
		}
	}
	for _, k := range cmds {
		delete(extra, k)
	}
	if len(extra) > 0 {
		cmds = cmds[:len(cmds)-1]
		var more []string
		for k := range extra {
			more = append(more, k)
		}
		sort.Strings(more)
		cmds = append(append(cmds, more...), "\x00other")
	}
	dropped := func(next string) bool { return next == HS || next == HE }
	for _, sn := range names {
		state := st[sn]
		hold := state == HS || state == Hg
		for _, cmd := range cmds {
			label := cmd
			if cmd == "\x00other" {
				label = "other"
			}
			key := strings.TrimPrefix(sn, "barrierStatus") + "/" + label
			got, err := run(state, cmd)
			if err != nil {
				c.Undecidedf(rule, key, fn.Decl.Pos(), "barrierStatus is outside the evaluable subset: %v", err)
				continue
			}
			var ref cell
			switch {
			case hold && cmd == "exec":
				ref = cell{next: HE, flush: true}
			case hold:
				ref = cell{next: Hg}
			case cmd == "select":
				ref = cell{next: Add, flush: true}
			case cmd == "multi":
				ref = cell{next: HS, flush: true}
			case cmd == "exec":
				ref = cell{next: HE, flush: true}
			default:
				ref = cell{next: No}
			}
			show := func(x cell) string {
				if x.panic {
					return "panic"
				}
				return fmt.Sprintf("(%s, flush=%v)", name(x.next), x.flush)
			}
			if got == ref {
				c.Okf(rule, key, fn.Decl.Pos(), "%s -> %s", key, show(got))
				continue
			}
			pos := fn.Decl.Pos()
			if lit != nil {
				pos = lit.Pos()
			}
			marker := cmd == "multi" && !hold || cmd == "exec"
			switch {
			case got.panic && !(cmd == "exec" && !hold):
				c.Failf(rule, key, pos, "state %s, command %s: barrierStatus panics on a stream every master can emit (reference %s)", name(state), label, show(ref))
			case marker && !got.panic && !dropped(got.next):
				// an EXEC outside a hold does reach this tool: the idle ticker may flush (and
				// checkpoint) in the middle of a source transaction, so a resumed stream can
				// start after the MULTI; the marker must still be swallowed
				c.Failf(rule, key, pos, "state %s, command %s: next state %s is not a marker state, so the sender caches the source's %s and forwards it to the target (reference %s)", name(state), label, name(got.next), strings.ToUpper(label), show(ref))
			case !marker && !got.panic && dropped(got.next):
				c.Failf(rule, key, pos, "state %s, command %s: next state %s makes the sender discard the command although it is not a MULTI/EXEC marker (reference %s)", name(state), label, name(got.next), show(ref))
			case strict && !hold && cmd == "select" && !got.panic && !got.flush:
				c.Failf(rule, key, pos, "state %s, command select: no flush is requested, so one batch (and its single checkpoint) spans two databases (reference %s)", name(state), show(ref))
			default:
				c.Undecidedf(rule, key, pos, "state %s, command %s: got %s, reference %s; the difference concerns batching or a stream no master emits and is not judged here", name(state), label, show(got), show(ref))
			}
		}
	}
	// illegal state
	got, err := run("\x00illegal", "\x00other")
	switch {
	case err != nil:
		c.Undecidedf(rule, "illegal-state", fn.Decl.Pos(), "barrierStatus is outside the evaluable subset: %v", err)
	case got.panic:
		c.Okf(rule, "illegal-state", fn.Decl.Pos(), "an unknown state panics")
	default:
		c.Undecidedf(rule, "illegal-state", fn.Decl.Pos(), "an unknown state is accepted silently (reference: panic)")
	}
	// the table is keyed by lower-case names: ParseArgs must lower-case the command
	pa := c.Func("pkg/redis", "", "ParseArgs")
	if pa == nil {
		return
	}
	pinfo := pa.Pkg.TypesInfo
	var res0 *ast.Ident
	if r := pa.Decl.Type.Results; r != nil && len(r.List) > 0 && len(r.List[0].Names) > 0 {
		res0 = r.List[0].Names[0]
	}
	if res0 == nil {
		c.Undecidedf(rule, "lower-case/ParseArgs", pa.Decl.Pos(), "ParseArgs has no named command result")
		return
	}
	g := cfgq.Of(c.Program, pa)
	isLower := func(n ast.Node) bool {
		b := pat.Binds{"_cmd": res0}
		return pat.Stmt("_cmd = strings.ToLower(_x)").Match(pinfo, n, b) != nil || pat.Stmt("_cmd = string(bytes.ToLower(_x))").Match(pinfo, n, b) != nil
	}
	anyLower := false
	core.InspectAll(pa.Decl.Body, func(n ast.Node) bool {
		if call, ok := n.(*ast.CallExpr); ok {
			if f := core.CalleeFunc(pinfo, call); f != nil && f.Pkg() != nil && (f.Name() == "ToLower" || f.Name() == "ToUpper" || f.Name() == "ToLowerSpecial" || f.Name() == "Map" ||
				strings.HasPrefix(f.Pkg().Path(), core.Module) && strings.Contains(strings.ToLower(f.Name()), "lower")) {
				anyLower = true
			}
		}
		return true
	})
	if len(g.Points(isLower)) == 0 && anyLower {
		c.Undecidedf(rule, "lower-case/ParseArgs", pa.Decl.Pos(), "ParseArgs normalises the command name in a way the rule does not know")
		return
	}
	w := g.Path(cfgq.Query{From: g.Entry(), Avoid: isLower, TargetExit: func(b *cfg.Block, k cfgq.ExitKind) bool {
		if k != cfgq.ExitRet {
			return k == cfgq.ExitFall
		}
		ret := b.Nodes[len(b.Nodes)-1].(*ast.ReturnStmt)
		if len(ret.Results) == 0 {
			return true
		}
		return core.IsNil(pinfo, ret.Results[len(ret.Results)-1]) && pat.Same(pinfo, ret.Results[0], res0)
	}})
	c.Check(rule, "lower-case/ParseArgs", pa.Decl.Pos(), w == nil,
		"ParseArgs must lower-case the command name on every successful return: the master emits SELECT/MULTI/EXEC in upper case and barrierMap/the parser match lower-case names, so otherwise MULTI/EXEC are forwarded and SELECT is not tracked", w...)
}
