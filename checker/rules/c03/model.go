package c03

// Structural models of the parser (parseSourceCommand) and the sender
// (sendTargetCommand + its sendFunc closure). Every construct is found through
// types and shapes; what cannot be found is recorded as UNDECIDED under rule
// "model" and the dependent rules are skipped.

import (
	"bytes"
	"go/ast"
	"go/printer"
	"go/token"
	"go/types"
	"strconv"
	"strings"

	"golang.org/x/tools/go/cfg"

	"rscheck/cfgq"
	"rscheck/core"
	"rscheck/pat"
)

// Package paths and type names of the anchors.
const (
	DbSync  = "redis-shake/dbSync"
	Common  = "redis-shake/common"
	Syncer  = "DbSyncer"
	CmdType = "cmdDetail"
)

// IsSendBuf: e selects DbSyncer.sendBuf.
func IsSendBuf(info *types.Info, e ast.Expr) bool {
	if core.IsFieldNamed(info, e, Syncer, "sendBuf") {
		return true
	}
	// a local that is only ever the queue: `out := ds.sendBuf`
	id, ok := ast.Unparen(e).(*ast.Ident)
	if !ok {
		return false
	}
	v, ok := core.ObjOf(info, id).(*types.Var)
	if !ok || v.IsField() {
		return false
	}
	if _, isChan := v.Type().Underlying().(*types.Chan); !isChan {
		return false
	}
	fd := enclosingDecl(v.Pkg(), v.Pos())
	if fd == nil {
		return false
	}
	o, ok := SoleOrigin(info, fd, id)
	return ok && o.Expr != nil && o.Op == 0 && !o.Range && o.Res <= 0 && core.IsFieldNamed(info, o.Expr, Syncer, "sendBuf")
}

// Enq is one enqueue of the parser: a `ds.sendBuf <- cmdDetail{...}` statement
// in parseSourceCommand itself, or a call of a helper of the package (function
// or closure bound to a local) whose body is that one statement. Field holds
// the literal's values in the vocabulary of parseSourceCommand (helper
// parameters replaced by the call's arguments, one-line helpers inlined).
type Enq struct {
	Stmt   *ast.SendStmt
	Call   *ast.CallExpr // the helper call in the parser (nil for a direct send)
	Pt     cfgq.Point
	Field  map[string]ast.Expr // Cmd, Args, Offset, Db
	InLoop bool
	Name   string // stable name: "start-db", "select", "command"
}

// Pos is the position of the enqueue in parseSourceCommand.
func (e *Enq) Pos() token.Pos {
	if e.Call != nil {
		return e.Call.Pos()
	}
	return e.Stmt.Pos()
}

// FieldIs is core.IsFieldNamed that also accepts selector nodes synthesised by
// flow.Resolve (no Selections entry): the field is then found through the
// type of the base expression.
func FieldIs(info *types.Info, e ast.Expr, typ, field string) bool {
	x, ok := ast.Unparen(e).(*ast.SelectorExpr)
	if !ok || x.Sel.Name != field {
		return false
	}
	if _, ok := info.Selections[x]; ok {
		return core.IsFieldNamed(info, e, typ, field)
	}
	t := info.TypeOf(x.X)
	if t == nil {
		return false
	}
	if core.NamedTypeName(t) != typ {
		return false
	}
	if p, ok := t.(*types.Pointer); ok {
		t = p.Elem()
	}
	st, ok := t.Underlying().(*types.Struct)
	if !ok {
		return false
	}
	for i := 0; i < st.NumFields(); i++ {
		if st.Field(i).Name() == field {
			return true
		}
	}
	return false
}

// Project replaces `CompositeLit{f: v, ...}.f` by v (after flow.Resolve turned
// a struct-valued local or parameter into its literal).
func Project(e ast.Expr) ast.Expr {
	sel, ok := ast.Unparen(e).(*ast.SelectorExpr)
	if !ok {
		return e
	}
	x := Project(sel.X)
	if u, ok := ast.Unparen(x).(*ast.UnaryExpr); ok && u.Op == token.AND {
		x = u.X
	}
	lit, ok := ast.Unparen(x).(*ast.CompositeLit)
	if !ok {
		return e
	}
	for _, el := range lit.Elts {
		if kv, ok := el.(*ast.KeyValueExpr); ok {
			if id, ok := kv.Key.(*ast.Ident); ok && id.Name == sel.Sel.Name {
				return kv.Value
			}
		}
	}
	// positional literal of a struct type written in place: `struct{a T; b U}{x, y}.b`
	if st, ok := lit.Type.(*ast.StructType); ok && len(lit.Elts) > 0 {
		if _, keyed := lit.Elts[0].(*ast.KeyValueExpr); !keyed {
			i := 0
			for _, f := range st.Fields.List {
				for _, nm := range f.Names {
					if nm.Name == sel.Sel.Name && i < len(lit.Elts) {
						return lit.Elts[i]
					}
					i++
				}
			}
		}
	}
	return e
}

// ProjectLocal replaces `v.f` by the value given to field f in the composite
// literal that is the only definition of the struct-valued local v (whose
// fields are never assigned individually).
func ProjectLocal(info *types.Info, scope ast.Node, e ast.Expr) ast.Expr {
	sel, ok := ast.Unparen(e).(*ast.SelectorExpr)
	if !ok || scope == nil {
		return e
	}
	id, ok := ast.Unparen(sel.X).(*ast.Ident)
	if !ok {
		return e
	}
	v, ok := core.ObjOf(info, id).(*types.Var)
	if !ok || v.IsField() {
		return e
	}
	o, ok := SoleOrigin(info, scope, id)
	if !ok || o.Expr == nil || o.Op != 0 || o.Range || o.Res > 0 {
		return e
	}
	written := false
	ast.Inspect(scope, func(n ast.Node) bool {
		switch x := n.(type) {
		case *ast.AssignStmt:
			for _, l := range x.Lhs {
				if ls, ok := ast.Unparen(l).(*ast.SelectorExpr); ok && IsObj(info, v)(ls.X) {
					written = true
				}
			}
		case *ast.UnaryExpr:
			if x.Op == token.AND && IsObj(info, v)(x.X) {
				written = true
			}
		}
		return true
	})
	if written {
		return e
	}
	def := o.Expr
	if curProg != nil && v.Pkg() != nil {
		// a constructor helper whose body is one `return T{...}`
		def = InlineOneLiners(curProg, info, scope, def, v.Pkg().Path(), 0)
	}
	probe := &ast.SelectorExpr{X: def, Sel: sel.Sel}
	if r := Project(probe); r != ast.Expr(probe) {
		return r
	}
	// positional literal of a named struct type: the field order comes from the type
	if lit, ok := ast.Unparen(def).(*ast.CompositeLit); ok && len(lit.Elts) > 0 {
		if _, keyed := lit.Elts[0].(*ast.KeyValueExpr); !keyed {
			if st, ok := v.Type().Underlying().(*types.Struct); ok && st.NumFields() == len(lit.Elts) {
				for i := 0; i < st.NumFields(); i++ {
					if st.Field(i).Name() == sel.Sel.Name {
						return lit.Elts[i]
					}
				}
			}
		}
	}
	return e
}

// LocalClosure returns the function literal that the identifier fun denotes
// when fun is a local variable with exactly one definition, a literal.
func LocalClosure(info *types.Info, scope ast.Node, fun ast.Expr) *ast.FuncLit {
	id, ok := ast.Unparen(fun).(*ast.Ident)
	if !ok {
		return nil
	}
	v, ok := core.ObjOf(info, id).(*types.Var)
	if !ok || v.IsField() {
		return nil
	}
	o, ok := SoleOrigin(info, scope, id)
	if !ok || o.Expr == nil || o.Op != 0 || o.Range || o.Res > 0 {
		return nil
	}
	fl, _ := ast.Unparen(o.Expr).(*ast.FuncLit)
	return fl
}

// Binding maps the parameters (and the receiver) of a helper to the argument
// expressions of one call, in the caller's vocabulary.
type Binding map[types.Object]ast.Expr

// BindCall builds the binding of a call of a function with the given
// signature syntax (cinfo is the type info of the callee's package).
func BindCall(call *ast.CallExpr, ft *ast.FuncType, recv *ast.FieldList, cinfo *types.Info) Binding {
	bind := Binding{}
	i := 0
	for _, fl := range ft.Params.List {
		if len(fl.Names) == 0 {
			i++
			continue
		}
		for _, nm := range fl.Names {
			if o := cinfo.Defs[nm]; o != nil {
				if _, variadic := fl.Type.(*ast.Ellipsis); variadic {
					if call.Ellipsis.IsValid() && i == len(call.Args)-1 {
						bind[o] = call.Args[i]
					}
				} else if i < len(call.Args) {
					bind[o] = call.Args[i]
				}
			}
			i++
		}
	}
	if recv != nil && len(recv.List) == 1 && len(recv.List[0].Names) == 1 {
		if sel, ok := ast.Unparen(call.Fun).(*ast.SelectorExpr); ok {
			if o := cinfo.Defs[recv.List[0].Names[0]]; o != nil {
				bind[o] = sel.X
			}
		}
	}
	return bind
}

// Subst rewrites e (an expression of a helper body, scope) into the caller's
// vocabulary: bound parameters become the call's arguments, single-definition
// locals of the helper become their definition. Sub-trees without such
// identifiers are kept as they are (with their type information).
func Subst(info *types.Info, scope ast.Node, e ast.Expr, bind Binding) ast.Expr {
	return subst(info, scope, e, bind, 0)
}

func subst(info *types.Info, scope ast.Node, e ast.Expr, bind Binding, depth int) ast.Expr {
	if e == nil || depth > 12 {
		return e
	}
	r := func(x ast.Expr) ast.Expr { return subst(info, scope, x, bind, depth+1) }
	switch v := e.(type) {
	case *ast.ParenExpr:
		return r(v.X)
	case *ast.Ident:
		obj := core.ObjOf(info, v)
		if a, ok := bind[obj]; ok {
			return a
		}
		if lv, ok := obj.(*types.Var); ok && !lv.IsField() && scope != nil && scope.Pos() <= lv.Pos() && lv.Pos() < scope.End() {
			if o, ok := SoleOrigin(info, scope, v); ok && o.Expr != nil && o.Op == 0 && !o.Range && o.Res <= 0 && !o.Param && ast.Unparen(o.Expr) != ast.Expr(v) {
				if _, isCall := ast.Unparen(o.Expr).(*ast.CallExpr); !isCall || o.Res < 0 {
					return r(o.Expr)
				}
			}
		}
		return v
	case *ast.SelectorExpr:
		if id, ok := ast.Unparen(v.X).(*ast.Ident); ok {
			if _, isPkg := core.ObjOf(info, id).(*types.PkgName); isPkg {
				return v
			}
		}
		if nx := r(v.X); nx != v.X {
			return Project(&ast.SelectorExpr{X: nx, Sel: v.Sel})
		}
		return v
	case *ast.BinaryExpr:
		if a, b := r(v.X), r(v.Y); a != v.X || b != v.Y {
			return &ast.BinaryExpr{X: a, Op: v.Op, OpPos: v.OpPos, Y: b}
		}
	case *ast.UnaryExpr:
		if a := r(v.X); a != v.X {
			return &ast.UnaryExpr{Op: v.Op, OpPos: v.OpPos, X: a}
		}
	case *ast.StarExpr:
		if a := r(v.X); a != v.X {
			return &ast.StarExpr{Star: v.Star, X: a}
		}
	case *ast.IndexExpr:
		if a, b := r(v.X), r(v.Index); a != v.X || b != v.Index {
			return &ast.IndexExpr{X: a, Lbrack: v.Lbrack, Index: b, Rbrack: v.Rbrack}
		}
	case *ast.SliceExpr:
		a, l, h, m := r(v.X), r(v.Low), r(v.High), r(v.Max)
		if a != v.X || l != v.Low || h != v.High || m != v.Max {
			return &ast.SliceExpr{X: a, Lbrack: v.Lbrack, Low: l, High: h, Max: m, Slice3: v.Slice3, Rbrack: v.Rbrack}
		}
	case *ast.TypeAssertExpr:
		if a := r(v.X); a != v.X {
			return &ast.TypeAssertExpr{X: a, Type: v.Type}
		}
	case *ast.CallExpr:
		fun := v.Fun
		if sel, ok := ast.Unparen(v.Fun).(*ast.SelectorExpr); ok {
			if nf := r(sel); nf != ast.Expr(sel) {
				fun = nf
			}
		}
		changed := fun != v.Fun
		args := make([]ast.Expr, len(v.Args))
		for i, a := range v.Args {
			args[i] = r(a)
			changed = changed || args[i] != a
		}
		if changed {
			return &ast.CallExpr{Fun: fun, Lparen: v.Lparen, Args: args, Ellipsis: v.Ellipsis, Rparen: v.Rparen}
		}
	case *ast.CompositeLit:
		changed := false
		elts := make([]ast.Expr, len(v.Elts))
		for i, el := range v.Elts {
			if kv, ok := el.(*ast.KeyValueExpr); ok {
				if nv := r(kv.Value); nv != kv.Value {
					elts[i], changed = &ast.KeyValueExpr{Key: kv.Key, Colon: kv.Colon, Value: nv}, true
				} else {
					elts[i] = el
				}
				continue
			}
			elts[i] = r(el)
			changed = changed || elts[i] != el
		}
		if changed {
			return &ast.CompositeLit{Type: v.Type, Lbrace: v.Lbrace, Elts: elts, Rbrace: v.Rbrace}
		}
	}
	return e
}

// ChaseCopy follows single-definition copies (`t := u`, `t := x.f`) of the local e stands for.
func ChaseCopy(info *types.Info, scope ast.Node, e ast.Expr) ast.Expr {
	for step := 0; step < 8; step++ {
		id, ok := ast.Unparen(e).(*ast.Ident)
		if !ok || scope == nil {
			return e
		}
		if v, ok := core.ObjOf(info, id).(*types.Var); !ok || v.IsField() {
			return e
		}
		var def *Origin
		n := 0
		for _, o := range Origins1(info, scope, id) {
			if o.Zero {
				continue
			}
			n++
			oc := o
			def = &oc
		}
		if n != 1 || def.Expr == nil || def.Op != 0 || def.Range || def.Res >= 0 || def.Param {
			return e
		}
		switch ast.Unparen(def.Expr).(type) {
		case *ast.Ident, *ast.SelectorExpr:
			e = def.Expr
		default:
			return e
		}
	}
	return e
}

// Origins1 lists the direct definitions of the local x (one step, no chasing through copies).
func Origins1(info *types.Info, scope ast.Node, x *ast.Ident) []Origin {
	obj := core.ObjOf(info, x)
	var out []Origin
	ast.Inspect(scope, func(n ast.Node) bool {
		switch s := n.(type) {
		case *ast.AssignStmt:
			for i, l := range s.Lhs {
				lid, ok := ast.Unparen(l).(*ast.Ident)
				if !ok || core.ObjOf(info, lid) != obj {
					continue
				}
				switch {
				case s.Tok != token.ASSIGN && s.Tok != token.DEFINE:
					out = append(out, Origin{Expr: s.Rhs[0], Res: -1, Op: s.Tok, Stmt: s})
				case len(s.Lhs) == len(s.Rhs):
					out = append(out, Origin{Expr: s.Rhs[i], Res: -1, Stmt: s})
				default:
					out = append(out, Origin{Expr: s.Rhs[0], Res: i, Stmt: s})
				}
			}
		case *ast.IncDecStmt:
			if lid, ok := ast.Unparen(s.X).(*ast.Ident); ok && core.ObjOf(info, lid) == obj {
				out = append(out, Origin{Res: -1, Op: s.Tok, Stmt: s})
			}
		case *ast.RangeStmt:
			for i, l := range []ast.Expr{s.Key, s.Value} {
				if lid, ok := l.(*ast.Ident); ok && core.ObjOf(info, lid) == obj {
					out = append(out, Origin{Expr: s.X, Res: i, Range: true, Stmt: s})
				}
			}
		case *ast.ValueSpec:
			for i, nm := range s.Names {
				if info.Defs[nm] != obj {
					continue
				}
				switch {
				case len(s.Values) == 0:
					out = append(out, Origin{Res: -1, Zero: true, Stmt: s})
				case len(s.Values) == len(s.Names):
					out = append(out, Origin{Expr: s.Values[i], Res: -1, Stmt: s})
				default:
					out = append(out, Origin{Expr: s.Values[0], Res: i, Stmt: s})
				}
			}
		case *ast.UnaryExpr:
			if lid, ok := ast.Unparen(s.X).(*ast.Ident); ok && s.Op == token.AND && core.ObjOf(info, lid) == obj {
				out = append(out, Origin{Expr: s, Res: 0, Stmt: s})
			}
		}
		return true
	})
	if len(out) == 0 {
		out = append(out, Origin{Expr: x, Res: -1, Param: true})
	}
	return out
}

// unconditionalAfterDecl: the only assignment of v executes whenever its `var v T`
// declaration did (nothing but blocks, labels and run-once loops in between).
func unconditionalAfterDecl(info *types.Info, scope ast.Node, v *types.Var, assign ast.Node) bool {
	path := core.PathTo(scope, assign)
	// the innermost block that contains the declaration
	start := -1
	for i, n := range path {
		if n.Pos() <= v.Pos() && v.Pos() < n.End() {
			if _, ok := n.(*ast.BlockStmt); ok {
				start = i
			}
		}
	}
	if start < 0 {
		return false
	}
	for i := start + 1; i < len(path)-1; i++ {
		switch path[i].(type) {
		case *ast.BlockStmt, *ast.LabeledStmt:
		case *ast.ForStmt:
			if !RunsOnce(path, i) {
				return false
			}
		default:
			return false
		}
	}
	// no early leave of the run-once blocks before the assignment
	early := false
	for i := start; i < len(path)-1; i++ {
		blk, ok := path[i].(*ast.BlockStmt)
		if !ok {
			continue
		}
		for _, st := range blk.List {
			if st.End() > assign.Pos() {
				break
			}
			ast.Inspect(st, func(m ast.Node) bool {
				if b, ok := m.(*ast.BranchStmt); ok && b.Tok == token.BREAK && b.Label != nil {
					early = true
				}
				if _, ok := m.(*ast.ReturnStmt); ok {
					early = true
				}
				return true
			})
		}
	}
	return !early
}

// writtenBetween: variable w is assigned at a position in (from, to).
func writtenBetween(info *types.Info, scope ast.Node, w *types.Var, from, to token.Pos) bool {
	hit := false
	ast.Inspect(scope, func(n ast.Node) bool {
		if n == nil || hit {
			return false
		}
		if n.End() < from || n.Pos() > to {
			return true
		}
		switch x := n.(type) {
		case *ast.AssignStmt:
			if x.Pos() > from && x.Pos() < to {
				for _, l := range x.Lhs {
					if IsObj(info, w)(l) {
						hit = true
					}
				}
			}
		case *ast.IncDecStmt:
			if x.Pos() > from && x.Pos() < to && IsObj(info, w)(x.X) {
				hit = true
			}
		case *ast.UnaryExpr:
			if x.Op == token.AND && IsObj(info, w)(x.X) {
				hit = true
			}
		}
		return true
	})
	return hit
}

// Helper describes a callee whose body can be looked into: a function declared
// in the package pkgPath of the module, or a closure bound to a local of scope.
type Helper struct {
	Body *ast.BlockStmt
	Type *ast.FuncType
	Recv *ast.FieldList
	Info *types.Info
	Fn   *core.Fn     // declared function (nil for a closure)
	Lit  *ast.FuncLit // closure (nil for a declared function)
}

// Graph returns the control-flow graph of the helper.
func (h *Helper) Graph(p *core.Program) *cfgq.Graph {
	if h.Lit != nil {
		return cfgq.OfLit(p, h.Info, h.Lit)
	}
	return cfgq.Of(p, h.Fn)
}

// HelperOf resolves the callee of call to a helper that may be followed.
func HelperOf(p *core.Program, info *types.Info, scope ast.Node, call *ast.CallExpr, pkgPath string) *Helper {
	if fl, ok := ast.Unparen(call.Fun).(*ast.FuncLit); ok {
		// a literal called in place: `func() {...}()`
		return &Helper{Body: fl.Body, Type: fl.Type, Info: info, Lit: fl}
	}
	if scope != nil {
		if fl := LocalClosure(info, scope, call.Fun); fl != nil {
			return &Helper{Body: fl.Body, Type: fl.Type, Info: info, Lit: fl}
		}
	}
	f := core.CalleeFunc(info, call)
	if f == nil || f.Pkg() == nil || f.Pkg().Path() != pkgPath {
		return nil
	}
	hf := p.FnOf(f)
	if hf == nil || hf.Decl.Body == nil {
		return nil
	}
	return &Helper{Body: hf.Decl.Body, Type: hf.Decl.Type, Recv: hf.Decl.Recv, Info: hf.Pkg.TypesInfo, Fn: hf}
}

// InlineOneLiners replaces, inside e, calls of helpers whose body is a single
// `return <expr>` by that expression in the caller's vocabulary.
func InlineOneLiners(p *core.Program, info *types.Info, scope ast.Node, e ast.Expr, pkgPath string, depth int) ast.Expr {
	if e == nil || depth > 3 {
		return e
	}
	switch x := ast.Unparen(e).(type) {
	case *ast.CallExpr:
		if h := HelperOf(p, info, scope, x, pkgPath); h != nil && len(h.Body.List) == 1 && !x.Ellipsis.IsValid() {
			if ret, ok := h.Body.List[0].(*ast.ReturnStmt); ok && len(ret.Results) == 1 {
				args := make([]ast.Expr, len(x.Args))
				for i, a := range x.Args {
					args[i] = InlineOneLiners(p, info, scope, a, pkgPath, depth+1)
				}
				call := &ast.CallExpr{Fun: x.Fun, Args: args, Lparen: x.Lparen, Rparen: x.Rparen}
				r := Subst(h.Info, h.Body, ret.Results[0], BindCall(call, h.Type, h.Recv, h.Info))
				return InlineOneLiners(p, info, scope, r, pkgPath, depth+1)
			}
		}
	case *ast.BinaryExpr:
		a, b := InlineOneLiners(p, info, scope, x.X, pkgPath, depth), InlineOneLiners(p, info, scope, x.Y, pkgPath, depth)
		if a != x.X || b != x.Y {
			return &ast.BinaryExpr{X: a, Op: x.Op, OpPos: x.OpPos, Y: b}
		}
	case *ast.UnaryExpr:
		if x.Op == token.NOT {
			if a := InlineOneLiners(p, info, scope, x.X, pkgPath, depth); a != x.X {
				return &ast.UnaryExpr{Op: x.Op, OpPos: x.OpPos, X: a}
			}
		}
	case *ast.Ident:
		// a local that merely stands for another expression: a copy of a variable
		// (`t := v`, unchanged in between) or a hoisted bool condition
		v, ok := core.ObjOf(info, x).(*types.Var)
		if !ok || v.IsField() || scope == nil || depth > 6 {
			return e
		}
		var def *Origin
		n, zero := 0, false
		for _, o := range Origins1(info, scope, x) {
			if o.Zero {
				zero = true
				continue
			}
			n++
			oc := o
			def = &oc
		}
		if n != 1 || def.Expr == nil || def.Op != 0 || def.Range || def.Res >= 0 || def.Param || def.Stmt == nil {
			return e
		}
		if zero && !unconditionalAfterDecl(info, scope, v, def.Stmt) {
			return e
		}
		if tv, isConst := info.Types[def.Expr]; isConst && tv.Value != nil {
			return e
		}
		switch d := ast.Unparen(def.Expr).(type) {
		case *ast.Ident:
			w, ok := core.ObjOf(info, d).(*types.Var)
			if !ok || w.IsField() || writtenBetween(info, scope, w, def.Stmt.End(), x.Pos()) {
				return e
			}
			return InlineOneLiners(p, info, scope, d, pkgPath, depth+1)
		case *ast.SelectorExpr:
			// a copy of a struct field that is not assigned in the function (`id := ds.startDbId`)
			if f := core.FieldOf(info, d); f != nil {
				written := false
				ast.Inspect(scope, func(m ast.Node) bool {
					switch w := m.(type) {
					case *ast.AssignStmt:
						for _, l := range w.Lhs {
							if core.FieldOf(info, l) == f {
								written = true
							}
						}
					case *ast.IncDecStmt:
						if core.FieldOf(info, w.X) == f {
							written = true
						}
					}
					return true
				})
				if !written {
					return d
				}
			}
		case *ast.BinaryExpr, *ast.UnaryExpr:
			if types.Identical(v.Type().Underlying(), types.Typ[types.Bool]) {
				return InlineOneLiners(p, info, scope, def.Expr, pkgPath, depth+1)
			}
		}
	}
	return e
}

// Parser is the model of parseSourceCommand.
type Parser struct {
	Fn       *core.Fn
	Info     *types.Info
	G        *cfgq.Graph
	Fl       *Flow
	Loop     *ast.ForStmt
	Decode   *ast.AssignStmt // resp, inc := redis.MustDecodeOpt(decoder)
	DecodePt cfgq.Point
	Resp     types.Object
	Inc      types.Object
	Sends    []*Enq
	c        *core.Ctx
}

// IsDecode: node is the decode statement (start of the next iteration).
func (p *Parser) IsDecode(n ast.Node) bool { return n == ast.Node(p.Decode) }

// IsSend: node is a send on sendBuf, or calls a module helper that contains one.
func (p *Parser) IsSend(n ast.Node) bool {
	if s, ok := n.(*ast.SendStmt); ok {
		return IsSendBuf(p.Info, s.Chan)
	}
	if p.c == nil {
		return false
	}
	for _, call := range cfgq.ExecCalls(n) {
		if CalleeHas(p.c, p.Info, call, 3, func(info *types.Info, m ast.Node) bool {
			s, ok := m.(*ast.SendStmt)
			return ok && IsSendBuf(info, s.Chan)
		}) {
			return true
		}
	}
	return false
}

// AnalyseParser builds the parser model (nil when the shape is not recognised).
func AnalyseParser(c *core.Ctx) *Parser {
	fn := c.Func(DbSync, Syncer, "parseSourceCommand")
	if fn == nil {
		return nil
	}
	curProg = c.Program
	p := &Parser{Fn: fn, Info: fn.Pkg.TypesInfo, G: cfgq.Of(c.Program, fn), c: c}
	p.Fl = NewFlow(p.G).Inlining(c.Program, p.Info, fn.Decl, fn.Pkg.PkgPath)
	body := fn.Decl.Body
	// the decode statement: a tuple assignment from pkg/redis.MustDecodeOpt
	var decodes []*ast.AssignStmt
	core.Inspect(body, func(n ast.Node) bool {
		if as, ok := n.(*ast.AssignStmt); ok && len(as.Rhs) == 1 {
			if call, ok := ast.Unparen(as.Rhs[0]).(*ast.CallExpr); ok && core.IsFunc(core.CalleeFunc(p.Info, call), "pkg/redis", "", "MustDecodeOpt") {
				decodes = append(decodes, as)
			}
		}
		return true
	})
	if len(decodes) != 1 || len(decodes[0].Lhs) != 2 {
		c.Undecidedf("model", "parser/decode", fn.Decl.Pos(), "expected exactly one `resp, n := redis.MustDecodeOpt(decoder)` in parseSourceCommand, found %d", len(decodes))
		return nil
	}
	p.Decode = decodes[0]
	p.Resp = core.ObjOf(p.Info, p.Decode.Lhs[0])
	p.Inc = core.ObjOf(p.Info, p.Decode.Lhs[1])
	for _, n := range core.PathTo(body, p.Decode) {
		if fs, ok := n.(*ast.ForStmt); ok && fs.Cond == nil && fs.Init == nil && fs.Post == nil && p.Loop == nil {
			p.Loop = fs
		}
	}
	pt, ok := p.G.Find(p.Decode)
	if p.Loop == nil || !ok || pt.Node() != ast.Node(p.Decode) {
		c.Undecidedf("model", "parser/loop", p.Decode.Pos(), "the decode statement is not a statement of an unconditional for loop")
		return nil
	}
	p.DecodePt = pt
	nsel := 0
	bad := false
	pkgPath := fn.Pkg.PkgPath
	addEnq := func(e *Enq, at ast.Node, lit *ast.CompositeLit, resolve func(ast.Expr) ast.Expr) {
		var ok bool
		e.Pt, ok = p.G.Find(at)
		if lit != nil && p.Info.TypeOf(lit) == nil && lit.Type != nil && core.NamedTypeName(p.Info.TypeOf(lit.Type)) == CmdType {
			// a literal rebuilt by Subst: typed by its type expression
		} else if !ok || lit == nil || core.NamedTypeName(p.Info.TypeOf(lit)) != CmdType {
			c.Undecidedf("model", "parser/enqueue-shape", at.Pos(), "enqueued value is not a cmdDetail{...} literal: %s", c.Src(at))
			bad = true
			return
		}
		for _, el := range lit.Elts {
			kv, ok := el.(*ast.KeyValueExpr)
			if !ok {
				c.Undecidedf("model", "parser/enqueue-shape", at.Pos(), "cmdDetail literal without field names")
				bad = true
				return
			}
			e.Field[kv.Key.(*ast.Ident).Name] = InlineOneLiners(c.Program, p.Info, fn.Decl, resolve(kv.Value), pkgPath, 0)
		}
		e.InLoop = p.Loop.Pos() <= at.Pos() && at.End() <= p.Loop.End()
		isSel := false
		if v, ok := core.StringConst(p.Info, e.Field["Cmd"]); ok && strings.EqualFold(v, "select") {
			isSel = true
		}
		switch {
		case !e.InLoop:
			e.Name = "start-db"
		case isSel:
			nsel++
			e.Name = "select"
		default:
			e.Name = "command"
		}
		p.Sends = append(p.Sends, e)
	}
	isQueueSend := func(info *types.Info, m ast.Node) bool {
		s, ok := m.(*ast.SendStmt)
		return ok && IsSendBuf(info, s.Chan)
	}
	core.Inspect(body, func(n ast.Node) bool {
		switch x := n.(type) {
		case *ast.SendStmt:
			if !IsSendBuf(p.Info, x.Chan) {
				return true
			}
			lit, _ := ast.Unparen(x.Value).(*ast.CompositeLit)
			if lit == nil { // the value may be built in a local first
				if o, ok := SoleOrigin(p.Info, fn.Decl, x.Value); ok && o.Expr != nil && o.Op == 0 && !o.Range && o.Res < 0 {
					lit, _ = ast.Unparen(o.Expr).(*ast.CompositeLit)
				}
			}
			addEnq(&Enq{Stmt: x, Field: map[string]ast.Expr{}}, x, lit, func(v ast.Expr) ast.Expr { return v })
		case *ast.CallExpr:
			// a helper (declared in the package, or a closure bound to a local) whose body is one enqueue
			h := HelperOf(c.Program, p.Info, fn.Decl, x, pkgPath)
			if h == nil {
				return true
			}
			hbody, hinfo, hg := h.Body, h.Info, h.Graph(c.Program)
			var sends []*ast.SendStmt
			core.InspectAll(hbody, func(m ast.Node) bool {
				if isQueueSend(hinfo, m) {
					sends = append(sends, m.(*ast.SendStmt))
				}
				return true
			})
			if len(sends) == 0 {
				return true
			}
			_, ok := hg.Find(sends[0])
			once := len(sends) == 1 && ok && !InLoop(hbody, sends[0]) && !x.Ellipsis.IsValid()
			if once {
				isS := func(m ast.Node) bool { return m == ast.Node(sends[0]) }
				must, _ := hg.MustPassToExit(hg.Entry(), false, isS)
				once = must
			}
			if !once {
				c.Undecidedf("model", "parser/enqueue-shape", x.Pos(), "the helper called by `%s` does not enqueue exactly once on every path", c.Src(x))
				bad = true
				return true
			}
			bind := BindCall(x, h.Type, h.Recv, hinfo)
			val := Subst(hinfo, hbody, sends[0].Value, bind)
			lit, _ := ast.Unparen(val).(*ast.CompositeLit)
			addEnq(&Enq{Stmt: sends[0], Call: x, Field: map[string]ast.Expr{}}, x, lit, func(v ast.Expr) ast.Expr { return v })
		}
		return true
	})
	if bad {
		return nil
	}
	c.Okf("model", "parser", fn.Decl.Pos(), "decode loop and %d enqueue sites of the command parser recognised", len(p.Sends))
	return p
}

// ---------------------------------------------------------------------------

// Sender is the model of sendTargetCommand and its sendFunc closure.
type Sender struct {
	Fn   *core.Fn
	Info *types.Info
	G    *cfgq.Graph
	Fl   *Flow

	SendFunc types.Object // the local holding the closure
	// When the flush routine was expanded at its call sites (see flushCopies): the first statement of
	// every copy and the extent of every copy; Lit is then a synthetic literal around the first copy.
	FlushStarts map[ast.Node]bool
	FlushCopies [][2]token.Pos
	Lit         *ast.FuncLit
	LG          *cfgq.Graph
	LFl         *Flow
	Tunnel      types.Object // the []cmdDetail batch
	X           *XGraph      // the closure with the helpers of the package inlined
	RC          *XCtx        // the frame that holds the range over the batch (the closure itself, or a helper)
	RangeX      XPoint       // evaluation of the ranged expression
	RangeExpr   ast.Expr     // the ranged expression in the closure's vocabulary
	Loop        ast.Stmt     // the loop over the batch: Range, or an index loop
	LoopBody    *ast.BlockStmt
	kBody       cfg.BlockKind
	kHead       cfg.BlockKind
	kDone       cfg.BlockKind
	elem        func(ast.Expr) bool // element expression of an index loop (batch[i])
	Range       *ast.RangeStmt
	RangePt     cfgq.Point // RangeX when the range is in the closure itself
	ItemVar     types.Object
	Data        []*SendSite // Conn.Send calls (direct or through a forwarding wrapper) in the range body
	Conn        types.Object

	Select   *ast.SelectStmt
	RecvComm *ast.AssignStmt // item := <-ds.sendBuf
	Item     types.Object
	RecvBody *cfg.Block
	Tick     *ast.CommClause
	TickBody *cfg.Block
	TickChan ast.Expr

	Barrier *ast.AssignStmt // bs, fs = barrierStatus(item.Cmd, bs)  (the last statement of the chain when the results are carried in temporaries)
	// BarrierCall is the call itself, BarrierChain the statements that carry its results to Bs and Fs
	BarrierCall  *ast.CallExpr
	BarrierChain map[ast.Node]bool
	BarrierPt    cfgq.Point
	Bs, Fs       types.Object
	Appends      []*ast.AssignStmt // every `tunnel = append(tunnel, ...)` of the function
}

// ConnMethod: call is method `name` of the redigo Conn interface; returns the receiver expression.
func ConnMethod(info *types.Info, call *ast.CallExpr, name string) (ast.Expr, bool) {
	sel := MethodSel(info, call) // also through a method value bound once to a local (`send := c.Send`)
	if sel == nil || sel.Sel.Name != name {
		return nil, false
	}
	f := core.CalleeFunc(info, call)
	if f == nil {
		f, _ = info.Uses[sel.Sel].(*types.Func)
	}
	if f == nil {
		return nil, false
	}
	sig := f.Type().(*types.Signature)
	if sig.Recv() == nil || !strings.HasSuffix(core.NamedTypePath(sig.Recv().Type()), "redigo/redis.Conn") {
		return nil, false
	}
	return sel.X, true
}

// SendSite is a normalised conn.Send: a direct call of the redigo Conn.Send
// method, or a call of a module helper that is a pure forwarding wrapper
// `func (..) w(c redigo.Conn, cmd string, args ...interface{})` around exactly
// one c.Send(cmd, args...). Args has the layout of the direct call: the
// command name first, then its arguments.
type SendSite struct {
	Call     *ast.CallExpr // the call in the analysed body
	Conn     ast.Expr
	Args     []ast.Expr
	Ellipsis bool        // the last element of Args is spread (x...)
	Fatal    bool        // the wrapper itself ends the goroutine when Send fails (no error comes back)
	Lost     bool        // the wrapper swallows the error of Send (neither fatal nor returned)
	Wrapper  *types.Func // nil for a direct call
}

// Pos is the position of the call.
func (s *SendSite) Pos() token.Pos { return s.Call.Pos() }

// curProg gives the helpers below access to the declarations of module
// functions; it is set by AnalyseSender / AnalyseParser.
var curProg *core.Program

// SetProgram lets callers outside this package use SendOf / ConnCmd (wrapper
// recognition needs the declarations of module functions).
func SetProgram(p *core.Program) { curProg = p }

type wrapInfo struct {
	conn, cmd, args int      // parameter positions (conn is -1 when the connection is a captured variable)
	connExpr        ast.Expr // the captured connection (closures)
	fatal           bool
	lost            bool
}

var wrapMemo = map[interface{}]*wrapInfo{}

// enclosingDecl finds the function declaration around pos.
func enclosingDecl(pkg *types.Package, pos token.Pos) *ast.FuncDecl {
	if curProg == nil || pkg == nil {
		return nil
	}
	pk := curProg.All[pkg.Path()]
	if pk == nil {
		return nil
	}
	for _, f := range pk.Syntax {
		if !(f.Pos() <= pos && pos < f.End()) {
			continue
		}
		for _, d := range f.Decls {
			if fd, ok := d.(*ast.FuncDecl); ok && fd.Pos() <= pos && pos < fd.End() {
				return fd
			}
		}
	}
	return nil
}

// calleeHelper resolves the callee of call: a module function, or a closure
// bound once to a local of the enclosing function.
func calleeHelper(info *types.Info, call *ast.CallExpr) *Helper {
	if curProg == nil {
		return nil
	}
	if id, ok := ast.Unparen(call.Fun).(*ast.Ident); ok {
		if v, ok := core.ObjOf(info, id).(*types.Var); ok && !v.IsField() {
			if fd := enclosingDecl(v.Pkg(), v.Pos()); fd != nil {
				if fl := LocalClosure(info, fd, id); fl != nil {
					return &Helper{Body: fl.Body, Type: fl.Type, Info: info, Lit: fl}
				}
			}
			return nil
		}
	}
	f := core.CalleeFunc(info, call)
	if f == nil || f.Pkg() == nil || !strings.HasPrefix(f.Pkg().Path(), core.Module) {
		return nil
	}
	hf := curProg.FnOf(f)
	if hf == nil || hf.Decl.Body == nil {
		return nil
	}
	return &Helper{Body: hf.Decl.Body, Type: hf.Decl.Type, Recv: hf.Decl.Recv, Info: hf.Pkg.TypesInfo, Fn: hf}
}

// sendWrapper recognises a pure forwarding wrapper around Conn.Send: a
// function `w(c redigo.Conn, cmd string, args ...interface{})`, or a closure
// `func(cmd string, args ...interface{})` over a captured connection, whose
// only use of a connection is one c.Send(cmd, args...).
func sendWrapper(h *Helper) *wrapInfo {
	if h == nil {
		return nil
	}
	var key interface{} = h.Lit
	if h.Fn != nil {
		key = h.Fn.Obj
	}
	if w, ok := wrapMemo[key]; ok {
		return w
	}
	wrapMemo[key] = nil
	info := h.Info
	var params []types.Object
	variadic := false
	for _, fl := range h.Type.Params.List {
		_, variadic = fl.Type.(*ast.Ellipsis)
		for _, nm := range fl.Names {
			params = append(params, info.Defs[nm])
		}
		if len(fl.Names) == 0 {
			return nil
		}
	}
	if !variadic {
		return nil
	}
	idx := func(e ast.Expr) int {
		for i, p := range params {
			if IsObj(info, p)(e) {
				return i
			}
		}
		return -1
	}
	var send *ast.CallExpr
	n := 0
	core.InspectAll(h.Body, func(m ast.Node) bool {
		if call, ok := m.(*ast.CallExpr); ok {
			for _, name := range []string{"Send", "Do", "Flush", "Receive", "Close"} {
				if _, ok := ConnMethod(info, call, name); ok {
					n++
					if name == "Send" {
						send = call
					}
				}
			}
		}
		return true
	})
	if n != 1 || send == nil || len(send.Args) != 2 || !send.Ellipsis.IsValid() {
		return nil
	}
	recv, _ := ConnMethod(info, send, "Send")
	w := &wrapInfo{conn: idx(recv), cmd: idx(send.Args[0]), args: idx(send.Args[1])}
	if w.cmd < 0 || w.args != len(params)-1 {
		return nil
	}
	if w.conn < 0 {
		// a closure over the connection: the receiver is a variable declared outside the literal
		id, ok := ast.Unparen(recv).(*ast.Ident)
		v, _ := core.ObjOf(info, id).(*types.Var)
		if !ok || h.Lit == nil || v == nil || v.IsField() || h.Lit.Pos() <= v.Pos() && v.Pos() < h.Lit.End() {
			return nil
		}
		w.connExpr = recv
	}
	// the parameters are forwarded unchanged
	for _, i := range []int{w.conn, w.cmd, w.args} {
		if i < 0 {
			continue
		}
		written := false
		core.InspectAll(h.Body, func(m ast.Node) bool {
			switch x := m.(type) {
			case *ast.AssignStmt:
				for _, l := range x.Lhs {
					if IsObj(info, params[i])(l) {
						written = true
					}
					if ix, ok := ast.Unparen(l).(*ast.IndexExpr); ok && IsObj(info, params[i])(ix.X) {
						written = true
					}
				}
			case *ast.UnaryExpr:
				if x.Op == token.AND && IsObj(info, params[i])(x.X) {
					written = true
				}
			}
			return true
		})
		if written {
			return nil
		}
	}
	// error handling: either the error is the wrapper's result, or every path
	// on which it is non-nil ends in a no-return call
	g := h.Graph(curProg)
	fl := NewFlow(g)
	sp, ok := g.Find(send)
	if !ok {
		return nil
	}
	nres := 0
	var res0 types.Type
	if h.Type.Results != nil {
		for _, f := range h.Type.Results.List {
			k := len(f.Names)
			if k == 0 {
				k = 1
			}
			nres += k
			res0 = info.TypeOf(f.Type)
		}
	}
	switch {
	case nres == 1 && cfgq.IsErrorType(res0):
		// `return c.Send(...)`: the caller judges the error
		ret, isRet := sp.Node().(*ast.ReturnStmt)
		if !isRet || len(ret.Results) != 1 || ast.Unparen(ret.Results[0]) != ast.Expr(send) {
			return nil
		}
	case nres == 0:
		as, isAs := sp.Node().(*ast.AssignStmt)
		if !isAs || len(as.Lhs) != 1 {
			return nil
		}
		ev := core.ObjOf(info, as.Lhs[0])
		isNil := func(ft cfgq.Fact) bool {
			eq, ok := EqFact(ft, IsObj(info, ev), func(x ast.Expr) bool { return core.IsNil(info, x) })
			return ok && eq
		}
		if ev == nil {
			return nil
		}
		if g.Path(cfgq.Query{From: sp, After: true, AvoidEdge: fl.Edge(isNil), TargetExit: cfgq.NormalExit}) != nil {
			w.lost = true // the wrapper carries on after a failed Send and tells nobody
		} else {
			w.fatal = true
		}
	default:
		return nil
	}
	wrapMemo[key] = w
	return w
}

// SendOf normalises a call that sends one command on a connection.
func SendOf(info *types.Info, call *ast.CallExpr) *SendSite {
	if x, ok := ConnMethod(info, call, "Send"); ok {
		return &SendSite{Call: call, Conn: x, Args: call.Args, Ellipsis: call.Ellipsis.IsValid()}
	}
	h := calleeHelper(info, call)
	w := sendWrapper(h)
	if w == nil || len(call.Args) <= w.cmd || len(call.Args) <= w.conn {
		return nil
	}
	s := &SendSite{Call: call, Conn: w.connExpr, Fatal: w.fatal, Lost: w.lost, Ellipsis: call.Ellipsis.IsValid()}
	if h.Fn != nil {
		s.Wrapper = h.Fn.Obj
	}
	if w.conn >= 0 {
		s.Conn = call.Args[w.conn]
	}
	s.Args = append(s.Args, call.Args[w.cmd])
	if len(call.Args) > w.args {
		s.Args = append(s.Args, call.Args[w.args:]...)
	}
	return s
}

// ConnCmd: node executes conn.Send(<const name>, ...) with the given command name (case-insensitive).
func ConnCmd(info *types.Info, n ast.Node, name string) *SendSite {
	for _, call := range cfgq.ExecCalls(n) {
		if s := SendOf(info, call); s != nil && len(s.Args) > 0 {
			if v, ok := core.StringConst(info, s.Args[0]); ok && strings.EqualFold(v, name) {
				return s
			}
		}
	}
	return nil
}

// IsCallTo: node executes a call of the closure/function object obj.
func IsCallTo(info *types.Info, obj types.Object) func(ast.Node) bool {
	return func(n ast.Node) bool {
		for _, call := range cfgq.ExecCalls(n) {
			if id, ok := ast.Unparen(call.Fun).(*ast.Ident); ok && obj != nil && core.ObjOf(info, id) == obj {
				return true
			}
		}
		return false
	}
}

// IsFlush: node executes conn.Flush().
func IsFlush(info *types.Info) func(ast.Node) bool {
	return func(n ast.Node) bool {
		for _, call := range cfgq.ExecCalls(n) {
			if _, ok := ConnMethod(info, call, "Flush"); ok {
				return true
			}
		}
		return false
	}
}

// KBody, KHead, KDone: the block kinds of the loop over the batch.
func (s *Sender) KBody() cfg.BlockKind { return s.kBody }
func (s *Sender) KHead() cfg.BlockKind { return s.kHead }
func (s *Sender) KDone() cfg.BlockKind { return s.kDone }

// IsItem: e denotes the element of the current iteration of the loop over the batch.
func (s *Sender) IsItem(info *types.Info, e ast.Expr) bool {
	if s.ItemVar != nil && IsObj(info, s.ItemVar)(e) {
		return true
	}
	return s.elem != nil && s.elem(e)
}

// indexLoop recognises `for i := 0; i < len(b); i++` and returns i and b.
func indexLoop(info *types.Info, f *ast.ForStmt) (types.Object, ast.Expr) {
	init, ok := f.Init.(*ast.AssignStmt)
	if !ok || init.Tok != token.DEFINE || len(init.Lhs) != 1 || len(init.Rhs) != 1 {
		return nil, nil
	}
	if v, isC := core.IntConst(info, init.Rhs[0]); !isC || v != 0 {
		return nil, nil
	}
	iv := core.ObjOf(info, init.Lhs[0])
	post, ok := f.Post.(*ast.IncDecStmt)
	if !ok || post.Tok != token.INC || !IsObj(info, iv)(post.X) || f.Cond == nil {
		return nil, nil
	}
	b := pat.Expr("_i < len(_b)").Match(info, f.Cond, pat.Binds{"_i": init.Lhs[0]})
	if b == nil {
		return nil, nil
	}
	bx, _ := b["_b"].(ast.Expr)
	// the index is not modified in the body
	mod := false
	ast.Inspect(f.Body, func(m ast.Node) bool {
		switch x := m.(type) {
		case *ast.AssignStmt:
			for _, l := range x.Lhs {
				mod = mod || IsObj(info, iv)(l)
			}
		case *ast.IncDecStmt:
			mod = mod || IsObj(info, iv)(x.X)
		}
		return true
	})
	if mod {
		return nil, nil
	}
	return iv, bx
}

func sliceOfCmd(t types.Type) bool {
	if t == nil {
		return false
	}
	s, ok := t.Underlying().(*types.Slice)
	return ok && core.NamedTypeName(s.Elem()) == CmdType
}

// AnalyseSender builds the sender model (nil when the shape is not recognised).
func AnalyseSender(c *core.Ctx) *Sender {
	fn := c.Func(DbSync, Syncer, "sendTargetCommand")
	if fn == nil {
		return nil
	}
	curProg = c.Program
	s := &Sender{Fn: fn, Info: fn.Pkg.TypesInfo, G: cfgq.Of(c.Program, fn)}
	s.Fl = NewFlow(s.G).Inlining(c.Program, s.Info, fn.Decl, fn.Pkg.PkgPath)
	info := s.Info
	und := func(key string, pos token.Pos, format string, a ...interface{}) *Sender {
		c.Undecidedf("model", "sender/"+key, pos, format, a...)
		return nil
	}
	// the closure: a literal bound to a local whose body -- or a helper of the package it calls --
	// ranges over the []cmdDetail batch
	type cand struct {
		as  *ast.AssignStmt
		x   *XGraph
		rc  *XCtx
		rs  ast.Stmt // *ast.RangeStmt, or an index loop `for i := 0; i < len(batch); i++`
		n   int
		lit *ast.FuncLit
	}
	var cands []cand
	mkCand := func(as *ast.AssignStmt, fl *ast.FuncLit) cand {
		x := NewXGraph(c.Program, cfgq.OfLit(c.Program, info, fl), info, fn.Decl, fn.Pkg.PkgPath)
		cd := cand{as: as, x: x, lit: fl}
		seen := map[*XCtx]bool{}
		for _, pt := range x.Points(func(XNode) bool { return true }) {
			if seen[pt.C] {
				continue
			}
			seen[pt.C] = true
			core.Inspect(pt.C.G.Body, func(m ast.Node) bool {
				if r, ok := m.(*ast.RangeStmt); ok && sliceOfCmd(pt.C.Info.TypeOf(r.X)) {
					cd.n++
					cd.rc, cd.rs = pt.C, r
				}
				if f, ok := m.(*ast.ForStmt); ok {
					if _, bx := indexLoop(pt.C.Info, f); bx != nil && sliceOfCmd(pt.C.Info.TypeOf(bx)) {
						cd.n++
						cd.rc, cd.rs = pt.C, f
					}
				}
				return true
			})
		}
		return cd
	}
	core.Inspect(fn.Decl.Body, func(n ast.Node) bool {
		as, ok := n.(*ast.AssignStmt)
		if !ok || len(as.Lhs) != 1 || len(as.Rhs) != 1 {
			return true
		}
		fl, ok := ast.Unparen(as.Rhs[0]).(*ast.FuncLit)
		if !ok {
			return true
		}
		if cd := mkCand(as, fl); cd.n > 0 {
			cands = append(cands, cd)
		}
		return true
	})
	if len(cands) == 0 {
		// the flush routine may have been a function or method that the normalisation expanded at
		// each of its call sites: textually identical statement runs. One copy is analysed as the
		// routine, the starts of all copies are its calls.
		if runs := flushCopies(c, info, fn.Decl); len(runs) >= 2 {
			first := runs[0]
			fl := &ast.FuncLit{
				Type: &ast.FuncType{Func: first[0].Pos(), Params: &ast.FieldList{}},
				Body: &ast.BlockStmt{Lbrace: first[0].Pos(), List: first, Rbrace: first[len(first)-1].End()},
			}
			if cd := mkCand(nil, fl); cd.n > 0 {
				cands = append(cands, cd)
				s.FlushStarts = map[ast.Node]bool{}
				for _, r := range runs {
					s.FlushStarts[r[0]] = true
					s.FlushCopies = append(s.FlushCopies, [2]token.Pos{r[0].Pos(), r[len(r)-1].End()})
				}
			}
		}
	}
	if len(cands) != 1 {
		return und("closure", fn.Decl.Pos(), "expected one local closure that ranges over the []cmdDetail batch, found %d", len(cands))
	}
	cd := cands[0]
	if cd.as != nil {
		s.SendFunc = core.ObjOf(info, cd.as.Lhs[0])
	}
	s.Lit = cd.lit
	s.LG = cd.x.Root.G
	s.LFl = cd.x.Root.Fl
	s.X, s.RC = cd.x, cd.rc
	if cd.n != 1 {
		return und("range", s.Lit.Pos(), "expected one range over the batch in the closure, found %d", cd.n)
	}
	s.Loop = cd.rs
	rinfo := s.RC.Info
	var batchExpr ast.Expr
	var entry ast.Node // the node evaluated once before the first iteration
	var idxVar types.Object
	switch l := s.Loop.(type) {
	case *ast.RangeStmt:
		s.Range = l
		s.LoopBody, batchExpr, entry = l.Body, l.X, l.X
		s.kBody, s.kHead, s.kDone = cfg.KindRangeBody, cfg.KindRangeLoop, cfg.KindRangeDone
		if id, isID := l.Value.(*ast.Ident); isID && id.Name != "_" {
			s.ItemVar = core.ObjOf(rinfo, id)
		} else if id, isID := l.Key.(*ast.Ident); isID && id.Name != "_" {
			idxVar = core.ObjOf(rinfo, id)
		}
	case *ast.ForStmt:
		iv, bx := indexLoop(rinfo, l)
		s.LoopBody, batchExpr, entry, idxVar = l.Body, bx, l.Init, iv
		s.kBody, s.kHead, s.kDone = cfg.KindForBody, cfg.KindForLoop, cfg.KindForDone
	}
	// the batch variable: the local of sendTargetCommand the ranged expression stands for
	s.RangeExpr = s.X.Resolve(s.RC, batchExpr)
	var tun types.Object
	ast.Inspect(s.RangeExpr, func(m ast.Node) bool {
		if id, ok := m.(*ast.Ident); ok && tun == nil {
			if v, ok := core.ObjOf(info, id).(*types.Var); ok && sliceOfCmd(v.Type()) {
				tun = v
			}
		}
		return true
	})
	if tun == nil {
		return und("batch", s.Loop.Pos(), "cannot identify the batch variable in `%s`", c.Src(s.RangeExpr))
	}
	s.Tunnel = tun
	rp, ok := s.RC.G.Find(entry)
	if !ok {
		return und("range", s.Loop.Pos(), "loop over the batch not in the control-flow graph")
	}
	s.RangeX = XPoint{s.RC, rp}
	if s.RC == s.X.Root {
		s.RangePt = rp
	}
	if idxVar != nil {
		// index form: the element is batch[i], possibly named by a first statement `v := batch[i]`
		isElem := func(e ast.Expr) bool {
			ix, ok := ast.Unparen(e).(*ast.IndexExpr)
			return ok && pat.Same(rinfo, ix.X, batchExpr) && IsObj(rinfo, idxVar)(ix.Index)
		}
		s.elem = isElem
		if len(s.LoopBody.List) > 0 {
			if as, ok := s.LoopBody.List[0].(*ast.AssignStmt); ok && as.Tok == token.DEFINE && len(as.Lhs) == 1 && len(as.Rhs) == 1 {
				rhs := ast.Unparen(as.Rhs[0])
				if u, ok := rhs.(*ast.UnaryExpr); ok && u.Op == token.AND {
					rhs = u.X // `item := &batch[i]`: the fields are read through the pointer
				}
				if isElem(rhs) {
					s.ItemVar = core.ObjOf(rinfo, as.Lhs[0])
				}
			}
		}
	}
	if s.ItemVar == nil && s.elem == nil {
		return und("range", s.Loop.Pos(), "the loop over the batch does not bind the element")
	}
	core.Inspect(s.LoopBody, func(m ast.Node) bool {
		if call, ok := m.(*ast.CallExpr); ok {
			if site := SendOf(rinfo, call); site != nil {
				s.Data = append(s.Data, site)
				conn := s.X.Resolve(s.RC, site.Conn)
				if o, ok := SoleOrigin(info, fn.Decl, conn); ok && o.Expr != nil && o.Op == 0 && !o.Range && o.Res <= 0 {
					conn = o.Expr // through single-definition copies
				}
				if id, ok := ast.Unparen(conn).(*ast.Ident); ok {
					s.Conn = core.ObjOf(info, id)
				}
			}
		}
		return true
	})
	if len(s.Data) == 0 && s.RC == s.X.Root {
		// the Send may sit in a helper or closure called from the loop body
		for _, pt := range s.X.Points(XIsSend) {
			a := pt.C
			for a.Parent != nil && a.Parent != s.RC {
				a = a.Parent
			}
			if a.Parent != s.RC || a.Call == nil || !(s.LoopBody.Pos() <= a.Call.Pos() && a.Call.End() <= s.LoopBody.End()) {
				continue
			}
			for _, call := range cfgq.ExecCalls(pt.P.Node()) {
				site := SendOf(pt.C.Info, call)
				if site == nil {
					continue
				}
				r := &SendSite{Call: a.Call, Ellipsis: site.Ellipsis, Fatal: site.Fatal, Lost: site.Lost, Wrapper: site.Wrapper}
				for _, arg := range site.Args {
					r.Args = append(r.Args, s.X.Resolve(pt.C, arg))
				}
				r.Conn = s.X.Resolve(pt.C, site.Conn)
				s.Data = append(s.Data, r)
				conn := r.Conn
				if o, ok := SoleOrigin(info, fn.Decl, conn); ok && o.Expr != nil && o.Op == 0 && !o.Range && o.Res <= 0 {
					conn = o.Expr
				}
				if id, ok := ast.Unparen(conn).(*ast.Ident); ok {
					s.Conn = core.ObjOf(info, id)
				}
			}
		}
	}
	if len(s.Data) == 0 || s.Conn == nil {
		return und("data-send", s.Loop.Pos(), "no conn.Send call on a connection variable inside the range over the batch")
	}

	// the select statement with the receive from sendBuf
	core.Inspect(fn.Decl.Body, func(n ast.Node) bool {
		sel, ok := n.(*ast.SelectStmt)
		if !ok {
			return true
		}
		for _, cl := range sel.Body.List {
			cc := cl.(*ast.CommClause)
			if as, ok := cc.Comm.(*ast.AssignStmt); ok && (len(as.Lhs) == 1 || len(as.Lhs) == 2) && len(as.Rhs) == 1 {
				if u, ok := ast.Unparen(as.Rhs[0]).(*ast.UnaryExpr); ok && u.Op == token.ARROW && IsSendBuf(info, u.X) {
					s.Select, s.RecvComm = sel, as
					s.Item = core.ObjOf(info, as.Lhs[0])
				}
			}
		}
		return true
	})
	if s.Select == nil || s.Item == nil {
		return und("receive", fn.Decl.Pos(), "no `case item := <-ds.sendBuf` arm of a select in sendTargetCommand")
	}
	for _, cl := range s.Select.Body.List {
		cc := cl.(*ast.CommClause)
		for _, b := range s.G.CFG.Blocks {
			if b.Kind != cfg.KindSelectCaseBody || b.Stmt != ast.Stmt(cc) {
				continue
			}
			if cc.Comm == ast.Stmt(s.RecvComm) {
				s.RecvBody = b
			} else if es, ok := cc.Comm.(*ast.ExprStmt); ok {
				if u, ok := ast.Unparen(es.X).(*ast.UnaryExpr); ok && u.Op == token.ARROW {
					// any timer arm: a receive from a channel of time.Time (ticker.C, timer.C, time.After(d))
					if ch, ok := info.TypeOf(u.X).Underlying().(*types.Chan); ok && core.NamedTypePath(ch.Elem()) == "time.Time" {
						s.Tick, s.TickBody, s.TickChan = cc, b, u.X
					}
				}
			}
		}
	}
	if s.RecvBody == nil {
		return und("receive", s.RecvComm.Pos(), "receive arm not found in the control-flow graph")
	}
	// barrier call and appends (receive arm / whole function)
	bst := c.LookupFunc(DbSync, "", "barrierStatus")
	core.Inspect(fn.Decl.Body, func(n ast.Node) bool {
		as, ok := n.(*ast.AssignStmt)
		if !ok {
			return true
		}
		if len(as.Rhs) == 1 && len(as.Lhs) == 2 && bst != nil {
			if call, ok := ast.Unparen(as.Rhs[0]).(*ast.CallExpr); ok && core.CalleeFunc(info, call) == bst.Obj {
				s.Barrier, s.BarrierCall = as, call
				s.BarrierChain = map[ast.Node]bool{as: true}
				s.Bs, s.Fs = core.ObjOf(info, as.Lhs[0]), core.ObjOf(info, as.Lhs[1])
				// the results may reach the state and flush variables through temporaries
				// (`s, f := barrierStatus(..); v_state, v_flush = s, f; bs, fs = v_state, v_flush`):
				// follow single-use copies inside the same basic block
				for _, o := range []*types.Object{&s.Bs, &s.Fs} {
					at := ast.Stmt(as)
					for k := 0; k < 6; k++ {
						next, st := tempCopy(info, fn.Decl, *o)
						if next == nil || !sameBlock(s.G, at, st) || st.Pos() < at.Pos() {
							break
						}
						*o, at = next, st
						s.BarrierChain[st] = true
						if st.Pos() > s.Barrier.Pos() {
							s.Barrier = st
						}
					}
				}
			}
		}
		return true
	})
	core.InspectAll(fn.Decl.Body, func(n ast.Node) bool {
		as, ok := n.(*ast.AssignStmt)
		if !ok || len(as.Lhs) != 1 || len(as.Rhs) != 1 || !IsObj(info, s.Tunnel)(as.Lhs[0]) {
			return true
		}
		if call, ok := ast.Unparen(as.Rhs[0]).(*ast.CallExpr); ok {
			if b, ok := core.Callee(info, call).(*types.Builtin); ok && b.Name() == "append" {
				s.Appends = append(s.Appends, as)
			}
		}
		return true
	})
	if s.Barrier != nil {
		s.BarrierPt, _ = s.G.Find(s.Barrier)
	}
	c.Okf("model", "sender", fn.Decl.Pos(), "receive loop, batch and flush closure of the sender recognised")
	return s
}

// IsRecv: node is the receive statement (evaluated at the top of every iteration).
func (s *Sender) IsRecv(n ast.Node) bool { return n == ast.Node(s.RecvComm) }

// IsAppend: node is an append to the batch.
func (s *Sender) IsAppend(n ast.Node) bool {
	for _, a := range s.Appends {
		if n == ast.Node(a) {
			return true
		}
	}
	return false
}

// tempCopy: obj is a local variable of decl that is written exactly once and
// read exactly once (apart from `_ = obj`), and that read is `x = obj` (an
// element of a parallel assignment as well): returns x and the copy statement.
func tempCopy(info *types.Info, decl *ast.FuncDecl, obj types.Object) (types.Object, *ast.AssignStmt) {
	v, ok := obj.(*types.Var)
	if !ok || v.IsField() || decl.Body == nil || !(decl.Body.Pos() <= v.Pos() && v.Pos() < decl.Body.End()) {
		return nil, nil
	}
	writes, reads := 0, 0
	var next types.Object
	var at *ast.AssignStmt
	counted := map[*ast.Ident]bool{}
	core.InspectAll(decl.Body, func(n ast.Node) bool {
		switch x := n.(type) {
		case *ast.AssignStmt:
			for _, l := range x.Lhs {
				if id, ok := ast.Unparen(l).(*ast.Ident); ok && core.ObjOf(info, id) == obj {
					writes++
					counted[id] = true
				}
			}
			if len(x.Lhs) == len(x.Rhs) {
				for i, r := range x.Rhs {
					id, ok := ast.Unparen(r).(*ast.Ident)
					if !ok || core.ObjOf(info, id) != obj {
						continue
					}
					l, ok := ast.Unparen(x.Lhs[i]).(*ast.Ident)
					if !ok {
						continue
					}
					counted[id] = true
					if l.Name == "_" {
						continue // `_ = tmp` keeps the compiler quiet
					}
					if x.Tok != token.ASSIGN && x.Tok != token.DEFINE {
						reads += 2
						continue
					}
					reads++
					next, at = core.ObjOf(info, l), x
				}
			}
		case *ast.ValueSpec:
			for i, nm := range x.Names {
				if info.Defs[nm] == obj && i < len(x.Values) {
					writes++
				}
			}
		case *ast.IncDecStmt:
			if id, ok := ast.Unparen(x.X).(*ast.Ident); ok && core.ObjOf(info, id) == obj {
				writes += 2
			}
		case *ast.UnaryExpr:
			if id, ok := ast.Unparen(x.X).(*ast.Ident); ok && x.Op == token.AND && core.ObjOf(info, id) == obj {
				writes += 2
			}
		case *ast.Ident:
			if info.Uses[x] == obj && !counted[x] {
				reads++
			}
		}
		return true
	})
	if writes != 1 || reads != 1 || next == nil {
		return nil, nil
	}
	return next, at
}

func sameBlock(g *cfgq.Graph, a, b ast.Node) bool {
	pa, ok1 := g.Find(a)
	pb, ok2 := g.Find(b)
	return ok1 && ok2 && pa.B == pb.B
}

// IsFlushCall: node calls the flush routine (the closure, or the start of an expanded copy of it).
func (s *Sender) IsFlushCall(n ast.Node) bool {
	if s.SendFunc != nil && IsCallTo(s.Info, s.SendFunc)(n) {
		return true
	}
	return s.FlushStarts[n]
}

// InFlush: node lies inside the flush routine (the closure, or any expanded copy of it).
func (s *Sender) InFlush(n ast.Node) bool {
	if s.Lit != nil && s.Lit.Pos() <= n.Pos() && n.End() <= s.Lit.End() {
		return true
	}
	for _, r := range s.FlushCopies {
		if r[0] <= n.Pos() && n.End() <= r[1] {
			return true
		}
	}
	return false
}

// flushCopies finds the expanded copies of one routine that sends the batch:
// the range statements over a []cmdDetail local that contain a conn.Send lie,
// in each copy, inside the same statement run (compared by their printed
// text, whitespace ignored). The runs are grown from the range statements
// upwards while the enclosing statements are identical, then sideways over
// identical neighbours. Copies that contain continue / goto / return are not
// accepted (they would leave the routine in the middle).
func flushCopies(c *core.Ctx, info *types.Info, decl *ast.FuncDecl) [][]ast.Stmt {
	var ranges []*ast.RangeStmt
	core.Inspect(decl.Body, func(m ast.Node) bool {
		r, ok := m.(*ast.RangeStmt)
		if !ok || !sliceOfCmd(info.TypeOf(r.X)) {
			return true
		}
		has := false
		core.Inspect(r.Body, func(k ast.Node) bool {
			if call, ok := k.(*ast.CallExpr); ok && SendOf(info, call) != nil {
				has = true
			}
			return true
		})
		if has {
			ranges = append(ranges, r)
		}
		return true
	})
	if len(ranges) < 2 {
		return nil
	}
	text := func(n ast.Node) string {
		var b bytes.Buffer
		if err := printer.Fprint(&b, c.Program.Fset, n); err != nil {
			return "\x00" + strconv.Itoa(int(n.Pos()))
		}
		return strings.Join(strings.Fields(b.String()), "")
	}
	// statement chains from the function body down to each range
	chains := make([][]ast.Stmt, len(ranges))
	for i, r := range ranges {
		for _, pn := range core.PathTo(decl.Body, r) {
			if st, ok := pn.(ast.Stmt); ok {
				chains[i] = append(chains[i], st)
			}
		}
	}
	// climb while all copies agree
	up := 0
	for {
		ok := true
		for i := range chains {
			k := len(chains[i]) - 1 - (up + 1)
			k0 := len(chains[0]) - 1 - (up + 1)
			if k < 1 || k0 < 1 || text(chains[i][k]) != text(chains[0][k0]) {
				ok = false
			}
		}
		if !ok {
			break
		}
		up++
	}
	var runs [][]ast.Stmt
	type place struct {
		list []ast.Stmt
		idx  int
	}
	places := make([]place, len(chains))
	for i := range chains {
		top := chains[i][len(chains[i])-1-up]
		parent := chains[i][len(chains[i])-2-up]
		var list []ast.Stmt
		switch p := parent.(type) {
		case *ast.BlockStmt:
			list = p.List
		case *ast.CaseClause:
			list = p.Body
		case *ast.CommClause:
			list = p.Body
		default:
			return nil
		}
		idx := -1
		for k, st := range list {
			if st == top {
				idx = k
			}
		}
		if idx < 0 {
			return nil
		}
		places[i] = place{list, idx}
	}
	lo, hi := 0, 0 // extension before / after
	for {
		ok := true
		for i := range places {
			k, k0 := places[i].idx-(lo+1), places[0].idx-(lo+1)
			if k < 0 || k0 < 0 || text(places[i].list[k]) != text(places[0].list[k0]) {
				ok = false
			}
		}
		if !ok {
			break
		}
		lo++
	}
	for {
		ok := true
		for i := range places {
			k, k0 := places[i].idx+hi+1, places[0].idx+hi+1
			if k >= len(places[i].list) || k0 >= len(places[0].list) || text(places[i].list[k]) != text(places[0].list[k0]) {
				ok = false
			}
		}
		if !ok {
			break
		}
		hi++
	}
	for i := range places {
		run := places[i].list[places[i].idx-lo : places[i].idx+hi+1]
		bad := false
		for _, st := range run {
			core.Inspect(st, func(m ast.Node) bool {
				switch x := m.(type) {
				case *ast.ReturnStmt:
					bad = true
				case *ast.BranchStmt:
					if x.Tok == token.CONTINUE && x.Label == nil || x.Tok == token.GOTO {
						// (a continue of a loop inside the run is fine; one of the host loop is not)
						inner := false
						for _, pn := range core.PathTo(st, x) {
							switch pn.(type) {
							case *ast.ForStmt, *ast.RangeStmt:
								inner = true
							}
						}
						if !inner || x.Tok == token.GOTO {
							bad = true
						}
					}
				}
				return true
			})
		}
		if bad {
			return nil
		}
		runs = append(runs, run)
	}
	// copies must not overlap
	for i := range runs {
		for j := range runs {
			if i != j && runs[i][0].Pos() <= runs[j][0].Pos() && runs[j][0].Pos() < runs[i][len(runs[i])-1].End() {
				return nil
			}
		}
	}
	return runs
}
