package c03

// A small evaluator for loop-free table functions over constants (engine E9):
// it runs barrierStatus on every (state, command) pair. Anything outside the
// supported subset makes the evaluation fail, which the rule reports as
// UNDECIDED.

import (
	"fmt"
	"go/ast"
	"go/constant"
	"go/token"
	"go/types"

	"golang.org/x/tools/go/packages"

	"rscheck/cfgq"
	"rscheck/core"
)

type ival struct {
	c  constant.Value    // scalar
	m  map[string]string // string->string map
	mm map[string]ival   // map from string to anything else (struct values ...)
	et types.Type        // element type of mm
	s  map[string]ival   // struct value, by field name
	p  *iref             // pointer to a variable of some frame
}

// iref is the address of a variable: the environment that holds it and its object.
type iref struct {
	env map[types.Object]ival
	obj types.Object
}

type outcome int

const (
	oNext outcome = iota
	oReturn
	oPanic
	oFallthrough
	oBreak
)

type interp struct {
	c     *core.Ctx
	info  *types.Info
	pkg   *packages.Package
	env   map[types.Object]ival
	glob  map[types.Object]ival // shared: package-level tables loaded so far
	ret   []ival
	fuel  int
	depth int
}

type interpErr struct{ msg string }

func (it *interp) fail(n ast.Node, format string, a ...interface{}) {
	panic(interpErr{fmt.Sprintf("%s: %s", it.c.Src(n), fmt.Sprintf(format, a...))})
}

// MapLiteral reads a package-level `var m = map[string]string{...}` with constant entries.
func MapLiteral(c *core.Ctx, pkgPath string, obj types.Object) (map[string]string, *ast.CompositeLit) {
	pk := c.Pkg(pkgPath)
	if pk == nil || obj == nil {
		return nil, nil
	}
	var lit *ast.CompositeLit
	for _, f := range pk.Syntax {
		ast.Inspect(f, func(n ast.Node) bool {
			vs, ok := n.(*ast.ValueSpec)
			if !ok {
				return true
			}
			for i, nm := range vs.Names {
				if pk.TypesInfo.Defs[nm] == obj && len(vs.Values) == len(vs.Names) {
					lit, _ = ast.Unparen(vs.Values[i]).(*ast.CompositeLit)
				}
			}
			return true
		})
	}
	if lit == nil {
		// `var m = build()`: a function of the package that fills a fresh map with constant entries
		if m, pos := builtMap(c, pk, obj); m != nil {
			return m, pos
		}
		return nil, nil
	}
	m := map[string]string{}
	for _, el := range lit.Elts {
		kv, ok := el.(*ast.KeyValueExpr)
		if !ok {
			return nil, nil
		}
		k, ok1 := core.StringConst(pk.TypesInfo, kv.Key)
		v, ok2 := core.StringConst(pk.TypesInfo, kv.Value)
		if !ok1 || !ok2 {
			return nil, nil
		}
		if _, dup := m[k]; dup {
			return nil, nil
		}
		m[k] = v
	}
	return m, lit
}

// evalTable runs fn(args...) and returns its constant results, or panicked=true.
func evalTable(c *core.Ctx, fn *core.Fn, args []constant.Value, globals map[types.Object]ival) (res []constant.Value, panicked bool, err error) {
	return evalTableDepth(c, fn, args, globals, 0)
}

func evalTableDepth(c *core.Ctx, fn *core.Fn, args []constant.Value, globals map[types.Object]ival, depth int) (res []constant.Value, panicked bool, err error) {
	iargs := make([]ival, len(args))
	for i, a := range args {
		iargs[i] = ival{c: a}
	}
	out, panicked, err := evalFn(c, fn, iargs, globals, depth)
	if err != nil || panicked {
		return nil, panicked, err
	}
	for _, v := range out {
		if v.c == nil || v.c.Kind() == constant.Unknown {
			return nil, false, fmt.Errorf("a result is not a scalar constant")
		}
		res = append(res, v.c)
	}
	return res, false, nil
}

// evalFn runs fn on argument values (scalars, struct values, pointers to variables of the caller).
func evalFn(c *core.Ctx, fn *core.Fn, args []ival, globals map[types.Object]ival, depth int) (res []ival, panicked bool, err error) {
	it := &interp{c: c, info: fn.Pkg.TypesInfo, pkg: fn.Pkg, env: map[types.Object]ival{}, glob: globals, fuel: 2000, depth: depth}
	for k, v := range globals {
		it.env[k] = v
	}
	i := 0
	for _, f := range fn.Decl.Type.Params.List {
		for _, nm := range f.Names {
			if i >= len(args) {
				return nil, false, fmt.Errorf("more parameters than arguments")
			}
			it.env[it.info.Defs[nm]] = args[i]
			i++
		}
	}
	// named results start at their zero value
	var named []types.Object
	if fn.Decl.Type.Results != nil {
		for _, f := range fn.Decl.Type.Results.List {
			for _, nm := range f.Names {
				if o := it.info.Defs[nm]; o != nil {
					it.env[o] = it.zero(o.Type())
					named = append(named, o)
				}
			}
		}
	}
	defer func() {
		if r := recover(); r != nil {
			if ie, ok := r.(interpErr); ok {
				err = fmt.Errorf("%s", ie.msg)
				return
			}
			if _, ok := r.(interpPanic); ok {
				panicked = true
				return
			}
			panic(r)
		}
	}()
	nres := 0
	if fn.Decl.Type.Results != nil {
		nres = fn.Decl.Type.Results.NumFields()
	}
	switch it.block(fn.Decl.Body.List) {
	case oReturn:
		if len(it.ret) == 0 && len(named) > 0 { // bare return
			for _, o := range named {
				it.ret = append(it.ret, it.env[o])
			}
		}
		return it.ret, false, nil
	case oPanic:
		return nil, true, nil
	case oNext:
		if nres == 0 {
			return nil, false, nil
		}
	}
	return nil, false, fmt.Errorf("function ends without return")
}

// zero is the zero value of type t (scalars and structs of them).
func (it *interp) zero(t types.Type) ival {
	if st, ok := t.Underlying().(*types.Struct); ok {
		v := ival{s: map[string]ival{}}
		for i := 0; i < st.NumFields(); i++ {
			v.s[st.Field(i).Name()] = it.zero(st.Field(i).Type())
		}
		return v
	}
	return ival{c: zeroOf(t)}
}

func (it *interp) block(list []ast.Stmt) outcome {
	for _, s := range list {
		if o := it.stmt(s); o != oNext {
			return o
		}
	}
	return oNext
}

func (it *interp) stmt(s ast.Stmt) outcome {
	if it.fuel--; it.fuel < 0 {
		it.fail(s, "evaluation budget exhausted")
	}
	switch s := s.(type) {
	case *ast.BlockStmt:
		return it.block(s.List)
	case *ast.EmptyStmt:
		return oNext
	case *ast.ReturnStmt:
		it.ret = nil
		if len(s.Results) == 1 {
			if call, ok := ast.Unparen(s.Results[0]).(*ast.CallExpr); ok {
				if vs, ok := it.call(call); ok && len(vs) > 1 { // return f(...)
					it.ret = vs
					return oReturn
				}
			}
		}
		for _, r := range s.Results {
			it.ret = append(it.ret, it.eval(r))
		}
		return oReturn
	case *ast.BranchStmt:
		switch s.Tok {
		case token.FALLTHROUGH:
			return oFallthrough
		case token.BREAK:
			if s.Label == nil {
				return oBreak
			}
		}
		it.fail(s, "unsupported branch")
	case *ast.ExprStmt:
		call, ok := s.X.(*ast.CallExpr)
		if !ok {
			it.fail(s, "unsupported expression statement")
		}
		if cfgq.NR(it.c.Program).Is(it.info, call) {
			return oPanic
		}
		if f := core.CalleeFunc(it.info, call); f != nil && f.Pkg() != nil && (f.Pkg().Name() == "log" || f.Pkg().Path() == "fmt") {
			return oNext // logging only
		}
		if _, ok := it.call(call); ok { // a helper of the module, evaluated for its effect on out-parameters
			return oNext
		}
		it.fail(s, "call with unknown effect")
	case *ast.DeclStmt:
		gd, ok := s.Decl.(*ast.GenDecl)
		if !ok || gd.Tok != token.VAR {
			it.fail(s, "unsupported declaration")
		}
		for _, sp := range gd.Specs {
			vs := sp.(*ast.ValueSpec)
			for i, nm := range vs.Names {
				if len(vs.Values) == len(vs.Names) {
					it.env[it.info.Defs[nm]] = it.eval(vs.Values[i])
				} else if len(vs.Values) == 0 {
					it.env[it.info.Defs[nm]] = it.zero(it.info.Defs[nm].Type())
				} else {
					it.fail(s, "unsupported declaration")
				}
			}
		}
		return oNext
	case *ast.AssignStmt:
		if s.Tok != token.ASSIGN && s.Tok != token.DEFINE {
			it.fail(s, "unsupported assignment operator")
		}
		set := func(l ast.Expr, v ival) {
			switch lx := ast.Unparen(l).(type) {
			case *ast.Ident:
				if lx.Name == "_" {
					return
				}
				it.env[core.ObjOf(it.info, lx)] = v
				return
			case *ast.StarExpr: // *p = v
				if r := it.eval(lx.X); r.p != nil {
					r.p.env[r.p.obj] = v
					return
				}
			case *ast.SelectorExpr: // local.f = v
				if id, ok := ast.Unparen(lx.X).(*ast.Ident); ok {
					o := core.ObjOf(it.info, id)
					if cur, ok := it.env[o]; ok && cur.s != nil && !isPkgLevel(o) {
						ns := map[string]ival{}
						for k, fv := range cur.s {
							ns[k] = fv
						}
						ns[lx.Sel.Name] = v
						it.env[o] = ival{s: ns}
						return
					}
				}
			}
			it.fail(s, "assignment to a non-variable")
		}
		if len(s.Lhs) >= 2 && len(s.Rhs) == 1 {
			if call, ok := ast.Unparen(s.Rhs[0]).(*ast.CallExpr); ok { // a, b := helper(...)
				vs, ok := it.call(call)
				if !ok || len(vs) != len(s.Lhs) {
					it.fail(s, "unsupported tuple assignment")
				}
				for i, l := range s.Lhs {
					set(l, vs[i])
				}
				return oNext
			}
		}
		if len(s.Lhs) == 2 && len(s.Rhs) == 1 { // v, ok := m[k]
			ix, ok := ast.Unparen(s.Rhs[0]).(*ast.IndexExpr)
			if !ok {
				it.fail(s, "unsupported tuple assignment")
			}
			m := it.eval(ix.X)
			key := constant.StringVal(it.scalar(ix.Index))
			switch {
			case m.m != nil:
				v, found := m.m[key]
				set(s.Lhs[0], ival{c: constant.MakeString(v)})
				set(s.Lhs[1], ival{c: constant.MakeBool(found)})
			case m.mm != nil:
				v, found := m.mm[key]
				if !found {
					v = it.zero(m.et)
				}
				set(s.Lhs[0], v)
				set(s.Lhs[1], ival{c: constant.MakeBool(found)})
			default:
				it.fail(s, "index of a non-map")
			}
			return oNext
		}
		if len(s.Lhs) != len(s.Rhs) {
			it.fail(s, "unsupported assignment")
		}
		vals := make([]ival, len(s.Rhs))
		for i, r := range s.Rhs {
			vals[i] = it.eval(r)
		}
		for i, l := range s.Lhs {
			set(l, vals[i])
		}
		return oNext
	case *ast.IfStmt:
		if s.Init != nil {
			if o := it.stmt(s.Init); o != oNext {
				return o
			}
		}
		if constant.BoolVal(it.boolean(s.Cond)) {
			return it.block(s.Body.List)
		}
		if s.Else != nil {
			return it.stmt(s.Else)
		}
		return oNext
	case *ast.SwitchStmt:
		if s.Init != nil {
			if o := it.stmt(s.Init); o != oNext {
				return o
			}
		}
		var tag constant.Value = constant.MakeBool(true)
		if s.Tag != nil {
			tag = it.scalar(s.Tag)
		}
		start := -1
		for i, cl := range s.Body.List {
			cc := cl.(*ast.CaseClause)
			if cc.List == nil {
				continue
			}
			for _, e := range cc.List {
				v := it.scalar(e)
				if v.Kind() == tag.Kind() && constant.Compare(v, token.EQL, tag) {
					start = i
				}
			}
			if start >= 0 {
				break
			}
		}
		if start < 0 {
			for i, cl := range s.Body.List {
				if cl.(*ast.CaseClause).List == nil {
					start = i
				}
			}
		}
		if start < 0 {
			return oNext
		}
		for i := start; i < len(s.Body.List); i++ {
			switch o := it.block(s.Body.List[i].(*ast.CaseClause).Body); o {
			case oFallthrough:
				continue
			case oBreak, oNext:
				return oNext
			default:
				return o
			}
		}
		return oNext
	}
	it.fail(s, "unsupported statement")
	return oNext
}

func zeroOf(t types.Type) constant.Value {
	if b, ok := t.Underlying().(*types.Basic); ok {
		switch {
		case b.Info()&types.IsString != 0:
			return constant.MakeString("")
		case b.Info()&types.IsBoolean != 0:
			return constant.MakeBool(false)
		case b.Info()&types.IsInteger != 0:
			return constant.MakeInt64(0)
		}
	}
	return constant.MakeUnknown()
}

func (it *interp) scalar(e ast.Expr) constant.Value {
	v := it.eval(e)
	if v.c == nil || v.c.Kind() == constant.Unknown {
		it.fail(e, "not a scalar constant")
	}
	return v.c
}

func (it *interp) boolean(e ast.Expr) constant.Value {
	v := it.scalar(e)
	if v.Kind() != constant.Bool {
		it.fail(e, "not a boolean")
	}
	return v
}

func (it *interp) eval(e ast.Expr) ival {
	e = ast.Unparen(e)
	if tv, ok := it.info.Types[e]; ok && tv.Value != nil {
		return ival{c: tv.Value}
	}
	switch x := e.(type) {
	case *ast.Ident:
		o := core.ObjOf(it.info, x)
		if v, ok := it.env[o]; ok {
			return v
		}
		if v, ok := it.global(o); ok {
			return v
		}
		it.fail(e, "variable without a known value")
	case *ast.IndexExpr:
		m := it.eval(x.X)
		switch {
		case m.m != nil:
			return ival{c: constant.MakeString(m.m[constant.StringVal(it.scalar(x.Index))])}
		case m.mm != nil:
			if v, ok := m.mm[constant.StringVal(it.scalar(x.Index))]; ok {
				return v
			}
			return it.zero(m.et)
		}
		it.fail(e, "index of a non-map")
	case *ast.SelectorExpr:
		if _, isField := it.info.Selections[x]; isField {
			v := it.eval(x.X)
			if v.p != nil { // p.f on a pointer to a struct variable
				v = v.p.env[v.p.obj]
			}
			if fv, ok := v.s[x.Sel.Name]; ok && v.s != nil {
				return fv
			}
			it.fail(e, "field of a value that is not a known struct")
		}
	case *ast.StarExpr:
		if r := it.eval(x.X); r.p != nil {
			if v, ok := r.p.env[r.p.obj]; ok {
				return v
			}
		}
		it.fail(e, "dereference of an unknown pointer")
	case *ast.CompositeLit:
		if v, ok := it.composite(x); ok {
			return v
		}
		it.fail(e, "unsupported composite literal")
	case *ast.UnaryExpr:
		if x.Op == token.NOT {
			return ival{c: constant.MakeBool(!constant.BoolVal(it.boolean(x.X)))}
		}
		if x.Op == token.AND {
			if id, ok := ast.Unparen(x.X).(*ast.Ident); ok {
				o := core.ObjOf(it.info, id)
				if _, known := it.env[o]; known && !isPkgLevel(o) {
					return ival{p: &iref{env: it.env, obj: o}}
				}
			}
			it.fail(e, "address of something that is not a local variable")
		}
	case *ast.BinaryExpr:
		switch x.Op {
		case token.LAND:
			if !constant.BoolVal(it.boolean(x.X)) {
				return ival{c: constant.MakeBool(false)}
			}
			return ival{c: it.boolean(x.Y)}
		case token.LOR:
			if constant.BoolVal(it.boolean(x.X)) {
				return ival{c: constant.MakeBool(true)}
			}
			return ival{c: it.boolean(x.Y)}
		case token.EQL, token.NEQ:
			a, b := it.scalar(x.X), it.scalar(x.Y)
			if a.Kind() != b.Kind() {
				it.fail(e, "comparison of different kinds")
			}
			return ival{c: constant.MakeBool(constant.Compare(a, x.Op, b))}
		}
	}
	if call, ok := e.(*ast.CallExpr); ok {
		if vs, ok := it.call(call); ok {
			if len(vs) == 1 {
				return vs[0]
			}
			it.fail(e, "helper with %d results used as a value", len(vs))
		}
	}
	it.fail(e, "unsupported expression")
	return ival{}
}

type interpPanic struct{}

func isPkgLevel(o types.Object) bool {
	v, ok := o.(*types.Var)
	return ok && v.Pkg() != nil && v.Parent() == v.Pkg().Scope()
}

// call evaluates a call of a module function the same way (arguments may be
// scalars, struct values or addresses of locals); ok is false when the callee
// is not such a function.
func (it *interp) call(call *ast.CallExpr) ([]ival, bool) {
	if it.depth >= 3 || call.Ellipsis.IsValid() {
		return nil, false
	}
	if tv, ok := it.info.Types[call.Fun]; ok && tv.IsType() {
		return nil, false
	}
	fn := it.c.FnOf(core.CalleeFunc(it.info, call))
	if fn == nil || fn.Decl.Body == nil || fn.Decl.Recv != nil {
		return nil, false
	}
	args := make([]ival, len(call.Args))
	for i, a := range call.Args {
		args[i] = it.eval(a)
	}
	res, pan, err := evalFn(it.c, fn, args, it.glob, it.depth+1)
	if err != nil {
		it.fail(call, "helper %s: %v", fn.Name(), err)
	}
	if pan {
		panic(interpPanic{})
	}
	return res, true
}

// composite evaluates a struct literal or a map literal with constant string keys.
func (it *interp) composite(lit *ast.CompositeLit) (ival, bool) {
	t := it.info.TypeOf(lit)
	if t == nil {
		return ival{}, false
	}
	switch u := t.Underlying().(type) {
	case *types.Struct:
		v := it.zero(t)
		for i, el := range lit.Elts {
			if kv, ok := el.(*ast.KeyValueExpr); ok {
				id, ok := kv.Key.(*ast.Ident)
				if !ok {
					return ival{}, false
				}
				v.s[id.Name] = it.litElem(kv.Value, fieldType(u, id.Name))
			} else if i < u.NumFields() {
				v.s[u.Field(i).Name()] = it.litElem(el, u.Field(i).Type())
			}
		}
		return v, true
	case *types.Map:
		if b, ok := u.Key().Underlying().(*types.Basic); !ok || b.Info()&types.IsString == 0 {
			return ival{}, false
		}
		v := ival{mm: map[string]ival{}, et: u.Elem()}
		for _, el := range lit.Elts {
			kv, ok := el.(*ast.KeyValueExpr)
			if !ok {
				return ival{}, false
			}
			k := constant.StringVal(it.scalar(kv.Key))
			if _, dup := v.mm[k]; dup {
				return ival{}, false
			}
			v.mm[k] = it.litElem(kv.Value, u.Elem())
		}
		return v, true
	}
	return ival{}, false
}

// litElem evaluates an element of a composite literal; `{a, b}` without a type takes the element type.
func (it *interp) litElem(e ast.Expr, t types.Type) ival {
	if cl, ok := ast.Unparen(e).(*ast.CompositeLit); ok && cl.Type == nil && t != nil {
		if st, ok := t.Underlying().(*types.Struct); ok {
			v := it.zero(t)
			for i, el := range cl.Elts {
				if kv, ok := el.(*ast.KeyValueExpr); ok {
					if id, ok := kv.Key.(*ast.Ident); ok {
						v.s[id.Name] = it.litElem(kv.Value, fieldType(st, id.Name))
					}
				} else if i < st.NumFields() {
					v.s[st.Field(i).Name()] = it.litElem(el, st.Field(i).Type())
				}
			}
			return v
		}
	}
	return it.eval(e)
}

func fieldType(st *types.Struct, name string) types.Type {
	for i := 0; i < st.NumFields(); i++ {
		if st.Field(i).Name() == name {
			return st.Field(i).Type()
		}
	}
	return nil
}

// global loads a package-level variable of the analysed package that is
// initialised by a literal of constants (a map with string keys, a struct) and
// never written, re-bound or passed by address anywhere in the package.
func (it *interp) global(o types.Object) (ival, bool) {
	if !isPkgLevel(o) || it.pkg == nil || o.Pkg() != it.pkg.Types {
		return ival{}, false
	}
	var init ast.Expr
	written := false
	for _, f := range it.pkg.Syntax {
		ast.Inspect(f, func(n ast.Node) bool {
			switch x := n.(type) {
			case *ast.ValueSpec:
				for i, nm := range x.Names {
					if it.info.Defs[nm] == o && len(x.Values) == len(x.Names) {
						init = x.Values[i]
					}
				}
			case *ast.AssignStmt:
				for _, l := range x.Lhs {
					root := ast.Unparen(l)
					for {
						switch r := root.(type) {
						case *ast.IndexExpr:
							root = ast.Unparen(r.X)
							continue
						case *ast.SelectorExpr:
							if _, isField := it.info.Selections[r]; isField {
								root = ast.Unparen(r.X)
								continue
							}
						}
						break
					}
					if id, ok := root.(*ast.Ident); ok && it.info.Uses[id] == o {
						written = true
					}
				}
			case *ast.UnaryExpr:
				if id, ok := ast.Unparen(x.X).(*ast.Ident); ok && x.Op == token.AND && it.info.Uses[id] == o {
					written = true
				}
			case *ast.CallExpr:
				if bi, ok := core.Callee(it.info, x).(*types.Builtin); ok && bi.Name() == "delete" && len(x.Args) > 0 {
					if id, ok := ast.Unparen(x.Args[0]).(*ast.Ident); ok && it.info.Uses[id] == o {
						written = true
					}
				}
			}
			return true
		})
	}
	lit, ok := ast.Unparen(init).(*ast.CompositeLit)
	if init == nil || !ok || written {
		return ival{}, false
	}
	v, ok := it.composite(lit)
	if !ok {
		return ival{}, false
	}
	it.env[o] = v
	if it.glob != nil {
		it.glob[o] = v
	}
	return v, true
}

// builtMap evaluates `var m = f()` where f (no parameters) creates a map,
// stores constant string entries (directly, or in a range over a composite
// literal of constant pairs) and returns it. The CompositeLit result is only
// used for positions (nil here: the rule then points at the function).
func builtMap(c *core.Ctx, pk *packages.Package, obj types.Object) (map[string]string, *ast.CompositeLit) {
	var init ast.Expr
	for _, f := range pk.Syntax {
		ast.Inspect(f, func(n ast.Node) bool {
			if vs, ok := n.(*ast.ValueSpec); ok {
				for i, nm := range vs.Names {
					if pk.TypesInfo.Defs[nm] == obj && len(vs.Values) == len(vs.Names) {
						init = vs.Values[i]
					}
				}
			}
			return true
		})
	}
	call, ok := ast.Unparen(init).(*ast.CallExpr)
	if init == nil || !ok || len(call.Args) != 0 {
		return nil, nil
	}
	fn := c.FnOf(core.CalleeFunc(pk.TypesInfo, call))
	if fn == nil || fn.Decl.Body == nil {
		return nil, nil
	}
	info := fn.Pkg.TypesInfo
	var mv types.Object
	m := map[string]string{}
	var anyLit *ast.CompositeLit
	str := func(e ast.Expr) (string, bool) { return core.StringConst(info, e) }
	for _, st := range fn.Decl.Body.List {
		switch x := st.(type) {
		case *ast.AssignStmt:
			if len(x.Lhs) != 1 || len(x.Rhs) != 1 {
				return nil, nil
			}
			if ix, ok := ast.Unparen(x.Lhs[0]).(*ast.IndexExpr); ok && mv != nil && core.ObjOf(info, identOfExpr(ix.X)) == mv {
				k, ok1 := str(ix.Index)
				v, ok2 := str(x.Rhs[0])
				if !ok1 || !ok2 {
					return nil, nil
				}
				if _, dup := m[k]; dup {
					return nil, nil
				}
				m[k] = v
				continue
			}
			if mv != nil {
				return nil, nil
			}
			switch r := ast.Unparen(x.Rhs[0]).(type) {
			case *ast.CallExpr:
				if bi, ok := core.Callee(info, r).(*types.Builtin); !ok || bi.Name() != "make" {
					return nil, nil
				}
			case *ast.CompositeLit:
				for _, el := range r.Elts {
					kv, ok := el.(*ast.KeyValueExpr)
					if !ok {
						return nil, nil
					}
					k, ok1 := str(kv.Key)
					v, ok2 := str(kv.Value)
					if !ok1 || !ok2 {
						return nil, nil
					}
					m[k] = v
				}
				anyLit = r
			default:
				return nil, nil
			}
			mv = core.ObjOf(info, x.Lhs[0])
		case *ast.RangeStmt:
			// for _, e := range <literal of pairs> { m[e[0]] = e[1] }   or   { m[e.k] = e.v }
			lit, ok := ast.Unparen(x.X).(*ast.CompositeLit)
			ev, _ := x.Value.(*ast.Ident)
			if !ok || ev == nil || mv == nil || len(x.Body.List) != 1 {
				return nil, nil
			}
			as, ok := x.Body.List[0].(*ast.AssignStmt)
			if !ok || len(as.Lhs) != 1 || len(as.Rhs) != 1 {
				return nil, nil
			}
			ix, ok := ast.Unparen(as.Lhs[0]).(*ast.IndexExpr)
			if !ok || core.ObjOf(info, identOfExpr(ix.X)) != mv {
				return nil, nil
			}
			part := func(e ast.Expr, el *ast.CompositeLit) (string, bool) {
				switch p := ast.Unparen(e).(type) {
				case *ast.IndexExpr: // e[i]
					if core.ObjOf(info, identOfExpr(p.X)) != core.ObjOf(info, ev) {
						return "", false
					}
					i, ok := core.IntConst(info, p.Index)
					if !ok || int(i) >= len(el.Elts) {
						return "", false
					}
					return str(el.Elts[i])
				case *ast.SelectorExpr: // e.f
					if core.ObjOf(info, identOfExpr(p.X)) != core.ObjOf(info, ev) {
						return "", false
					}
					for _, fe := range el.Elts {
						if kv, ok := fe.(*ast.KeyValueExpr); ok {
							if id, ok := kv.Key.(*ast.Ident); ok && id.Name == p.Sel.Name {
								return str(kv.Value)
							}
						}
					}
					if st, ok := info.TypeOf(el).Underlying().(*types.Struct); ok {
						for i := 0; i < st.NumFields() && i < len(el.Elts); i++ {
							if _, keyed := el.Elts[i].(*ast.KeyValueExpr); !keyed && st.Field(i).Name() == p.Sel.Name {
								return str(el.Elts[i])
							}
						}
					}
				}
				return "", false
			}
			for _, e := range lit.Elts {
				el, ok := e.(*ast.CompositeLit)
				if !ok {
					return nil, nil
				}
				k, ok1 := part(ix.Index, el)
				v, ok2 := part(as.Rhs[0], el)
				if !ok1 || !ok2 {
					return nil, nil
				}
				if _, dup := m[k]; dup {
					return nil, nil
				}
				m[k] = v
			}
			anyLit = lit
		case *ast.ReturnStmt:
			if len(x.Results) != 1 || mv == nil || core.ObjOf(info, identOfExpr(x.Results[0])) != mv {
				return nil, nil
			}
			if anyLit == nil {
				anyLit = &ast.CompositeLit{Lbrace: fn.Decl.Pos(), Rbrace: fn.Decl.Pos()}
			}
			return m, anyLit
		default:
			return nil, nil
		}
	}
	return nil, nil
}

func identOfExpr(e ast.Expr) *ast.Ident {
	id, _ := ast.Unparen(e).(*ast.Ident)
	if id == nil {
		return &ast.Ident{Name: "\x00"}
	}
	return id
}
